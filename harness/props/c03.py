"""C03 -- segments tile each chromosome and account for every surviving bin.

spec/Segments.tla: P-layer (tiling / accounting / aggregation clauses) and A-layer (by_arm, bin
filters, breakpoints -> segments, run squashing, endpoint stretch, gene/weight/depth aggregation)
around an UNINTERPRETED numeric kernel (any breakpoint set / any state sequence).

Direction 1: TLC enumerates every small bin table x every set of filtered bins x every breakpoint
set (MC_Segments); each state is replayed into the real do_segmentation with the numeric kernel
replaced by one that returns exactly the chosen breakpoints (haar: UnifyLevels; hmm: the model's
predict()) and by_arm's default constants scaled down; by_arm alone is enumerated and replayed
through GenomicArray.by_arm(min_gap_size, min_arm_bins).
Direction 2 (main binding): seeded bin tables per the quantifier on dyadic grids run through the
real do_segmentation (none, haar, hmm, hmm-tumor, hmm-germline x skip_low x skip_outliers x
min_weight x processes); the bins that reach the kernel are recorded by wrapping the kernels'
entry points.  Every record is judged by TLC (Trace_Segments).
cbs / flasso need R (Rscript is not installed): not run.
"""
from __future__ import annotations

import json
import math
import os
import shutil
import tempfile

from ..core import Ctx, generic_replay
from ..tlc import MachineryError

ID = "C03"
LEVEL = "model_checking"
TRACE = "Trace_Segments"
METHODS = ["none", "haar", "hmm", "hmm-tumor", "hmm-germline"]
HMM = ("hmm", "hmm-tumor", "hmm-germline")
REQUIRE_CLAUSES = ["sorted_disjoint", "positive_length", "inside_span", "survivor_in_exactly_one", "probes_count",
                   "probes_total", "chrom_with_survivor_has_segment", "arm_endpoints", "weight_sum", "depth_wavg",
                   "gene_list", "log2_wavg", "byarm_rule"]

WU, LU, DU = 64, 1024, 64          # grids of Segments.tla
COLS = ["chromosome", "start", "end", "gene", "log2", "depth", "weight"]


# --------------------------------------------------------------------------- encoding
def _fxok(x):
    """observed float -> [neg, hi, lo, ok] (Segments.tla: |x| * 10^12 = hi * 10^6 + lo)"""
    from fractions import Fraction
    x = float(x)
    if x != x or math.isinf(x) or abs(x) >= 2147:
        return {"neg": False, "hi": 0, "lo": 0, "ok": False}
    v = round(abs(Fraction(x)) * 10**12)
    hi, lo = divmod(int(v), 10**6)
    return {"neg": bool(x < 0), "hi": hi, "lo": lo, "ok": True}


def _chrom_class(name):
    """class of a chromosome by its name (an encoding of the name: the specification cannot look into strings)"""
    core = name[3:] if name.lower().startswith("chr") else name
    return "auto" if core.isdigit() else "x" if core.upper() == "X" else "y" if core.upper() == "Y" else "other"


ROUTES = ("fresh", "masked", "permuted", "offset")


def _routes_enabled():
    """development override: VERIF_C03_ROUTES=fresh restricts the construction routes (mutant demonstrations)"""
    env = os.environ.get("VERIF_C03_ROUTES", "").strip()
    rts = tuple(x for x in env.split(",") if x in ROUTES) if env else ROUTES
    return rts or ROUTES


def assign_routes(inputs, start=0):
    """construction route of the bin table as an input dimension: rotate over the routes, record by record"""
    rts = _routes_enabled()
    for k, x in enumerate(inputs):
        x["route"] = rts[(start + k) % len(rts)]
    return inputs


def _cna(bins, names, route="fresh"):
    """The bin table handed to the code under test.  All routes give the SAME rows in the SAME order and differ only
    in the row index labels:
      fresh     CopyNumArray.from_rows: labels 0..n-1
      masked    boolean-mask selection out of a larger table with decoy rows in between: gapped labels
      permuted  rows entered in another order and brought back by position, no reset_index: permuted labels
      offset    labels start at 1000
    """
    import numpy as np
    from cnvlib.cnary import CopyNumArray as CNA
    rows = [(names[b[0] - 1], b[1], b[2], b[3], b[5] / LU, b[6] / DU, b[4] / WU) for b in bins]
    n = len(rows)
    meta = {"sample_id": "s"}
    if route == "masked":
        big, keep = [], []
        for k, r in enumerate(rows):
            if k % 2 == 0:                      # a decoy row in front of every other row (and of the first)
                big.append((r[0], r[1] + 1, r[2] + 1, "decoy", 3.25, 7.0, 1.0))
                keep.append(False)
            big.append(r)
            keep.append(True)
        big.append((rows[-1][0], rows[-1][2] + 5, rows[-1][2] + 9, "decoy", 3.25, 7.0, 1.0))
        keep.append(False)
        arr = CNA.from_rows(big, columns=COLS, meta_dict=meta)[np.array(keep)]
    elif route == "permuted" and n > 1:
        perm = list(range(n))[::-1] if n < 4 else [k for k in range(n) if k % 3 == 1] + \
            [k for k in range(n) if k % 3 == 2] + [k for k in range(n) if k % 3 == 0]
        arr = CNA.from_rows([rows[k] for k in perm], columns=COLS, meta_dict=meta)
        inv = [0] * n
        for pos, k in enumerate(perm):
            inv[k] = pos
        arr.data = arr.data.iloc[inv]           # intended order again; the labels stay permuted
    else:
        arr = CNA.from_rows(rows, columns=COLS, meta_dict=meta)
        if route in ("offset", "permuted"):
            arr.data.index = arr.data.index + 1000
    got = [(c, int(a), int(b), g, float(l), float(d), float(w)) for c, a, b, g, l, d, w in
           zip(arr.chromosome, arr.start, arr.end, arr["gene"], arr["log2"], arr["depth"], arr["weight"])]
    if got != [tuple(r) for r in rows]:
        raise MachineryError(f"table construction route {route} did not reproduce the rows")
    return arr


def _enc_out(seg, names):
    df = seg.data
    out = []
    has = {c: (c in df.columns) for c in ("probes", "gene", "weight", "depth", "log2")}
    for t in df.itertuples(index=False):
        ch = t.chromosome
        p = getattr(t, "probes") if has["probes"] else float("nan")
        pok = isinstance(p, (int, float)) or hasattr(p, "__float__")
        try:
            pf = float(p)
            pok = pf == pf and pf == int(pf) and abs(pf) < 2**31
        except (TypeError, ValueError):
            pok = False
        g = str(getattr(t, "gene")) if has["gene"] else ""
        out.append({"c": names.index(ch) + 1 if ch in names else 0, "s": int(t.start), "e": int(t.end),
                    "p": int(pf) if pok else 0, "pok": bool(pok),
                    "g": [] if g == "-" else g.split(","),
                    "w": _fxok(getattr(t, "weight") if has["weight"] else float("nan")),
                    "d": _fxok(getattr(t, "depth") if has["depth"] else float("nan")),
                    "l": _fxok(getattr(t, "log2") if has["log2"] else float("nan"))})
    return out


# --------------------------------------------------------------------------- observation below the call boundary
class _Recorder:
    """Records which bins reach the segmentation kernel (its entry point is wrapped) and the robust spread the
    HMM is built with.  In-process calls go to a list; calls in fork()ed pool workers (processes > 1) append
    to per-pid files in `dirpath`."""

    def __init__(self, dirpath=None):
        self.dirpath = dirpath
        self.pid = os.getpid()
        self.calls = []
        self.sd = None

    def kernel_entry(self, cnarr):
        keys = [[str(c), int(s), int(e)] for c, s, e in zip(cnarr.data["chromosome"], cnarr.data["start"],
                                                             cnarr.data["end"])]
        if os.getpid() == self.pid:
            self.calls.append(keys)
        else:
            with open(os.path.join(self.dirpath, f"{os.getpid()}.ndjson"), "a") as f:
                f.write(json.dumps(keys) + "\n")

    def all_calls(self):
        calls = list(self.calls)
        if self.dirpath:
            for fn in sorted(os.listdir(self.dirpath)):
                if fn.endswith(".ndjson"):
                    with open(os.path.join(self.dirpath, fn)) as f:
                        calls += [json.loads(ln) for ln in f if ln.strip()]
        return calls


class _Patch:
    """Temporarily replace module attributes (late binding: the code looks them up at call time)."""

    def __init__(self):
        self.saved = []

    def set(self, obj, name, value):
        self.saved.append((obj, name, getattr(obj, name)))
        setattr(obj, name, value)

    def restore(self):
        for obj, name, old in reversed(self.saved):
            setattr(obj, name, old)
        self.saved = []


def _wrap_entry(f, rec):
    def wrapped(cnarr, *a, **k):
        rec.kernel_entry(cnarr)
        return f(cnarr, *a, **k)
    return wrapped


class _FakeModel:
    """Stands in for the fitted pomegranate model when the kernel is forced: predict() returns the state path
    chosen by TLC (state changes exactly at the cuts)."""
    states = ()
    edges = ()

    def __init__(self, kern):
        self.kern = sorted(kern)
        self.rank0 = 0

    def predict(self, obs, algorithm="map"):
        n = len(obs)
        out = [sum(1 for p in self.kern if p < self.rank0 + i + 1) % 2 for i in range(n)]
        self.rank0 += n
        return out


def execute(inp):
    """Run the real code on one encoded input; return the full record (input fields + observations)."""
    import numpy as np
    import cnvlib.segmentation as S
    from skgenome import GenomicArray
    op, names, bins = inp["op"], inp["names"], inp["bins"]
    rec = dict(inp)
    rec.setdefault("route", "fresh")
    rec.update(surv=[False] * len(bins), sd9=0, sdseen=False, out=[], err="", arms=[], kcalls=0,
               cls=[_chrom_class(n) for n in names])
    for b in bins:
        if "," in b[3]:
            raise MachineryError("gene names in C03 inputs must not contain commas (the gene field is split at commas)")
    patch = _Patch()
    tmpdir = None
    try:
        cna = _cna(bins, names, inp.get("route", "fresh"))
        index = {(names[b[0] - 1], b[1], b[2]): k for k, b in enumerate(bins)}
        if len(index) != len(bins):
            raise MachineryError("C03 input has duplicate bin coordinates")
        if op == "byarm":
            try:
                arms = []
                for _chrom, sub in cna.by_arm(min_gap_size=inp["gap"], min_arm_bins=inp["mab"]):
                    # rows are identified by their coordinates (never by index label); a row that is not an input
                    # bin is encoded as 0, which no arm of the specification contains
                    arms.append([index.get((str(c), int(a), int(b)), -1) + 1
                                 for c, a, b in zip(sub.data["chromosome"], sub.data["start"], sub.data["end"])])
                rec["arms"] = arms
            except Exception as e:
                rec["err"] = type(e).__name__ + ": " + str(e)[:120]
            return rec
        if inp["procs"] > 1:
            tmpdir = tempfile.mkdtemp(prefix="c03-surv-")
        recd = _Recorder(tmpdir)
        patch.set(S.haar, "segment_haar", _wrap_entry(S.haar.segment_haar, recd))
        patch.set(S.none, "segment_none", _wrap_entry(S.none.segment_none, recd))
        patch.set(S.hmm, "segment_hmm", _wrap_entry(S.hmm.segment_hmm, recd))
        real_bwmv = S.hmm.biweight_midvariance

        def bwmv(*a, **k):
            v = real_bwmv(*a, **k)
            recd.sd = float(v)
            return v
        patch.set(S.hmm, "biweight_midvariance", bwmv)
        if (inp["gap"], inp["mab"]) != (100000, 50):
            # by_arm's constants scaled down (direction 1): do_segmentation / haar / hmm call by_arm() with defaults
            fn = GenomicArray.by_arm
            old = fn.__defaults__
            fn.__defaults__ = (inp["gap"], inp["mab"])
            patch.saved.append((fn, "__defaults__", old))
        if inp["forced"]:
            kern = sorted(inp["kern"])
            state = {"rank0": 0, "n": 0}
            real_one = S.haar.one_chrom

            def one_chrom(cnarr, fdr_q, chrom):
                state["rank0"] += state["n"]
                state["n"] = len(cnarr)
                return real_one(cnarr, fdr_q, chrom)

            def unify(base, addon, window):     # the peak detection's result := the chosen breakpoints
                return np.array([p - state["rank0"] for p in kern
                                 if state["rank0"] < p < state["rank0"] + state["n"]], dtype=np.int_)
            patch.set(S.haar, "one_chrom", one_chrom)
            patch.set(S.haar, "UnifyLevels", unify)
            patch.set(S.hmm, "hmm_get_model", lambda *a, **k: _FakeModel(kern))
        try:
            seg = S.do_segmentation(cna, op, skip_low=inp["skiplow"], skip_outliers=inp["skipout"],
                                    min_weight=inp["minw"] / WU, processes=inp["procs"])
            rec["out"] = _enc_out(seg, names)
        except Exception as e:   # an exception is an outcome the specification judges (clause noerr)
            rec["err"] = type(e).__name__ + ": " + str(e)[:120]
        calls = recd.all_calls()
        rec["kcalls"] = len(calls)
        for call in calls:
            for c, s, e in call:
                k = index.get((c, s, e))
                if k is None or rec["surv"][k]:
                    raise MachineryError(f"kernel received a row that is not exactly one input bin: {c}:{s}-{e}")
                rec["surv"][k] = True
        rec["sdseen"] = recd.sd is not None
        if recd.sd is not None and recd.sd == recd.sd and recd.sd > 0:
            rec["sd9"] = max(1, min(2**31 - 1, int(round(recd.sd * 1e9))))
    finally:
        patch.restore()
        if tmpdir:
            shutil.rmtree(tmpdir, ignore_errors=True)
    return rec


# --------------------------------------------------------------------------- direction 1: MC scopes
def _tla_set(xs):
    return "{" + ", ".join(('"%s"' % x) if isinstance(x, str) else ("TRUE" if x is True else "FALSE" if x is False
                                                                    else str(x)) for x in xs) + "}"


def _mc_constants(sc):
    return {"NChromMC": sc["nchrom"], "MaxBinsMC": sc["maxbins"], "MethodsMC": _tla_set(sc["methods"]),
            "MinGap": sc["gap"], "MinArmBins": sc["mab"], "Kinds": _tla_set(sc["kinds"]),
            "SkipLows": _tla_set(sc["skiplows"]), "MinWs": _tla_set(sc["minws"]),
            "GapSizes": _tla_set(sc["gapsizes"]), "WithGap": "TRUE" if sc["withgap"] else "FALSE",
            "ArmMaxBins": sc.get("armbins", 3), "ArmGaps": _tla_set(sc.get("armgaps", [0])),
            "ArmMabs": _tla_set(sc.get("armmabs", [1]))}


def _inputs_from_states(states, sc):
    out = []
    for st in states:
        if st["ph"] != "ret":
            continue
        bins = [list(b) for b in st["bins"]]
        nchrom = max(b[0] for b in bins)
        out.append({"op": st["op"], "bins": bins, "names": sc["names"][:nchrom], "skiplow": bool(st["skiplow"]),
                    "skipout": 0, "minw": st["minw"], "procs": 1, "gap": sc["gap"], "mab": st["mabv"],
                    "forced": True, "kern": sorted(st["kern"])})
    return out


# --------------------------------------------------------------------------- direction 2: generator
AUTOSOMES = ["chr1", "chr2", "chr3", "chr7", "chr12", "chr21"]
GENES = ["A", "A", "B", "C", "TP53", "Antitarget", "Antitarget", "-", ".", "CGH", "Background", "D", "E"]


def _chrom_names(rng, n):
    sex = rng.choice([[], [], ["chrX"], ["chrX", "chrY"], ["chrY"]])[:n]
    if n == 1 and rng.random() < 0.85:
        sex = []
    autos = sorted(rng.sample(AUTOSOMES, n - len(sex)), key=lambda c: int(c[3:]))
    names = autos + sex
    if rng.random() < 0.25:
        names = [c[3:] for c in names]
    return names


def _gen_chrom(rng, c, n, opts):
    """bins of one chromosome: [c, s, e, g, w, l, d]"""
    bins = []
    pos = rng.choice([0, 0, 100, 5000, 1000000])
    gaps = dict(opts.get("gaps", {}))           # 1-based index of the bin AFTER the gap -> size
    level = rng.choice([0, 0, -1024, 600, 300])
    step_at = rng.randint(1, n) if rng.random() < 0.6 else n + 1
    gene = rng.choice(GENES)
    for k in range(1, n + 1):
        if k in gaps:
            pos += gaps[k]
        elif k > 1:
            pos += rng.choice([0, 0, 0, 10, 500, 2000])
        ln = rng.randint(50, 400)
        if rng.random() < 0.5:
            gene = rng.choice(GENES)
        w = rng.choice([32, 48, 64, 64, 64])
        noise = int(round(rng.gauss(0, opts.get("sd", 40))))
        l = (level if k < step_at else 0) + noise
        d = max(1, int(round(2 ** (l / LU) * DU * rng.choice([1, 1, 4, 30]))))
        u = rng.random()
        if u < opts.get("p_w0", 0.04):
            w = 0
        elif u < opts.get("p_w0", 0.04) + 0.04:
            w = 16                                 # 0.25: below min_weight 0.5 / 0.25 boundary
        elif u < opts.get("p_w0", 0.04) + 0.07:
            l, d = -20 * LU, 0                     # null coverage
        elif u < opts.get("p_w0", 0.04) + 0.08:
            l = -15 * LU                           # exactly at the low-coverage cut: kept
        elif u < opts.get("p_w0", 0.04) + 0.09:
            l = -15 * LU - 1                       # one grid step below: dropped with skip_low
        elif u < opts.get("p_w0", 0.04) + 0.10:
            d = 0                                  # depth 0 with an ordinary log2: dropped with skip_low
        bins.append([c, pos, pos + ln, gene, w, l, d])
        pos += ln
    for k in opts.get("outliers", []):             # gross outliers (dropped by drop_outliers when > 50 bins)
        bins[k][5] += rng.choice([-1, 1]) * 8 * LU
    for k in opts.get("edge", []):                 # filtered edge bins
        how = opts.get("edge_how") or rng.choice(["w0", "null", "wlow"])
        b = bins[k]
        if how == "w0":
            b[4] = 0
        elif how == "null":
            b[5], b[6] = -20 * LU, 0
        else:
            b[4] = 16
    return bins


def _gap_layout(rng, n):
    """large gaps for a chromosome of n bins: on / next to the by_arm margins, of (nearly) centromere size"""
    if n < 60 or rng.random() < 0.3:
        return {}
    lo, hi = 52, n - 50                            # admissible first bins of the q arm (margin 50)
    pos_choices = [51, 52, 53, n // 2, n - 51, n - 50, n - 49]
    k = rng.choice([p for p in pos_choices if 2 <= p <= n])
    size = rng.choice([99999, 100000, 100001, 3000000, 3000000])
    gaps = {k: size}
    r = rng.random()
    if r < 0.25 and hi > lo:                       # a second, larger or equal gap: argmax / first-of-equals
        k2 = rng.randint(2, n)
        if k2 != k:
            gaps[k2] = rng.choice([size, size + 7, 250000])
    return gaps


def _gen_table(rng, big=False):
    """-> names, bins, force: `force` are config fields the table is built for (the filter that empties whole
    chromosomes in "solo" tables must be on)"""
    nchrom = rng.choice([1, 1, 2, 2, 3, 4, 6])
    names = _chrom_names(rng, nchrom)
    # "solo": exactly one chromosome keeps surviving bins; all bins of the others are null-coverage (dropped by
    # skip_low) or of weight 1/4 (dropped by min_weight 1/2); gene names are made chromosome-specific
    solo = rng.randint(1, nchrom) if nchrom >= 2 and rng.random() < 0.3 else 0
    solo_how = rng.choice(["null", "wq"])
    sizes_small = [1, 1, 2, 3, 5, 12, 30, 49, 50, 51, 52, 60]
    sizes_big = [100, 101, 102, 103, 150, 250, 400]
    bins = []
    for c in range(1, nchrom + 1):
        n = rng.choice(sizes_big if (big or rng.random() < 0.25) else sizes_small)
        opts = {"gaps": _gap_layout(rng, n), "sd": rng.choice([0, 8, 40, 200]),
                "p_w0": rng.choice([0.0, 0.04, 0.3])}
        edge = []
        r = rng.random()
        if r < 0.35:
            edge = [0]
        elif r < 0.55:
            edge = [n - 1]
        elif r < 0.7:
            edge = [0, n - 1]
        elif r < 0.78:
            edge = list(range(n))                  # every bin of the chromosome filtered (if the filter is on)
        elif r < 0.86 and n >= 2:
            keep = rng.randrange(n)
            edge = [k for k in range(n) if k != keep]     # exactly one survivor
        if opts["gaps"] and rng.random() < 0.5:    # filtered bins at the inner arm ends too
            g = sorted(opts["gaps"])[0]
            edge += [k for k in (g - 2, g - 1) if 0 <= k < n]
        if solo:
            edge = [] if c == solo else list(range(n))
            opts["edge_how"] = "null" if solo_how == "null" else "wlow"
            opts["p_w0"] = 0.0
        opts["edge"] = sorted(set(edge))
        if n > 50 and rng.random() < 0.7:          # one or two gross outliers: interior, at a chromosome / arm edge
            cand = [0, n - 1, rng.randrange(n), rng.randrange(n)]
            if opts["gaps"]:
                g = sorted(opts["gaps"])[0]
                cand += [g - 2, g - 1]
            opts["outliers"] = sorted({k for k in rng.sample(cand, rng.choice([1, 2])) if 0 <= k < n})
        cb = _gen_chrom(rng, c, n, opts)
        if solo:
            for b in cb:
                if b[3] not in ("-", ".", "CGH", "Antitarget", "Background"):
                    b[3] = f"{b[3]}_{c}"
        bins += cb
    force = {}
    if solo:
        force = {"skiplow": True} if solo_how == "null" else {"minw": 32}
    return names, bins, force


def _configs(rng, n_cfg, procs_choices):
    cfgs = []
    for m in METHODS:
        for _ in range(n_cfg):
            cfgs.append({"op": m, "skiplow": rng.random() < 0.5, "skipout": rng.choice([0, 0, 10, 10, 3, 1]),
                         "minw": rng.choice([0, 0, 16, 17, 32]), "procs": rng.choice(procs_choices)})
    return cfgs


def random_inputs(ctx: Ctx, n_tables, n_cfg, big_every=8):
    rng = ctx.rng
    out = []
    for t in range(n_tables):
        names, bins, force = _gen_table(rng, big=(t % big_every == big_every - 1))
        for cfg in _configs(rng, n_cfg, [1, 1, 2, 3, 16]):
            if force and rng.random() < 0.8:
                cfg.update(force)
            out.append(dict(cfg, bins=bins, names=names, gap=100000, mab=50, forced=False, kern=[]))
    return out


def structured_inputs():
    """the boundary inputs of DESIGN 8.1 that a random draw might miss"""
    out = []

    def chrom(c, n, gaps=None, w0=(), null=(), name="G", wq=()):
        bins, pos = [], 1000
        for k in range(1, n + 1):
            pos += (gaps or {}).get(k, 0)
            l = 256 if k % 7 < 3 else -128
            b = [c, pos, pos + 100, f"{name}{k // 4}", 0 if k in w0 else (64, 48, 32)[k % 3], l, 64 + 16 * (k % 5)]
            if k in null:
                b[5], b[6] = -20 * LU, 0
            if k in wq:
                b[4] = 16
            bins.append(b)
            pos += 100
        return bins

    def add(bins, names, **cfg):
        for m in METHODS:
            base = {"op": m, "skiplow": False, "skipout": 0, "minw": 0, "procs": 1}
            base.update(cfg)
            out.append(dict(base, bins=bins, names=names, gap=100000, mab=50, forced=False, kern=[]))

    # the minimal failing input of the endpoint-stretch finding: first and last bin of the arm have weight 0
    add(chrom(1, 6, w0=(1, 6)), ["chr1"])
    add(chrom(1, 6, null=(1, 6)), ["chr1"], skiplow=True)
    # exactly 101 / 102 bins, gap of exactly 1e5 / one less at the only admissible place (bin 52)
    for n in (101, 102, 103):
        for size in (99999, 100000):
            for k in (51, 52, 53):
                add(chrom(1, n, gaps={k: size}), ["chr1"])
                add(chrom(1, n, gaps={k: size}, w0=(1, k - 1, k, n)), ["chr1"])
    # an arm of exactly one surviving bin; all bins of an arm filtered
    add(chrom(1, 120, gaps={60: 3000000}, w0=tuple(range(1, 60)) + tuple(range(61, 121))), ["chr1"])
    add(chrom(1, 120, gaps={60: 3000000}, w0=tuple(range(60, 121))), ["chr1"])
    add(chrom(1, 120, gaps={60: 3000000}, w0=tuple(range(1, 60))) + chrom(2, 40), ["chr1", "chr2"])
    # all bins of the first / the last / a middle chromosome filtered
    add(chrom(1, 6, w0=range(1, 7)) + chrom(2, 30) + chrom(3, 8), ["chr1", "chr2", "chrX"])
    add(chrom(1, 30) + chrom(2, 6, w0=range(1, 7)) + chrom(3, 8), ["chr1", "chr2", "chrX"])
    add(chrom(1, 30) + chrom(2, 8) + chrom(3, 6, w0=range(1, 7)), ["chr1", "chr2", "chrY"])
    add(chrom(1, 6, w0=range(1, 7)), ["chr1"])
    # exactly ONE chromosome keeps surviving bins; the wholly dropped ones have the same coordinates, non-zero
    # weight / depth and their own gene names (a bin -> segment match by coordinates alone would count them in)
    for nchr, keep in ((2, 1), (2, 2), (3, 2), (4, 1), (4, 4)):
        nm = ["chr1", "chr2", "chr7", "chrX"][:nchr]
        for how in ("null", "wq", "w0"):
            bins = []
            for c in range(1, nchr + 1):
                n = 30 if c == keep else (12, 40, 30)[c % 3]
                kw = {} if c == keep else {how: range(1, n + 1)}
                bins += chrom(c, n, name="KLMN"[c - 1], **kw)
            add(bins, nm, skiplow=(how == "null"), minw=(32 if how == "wq" else 0))
            add(bins, nm, skiplow=(how == "null"), minw=(32 if how == "wq" else 0), procs=3)
    # the outlier filter (skip_outliers = factor; 10 is the default, 3 / 1 actually drop an isolated spike / edge bins)
    spiky = chrom(1, 130, gaps={70: 3000000})
    for k in (0, 30, 68, 69, 100, 129):
        spiky[k][5] += 8 * LU
    for f in (10, 3, 1):
        add(spiky, ["chr1"], skipout=f)
        add(spiky + chrom(2, 51) + chrom(3, 50), ["chr1", "chr2", "chrX"], skipout=f, skiplow=True)
    # a filtered arm large enough to be split again by by_arm() inside segment_haar / segment_hmm
    add(chrom(1, 400, gaps={200: 3000000, 300: 150000}, w0=(1, 199, 200, 400)), ["chr1"])
    add(chrom(1, 230, gaps={115: 200000}, w0=tuple(range(52, 64))), ["chr1"])
    return out


# --------------------------------------------------------------------------- bookkeeping (counters only)
def _py_arms(cbins, gap=100000, mab=50):
    n = len(cbins)
    margin = max(mab, int(round(0.1 * n)))
    if n > 2 * margin + 1:
        best, bk = None, 0
        for k in range(margin + 1, n - margin):           # 0-based first bin of the q arm
            g = cbins[k][1] - cbins[k - 1][2]
            if best is None or g > best:
                best, bk = g, k
        if best >= gap:
            return [(0, bk - 1), (bk, n - 1)], best
        return [(0, n - 1)], best
    return [(0, n - 1)], None


def _count(ctx, rec):
    ctx.count_input([rec["op"], rec["bins"], rec["skiplow"], rec["skipout"], rec["minw"], rec["procs"], rec["gap"],
                     rec["mab"], rec["kern"], rec["forced"], rec["route"]], nontrivial=len(rec["bins"]) > 1)
    ctx.bump(f"route_{rec['route']}")
    ctx.bump(f"route_{rec['route']}_{'byarm' if rec['op'] == 'byarm' else 'hmm' if rec['op'] in HMM else rec['op']}"
             f"{'_direction1' if rec['forced'] or rec['gap'] != 100000 else ''}")
    if rec["op"] == "byarm":
        return
    bins, surv = rec["bins"], rec["surv"]
    off = 0
    nch = max(b[0] for b in bins)
    for c in range(1, nch + 1):
        cb = [b for b in bins if b[0] == c]
        n = len(cb)
        if rec["gap"] == 100000:
            if n == 101:
                ctx.bump("chrom_exactly_101_bins")
            if n == 102:
                ctx.bump("chrom_exactly_102_bins")
        arms, best = _py_arms(cb, rec["gap"], rec["mab"])
        if best is not None and best == rec["gap"]:
            ctx.bump("central_gap_exactly_min_gap_size")
        if best is not None and best == rec["gap"] - 1:
            ctx.bump("central_gap_one_below_min_gap_size")
        if len(arms) == 2:
            ctx.bump("chrom_split_into_two_arms")
        if not any(surv[off:off + n]):
            ctx.bump("chrom_all_bins_filtered")
            if any(b[4] > 0 for b in cb):
                ctx.bump("chrom_all_bins_filtered_with_nonzero_weight")
        for lo, hi in arms:
            sv = surv[off + lo: off + hi + 1]
            k = sum(sv)
            if k == 0:
                ctx.bump("arm_all_bins_filtered")
            elif k == 1:
                ctx.bump("arm_exactly_one_survivor")
            if k and (not sv[0] or not sv[-1]):
                for e in (off + lo, off + hi):
                    if not surv[e]:
                        b = bins[e]
                        if b[4] == 0:
                            ctx.bump("arm_edge_bin_filtered_zero_weight")
                        elif rec["minw"] and b[4] < rec["minw"]:
                            ctx.bump("arm_edge_bin_filtered_min_weight")
                        elif rec["skiplow"] and (b[5] < -15 * LU or b[6] == 0):
                            ctx.bump("arm_edge_bin_filtered_null_coverage")
                        else:
                            ctx.bump("arm_edge_bin_filtered_outlier")
        off += n
    if nch >= 2 and len({b[0] for b, s in zip(bins, surv) if s}) == 1:
        ctx.bump("exactly_one_chromosome_with_survivors")
    for b, s in zip(bins, surv):
        if not s and b[4] > 0 and not (rec["minw"] and b[4] < rec["minw"]) \
                and not (rec["skiplow"] and (b[5] < -15 * LU or b[6] == 0)):
            ctx.bump("bin_dropped_as_outlier")
        if b[5] == -15 * LU:
            ctx.bump("log2_exactly_at_low_coverage_cut")
        if rec["minw"] and b[4] == rec["minw"]:
            ctx.bump("weight_exactly_min_weight")
    if rec["procs"] > 1:
        ctx.bump(f"processes_{rec['procs']}")


# --------------------------------------------------------------------------- the check
def _run_mixed(ctx, inputs):
    """processes == 1 in the (daemonic) fork pool; processes > 1 each in a fresh non-daemonic process, because the
    code under test starts its own process pool."""
    from .c10 import fresh_process_map
    from ..core import NCPU, _init_worker
    serial = [(k, x) for k, x in enumerate(inputs) if x.get("procs", 1) == 1]
    par = [(k, x) for k, x in enumerate(inputs) if x.get("procs", 1) > 1]
    recs = [None] * len(inputs)
    for (k, _), r in zip(serial, ctx.execute(execute, [x for _, x in serial])):
        recs[k] = r
    if par:
        outdir = ctx.scratch.sub("fresh")
        _init_worker()
        got = fresh_process_map(_execute_guarded, [x for _, x in par], max(1, NCPU // 3), outdir, timeout=900)
        for (k, _), r in zip(par, got):
            if "__harness_error__" in r:
                raise MachineryError("driver crashed (not an implementation outcome):\n" + r["__harness_error__"])
            recs[k] = r
        ctx.records += len(par)
        print(f"  [exec] {len(par)} real calls with processes > 1 (fresh processes)", file=__import__("sys").stderr)
    return recs


def _execute_guarded(inp):
    import traceback
    import logging
    import warnings
    logging.disable(logging.CRITICAL)
    warnings.simplefilter("ignore")
    try:
        return execute(inp)
    except Exception:
        return {"__harness_error__": traceback.format_exc()}


def run(ctx: Ctx):
    thorough = ctx.tier == "thorough"
    ctx.rule = ("direction 1: every state of MC_Segments (bin table x filtered-bin set x breakpoint set x method, by_arm "
                "constants scaled down) replayed into do_segmentation with the numeric kernel forced to the chosen "
                "breakpoints, and every by_arm table replayed through GenomicArray.by_arm; direction 2: seeded bin tables "
                "(1..400 bins x 1..6 chromosomes) x method x skip_low x skip_outliers x min_weight x processes through the "
                "unmodified do_segmentation. A case is distinct by (method, bins, filters, processes, by_arm constants, "
                "forced cuts, construction route); non-trivial when the table has >= 2 bins. The bin table handed to the code is "
                "built, rotating per record, by one of four routes (fresh / masked / permuted / offset) that give the same "
                "rows in the same order and differ only in the row index labels.")
    names2 = ["chr1", "chrX"]
    if thorough:
        shard = ctx.seed % 4
        scopes = [
            dict(name="1 chromosome <= 6 bins, ok/zero-weight, every large-gap position (size min_gap-1 / min_gap)",
                 nchrom=1, maxbins=6, methods=["none", "haar", "hmm"], gap=10, mab=1, kinds=["ok", "w0"],
                 skiplows=[False], minws=[0], gapsizes=[9, 10], withgap=True),
            dict(name="1 chromosome <= 4 bins, all six bin kinds x skip_low x min_weight",
                 nchrom=1, maxbins=4, methods=["none", "haar", "hmm"], gap=10, mab=1,
                 kinds=["ok", "w0", "wlow", "null", "l15", "l15m"], skiplows=[False, True], minws=[0, 16, 17],
                 gapsizes=[10], withgap=False),
            dict(name="2 chromosomes <= 3 bins each (same coordinates on both), ok/zero-weight/null x skip_low",
                 nchrom=2, maxbins=3, methods=["none", "haar", ["hmm", "hmm-tumor", "hmm-germline", "hmm"][shard]],
                 gap=10, mab=1, kinds=["ok", "w0", "null"], skiplows=[False, True], minws=[0], gapsizes=[10],
                 withgap=False),
        ]
        arm_scope = dict(armbins=8, armgaps=[0, 9, 10], armmabs=[1, 2, 3])
    else:
        scopes = [
            dict(name="1 chromosome <= 5 bins, ok/zero-weight, every large-gap position (size min_gap-1 / min_gap)",
                 nchrom=1, maxbins=5, methods=["none", "haar", "hmm"], gap=10, mab=1, kinds=["ok", "w0"],
                 skiplows=[False], minws=[0], gapsizes=[9, 10], withgap=True),
            dict(name="1 chromosome <= 3 bins, all six bin kinds x skip_low x min_weight",
                 nchrom=1, maxbins=3, methods=["none", "haar", "hmm-germline"], gap=10, mab=1,
                 kinds=["ok", "w0", "wlow", "null", "l15", "l15m"], skiplows=[False, True], minws=[0, 17],
                 gapsizes=[10], withgap=False),
            dict(name="2 chromosomes <= 2 bins each (same coordinates on both), ok/zero-weight/null x skip_low",
                 nchrom=2, maxbins=2, methods=["none", "haar", "hmm-tumor"], gap=10, mab=1,
                 kinds=["ok", "w0", "null"], skiplows=[False, True], minws=[0], gapsizes=[10], withgap=False),
        ]
        arm_scope = dict(armbins=6, armgaps=[0, 9, 10], armmabs=[1, 2])
    all_records = []
    for k, sc in enumerate(scopes):
        sc["names"] = names2
        cfg = ctx.cfg(f"mc-{k}", spec="Spec", invariants=["DesignOK", "DesignNoStretchOnlyAtEdges"],
                      constants=_mc_constants(sc))
        r, states = ctx.mc("MC_Segments", cfg, timeout=3000, coverage=False)   # -coverage makes this spec ~100x slower
        inputs = assign_routes(_inputs_from_states(states, sc), start=k)
        if len(inputs) * 2 != r.distinct:
            raise MachineryError(f"dump replay: {len(inputs)} ret states parsed, TLC reports {r.distinct} states")
        recs = ctx.execute(execute, inputs)
        all_records += recs
        ctx.notes[f"scope{k}"] = {"scope": sc["name"], "tlc_states": r.distinct, "replayed": len(recs)}
    # by_arm alone
    sc = dict(scopes[0], **arm_scope)
    sc["name"] = (f"by_arm: 1 chromosome <= {arm_scope['armbins']} bins, every gap pattern over {arm_scope['armgaps']}, "
                  f"min_gap_size 10, min_arm_bins in {arm_scope['armmabs']}")
    cfg = ctx.cfg("mc-arm", spec="SpecArm", invariants=["DesignOK"], constants=_mc_constants(sc))
    r, states = ctx.mc("MC_Segments", cfg, timeout=3000, coverage=False)   # -coverage makes this spec ~100x slower
    inputs = []
    for st in states:
        if st["ph"] == "ret":
            inputs.append({"op": "byarm", "bins": [list(b) for b in st["bins"]], "names": ["chr1"], "skiplow": False,
                           "skipout": 0, "minw": 0, "procs": 1, "gap": sc["gap"], "mab": st["mabv"], "forced": False,
                           "kern": []})
    if len(inputs) * 2 != r.distinct:
        raise MachineryError(f"dump replay (by_arm): {len(inputs)} ret states parsed, TLC reports {r.distinct} states")
    all_records += ctx.execute(execute, assign_routes(inputs, start=1))
    ctx.notes["scope_arm"] = {"scope": sc["name"], "tlc_states": r.distinct, "replayed": len(inputs)}
    ctx.exhaustive = "; ".join([s["name"] for s in scopes] + [sc["name"]]) + \
        " -- every dumped transition replayed (numeric kernel forced to the enumerated breakpoints)"
    # the defect as a design-level counterexample (informational; not a design check of the repaired algorithm)
    demo = dict(scopes[0], maxbins=3, methods=["none", "haar"])
    cfg = ctx.cfg("mc-nostretch", spec="Spec", invariants=["DesignNoStretch"], constants=_mc_constants(demo))
    rd = ctx.tlc("MC_Segments", cfg, kind="mc-demo", timeout=600, coverage=False)
    ctx.notes["defect_demo"] = {"invariant": "DesignNoStretch (endpoint stretch as the no-op of pandas copy-on-write)",
                                "violated": "DesignNoStretch" in rd.violated,
                                "meaning": "with StretchEndpointsCoW the clause arm_endpoints fails in the model"}
    if "DesignNoStretch" not in rd.violated:
        raise MachineryError("the documented defect model (StretchEndpointsCoW) no longer breaks arm_endpoints")
    # direction 2
    d2 = structured_inputs() + random_inputs(ctx, 60 if thorough else 20, 3 if thorough else 2)
    # by_arm on the real-size tables too
    seen = set()
    for x in list(d2):
        key = json.dumps(x["bins"])
        if key not in seen:
            seen.add(key)
            d2.append({"op": "byarm", "bins": x["bins"], "names": x["names"], "skiplow": False, "skipout": 0, "minw": 0,
                       "procs": 1, "gap": 100000, "mab": 50, "forced": False, "kern": []})
    d2 = assign_routes([dict(x) for x in d2], start=ctx.seed)
    rnd = _run_mixed(ctx, d2)
    all_records += rnd
    for rec in all_records:
        _count(ctx, rec)
    for rec in (all_records[0], all_records[len(all_records) // 5], rnd[0]):
        ctx.sample(rec)
    ctx.notes["not_run"] = "methods cbs and flasso need R (Rscript is not installed): not run"
    ctx.notes["hmm_zero_spread_records"] = sum(1 for r in rnd if r["op"] in HMM and r["sdseen"] and not r["sd9"])
    ctx.validate(TRACE, all_records, batch=4000, timeout=3000)
    ctx.trusted_base = ["TLC 1.8 evaluation of spec/Segments.tla (Num.tla limb arithmetic)",
                        "harness encoding: dyadic grids (weight/64, log2/1024, depth/64) -> floats by exact division; "
                        "observed floats -> round(|x| * 10^12); gene field split at commas",
                        "recording of surviving bins by wrapping haar.segment_haar / none.segment_none / "
                        "hmm.segment_hmm (per-pid files in fork()ed pool workers); hmm.biweight_midvariance wrapped "
                        "to log the robust spread",
                        "direction 1 only: numeric kernel replaced (haar.UnifyLevels / hmm.hmm_get_model) and "
                        "GenomicArray.by_arm.__defaults__ scaled down; direction 2 runs the code unmodified",
                        "pandas DataFrame construction in the harness (four index-label routes; rows re-read and compared "
                        "after construction; observations are matched to bins by coordinates, never by label)",
                        "JSON encoding (ints < 2^31)"]
    ctx.assumptions = ["bin tables are in chromosome blocks, sorted, non-overlapping, values on the grids (premise)",
                       "HMM methods: robust autosomal spread > 0 (premise; otherwise pomegranate raises "
                       "ZeroDivisionError / there is no autosomal bin to build the model from); such records are "
                       "counted out_of_scope",
                       "gene names contain no comma", "cbs / flasso (R) not run"]


def replay(ctx, doc):
    rec = doc["record"]
    if rec.get("procs", 1) > 1:
        new = _run_mixed(ctx, [rec])[0]
        vs = ctx.validate(TRACE, [new])
        print(json.dumps({"verdict": vs[0]}, indent=1)[:2000])
        if vs[0]["scope"] and vs[0]["failed"] and ctx.violations:
            print(f"VIOLATION property={ctx.prop_id} replay=(replayed) clauses={','.join(vs[0]['failed'])}")
            return 1
        return 0
    return generic_replay(ctx, doc, execute, TRACE)
