"""X05 drivers: one call of the REAL cnvkit code per encoded input (used by harness/props/x05.py).

Nothing here judges an output.  Only the call of the real code runs inside `_real` (an exception raised there is an
outcome the specification judges); building inputs and encoding outputs run outside it, so a harness bug is never taken
for an implementation outcome.  Drawing never happens: axes are `Stub` objects that record calls, and the drawing
functions behind do_scatter / create_diagram are replaced by recorders that keep the data they are handed.
"""
from __future__ import annotations

import collections

from ..tlc import MachineryError

NAMINGS = [["chr1", "chr2", "chrX", "chrY"], ["1", "2", "X", "Y"], ["chr2", "chr10", "chrX", "chrY"]]
HL = "hl-colour"


class ImplError(Exception):
    """An exception raised by the implementation under test (an outcome), as opposed to a harness bug."""

    def __init__(self, exc):
        super().__init__(repr(exc))
        self.exc = exc


def _real(fn, *a, **kw):
    try:
        return fn(*a, **kw)
    except MachineryError:
        raise
    except Exception as e:
        raise ImplError(e) from e


# ------------------------------------------------------------------------------------------------ building real objects
def _cna(rows, names, kind="bins", sid="S"):
    """rows: bins [c, s, e, [names..], x8]  /  segs [c, s, e, [names..], x8, probes]."""
    import pandas as pd
    from cnvlib.cnary import CopyNumArray as CNA
    cols = ["chromosome", "start", "end", "gene", "log2"] + (["probes"] if kind == "segs" else [])
    data = {
        "chromosome": pd.Series([names[r[0] - 1] for r in rows], dtype=str),
        "start": pd.Series([r[1] for r in rows], dtype="int64"),
        "end": pd.Series([r[2] for r in rows], dtype="int64"),
        "gene": pd.Series([",".join(r[3]) for r in rows], dtype=str),
        "log2": pd.Series([r[4] / 8.0 for r in rows], dtype="float64"),
    }
    if kind == "segs":
        data["probes"] = pd.Series([r[5] for r in rows], dtype="int64")
    return CNA(pd.DataFrame(data, columns=cols), {"sample_id": sid})


def _va(rows, names):
    """rows: [c, s, e, f64]."""
    import pandas as pd
    from cnvlib.vary import VariantArray as VA
    df = pd.DataFrame({
        "chromosome": pd.Series([names[r[0] - 1] for r in rows], dtype=str),
        "start": pd.Series([r[1] for r in rows], dtype="int64"),
        "end": pd.Series([r[2] for r in rows], dtype="int64"),
        "ref": pd.Series(["A"] * len(rows), dtype=str),
        "alt": pd.Series(["C"] * len(rows), dtype=str),
        "alt_freq": pd.Series([r[3] / 64.0 for r in rows], dtype="float64"),
    }, columns=["chromosome", "start", "end", "ref", "alt", "alt_freq"])
    return VA(df, {"sample_id": "S"})


def _int(x, unit=1):
    """An observed number -> int in units of 1/unit (must be an integer there up to float noise)."""
    import numpy as np
    if isinstance(x, (bool, np.bool_)) or x is None:
        raise MachineryError(f"a number was expected: {x!r}")
    v = float(x) * unit
    if v != v or abs(v) >= 2**31:
        raise MachineryError(f"cannot encode {x!r} (unit 1/{unit})")
    r = int(round(v))
    if abs(v - r) > 1e-6 * max(1.0, abs(v)) and unit in (1, 8, 64, 128, 840):
        raise MachineryError(f"{x!r} is not a multiple of 1/{unit}")
    return r


def _genes(text):
    return [p.strip() for p in str(text).split(",")]


def _df(arr):
    return arr.data if hasattr(arr, "data") else arr


def _p_bins(arr, names, unit=1, log2=True):
    if arr is None:
        return []
    df = _df(arr)
    return [[names.index(c) + 1, _int(s, unit), _int(e, unit), _genes(g), _int(x, 8) if log2 else 0]
            for c, s, e, g, x in zip(df["chromosome"], df["start"], df["end"], df["gene"], df["log2"])]


def _p_segs(arr, names, unit=1):
    if arr is None:
        return []
    df = _df(arr)
    if not len(df):
        return []
    probes = df["probes"] if "probes" in df.columns else [0] * len(df)
    return [[names.index(c) + 1, _int(s, unit), _int(e, unit), _genes(g), _int(x, 8), _int(p)]
            for c, s, e, g, x, p in zip(df["chromosome"], df["start"], df["end"], df["gene"], df["log2"], probes)]


def _p_vars(arr, names, unit=1, unit_in=1):
    if arr is None:
        return []
    df = _df(arr)
    return [[names.index(c) + 1, _int(s, unit), _int(e, unit), _int(f, 64)]
            for c, s, e, f in zip(df["chromosome"], df["start"], df["end"], df["alt_freq"])]


def region_arg(inp, names):
    """show_range: None / 'chr' / 'chr:s-e' text (1-based start) / (chr, s, e) tuple with None for an open end."""
    rk = inp["rk"]
    if rk == "none":
        return None
    name = names[inp["rc"] - 1]
    if rk == "chrom":
        return name if inp["rtext"] else (name, None, None)
    s = inp["rs"] if inp["rhs"] else None
    e = inp["re"] if inp["rhe"] else None
    if inp["rtext"]:
        return f"{name}:{'' if s is None else s + 1}-{'' if e is None else e}"
    return (name, s, e)


def _txt(codes):
    return "".join(chr(c) for c in codes)


def _codes(text):
    out = [ord(ch) for ch in text]
    if any(c > 255 for c in out):
        raise MachineryError(f"non-latin-1 text {text!r}")
    return out


class Stub:
    """Stands in for a matplotlib Axes (or pyplot / reportlab module): records every call, returns another stub."""

    def __init__(self, log, name="ax"):
        self._log = log
        self._name = name

    def __getattr__(self, k):
        if k.startswith("__"):
            raise AttributeError(k)

        def call(*a, **kw):
            self._log.append((self._name + "." + k, a, kw))
            return Stub(self._log, self._name + "." + k + "()")
        return call


def _cid(names, c):
    return names.index(c) + 1 if c in names else 0


def _reg_fields(r, names):
    return dict(hc=r[0] is not None, hs=r[1] is not None, s=_int(r[1] if r[1] is not None else 0),
                he=r[2] is not None, e=_int(r[2] if r[2] is not None else 0))


# ------------------------------------------------------------------------------------------------ one real call per op
def _op_from_label(inp, rec, names):
    from skgenome import rangelabel as rl
    rec.update(nf=0, hc=False, chrom=[], hs=False, s=0, he=False, e=0, gene=[])
    r = _real(rl.from_label, _txt(inp["text"]), keep_gene=inp["keep"])
    rec.update(_reg_fields(r, names))
    rec.update(nf=len(r), chrom=_codes(r.chromosome or ""), gene=_codes(r.gene) if len(r) == 4 else [])


def _op_unpack_range(inp, rec, names):
    from skgenome import rangelabel as rl
    rec.update(hc=False, chrom=[], hs=False, s=0, he=False, e=0)
    tc = _txt(inp["tc"])
    arg = {"none": None, "empty_str": "", "text": _txt(inp["text"]), "tuple3": (tc, inp["ts"], inp["te"]),
           "tuple4": (tc, inp["ts"], inp["te"], "G"), "list3": [tc, inp["ts"], inp["te"]],
           "tuple2": (tc, inp["ts"]), "int": 5}[inp["kind"]]
    r = _real(rl.unpack_range, arg)
    rec.update(_reg_fields(r, names))
    rec["chrom"] = _codes(r.chromosome or "")


def _op_roundtrip(inp, rec, names):
    from skgenome import rangelabel as rl
    rec.update(label=[], berr="", bhc=False, bchrom=[], bhs=False, bs=0, bhe=False, be=0)
    label = _real(rl.to_label, rl.Region(_txt(inp["chrom"]), inp["s"], inp["e"]))
    rec["label"] = _codes(label)
    try:
        r = _real(rl.from_label, label, keep_gene=False)
    except ImplError as e:
        rec["berr"] = type(e.exc).__name__
        return
    f = _reg_fields(r, names)
    rec.update(bhc=f["hc"], bchrom=_codes(r.chromosome or ""), bhs=f["hs"], bs=f["s"], bhe=f["he"], be=f["e"])


def _op_chrom_sizes(inp, rec, names):
    from cnvlib import plots
    rec["sizes"] = []
    sz = _real(plots.chromosome_sizes, _cna(inp["a"], names), inp["mb"])
    rec["sizes"] = [[names.index(c) + 1, _int(v, 10**6 if inp["mb"] else 1)] for c, v in sz.items()]


def _dividers_log(log, unit):
    out = {"lim": [], "lines": [], "ticks": [], "labels": [], "axis": ""}
    for name, a, kw in log:
        if name in ("ax.set_xlim", "ax.set_ylim"):
            out["lim"] = [_int(a[0], unit), _int(a[1], unit)]
            out["axis"] = name[-4]
        elif name in ("ax.axvline", "ax.axhline"):
            out["lines"].append(_int(kw["x" if name == "ax.axvline" else "y"], unit))
        elif name in ("ax.set_xticks", "ax.set_yticks"):
            out["ticks"] = [_int(v, unit) for v in a[0]]
        elif name in ("ax.set_xticklabels", "ax.set_yticklabels"):
            out["labels"] = list(a[0])
    return out


def _op_dividers(inp, rec, names):
    from cnvlib import plots
    rec.update(starts=[], lim=[], lines=[], ticks=[], labels=[], axis="")
    sizes = collections.OrderedDict((names[c - 1], v) for c, v in inp["sizes"])
    log = []
    starts = _real(plots.plot_chromosome_dividers, Stub(log), sizes, inp["pad"] if inp["hp"] else None, along=inp["along"])
    d = _dividers_log(log, 1000)
    d["labels"] = [names.index(x) + 1 for x in d["labels"]]
    rec.update(d)
    rec["starts"] = [[names.index(c) + 1, _int(v, 1000)] for c, v in starts.items()]


def _op_region_to_bins(inp, rec, names):
    from cnvlib import plots
    rec.update(hc=False, c=0, hs=False, s=0, he=False, e=0)
    r = _real(plots.translate_region_to_bins, region_arg(inp, names), _cna(inp["a"], names))
    rec.update(_reg_fields(r, names))
    rec["c"] = _cid(names, r[0])


def _op_binwise(inp, rec, names):
    from cnvlib import plots
    rec.update(oa=[], osg=[], ova=[], aa=[], asg=[], ava=[])
    a = _cna(inp["a"], names)
    sg = _cna(inp["sg"], names, "segs") if inp["hsg"] else None
    va = _va(inp["va"], names) if inp["hv"] else None
    try:
        oa, osg, ova = _real(plots.update_binwise_positions, a, sg, va)
    finally:
        rec.update(aa=_p_bins(a, names), asg=_p_segs(sg, names), ava=_p_vars(va, names))
    rec.update(oa=_p_bins(oa, names), osg=_p_segs(osg, names), ova=_p_vars(ova, names, 840))


def _op_simple(inp, rec, names):
    from cnvlib import plots
    rec["ot"] = []
    if inp["kind"] == "bins":
        rec["ot"] = _p_bins(_real(plots.update_binwise_positions_simple, _cna(inp["t"], names)), names)
    else:
        rec["ot"] = _p_segs(_real(plots.update_binwise_positions_simple, _cna(inp["t"], names, "segs")), names)


def _op_segs_to_bins(inp, rec, names):
    from cnvlib import plots
    rec["osg"] = []
    sg = _cna(inp["sg"], names, "segs")
    if not inp["hp"]:
        sg = sg.as_dataframe(sg.data.drop(columns=["probes"]))
    rec["osg"] = _p_segs(_real(plots.translate_segments_to_bins, sg, _cna(inp["a"], names)), names)


def _op_repeat_slices(inp, rec, names):
    import numpy as np
    from cnvlib import plots
    rec["sl"] = []
    out = _real(lambda: list(plots.get_repeat_slices(np.array(inp["vals"], dtype="int64"))))
    rec["sl"] = [[_int(sl.start), _int(sl.stop), _int(size)] for sl, size in out]


def _op_cvg2rgb(inp, rec, names):
    from cnvlib import plots
    rec.update(rgb=[], sat=[])
    cvg = inp["k"] / 1024.0
    rgb = _real(plots.cvg2rgb, cvg, inp["desat"])
    sat = _real(plots.cvg2rgb, -1.33 if cvg < 0 else 1.33, inp["desat"])
    rec.update(rgb=[_int(v, 10**6) for v in rgb], sat=[_int(v, 10**6) for v in sat])


def _op_genes_by_name(inp, rec, names):
    from cnvlib import plots
    rec["res"] = []
    out = _real(plots.gene_coords_by_name, _cna(inp["a"], names), list(inp["names"]))
    res = []
    for c, hits in out.items():
        for s, e, label in hits:
            res.append([names.index(c) + 1, _int(s), _int(e), _genes(label)])
    rec["res"] = sorted(res)


def _op_genes_by_range(inp, rec, names):
    from cnvlib import plots
    rec["res"] = []
    name = names[inp["c"] - 1]
    out = _real(plots.gene_coords_by_range, _cna(inp["a"], names), name, inp["s"] if inp["hs"] else None,
                inp["e"] if inp["he"] else None)
    if list(out.keys()) != [name]:
        raise MachineryError(f"gene_coords_by_range keys {list(out.keys())}")
    rec["res"] = [[_int(s), _int(e), _genes(g)] for s, e, g in out[name]]


def _op_select(inp, rec, names):
    """do_scatter with the two drawing functions replaced by recorders; chromosome_scatter's recorder runs the real
    select_range_genes on what do_scatter hands it."""
    from cnvlib import scatter
    rec.update(which="", probes=[], segs=[], snvs=[], hw=False, wlo=0, whi=0, genes=[], chrom=0, mb1=False)
    a = _cna(inp["a"], names) if inp["hb"] else None
    sg = _cna(inp["sg"], names, "segs") if inp["hsg"] else None
    va = _va(inp["va"], names) if inp["hv"] else None
    show_gene = ",".join(inp["names"]) if inp["hg"] else None
    got = {}

    def genome(cnarr, segments, variants, *rest):
        got.update(which="genome", raw=(cnarr, segments, variants, (), [], None), mb1=scatter.MB == 1)

    def chrom(cnarr, segments, variants, show_range, show_gene_, antitarget_marker, do_trend, by_bin, window_width, *rest):
        res = scatter.select_range_genes(cnarr, segments, variants, show_range, show_gene_, window_width)
        got.update(which="chrom", raw=res, mb1=scatter.MB == 1)

    saved = scatter.genome_scatter, scatter.chromosome_scatter, scatter.MB
    scatter.genome_scatter, scatter.chromosome_scatter = genome, chrom
    try:
        _real(scatter.do_scatter, a, sg, va, show_range=region_arg(inp, names), show_gene=show_gene, by_bin=inp["bybin"],
              window_width=inp["w"])
    finally:
        scatter.genome_scatter, scatter.chromosome_scatter, scatter.MB = saved
    probes, segs, snvs, window, genes, chrom_ = got["raw"]
    rec.update(which=got["which"], mb1=bool(got["mb1"]), probes=_p_bins(probes, names), segs=_p_segs(segs, names),
               snvs=_p_vars(snvs, names, 840), hw=bool(window),
               wlo=_int(window[0]) if window else 0, whi=_int(window[1]) if window else 0,
               genes=sorted([_int(s), _int(e), _genes(g)] for s, e, g in genes), chrom=_cid(names, chrom_))


def _op_seg_color(inp, rec, names):
    from cnvlib import scatter
    rec["color"] = ""
    name = ("chr" if inp["pref"] else "") + {1: "7", 2: "X", 3: "Y"}[inp["ck"]]
    fields = ["chromosome", "start", "end", "log2"]
    vals = [name, 0, 10, 0.0]
    if inp["hcn"]:
        fields.append("cn")
        vals.append(inp["cn"])
    if inp["hal"]:
        fields += ["cn1", "cn2"]
        vals += [inp["cn1"], inp["cn2"]]
    row = collections.namedtuple("Row", fields)(*vals)
    col = _real(scatter.choose_segment_color, row, HL, default_bright=inp["bright"])
    rec["color"] = "hl" if col == HL else "neutral" if col == scatter.TREND_COLOR else "other"


def _op_seg_vafs(inp, rec, names):
    from cnvlib import scatter
    rec["res"] = []
    va = _va(inp["va"], names)
    sg = _cna(inp["sg"], names, "segs") if inp["hsg"] else None
    out = _real(lambda: list(scatter.get_segment_vafs(va, sg)))
    keys = [(names[r[0] - 1], r[1], r[2]) for r in inp["sg"]]
    rec["res"] = [[0 if seg is None else keys.index((seg.chromosome, seg.start, seg.end)) + 1, _int(v, 128)]
                  for seg, v in out]


def _op_genome_layout(inp, rec, names):
    from cnvlib import plots, scatter
    rec.update(starts=[], pts=[], lines=[])
    a = _cna(inp["a"], names) if inp["hb"] else None
    sg = _cna(inp["sg"], names, "segs") if inp["hsg"] else None
    log = []
    real = plots.plot_chromosome_dividers
    starts = []

    def wrapped(axis, chrom_sizes, *x, **kw):
        out = real(axis, chrom_sizes, *x, **kw)
        starts.extend(out.items())
        return out
    plots.plot_chromosome_dividers = wrapped
    try:
        _real(scatter.cnv_on_genome, Stub(log), a, sg)
    finally:
        plots.plot_chromosome_dividers = real
    rec["starts"] = [[names.index(c) + 1, _int(v, 1000)] for c, v in starts]
    for name, args, kw in log:
        if name == "ax.scatter":
            rec["pts"] += [_int(v, 1000) for v in args[0]]
        elif name == "ax.plot":
            rec["lines"].append([_int(args[0][0], 1000), _int(args[0][1], 1000), _int(args[1][0], 8)])


def _op_diagram(inp, rec, names):
    from cnvlib import diagram, reports
    from cnvlib.cnary import CopyNumArray as CNA
    rec.update(feats=[], csizes=[], km=[], sq=[])
    a = _cna(inp["a"], names) if inp["hb"] else None
    sg = _cna(inp["sg"], names, "segs") if inp["hsg"] else None
    got = {}
    km = []

    def build(features, chr_sizes, sample_id, title=None):
        got["built"] = ({c: list(v) for c, v in features.items()}, collections.OrderedDict(chr_sizes))

    def wrap_kernel(fn, attr):
        def inner(*x, **kw):
            for row in fn(*x, **kw):
                km.append((row.gene, getattr(row, attr)))
                yield row
        return inner

    real_sq = CNA.squash_genes

    def squash(self, *x, **kw):
        out = real_sq(self, *x, **kw)
        got["sq"] = out
        return out

    saved = (diagram.build_chrom_diagram, reports.gene_metrics_by_gene, reports.gene_metrics_by_segment,
             diagram.canvas, diagram.renderPDF)
    diagram.build_chrom_diagram = build
    reports.gene_metrics_by_gene = wrap_kernel(saved[1], "probes")
    reports.gene_metrics_by_segment = wrap_kernel(saved[2], "segment_probes")
    diagram.canvas = Stub([], "canvas")
    diagram.renderPDF = Stub([], "renderPDF")
    CNA.squash_genes = squash
    try:
        _real(diagram.create_diagram, a, sg, inp["thr8"] / 8.0, inp["minp"], "/dev/null/never-written.pdf",
              show_range=region_arg(inp, names), show_labels=inp["labels"])
    finally:
        (diagram.build_chrom_diagram, reports.gene_metrics_by_gene, reports.gene_metrics_by_segment,
         diagram.canvas, diagram.renderPDF) = saved
        CNA.squash_genes = real_sq
        rec["km"] = [[_genes(g), _int(p)] for g, p in km]
        rec["sq"] = _p_bins(got.get("sq"), names, log2=False)      # the squashed log2 (a kernel value) is not used by the spec
    features, chr_sizes = got["built"]
    extra = [c for c in features if c not in chr_sizes and features[c]]
    if extra:
        raise MachineryError(f"features on chromosomes without a size: {extra}")
    rec["csizes"] = [[names.index(c) + 1, _int(v)] for c, v in chr_sizes.items()]
    rec["feats"] = [[names.index(c) + 1, _int(s), _int(e), 0 if strand is None else _int(strand),
                     [] if label is None else _genes(label)]
                    for c in chr_sizes for (s, e, strand, label, _color) in features.get(c, [])]


def _op_heatmap(inp, rec, names):
    import numpy as np
    from cnvlib import heatmap, plots
    rec.update(xs=[], cells=[], labels=[], lim=[], offsets=[])
    arrs = [_cna(rows, names, "segs" if isseg else "bins", sid=f"s{k + 1}") for k, (isseg, rows) in enumerate(inp["samples"])]
    log = []
    real = plots.plot_chromosome_dividers
    offs = []

    def wrapped(axis, chrom_sizes, *x, **kw):
        out = real(axis, chrom_sizes, *x, **kw)
        offs.extend((c, v, chrom_sizes[c]) for c, v in out.items())
        return out
    saved_plt = heatmap.plt
    heatmap.plt = Stub(log, "plt")
    plots.plot_chromosome_dividers = wrapped
    try:
        _real(heatmap.do_heatmap, arrs, show_range=region_arg(inp, names), by_bin=inp["bybin"], vertical=inp["vertical"],
              ax=Stub(log))
    finally:
        heatmap.plt = saved_plt
        plots.plot_chromosome_dividers = real
    unit = 10**6 if (inp["rk"] != "none" and not inp["bybin"]) else 1
    lab_axis, pos_axis = ("x", "y") if inp["vertical"] else ("y", "x")
    for name, args, kw in log:
        if name == f"ax.set_{lab_axis}ticklabels":
            rec["labels"] = [int(s[1:]) for s in args[0]]
        elif name == f"ax.set_{pos_axis}lim":
            rec["lim"] = [_int(args[0], unit), _int(args[1], unit)]
        elif name == "ax.pcolormesh":
            x, y, c = args
            pos, mat = (y, np.asarray(c, dtype=float).T) if inp["vertical"] else (x, np.asarray(c, dtype=float))
            rec["xs"] = [_int(v, unit) for v in pos]
            rec["cells"] = [[[False, 0] if v != v else [True, _int(v, 8)] for v in row] for row in mat.tolist()]
    rec["offsets"] = [[names.index(c) + 1, _int(v), _int(sz)] for c, v, sz in offs]


OPS = {
    "from_label": _op_from_label, "unpack_range": _op_unpack_range, "roundtrip": _op_roundtrip,
    "chrom_sizes": _op_chrom_sizes, "dividers": _op_dividers, "region_to_bins": _op_region_to_bins,
    "binwise": _op_binwise, "simple": _op_simple, "segs_to_bins": _op_segs_to_bins, "repeat_slices": _op_repeat_slices,
    "cvg2rgb": _op_cvg2rgb, "genes_by_name": _op_genes_by_name, "genes_by_range": _op_genes_by_range,
    "select": _op_select, "seg_color": _op_seg_color, "seg_vafs": _op_seg_vafs, "genome_layout": _op_genome_layout,
    "diagram": _op_diagram, "heatmap": _op_heatmap,
}


def execute(inp):
    """Run one operation of the real code on the encoded input; return the full record (inputs + observed outputs)."""
    import matplotlib
    matplotlib.use("Agg")
    names = NAMINGS[inp.get("naming", 0)]
    rec = dict(inp)
    rec["err"] = ""
    try:
        OPS[inp["op"]](inp, rec, names)
    except ImplError as e:  # an exception of the implementation is an outcome the specification judges
        rec["err"] = type(e.exc).__name__
    return rec
