"""X07 (extension) -- signal smoothing and outlier masks (cnvlib/smoothing.py).

Content module spec/Smoothing.tla (+ MC_Smoothing, Trace_Smoothing).  One record = one call of the real code:

  wing      _width2wing(width, x)                      fraction / integer / invalid widths, error messages
  check     check_inputs(x, width, False, weights)     wing, mirror-padded signal, rolled-off padded weights
  rollq / rollmed / rollstd   rolling_quantile / rolling_median / rolling_std
  convu / convw               convolve_unweighted / convolve_weighted called directly with a chosen window, n_iter
  kaiser    kaiser(x, width, weights, do_fit_edges)    the window numpy.kaiser returned is LOGGED (abstract vector)
  savgol    savgol(x, total_width, weights, window_width, order, n_iter)   the logging.debug arguments
            (n_iter, window_width, order, total_width), every savgol_filter call and the coefficient window are LOGGED
  guess     guess_window_size(x, weights)              the scale estimate it used is LOGGED
  oiqr / omad                 outlier_iqr / outlier_mad_median
  roiqr / roq / rostd         rolling_outlier_iqr / _quantile / _std; the savgol trend line is LOGGED

Direction 1: TLC enumerates MC_Smoothing (design check A |= P; the iterated convolutions as a state machine, one action
per loop iteration) and every enumerated input is replayed into the real code.  Direction 2: seeded random / structured
larger inputs.  Every record is judged by TLC (Trace_Smoothing).  This module only generates, runs, encodes and counts.
"""
from __future__ import annotations

import contextlib
import json
import sys
import time
import math
from fractions import Fraction

from ..core import Ctx
from ..enc import fx
from ..tlaval import to_py
from ..tlc import MachineryError

ID = "X07"
LEVEL = "model_checking"
TRACE = "Trace_Smoothing"
REQUIRE_CLAUSES = []          # filled below

OBS_LIMIT = 2000.0


@contextlib.contextmanager
def patched(*triples):
    """Temporarily replace attributes (obj, name, value); always restored."""
    saved = []
    try:
        for obj, name, val in triples:
            saved.append((obj, name, getattr(obj, name)))
            setattr(obj, name, val)
        yield
    finally:
        for obj, name, val in reversed(saved):
            setattr(obj, name, val)


_BIG = [False]


def ob(x):
    """observed float -> {fin, neg, hi, lo}: round(|x| * 10^12) = hi * 10^6 + lo (Num.FxObs) + finite mask"""
    x = float(x)
    if x != x or math.isinf(x) or abs(x) >= OBS_LIMIT:
        if x == x and not math.isinf(x):
            _BIG[0] = True         # finite but beyond the encoding: the record is marked `big` (outside the premise)
        return {"fin": False, "neg": False, "hi": 0, "lo": 0}
    d = fx(x)
    d["fin"] = True
    return d


def obs_list(a):
    return [ob(x) for x in a]


def _err(e):
    return type(e).__name__


def _width(inp):
    """the Python value passed as `width`: None, an int, an integral float (wf) or the float wn / wd"""
    if inp.get("wnone"):
        return None
    if inp["wd"] == 1:
        return float(inp["wn"]) if inp.get("wf") else int(inp["wn"])
    return inp["wn"] / inp["wd"]


def _signal(inp):
    import numpy as np
    return np.array([k / inp["U"] for k in inp["v"]], dtype=float)


def _weights(inp):
    import numpy as np
    if not inp.get("hasw"):
        return None
    return np.array([k / inp["WU"] for k in inp["w"]], dtype=float)


class _LogStub:
    """Stands in for the `logging` module inside cnvlib.smoothing: keeps the arguments of savgol's debug message."""

    def __init__(self):
        self.dbg = []

    def debug(self, fmt, *args):
        if str(fmt).startswith("Smoothing in"):
            self.dbg.append([int(a) for a in args])

    def warning(self, *a, **k):
        pass

    info = error = warning


BLANK_IN = {"op": "", "n": 0, "v": [], "U": 1, "wn": 0, "wd": 1, "wf": False, "wnone": False, "hasw": False, "w": [], "WU": 1,
            "qn": 1, "qd": 2, "cn": 3, "cd": 1, "wini": [], "win": [], "wing": 0, "niter": 1, "fit": False, "ww": 7, "order": 3,
            "sdin": 0, "SU": 1, "trendin": [], "patch": False}
BLANK = {"gw": 0, "outi": 0, "outs": [], "outw": [], "sig": [], "mask": [], "win": [], "winm": 0, "beta": 0, "dbg": [], "calls": [],
         "nwin": 0, "outs0": [], "trend": [], "sd": {"fin": False, "neg": False, "hi": 0, "lo": 0}, "nsd": 0,
         "err": "", "msg": "", "wrepr": ""}


def execute(inp):
    """Run the real cnvlib.smoothing on one encoded input; return the full record."""
    import numpy as np
    import scipy.signal._savitzky_golay as sgmod
    from cnvlib import descriptives, smoothing as S
    op = inp["op"]
    rec = dict(BLANK)
    rec.update(inp)
    for k in ("outs", "outw", "sig", "mask", "win", "dbg", "calls", "outs0", "trend"):
        rec[k] = []
    rec["err"] = rec["msg"] = ""
    _BIG[0] = False
    x = _signal(inp) if "v" in inp else None
    try:
        if op == "wing":
            width = _width(inp)
            rec["wrepr"] = f"{width}"
            rec["outi"] = int(S._width2wing(width, np.zeros(inp["n"])))
        elif op == "check":
            res = S.check_inputs(x, _width(inp), False, _weights(inp))
            rec["outi"] = int(res[1])
            rec["sig"] = [int(round(float(s) * inp["U"])) for s in res[2]]
            if any(abs(float(s) * inp["U"] - k) > 0 for s, k in zip(res[2], rec["sig"])):
                raise MachineryError("padded signal off the grid")
            if inp.get("hasw"):
                rec["outw"] = obs_list(res[3])
        elif op in ("rollq", "rollmed", "rollstd"):
            if op == "rollq":
                out = S.rolling_quantile(x, _width(inp), inp["qn"] / inp["qd"])
            elif op == "rollmed":
                out = S.rolling_median(x, _width(inp))
            else:
                out = S.rolling_std(x, _width(inp))
            rec["outs"] = obs_list(out)
        elif op == "convu":
            window = np.array(inp["wini"], dtype=float)
            rec["win"] = obs_list(window)
            out = S.convolve_unweighted(window, x, inp["wing"], inp["niter"])
            rec["outs"] = obs_list(out)
        elif op == "convw":
            window = np.array(inp["wini"], dtype=float)
            rec["win"] = obs_list(window)
            y, w = S.convolve_weighted(window, x, _weights(inp), inp["niter"])
            rec["outs"] = obs_list(y)
            rec["outw"] = obs_list(w)
        elif op == "kaiser":
            logged = []
            real_kaiser = np.kaiser

            def kaiser_logged(M, beta):
                wdw = real_kaiser(M, beta)
                logged.append((int(M), beta, wdw.copy()))
                return wdw
            guessed = []
            real_guess = S.guess_window_size

            def guess_logged(*a, **k):
                g = real_guess(*a, **k)
                guessed.append(int(g))
                return g
            with patched((np, "kaiser", kaiser_logged), (S, "guess_window_size", guess_logged)):
                out = S.kaiser(x, _width(inp), _weights(inp), bool(inp["fit"]))
            rec["gw"] = guessed[0] if len(guessed) == 1 else 0
            if inp["fit"]:
                try:
                    rec["outs0"] = obs_list(S.kaiser(_signal(inp), _width(inp), _weights(inp), False))
                except Exception:
                    rec["outs0"] = []
            rec["outs"] = obs_list(out)
            rec["nwin"] = len(logged)
            if logged:
                rec["winm"], beta, wdw = logged[0]
                rec["beta"] = int(beta) if float(beta) == int(beta) else -1
                rec["win"] = obs_list(wdw)
        elif op == "savgol":
            stub = _LogStub()
            calls, wins = [], []
            real_filter, real_coeffs = S.savgol_filter, sgmod.savgol_coeffs

            def filter_logged(y, window_length, polyorder, *a, **k):
                calls.append([int(window_length), int(polyorder), 1 if k.get("mode") == "interp" and not a else 0])
                return real_filter(y, window_length, polyorder, *a, **k)

            def coeffs_logged(window_length, polyorder, *a, **k):
                c = real_coeffs(window_length, polyorder, *a, **k)
                if not a and not k.get("deriv") and k.get("pos") is None and k.get("use", "conv") == "conv":
                    wins.append(np.array(c, dtype=float).copy())
                return c
            with patched((S, "logging", stub), (S, "savgol_filter", filter_logged), (S, "savgol_coeffs", coeffs_logged),
                         (sgmod, "savgol_coeffs", coeffs_logged)):
                tw = None if inp.get("wnone") else _width(inp)
                rec["wrepr"] = f"{inp['niter'] * inp['ww'] if tw is None else tw}"
                out = S.savgol(x, tw, _weights(inp), inp["ww"], inp["order"], inp["niter"])
            rec["outs"] = obs_list(out)
            rec["dbg"] = stub.dbg[0] if len(stub.dbg) == 1 else []
            rec["calls"] = calls
            rec["nwin"] = 0             # number of DISTINCT coefficient windows computed during the call
            if wins:
                same = all(len(c) == len(wins[0]) and np.array_equal(c, wins[0]) for c in wins[1:])
                rec["nwin"] = 1 if same else len(wins)
                rec["win"] = obs_list(wins[0])
        elif op == "guess":
            sds = []

            def wrap(f):
                def g(*a, **k):
                    r = inp["sdin"] / inp["SU"] if inp.get("patch") else f(*a, **k)
                    sds.append(float(r))
                    return r
                return g
            with patched((descriptives, "biweight_midvariance", wrap(descriptives.biweight_midvariance)),
                         (descriptives, "weighted_std", wrap(descriptives.weighted_std))):
                rec["outi"] = int(S.guess_window_size(x, _weights(inp)))
            rec["nsd"] = len(sds)
            if sds:
                rec["sd"] = ob(sds[0])
        elif op == "oiqr":
            rec["mask"] = [bool(b) for b in S.outlier_iqr(x, inp["cn"] / inp["cd"])]
        elif op == "omad":
            rec["mask"] = [bool(b) for b in S.outlier_mad_median(x)]
        elif op in ("roiqr", "roq", "rostd"):
            trends = []
            real_savgol = S.savgol

            def savgol_logged(*a, **k):
                t = np.array([q / inp["U"] for q in inp["trendin"]], dtype=float) if inp.get("patch") else real_savgol(*a, **k)
                trends.append(np.array(t, dtype=float).copy())
                return t
            width = _width(inp)
            with patched((S, "savgol", savgol_logged)):
                if op == "roiqr":
                    out = S.rolling_outlier_iqr(x, width, inp["cn"] / inp["cd"])
                elif op == "roq":
                    out = S.rolling_outlier_quantile(x, width, inp["qn"] / inp["qd"], inp["cn"] / inp["cd"])
                else:
                    out = S.rolling_outlier_std(x, width, inp["cn"] / inp["cd"])
            rec["mask"] = [bool(b) for b in out]
            rec["nwin"] = len(trends)
            if trends:
                rec["trend"] = obs_list(trends[0])
        else:
            raise ValueError(op)
    except MachineryError:
        raise
    except (Exception, AssertionError) as e:          # an exception is an outcome the specification judges
        rec["err"] = _err(e)
        rec["msg"] = str(e)[:300]
    rec["big"] = bool(_BIG[0])
    return rec


# ============================================================================================ inputs
MC_OPS = ["wing", "check", "roll", "convu", "convw", "kaiser", "savgol", "guess", "outlier", "rolling_outlier"]
GRID_MAX = 30000          # |v| in grid units (squares stay below 2^31)


def mk(op, **kw):
    d = dict(BLANK_IN)
    d["op"] = op
    d.update(kw)
    return d


def inputs_from_states(states):
    out, calls = [], 0
    for st in states:
        if st["ph"] == "call":
            calls += 1
        if st["ph"] != "ret":
            continue
        inp = dict(BLANK_IN)
        inp.update(to_py(st["inp"]))
        inp["patch"] = inp["op"] in ("guess", "roiqr", "roq", "rostd")
        out.append(inp)
    return out, calls


def _rand_width(rng, n, allow_bad=False, cap=None):
    """-> (wn, wd, wf); cap bounds the half-window (cost of the rolling windows in TLC)"""
    if cap is not None:
        for _ in range(50):
            wn, wd, wf = _rand_width(rng, n, allow_bad)
            if not ((wd > 1 and 0 < wn < wd) or (wd == 1 and wn >= 2)) or min(_wing_py(n, wn, wd), n - 1) <= cap:
                return wn, wd, wf
        return 7, 1, False
    k = rng.random()
    if allow_bad and k < 0.2:
        return rng.choice([(0, 1, False), (1, 1, False), (1, 1, True), (-1, 1, False), (-3, 1, True), (3, 2, False),
                           (5, 2, False), (5, 4, False), (-1, 2, False), (101, 100, False), (7, 3, False)])
    if k < 0.6:
        wn = rng.choice([2, 3, 4, 5, 6, 7, 8, 9, 10, 11, 20, 21, 50, max(2, n - 2), max(2, n - 1), max(2, n), n + 1, 2 * n + 3,
                         rng.randint(2, max(2, 2 * n))])
        return wn, 1, rng.random() < 0.25
    wd = rng.choice([2, 4, 8, 16, 64, 128, 10, 100, 3, 1000])
    return rng.randint(1, wd - 1), wd, False


def _lowest_terms(wn, wd):
    g = math.gcd(abs(wn), wd)
    return (wn // g, wd // g) if g > 1 else (wn, wd)


def _rand_signal(rng, n, U):
    """grid integers: smooth trend + noise + spikes + runs of equal values"""
    kind = rng.random()
    amp = rng.choice([3, 20, 200, 2000])
    amp = min(amp * U, GRID_MAX) // 2
    if kind < 0.08:
        return [rng.randint(-amp, amp)] * n
    v, level = [], rng.randint(-amp // 2, amp // 2)
    for i in range(n):
        if rng.random() < 0.05:
            level = rng.randint(-amp // 2, amp // 2)
        x = level + rng.randint(-amp // 8 - 1, amp // 8 + 1)
        if rng.random() < 0.04:
            x += rng.choice([-1, 1]) * amp // 2
        if kind < 0.25 and v and rng.random() < 0.5:
            x = v[-1]
        v.append(max(-GRID_MAX, min(GRID_MAX, x)))
    if 0.25 <= kind < 0.33:        # a polynomial of degree <= 3 in the index (small, stays on the grid)
        a, b, c, d = rng.randint(-3, 3), rng.randint(-3, 3), rng.choice([0, 0, 1, -1]), rng.choice([0, 0, 0, 1])
        v = [a + b * i + c * i * i + d * i ** 3 for i in range(n)]
        if max(abs(x) for x in v) > min(GRID_MAX, 1500 * U):
            v = [a + b * (i % 40) for i in range(n)]
    return v


def _rand_weights(rng, n, positive):
    WU = rng.choice([1, 4, 64])
    k = rng.random()
    if k < 0.2:
        return [WU] * n, WU
    if k < 0.3:
        c = rng.randint(1, 5 * WU)
        return [c] * n, WU
    lo = 1 if positive else 0
    return [max(lo, rng.choice([0, 1, WU, rng.randint(lo, 4 * WU)])) for _ in range(n)], WU


def random_inputs(ctx: Ctx, scale):
    rng = ctx.rng
    out = []
    big = scale > 1

    def N(k):
        return max(1, int(k * scale))
    for _ in range(N(400)):
        n = rng.choice([1, 2, 3, 4, 5, 6, 7, 8, 9, 10, 50, 99, 100, 101, 1000, rng.randint(1, 3000)])
        wn, wd, wf = _rand_width(rng, n, allow_bad=True)
        wn, wd = _lowest_terms(wn, wd)
        out.append(mk("wing", n=n, wn=wn, wd=wd, wf=wf))
    for _ in range(N(120)):
        n = rng.choice([2, 3, 4, 7, 8, 30, rng.randint(2, 200)])
        U = rng.choice([1, 4, 64, 1024])
        wn, wd, wf = _rand_width(rng, n)
        wn, wd = _lowest_terms(wn, wd)
        hasw = rng.random() < 0.7
        w, WU = _rand_weights(rng, n, False) if hasw else ([], 1)
        out.append(mk("check", v=_rand_signal(rng, n, U), U=U, wn=wn, wd=wd, wf=wf, hasw=hasw, w=w, WU=WU))
    for k in range(N(300)):
        n = rng.choice([2, 3, 4, 5, 9, 40, rng.randint(2, 150 if big else 60)])
        U = rng.choice([1, 4, 64, 1024])
        wn, wd, wf = _rand_width(rng, n, cap=40 if big else 15)
        wn, wd = _lowest_terms(wn, wd)
        op = ["rollq", "rollq", "rollmed", "rollstd"][k % 4]
        qn, qd = rng.choice([(1, 4), (3, 4), (1, 2), (19, 20), (0, 1), (1, 1), (1, 3), (9, 10), (1, 100), (rng.randint(0, 64), 64)])
        if op == "rollmed" and rng.random() < 0.1:
            n = 1
        out.append(mk(op, v=_rand_signal(rng, n, U), U=U, wn=wn, wd=wd, wf=wf, qn=qn, qd=qd))
    for k in range(N(160)):
        L = rng.choice([3, 5, 8, 20, rng.randint(3, 70)])
        U = rng.choice([1, 4, 64])
        M = rng.randint(1, min(L, 15))
        sym = rng.random() < 0.4
        wini = [rng.randint(0, 9) for _ in range(M)]
        if sym:
            wini = [wini[min(i, M - 1 - i)] for i in range(M)]
        if rng.random() < 0.15:
            wini = [rng.choice([1, 2, 5])] * M              # all-equal window: the moving average
        if sum(wini) == 0:
            wini[rng.randrange(M)] = 3
        niter = rng.choice([1, 1, 2, 3, 4, 8])
        v = _rand_signal(rng, L, U)
        if k % 2 == 0:
            wing = rng.randint(1, max(1, (L - 1) // 2))
            out.append(mk("convu", v=v, U=U, wini=wini, wing=wing, niter=niter))
        else:
            w, WU = _rand_weights(rng, L, rng.random() < 0.8)
            if rng.random() < 0.06:
                w = w[:-1] if rng.random() < 0.5 else w + [WU]       # length mismatch: the documented assertion
            out.append(mk("convw", v=v, U=U, wini=wini, hasw=True, w=w, WU=WU, niter=min(niter, 4)))
    for k in range(N(160)):
        n = rng.choice([1, 2, 3, 5, 8, 9, 30, rng.randint(2, 90 if big else 50)])
        U = rng.choice([1, 4, 64])
        wn, wd, wf = _rand_width(rng, n, cap=30 if big else 15)
        wn, wd = _lowest_terms(wn, wd)
        wnone = rng.random() < 0.15
        hasw = rng.random() < 0.3
        w, WU = _rand_weights(rng, n, True) if hasw else ([], 1)
        fit = (not hasw) and rng.random() < 0.35
        out.append(mk("kaiser", v=_rand_signal(rng, n, U), U=U, wn=0 if wnone else wn, wd=1 if wnone else wd, wf=wf and not wnone,
                      wnone=wnone, hasw=hasw, w=w, WU=WU, fit=fit))
    for k in range(N(220)):
        n = rng.choice([1, 2, 3, 4, 6, 9, 30, rng.randint(2, 90 if big else 50)])
        U = rng.choice([1, 4, 64])
        ww = rng.choice([1, 2, 3, 4, 5, 7, 7, 7, 9, 11, 15])
        order = rng.choice([0, 1, 2, 3, 3, 3, 5])
        niter = rng.choice([1, 1, 2, 3, 5])
        wnone = rng.random() < 0.4
        if wnone:
            wn, wd, wf = 0, 1, False
        elif rng.random() < 0.3:
            wn, wd, wf = _rand_width(rng, n, cap=30 if big else 15)
            wn, wd = _lowest_terms(wn, wd)
        else:
            wn, wd, wf = rng.choice([ww, 2 * ww, 3 * ww + 1, 5 * ww, 7 * ww, max(2, ww - 1)]), 1, rng.random() < 0.2
            wn = max(2, wn)
        hasw = rng.random() < 0.35
        w, WU = _rand_weights(rng, n, True) if hasw else ([], 1)
        out.append(mk("savgol", v=_rand_signal(rng, n, U), U=U, wn=wn, wd=wd, wf=wf, wnone=wnone, ww=ww, order=order, niter=niter,
                      hasw=hasw, w=w, WU=WU))
    # structured: the clamp "n_iter = max(1, min(1000, total_width // window_width))" at 1000 and just below it
    for (n, ww, niter, hasw) in [(1003, 1, 2000, False), (1001, 1, 1001, False), (999, 1, 1500, False), (1003, 1, 1100, True)]:
        out.append(mk("savgol", v=[rng.randint(-20, 20) for _ in range(n)], U=4, wnone=True, ww=ww, order=rng.choice([0, 3]),
                      niter=niter, hasw=hasw, w=[rng.randint(1, 4) for _ in range(n)] if hasw else [], WU=1))
    for k in range(N(80)):
        n = rng.choice([1, 2, 3, 4, 5, 10, 50, rng.randint(2, 200)])
        U = rng.choice([4, 64, 1024])
        hasw = rng.random() < 0.4
        w, WU = _rand_weights(rng, n, True) if hasw else ([], 1)
        out.append(mk("guess", v=_rand_signal(rng, n, U), U=U, hasw=hasw, w=w, WU=WU))
    for k in range(N(300)):
        n = rng.choice([1, 2, 3, 4, 5, 8, 21, rng.randint(1, 300)])
        U = rng.choice([1, 4, 64])
        v = _rand_signal(rng, n, U)
        if rng.random() < 0.3:      # few distinct values: MAD = 0, IQR = 0, exact ties at the threshold
            pool = [rng.randint(-20, 20) for _ in range(rng.choice([1, 2, 3]))]
            v = [rng.choice(pool) if rng.random() < 0.85 else rng.randint(-60, 60) for _ in range(n)]
        if k % 2:
            cn, cd = rng.choice([(3, 2), (3, 1), (1, 1), (5, 2), (1, 2), (0, 1), (1, 10), (1, 3), (22, 10)])
            out.append(mk("oiqr", v=v, U=U, cn=cn, cd=cd))
        else:
            if rng.random() < 0.15 and n >= 5:     # a value exactly at / next to the coded threshold 3.321024 * MAD (MAD = 15625 units)
                half = n // 2
                v = [0] * (half - 1) + [15625] * 2 + [-15625] * (n - half - 2) + [rng.choice([51891, 51890, 51892, -51891])]
                v = [max(-GRID_MAX, min(GRID_MAX, x)) for x in v]
            out.append(mk("omad", v=v, U=U))
    for k in range(N(150)):
        n = rng.choice([4, 5, 8, 12, 30, rng.randint(4, 110 if big else 45)])
        U = rng.choice([4, 64])
        op = ["roq", "roiqr", "rostd"][k % 3]
        if rng.random() < 0.2:
            wn, wd, wf = rng.choice([n, n + 1, 2 * n]), 1, False
        else:
            wn, wd, wf = _rand_width(rng, n, cap=25 if big else 10)
            wn, wd = _lowest_terms(wn, wd)
        qn, qd = rng.choice([(19, 20), (19, 20), (1, 2), (3, 4), (9, 10)])
        cn, cd = rng.choice([(5, 1), (3, 1), (3, 2), (1, 1), (2, 1), (1, 2)])
        out.append(mk(op, v=_rand_signal(rng, n, U), U=U, wn=wn, wd=wd, wf=wf, qn=qn, qd=qd, cn=cn, cd=cd))
    return out


def _wing_py(n, wn, wd):
    """bookkeeping only (boundary counters): the nominal half-width before min / truncation"""
    if wd == 1:
        return wn // 2
    return -(-n * wn // (2 * wd))


def _count(ctx: Ctx, rec):
    op = rec["op"]
    n = rec["n"] if op == "wing" else len(rec["v"])
    key = [op, n, rec["v"], rec["U"], rec["wn"], rec["wd"], rec["wf"], rec["wnone"], rec["w"], rec["qn"], rec["qd"], rec["cn"],
           rec["cd"], rec["wini"], rec["wing"], rec["niter"], rec["fit"], rec["ww"], rec["order"], rec["sdin"], rec["trendin"]]
    ctx.count_input(key, nontrivial=n >= 2)
    ctx.bump("op_" + op)
    if rec["err"]:
        ctx.bump("error_outcome_" + rec["err"])
    if op in ("wing", "check", "rollq", "rollmed", "rollstd", "kaiser", "roiqr", "roq", "rostd") and not rec["wnone"]:
        wn, wd = rec["wn"], rec["wd"]
        valid = (wd > 1 and 0 < wn < wd) or (wd == 1 and wn >= 2)
        if not valid:
            ctx.bump("width_invalid")
        else:
            nom = _wing_py(n, wn, wd)
            ctx.bump("width_fraction" if wd > 1 else "width_integer")
            if nom < 3:
                ctx.bump("wing_raised_to_min_wing")
            if nom > n - 1:
                ctx.bump("wing_truncated_to_length")
            if wd == 1 and wn > n - 1:
                ctx.bump("width_larger_than_signal")
            if rec["wf"]:
                ctx.bump("integer_width_passed_as_float")
    if n < 2:
        ctx.bump("signal_shorter_than_2")
    if op in ("convu", "convw", "savgol") and len(rec["win"]) and len(rec["win"]) % 2 == 0:
        ctx.bump("even_window")
    if op == "convw" and len(rec["w"]) != len(rec["v"]):
        ctx.bump("weights_length_mismatch")
    if rec["hasw"] and op in ("kaiser", "savgol"):
        ctx.bump("weighted_" + op)
    if op == "kaiser" and rec["fit"]:
        ctx.bump("kaiser_fit_edges")
    if op in ("kaiser", "savgol") and rec["wnone"]:
        ctx.bump(op + "_width_none")
    if op == "savgol" and len(rec["dbg"]) == 4:
        if rec["dbg"][1] < rec["ww"]:
            ctx.bump("savgol_window_width_reduced")
        if rec["dbg"][2] < rec["order"]:
            ctx.bump("savgol_order_reduced")
        if rec["dbg"][0] > 1:
            ctx.bump("savgol_several_iterations")
        if rec["dbg"][0] >= 999:
            ctx.bump("savgol_n_iter_at_the_1000_clamp")
    if op in ("oiqr", "omad") and rec["v"] and len(set(rec["v"])) == 1:
        ctx.bump("outlier_constant_input")
    if op in ("oiqr", "omad", "roiqr", "roq", "rostd") and any(rec["mask"]):
        ctx.bump("mask_with_outliers")
    if op in ("roiqr", "roq", "rostd") and rec["wd"] == 1 and n <= rec["wn"]:
        ctx.bump("rolling_outlier_early_return")


def run(ctx: Ctx):
    thorough = ctx.tier == "thorough"
    ctx.rule = (
        "direction 1: every input of MC_Smoothing (wing: n 1..10 x 22 widths x int/float; check_inputs: signals over {0,1,3} of "
        "length 2..4 x 3 widths x weights; rolling quantile/median/std: signals over {0,1,3} of length 2..5 x 3 widths x 4 "
        "quantiles; convolve_unweighted: signals over {0,1,4}^5 x 3 windows (symmetric, asymmetric, even) x wing x 1..3 passes; "
        "convolve_weighted: {0,1,4}^4 x windows x 5 weight vectors (incl. zeros) x 1..2 passes + length mismatches; kaiser: "
        "signals of length 1..5 x widths x weights; savgol: 10 signals of length 1..8 x total width none/3/5/9/half x window width "
        "x order x n_iter x weights; guess_window_size: n 1..12 x 10 scale estimates; outlier_iqr / outlier_mad_median: every "
        "sequence over 0..3 of length 1..5; rolling_outlier_*: signals over {0,1,5} of length 4..5 x widths x thresholds x 2 "
        "trend lines) replayed into the real code -- the iterated smoothers as a state machine, one action per pass.  "
        "direction 2: seeded random / structured inputs (signals to 300 values: trends, level shifts, spikes, runs of equal "
        "values, constants, cubic polynomials; integer / fractional / float / invalid widths around every clamp; windows of "
        "1..15 coefficients incl. even and asymmetric; zero and length-mismatched weights; MAD-median thresholds hit exactly).  "
        "A case is distinct by its whole input; non-trivial when the signal has >= 2 values.")
    ctx.trusted_base = ["TLC 1.8 evaluating spec/Smoothing.tla (with Stats, Num)",
                        "harness wrappers that LOG numpy.kaiser, scipy savgol_coeffs / savgol_filter calls, smoothing.logging.debug, "
                        "smoothing.guess_window_size, descriptives.biweight_midvariance / weighted_std and smoothing.savgol (and, for "
                        "enumerated guess / rolling_outlier inputs, REPLACE the last three by the enumerated value)",
                        "12-digit fixed-point encoding of observed floats (enc.fx); float construction k / U of grid signals"]
    ctx.assumptions = ["records outside the TLA+ premises are counted out_of_scope (non-dyadic fractional widths whose "
                       "ceil(n * width / 2) falls on an integer, kaiser(do_fit_edges) on signals shorter than the window or with "
                       "weights, window sums <= 0, results beyond the 12-digit encoding)",
                       "numpy.kaiser / scipy.signal.savgol_coeffs values, numpy.polyfit and the biweight midvariance are not "
                       "re-derived: the logged window / scale / trend line is an abstract input of the clause",
                       "P-layer = documented behaviour only; pandas' quantile interpolation and ddof, scipy's alignment of even "
                       "windows, the constant 4 of guess_window_size, the early return of rolling_outlier_* are A-layer (MODEL-DRIFT)"]
    consts = {"Ops": "{" + ", ".join(f'"{o}"' for o in MC_OPS) + "}", "Big": "TRUE" if thorough else "FALSE"}
    cfg = ctx.cfg("mc-smoothing", spec="Spec", invariants=["DesignOK"], constants=consts)
    t0 = time.time()
    r, states = ctx.mc("MC_Smoothing", cfg, timeout=2400, coverage=False)
    print(f"  [x07] mc + dump parse {time.time() - t0:.1f}s", file=sys.stderr)
    mc_inputs, calls = inputs_from_states(states)
    if len(mc_inputs) != calls or len(states) != r.distinct or not mc_inputs:
        raise MachineryError(f"MC_Smoothing dump: {len(mc_inputs)} ret / {calls} call states of {len(states)} parsed, "
                             f"TLC reports {r.distinct} states")
    steps = sum(1 for st in states if st["ph"] == "iter")
    inputs = list(mc_inputs) + random_inputs(ctx, 8.0 if thorough else 1.0)
    t0 = time.time()
    recs = ctx.execute(execute, inputs)
    print(f"  [x07] real calls {time.time() - t0:.1f}s", file=sys.stderr)
    for rec in recs:
        _count(ctx, rec)
    for k in (0, len(mc_inputs) // 2, len(mc_inputs), len(recs) - 1):
        ctx.sample(recs[k])
    ctx.validate(TRACE, recs, batch=3000)
    ctx.notes["mc"] = {"states": r.distinct, "inputs_replayed": len(mc_inputs), "iteration_states": steps}
    ctx.exhaustive = f"MC_Smoothing: {len(mc_inputs)} enumerated inputs ({r.distinct} states incl. {steps} loop-pass states) -- every input replayed into the real code"
    if ctx.drift_samples:
        ctx.notes["drift_samples"] = ctx.drift_samples[:3]


REQUIRE_CLAUSES[:] = ["wing_invalid_rejected", "wing_half_width", "ck_mirror", "ck_weights_rolloff", "rq_windowed_quantile",
                      "rm_windowed_median", "rs_windowed_std", "cu_window_applied", "cw_weighted_mean",
                      "cw_equal_weights_is_unweighted", "cw_len_mismatch_rejected", "ks_length", "ks_window_shape",
                      "ks_window_applied", "ks_fit_interior_unchanged", "sg_total_width", "sg_window_width", "sg_order", "sg_n_iter",
                      "sg_filter_calls", "sg_window_applied", "sg_weighted_mean", "gw_bounds", "oi_formula", "om_formula",
                      "ro_formula", "ro_length"]


def replay(ctx, doc):
    rec = doc["record"]
    inp = {k: rec[k] for k in BLANK_IN if k in rec}
    new = ctx.execute(execute, [inp], processes=1)[0]
    vs = ctx.validate(TRACE, [new])
    print(json.dumps({"observed": {k: new[k] for k in ("outi", "outs", "mask", "dbg", "calls", "err", "msg")}, "verdict": vs[0]})[:3000])
    if vs[0]["scope"] and vs[0]["failed"] and ctx.violations:
        print(f"VIOLATION property={ID} replay=(replayed) clauses={','.join(vs[0]['failed'])}")
        return 1
    return 0
