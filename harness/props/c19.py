"""C19 -- robust estimators and smoothers obey their defining invariants.

Direction 1: TLC enumerates small scopes (MC_Stats: weighted median / weighted MAD over all value x weight
vectors, the other estimators over all short vectors incl. shift / scale pairs, biweights, rolling median and
mirror padding over all short integer signals x widths, _width2wing over lengths x widths); the dump is
replayed into the real cnvlib.descriptives / cnvlib.smoothing.  Direction 2: seeded structured random inputs
per the quantifier (length 1..400, ties, repeated values, one extreme outlier, all-equal, NaN, weights incl.
dominant / zeros / exact half, widths as fractions and integers and wider than the signal).  Every record is
judged by TLC against the P-layer of spec/StatsCheck.tla (Trace_Stats); nothing here judges an output.

Encoding contract with spec/StatsCheck.tla:
  values   v[i] integers in units 1/U (dyadic grid, floats v/U are exact), nan[i] mask;  weights w[i] in 1/WU, wnan[i]
  values   x[i], wx[i] = the same numbers as Num.Z records {n, m}: round(|v/U| * 10^12) in base-10^4 limbs
  fine weights (wfine): weight[i] = k[i] * 2^-ws with k[i] carried exactly as the limbs of wx[i] (w = []); the
           specification only compares weight sums and ratios, so the unit of wx does not matter
  results  out/out2 = Num.Z record of round(|result| * 10^12) (any magnitude), isnan/isnan2 = result is NaN or
           infinite;  err/err2 = exception type name or ""
  smoother outs[i] = {n, m, fin},  outg[i] = [floor(x * U), x * U is an integer?];  outi = integer result
  pairs    kind "shift": second call on x + c/U;  kind "scale": second call on x * fn/fd (fn/fd = +-2^k)
"""
from __future__ import annotations

import math
import os

from ..core import Ctx, generic_replay
from ..tlc import MachineryError
from .. import tlaval

ID = "C19"
LEVEL = "model_checking"
TRACE = "Trace_Stats"
MC = "MC_Stats"

LOC = ["biloc", "mode", "wmedian"]
SCALE = ["mad", "iqr", "gapper", "qn", "bivar", "wmad", "wstd"]
EQUIV = [e for e in SCALE if e != "bivar"]
WEIGHTED = ["wmedian", "wmad", "wstd"]
ESTIMATORS = LOC + SCALE + ["mse"]
SMOOTHERS = ["rollmed", "kaiser", "savgol", "savgol_w"]
HEAVY = ["biloc", "bivar", "qn"]          # n <= 60 (TLC cost)
MODE_CAP = 40                             # modal_location: kernel matrix over the distinct values

REQUIRE_CLAUSES = list(
    [f"{e}_noerr" for e in ESTIMATORS + SMOOTHERS] + [f"{e}_range" for e in LOC + ["rollmed", "kaiser"]]
    + [f"{e}_{c}" for e in SCALE for c in ("nonneg", "zero_on_constant", "formula")]
    + ["biloc_formula", "mode_formula", "mse_formula", "mse_nonneg", "wmedian_halfweight", "wmedian_equal_weights_is_median",
       "wmedian_midpoint", "pair_noerr", "loc_shift_exact", "mode_shift", "biloc_shift", "scale_shift_invariant",
       "scale_proportional", "rollmed_windowed_median", "wing_spec", "pad_mirror", "guess_bounds"]
    + [f"{e}_{c}" for e in SMOOTHERS for c in ("one_finite_per_input", "constant")])

BLANK = {"op": "", "est": "", "kind": "single", "U": 1024, "v": [], "x": [], "nan": [], "WU": 1, "w": [], "wx": [], "wnan": [], "wfine": False, "ws": 0,
         "flag": False, "hasinit": False, "init": 0, "c": 0, "fn": 1, "fd": 1, "wn": 0, "wd": 0}
INPUT_FIELDS = list(BLANK)


# ------------------------------------------------------------------ encoders (no judging)
def _limbs(v):
    out = []
    while v:
        v, d = divmod(v, 10000)
        out.append(d)
    return out


def _fx(x):
    """float -> (Num.Z record of round(|x| * 10^12), base-10^4 limbs little endian; is-not-a-finite-number)."""
    from fractions import Fraction
    try:
        x = float(x)
    except (TypeError, ValueError):
        return {"n": False, "m": []}, True
    if x != x or math.isinf(x):
        return {"n": False, "m": []}, True
    v = int(round(abs(Fraction(x)) * 10**12))
    return {"n": bool(x < 0) and v != 0, "m": _limbs(v)}, False


def _seq_out(y, unit):
    """smoother output -> (outs, outg)."""
    import numpy as np
    arr = np.asarray(y, dtype=float).ravel()
    outs, outg = [], []
    for x in arr.tolist():
        o, bad = _fx(x)
        o["fin"] = not bad
        outs.append(o)
        t = x * unit if not bad else 0.0
        if bad or abs(t) >= 2**31 - 2:
            outg.append([0, False])
        else:
            f = math.floor(t)
            outg.append([int(f), bool(f == t)])
    return outs, outg


def _err(e):
    return type(e).__name__


def _zfx(k, unit):
    """grid integer k (units 1/unit) -> Num.Z record of k/unit * 10^12 (base-10^4 limbs, little endian, normalised)."""
    num = abs(k) * 10**12
    if num % unit:
        raise MachineryError(f"{k}/{unit} has more than 12 decimals")
    q, limbs = num // unit, []
    while q:
        q, d = divmod(q, 10000)
        limbs.append(d)
    return {"n": bool(k < 0), "m": limbs}


# ------------------------------------------------------------------ real code
def _call_est(D, est, x, w, inp):
    if est == "biloc":
        return D.biweight_location(x)
    if est == "mode":
        return D.modal_location(x)
    if est == "wmedian":
        return D.weighted_median(x, w)
    if est == "mad":
        return D.median_absolute_deviation(x, scale_to_sd=inp["flag"])
    if est == "iqr":
        return D.interquartile_range(x)
    if est == "gapper":
        return D.gapper_scale(x)
    if est == "qn":
        return D.q_n(x)
    if est == "bivar":
        if inp["hasinit"]:
            return D.biweight_midvariance(x, initial=inp["init"] / inp["U"])
        return D.biweight_midvariance(x)
    if est == "wmad":
        return D.weighted_mad(x, w, scale_to_sd=inp["flag"])
    if est == "wstd":
        return D.weighted_std(x, w)
    if est == "mse":
        if inp["hasinit"]:
            return D.mean_squared_error(x, initial=inp["init"] / inp["U"])
        return D.mean_squared_error(x)
    raise MachineryError(f"unknown estimator {est}")


def execute(inp):
    """Run the real cnvlib function(s) on one encoded input; return the full record."""
    import numpy as np
    from cnvlib import descriptives as D, smoothing as S
    rec = {k: inp[k] for k in INPUT_FIELDS}
    zero = {"n": False, "m": []}
    rec.update(out=dict(zero), isnan=False, out2=dict(zero), isnan2=False, outs=[], outg=[], outi=0, err="", err2="")
    est, U = inp["est"], inp["U"]
    x = np.array([float("nan") if m else k / U for k, m in zip(inp["v"], inp["nan"] or [False] * len(inp["v"]))],
                 dtype=float)
    if est in ESTIMATORS:
        w = None
        if est in WEIGHTED:
            w = np.array([float("nan") if m else k for k, m in zip(_weights(inp), inp["wnan"])], dtype=float)
        try:
            rec["out"], rec["isnan"] = _fx(_call_est(D, est, x.copy(), None if w is None else w.copy(), inp))
        except Exception as e:      # an exception is an outcome the specification judges (*_noerr)
            rec["err"] = _err(e)
        if inp["kind"] != "single":
            x2 = x + inp["c"] / U if inp["kind"] == "shift" else x * (inp["fn"] / inp["fd"])
            try:
                rec["out2"], rec["isnan2"] = _fx(_call_est(D, est, x2, None if w is None else w.copy(), inp))
            except Exception as e:
                rec["err2"] = _err(e)
        return rec
    width = None
    if est not in ("pad", "guess") and inp["wd"] != 0:
        width = inp["wn"] if inp["wd"] == 1 else inp["wn"] / inp["wd"]
    try:
        if est == "rollmed":
            rec["outs"], rec["outg"] = _seq_out(S.rolling_median(x, width), U)
        elif est == "kaiser":
            rec["outs"], rec["outg"] = _seq_out(S.kaiser(x, width), U)
        elif est == "savgol":
            rec["outs"], rec["outg"] = _seq_out(S.savgol(x, width), U)
        elif est == "savgol_w":
            w = np.array([k / inp["WU"] for k in inp["w"]], dtype=float)
            rec["outs"], rec["outg"] = _seq_out(S.savgol(x, width, weights=w), U)
        elif est == "wing":
            rec["outi"] = int(S._width2wing(width, x))
        elif est == "pad":
            rec["outs"], rec["outg"] = _seq_out(S._pad_array(x, inp["wn"]), U)
        elif est == "guess":
            w = np.array([k / inp["WU"] for k in inp["w"]], dtype=float) if inp["w"] else None
            rec["outi"] = int(S.guess_window_size(x, w))
        else:
            raise MachineryError(f"unknown op {est}")
    except MachineryError:
        raise
    except Exception as e:
        rec["err"] = _err(e)
    return rec


# ------------------------------------------------------------------ inputs
def mk(est, v, *, kind="single", U=1024, nan=None, w=None, WU=1, wnan=None, flag=False, init=None, c=0, fn=1, fd=1,
       wn=0, wd=0, wk=None, ws=0):
    """wk/ws: fine weights k * 2^-ws (arbitrary-size integers k) instead of w/WU."""
    r = dict(BLANK)
    nw = len(wk) if wk is not None else len(w or [])
    r.update(op=est if kind == "single" else f"{est}.{kind}", est=est, kind=kind, U=U, v=list(v),
             nan=list(nan) if nan is not None else [False] * len(v), WU=WU, w=list(w) if w is not None else [],
             wnan=list(wnan) if wnan is not None else [False] * nw, flag=bool(flag),
             hasinit=init is not None, init=int(init or 0), c=c, fn=fn, fd=fd, wn=wn, wd=wd)
    if wk is not None:
        r.update(wfine=True, ws=int(ws), w=[], wx=[{"n": False, "m": _limbs(int(k))} for k in wk])
    return _with_fx(r)


def _with_fx(r):
    """the fixed-point copies of values and weights (pure re-encoding of v/U and w/WU)."""
    r["x"] = [_zfx(k, r["U"]) for k in r["v"]] if r["est"] in ESTIMATORS else []
    if not r.get("wfine"):
        r["wx"] = [_zfx(k, r["WU"]) for k in r["w"]]
    return r


def _wk(rec):
    """the integers k of fine weights, back from their limbs."""
    return [sum(d * 10000**i for i, d in enumerate(z["m"])) for z in rec["wx"]]


def _weights(inp):
    """the float weights the real code is called with (exact: k / 2^ws with k < 2^53, or w / WU on the grid)."""
    if inp.get("wfine"):
        return [k / 2 ** inp["ws"] for k in _wk(inp)]
    return [k / inp["WU"] for k in inp["w"]]


def fine_from_floats(ws):
    """exact (k, exponent) representation of IEEE doubles: w[i] = k[i] * 2^-e."""
    ratios = [float(x).as_integer_ratio() for x in ws]
    e = max(d.bit_length() - 1 for _, d in ratios)
    return [n * (2 ** e // d) for n, d in ratios], e


def _inputs_from_states(states):
    out = []
    for st in states:
        if st["ph"] != "ret":
            continue
        inp = {k: tlaval.to_py(st["inp"][k]) for k in INPUT_FIELDS if k not in ("x", "wx")}
        inp["wx"] = []
        inp = _with_fx(inp)
        # the encoder's fixed-point copies must be the values the specification itself derives from v/U, w/WU
        if inp["x"] != tlaval.to_py(st["inp"]["x"]) or inp["wx"] != tlaval.to_py(st["inp"]["wx"]):
            raise MachineryError(f"fixed-point encoding differs from Stats.FxGrid for {inp['v']} / {inp['U']}")
        out.append(inp)
    return out


def _tla_set(xs):
    return "{" + ", ".join(str(x) for x in xs) + "}"


def _mc_constants(fam, maxlen, vals, wts, unit):
    return {"Fam": f'"{fam}"', "MaxLen": maxlen, "Vals": _tla_set(vals), "Wts": _tla_set(wts), "Unit": unit}


def gen_values(rng, n, style, U=1024):
    """n grid integers (units 1/U) in the given style; magnitudes <= 32 (one outlier up to 40)."""
    lim = 32 * U
    clip = lambda k: max(-lim, min(lim, k))
    centre = rng.choice([0, 0, rng.randint(-4 * U, 4 * U)])
    sd = rng.choice([U // 8, U // 2, U, 2 * U])
    if style == "allequal":
        return [centre] * n
    if style == "ties":
        pool = [centre + rng.randint(-3, 3) * rng.choice([1, U // 4, U]) for _ in range(rng.randint(2, 4))]
        return [clip(rng.choice(pool)) for _ in range(n)]
    if style == "tiny":        # spread of a few grid steps: MAD near / below the biweight's epsilon
        return [clip(centre + rng.randint(-2, 2)) for _ in range(n)]
    if style == "symmetric":   # exactly symmetric about the centre
        half = [abs(int(rng.gauss(0, sd))) for _ in range(n // 2)]
        vs = [clip(centre + h) for h in half] + [clip(centre - h) for h in half] + ([centre] if n % 2 else [])
        rng.shuffle(vs)
        return vs
    vs = [clip(centre + int(round(rng.gauss(0, sd)))) for _ in range(n)]
    if style == "repeats" and n >= 2:
        for _ in range(max(1, n // 3)):
            vs[rng.randrange(n)] = vs[rng.randrange(n)]
    if style == "outlier" and n >= 2:
        vs[rng.randrange(n)] = rng.choice([-1, 1]) * rng.randint(20 * U, 40 * U)
    if style == "band" and n >= 3:  # one point between 1 and sqrt(2) rejection radii of the biweight location (6..8.5 MAD)
        s = sorted(vs)
        med = s[n // 2]
        mad = sorted(abs(k - med) for k in vs)[n // 2]
        if mad > 0:
            vs[rng.randrange(n)] = clip(med + rng.choice([-1, 1]) * int(mad * rng.uniform(6.0, 8.4)))
    return vs


STYLES = ["normal", "normal", "ties", "repeats", "outlier", "outlier", "allequal", "tiny", "symmetric", "band"]
# heavy ties where the multiplicity of a value decides where the density peaks (modal_location)
TIE_STYLES = ["rep_vs_cluster", "two_clusters", "pairs", "dup_extreme"]


def gen_tied_values(rng, n, style, U=1024):
    n = max(n, 4)
    step = rng.choice([U // 16, U // 8, U // 4])
    base = rng.randint(-2 * U, 2 * U)
    if style == "rep_vs_cluster":      # one value repeated k times against a looser cluster of distinct values
        k = rng.randint(2, max(2, n // 2))
        far = base + rng.choice([-1, 1]) * rng.randint(6, 14) * step
        cluster = [far + j * step + rng.randint(-step // 4, step // 4) for j in range(n - k)]
        vs = [base] * k + cluster
    elif style == "two_clusters":      # two tied clusters of different multiplicity (+ a few stragglers)
        k1 = rng.randint(1, n - 2)
        k2 = rng.randint(1, n - 1 - k1)
        other = base + rng.choice([-1, 1]) * rng.randint(3, 20) * step
        vs = [base] * k1 + [other] * k2 + [base + rng.randint(-30, 30) * step for _ in range(n - k1 - k2)]
    elif style == "pairs":             # all values in pairs (one of them a triple or quadruple, sometimes)
        vals = [base + rng.randint(-12, 12) * step for _ in range(n // 2)]
        vs = [x for x in vals for _ in (0, 1)]
        if rng.random() < 0.6:
            vs += [rng.choice(vals)] * rng.randint(1, 2)
    else:                              # duplicates of the extreme value
        vs = [base + int(round(rng.gauss(0, 4 * step))) for _ in range(n - 2)]
        ext = max(vs) + rng.randint(1, 8) * step if rng.random() < 0.5 else min(vs) - rng.randint(1, 8) * step
        vs += [ext] * rng.randint(2, max(2, n // 3))
    rng.shuffle(vs)
    return vs


def gen_weights(rng, v, style):
    n = len(v)
    WU = rng.choice([1, 64, 1024])
    top = rng.choice([3, 16, WU if WU > 1 else 8])
    if style == "equal":
        return [rng.randint(1, top)] * n, WU
    w = [rng.randint(1, top) for _ in range(n)]
    if style == "dominant":
        k = rng.randrange(n)
        w[k] = sum(w) - w[k] + rng.choice([0, 1, 1000])   # exactly half of the total, just above, far above
        w[k] = max(1, w[k])
    elif style == "zeros":
        for k in range(n):
            if rng.random() < 0.3:
                w[k] = 0
        if not any(w):
            w[rng.randrange(n)] = 1
    elif style == "half":      # the half-weight point falls exactly between two values
        order = sorted(range(n), key=lambda k: v[k])
        cut = rng.randint(1, n - 1) if n >= 2 else 0
        lo, hi = sum(w[k] for k in order[:cut]), sum(w[k] for k in order[cut:])
        if n >= 2:
            if lo < hi:
                w[order[cut - 1]] += hi - lo
            else:
                w[order[cut]] += lo - hi
    return w, WU


WSTYLES = ["equal", "random", "random", "dominant", "zeros", "half"]
FINE_STYLES = ["near_over", "near_under", "tiny", "tiny_equal"]     # weighted median / MAD (tiny also weighted sd)
NEAR_RELS = [1e-4, 1e-5, 1e-6, 1e-7, 1e-9]


def gen_fine_weights(rng, v, style):
    """weights k * 2^-ws finer than the 12-digit grid -> (k list, ws).
    near_over / near_under: the cumulative weight (in value order) at the median index exceeds / falls short of half the
    total by a relative amount in NEAR_RELS;  tiny / tiny_equal: small integers scaled by 2^-20 .. 2^-40."""
    n = len(v)
    if style in ("tiny", "tiny_equal"):
        ws = rng.randint(20, 40)
        if style == "tiny_equal":
            return [rng.choice([1, 1, 3, 5])] * n, ws
        return [rng.randint(1, 16) for _ in range(n)], ws
    ws = 34
    k = [rng.randint(2**32, 2**34) for _ in range(n)]
    if n < 2:
        return k, ws
    order = sorted(range(n), key=lambda i: v[i])
    tot, cum, p = sum(k), 0, 1
    for j, i in enumerate(order[:-1]):          # natural cut: first position where half of the weight is reached
        cum += k[i]
        p = j + 1
        if 2 * cum >= tot:
            break
    L = sum(k[i] for i in order[:p])
    R = tot - L
    d = max(2, int(round(rng.choice(NEAR_RELS) * tot)))
    want = d if style == "near_over" else -d    # L - R afterwards
    diff = want - (L - R)
    if diff > 0:
        k[order[p - 1]] += diff
    else:
        k[order[p]] += -diff
    return k, ws


def gen_nan(rng, n):
    if n >= 2 and rng.random() < 0.15:
        m = [rng.random() < 0.25 for _ in range(n)]
        if all(m):
            m[rng.randrange(n)] = False
        return m
    return [False] * n


def pick_n(rng, cap):
    r = rng.random()
    if r < 0.25:
        return rng.randint(1, 5)
    if r < 0.7:
        return rng.randint(2, min(cap, 30))
    if r < 0.9:
        return rng.randint(2, min(cap, 120))
    if r < 0.96:
        return rng.randint(2, cap)
    return rng.choice([cap - 1, cap])


def random_estimator_inputs(ctx, est, count, cap):
    rng = ctx.rng
    out = []
    for _ in range(count):
        n = pick_n(rng, cap)
        style = rng.choice(STYLES)
        v = gen_values(rng, n, style)
        if est == "mode" and rng.random() < 0.5:
            v = gen_tied_values(rng, min(n, 24), rng.choice(TIE_STYLES))
            n = len(v)
        nan = gen_nan(rng, n)
        kw = {"nan": nan}
        if est in WEIGHTED and rng.random() < (0.3 if est != "wstd" else 0.1):
            # weights off the 12-digit grid: near-half cumulative weight, tiny totals
            if est != "wstd" and n > 12 and rng.random() < 0.7:
                n = rng.randint(2, 12)
                v = v[:n]
            nan = [False] * n
            kw["nan"] = nan
            fs = rng.choice(FINE_STYLES if est != "wstd" else ["tiny", "tiny_equal"])
            if fs.startswith("near") and len(set(v)) < len(v) and rng.random() < 0.7:
                v = [x + j for j, x in enumerate(v)]          # distinct values: a wrong midpoint is then visible
            wk, wsx = gen_fine_weights(rng, v, fs)
            kw.update(wk=wk, ws=wsx)
        elif est in WEIGHTED:
            ws = rng.choice(WSTYLES)
            w, WU = gen_weights(rng, v, ws)
            wnan = [False] * n
            if rng.random() < 0.1 and n >= 2:
                k = rng.randrange(n)
                if sum(w) - w[k] > 0:
                    wnan[k] = True
            kw.update(w=w, WU=WU, wnan=wnan)
        if est in ("mad", "wmad"):
            kw["flag"] = rng.random() < 0.6
        if est == "bivar" and rng.random() < 0.5:
            kw["init"] = sorted(v)[n // 2] + rng.choice([0, 0, 1, -512, 300])
        if est == "mse" and rng.random() < 0.7:
            kw["init"] = rng.choice([0, 0, 1024, -300, sorted(v)[n // 2]])
        kinds = ["single"]
        if est in LOC or est in EQUIV:
            kinds.append("shift")
        if est in EQUIV:
            kinds.append("scale")
        kind = rng.choice(kinds) if rng.random() < 0.55 else "single"
        if kind == "shift":
            kw["c"] = rng.choice([1, -1, 1024, 5 * 1024 + 3, rng.randint(-16 * 1024, 16 * 1024)])
        if kind == "scale":
            fn, fd = rng.choice([(2, 1), (4, 1), (16, 1), (1, 2), (1, 8), (-1, 1), (-2, 1), (-1, 4)])
            if est in WEIGHTED:
                fn = abs(fn)
            kw.update(fn=fn, fd=fd)
        out.append(mk(est, v, kind=kind, **kw))
    return out


def gen_width(rng, n):
    """(wn, wd): fractions (dyadic mostly), integers, wider than the signal."""
    r = rng.random()
    if r < 0.4:
        wd = rng.choice([2, 4, 8, 16, 64, 1024])
        return rng.randint(1, wd - 1), wd
    if r < 0.5:
        wd = rng.choice([3, 5, 10, 100])
        return rng.randint(1, wd - 1), wd
    if r < 0.8:
        return rng.randint(2, max(2, n)), 1
    return rng.choice([n, n + 1, 2 * n + 1, n + 50, 1000]) if n >= 2 else rng.choice([2, 3, 7]), 1


def gen_signal(rng, n, U=1024):
    style = rng.choice(["const", "steps", "noise", "noise", "ramp", "spike"])
    base = rng.randint(-4 * U, 4 * U)
    if style == "const":
        return [base] * n
    if style == "steps":
        lv, out = base, []
        for _ in range(n):
            if rng.random() < 0.1:
                lv = base + rng.choice([-U, U // 2, U, 3 * U])
            out.append(lv + rng.randint(-U // 8, U // 8))
        return out
    if style == "ramp":
        return [base + k * rng.choice([1, U // 16]) for k in range(n)]
    out = [base + int(round(rng.gauss(0, U // 2))) for _ in range(n)]
    if style == "spike":
        out[rng.randrange(n)] += rng.choice([-1, 1]) * 20 * U
    return out


def random_smoother_inputs(ctx, est, count):
    rng = ctx.rng
    out = []
    for _ in range(count):
        r = rng.random()
        n = rng.randint(1, 9) if r < 0.3 else rng.randint(2, 60) if r < 0.7 else rng.randint(2, 400)
        if r > 0.97:
            n = 400
        v = gen_signal(rng, n)
        wn, wd = gen_width(rng, n)
        kw = {}
        if est == "kaiser" and rng.random() < 0.15:
            wn, wd = 0, 0       # width=None: guess_window_size
        if est == "savgol_w":
            ws = rng.choice(["equal", "random", "random", "dominant"])
            w, WU = gen_weights(rng, v, ws)
            kw.update(w=[max(1, k) for k in w], WU=WU)
        out.append(mk(est, v, wn=wn, wd=wd, **kw))
    return out


def random_helper_inputs(ctx, count):
    rng = ctx.rng
    out = []
    for _ in range(count):
        n = rng.choice([1, 2, 3, 4, 5, 6, 7, 8, 9, 10, 50, 399, 400, rng.randint(1, 400)])
        wn, wd = gen_width(rng, n)
        if rng.random() < 0.1:
            wn, wd = rng.choice([(1, 1), (0, 1), (3, 2), (-2, 1), (5, 4)])
        out.append(mk("wing", [0] * n, wn=wn, wd=wd))
    for _ in range(count // 4):
        n = rng.randint(1, 40)
        out.append(mk("pad", gen_signal(rng, n), wn=rng.randint(1, n)))
        n = rng.randint(1, 60)
        v = gen_signal(rng, n)
        kw = {}
        if rng.random() < 0.5:
            w, WU = gen_weights(rng, v, "random")
            kw.update(w=w, WU=WU)
        out.append(mk("guess", v, **kw))
    return out


def structured_inputs():
    """Fixed cases: the probes of DESIGN section 10 and the boundaries a realistic edit would move."""
    U = 1024
    out = []
    g = lambda xs: [int(round(x * U)) for x in xs]
    # candidate 4: weighted median low bias
    for vals in ([1, 2, 3], [1, 2], [1, 2, 3, 4], [1, 2, 3, 4, 5]):
        out.append(mk("wmedian", g(vals), w=[1] * len(vals)))
        out.append(mk("wmad", g(vals), w=[1] * len(vals), flag=True))
    out.append(mk("wmedian", g([1, 2, 3, 4]), w=[1, 0, 0, 1]))
    out.append(mk("wmedian", g([1, 2, 3]), w=[2, 1, 1]))          # one weight exactly half
    out.append(mk("wmedian", g([1, 2, 3]), w=[1, 1, 2]))
    out.append(mk("wmedian", g([3, 1, 2]), w=[5, 1, 1]))          # dominant
    # seeded change C19-1 (exact-half test loosened to np.isclose): half the weight is *nearly* reached after the
    # second value / the weights are tiny, so every difference is below an absolute tolerance
    for est in ("wmedian", "wmad"):
        for ws_ in ([0.5, 0.500004, 1.0], [1e-10] * 3, [0.5, 0.5 + 2.0**-30, 1.0], [2.0**-40] * 3, [2.0**-40] * 4):
            wk, e = fine_from_floats(ws_)
            vals = g([1, 2, 3, 4][:len(ws_)])
            out.append(mk(est, vals, wk=wk, ws=e, flag=(est == "wmad")))
    # candidate 9: biweight location mask
    for p in (5.9, 7.0, 8.4, 9.0):
        out.append(mk("biloc", g([-2, -1, 0, 1, 2, p])))
        out.append(mk("bivar", g([-2, -1, 0, 1, 2, p])))
    out.append(mk("biloc", g([0, 1, 2, 8])))
    # seeded change C19-4 (KDE fitted on the distinct values only): multiplicity decides the density peak
    out.append(mk("mode", [0] * 7 + [18, 20, 21, 22, 23, 24, 26, 50], U=20))
    out.append(mk("mode", g([-1, 2, 2, 2])))
    out.append(mk("mode", g([0, 0, 0, 3, 3.25, 3.5, 3.75])))
    out.append(mk("mode", g([5, 5, 1, 1, 1, 9, 9]), kind="shift", c=777))
    out.append(mk("biloc", [0, 0, 0, 1]))                         # MAD 0: epsilon radius, points at the estimate
    out.append(mk("biloc", g([0, 0, 0, 5])))
    # single values and constant data through every estimator
    for est in ESTIMATORS:
        kw = {"w": [3], "WU": 1} if est in WEIGHTED else {}
        out.append(mk(est, g([2.5]), **kw))
        out.append(mk(est, g([-3]), **kw))
        kw = {"w": [1, 2, 3], "WU": 1} if est in WEIGHTED else {}
        out.append(mk(est, g([1.5, 1.5, 1.5]), **kw))
        kw = {"w": [1, 2, 3, 1], "WU": 1, "wnan": [False, True, False, False]} if est in WEIGHTED else {}
        out.append(mk(est, g([1, 0, 3, 2]), nan=[False, True, False, False], **kw))
    # exactly symmetric data: the midvariance's MAD fallback
    out.append(mk("bivar", g([-1, 0, 1])))
    out.append(mk("bivar", g([-3, -1, 0, 1, 3]), init=0))
    out.append(mk("bivar", g([-3, -1, 0, 1, 4]), init=0))
    out.append(mk("bivar", g([-1, 0, 1, 9, 1.5]), init=0))     # MAD 1 about 0: the point at 9 has |u| = 1 exactly
    out.append(mk("biloc", g([-1, 0, 1, 6, 0])))               # median 0, MAD 1: the point at 6 has |u| = 1 exactly
    # Qn finite-sample factor boundaries n = 10, 11
    out.append(mk("qn", list(range(0, 10 * 512, 512))))
    out.append(mk("qn", list(range(0, 11 * 512, 512))))
    # smoothers on one and two points, widths at the parity / clipping boundaries
    for est in SMOOTHERS:
        for v in ([5 * U], [U, 2 * U], [U, U, U, U, U, U, U, U]):
            for wn, wd in ((3, 1), (2, 1), (1, 2), (100, 1)):
                kw = {"w": [1] * len(v), "WU": 1} if est == "savgol_w" else {}
                out.append(mk(est, v, wn=wn, wd=wd, **kw))
    # weighted Savitzky-Golay with one heavy positive weight: the denominator sum(w * coefficient) nearly cancels at the
    # two positions where the kernel's negative end coefficient meets the heavy bin; the values are huge but finite
    w = [64] * 30
    w[15] = 736
    out.append(mk("savgol_w", [k * 128 for k in range(30)], wn=7, wd=1, w=w, WU=64))
    return out


# ------------------------------------------------------------------ bookkeeping
def _count_boundaries(ctx, rec):
    est = rec["est"]
    kept = [k for k, m in zip(rec["v"], rec["nan"] or [False] * len(rec["v"])) if not m]
    n = len(kept)
    if est in ESTIMATORS:
        if n == 1:
            ctx.bump("single_value")
        if n >= 2 and len(set(kept)) == 1:
            ctx.bump("all_equal")
        if n >= 2 and 1 < len(set(kept)) < n:
            ctx.bump("ties_or_repeats")
        if any(rec["nan"]):
            ctx.bump("with_nan")
        if n >= 3 and max(abs(k) for k in kept) >= 20 * rec["U"]:
            ctx.bump("extreme_outlier")
        if n >= 399:
            ctx.bump("length_399_400")
        if est in WEIGHTED:
            wi = _wk(rec) if rec.get("wfine") else rec["w"]
            w = [0 if wm else x for x, wm, m in zip(wi, rec["wnan"], rec["nan"]) if not m]
            tot = sum(w)
            if any(x == 0 for x in w):
                ctx.bump("zero_weight")
            if any(2 * x > tot for x in w):
                ctx.bump("dominant_weight")
            if any(2 * x == tot for x in w):
                ctx.bump("one_weight_exactly_half")
            if len(set(w)) == 1 and n >= 2:
                ctx.bump("equal_weights_even_n" if n % 2 == 0 else "equal_weights_odd_n")
            order = sorted(range(n), key=lambda k: kept[k])
            cum = 0
            for k in order[:-1]:
                cum += w[k]
                if 2 * cum == tot:
                    ctx.bump("half_weight_exactly_between_values")
                    break
            if any(rec["wnan"]):
                ctx.bump("nan_weight")
            if rec.get("wfine"):
                ctx.bump("weights_finer_than_1e-12")
                if max(w).bit_length() <= rec["ws"] - 19:
                    ctx.bump("tiny_total_weight_below_2^-19_each")
                    if len(set(w)) == 1 and n >= 2:
                        ctx.bump("tiny_equal_weights")
                # cumulative weight just above / just below half at the median index (relative to half the total)
                cum = 0
                for k in order:
                    prev, cum = cum, cum + w[k]
                    if 2 * cum >= tot:
                        over, under = 2 * cum - tot, tot - 2 * prev
                        for name, dlt in (("over", over), ("under", under)):
                            if 0 < dlt and dlt * 5000 <= tot:
                                ctx.bump(f"near_half_{name}_rel_le_2e-4")
                                if dlt * 500000 <= tot:
                                    ctx.bump(f"near_half_{name}_rel_le_2e-6")
                        break
        if rec["kind"] == "shift":
            ctx.bump("translation_pairs")
        if rec["kind"] == "scale":
            ctx.bump("rescaling_pairs")
            if rec["fn"] < 0:
                ctx.bump("rescaling_negative_factor")
        if est == "mode" and n >= 3:
            from collections import Counter
            cnt = Counter(kept)
            if len(cnt) >= 2 and max(cnt.values()) >= 2:
                ctx.bump("mode_repeated_values")
                top = cnt.most_common(2)
                if len(cnt) >= 3 and top[0][1] >= 3:
                    ctx.bump("mode_value_repeated_3x_among_3_distinct")
                if top[0][1] > top[1][1] >= 2:
                    ctx.bump("mode_two_tied_clusters_unequal_multiplicity")
                if cnt[max(cnt)] >= 2 or cnt[min(cnt)] >= 2:
                    ctx.bump("mode_duplicated_extreme")
                if all(c >= 2 for c in cnt.values()):
                    ctx.bump("mode_all_values_repeated")
        if est == "qn" and n in (10, 11):
            ctx.bump("qn_factor_boundary_n_10_11")
    elif est in SMOOTHERS or est == "wing":
        nn = len(rec["v"])
        if rec["wd"] == 1:
            ctx.bump("width_integer")
            if rec["wn"] >= nn:
                ctx.bump("width_wider_than_signal")
        elif rec["wd"] > 1:
            ctx.bump("width_fraction")
        if nn == 1:
            ctx.bump("signal_of_one_point")
        if nn >= 2 and len(set(rec["v"])) == 1 and est in SMOOTHERS:
            ctx.bump("constant_signal")
        if nn >= 399:
            ctx.bump("length_399_400")


def run(ctx: Ctx):
    thorough = ctx.tier == "thorough"
    ctx.rule = ("direction 1: every state of MC_Stats (all value x weight vectors of the scope for weighted median / MAD, "
                "all short vectors x {single, shift, scale} for the other estimators, biweights over vectors with a "
                "far value, all short integer signals x widths for rolling median / padding, lengths x widths for "
                "_width2wing) replayed into cnvlib; direction 2: seeded random vectors of length 1..400 (n <= 60 for "
                "the biweights and Qn) on the 1/1024 grid in the styles normal / ties / repeats / one outlier / "
                "all-equal / tiny spread / exactly symmetric / one point at 6..8.4 MAD, NaN masks, weights equal / "
                "random / dominant / zeros / exact-half / NaN, shift and +-2^k scale pairs; signals of length 1..400 "
                "x widths as fractions, integers, wider than the signal.  A case is distinct by all input fields; "
                "non-trivial when at least two values remain after NaN removal.")
    recs = []
    # developer aid (mutant runs, debugging): VERIF_C19_OPS=wmedian,wmad restricts the run to those functions; the
    # registered command never sets it, and a restricted run switches the vacuity guard off
    only = set(filter(None, os.environ.get("VERIF_C19_OPS", "").split(",")))
    if only:
        REQUIRE_CLAUSES[:] = []
        ctx.notes["restricted_to"] = sorted(only)
    fam_ops = {"mode": {"mode"}, "wmed": {"wmedian", "wmad"}, "est": {"mad", "iqr", "gapper", "qn", "mse", "wstd"},
               "bw": {"biloc", "bivar"}, "smooth": {"rollmed", "pad"}, "wing": {"wing"}}
    wanted = lambda est: not only or est in only
    # ---------------- direction 1
    if thorough:
        scopes = [("wmed", 4, [0, 1, 2], [1, 2, 3], 1, "weighted median/MAD: all vectors of length <= 4 over {0,1,2} x {1,2,3}"),
                  ("wmed", 3, [0, 1, 2], [0, 1, 2], 1, "weighted median/MAD: length <= 3 over {0,1,2} x weights {0,1,2}"),
                  ("est", 4, [0, 1, 3], [1, 2], 4, "mad/iqr/gapper/qn/mse/wstd: length <= 4 over {0,1/4,3/4}, single+shift+scale"),
                  ("bw", 4, [0, 1, 2, 8], [1], 1, "biweight location/midvariance: length <= 4 over {0,1,2,8}"),
                  ("bw", 3, [0, 1, 2, 3], [1], 1024, "biweights: length <= 3 over {0..3}/1024 (epsilon radius)"),
                  ("mode", 5, [0, 1, 2, 6], [1], 1, "modal_location: all vectors of length <= 5 over {0,1,2,6} (repeats), single + shift"),
                  ("smooth", 6, [0, 1, 2], [1], 1, "rolling median / padding: all signals of length <= 6 over {0,1,2} x 13 widths"),
                  ("smooth", 9, [0, 1], [1], 1, "rolling median: all binary signals of length <= 9 x 13 widths"),
                  ("wing", 40, [0], [1], 1, "_width2wing: lengths 1..40 x 18 widths (valid and invalid)")]
    else:
        scopes = [("wmed", 4, [0, 1, 2], [1, 2, 3], 1, "weighted median/MAD: all vectors of length <= 4 over {0,1,2} x {1,2,3}"),
                  ("wmed", 3, [0, 1], [0, 1, 2], 1, "weighted median/MAD: length <= 3 over {0,1} x weights {0,1,2}"),
                  ("est", 3, [0, 1, 3], [1, 2], 4, "mad/iqr/gapper/qn/mse/wstd: length <= 3 over {0,1/4,3/4}, single+shift+scale"),
                  ("bw", 4, [0, 1, 2, 8], [1], 1, "biweight location/midvariance: length <= 4 over {0,1,2,8}"),
                  ("bw", 3, [0, 1, 2, 3], [1], 1024, "biweights: length <= 3 over {0..3}/1024 (epsilon radius)"),
                  ("mode", 4, [0, 1, 2, 6], [1], 1, "modal_location: all vectors of length <= 4 over {0,1,2,6} (repeats), single + shift"),
                  ("smooth", 5, [0, 1, 2], [1], 1, "rolling median / padding: all signals of length <= 5 over {0,1,2} x 13 widths"),
                  ("smooth", 8, [0, 1], [1], 1, "rolling median: all binary signals of length <= 8 x 13 widths"),
                  ("wing", 24, [0], [1], 1, "_width2wing: lengths 1..24 x 18 widths (valid and invalid)")]
    scopes = [sc for sc in scopes if not only or fam_ops[sc[0]] & only]
    for k, (fam, maxlen, vals, wts, unit, name) in enumerate(scopes):
        cfg = ctx.cfg(f"mc-{k}-{fam}", spec="Spec", invariants=["DesignOK"],
                      constants=_mc_constants(fam, maxlen, vals, wts, unit))
        r, states = ctx.mc(MC, cfg, timeout=3000, tag=f"{MC}-{k}", coverage=False, continue_after_violation=True)
        inputs = _inputs_from_states(states)
        del states
        if len(inputs) * 2 != r.distinct:
            raise MachineryError(f"dump replay ({fam}): {len(inputs)} ret states parsed, TLC reports {r.distinct} states")
        out = ctx.execute(execute, inputs)
        recs += out
        ctx.notes[f"scope{k}"] = {"scope": name, "tlc_states": r.distinct, "replayed": len(out),
                                  "design_invariant_violated": r.violated}
    ctx.exhaustive = "; ".join(s[5] for s in scopes) + " -- every dumped transition replayed"
    n_mc = len(recs)

    # ---------------- direction 2
    f = 6 if thorough else 1
    inputs = [i for i in structured_inputs() if wanted(i["est"])]
    plan = {"wmedian": 400, "wmad": 240, "wstd": 240, "mad": 240, "iqr": 240, "gapper": 240, "mse": 160, "mode": 200,
            "biloc": 300, "bivar": 200, "qn": 110}
    for est, cnt in plan.items():
        if wanted(est):
            inputs += random_estimator_inputs(ctx, est, cnt * f, 60 if est in HEAVY else MODE_CAP if est == "mode" else 400)
    for est, cnt in {"rollmed": 300, "kaiser": 250, "savgol": 250, "savgol_w": 250}.items():
        if wanted(est):
            inputs += random_smoother_inputs(ctx, est, cnt * f)
    inputs += [i for i in random_helper_inputs(ctx, 400 * f) if wanted(i["est"])]
    rnd = ctx.execute(execute, inputs)
    recs += rnd
    for rec in recs:
        kept = sum(1 for m in (rec["nan"] or [False] * len(rec["v"])) if not m)
        ctx.count_input([rec[k] for k in INPUT_FIELDS if k not in ("x", "wx")] + (_wk(rec) if rec["wfine"] else []),
                        nontrivial=kept >= 2)
        _count_boundaries(ctx, rec)
    for rec in (recs[0], recs[n_mc // 2], rnd[0], rnd[len(rnd) // 2], rnd[-1]):
        ctx.sample({k: v for k, v in rec.items() if k not in ("x", "wx")})
    # heavy records (biweights, Qn, long signals) are spread over the batch so that the workers share them
    ctx.rng.shuffle(recs)
    ctx.validate(TRACE, recs, batch=20000, timeout=5400)
    ctx.trusted_base = ["TLC 1.8 evaluation of spec/Stats.tla + StatsCheck.tla (limb arithmetic of Num.tla)",
                        "grid decoding k/U -> float, 12-digit fixed-point encoding of inputs and results (c19.py _zfx, _fx, "
                        "_seq_out; the input encoding is cross-checked against Stats.FxGrid on every enumerated state)",
                        "numpy array construction in the harness", "JSON encoding (ints < 2^31)"]
    ctx.assumptions = [
        "inputs lie on a dyadic grid (multiples of 1/1024, |x| <= 40) so that order statistics, midpoints, quartile "
        "interpolation, shifts and +-2^k rescalings are exact in IEEE double and in 12-digit fixed point",
        "biweight location / midvariance and Qn are compared with the formula for n <= 60 only (TLC cost)",
        "smoother widths are fractions in (0,1) or integers >= 2 (anything else is documented to raise ValueError; "
        "checked through _width2wing); non-dyadic fractions with n*width/2 an exact integer are out of scope "
        "(the float ceiling is not determined)",
        "weighted Savitzky-Golay is checked with strictly positive weights (a window of zero weights divides 0 by 0)",
        "weighted estimators: weights >= 0 with positive total; rescaling by positive factors only (a set-valued "
        "weighted median need not commute with reflection)",
        "formula agreement of modal_location and the Kaiser / Savitzky-Golay coefficients are not claimed (DESIGN 9); "
        "mean_squared_error (not one of the property's estimators) is held to its docstring: from zero, or from `initial`",
    ]


def replay(ctx, doc):
    return generic_replay(ctx, doc, execute, TRACE)
