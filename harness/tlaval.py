"""Parser for TLA+ values as printed by TLC (dump files, -simulate trace files, error traces).

Bracket-matching recursive descent; never line based (TLC wraps long values over
several lines).  Values are mapped to Python:

  123, -4          -> int
  "abc"            -> str
  TRUE / FALSE     -> bool
  <<a, b>>         -> tuple
  {a, b}           -> frozenset (elements must be hashable -> tuples/frozensets/Rec)
  a..b             -> frozenset(range(a, b+1))
  [f |-> v, ...]   -> Rec (hashable dict)
  (k :> v @@ ...)  -> Fn  (hashable dict); a function with domain 1..n is turned into a tuple
  ident            -> ModelValue(str)
"""
from __future__ import annotations

import re


class Rec(dict):
    """A TLA+ record: hashable dict."""

    def __hash__(self):  # type: ignore[override]
        return hash(tuple(sorted(self.items(), key=lambda kv: repr(kv[0]))))

    def __getattr__(self, k):
        try:
            return self[k]
        except KeyError as e:
            raise AttributeError(k) from e


class Fn(Rec):
    """A TLA+ function printed as (k :> v @@ ...)."""


class ModelValue(str):
    pass


_ws = re.compile(r"\s*")
_int = re.compile(r"-?\d+")
_ident = re.compile(r"[A-Za-z_][A-Za-z0-9_]*")


class _P:
    def __init__(self, s: str, pos: int = 0):
        self.s = s
        self.i = pos

    def ws(self):
        self.i = _ws.match(self.s, self.i).end()

    def peek(self, tok: str) -> bool:
        self.ws()
        return self.s.startswith(tok, self.i)

    def eat(self, tok: str):
        self.ws()
        if not self.s.startswith(tok, self.i):
            raise ValueError(f"expected {tok!r} at {self.i}: {self.s[self.i:self.i+40]!r}")
        self.i += len(tok)

    def value(self):
        self.ws()
        s, i = self.s, self.i
        c = s[i]
        if c == "<" and s.startswith("<<", i):
            self.i += 2
            items = self.items(">>")
            v = tuple(items)
        elif c == "{":
            self.i += 1
            v = frozenset(self.items("}"))
        elif c == "[":
            self.i += 1
            v = Rec()
            if self.peek("]"):
                self.eat("]")
            else:
                while True:
                    self.ws()
                    m = _ident.match(self.s, self.i)
                    if not m:
                        raise ValueError(f"field name expected at {self.i}")
                    self.i = m.end()
                    self.eat("|->")
                    v[m.group()] = self.value()
                    if self.peek(","):
                        self.eat(",")
                        continue
                    self.eat("]")
                    break
        elif c == "(":
            self.i += 1
            f = Fn()
            while True:
                k = self.value()
                self.eat(":>")
                f[k] = self.value()
                if self.peek("@@"):
                    self.eat("@@")
                    continue
                self.eat(")")
                break
            keys = list(f.keys())
            if keys and all(isinstance(k, int) for k in keys) and sorted(keys) == list(range(1, len(keys) + 1)):
                v = tuple(f[k] for k in range(1, len(keys) + 1))
            else:
                v = f
        elif c == '"':
            j = i + 1
            out = []
            while s[j] != '"':
                if s[j] == "\\":
                    j += 1
                    out.append({"n": "\n", "t": "\t"}.get(s[j], s[j]))
                else:
                    out.append(s[j])
                j += 1
            self.i = j + 1
            v = "".join(out)
        else:
            m = _int.match(s, i)
            if m:
                self.i = m.end()
                v = int(m.group())
            else:
                m = _ident.match(s, i)
                if not m:
                    raise ValueError(f"value expected at {i}: {s[i:i+40]!r}")
                self.i = m.end()
                w = m.group()
                v = True if w == "TRUE" else False if w == "FALSE" else ModelValue(w)
        # interval a..b
        if isinstance(v, int) and not isinstance(v, bool) and self.peek(".."):
            self.eat("..")
            hi = self.value()
            v = frozenset(range(v, hi + 1))
        return v

    def items(self, close: str):
        out = []
        if self.peek(close):
            self.eat(close)
            return out
        while True:
            out.append(self.value())
            if self.peek(","):
                self.eat(",")
                continue
            self.eat(close)
            return out


def parse_value(s: str):
    p = _P(s)
    v = p.value()
    p.ws()
    if p.i != len(s):
        raise ValueError(f"trailing text at {p.i}: {s[p.i:p.i+40]!r}")
    return v


_state_hdr = re.compile(r"^State (\d+):.*$", re.M)
_var = re.compile(r"/\\\s*([A-Za-z_][A-Za-z0-9_]*)\s*=\s*")


def parse_state_body(body: str) -> dict:
    """Parse '/\\ v1 = val\\n/\\ v2 = val ...' (a conjunction of var = value) -> dict."""
    out = {}
    p = _P(body)
    while True:
        p.ws()
        if p.i >= len(body):
            break
        m = _var.match(body, p.i)
        if not m:
            # single-variable states are printed without the leading /\
            m2 = re.compile(r"([A-Za-z_][A-Za-z0-9_]*)\s*=\s*").match(body, p.i)
            if not m2:
                raise ValueError(f"state conjunct expected at {p.i}: {body[p.i:p.i+60]!r}")
            m = m2
        p.i = m.end()
        out[m.group(1)] = p.value()
    return out


def iter_dump_states(text: str):
    """Yield one dict per state of a `tlc -dump` file."""
    hdrs = list(_state_hdr.finditer(text))
    for k, h in enumerate(hdrs):
        end = hdrs[k + 1].start() if k + 1 < len(hdrs) else len(text)
        body = text[h.end():end]
        if body.strip():
            yield parse_state_body(body)


def iter_dump_blocks(text: str, must_contain: str | None = None):
    """Yield the raw text block of each state (optionally only those containing a marker substring)."""
    hdrs = list(_state_hdr.finditer(text))
    for k, h in enumerate(hdrs):
        end = hdrs[k + 1].start() if k + 1 < len(hdrs) else len(text)
        body = text[h.end():end]
        if body.strip() and (must_contain is None or must_contain in body):
            yield body


def _parse_blocks(blocks):
    return [parse_state_body(b) for b in blocks]


def parse_dump_parallel(text: str, must_contain: str | None = None, processes: int = 8, min_parallel: int = 4000):
    """Parse a dump's states (optionally filtered) using a process pool for large dumps."""
    blocks = list(iter_dump_blocks(text, must_contain))
    if len(blocks) < min_parallel or processes <= 1:
        return _parse_blocks(blocks)
    import multiprocessing as mp
    n = max(1, len(blocks) // (processes * 4))
    chunks = [blocks[i:i + n] for i in range(0, len(blocks), n)]
    with mp.get_context("fork").Pool(processes) as pool:
        parts = pool.map(_parse_blocks, chunks)
    return [st for part in parts for st in part]


def parse_dump_file(path: str):
    with open(path) as f:
        return list(iter_dump_states(f.read()))


_sim_action = re.compile(r"^\\\*\s*<(\w+)[^>]*>\s*$", re.M)
_sim_state = re.compile(r"^STATE_(\d+)\s*==\s*$", re.M)


def parse_sim_trace(text: str):
    """Parse a `tlc -simulate file=...` behaviour file -> list of (action_name|None, state dict)."""
    out = []
    marks = list(_sim_state.finditer(text))
    for k, m in enumerate(marks):
        end = marks[k + 1].start() if k + 1 < len(marks) else len(text)
        body = text[m.end():end]
        # the action comment precedes STATE_n; cut anything after a blank line / next comment
        body = body.split("\n\n")[0]
        # action label just before this STATE_ marker
        pre = text[(marks[k - 1].end() if k else 0):m.start()]
        acts = _sim_action.findall(pre)
        act = acts[-1] if acts else None
        out.append((act, parse_state_body(body)))
    return out


def to_tla(v) -> str:
    """Python -> TLA+ value text (for cfg constants / replay)."""
    if isinstance(v, bool):
        return "TRUE" if v else "FALSE"
    if isinstance(v, int):
        return str(v)
    if isinstance(v, ModelValue):
        return str(v)
    if isinstance(v, str):
        return '"' + v.replace("\\", "\\\\").replace('"', '\\"') + '"'
    if isinstance(v, (tuple, list)):
        return "<<" + ", ".join(to_tla(x) for x in v) + ">>"
    if isinstance(v, (set, frozenset)):
        return "{" + ", ".join(sorted(to_tla(x) for x in v)) + "}"
    if isinstance(v, dict):
        return "[" + ", ".join(f"{k} |-> {to_tla(x)}" for k, x in v.items()) + "]"
    raise TypeError(type(v))


def to_py(v):
    """Deep-convert parsed values to plain JSON-able Python (tuples->lists, sets->sorted lists)."""
    if isinstance(v, (bool, int, str)):
        return v if not isinstance(v, ModelValue) else str(v)
    if isinstance(v, tuple):
        return [to_py(x) for x in v]
    if isinstance(v, frozenset):
        return sorted((to_py(x) for x in v), key=repr)
    if isinstance(v, dict):
        return {str(k): to_py(x) for k, x in v.items()}
    raise TypeError(type(v))
