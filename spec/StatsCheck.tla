--------------------------- MODULE StatsCheck ---------------------------
(* C19 -- robust estimators and smoothers obey their defining invariants.                                      *)
(* Content module: record format, P-layer clauses (the property as stated), A-layer (cnvlib.descriptives /     *)
(* cnvlib.smoothing case for case, after the fix: commits), premise, drift, triggers.  The formulas are in      *)
(* Stats.tla.  Used by MC_Stats (design check + enumerator) and Trace_Stats (verdicts on real-code records).    *)
(*                                                                                                              *)
(* A record is ONE call of a real function -- or, for the translation / rescaling clauses, a PAIR of calls on   *)
(* x and on x + c (kind "shift") or x * fn/fd (kind "scale", fn/fd = +-2^k):                                    *)
(*   op      est, or est \o ".shift" / ".scale"                est   the function          kind                *)
(*   U, v    values as integers in units 1/U (dyadic grid)      nan   mask: value is NaN                        *)
(*   WU, w   weights in units 1/WU                              wnan  mask: weight is NaN (counts as 0)         *)
(*   x, wx   the same values / weights as fixed-point numbers (estimators only; <<>> for smoothers)             *)
(*   wfine, ws   weights finer than the 10^-12 grid: wx[i] = k exactly, weight = k * 2^-ws, w = <<>>             *)
(*   flag    scale_to_sd (mad, wmad)                            hasinit, init   `initial=` on the grid (bivar, mse) *)
(*   c       shift in grid units          fn, fd  scale factor  wn, wd  smoother width wn/wd (0/0 = None)       *)
(*   out, isnan / out2, isnan2   result(s) as fixed-point numbers (round(|x| * 10^12), any magnitude) + NaN/inf *)
(*                               flag;   err / err2  exception type or ""                                       *)
(*   outs    smoother output: sequence of [n, m, fin]           outg  the same in grid units: <<floor, exact?>> *)
(*   outi    integer result (wing, guess)                                                                       *)
EXTENDS Stats, FiniteSetsExt

LocEst      == {"biloc", "mode", "wmedian"}
ScaleEst    == {"mad", "iqr", "gapper", "qn", "bivar", "wmad", "wstd"}
EquivScale  == ScaleEst \ {"bivar"}       \* "all but the biweight midvariance" are shift-invariant and scale-proportional
WeightedEst == {"wmedian", "wmad", "wstd"}
OtherEst    == {"mse"}
Estimators  == LocEst \cup ScaleEst \cup OtherEst
Smoothers   == {"rollmed", "kaiser", "savgol", "savgol_w"}
Internals   == {"wing", "pad", "guess"}

(* ------------------------------------------------------------------------------------------ record access *)
(* x[i] / wx[i] are v[i]/U and w[i]/WU already in fixed point (Num.Z records, written by the encoder): converting *)
(* 400 values costs TLC 0.2 s, and every clause needs them.  MC_Stats derives x from v with Stats.FxGrid and the   *)
(* harness compares its own encoding with that on every enumerated state.                                          *)
Keep(r) == SelectSeq([i \in 1..Len(r.v) |-> i], LAMBDA i : ~r.nan[i])       \* NaN values are ignored ...
Xs(r) == LET k == Keep(r) IN IF Len(k) = Len(r.v) THEN r.x ELSE Force([j \in 1..Len(k) |-> r.x[k[j]]])
(* weights: wx[i] are exact non-negative integers in ONE common unit -- 10^-12 (w[i]/WU in fixed point) or, for    *)
(* weights finer than 12 decimals (wfine: k * 2^-ws, `w` is empty then), 2^-ws.  Every use of the weights below is *)
(* a comparison of weight sums or a ratio, so the unit does not matter.                                            *)
Ws(r) == LET k == Keep(r) IN                                                 \* ... together with their weights; NaN weight = 0
         Force([j \in 1..Len(k) |-> IF r.wnan[k[j]] THEN ZZero ELSE r.wx[k[j]]])
Out(r) == r.out
Out2(r) == r.out2
InitFx(r) == FxGrid(r.init, r.U)
FxEq(a, b) == ZCmp(a, b) = 0
Obs(o) == [n |-> o.n, m |-> o.m]
NoErr(r) == r.err = "" /\ ~r.isnan
NoErr2(r) == r.err = "" /\ r.err2 = "" /\ ~r.isnan /\ ~r.isnan2
Tol9 == FxTol9
Tol6 == FxTol6
(* translation tolerance of the biweight location: its own iteration stops at steps <= 10^-3, so two runs that  *)
(* differ only by float rounding may stop one round apart: 2 * 10^-3                                           *)
TolBilocShift == FxFromRat(2, 1000)
TolMode == FxFromRat(1, 10000000)

(* ------------------------------------------------------------------------------------------ P-layer: estimators *)
(* "agrees with an independent implementation of its published formula" -- per estimator (DESIGN 8, C19 table) *)
BilocIts(a) == BilocIterates(a, Median(a), 6, 5, BwEps, Tol9)
BilocAcceptable(a) == LET its == BilocIts(a) IN {its[k + 1] : k \in BilocAcceptedRounds(its, BwEps, Tol9)}
BilocFormulaOK(o, a) == \E m \in BilocAcceptable(a) : FxClose(o, m, Tol6)
BivarFormulaAt(o, a, M) ==
    LET b == BivarAt(a, M, 9)
        D == BwRadius(a, M, 9)
    IN \/ b[1] /\ FxClose(o, b[2], Tol6)
       \* the documented fallback "on exactly symmetric data": sum of u over the kept points vanishes
       \/ ZLe(ZAbs(b[3]), FxMul(Tol9, D)) /\ FxClose(o, BivarFallback(a, M), Tol6)
BivarFormulaOK(o, a, hasinit, init) ==
    IF hasinit THEN BivarFormulaAt(o, a, init) ELSE \E m \in BilocAcceptable(a) : BivarFormulaAt(o, a, m)
WMadFormulaOK(o, a, w, scaled) ==
    \E m \in WeightedMadRawCandidates(a, w) : IF scaled THEN FxClose(o, FxMul(m, K14826), Tol9) ELSE FxEq(o, m)
GapperFormulaOK(o, a) ==
    LET lo == GapperLo(a)  hi == GapperHi(a)
        tol == IF ZLt(hi, FxOne) THEN Tol9 ELSE FxMul(Tol9, hi)
    IN ZLe(ZSub(lo, tol), o) /\ ZLe(o, ZAdd(hi, tol))
(* weighted median: any m with weight(x<m) <= W/2 and weight(x>m) <= W/2; the midpoint of the two middle values *)
(* when the half-weight point falls exactly between them (Stats.WMedianCandidates: a single value unless zero-    *)
(* weight data make "the two middle values" ambiguous)                                                            *)
WMedMidpointOK(o, a, w) == \E m \in WMedianCandidates(a, w) : FxEq(o, m)

ModeShiftOK(r) ==
    LET t == FxSortAsc(Xs(r))
        n == Len(t)
        back == ZSub(Out2(r), FxGrid(r.c, r.U))
        sym == \A i \in 1..n : ZAdd(t[i], t[n + 1 - i]) = ZAdd(t[1], t[n])
    IN FxEq(back, Out(r)) \/ (sym /\ FxEq(back, ZSub(ZAdd(t[1], t[n]), Out(r))))

FormulaOK(e, r) ==
    LET a == Xs(r)  o == Out(r) IN
    CASE e = "mad"    -> IF r.flag THEN FxClose(o, Mad(a, TRUE), Tol9) ELSE FxEq(o, Mad(a, FALSE))
      [] e = "iqr"    -> FxEq(o, Iqr(a))
      [] e = "gapper" -> IF Len(a) = 1 THEN FxEq(o, ZZero) ELSE GapperFormulaOK(o, a)
      [] e = "qn"     -> IF Len(a) = 1 THEN FxEq(o, ZZero) ELSE FxClose(o, Qn(a), Tol9)
      [] e = "wstd"   -> FxClose(o, WeightedStd(a, Ws(r)), Tol9)
      [] e = "wmad"   -> WMadFormulaOK(o, a, Ws(r), r.flag)
      [] e = "biloc"  -> BilocFormulaOK(o, a)
         \* mode: "the location of peak density among the values, estimated using a Gaussian kernel density estimator"
         \* (scipy.stats.gaussian_kde, Scott's bandwidth): the returned value is a data value whose density -- one
         \* kernel per observation, so repeated values count with their multiplicity -- is not below that of any other
         \* data value by more than the evaluation error of Stats.KdeScores (2 * 10^-8 per observation; 10^-7 used)
      [] e = "mode"   -> IF FxAllEqual(a) THEN FxEq(o, a[1]) ELSE IsKdeMode(o, a, ZMulInt(TolMode, Len(a)))
         \* (one value with an explicit `initial`: the decorator answers 0 before the formula is reached; not compared)
      [] e = "bivar"  -> (r.hasinit /\ Len(a) = 1) \/ BivarFormulaOK(o, a, r.hasinit, InitFx(r))
         \* mse is not one of the property's estimators; it is held to its docstring: "MSE is calculated from zero.
         \* Another reference point ... can be specified with `initial`" (the code as repaired by d7371cf, found by C17)
      [] e = "mse"    -> FxClose(o, IF r.hasinit THEN MseAbout(a, InitFx(r)) ELSE MseFromZero(a), Tol9)

(* ------------------------------------------------------------------------------------------ P-layer: smoothers *)
N(r) == Len(r.v)
IsConstSignal(r) == \A i \in 1..N(r) : r.v[i] = r.v[1]
SigMin(r) == Min({r.v[i] : i \in 1..Len(r.v)})
SigMax(r) == Max({r.v[i] : i \in 1..Len(r.v)})
WingOf(r) == Width2Wing(N(r), r.wn, r.wd, 3)
OneFinitePerInput(r) == Len(r.outs) = N(r) /\ \A i \in 1..Len(r.outs) : r.outs[i].fin
OutsAllClose(r, target, tol) == \A i \in 1..Len(r.outs) : r.outs[i].fin /\ FxClose(Obs(r.outs[i]), target, tol)
OutsInRange(r, tol) ==
    LET lo == FxGrid(SigMin(r), r.U)  hi == FxGrid(SigMax(r), r.U)
        tlo == IF ZLt(ZAbs(lo), FxOne) THEN tol ELSE FxMul(tol, ZAbs(lo))
        thi == IF ZLt(ZAbs(hi), FxOne) THEN tol ELSE FxMul(tol, ZAbs(hi))
    IN \A i \in 1..Len(r.outs) : r.outs[i].fin /\ ZLe(ZSub(lo, tlo), Obs(r.outs[i])) /\ ZLe(Obs(r.outs[i]), ZAdd(hi, thi))
GridOuts(r) == [i \in 1..Len(r.outg) |-> r.outg[i][1]]
GridExact(r) == \A i \in 1..Len(r.outg) : r.outg[i][2]
SmoothOK(r) == r.err = ""

(* ------------------------------------------------------------------------------------------ clauses *)
Clauses(op) ==
    CASE op \in LocEst -> {op \o "_noerr", op \o "_range"}
                          \cup (IF op \in {"biloc", "mode"} THEN {op \o "_formula"} ELSE {})
                          \cup (IF op = "wmedian" THEN {"wmedian_halfweight", "wmedian_equal_weights_is_median",
                                                        "wmedian_midpoint"} ELSE {})
      [] op \in ScaleEst -> {op \o "_noerr", op \o "_nonneg", op \o "_zero_on_constant", op \o "_formula"}
      [] op = "mse" -> {"mse_noerr", "mse_nonneg", "mse_formula"}
      [] op = "wmedian.shift" -> {"pair_noerr", "loc_shift_exact"}
      [] op = "mode.shift" -> {"pair_noerr", "mode_shift"}
      [] op = "biloc.shift" -> {"pair_noerr", "biloc_shift"}
      [] op \in {e \o ".shift" : e \in EquivScale} -> {"pair_noerr", "scale_shift_invariant"}
      [] op \in {e \o ".scale" : e \in EquivScale} -> {"pair_noerr", "scale_proportional"}
      [] op = "rollmed" -> {"rollmed_noerr", "rollmed_one_finite_per_input", "rollmed_constant", "rollmed_range",
                            "rollmed_windowed_median"}
      [] op = "kaiser" -> {"kaiser_noerr", "kaiser_one_finite_per_input", "kaiser_constant", "kaiser_range"}
      [] op \in {"savgol", "savgol_w"} -> {op \o "_noerr", op \o "_one_finite_per_input", op \o "_constant"}
      [] op = "wing" -> {"wing_spec"}
      [] op = "pad" -> {"pad_mirror"}
      [] op = "guess" -> {"guess_bounds"}
      [] OTHER -> {}

Holds(c, r) ==
    LET e == r.est IN
    CASE (* ---- every estimator returns a (non-NaN) number on a non-empty finite sample *)
         c = e \o "_noerr" /\ e \in Estimators -> NoErr(r)
         (* "Location estimators ... lie within the data range" *)
      [] c = e \o "_range" /\ e \in LocEst -> NoErr(r) => FxWithin(Out(r), Xs(r))
         (* "scale estimators ... are non-negative" *)
      [] c = e \o "_nonneg" /\ e \in Estimators -> NoErr(r) => ~Out(r).n
         (* "... and zero for constant data" (in the estimator's own form: with an explicit `initial` the    *)
         (* midvariance measures the spread about that point, which need not vanish)                          *)
      [] c = e \o "_zero_on_constant" /\ e \in Estimators ->
            (NoErr(r) /\ FxAllEqual(Xs(r)) /\ ~r.hasinit) => ZIsZero(Out(r))
         (* "each agrees with an independent implementation of its published formula" *)
      [] c = e \o "_formula" /\ e \in Estimators -> NoErr(r) => FormulaOK(e, r)
         (* "The weighted median m always satisfies weight(values < m) <= half and weight(values > m) <= half" *)
      [] c = "wmedian_halfweight" -> NoErr(r) => IsWeightedMedian(Out(r), Xs(r), Ws(r))
         (* "... and equals the ordinary median for equal weights" *)
      [] c = "wmedian_equal_weights_is_median" ->
            (NoErr(r) /\ FxAllEqual(Ws(r))) => FxEq(Out(r), Median(Xs(r)))
      [] c = "wmedian_midpoint" -> NoErr(r) => WMedMidpointOK(Out(r), Xs(r), Ws(r))
         (* pairs of calls *)
      [] c = "pair_noerr" -> NoErr2(r)
         (* "[location estimators] move with the data when a constant is added": exact for order statistics / data points *)
      [] c = "loc_shift_exact" -> NoErr2(r) => FxEq(Out2(r), ZAdd(Out(r), FxGrid(r.c, r.U)))
         (* the mode is the data point of highest estimated density: it moves with the data exactly -- except that *)
         (* on data with a mirror symmetry the density has mirror-image maxima and rounding noise picks one of     *)
         (* the two; then the mirror image of the shifted-back mode is accepted as well                            *)
      [] c = "mode_shift" -> NoErr2(r) => ModeShiftOK(r)
      [] c = "biloc_shift" -> NoErr2(r) => FxCloseAbs(Out2(r), ZAdd(Out(r), FxGrid(r.c, r.U)), TolBilocShift)
         (* "[scale estimators] are unchanged by adding a constant": bit-identical on the grid; the weighted sd *)
         (* goes through a rounded weighted mean, so 10^-9                                                     *)
      [] c = "scale_shift_invariant" ->
            NoErr2(r) => IF e = "wstd" THEN FxClose(Out2(r), Out(r), Tol9) ELSE FxEq(Out2(r), Out(r))
         (* "... and proportional under rescaling": s(x * f) = |f| * s(x), f = +-2^k: exact in binary floating  *)
         (* point; compared up to the rounding of the two 12-digit encodings                                   *)
      [] c = "scale_proportional" ->
            NoErr2(r) => LET af == IAbs(r.fn) IN
                         ZLe(ZAbs(ZSub(ZMulInt(Out2(r), r.fd), ZMulInt(Out(r), af))), ZFromInt(r.fd + af))
         (* ---- smoothers: "return one finite value per input value" *)
      [] c = e \o "_noerr" /\ e \in Smoothers -> SmoothOK(r)
      [] c = e \o "_one_finite_per_input" /\ e \in Smoothers -> SmoothOK(r) => OneFinitePerInput(r)
         (* "reproduce a constant signal exactly" (exact for the rolling median; 10^-9 for the convolutions) *)
      [] c = "rollmed_constant" ->
            (SmoothOK(r) /\ IsConstSignal(r)) => GridExact(r) /\ \A i \in 1..Len(r.outg) : r.outg[i][1] = r.v[1]
      [] c = e \o "_constant" /\ e \in Smoothers ->
            (SmoothOK(r) /\ IsConstSignal(r)) => OutsAllClose(r, FxGrid(r.v[1], r.U), Tol9)
         (* "rolling median and Kaiser stay within the input range" *)
      [] c = "rollmed_range" ->
            SmoothOK(r) => GridExact(r) /\ \A i \in 1..Len(r.outg) : SigMin(r) <= r.outg[i][1] /\ r.outg[i][1] <= SigMax(r)
      [] c = "kaiser_range" -> SmoothOK(r) => OutsInRange(r, Tol9)
         (* the rolling median is the median of the mirrored window of half-width Width2Wing *)
      [] c = "rollmed_windowed_median" ->
            SmoothOK(r) => /\ GridExact(r)
                           /\ IF N(r) = 1 THEN GridOuts(r) = r.v ELSE IsRollingMedian(GridOuts(r), r.v, WingOf(r))
         (* ---- helpers of the smoothers *)
      [] c = "wing_spec" -> LET wg == WingOf(r) IN
                            IF wg = -1 THEN r.err = "ValueError"
                            ELSE IF wg = -2 THEN r.err = "AssertionError"
                            ELSE r.err = "" /\ r.outi = wg
      [] c = "pad_mirror" -> r.err = "" /\ GridExact(r) /\ GridOuts(r) = MirrorPad(r.v, r.wn)
      [] c = "guess_bounds" -> r.err = "" /\ IntMin(3, N(r)) <= r.outi /\ r.outi <= N(r)

(* ------------------------------------------------------------------------------------------ premise *)
IsPow2(x) == x \in {1, 2, 4, 8, 16, 32, 64, 128, 256, 512, 1024, 2048, 4096}
ValidWidth(r) == \/ r.wd > 0 /\ 0 < r.wn /\ r.wn < r.wd        \* a fraction of the signal length
                 \/ r.wd = 1 /\ r.wn >= 2                       \* an integer window size
(* ceil(n * width / 2) is computed in floating point; it is the exact ceiling unless width is not dyadic and    *)
(* n * width / 2 is an integer (then either neighbour may come out) *)
WidthExact(r) == r.wd = 1 \/ IsPow2(r.wd) \/ (N(r) * r.wn) % (2 * r.wd) # 0
Premise(r) ==
    /\ r.est \in Estimators =>
         /\ Len(r.nan) = Len(r.v) /\ Keep(r) # <<>>                       \* "finite float vectors of length 1.." after NaN removal
         /\ r.U > 0
         /\ r.kind = "shift" => r.est \in LocEst \cup EquivScale
         /\ r.kind = "scale" => /\ r.est \in EquivScale /\ r.fd > 0 /\ r.fn # 0
                                /\ (r.est \in WeightedEst => r.fn > 0)    \* see Stats: set-valued weighted medians need not commute with reflection
    /\ r.est \in WeightedEst =>
         /\ Len(r.wx) = Len(r.v) /\ Len(r.wnan) = Len(r.v)
         /\ \A i \in 1..Len(r.wx) : ~r.wx[i].n                            \* "positive weight vectors (incl. ... zeros)"
         /\ \E j \in 1..Len(Keep(r)) : LET i == Keep(r)[j] IN ~r.wnan[i] /\ ~ZIsZero(r.wx[i])
    /\ r.est \in Smoothers =>
         /\ N(r) >= 1 /\ r.U > 0
         /\ (r.wn = 0 /\ r.wd = 0 /\ r.est = "kaiser") \/ (ValidWidth(r) /\ WidthExact(r))
         /\ r.est = "savgol_w" => (Len(r.w) = N(r) /\ \A i \in 1..Len(r.w) : r.w[i] > 0)
    /\ r.est = "wing" => N(r) >= 1 /\ (ValidWidth(r) => WidthExact(r))
    /\ r.est = "pad" => 1 <= r.wn /\ r.wn <= N(r)
    /\ r.est = "guess" => N(r) >= 1

(* ================================================================= A-layer ============ *)
(* result of a decorated estimator: [nan, val, err] *)
Val(x) == [nan |-> FALSE, val |-> x, err |-> ""]
NaNResult == [nan |-> TRUE, val |-> ZZero, err |-> ""]

(* descriptives.weighted_median after the fix: sort by value; a single weight above half wins; else the first   *)
(* index whose cumulative weight reaches half; if it reaches it exactly, the mean of this and the next value     *)
WMedianCode(a, w) ==
    LET ps == SortedPairs(a, w)
        n == Len(ps)
        cum == PrefixSums([i \in 1..n |-> ps[i][2]])
        W == cum[n]
        dom == {k \in 1..n : ZLt(W, ZMulInt(ps[k][2], 2))}
        idx == FirstReach(cum, W, 1, FALSE)
    IN IF dom # {} THEN ps[CHOOSE k \in dom : TRUE][1]
       ELSE IF idx + 1 <= n /\ ZMulInt(cum[idx], 2) = W THEN FxMid(ps[idx][1], ps[idx + 1][1])
       ELSE ps[idx][1]
(* ... and before the fix (kept to show the defect in the model and to characterise the affected inputs):        *)
(* `cumulative_weight[idx - 1] - midpoint < eps` is always true, so for idx > 0 the two values below are averaged *)
WMedianOld(a, w) ==
    LET ps == SortedPairs(a, w)
        n == Len(ps)
        cum == PrefixSums([i \in 1..n |-> ps[i][2]])
        W == cum[n]
        dom == {k \in 1..n : ZLt(W, ZMulInt(ps[k][2], 2))}
        idx == FirstReach(cum, W, 1, FALSE)
    IN IF dom # {} THEN ps[CHOOSE k \in dom : TRUE][1]
       ELSE IF idx >= 2 THEN FxMid(ps[idx - 1][1], ps[idx][1])
       ELSE ps[idx][1]
WMadCode(a, w, scaled, WM(_, _)) ==
    LET m == WM(AbsDevs(a, WM(a, w)), w) IN IF scaled THEN FxMul(m, K14826) ELSE m

(* descriptives.biweight_location before the fix: mask `(1-u^2)^2 < 1`, i.e. 0 < u^2 < 2 *)
BilocStepOld(a, M, c) ==
    LET n == Len(a)
        d == [i \in 1..n |-> ZSub(a[i], M)]
        D == BwRadius(a, M, c)
        small == ZLt(D, FxOne)
        Sc(x) == IF small THEN BwUp(x) ELSE x
        D2 == FxMul(Sc(D), Sc(D))
        dd == [i \in 1..n |-> FxMul(Sc(d[i]), Sc(d[i]))]
        t == [i \in 1..n |-> IF ~ZIsZero(d[i]) /\ ZLt(dd[i], ZMulInt(D2, 2)) THEN ZSub(D2, dd[i]) ELSE ZZero]
        t2 == [i \in 1..n |-> FxMul(t[i], t[i])]
        ws == ZSum(t2)
        num == ZSum([i \in 1..n |-> FxMul(d[i], t2[i])])
    IN IF ZIsZero(ws) THEN M ELSE ZAdd(M, FxDivFast(num, ws))
RECURSIVE BilocOldLoop(_, _, _)
BilocOldLoop(a, M, k) ==
    LET nx == BilocStepOld(a, M, 6) IN
    IF k = 1 \/ ZLe(ZAbs(ZSub(nx, M)), BwEps) THEN nx ELSE BilocOldLoop(a, nx, k - 1)
BilocOld(a) == BilocOldLoop(a, Median(a), 5)
(* inputs on which the unrepaired mask differs from |u| < 1: at some executed round a point sits exactly at the  *)
(* current estimate (weight 1, dropped) or has 1 <= |u| < sqrt 2 (weighted instead of rejected)                  *)
BilocMaskAffected(a) ==
    LET its == BilocIts(a)
        J == BilocStopRound(its, BwEps)
    IN \E k \in 1..J : LET M == its[k]  D == BwRadius(a, M, 6)  D2 == FxMul(D, D) IN
          \E i \in 1..Len(a) : LET d == ZSub(a[i], M)  dd == FxMul(d, d) IN
              ZIsZero(d) \/ (ZLe(D2, dd) /\ ZLt(dd, ZMulInt(D2, 2)))

(* descriptives.biweight_midvariance: initial = biweight_location(a) unless given; MAD fallback iff the sum of   *)
(* u over the kept points is exactly zero                                                                        *)
BivarCode(a, hasinit, init) ==
    LET M == IF hasinit THEN init ELSE BiweightLocation(a)
        b == BivarAt(a, M, 9)
    IN IF ZIsZero(b[3]) THEN BivarFallback(a, M) ELSE b[2]

(* the function bodies (inputs already stripped of NaN, n >= 2) *)
Body(e, a, w, flag, hasinit, init) ==
    CASE e = "biloc"   -> BiweightLocation(a)
      [] e = "wmedian" -> WMedianCode(a, w)
      [] e = "mad"     -> Mad(a, flag)
      [] e = "iqr"     -> Iqr(a)
      [] e = "gapper"  -> GapperLo(a)
      [] e = "qn"      -> Qn(a)
      [] e = "bivar"   -> BivarCode(a, hasinit, init)
      [] e = "wmad"    -> WMadCode(a, w, flag, WMedianCode)
      [] e = "wstd"    -> WeightedStd(a, w)
      [] e = "mse"     -> IF hasinit /\ ~ZIsZero(init) THEN MseAbout(a, init) ELSE MseFromZero(a)    \* `if initial: a = a - initial`
      [] e = "mode"    -> IF FxAllEqual(a) THEN a[1] ELSE KdeMode(a)     \* sorted values, y.argmax(): the first maximum
(* the decorators on_array(default) / on_weighted_array(default): nothing left -> NaN; one value -> that value   *)
(* (location estimators, default None) or 0 (scale estimators, default 0 -- for weighted_mad and weighted_std    *)
(* after the fix).  mean_squared_error strips NaN itself and has no one-value shortcut (after d7371cf).          *)
Decorated(e, a, w, flag, hasinit, init) ==
    IF Len(a) = 0 THEN NaNResult
    ELSE IF Len(a) = 1 /\ e # "mse" THEN Val(IF e \in LocEst THEN a[1] ELSE ZZero)
    ELSE Val(Body(e, a, w, flag, hasinit, init))
ShiftSeq(a, c) == [i \in 1..Len(a) |-> ZAdd(a[i], c)]
ScaleSeq(a, fn, fd) == [i \in 1..Len(a) |-> ZDivT(ZMulInt(a[i], fn), ZFromInt(fd))]

(* smoothing.rolling_median after the fix (a signal of one point is returned as it is) *)
RollMedCode(x, wn, wd) ==
    IF Len(x) < 2 THEN [err |-> "", out |-> x]
    ELSE LET wg == Width2Wing(Len(x), wn, wd, 3) IN
         IF wg = -1 THEN [err |-> "ValueError", out |-> <<>>]
         ELSE IF wg = -2 THEN [err |-> "AssertionError", out |-> <<>>]
         ELSE [err |-> "", out |-> RollingMedian(x, wg)]

(* the A-layer's outputs for an input record (same field names as a trace record) *)
BlankOut == [out |-> ZZero, isnan |-> FALSE, out2 |-> ZZero, isnan2 |-> FALSE,
             outs |-> <<>>, outg |-> <<>>, outi |-> 0, err |-> "", err2 |-> ""]
GridOut(x) == [i \in 1..Len(x) |-> <<x[i], TRUE>>]
ObsOut(x, unit) == [i \in 1..Len(x) |-> LET o == FxGrid(x[i], unit) IN [n |-> o.n, m |-> o.m, fin |-> TRUE]]
ALayer(r) ==
    IF r.est \in Estimators THEN
        LET a == Xs(r)  w == IF r.est \in WeightedEst THEN Ws(r) ELSE <<>>
            r1 == Decorated(r.est, a, w, r.flag, r.hasinit, InitFx(r))
            a2 == IF r.kind = "shift" THEN ShiftSeq(a, FxGrid(r.c, r.U))
                  ELSE IF r.kind = "scale" THEN ScaleSeq(a, r.fn, r.fd) ELSE a
            r2 == IF r.kind = "single" THEN r1 ELSE Decorated(r.est, a2, w, r.flag, r.hasinit, InitFx(r))
        IN [BlankOut EXCEPT !.out = r1.val, !.isnan = r1.nan, !.out2 = r2.val, !.isnan2 = r2.nan]
    ELSE IF r.est = "rollmed" THEN
        LET m == RollMedCode(r.v, r.wn, r.wd) IN
        [BlankOut EXCEPT !.err = m.err, !.outg = GridOut(m.out), !.outs = ObsOut(m.out, r.U)]
    ELSE IF r.est = "wing" THEN
        LET wg == WingOf(r) IN
        [BlankOut EXCEPT !.err = IF wg = -1 THEN "ValueError" ELSE IF wg = -2 THEN "AssertionError" ELSE "",
                         !.outi = IF wg < 0 THEN 0 ELSE wg]
    ELSE IF r.est = "pad" THEN [BlankOut EXCEPT !.outg = GridOut(MirrorPad(r.v, r.wn))]
    ELSE BlankOut

(* ------------------------------------------------------------------------------------------ drift *)
(* numpy's argsort is not stable: with a zero-weight value tied with another value the element next to the      *)
(* half-weight point is not determined, so the model's (stable) order is not comparable there                    *)
HasZeroWeight(r) == \E j \in 1..Len(Keep(r)) : ZIsZero(Ws(r)[j])
Drift(r) ==
    LET e == r.est IN
    /\ r.kind = "single" /\ r.err = ""
    /\ CASE e = "wmedian" -> ~HasZeroWeight(r) /\ ~FxEq(Out(r), Decorated(e, Xs(r), Ws(r), FALSE, FALSE, ZZero).val)
         [] e = "wmad"    -> ~HasZeroWeight(r) /\ ~FxClose(Out(r), Decorated(e, Xs(r), Ws(r), r.flag, FALSE, ZZero).val, Tol9)
         [] OTHER -> FALSE

(* ------------------------------------------------------------------------------------------ known findings *)
KnownTriggers == {"WMedianLowBias", "BilocMaskAfterSquaring", "SingleValueWeightedScale", "RollingMedianSinglePoint",
                  "ModeConstantData"}
TriggerHolds(t, r) ==
    CASE t = "WMedianLowBias" ->        \* the unrepaired weighted_median differs from the repaired one on this input
            /\ r.est \in {"wmedian", "wmad"} /\ Len(Keep(r)) >= 2
            /\ LET a == Xs(r)  w == Ws(r) IN
               \/ WMedianOld(a, w) # WMedianCode(a, w)
               \/ r.est = "wmad" /\ WMadCode(a, w, FALSE, WMedianOld) # WMadCode(a, w, FALSE, WMedianCode)
               \* with tied values the unrepaired result also depends on the (unstable) argsort order of the ties
               \/ \E i, j \in 1..Len(a) : i < j /\ a[i] = a[j]
      [] t = "BilocMaskAfterSquaring" ->
            /\ r.est = "biloc" \/ (r.est = "bivar" /\ ~r.hasinit)
            /\ Len(Keep(r)) >= 2 /\ BilocMaskAffected(Xs(r))
      [] t = "SingleValueWeightedScale" -> r.est \in {"wmad", "wstd"} /\ Len(Keep(r)) = 1
      [] t = "RollingMedianSinglePoint" -> r.est = "rollmed" /\ N(r) = 1
      [] t = "ModeConstantData" -> r.est = "mode" /\ Len(Keep(r)) >= 2 /\ FxAllEqual(Xs(r))
      [] OTHER -> FALSE
=============================================================================
