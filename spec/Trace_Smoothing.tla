--------------------------- MODULE Trace_Smoothing ---------------------------
(* Trace validation for X07 (Smoothing): one recorded call of the real code per record; verdicts are   *)
(* carried as state (total verdicts) and read from the dump.                                 *)
EXTENDS Smoothing, Json, IOUtils
Trace == JsonDeserialize(IOEnv.TRACE_FILE)
VARIABLES i, ph, failed, scope, triggers, drift, checked
vars == <<i, ph, failed, scope, triggers, drift, checked>>
Init == /\ i \in 1..Len(Trace) /\ ph = "call"
        /\ failed = {} /\ scope = TRUE /\ triggers = {} /\ drift = FALSE /\ checked = {}
Next == /\ ph = "call" /\ ph' = "ret" /\ UNCHANGED i
        /\ LET r == Trace[i] IN
           /\ scope' = Premise(r)
           /\ checked' = IF scope' THEN Clauses(r.op) ELSE {}
           /\ failed' = {c \in checked' : ~Holds(c, r)}
           /\ triggers' = {t \in KnownTriggers : TriggerHolds(t, r)}
           /\ drift' = (scope' /\ failed' = {} /\ Drift(r))
Spec == Init /\ [][Next]_vars
NoFailure == failed = {}
=============================================================================
