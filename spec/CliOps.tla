--------------------------- MODULE CliOps ---------------------------
(* X04 (extension) -- the command-line layer of cnvkit as a state machine over a file system.     *)
(* Variable-free part, shared by the design model (Cli.tla) and the trace validator               *)
(* (Trace_Cli.tla), in the same way PipelineOps serves Pipeline / Trace_Pipeline.                 *)
(*                                                                                               *)
(* Covered: cnvlib/commands.py (argparse definitions and _cmd_* wrappers of target, access,       *)
(* antitarget, reference (flat and pooled), fix, segment, call, segmetrics, genemetrics, breaks,  *)
(* bintest, metrics, sex, export bed/vcf/seg, import-seg), cnvlib/core.py (fbase, ensure_path),   *)
(* cnvlib/cmdutil.py (read_cna, write_*, verify_sample_sex, load_het_snps as wired by the CLI).   *)
(*                                                                                               *)
(* The module contains, per command:                                                              *)
(*   - the documented command-line syntax      Spell, Argv        (from the help texts)           *)
(*   - the documented meaning of every flag    PLib               (P-layer: the library call the  *)
(*     command line stands for; the harness executes exactly this description)                    *)
(*   - the enabling condition                  Cands, InsOK       (inputs of the right kind)      *)
(*   - the effect on the file system           Effect             (A-layer: _cmd_* case for case) *)
(*   - the documented part of that effect      Clauses, Holds     (P-layer)                       *)
(* Table contents are opaque: a file's content is an id; equal ids == byte-identical files.       *)
EXTENDS Naturals, Integers, Sequences, FiniteSets, SequencesExt, FiniteSetsExt, Functions, TLC, Json, IOUtils

(* The menu is produced by the harness: the synthetic world (files with their kinds) and the      *)
(* variants (command + non-default flag values + how many files go into each input role).         *)
MenuDoc == JsonDeserialize(IOEnv.MENU_FILE)
World == MenuDoc.world         \* seq of [name, d, n, kind, feats, design, coord, sids]
Variants == MenuDoc.variants   \* seq of [cmd, mode, tag, flags, counts, osels]
                               \* flags: seq of [opt, flag, val, num, style]

SetOf(s) == {s[i] : i \in 1..Len(s)}
Last1(s) == s[Len(s)]
Front1(s) == SubSeq(s, 1, Len(s) - 1)
RECURSIVE JoinWith(_, _)
JoinWith(s, sep) == IF Len(s) = 0 THEN "" ELSE IF Len(s) = 1 THEN s[1]
                    ELSE JoinWith(Front1(s), sep) \o sep \o Last1(s)
JoinDots(s) == JoinWith(s, ".")
JoinComma(s) == JoinWith(s, ",")

(* ------------------------------------------------------------------ file system *)
(* fs: set of <<name, content id>>; meta: set of records describing the artefacts produced so far  *)
Names(fs) == {x[1] : x \in fs}
Exists(fs, nm) == \E x \in fs : x[1] = nm
Get(fs, nm) == IF Exists(fs, nm) THEN (CHOOSE x \in fs : x[1] = nm)[2] ELSE 0
Put(fs, nm, id) == {x \in fs : x[1] # nm} \cup {<<nm, id>>}
Del(fs, nm) == {x \in fs : x[1] # nm}
M(meta, nm) == CHOOSE m \in meta : m.name = nm
Known(meta, nm) == \E m \in meta : m.name = nm
FullName(d, n) == (IF d = "" THEN "" ELSE d \o "/") \o JoinDots(n)
MkMeta(d, n, kind, feats, design, coord, sids) ==
    [name |-> FullName(d, n), d |-> d, n |-> n, kind |-> kind, feats |-> feats, design |-> design,
     coord |-> coord, sids |-> sids]
WorldMeta == {MkMeta(World[i].d, World[i].n, World[i].kind, SetOf(World[i].feats), World[i].design,
                     World[i].coord, World[i].sids) : i \in 1..Len(World)}
WorldFs == {<<World[i].name, i>> : i \in 1..Len(World)}

(* core.fbase -- "Strip directory and all extensions from a filename": one trailing .gz, then one *)
(* of the known multi-part extensions, else everything after the last dot.  Names are sequences   *)
(* of dot-separated components (directory already stripped).                                      *)
TwoPartExts == {<<"antitargetcoverage", "cnn">>, <<"targetcoverage", "cnn">>, <<"antitargetcoverage", "csv">>,
                <<"targetcoverage", "csv">>, <<"recal", "bam">>}
FBase(n) ==
    LET n1 == IF Len(n) > 1 /\ Last1(n) = "gz" THEN Front1(n) ELSE n IN
    IF Len(n1) >= 3 /\ SubSeq(n1, Len(n1) - 1, Len(n1)) \in TwoPartExts THEN SubSeq(n1, 1, Len(n1) - 2)
    ELSE IF Len(n1) >= 4 /\ SubSeq(n1, Len(n1) - 2, Len(n1)) = <<"deduplicated", "realign", "bam">>
         THEN SubSeq(n1, 1, Len(n1) - 3)
    ELSE IF Len(n1) = 1 THEN n1 ELSE Front1(n1)
Sid(meta, nm) == JoinDots(FBase(M(meta, nm).n))      \* tabio.read: meta["sample_id"] = fbase(fname)

(* directories: only "", "sub", "a", "a/b" occur *)
ParentDir(d) == IF d = "a/b" THEN "a" ELSE ""
DirExists(meta, d) == d = "" \/ (\E m \in meta : m.d = d) \/ (d = "a" /\ \E m \in meta : m.d = "a/b")

(* ------------------------------------------------------------------ events *)
(* e = [v, cmd, mode, flags, counts, ins (3 role sequences of names), osel, oname, l]              *)
V(e) == Variants[e.v]
FlagIdx(e, k) == {i \in 1..Len(e.flags) : e.flags[i].opt = k}
Has(e, k) == FlagIdx(e, k) # {}
Entry(e, k) == e.flags[Min(FlagIdx(e, k))]
(* options with an optional value, used bare: the documented constant                              *)
(*   call --center: "('median' if no argument given.)"                                            *)
(*   -z: "[Default if used without a number: 0.25]"                                               *)
(*   segment -p: "Give 0 or a negative value to use the maximum number of available CPUs" (const 0)*)
BareConst(k) == CASE k = "center" -> "median" [] k = "zygosity_freq" -> "0.25" [] k = "processes" -> "0" [] OTHER -> ""
ValOf(f) == IF f.style = "bare" THEN BareConst(f.opt) ELSE f.val
Opt(e, k) == IF Has(e, k) THEN ValOf(Entry(e, k)) ELSE ""
OptD(e, k, dflt) == IF Has(e, k) THEN Opt(e, k) ELSE dflt
NumOf(e, k) == IF Has(e, k) THEN Entry(e, k).num ELSE 0
Vals(e, k) == LET fl == SelectSeq(e.flags, LAMBDA f : f.opt = k) IN [i \in 1..Len(fl) |-> ValOf(fl[i])]
In1(e) == e.ins[1]
In2(e) == e.ins[2]
In3(e) == e.ins[3]
Inputs(e) == SetOf(In1(e)) \cup SetOf(In2(e)) \cup SetOf(In3(e))

(* ------------------------------------------------------------------ documented syntax *)
SexFlags == {"-x", "--sample-sex", "-g", "--gender"}
MaleRefFlags == {"-y", "--male-reference", "--haploid-x-reference"}
StatFlags == {<<"mean", "--mean">>, <<"median", "--median">>, <<"mode", "--mode">>, <<"stdev", "--stdev">>, <<"sem", "--sem">>,
              <<"mad", "--mad">>, <<"mse", "--mse">>, <<"iqr", "--iqr">>, <<"bivar", "--bivar">>, <<"ci", "--ci">>,
              <<"pi", "--pi">>, <<"alpha", "-a">>, <<"alpha", "--alpha">>, <<"bootstrap", "-b">>, <<"bootstrap", "--bootstrap">>}
VcfFlags == {<<"sample_id", "-i">>, <<"sample_id", "--sample-id">>, <<"normal_id", "-n">>, <<"normal_id", "--normal-id">>,
             <<"min_variant_depth", "--min-variant-depth">>, <<"zygosity_freq", "-z">>, <<"zygosity_freq", "--zygosity-freq">>}
Cross(k, S) == {<<k, s>> : s \in S}
Parx == {<<"diploid_parx_genome", "--diploid-parx-genome">>}
(* <<option, spelling>> pairs of each command, from its argparse definition / help text            *)
Spell(cmd) ==
    CASE cmd = "target" -> {<<"short_names", "--short-names">>, <<"split", "--split">>, <<"avg_size", "-a">>, <<"avg_size", "--avg-size">>}
      [] cmd = "access" -> {<<"min_gap_size", "-s">>, <<"min_gap_size", "--min-gap-size">>}
      [] cmd = "antitarget" -> {<<"avg_size", "-a">>, <<"avg_size", "--avg-size">>, <<"min_size", "-m">>, <<"min_size", "--min-size">>}
      [] cmd = "reference" -> {<<"cluster", "-c">>, <<"cluster", "--cluster">>, <<"min_cluster_size", "--min-cluster-size">>,
                               <<"no_gc", "--no-gc">>, <<"no_edge", "--no-edge">>, <<"no_rmask", "--no-rmask">>}
                              \cup Cross("sample_sex", SexFlags) \cup Cross("male_reference", MaleRefFlags) \cup Parx
      [] cmd = "fix" -> {<<"cluster", "-c">>, <<"cluster", "--cluster">>, <<"sample_id", "-i">>, <<"sample_id", "--sample-id">>,
                         <<"no_gc", "--no-gc">>, <<"no_edge", "--no-edge">>, <<"no_rmask", "--no-rmask">>,
                         <<"smoothing_window_fraction", "--smoothing-window-fraction">>} \cup Parx
      [] cmd = "segment" -> {<<"method", "-m">>, <<"method", "--method">>, <<"threshold", "-t">>, <<"threshold", "--threshold">>,
                             <<"drop_low_coverage", "--drop-low-coverage">>, <<"drop_outliers", "--drop-outliers">>,
                             <<"rscript_path", "--rscript-path">>, <<"processes", "-p">>, <<"processes", "--processes">>,
                             <<"smooth_cbs", "--smooth-cbs">>} \cup Parx \cup VcfFlags
      [] cmd = "call" -> {<<"center", "--center">>, <<"center_at", "--center-at">>, <<"filter", "--filter">>, <<"method", "-m">>,
                          <<"method", "--method">>, <<"thresholds", "-t">>, <<"thresholds", "--thresholds">>, <<"ploidy", "--ploidy">>,
                          <<"purity", "--purity">>, <<"drop_low_coverage", "--drop-low-coverage">>}
                         \cup Cross("sample_sex", SexFlags) \cup Cross("male_reference", MaleRefFlags) \cup Parx \cup VcfFlags
      [] cmd = "segmetrics" -> {<<"drop_low_coverage", "--drop-low-coverage">>, <<"p_ttest", "--t-test">>,
                                <<"smooth_bootstrap", "--smooth-bootstrap">>} \cup StatFlags
      [] cmd = "genemetrics" -> {<<"threshold", "-t">>, <<"threshold", "--threshold">>, <<"min_probes", "-m">>, <<"min_probes", "--min-probes">>,
                                 <<"drop_low_coverage", "--drop-low-coverage">>, <<"p_ttest", "--ttest">>}
                                \cup Cross("sample_sex", SexFlags) \cup Cross("male_reference", MaleRefFlags) \cup Parx \cup StatFlags
      [] cmd = "breaks" -> {<<"min_probes", "-m">>, <<"min_probes", "--min-probes">>}
      [] cmd = "bintest" -> {<<"alpha", "-a">>, <<"alpha", "--alpha">>, <<"target", "-t">>, <<"target", "--target">>}
      [] cmd = "metrics" -> {<<"drop_low_coverage", "--drop-low-coverage">>}
      [] cmd = "sex" -> Cross("male_reference", MaleRefFlags) \cup Parx
      [] cmd = "export bed" -> {<<"sample_id", "-i">>, <<"sample_id", "--sample-id">>, <<"label_genes", "--label-genes">>,
                                <<"ploidy", "--ploidy">>, <<"show", "--show">>}
                               \cup Cross("sample_sex", SexFlags) \cup Cross("male_reference", MaleRefFlags) \cup Parx
      [] cmd = "export vcf" -> {<<"sample_id", "-i">>, <<"sample_id", "--sample-id">>, <<"ploidy", "--ploidy">>}
                               \cup Cross("sample_sex", SexFlags) \cup Cross("male_reference", MaleRefFlags) \cup Parx
      [] cmd = "export seg" -> {<<"enumerate_chroms", "--enumerate-chroms">>}
      [] cmd = "import-seg" -> {<<"chromosomes", "-c">>, <<"chromosomes", "--chromosomes">>, <<"prefix", "-p">>, <<"prefix", "--prefix">>,
                                <<"from_log10", "--from-log10">>}
      [] OTHER -> {}
BoolOpts == {"short_names", "split", "cluster", "no_gc", "no_edge", "no_rmask", "male_reference", "drop_low_coverage",
             "smooth_cbs", "mean", "median", "mode", "p_ttest", "stdev", "sem", "mad", "mse", "iqr", "bivar", "ci", "pi",
             "smooth_bootstrap", "target", "label_genes", "enumerate_chroms", "from_log10"}
BareOpts == {"center", "zygosity_freq", "processes"}
(* call -t: "Use the '=' sign on the command line, e.g.: -t=-1,0,1"                               *)
StyleOK(f) == CASE f.style = "bool" -> f.opt \in BoolOpts
                [] f.style = "bare" -> f.opt \in BareOpts
                [] f.style = "eq" -> f.opt = "thresholds"
                [] f.style = "kv" -> f.opt \notin BoolOpts
                [] OTHER -> FALSE
SyntaxOK(e) == \A i \in 1..Len(e.flags) : <<e.flags[i].opt, e.flags[i].flag>> \in Spell(e.cmd) /\ StyleOK(e.flags[i])
Tokens(f) == CASE f.style = "kv" -> <<f.flag, f.val>>
               [] f.style = "eq" -> <<f.flag \o "=" \o f.val>>
               [] OTHER -> <<f.flag>>
CmdTok(cmd) == CASE cmd = "export bed" -> <<"export", "bed">> [] cmd = "export vcf" -> <<"export", "vcf">>
                 [] cmd = "export seg" -> <<"export", "seg">> [] OTHER -> <<cmd>>
EachFlag(flag, names) == FlattenSeq([i \in 1..Len(names) |-> <<flag, names[i]>>])
OneFlag(flag, names) == IF Len(names) = 0 THEN <<>> ELSE <<flag>> \o names
(* reference (pooled): the coverage files are given as one positional list; the documented usage   *)
(* pairs each sample's files (doc/pipeline.rst "*Normal.{,anti}targetcoverage.cnn")                *)
PairUp(a, b) == FlattenSeq([i \in 1..Len(a) |-> IF i <= Len(b) THEN <<a[i], b[i]>> ELSE <<a[i]>>])
                    \o (IF Len(b) > Len(a) THEN SubSeq(b, Len(a) + 1, Len(b)) ELSE <<>>)
(* positional arguments and file-valued options of each command, from its usage line               *)
RoleTok(e) ==
    CASE e.cmd = "target" -> In1(e) \o OneFlag("--annotate", In2(e))
      [] e.cmd = "access" -> In1(e) \o EachFlag("-x", In2(e))
      [] e.cmd = "antitarget" -> In1(e) \o OneFlag("-g", In2(e))
      [] e.cmd = "reference" /\ e.mode = "flat" -> OneFlag("-t", In1(e)) \o OneFlag("-a", In2(e)) \o OneFlag("-f", In3(e))
      [] e.cmd = "reference" -> PairUp(In1(e), In2(e)) \o OneFlag("-f", In3(e))
      [] e.cmd = "fix" -> In1(e) \o In2(e) \o In3(e)
      [] e.cmd = "segment" -> In1(e) \o OneFlag("-v", In2(e))
      [] e.cmd = "call" -> In1(e) \o OneFlag("-v", In2(e))
      [] e.cmd = "segmetrics" -> In1(e) \o OneFlag("-s", In2(e))
      [] e.cmd = "genemetrics" -> In1(e) \o OneFlag("-s", In2(e))
      [] e.cmd = "breaks" -> In1(e) \o In2(e)
      [] e.cmd = "bintest" -> In1(e) \o OneFlag("-s", In2(e))
      [] e.cmd = "metrics" -> In1(e) \o OneFlag("-s", In2(e))
      [] e.cmd = "export vcf" -> In1(e) \o OneFlag("--cnr", In2(e))
      [] OTHER -> In1(e)                       \* sex, export bed, export seg, import-seg
(* "-o FILENAME  Output file name"; import-seg: "-d DIRECTORY  Output directory name"              *)
OutTok(e) == IF e.osel = "default" THEN <<>>
             ELSE IF e.cmd = "import-seg" THEN <<"-d", e.oname>> ELSE <<"-o", e.oname>>
Argv(e) == CmdTok(e.cmd) \o RoleTok(e) \o FlattenSeq([i \in 1..Len(e.flags) |-> Tokens(e.flags[i])]) \o OutTok(e)

(* ------------------------------------------------------------------ enabling *)
CnsFeat(meta, nm, f) == f \in M(meta, nm).feats
OfKind(meta, kinds) == {m.name : m \in {x \in meta : x.kind \in kinds}}
(* candidate files of role r (1..3) of a command: "needs inputs of the right kind"                 *)
Cands(cmd, mode, r, meta) ==
    CASE cmd = "target" /\ r = 1 -> OfKind(meta, {"baits", "targets"})
      [] cmd = "target" /\ r = 2 -> OfKind(meta, {"refflat"})
      [] cmd = "access" /\ r = 1 -> OfKind(meta, {"fasta"})
      [] cmd = "access" /\ r = 2 -> OfKind(meta, {"exclude"})
      [] cmd = "antitarget" /\ r = 1 -> OfKind(meta, {"targets"})
      [] cmd = "antitarget" /\ r = 2 -> OfKind(meta, {"access"})
      [] cmd = "reference" /\ mode = "flat" /\ r = 1 -> OfKind(meta, {"targets"})
      [] cmd = "reference" /\ mode = "flat" /\ r = 2 -> OfKind(meta, {"antitargets"})
      [] cmd = "reference" /\ mode = "pooled" /\ r = 1 -> OfKind(meta, {"tcnn"})
      [] cmd = "reference" /\ mode = "pooled" /\ r = 2 -> OfKind(meta, {"acnn"})
      [] cmd = "reference" /\ r = 3 -> OfKind(meta, {"fasta"})
      [] cmd = "fix" /\ r = 1 -> OfKind(meta, {"tcnn"})
      [] cmd = "fix" /\ r = 2 -> OfKind(meta, {"acnn"})
      [] cmd = "fix" /\ r = 3 -> {m.name : m \in {x \in meta : x.kind = "refcnn" /\ x.design = "W"}}
      [] cmd \in {"segment", "segmetrics", "genemetrics", "breaks", "bintest", "metrics"} /\ r = 1 -> OfKind(meta, {"cnr"})
      [] cmd \in {"segment", "call"} /\ r = 2 -> OfKind(meta, {"vcf"})
      [] cmd \in {"segmetrics", "genemetrics", "breaks", "bintest", "metrics"} /\ r = 2
            -> {m.name : m \in {x \in meta : x.kind = "cns" /\ x.coord = "W"}}
      [] cmd \in {"call", "export bed", "export vcf", "export seg"} /\ r = 1 -> OfKind(meta, {"cns"})
      [] cmd = "export vcf" /\ r = 2 -> OfKind(meta, {"cnr"})
      [] cmd = "sex" /\ r = 1 -> OfKind(meta, {"cnr", "tcnn", "refcnn"})
      [] cmd = "import-seg" /\ r = 1 -> OfKind(meta, {"seg"})
      [] OTHER -> {}
Arr(S, k) == {s \in [1..k -> S] : \A i, j \in 1..k : i # j => s[i] # s[j]}
(* cross-role conditions *)
FiltersOf(e) == Vals(e, "filter")
MethodOf(e) == OptD(e, "method", IF e.cmd = "call" THEN "threshold" ELSE "cbs")
InsOK(e, meta) ==
    CASE e.cmd = "call" ->
            LET m == M(meta, In1(e)[1]) IN
            /\ \A f \in SetOf(FiltersOf(e)) :
                  /\ "weight" \in m.feats
                  /\ (f \in {"ci", "sem"} => f \in m.feats)
                  /\ (f \in {"cn", "ampdel"} => (MethodOf(e) # "none" \/ "cn" \in m.feats))
            /\ (Len(In2(e)) > 0 => m.coord = "W")
      [] e.cmd = "export vcf" -> (Len(In2(e)) > 0 => M(meta, In1(e)[1]).coord = "W")
      [] e.cmd = "export seg" -> \A i, j \in 1..Len(In1(e)) : i # j => Sid(meta, In1(e)[i]) # Sid(meta, In1(e)[j])
      [] e.cmd = "reference" /\ e.mode = "pooled" /\ e.counts[2] = e.counts[1] ->
            \A i \in 1..Len(In1(e)) : Sid(meta, In1(e)[i]) = Sid(meta, In2(e)[i])          \* paired by sample
      [] e.cmd = "fix" /\ e.mode = "mismatch" -> Sid(meta, In1(e)[1]) # Sid(meta, In2(e)[1])
      [] e.cmd = "fix" -> Sid(meta, In1(e)[1]) = Sid(meta, In2(e)[1])
      [] OTHER -> TRUE
InChoices(v, meta) ==
    LET vr == Variants[v] IN
    {<<a, b, c>> : a \in Arr(Cands(vr.cmd, vr.mode, 1, meta), vr.counts[1]),
                   b \in Arr(Cands(vr.cmd, vr.mode, 2, meta), vr.counts[2]),
                   c \in Arr(Cands(vr.cmd, vr.mode, 3, meta), vr.counts[3])}

(* ------------------------------------------------------------------ output names *)
(* extension used by the harness-independent explicit names "o<l>.<ext>"                           *)
Ext(cmd) == CASE cmd \in {"target", "access", "antitarget", "export bed"} -> "bed"
              [] cmd = "reference" -> "cnn" [] cmd \in {"fix", "bintest"} -> "cnr"
              [] cmd \in {"segment", "call", "segmetrics"} -> "cns"
              [] cmd = "export vcf" -> "vcf" [] cmd = "export seg" -> "seg" [] OTHER -> "tsv"
OutDir(osel) == CASE osel = "sub" -> "sub" [] osel = "deep" -> "a/b" [] OTHER -> ""
ExplicitN(e) == <<"o" \o ToString(e.l), Ext(e.cmd)>>
(* the value of -o / -d chosen by the model for a non-default selector *)
ONameFor(cmd, osel, l) == IF cmd = "import-seg" THEN OutDir(osel)
                          ELSE FullName(OutDir(osel), <<"o" \o ToString(l), Ext(cmd)>>)
MkEvent(v, ins, osel, oname, l) ==
    [v |-> v, cmd |-> Variants[v].cmd, mode |-> Variants[v].mode, flags |-> Variants[v].flags,
     counts |-> Variants[v].counts, ins |-> ins, osel |-> osel, oname |-> oname, l |-> l]

StatNames == <<"mean", "median", "mode", "p_ttest", "stdev", "sem", "mad", "mse", "iqr", "bivar", "ci", "pi">>
LocStats == {"mean", "median", "mode", "p_ttest"}
SpreadStats == {"stdev", "sem", "mad", "mse", "iqr", "bivar"}
IntervalStats == {"ci", "pi"}
StatsIn(e, S) == LET fl == SelectSeq(e.flags, LAMBDA f : f.opt \in S) IN [i \in 1..Len(fl) |-> fl[i].opt]
AnyStat(e) == \E i \in 1..Len(e.flags) : e.flags[i].opt \in SetOf(StatNames)
(* does the command line ask for an output table at all?  (segmetrics without a statistic:        *)
(* "No stats specified", nothing is written -- A-layer; the documentation does not say)           *)
Produces(e) == ~(e.cmd = "segmetrics" /\ ~AnyStat(e))

(* ------------------------------------------------------------------ P-layer: documented errors *)
(*   call:       "Purity must be between 0 and 1."                    (RuntimeError)               *)
(*   segmetrics: "alpha must be between 0 and 1."                     (RuntimeError)               *)
(*   fix:        "Sample IDs do not match: 'a' (target) vs. 'b' (antitarget)"   (ValueError)       *)
(*   reference:  "Give .cnn samples OR targets and (optionally) antitargets."   (ValueError)       *)
(*   metrics:    "Number of coverage/segment filenames given must be equal, if more than 1 segment *)
(*                file is given."                                     (ValueError)                 *)
DocErr(e, meta) ==
    CASE e.cmd = "call" /\ Has(e, "purity") /\ NumOf(e, "purity") # 0
              /\ ~(0 < NumOf(e, "purity") /\ NumOf(e, "purity") <= 1000) -> "RuntimeError"
      [] e.cmd = "segmetrics" /\ Has(e, "alpha") /\ ~(0 < NumOf(e, "alpha") /\ NumOf(e, "alpha") <= 1000) -> "RuntimeError"
      [] e.cmd = "fix" /\ ~Has(e, "sample_id") /\ Sid(meta, In1(e)[1]) # Sid(meta, In2(e)[1]) -> "ValueError"
      [] e.cmd = "reference" /\ e.mode = "empty" -> "ValueError"
      [] e.cmd = "metrics" /\ Len(In1(e)) > 1 /\ Len(In2(e)) > 1 /\ Len(In1(e)) # Len(In2(e)) -> "ValueError"
      [] OTHER -> ""

(* ------------------------------------------------------------------ P-layer: the library call  *)
(* What each command line MEANS, as a call of the public library function named in the command's  *)
(* section of commands.py (do_* = public(...)), with every flag given its documented meaning and   *)
(* every absent flag its documented default.  Values are typed strings; the harness builds the     *)
(* Python values and makes the call (it does not interpret flags).                                 *)
(*   t: str | int | float | bool | none | path | paths | auto (tabio.read_auto) | cna (read_cna,   *)
(*      x = sample_id override) | cnas | strs | floats | dict | hets (cmdutil.load_het_snps) |     *)
(*      sex (given, or guessed from X and Y coverage) | label                                      *)
T(t, v, x) == [k |-> "", t |-> t, v |-> v, x |-> x]
K(k, t, v) == [k |-> k, t |-> t, v |-> v, x |-> ""]
KB(k, b) == K(k, "bool", IF b THEN "1" ELSE "0")
KStrOrNone(e, k, opt) == IF Has(e, opt) THEN K(k, "str", Opt(e, opt)) ELSE K(k, "none", "")
KNum(e, k, opt, t, dflt) == K(k, t, OptD(e, opt, dflt))
KNumOrNone(e, k, opt, t) == IF Has(e, opt) THEN K(k, t, Opt(e, opt)) ELSE K(k, "none", "")
KPathOrNone(k, names) == IF Len(names) = 0 THEN K(k, "none", "") ELSE K(k, "path", names[1])
KParx(e) == KStrOrNone(e, "diploid_parx_genome", "diploid_parx_genome")
KMaleRef(e) == KB("is_haploid_x_reference", Has(e, "male_reference"))
(* "-x {m,y,male,Male,f,x,female,Female}  Specify the sample's chromosomal sex as male or female.  *)
(*  (Otherwise guessed from X and Y coverage)."                                                    *)
IsFemaleArg(v) == v \in {"f", "x", "female", "Female"}
KSex(e) == K("is_sample_female", "sex",
             IF Has(e, "sample_sex") THEN (IF IsFemaleArg(Opt(e, "sample_sex")) THEN "female" ELSE "male") ELSE "guess")
(* -v/-i/-n/--min-variant-depth [Default: 20]/-z: cmdutil.load_het_snps(vcf, sample_id, normal_id, *)
(* min_variant_depth, zygosity_freq)                                                               *)
Hets(e) == IF Len(In2(e)) = 0 THEN <<>>
           ELSE <<In2(e)[1], Opt(e, "sample_id"), Opt(e, "normal_id"), OptD(e, "min_variant_depth", "20"), Opt(e, "zygosity_freq")>>
KVariants(e) == IF Len(In2(e)) = 0 THEN K("variants", "none", "") ELSE K("variants", "hets", "")
Lib(fn, pos, kw, pre, hets, mode, wr) == [fn |-> fn, pos |-> pos, kw |-> kw, pre |-> pre, hets |-> hets, mode |-> mode, wr |-> wr]
NoLib == Lib("", <<>>, <<>>, <<>>, <<>>, "none", "")
Cna(nm) == T("cna", nm, "")
PLib(e) ==
    CASE e.cmd = "target" ->
            (* --annotate FILE; --short-names; --split; -a "Average size of split target bins [Default: 266.66..]" *)
            Lib("cnvlib.target.do_target", <<T("auto", In1(e)[1], "")>>,
                <<KPathOrNone("annotate", In2(e)), KB("do_short_names", Has(e, "short_names")), KB("do_split", Has(e, "split")),
                  IF Has(e, "avg_size") THEN K("avg_size", "int", Opt(e, "avg_size")) ELSE K("avg_size", "float", "266.6666666666667")>>,
                <<>>, <<>>, "one", "bed4")
      [] e.cmd = "access" ->
            (* -s "Minimum gap size ... [Default: 5000]"; -x "Additional regions to exclude ... Can be used multiple times." *)
            Lib("cnvlib.access.do_access", <<T("path", In1(e)[1], "")>>,
                <<K("exclude_fnames", "paths", JoinComma(In2(e))), KNum(e, "min_gap_size", "min_gap_size", "int", "5000")>>,
                <<>>, <<>>, "one", "bed3")
      [] e.cmd = "antitarget" ->
            (* -g access; -a [Default: 150000]; -m "[Default: 1/16 avg size, calculated]" *)
            Lib("cnvlib.antitarget.do_antitarget", <<T("auto", In1(e)[1], "")>>,
                <<IF Len(In2(e)) = 0 THEN K("access", "none", "") ELSE K("access", "auto", In2(e)[1]),
                  KNum(e, "avg_bin_size", "avg_size", "int", "150000"), KNumOrNone(e, "min_bin_size", "min_size", "int")>>,
                <<>>, <<>>, "one", "bed4")
      [] e.cmd = "reference" /\ e.mode = "flat" ->
            (* -t targets -a antitargets -f fasta; -y "Create a male reference"; --diploid-parx-genome       *)
            (* "Considers the given human genome's PAR of chromosome X as autosomal."                        *)
            Lib("cnvlib.reference.do_reference_flat", <<T("path", In1(e)[1], "")>>,
                <<KPathOrNone("antitargets", In2(e)), KPathOrNone("fa_fname", In3(e)), KMaleRef(e), KParx(e)>>,
                <<>>, <<>>, "one", "tab")
      [] e.cmd = "reference" /\ e.mode = "pooled" ->
            (* "Normal-sample target or antitarget .cnn files"; -x "Specify the chromosomal sex of all given samples"; *)
            (* -c; --min-cluster-size [Default: 4]; --no-gc/--no-edge/--no-rmask "Skip ... correction."             *)
            Lib("cnvlib.reference.do_reference", <<T("paths", JoinComma(In1(e)), ""), T("paths", JoinComma(In2(e)), "")>>,
                <<KPathOrNone("fa_fname", In3(e)), KMaleRef(e), KParx(e),
                  IF Has(e, "sample_sex") THEN KB("female_samples", IsFemaleArg(Opt(e, "sample_sex"))) ELSE K("female_samples", "none", ""),
                  KB("do_gc", ~Has(e, "no_gc")), KB("do_edge", ~Has(e, "no_edge")), KB("do_rmask", ~Has(e, "no_rmask")),
                  KB("do_cluster", Has(e, "cluster")), KNum(e, "min_cluster_size", "min_cluster_size", "int", "4")>>,
                <<>>, <<>>, "one", "tab")
      [] e.cmd = "fix" ->
            (* -i "Sample ID for target/antitarget files. Otherwise inferred from file names."; -c; --no-*;  *)
            (* --smoothing-window-fraction "Otherwise, defaults to 1/sqrt(len(data))" (None)                 *)
            Lib("cnvlib.fix.do_fix", <<T("cna", In1(e)[1], Opt(e, "sample_id")), T("cna", In2(e)[1], Opt(e, "sample_id")), Cna(In3(e)[1])>>,
                <<KParx(e), KB("do_gc", ~Has(e, "no_gc")), KB("do_edge", ~Has(e, "no_edge")), KB("do_rmask", ~Has(e, "no_rmask")),
                  KB("do_cluster", Has(e, "cluster")), KNumOrNone(e, "smoothing_window_fraction", "smoothing_window_fraction", "float")>>,
                <<>>, <<>>, "one", "tab")
      [] e.cmd = "segment" ->
            (* -m [Default: cbs]; -t threshold; --drop-low-coverage; --drop-outliers [Default: 10];          *)
            (* --rscript-path [Default: Rscript]; -p [Default: use 1 process]; --smooth-cbs                  *)
            Lib("cnvlib.segmentation.do_segmentation", <<Cna(In1(e)[1])>>,
                <<K("method", "str", MethodOf(e)), KParx(e), KNumOrNone(e, "threshold", "threshold", "float"), KVariants(e),
                  KB("skip_low", Has(e, "drop_low_coverage")), KNum(e, "skip_outliers", "drop_outliers", "float", "10"),
                  K("rscript_path", "str", OptD(e, "rscript_path", "Rscript")), KNum(e, "processes", "processes", "int", "1"),
                  KB("smooth_cbs", Has(e, "smooth_cbs"))>>,
                <<>>, Hets(e), "one", "tab")
      [] e.cmd = "call" ->
            (* --center-at "Subtract a constant number from all log2 ratios"; --center [est] "Re-center the  *)
            (* log2 ratio values using this estimator" (--drop-low-coverage: skip very-low-coverage bins);   *)
            (* --filter (repeatable, in the given order); -m [Default: threshold]; -t [Default:              *)
            (* -1.1,-0.25,0.2,0.7]; --ploidy [Default: 2]; --purity; -x; -y                                  *)
            Lib("cnvlib.call.do_call", <<Cna(In1(e)[1])>>,
                <<KVariants(e), K("method", "str", MethodOf(e)), KNum(e, "ploidy", "ploidy", "int", "2"),
                  KNumOrNone(e, "purity", "purity", "float"), KMaleRef(e), KSex(e), KParx(e),
                  K("filters", "strs", JoinComma(FiltersOf(e))), K("thresholds", "floats", OptD(e, "thresholds", "-1.1,-0.25,0.2,0.7"))>>,
                IF Has(e, "center_at") THEN <<[op |-> "shift", a |-> Opt(e, "center_at"), b |-> "", c |-> ""]>>
                ELSE IF Has(e, "center") THEN <<[op |-> "center", a |-> Opt(e, "center"),
                                                 b |-> IF Has(e, "drop_low_coverage") THEN "1" ELSE "0",
                                                 c |-> Opt(e, "diploid_parx_genome")]>>
                ELSE <<>>,
                Hets(e), "one", "tab")
      [] e.cmd = "segmetrics" ->
            (* each statistic flag adds that statistic; -a [Default: 0.05]; -b [Default: 100];               *)
            (* --smooth-bootstrap; --drop-low-coverage                                                       *)
            Lib("cnvlib.segmetrics.do_segmetrics", <<Cna(In1(e)[1]), Cna(In2(e)[1])>>,
                <<K("location_stats", "strs", JoinComma(StatsIn(e, LocStats))), K("spread_stats", "strs", JoinComma(StatsIn(e, SpreadStats))),
                  K("interval_stats", "strs", JoinComma(StatsIn(e, IntervalStats))), KNum(e, "alpha", "alpha", "float", "0.05"),
                  KNum(e, "bootstraps", "bootstrap", "int", "100"), KB("smoothed", Has(e, "smooth_bootstrap")),
                  KB("skip_low", Has(e, "drop_low_coverage"))>>,
                <<>>, <<>>, "one", "tab")
      [] e.cmd = "genemetrics" ->
            (* -s segments; -t [Default: 0.2]; -m [Default: 3]; --drop-low-coverage; -y; -x.                 *)
            (* The "Statistics available" flags are accepted by the parser, but commands.py says             *)
            (* "# TODO use the stats args" and do_genemetrics has no parameter for them: no meaning to bind. *)
            Lib("cnvlib.commands.do_genemetrics", <<Cna(In1(e)[1])>>,
                <<IF Len(In2(e)) = 0 THEN K("segments", "none", "") ELSE K("segments", "cna", In2(e)[1]),
                  KNum(e, "threshold", "threshold", "float", "0.2"), KNum(e, "min_probes", "min_probes", "int", "3"),
                  KB("skip_low", Has(e, "drop_low_coverage")), KMaleRef(e), KSex(e), KParx(e)>>,
                <<>>, <<>>, "one", "df1")
      [] e.cmd = "breaks" ->
            Lib("cnvlib.commands.do_breaks", <<Cna(In1(e)[1]), Cna(In2(e)[1])>>, <<KNum(e, "min_probes", "min_probes", "int", "1")>>,
                <<>>, <<>>, "one", "df1")
      [] e.cmd = "bintest" ->
            (* -a [Default: 0.005]; -t "Test target bins only; ignore off-target bins." *)
            Lib("cnvlib.commands.do_bintest", <<Cna(In1(e)[1])>>,
                <<IF Len(In2(e)) = 0 THEN K("segments", "none", "") ELSE K("segments", "cna", In2(e)[1]),
                  KNum(e, "alpha", "alpha", "float", "0.005"), KB("target_only", Has(e, "target"))>>,
                <<>>, <<>>, "one", "tab")
      [] e.cmd = "metrics" ->
            Lib("cnvlib.metrics.do_metrics", <<T("cnas", JoinComma(In1(e)), "")>>,
                <<IF Len(In2(e)) = 0 THEN K("segments", "none", "") ELSE K("segments", "cnas", JoinComma(In2(e))),
                  KB("skip_low", Has(e, "drop_low_coverage"))>>,
                <<>>, <<>>, "one", "df1")
      [] e.cmd = "sex" ->
            Lib("cnvlib.commands.do_sex", <<T("cnas", JoinComma(In1(e)), "")>>, <<KMaleRef(e), KParx(e)>>, <<>>, <<>>, "one", "df1")
      [] e.cmd = "export bed" ->
            (* -i LABEL "[Default: use the sample ID, taken from the file name]"; --label-genes "Show gene   *)
            (* names in the 4th column"; --ploidy [Default: 2]; --show [Default: ploidy]; one table per file *)
            Lib("cnvlib.export.export_bed", <<T("cnas", JoinComma(In1(e)), "")>>,
                <<KNum(e, "ploidy", "ploidy", "int", "2"), KMaleRef(e), KParx(e), KSex(e),
                  IF Has(e, "sample_id") THEN K("label", "str", Opt(e, "sample_id"))
                  ELSE IF Has(e, "label_genes") THEN K("label", "none", "") ELSE K("label", "label", "@sid"),
                  K("show", "str", OptD(e, "show", "ploidy"))>>,
                <<>>, <<>>, "each_concat", "df0")
      [] e.cmd = "export vcf" ->
            Lib("cnvlib.export.export_vcf", <<Cna(In1(e)[1])>>,
                <<KNum(e, "ploidy", "ploidy", "int", "2"), KMaleRef(e), KParx(e), KSex(e), KStrOrNone(e, "sample_id", "sample_id"),
                  IF Len(In2(e)) = 0 THEN K("cnarr", "none", "") ELSE K("cnarr", "cna", In2(e)[1])>>,
                <<>>, <<>>, "one", "text2")
      [] e.cmd = "export seg" ->
            Lib("cnvlib.export.export_seg", <<T("paths", JoinComma(In1(e)), "")>>, <<KB("chrom_ids", Has(e, "enumerate_chroms"))>>,
                <<>>, <<>>, "one", "df1")
      [] e.cmd = "import-seg" ->
            (* -c 'Mapping of chromosome indexes to names. Syntax: "from1:to1,from2:to2". Or use "human" for *)
            (* the preset: "23:X,24:Y,25:M".'; -p prefix; --from-log10                                       *)
            Lib("skgenome.tabio.seg.parse_seg", <<T("path", In1(e)[1], "")>>,
                <<IF Has(e, "chromosomes")
                  THEN K("chrom_names", "dict", IF Opt(e, "chromosomes") = "human" THEN "23:X,24:Y,25:M" ELSE Opt(e, "chromosomes"))
                  ELSE K("chrom_names", "none", ""),
                  KStrOrNone(e, "chrom_prefix", "prefix"), KB("from_log10", Has(e, "from_log10"))>>,
                <<>>, <<>>, "seg_each", "tab")
      [] OTHER -> NoLib
(* number of tables the library call yields (import-seg: one per sample in the SEG file) *)
NLib(e, meta) == IF e.cmd = "import-seg" THEN Len(M(meta, In1(e)[1]).sids)
                 ELSE IF e.cmd = "reference" /\ e.mode = "empty" THEN 0 ELSE 1

(* ------------------------------------------------------------------ A-layer: _cmd_* case for case *)
(* Where the output of a command goes.  "file": tabio.write / write_dataframe / write_text open    *)
(* the path for writing (an existing file is replaced); "stdout": `outfname or sys.stdout`.        *)
(* (target, access, genemetrics, breaks, bintest, metrics, sex, export bed/vcf/seg have no default name: stdout) *)
(* default names: reference "cnv_reference.cnn"; antitarget <targets>.antitarget.<ext>;            *)
(* fix <sample_id>.cnr; segment <sample_id>.cns;                                                   *)
(* call <sample_id>.call.cns; segmetrics <sample_id of -s>.segmetrics.cns;                         *)
(* import-seg <output_dir>/<sid>.cns for each sample of the SEG file                               *)
(* Defects found by this module and repaired in /repo; a name listed here switches the A-layer back to the     *)
(* behaviour before the repair (kept as documentation of what the check reported; empty on the current tree):  *)
(*   "AntitargetNoOutput"  (30a3671) antitarget without -o read args.interval -> AttributeError                *)
(*   "FlatRefIgnoresParx"  (424f1ad) reference -t ... did not pass --diploid-parx-genome to do_reference_flat   *)
(*   "NestedNewDir"        (75edcfc) tabio.safe_write used os.mkdir: -o a/b/x with a missing -> FileNotFoundError*)
LegacyDefects == {}
(* antitarget (since 30a3671): base, ext = args.targets.rsplit(".", 1); base + ".antitarget." + ext -- next to   *)
(* the targets file (the directory is part of `base`)                                                          *)
DefaultN(e, meta) ==
    CASE e.cmd = "reference" -> <<"cnv_reference", "cnn">>
      [] e.cmd = "antitarget" /\ "AntitargetNoOutput" \notin LegacyDefects /\ Len(M(meta, In1(e)[1]).n) >= 2 ->
            LET n == M(meta, In1(e)[1]).n IN Front1(n) \o <<"antitarget", Last1(n)>>
      [] e.cmd = "fix" -> (IF Has(e, "sample_id") THEN <<Opt(e, "sample_id")>> ELSE FBase(M(meta, In1(e)[1]).n)) \o <<"cnr">>
      [] e.cmd = "segment" -> FBase(M(meta, In1(e)[1]).n) \o <<"cns">>
      [] e.cmd = "call" -> FBase(M(meta, In1(e)[1]).n) \o <<"call", "cns">>
      [] e.cmd = "segmetrics" -> FBase(M(meta, In2(e)[1]).n) \o <<"segmetrics", "cns">>
      [] OTHER -> <<>>
(* kind bookkeeping of the output (what later commands may do with it) *)
OutMeta(e, meta, d, n, k) ==
    LET m1 == IF Len(In1(e)) > 0 /\ Known(meta, In1(e)[1]) THEN M(meta, In1(e)[1]) ELSE MkMeta("", <<"x">>, "other", {}, "", "", <<>>) IN
    CASE e.cmd = "target" -> MkMeta(d, n, "targets", {}, "", "", <<>>)
      [] e.cmd = "access" -> MkMeta(d, n, "access", {}, "", "", <<>>)
      [] e.cmd = "antitarget" -> MkMeta(d, n, "antitargets", {}, "", "", <<>>)
      [] e.cmd = "reference" /\ e.mode = "flat" ->
            MkMeta(d, n, "refcnn", {}, IF m1.design = "W" /\ Len(In2(e)) > 0 /\ M(meta, In2(e)[1]).design = "W" THEN "W" ELSE "", "", <<>>)
      [] e.cmd = "reference" -> MkMeta(d, n, "refcnn", {}, IF Len(In2(e)) = Len(In1(e)) THEN "W" ELSE "", "", <<>>)
      [] e.cmd = "fix" -> MkMeta(d, n, "cnr", {}, "", "W", <<>>)
      [] e.cmd = "segment" -> MkMeta(d, n, "cns", {"weight"}, "", "W", <<>>)
      [] e.cmd = "call" ->
            (* segfilters.squash_region: "Most fields added by the `segmetrics` command will be dropped." *)
            MkMeta(d, n, "cns", ((IF Len(FiltersOf(e)) > 0 THEN m1.feats \cap {"cn", "weight"} ELSE m1.feats)
                                  \cup (IF MethodOf(e) # "none" THEN {"cn"} ELSE {})), "", m1.coord, <<>>)
      [] e.cmd = "segmetrics" ->
            LET m2 == M(meta, In2(e)[1]) IN
            MkMeta(d, n, "cns", m2.feats \cup ({"ci", "sem"} \cap {e.flags[i].opt : i \in 1..Len(e.flags)}), "", m2.coord, <<>>)
      [] e.cmd = "bintest" -> MkMeta(d, n, "bintest", {}, "", "", <<>>)
      [] e.cmd = "export seg" ->
            MkMeta(d, n, "seg", {}, "", "seg", [i \in 1..Len(In1(e)) |-> Sid(meta, In1(e)[i])])
      [] e.cmd = "import-seg" -> MkMeta(d, n, "cns", {}, "", "seg", <<>>)
      [] OTHER -> MkMeta(d, n, "report", {}, "", "", <<>>)
(* the output files of a command in the order of the library results *)
OutFiles(e, meta) ==
    IF e.cmd = "import-seg"
    THEN LET sids == M(meta, In1(e)[1]).sids
             d == IF e.osel = "default" THEN "" ELSE e.oname IN          \* os.path.join(".", ...) -> same file
         [k \in 1..Len(sids) |-> OutMeta(e, meta, d, <<sids[k], "cns">>, k)]
    ELSE IF e.osel = "default"
         THEN (IF DefaultN(e, meta) = <<>> THEN <<>>
               ELSE <<OutMeta(e, meta, IF e.cmd = "antitarget" THEN M(meta, In1(e)[1]).d ELSE "", DefaultN(e, meta), 1)>>)
    ELSE IF e.osel = "clash" THEN <<[OutMeta(e, meta, M(meta, e.oname).d, M(meta, e.oname).n, 1) EXCEPT !.name = e.oname]>>
    ELSE <<OutMeta(e, meta, OutDir(e.osel), ExplicitN(e), 1)>>
(* core.ensure_path: "If a file already exists at the given path, it is renamed with an integer     *)
(* suffix to clear the way": the first free one, counting from 1                                     *)
Bak(nm, k) == nm \o "." \o ToString(k)
FirstFreeK(fs, nm) == CHOOSE k \in 1..(Cardinality(fs) + 1) : ~Exists(fs, Bak(nm, k)) /\ \A j \in 1..(k - 1) : Exists(fs, Bak(nm, j))
EnsurePath(fs, nm) == IF ~Exists(fs, nm) THEN fs ELSE Put(Del(fs, nm), Bak(nm, FirstFreeK(fs, nm)), Get(fs, nm))
EnsurePathMeta(fs, meta, nm) ==
    IF ~Exists(fs, nm) \/ ~Known(meta, nm) THEN meta
    ELSE LET m == M(meta, nm) k == FirstFreeK(fs, nm) IN
         (meta \ {m}) \cup {[m EXCEPT !.name = Bak(nm, k), !.n = Append(m.n, ToString(k))]}
(* which commands go through core.ensure_path before writing: _cmd_reference only (of the covered)   *)
UsesEnsurePath(cmd) == cmd = "reference"
(* error the wrapper itself raises before/while writing (beyond the documented ones)                 *)
WrapperErr(e, meta) ==
    LET d == IF e.cmd = "import-seg" THEN (IF e.osel = "default" THEN "" ELSE e.oname)
             ELSE IF e.osel \in {"sub", "deep"} THEN OutDir(e.osel) ELSE "" IN
    CASE e.cmd = "antitarget" /\ e.osel = "default" /\ "AntitargetNoOutput" \in LegacyDefects
            -> "AttributeError"                                                  \* before 30a3671: args.interval does not exist
      [] e.cmd = "access" /\ ~DirExists(meta, d) -> "SystemExit"                  \* argparse.FileType("w") at parse time
      [] "NestedNewDir" \in LegacyDefects /\ e.cmd # "access" /\ ~UsesEnsurePath(e.cmd) /\ Produces(e)
              /\ ~DirExists(meta, d) /\ ~DirExists(meta, ParentDir(d))
            -> "FileNotFoundError"                                               \* before 75edcfc: safe_write used os.mkdir (one level)
      [] OTHER -> ""
(* the wrapper does not make the documented call -- before 424f1ad: reference (flat) dropped         *)
(* --diploid-parx-genome (visible with -y and chrX bins inside the PAR); nothing of the kind now     *)
WiringDiffers(e) == "FlatRefIgnoresParx" \in LegacyDefects
                    /\ e.cmd = "reference" /\ e.mode = "flat" /\ Has(e, "diploid_parx_genome") /\ Has(e, "male_reference")
(* pyfaidx writes <fasta>.fai next to the genome on first use (get_fasta_stats): flat `if fa_fname`,         *)
(* pooled `if fa_fname and (fix_rmask or fix_gc)`                                                         *)
SideFiles(e, fs) == IF e.cmd = "reference" /\ e.mode \in {"flat", "pooled"} /\ Len(In3(e)) > 0 /\ ~Exists(fs, In3(e)[1] \o ".fai")
                       /\ (e.mode = "flat" \/ ~(Has(e, "no_gc") /\ Has(e, "no_rmask")))
                    THEN {In3(e)[1] \o ".fai"} ELSE {}
AnyId == -1        \* "content not predicted" in an expected file system
(* Effect: [err, fs, meta, w (names written), so (library result id expected on stdout, 0 = none)]   *)
(* lib: content ids of the library results (observed in traces, fresh in the design model);          *)
(* liberr: error of the library call ("" = none)                                                     *)
Effect(fs, meta, e, lib, liberr) ==
    LET derr == DocErr(e, meta)
        werr == WrapperErr(e, meta)
        err == IF derr # "" THEN derr ELSE IF liberr # "" THEN liberr ELSE werr
        outs == OutFiles(e, meta)
        RECURSIVE Wr(_, _, _)
        Wr(st, k, n) ==          \* st = <<fs, meta>>; write outs[k..n]
            IF k > n THEN st
            ELSE LET o == outs[k]
                     f1 == IF UsesEnsurePath(e.cmd) THEN EnsurePath(st[1], o.name) ELSE st[1]
                     m1 == IF UsesEnsurePath(e.cmd) THEN EnsurePathMeta(st[1], st[2], o.name) ELSE st[2]
                     id == IF WiringDiffers(e) THEN AnyId ELSE lib[k]
                 IN Wr(<<Put(f1, o.name, id), {m \in m1 : m.name # o.name} \cup {o}>>, k + 1, n)
        side == SideFiles(e, fs)
    IN
    IF err # "" THEN [err |-> err, fs |-> fs, meta |-> meta, w |-> {}, so |-> 0]
    ELSE IF ~Produces(e) THEN [err |-> "", fs |-> fs, meta |-> meta, w |-> {}, so |-> 0]
    ELSE IF Len(outs) = 0          \* no -o and no default name: the table goes to standard output
         THEN [err |-> "", fs |-> fs, meta |-> meta, w |-> {}, so |-> lib[1]]
    ELSE LET st == Wr(<<fs, meta>>, 1, Len(outs)) IN
         [err |-> "", fs |-> st[1] \cup {<<s, AnyId>> : s \in side},
          meta |-> st[2] \cup {MkMeta("", <<s>>, "other", {}, "", "", <<>>) : s \in side},
          w |-> {outs[k].name : k \in 1..Len(outs)} \cup side, so |-> 0]

(* output selectors a variant may use in the current file system *)
ClashNames(e0, fs, meta) ==      \* existing files that are not inputs of this command and of a kind the output would have
    LET want == CASE e0.cmd \in {"segment", "call", "segmetrics"} -> {"cns"} [] e0.cmd = "fix" -> {"cnr"}
                  [] e0.cmd = "reference" -> {"refcnn", "other"} [] OTHER -> {"report"} IN
    {m.name : m \in {x \in meta : x.kind \in want /\ x.name \notin Inputs(e0) /\ x.d = ""}}

(* ------------------------------------------------------------------ P-layer *)
(* An observation (recorded run, or the A-layer's own prediction in the design model):              *)
(*   o = [err, liberr, lib (ids), so (id of the text on standard output, 0 = nothing), post (fs),   *)
(*        w (names written during the command), n (set of <<name, directory, components>>)]        *)
Reporting == {"breaks", "genemetrics", "sex", "metrics"}          \* doc/reports.rst "Text and tabular reports"
DocExt(cmd) == CASE cmd = "reference" -> "cnn" [] cmd = "fix" -> "cnr"
                 [] cmd \in {"segment", "call", "segmetrics", "import-seg"} -> "cns" [] OTHER -> ""
CompsOf(o, nm) == (CHOOSE x \in o.n : x[1] = nm)[3]
DirOf(o, nm) == (CHOOSE x \in o.n : x[1] = nm)[2]
Explicit(e) == e.osel # "default"
TargetDir(e) == IF e.cmd = "import-seg" THEN (IF e.osel = "default" THEN "" ELSE e.oname)
                ELSE IF e.osel \in {"sub", "deep"} THEN OutDir(e.osel) ELSE ""
Done(e, meta, o) == DocErr(e, meta) = "" /\ o.liberr = "" /\ o.err = ""
ClausesOf(e) == {"completes", "library_refusal_not_hidden", "rejects_documented_error", "out_at_explicit_path", "out_equals_library",
                 "inputs_untouched"}
                \cup (IF e.cmd \in Reporting THEN {"default_to_stdout"} ELSE {})
                \cup (IF DocExt(e.cmd) # "" THEN {"default_name_ext"} ELSE {})
                \cup (IF UsesEnsurePath(e.cmd) THEN {"no_overwrite"} ELSE {})
Holds(c, pre, meta, e, o) ==
    CASE c = "completes" ->
            (* every option is optional in the usage line; a command line that stands for a library call  *)
            (* that succeeds runs to completion.  Output into a directory that does not exist yet: only   *)
            (* where the writer promises it -- tabio.safe_write (tabio.write, write_dataframe, write_text  *)
            (* with a file name): "If the path includes directories that don't exist yet, create them";   *)
            (* `access` lets argparse open -o (FileType), nothing is promised there.                      *)
            (DocErr(e, meta) = "" /\ o.liberr = "" /\ (DirExists(meta, TargetDir(e)) \/ e.cmd # "access")) => o.err = ""
      [] c = "library_refusal_not_hidden" ->
            (* what the library function refuses, the command does not report as done (which exception it  *)
            (* ends with is not documented: A-layer)                                                       *)
            (DocErr(e, meta) = "" /\ o.liberr # "") => (o.err # "" /\ (Explicit(e) /\ e.cmd # "import-seg" => e.oname \notin o.w))
      [] c = "rejects_documented_error" ->
            (* the error messages quoted at DocErr: the command fails and writes nothing (the exception    *)
            (* class is not documented: A-layer)                                                           *)
            DocErr(e, meta) # "" => (o.err # "" /\ o.w = {})
      [] c = "out_at_explicit_path" ->
            (* "-o FILENAME  Output file name." / "-d DIRECTORY  Output directory name." *)
            (Done(e, meta, o) /\ Explicit(e) /\ Produces(e)) =>
                IF e.cmd = "import-seg"
                THEN \A k \in 1..Len(o.lib) : \E nm \in o.w : Get(o.post, nm) = o.lib[k] /\ DirOf(o, nm) = e.oname
                ELSE e.oname \in o.w
      [] c = "out_equals_library" ->
            (* the table written is what the library function returns for the documented meaning of the  *)
            (* flags (PLib), written in the command's format                                             *)
            (Done(e, meta, o) /\ Produces(e)) =>
                \A k \in 1..Len(o.lib) :
                    IF Explicit(e) /\ e.cmd # "import-seg" THEN Get(o.post, e.oname) = o.lib[k]
                    ELSE (\E nm \in o.w : Get(o.post, nm) = o.lib[k]) \/ o.so = o.lib[k]
      [] c = "default_to_stdout" ->
            (* doc/pipeline.rst: "... except in the case of the text reporting commands, which print to  *)
            (* standard output by default"                                                               *)
            (Done(e, meta, o) /\ ~Explicit(e)) => (o.w = {} /\ o.so = o.lib[1])
      [] c = "default_name_ext" ->
            (* doc/pipeline.rst: "A sensible output file name is normally chosen if it isn't specified"; *)
            (* the type is documented: fix "Output a table of copy number ratios (.cnr)", segment/call    *)
            (* "-o ... (CNR-like table of segments, .cns)", segmetrics "same format as the CNVkit         *)
            (* segmentation file (.cns)", import-seg "into one or more CNVkit .cns files", reference .cnn *)
            (Done(e, meta, o) /\ ~Explicit(e) /\ Produces(e)) =>
                \A k \in 1..Len(o.lib) : \E nm \in o.w : Get(o.post, nm) = o.lib[k] /\ Last1(CompsOf(o, nm)) = DocExt(e.cmd)
      [] c = "no_overwrite" ->
            (* core.ensure_path: "move an existing file to avoid overwriting ... it is renamed with an    *)
            (* integer suffix": nothing that was there is lost                                           *)
            Done(e, meta, o) =>
                \A x \in pre : \/ (Get(o.post, x[1]) = x[2] /\ x[1] \notin o.w)
                               \/ \E k \in 1..9 : /\ Get(o.post, Bak(x[1], k)) = x[2]
                                                  /\ ~Exists(pre, Bak(x[1], k)) /\ Bak(x[1], k) \notin o.w
      [] c = "inputs_untouched" ->
            (* the files named as inputs in the usage line are only read *)
            \A nm \in Inputs(e) : Get(o.post, nm) = Get(pre, nm) /\ nm \notin o.w
      [] OTHER -> FALSE
(* known defects of the command layer: none open.  The three repaired ones (LegacyDefects above) were        *)
(* characterised by these predicates; they are no longer exempt -- if one returns it is a plain violation.    *)
KnownTriggers == {}
RepairedTrigger(t, e, meta) ==
    CASE t = "AntitargetNoOutput" -> e.cmd = "antitarget" /\ e.osel = "default"
      [] t = "NestedNewDir" -> e.osel = "deep" /\ e.cmd \notin {"reference", "access"} /\ ~DirExists(meta, "a")
      [] t = "FlatRefIgnoresParx" -> e.cmd = "reference" /\ e.mode = "flat" /\ Has(e, "diploid_parx_genome") /\ Has(e, "male_reference")
      [] OTHER -> FALSE
TriggerHolds(t, e, meta) == FALSE
(* A-layer agreement: the observed directory is the one Effect predicts *)
Agrees(pre, meta, e, o) ==
    LET x == Effect(pre, meta, e, o.lib, o.liberr) IN
    /\ o.err = x.err
    /\ Names(o.post) = Names(x.fs)
    /\ \A y \in x.fs : y[2] = AnyId \/ Get(o.post, y[1]) = y[2]
    /\ o.w = x.w
    /\ (x.so # 0 => o.so = x.so)
    /\ (WiringDiffers(e) /\ x.err = "" => \A k \in 1..Len(o.lib) : \A nm \in x.w : Get(o.post, nm) # o.lib[k])
(* ================================================================== helper functions, one call per record *)
(* cnvlib/core.py: fbase, ensure_path, assert_equal, check_unique; cnvlib/cmdutil.py: write_tsv, write_text.    *)
(* Records: [op, ...]; judged by Trace_CliUnits (one record = one call of the real function).                   *)
IsPrefix1(a, b) == Len(a) <= Len(b) /\ SubSeq(b, 1, Len(a)) = a
KnownExtStem(n) ==          \* <<TRUE, stem>> when the name carries one of the extensions core.fbase lists
    LET n1 == IF Len(n) > 1 /\ Last1(n) = "gz" THEN Front1(n) ELSE n IN
    IF Len(n1) >= 3 /\ SubSeq(n1, Len(n1) - 1, Len(n1)) \in TwoPartExts THEN <<TRUE, SubSeq(n1, 1, Len(n1) - 2)>>
    ELSE IF Len(n1) >= 4 /\ SubSeq(n1, Len(n1) - 2, Len(n1)) = <<"deduplicated", "realign", "bam">> THEN <<TRUE, SubSeq(n1, 1, Len(n1) - 3)>>
    ELSE <<FALSE, <<>>>>
AllEqual(s) == \A i \in 1..Len(s) : s[i] = s[1]
(* ensure_path records: pre/post = [dirs (set as seq), files (seq of <<name, id>>)], path = [d, name]            *)
UFs(x) == {<<x.files[i][1], x.files[i][2]>> : i \in 1..Len(x.files)}
UDirs(x) == SetOf(x.dirs)
UFull(pth) == (IF pth.d = "" THEN "" ELSE pth.d \o "/") \o pth.name
UClauses(op) ==
    CASE op = "fbase" -> {"fbase_strips_directory", "fbase_strips_extension", "fbase_known_multipart"}
      [] op = "assert_equal" -> {"ae_raises_iff_unequal", "ae_message_as_doctest"}
      [] op = "check_unique" -> {"cu_returns_the_item", "cu_rejects_different_items"}
      [] op = "write_tsv" -> {"tsv_header_then_rows"}
      [] op = "write_text" -> {"text_blocks_in_order"}
      [] op = "ensure_path" -> {"ep_dirs_created", "ep_path_clear", "ep_nothing_lost"}
      [] OTHER -> {}
UHolds(c, r) ==
    CASE c = "fbase_strips_directory" ->
            (* core.fbase: "Strip directory and all extensions from a filename." *)
            ~r.has_slash
      [] c = "fbase_strips_extension" ->
            (* at least the last extension goes; what is left is the beginning of the base name *)
            r.err = "" /\ IF Len(r.n) = 1 THEN r.outn = r.n ELSE (IsPrefix1(r.outn, r.n) /\ Len(r.outn) < Len(r.n))
      [] c = "fbase_known_multipart" ->
            (* "Gzip extension usually follows another extension"; "Cases to drop more than just the last dot":      *)
            (* .antitargetcoverage.cnn .targetcoverage.cnn .antitargetcoverage.csv .targetcoverage.csv .recal.bam   *)
            (* .deduplicated.realign.bam                                                                             *)
            KnownExtStem(r.n)[1] => r.outn = KnownExtStem(r.n)[2]
      [] c = "ae_raises_iff_unequal" ->
            (* core.assert_equal: "Evaluate and compare two or more values for equality." -> ValueError *)
            IF AllEqual(r.vals) THEN r.err = "" ELSE r.err = "ValueError"
      [] c = "ae_message_as_doctest" ->
            (* docstring: assert_equal("Mismatch", expected=1, saw=len(['xx', 'yy']))                      *)
            (*            ValueError: Mismatch: expected = 1, saw = 2         (keywords in the order given) *)
            r.err = "ValueError" => r.msgkeys = r.keys
      [] c = "cu_returns_the_item" ->
            (* core.check_unique: "Ensure all items in an iterable are identical; return that one item." *)
            (Len(r.items) > 0 /\ AllEqual(r.items)) => (r.err = "" /\ r.out = r.items[1])
      [] c = "cu_rejects_different_items" ->
            (Len(r.items) > 0 /\ ~AllEqual(r.items)) => r.err = "AssertionError"
      [] c = "tsv_header_then_rows" ->
            (* cmdutil.write_tsv: "Write rows, with optional column header, to tabular file." *)
            r.err = "" /\ r.lines = (IF Len(r.colnames) > 0 THEN <<r.colnames>> ELSE <<>>) \o r.rows
      [] c = "text_blocks_in_order" ->
            (* cmdutil.write_text: "Write one or more strings (blocks of text) to a file." *)
            r.err = "" /\ r.content = JoinWith(r.texts, "")
      [] c = "ep_dirs_created" ->
            (* core.ensure_path: "Create dirs and move an existing file to avoid overwriting, if necessary." *)
            r.err = "" /\ r.ret /\ (r.path.d = "" \/ r.path.d \in UDirs(r.post))
      [] c = "ep_path_clear" ->
            (* "If a file already exists at the given path, it is renamed with an integer suffix to clear the way." *)
            r.err = "" /\ ~Exists(UFs(r.post), UFull(r.path))
      [] c = "ep_nothing_lost" ->
            r.err = "" /\ \A x \in UFs(r.pre) :
                \/ (x[1] # UFull(r.path) /\ x \in UFs(r.post))
                \/ (x[1] = UFull(r.path) /\ \E k \in 1..9 : <<Bak(x[1], k), x[2]>> \in UFs(r.post) /\ ~Exists(UFs(r.pre), Bak(x[1], k)))
      [] OTHER -> FALSE
UPremise(r) == r.op \in {"fbase", "assert_equal", "check_unique", "write_tsv", "write_text", "ensure_path"}
               /\ (r.op = "assert_equal" => Len(r.vals) >= 2)            \* "two or more values"
(* A-layer of the helpers: the code as written *)
UDrift(r) ==
    CASE r.op = "fbase" -> r.outn # FBase(r.n)
      [] r.op = "assert_equal" ->
            (* values.popitem() takes the LAST keyword first; the others follow in the order given *)
            r.err = "ValueError" /\ r.msgkeys # <<Last1(r.keys)>> \o Front1(r.keys)
      [] r.op = "check_unique" -> (Len(r.items) = 0 /\ r.err # "AssertionError")
      [] r.op = "ensure_path" ->
            LET f == UFull(r.path) IN
            \/ UFs(r.post) # EnsurePath(UFs(r.pre), f)                                  \* first free suffix, counting from 1
            \/ UDirs(r.post) # UDirs(r.pre) \cup (IF r.path.d = "" THEN {} ELSE SetOf(r.updirs))  \* os.makedirs: every level
      [] OTHER -> FALSE
UKnownTriggers == {"AssertEqualMessageOrder"}
UTriggerHolds(t, r) == t = "AssertEqualMessageOrder" /\ r.op = "assert_equal" /\ r.err = "ValueError" /\ Len(r.keys) >= 2
=============================================================================
