--------------------------- MODULE MC_Cli ---------------------------
(* Design check + behaviour generator for X04: exhaustive for MaxSteps = 1 (every variant of the  *)
(* menu x every admissible choice of input files x every output selector), `-simulate` for        *)
(* MaxSteps = 4.  `hist` is what the harness executes (argv and library call included).           *)
EXTENDS Cli
=============================================================================
