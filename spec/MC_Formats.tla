--------------------------- MODULE MC_Formats ---------------------------
(* Design check + enumerator for C08.  Every table of the small scope (all sequences of at most    *)
(* MaxRows rows over the given chromosome names x coordinates 0..MaxCoord, in every input order)   *)
(* x every case (operation, layout, reader).  One step computes what the harness needs to replay    *)
(* the case into the real code: the abstract table(s) and, for the readers, the fixture laid out   *)
(* by the specification.  The invariant states that the code's algorithms as modelled (A-layer:    *)
(* AWrite, ARead, ASniff) satisfy every clause of the property (P-layer).                          *)
EXTENDS Formats
CONSTANTS NameSet, GeneSet, FloatSet,   \* which of the sets below (TLC configuration files hold no tuples)
          MaxCoord, MaxRows,
          ZeroWidth,  \* TRUE: rows with start = end are enumerated too
          CaseIds     \* which entries of CaseList: <<operation, layout, reader, shape of the table>>

NameSets == <<<<<<99, 104, 114, 50>>, <<99, 104, 114, 49, 48>>, <<99, 104, 114, 88>>>>,
             <<<<50>>, <<49, 48>>, <<88>>>>,
             <<<<99, 104, 114, 49>>, <<99, 104, 114, 85, 110, 95, 103, 108, 48, 48, 48, 50, 49, 49>>, <<99, 104, 114, 49, 95, 103, 108, 48, 48, 48, 49, 57, 49, 95, 114, 97, 110, 100, 111, 109>>>>,
             <<<<99, 104, 114, 49>>, <<49>>, <<67, 72, 82, 49>>>>,
             <<<<99, 104, 114, 77>>, <<99, 104, 114, 89>>, <<99, 104, 114, 49>>>>,
             <<<<71, 76, 48, 48, 48, 50, 48, 55, 46, 49>>, <<99, 104, 114, 54, 95, 97, 112, 100, 95, 104, 97, 112, 49>>, <<77, 84>>>>>>
\* chr2 chr10 chrX; 2 10 X; chr1 chrUn_gl000211 chr1_gl000191_random; chr1 1 CHR1; chrM chrY chr1; GL000207.1 chr6_apd_hap1 MT
GeneSets == <<<<<<65>>, <<45>>>>,
             <<<<65, 44, 66>>, <<120, 46, 121, 45, 122>>>>>>
\* A -; A,B x.y-z
FloatSets == <<<<<<0, 0, <<1, 5>>>>, <<1, -5, <<1, 2, 3, 4, 5, 6, 7, 8>>>>>>,
              <<<<0, 6, <<1, 2, 3, 4, 5, 6, 7>>>>, <<0, 0, <<>>>>, <<1, 0, <<9, 9, 9, 9, 9, 9, 5>>>>, <<0, 22, <<1>>>>>>>>
\* 1.5 -1.2345678e-05 ; 1234567.0 0.0 -9.999995 (tie at the 7th digit, carries) 1e22
CaseList == <<
   <<"write", "bed3", "bed3", "cse">>,   \* 1
   <<"write", "bed4", "bed4", "cse">>,   \* 2
   <<"write", "bed4", "bed4", "g">>,   \* 3
   <<"write", "bed", "bed", "cse">>,   \* 4
   <<"write", "bed", "bed", "g1">>,   \* 5
   <<"write", "bed", "bed", "gf">>,   \* 6
   <<"write", "interval", "interval", "cse">>,   \* 7
   <<"write", "interval", "interval", "g1">>,   \* 8
   <<"write", "text", "text", "cse">>,   \* 9
   <<"write", "text", "text", "g1">>,   \* 10
   <<"write", "tab", "tab", "cse">>,   \* 11
   <<"write", "tab", "tab", "gf">>,   \* 12
   <<"write", "tab", "tab", "gfp">>,   \* 13
   <<"write", "picardhs", "picardhs", "hs">>,   \* 14
   <<"rt", "bed3", "bed3", "cse">>,   \* 15
   <<"rt", "bed3", "bed4", "cse">>,   \* 16
   <<"rt", "bed3", "bed", "cse">>,   \* 17
   <<"rt", "bed4", "bed3", "cse">>,   \* 18
   <<"rt", "bed4", "bed3", "g1">>,   \* 19
   <<"rt", "bed4", "bed4", "cse">>,   \* 20
   <<"rt", "bed4", "bed4", "g">>,   \* 21
   <<"rt", "bed4", "bed", "cse">>,   \* 22
   <<"rt", "bed4", "bed", "g1">>,   \* 23
   <<"rt", "bed", "bed3", "cse">>,   \* 24
   <<"rt", "bed", "bed3", "g1">>,   \* 25
   <<"rt", "bed", "bed4", "cse">>,   \* 26
   <<"rt", "bed", "bed4", "g1">>,   \* 27
   <<"rt", "bed", "bed", "cse">>,   \* 28
   <<"rt", "bed", "bed", "g1">>,   \* 29
   <<"rt", "interval", "interval", "cse">>,   \* 30
   <<"rt", "interval", "interval", "g">>,   \* 31
   <<"rt", "text", "text", "cse">>,   \* 32
   <<"rt", "tab", "tab", "cse">>,   \* 33
   <<"rt", "tab", "tab", "gf">>,   \* 34
   <<"rt", "tab", "tab", "gfp">>,   \* 35
   <<"rt", "tab", "cna", "gf">>,   \* 36
   <<"rt", "tab", "cna", "gfp">>,   \* 37
   <<"read", "bed3", "bed3", "cse">>,   \* 38
   <<"read", "bed3", "bed4", "cse">>,   \* 39
   <<"read", "bed3", "bed", "cse">>,   \* 40
   <<"read", "bed4", "bed4", "g">>,   \* 41
   <<"read", "bed4", "bed3", "g1">>,   \* 42
   <<"read", "bed4", "bed", "g1">>,   \* 43
   <<"read", "bed6", "bed", "g">>,   \* 44
   <<"read", "bed6", "bed4", "g1">>,   \* 45
   <<"read", "interval", "interval", "g">>,   \* 46
   <<"read", "interval_hdr", "interval", "g1">>,   \* 47
   <<"read", "text", "text", "cse">>,   \* 48
   <<"read", "text_gene", "text", "g">>,   \* 49
   <<"read", "tab", "tab", "gf">>,   \* 50
   <<"read", "tab", "tab", "cse">>,   \* 51
   <<"read", "tab", "cna", "gfp">>,   \* 52
   <<"read", "seg", "seg", "gf2">>,   \* 53
   <<"read", "seg", "seg", "gfp">>,   \* 54
   <<"read", "picardhs", "picardhs", "hs">>,   \* 55
   <<"read", "gff", "gff", "g">>,   \* 56
   <<"read", "gtf", "gff", "g1">>,   \* 57
   <<"read", "vcf", "vcf", "cse">>,   \* 58
   <<"read", "vcf_sv", "vcf", "cse">>,   \* 59
   <<"read", "vcf", "vcf-simple", "cse">>,   \* 60
   <<"read", "vcf_sv", "vcf-simple", "cse">>,   \* 61
   <<"read", "vcf", "vcf-sites", "cse">>,   \* 62
   <<"read", "vcf_sv", "vcf-sites", "cse">>,   \* 63
   <<"auto", "bed3", "bed", "cse">>,   \* 64
   <<"auto", "bed4", "bed", "g">>,   \* 65
   <<"auto", "bed6", "bed", "g1">>,   \* 66
   <<"auto", "interval", "interval", "g1">>,   \* 67
   <<"auto", "interval_hdr", "interval", "g1">>,   \* 68
   <<"auto", "text", "text", "cse">>,   \* 69
   <<"auto", "text_gene", "text", "g1">>,   \* 70
   <<"auto", "gff", "gff", "g1">>,   \* 71
   <<"auto", "gtf", "gff", "g1">>,   \* 72
   <<"auto", "tab", "tab", "gf">>,   \* 73
   <<"auto", "tab", "tab", "cse">>,   \* 74
   <<"auto", "vcf", "vcf", "cse">>,   \* 75
   <<"segrt", "seg", "cna", "gf2">>,   \* 76
   <<"segrt", "seg", "cna", "gfp">>,   \* 77
   <<"write", "tab", "tab", "g1">>,   \* 78
   <<"rt", "tab", "tab", "g">>,   \* 79
   <<"read", "tab", "tab", "g">>,   \* 80
   <<"read", "interval", "interval", "gs">>,   \* 81
   <<"auto", "interval", "interval", "gs">>,   \* 82
   <<"rt", "interval", "interval", "gs">>   \* 83
   >>
Names  == NameSets[NameSet]      \* sequence of chromosome names (texts)
Genes  == GeneSets[GeneSet]      \* sequence of gene labels (texts)
Floats == FloatSets[FloatSet]    \* sequence of floats as <<neg, e, digits>>
Cases  == {CaseList[k] : k \in CaseIds}

Coords == {p \in (0..MaxCoord) \X (0..MaxCoord) : IF ZeroWidth THEN p[1] <= p[2] ELSE p[1] < p[2]}
NI == 1..Len(Names)
GI == 1..Len(Genes)
FI == 1..Len(Floats)
(* shapes: which columns the abstract table has *)
RowSet(shape) ==
    CASE shape = "cse" -> {<<n, p[1], p[2]>> : n \in NI, p \in Coords}                       \* chromosome start end
      [] shape = "g"   -> {<<n, p[1], p[2], g>> : n \in NI, p \in Coords, g \in GI}           \* + gene (every label)
      [] shape = "g1"  -> {<<n, p[1], p[2], 1>> : n \in NI, p \in Coords}                    \* + gene (first label only)
      [] shape = "gs"  -> {<<n, p[1], p[2], 1, st>> : n \in NI, p \in Coords, st \in 1..3}    \* + gene, strand + - .
      [] shape = "gf"  -> {<<n, p[1], p[2], 1, f>> : n \in NI, p \in Coords, f \in FI}        \* + gene, log2
      [] shape = "gfp" -> {<<n, p[1], p[2], 1, f>> : n \in NI, p \in Coords, f \in FI}        \* + gene, log2, probes
      [] shape = "gf2" -> {<<n, p[1], p[2], 1, 1, m>> : n \in NI, p \in Coords, m \in 1..2}   \* two samples
      [] shape = "hs"  -> {<<n, p[1], p[2], 1, f>> : n \in NI, p \in Coords, f \in FI}        \* + gene, gc, depth, ratio
TablesFor(shape) == UNION {[1..n -> RowSet(shape)] : n \in 0..MaxRows}

FloatCell(f) == <<"f", Floats[f][1], Floats[f][2], Floats[f][3]>>
t_S1 == <<83, 49>>
t_S2 == <<83, 50>>
Base(r) == <<SCell(Names[r[1]]), ICell(r[2]), ICell(r[3])>>
MkSrcs(shape, rows) ==
    LET mk(cols, f(_), rs) == Tbl(cols, [k \in 1..Len(rs) |-> f(rs[k])]) IN
    CASE shape = "cse" -> << <<t_S1, mk(CSE, Base, rows)>> >>
      [] shape \in {"g", "g1"} -> << <<t_S1, mk(CSE \o <<t_gene>>, LAMBDA r : Base(r) \o <<SCell(Genes[r[4]])>>, rows)>> >>
      [] shape = "gs"  -> << <<t_S1, mk(CSE \o <<t_gene, t_strand>>,
                                       LAMBDA r : Base(r) \o <<SCell(Genes[1]), SCell(<<t_plus, t_dash, t_dot>>[r[5]])>>, rows)>> >>
      [] shape = "gf"  -> << <<t_S1, mk(CSE \o <<t_gene, t_log2>>,
                                       LAMBDA r : Base(r) \o <<SCell(Genes[r[4]]), FloatCell(r[5])>>, rows)>> >>
      [] shape = "gfp" -> << <<t_S1, mk(CSE \o <<t_gene, t_log2, t_probes>>,
                                       LAMBDA r : Base(r) \o <<SCell(Genes[1]), FloatCell(r[5]), ICell(r[2] + r[3] + 1)>>,
                                       rows)>> >>
      [] shape = "gf2" ->
            LET s1 == SelectSeq(rows, LAMBDA r : r[6] = 1)
                s2 == SelectSeq(rows, LAMBDA r : r[6] = 2)
                one(sid, rs) == <<sid, mk(CSE \o <<t_gene, t_log2>>,
                                          LAMBDA r : Base(r) \o <<SCell(Genes[1]), FloatCell(r[5])>>, rs)>>
            IN (IF s1 = <<>> /\ s2 # <<>> THEN <<>> ELSE <<one(t_S1, s1)>>) \o (IF s2 = <<>> THEN <<>> ELSE <<one(t_S2, s2)>>)
      [] shape = "hs"  -> << <<t_S1, mk(CSE \o <<t_gene, t_gc, t_depth, t_ratio>>,
                                       LAMBDA r : Base(r) \o <<SCell(Genes[1]), FloatCell(r[5]),
                                                               FloatCell((r[5] % Len(Floats)) + 1), FloatCell(r[5])>>, rows)>> >>

VARIABLES cs, rows, ph, srcs, file
vars == <<cs, rows, ph, srcs, file>>
Op == cs[1]
Fmt == cs[2]
Rfmt == cs[3]
Init == /\ cs \in Cases /\ rows \in TablesFor(cs[4]) /\ ph = "call" /\ srcs = <<>> /\ file = <<>>
Call == /\ ph = "call" /\ ph' = "ret" /\ UNCHANGED <<cs, rows>>
        /\ srcs' = MkSrcs(cs[4], rows)
        /\ file' = IF Op \in {"read", "auto"} THEN Render(Layout(Fmt, srcs'))       \* fixture, by the specification
                   ELSE <<>>                                                         \* (writers: nothing to hand over)
Next == Call
Spec == Init /\ [][Next]_vars

(* the record the modelled code would produce for this case *)
One(t) == << <<srcs[1][1], t>> >>
ModelRec ==
    LET wfile == IF Op \in {"read", "auto"} THEN file ELSE ATokens(AWrite(Fmt, srcs))   \* what the modelled writer emits
        base == [op |-> Op, fmt |-> Fmt, rfmt |-> Rfmt, srcs |-> srcs, file |-> wfile, nl |-> TRUE, outs |-> One(EmptyTbl),
                 out2 |-> EmptyTbl, sniffed |-> "", ext |-> <<>>, selk |-> "none", seli |-> 0,
                 id1 |-> <<>>, id2 |-> <<>>, id3 |-> <<>>, err |-> ""]
        rd(L) == ARead(Rfmt, L, "none", 0, <<>>)
    IN CASE Op = "write" -> base
         [] Op = "read"  -> [base EXCEPT !.outs = One(rd(file))]
         [] Op = "auto"  -> [base EXCEPT !.outs = One(rd(file)), !.sniffed = ASniff(file, <<>>),
                                         !.out2 = IF AAutoFmt(file, <<>>) \in ReaderNames        \* else: not recognised
                                                  THEN ARead(AAutoFmt(file, <<>>), file, "none", 0, <<>>) ELSE EmptyTbl]
         [] Op = "rt"    -> LET o1 == rd(wfile)
                                f2 == ATokens(AWrite(Fmt, One(o1)))
                                f3 == ATokens(AWrite(Fmt, One(rd(f2))))
                            IN [base EXCEPT !.outs = One(o1), !.id1 = wfile, !.id2 = f2, !.id3 = f3]
         [] Op = "segrt" -> LET os == [m \in 1..Len(srcs) |-> <<srcs[m][1], Finish(SegPick(wfile, "name", 0, srcs[m][1]), CNA5)>>]
                            IN [base EXCEPT !.outs = os, !.id1 = wfile, !.id2 = ATokens(AWrite("seg", os))]
(* design-level statement: the algorithms as modelled satisfy every clause of the property *)
DesignOK == (ph = "ret" /\ srcs # <<>>) =>
               LET rec == ModelRec IN Premise(rec) => LET v == Verdict(rec) IN \A c \in Clauses(Op) : v[c]
(* the text writer as it was before the repair (start + 1 twice): kept to show the defect in the model *)
DesignOldTextWriter ==
    (ph = "ret" /\ Op = "write" /\ Fmt = "text") =>
        FileMatches(ATokens(WriteTextDoubleShift(srcs[1][2])), Layout("text", srcs))
(* the VCF reader as it was (INFO/END never seen, end = start + len(alt) also for <DEL>) *)
DesignOldVcfEnd ==
    (ph = "ret" /\ Op = "read" /\ Rfmt = "vcf") =>
        CoordsOK(Expect(Fmt, "vcf", srcs, 0), Finish(ReadVcfWith(file, VcfEndAsItWas), CSE \o <<t_ref, t_alt>>))
=============================================================================
