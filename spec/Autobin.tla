--------------------------- MODULE Autobin ---------------------------
(* X03 (extension, part 1) -- bin-size estimation: cnvlib/autobin.py (midsize_file, do_autobin with its closure     *)
(* depth2binsize, hybrid, average_depth, idxstats2ga, sample_region_cov, sample_midsize_regions, shared_chroms,     *)
(* update_chrom_length, region_size_by_chrom, total_region_size) and the BAM helpers it reads through              *)
(* (samutil.idxstats, samutil.get_read_length, coverage.bedcov).                                                    *)
(*                                                                                                                  *)
(* There is no listed property.  P-layer = only what the package documents (docstrings of autobin.py / samutil.py,  *)
(* doc/pipeline.rst section "autobin", the CLI help of `cnvkit.py autobin`, error and log messages); every clause   *)
(* quotes its source.  A-layer = the arithmetic as coded, case for case, as EXACT integers / rationals (limb        *)
(* integers of Num.tla): per-chromosome mean depths, their weighted median (Stats.tla), the quartile selection of   *)
(* "mid-size" regions, bases per region (Coverage.tla: counted reads, CIGAR blocks), the hybrid target/antitarget   *)
(* split, bin size = round-half-even(bp_per_bin / depth) clamped to [min, max].  Verdicts come from the P-layer     *)
(* only; disagreement with the A-layer is MODEL-DRIFT.                                                              *)
(*                                                                                                                  *)
(* Records (one per call of the real code):                                                                         *)
(*  op = "binsize"  do_autobin(method = "hybrid") with cnvlib.autobin.hybrid wrapped by the harness to return a     *)
(*        chosen (target depth, antitarget depth): exercises the closure depth2binsize alone.                      *)
(*        [bpn, bpd, tmin, tmax, amin, amax, depths: <<[tn, td, an, ad, anone]>>, out: <<[ts, as]>>, err]           *)
(*        bp_per_bin = bpn/bpd, target depth tn/td, antitarget depth an/ad (None when anone); one real call per      *)
(*        entry of depths; ts / as = returned bin sizes, -1 for None.                                               *)
(*  op = "midsize"  midsize_file on files of the given sizes: [sizes, out (1-based index of the chosen file, 0       *)
(*        if none), err]                                                                                            *)
(*  op = "autobin"  do_autobin(bam, method, targets, access, bp_per_bin, the four limits):                           *)
(*        [method, src, bpn, bpd, tmin, tmax, amin, amax, contigs: <<<<length, mapped>>>> (BAM header order;       *)
(*         chromosome id = position), rl2 (twice the read length), has_targets, targets: <<<<c, s, e>>>>,           *)
(*         has_access, access: <<<<c, s, e>>>>, tdn, tdd, reads, out: [td, ts, ad, as], big, err]                   *)
(*        src = "table": samutil.idxstats / get_read_length / autobin.sample_region_cov are wrapped by the harness  *)
(*        to return `contigs`, rl2/2 and tdn/tdd -- the arithmetic on exact small tables (direction 1);             *)
(*        src = "bam": a synthetic coordinate-sorted BAM written by pysam from `reads` (Coverage.tla read records   *)
(*        plus qlen); mapped counts, read length and region depths are then DERIVED HERE from the reads.            *)
(*        td / ad = [none, neg, hi, lo] observed depths (Num.FxObs), ts / as = sizes (-1 for None).                 *)
EXTENDS Stats, FiniteSetsExt
Cov == INSTANCE Coverage

NoneSize == -1
NoErr(r) == r.err = ""
ZI(k) == ZFromInt(k)
ZProd(s) == FoldLeft(LAMBDA acc, x : ZMul(acc, x), ZOne, s)
AbTen12 == Z(FALSE, <<0, 0, 0, 1>>)                       \* 10^12
AbTen6 == ZI(1000000)
RECURSIVE MagToNat(_)
MagToNat(m) == IF m = <<>> THEN 0 ELSE m[1] + B * MagToNat(Tail(m))      \* only for values known to be < 2^31
ZToInt(a) == IF a.n THEN 0 - MagToNat(a.m) ELSE MagToNat(a.m)
ObsNone(o) == o.none
ObsZ(o) == FxObs(o)                                        \* observed float * 10^12 as a signed limb integer

(* ================================================================= rounding and clamping ============ *)
(* Python round() of a non-negative rational x/y: to the nearest integer, exact halves to the even neighbour *)
RoundHalfEvenMag(x, y) ==
    LET qr == MagDivMod(x, y)
        q == qr[1]
        c == MagCmp(MagAdd(qr[2], qr[2]), y)
        odd == q # <<>> /\ q[1] % 2 = 1
    IN IF c < 0 THEN q ELSE IF c > 0 \/ odd THEN MagAdd(q, <<1>>) ELSE q
AbRound(n, d) == Z(n.n, RoundHalfEvenMag(n.m, d.m))                                   \* d > 0; round(-x) = -round(x)
AbIsTie(n, d) == LET qr == MagDivMod(n.m, d.m) IN MagCmp(MagAdd(qr[2], qr[2]), d.m) = 0
AbFloorMag(n, d) == MagDivMod(n.m, d.m)[1]
(* the integers the code may return for round(X / Y): the half-even rounding when X / Y is computed exactly in       *)
(* floating point (`exact`: dyadic depth); otherwise the division is rounded first, which can only matter within      *)
(* 10^-6 of an exact half -- there both neighbours are accepted                                                      *)
AbRoundCands(X, Y, exact) ==
    IF exact THEN {AbRound(X, Y)}
    ELSE LET f == Z(X.n, AbFloorMag(X, Y))
             g == Z(X.n, MagAdd(AbFloorMag(X, Y), <<1>>))
             ok(q) == ZLe(ZMul(ZMulInt(ZAbs(ZSub(ZMul(q, Y), X)), 2), AbTen6), ZMul(Y, ZI(1000001)))
         IN {q \in {f, g} : ok(q)}
(* depth2binsize's clamp, in the order the code tests: below min -> min, else above max -> max *)
AbClamp(q, mn, mx) == IF ZLt(q, ZI(mn)) THEN mn ELSE IF ZLt(ZI(mx), q) THEN mx ELSE ZToInt(q)
(* depth2binsize(depth = N/D, min, max) with bp_per_bin = bpn/bpd: the set of admissible returns *)
CodedSizes(bpn, bpd, N, D, mn, mx, exact) ==
    IF ZIsZero(N) THEN {NoneSize}                                                     \* `if not depth: return None`
    ELSE LET X == ZMul(ZI(bpn), D)
             Y == ZMul(ZI(bpd), ZAbs(N))
         IN {AbClamp(IF N.n THEN ZNeg(q) ELSE q, mn, mx) : q \in AbRoundCands(X, Y, exact)}
IsPow2(k) == k \in {1, 2, 4, 8, 16, 32, 64, 128, 256, 512, 1024}

(* ================================================================= P-layer: bin size from depth ============ *)
(* CLI help: "--target-max-size: Maximum size of target bins", "--target-min-size: Minimum size of target bins",     *)
(* "--antitarget-max-size", "--antitarget-min-size"; log messages "Limiting est. bin size %d to given min. %d" /     *)
(* "... to given max. %d"                                                                                           *)
SizeLimitsOK(size, mn, mx) == size # NoneSize => (mn <= size /\ size <= mx)
(* docstring of do_autobin: "bp_per_bin: Desired number of sequencing read nucleotide bases mapped to each bin";     *)
(* CLI help "-b: Desired average number of sequencing read bases mapped to each bin": size * depth aims at           *)
(* bp_per_bin.  X / Y = bp_per_bin / depth.  The direction of rounding is not documented: any integer within 1 of    *)
(* the quotient is admitted, and a size sitting on a limit must be there because the quotient is beyond (or within   *)
(* 1 of) that limit ("Limiting est. bin size ... to given min/max").  `slack` (parts per million of Y) absorbs the   *)
(* 12-digit encoding of an observed depth.                                                                          *)
Near1(size, X, Y, slack) == ZLt(ZMul(ZAbs(ZSub(ZMul(ZI(size), Y), X)), AbTen6), ZMul(Y, ZI(1000000 + slack)))
SizeAimsAtBp(size, X, Y, mn, mx, slack) ==
    size # NoneSize =>
       /\ (mn < size /\ size < mx) => Near1(size, X, Y, slack)
       /\ (size = mn /\ mn < mx) => ZLt(ZMul(X, AbTen6), ZMul(ZMul(ZI(mn + 1), Y), ZI(1000000 + slack)))
       /\ (size = mx /\ mn < mx) => ZLt(ZMul(ZMul(ZI(mx - 1), Y), ZI(1000000 - slack)), ZMul(X, AbTen6))

(* ----- op "binsize" *)
BsX(r, dd) == ZMul(ZI(r.bpn), ZI(dd))
BsY(r, dn) == ZMul(ZI(r.bpd), ZI(dn))
BsN(r) == Len(r.depths)
BsShape(r) == Len(r.out) = BsN(r)
BsLimits(r) == \A k \in 1..BsN(r) :
    /\ r.depths[k].tn > 0 => (r.out[k].ts # NoneSize /\ SizeLimitsOK(r.out[k].ts, r.tmin, r.tmax))
    /\ (~r.depths[k].anone /\ r.depths[k].an > 0) => (r.out[k].as # NoneSize /\ SizeLimitsOK(r.out[k].as, r.amin, r.amax))
BsAims(r) == \A k \in 1..BsN(r) : LET d == r.depths[k] IN
    /\ d.tn > 0 => SizeAimsAtBp(r.out[k].ts, BsX(r, d.td), BsY(r, d.tn), r.tmin, r.tmax, 0)
    /\ (~d.anone /\ d.an > 0) => SizeAimsAtBp(r.out[k].as, BsX(r, d.ad), BsY(r, d.an), r.amin, r.amax, 0)
(* "Desired number of ... bases mapped to each bin" = size * depth held constant: a higher depth never gives a       *)
(* larger bin (same bp_per_bin, same limits)                                                                        *)
BsMonotone(r) == \A i, j \in 1..BsN(r) : LET a == r.depths[i]  b == r.depths[j] IN
    /\ (a.tn > 0 /\ b.tn > 0 /\ a.tn * b.td <= b.tn * a.td) => r.out[i].ts >= r.out[j].ts
    /\ (~a.anone /\ ~b.anone /\ a.an > 0 /\ b.an > 0 /\ a.an * b.ad <= b.an * a.ad) => r.out[i].as >= r.out[j].as
(* do_autobin docstring "Returns ((target depth, target avg. bin size), (antitarget depth, antitarget avg. bin       *)
(* size))"; pipeline.rst "on- and (if relevant) off-target bin sizes": no antitarget depth -> no antitarget size     *)
BsNone(r) == \A k \in 1..BsN(r) : r.depths[k].anone => r.out[k].as = NoneSize
(* A-layer *)
BsCoded(r, k, which) ==
    LET d == r.depths[k] IN
    IF which = "t" THEN CodedSizes(r.bpn, r.bpd, ZI(d.tn), ZI(d.td), r.tmin, r.tmax, IsPow2(d.td) /\ IsPow2(r.bpd))
    ELSE IF d.anone THEN {NoneSize}
    ELSE CodedSizes(r.bpn, r.bpd, ZI(d.an), ZI(d.ad), r.amin, r.amax, IsPow2(d.ad) /\ IsPow2(r.bpd))
BsALayerOut(r) ==        \* one admissible output (the half-even one) for the design check
    [k \in 1..BsN(r) |-> [ts |-> CHOOSE s \in BsCoded(r, k, "t") : TRUE, as |-> CHOOSE s \in BsCoded(r, k, "a") : TRUE]]
BsDrift(r) == ~BsShape(r) \/ \E k \in 1..BsN(r) : r.out[k].ts \notin BsCoded(r, k, "t") \/ r.out[k].as \notin BsCoded(r, k, "a")

(* ================================================================= midsize_file ============ *)
(* docstring: "Select the median-size file from several given filenames.  If an even number of files is given,      *)
(* selects the file just below the median."  -- the file at 0-based rank (n-1) div 2 by size; which of several       *)
(* equally large files is left open.  "No files provided to calculate the median size." (assertion) for none.       *)
MsRankOK(sizes, k) ==
    LET n == Len(sizes)
        below == Cardinality({i \in 1..n : sizes[i] < sizes[k]})
        notabove == Cardinality({i \in 1..n : sizes[i] <= sizes[k]})
    IN below <= (n - 1) \div 2 /\ notabove >= (n - 1) \div 2 + 1
(* A-layer: sorted() is stable, so among equal sizes the earlier argument comes first *)
MsCoded(sizes) ==
    LET n == Len(sizes)
        rank(k) == Cardinality({i \in 1..n : sizes[i] < sizes[k] \/ (sizes[i] = sizes[k] /\ i < k)})
    IN IF n = 0 THEN 0 ELSE CHOOSE k \in 1..n : rank(k) = (n - 1) \div 2

(* ================================================================= do_autobin on tables / BAMs ============ *)
NC(r) == Len(r.contigs)
CLen(r, c) == r.contigs[c][1]
IsBam(r) == r.src = "bam"
MappedVec(r) == Force([c \in 1..NC(r) |->
    IF IsBam(r) THEN Cardinality({k \in 1..Len(r.reads) : r.reads[k].c = c /\ ~r.reads[k].unmap}) ELSE r.contigs[c][2]])
(* samutil.get_read_length: "Get (median) read length from first few reads in a BAM file" (span = 1000, reads with   *)
(* query_length > 0); twice the median so that it stays an integer                                                  *)
Median2Int(s) == LET t == SortSeq(s, LAMBDA a, b : a < b)  n == Len(t) IN
                 IF n % 2 = 1 THEN 2 * t[(n + 1) \div 2] ELSE t[n \div 2] + t[n \div 2 + 1]
ReadLen2(r) ==
    IF ~IsBam(r) THEN r.rl2
    ELSE LET first == SubSeq(r.reads, 1, IntMin(1000, Len(r.reads)))
             ql == SelectSeq([k \in 1..Len(first) |-> first[k].qlen], LAMBDA q : q > 0)
         IN IF ql = <<>> THEN 0 ELSE Median2Int(ql)
RowC(x) == x[1]
RowSize(x) == x[3] - x[2]
ChromOrder(rows) ==         \* .chromosome.drop_duplicates(): order of first appearance
    FoldLeft(LAMBDA acc, x : IF \E i \in 1..Len(acc) : acc[i] = x THEN acc ELSE Append(acc, x), <<>>,
             [k \in 1..Len(rows) |-> RowC(rows[k])])
InSeq(x, s) == \E i \in 1..Len(s) : s[i] = x
RowsOn(rows, cs) == SelectSeq(rows, LAMBDA x : InSeq(RowC(x), cs))
(* total_region_size: "Aggregate area of all genomic ranges in `regions`" -- as coded, the plain sum of end - start  *)
(* (overlapping rows counted twice)                                                                                 *)
SizeOn(rows, c) == ISum([k \in 1..Len(rows) |-> IF RowC(rows[k]) = c THEN RowSize(rows[k]) ELSE 0])
PairwiseDisjoint(rows) == \A i, j \in 1..Len(rows) :
    (i < j /\ RowC(rows[i]) = RowC(rows[j])) => (rows[i][3] <= rows[j][2] \/ rows[j][3] <= rows[i][2])
(* bases of access row a not covered by any target row (access.subtract(targets) keeps, for every access row, the    *)
(* pieces outside the merged targets; sizes add up row by row)                                                      *)
UncovLen(a, tg) ==
    LET on == SelectSeq(tg, LAMBDA t : RowC(t) = RowC(a) /\ t[3] > a[2] /\ t[2] < a[3] /\ t[3] > t[2])
        pts == {a[2], a[3]} \cup UNION {{IntMax(on[j][2], a[2]), IntMin(on[j][3], a[3])} : j \in 1..Len(on)}
        bs == SetToSortSeq(pts, <)
    IN ISum([k \in 1..Len(bs) - 1 |->
               IF \E j \in 1..Len(on) : on[j][2] <= bs[k] /\ bs[k] < on[j][3] THEN 0 ELSE bs[k + 1] - bs[k]])
AntiLenOn(acc, tg, c) == ISum([k \in 1..Len(acc) |-> IF RowC(acc[k]) = c THEN UncovLen(acc[k], tg) ELSE 0])

(* ----- sample_region_cov / sample_midsize_regions / bedcov *)
(* numpy.percentile (linear) of the positive sizes at 25 and 75 percent, times 4 (an integer) *)
Quartile4(t, which) ==      \* t sorted ascending, non-empty; which = 1 (25 %) or 3 (75 %)
    LET n == Len(t)
        num == (n - 1) * which          \* position * 4
        lo == num \div 4
        rem == num % 4
    IN IF rem = 0 THEN 4 * t[lo + 1] ELSE 4 * t[lo + 1] + rem * (t[lo + 2] - t[lo + 1])
PosSizes(rows) == SortSeq(SelectSeq([k \in 1..Len(rows) |-> RowSize(rows[k])], LAMBDA z : z > 0), LAMBDA a, b : a < b)
MidsizeRowsCoded(rows) ==   \* rows whose size lies in [25th, 75th percentile of the positive sizes]
    LET ps == PosSizes(rows)
        lo4 == Quartile4(ps, 1)
        hi4 == Quartile4(ps, 3)
    IN SelectSeq(rows, LAMBDA x : 4 * RowSize(x) >= lo4 /\ 4 * RowSize(x) <= hi4)
(* fb (fallback) = FALSE is the code; fb = TRUE: when no row lies within the quartiles (finding NoMidsizeRegion) every *)
(* row of positive size is sampled instead                                                                           *)
MidsizeRows(rows, fb) ==
    LET ms == MidsizeRowsCoded(rows) IN
    IF fb /\ ms = <<>> THEN SelectSeq(rows, LAMBDA x : RowSize(x) > 0) ELSE ms
(* samtools bedcov: per-base depth summed over the region, reads flagged unmapped / secondary / QC-fail / duplicate  *)
(* excluded, no MAPQ cut-off (min_mapq = 0)  -- Coverage.tla's counted reads and CIGAR blocks                         *)
BasesOf(r, x) == Cov!BasesInBin(r.reads, RowC(x), x[2], x[3], 0)
(* "Mean read depth across all sampled regions": <<bases, area>> *)
SampleDepth(r, rows, fb) ==
    LET ms == MidsizeRows(rows, fb) IN
    <<ISum([k \in 1..Len(ms) |-> BasesOf(r, ms[k])]), ISum([k \in 1..Len(ms) |-> RowSize(ms[k])])>>
SampleFails(rows, fb) == PosSizes(rows) = <<>> \/ MidsizeRows(rows, fb) = <<>>    \* np.percentile of nothing / empty BED
SampleUnmodelled(rows, fb) == ~SampleFails(rows, fb) /\ Len(MidsizeRows(rows, fb)) > 100  \* `.sample(max_num, random_state)`

(* ----- weighted median of per-chromosome rationals Ns[k] / Ds[k] with weights Ws[k]: over a common denominator      *)
(* (values doubled so that the midpoint of two of them is an integer); result <<numerator set, denominator>>          *)
WMedScaled(Ns, Ds) ==
    LET m == Len(Ns) IN
    Force([k \in 1..m |-> ZMulInt(ZMul(Ns[k], ZProd([j \in 1..m |-> IF j = k THEN ZOne ELSE Ds[j]])), 2)])
WMedDen(Ds) == ZMulInt(ZProd(Ds), 2)
WMedCoded(Ns, Ds, Ws) == <<WeightedMedian(WMedScaled(Ns, Ds), Ws), WMedDen(Ds)>>
WMedAdmissible(Ns, Ds, Ws) == {<<v, WMedDen(Ds)>> : v \in WMedianCandidates(WMedScaled(Ns, Ds), Ws)}

(* observed float o against the rational N / D (D > 0): |o - N/D| <= 2 * 10^-9 * max(1, |N/D|) *)
CloseRat(o, N, D) == ~ObsNone(o) /\
    ZLe(ZAbs(ZSub(ZMul(ObsZ(o), D), ZMul(N, AbTen12))), ZMulInt(ZMax(D, ZAbs(N)), 2000))
CloseAny(o, cands) == \E q \in cands : CloseRat(o, q[1], q[2])

(* ----- the whole computation as coded; result record                                                            *)
(*   [err, td: <<N, D>>, tnone?, ad: <<N, D>>, anone, tfree (target depth not modelled: sampled subset)]            *)
RcChroms(r, mp) == SelectSeq([c \in 1..NC(r) |-> c], LAMBDA c : mp[c] > 0)   \* idxstats(drop_unmapped=True), header order
NeedsTargets(r) == r.method \in {"amplicon", "hybrid"}
TargetsMissing(r) == NeedsTargets(r) /\ (~r.has_targets \/ r.targets = <<>>)
TargetsOffBam(r, rows) == IsBam(r) /\ \E k \in 1..Len(rows) : RowC(rows[k]) > NC(r)  \* bedcov: unknown reference name
(* target depth over `rows`: supplied (src = table), derived from the reads, or -- sampled subset -- the observed one *)
TargetDepth(r, rows, fb) ==
    IF ~IsBam(r) THEN <<ZI(r.tdn), ZI(r.tdd)>>
    ELSE IF SampleUnmodelled(rows, fb) THEN <<ObsZ(r.out.td), AbTen12>>
    ELSE LET sd == SampleDepth(r, rows, fb) IN <<ZI(sd[1]), ZI(sd[2])>>
ErrResult == [err |-> TRUE, td |-> <<ZZero, ZOne>>, ad |-> <<ZZero, ZOne>>, anone |-> TRUE]
WgsCoded(r, mp, rl2) ==
    LET rc == RcChroms(r, mp)
        useacc == r.has_access /\ r.access # <<>>
        achr == ChromOrder(r.access)
        rows == IF useacc THEN SelectSeq(rc, LAMBDA c : InSeq(c, achr)) ELSE rc       \* merge(how="inner")
        len(c) == IF useacc THEN SizeOn(r.access, c) ELSE CLen(r, c)
        Ns == Force([k \in 1..Len(rows) |-> ZI(rl2 * mp[rows[k]])])
        Ds == Force([k \in 1..Len(rows) |-> ZI(2 * len(rows[k]))])
        Ws == Force([k \in 1..Len(rows) |-> ZI(len(rows[k]))])
    IN IF rows = <<>> \/ rl2 = 0 \/ \E k \in 1..Len(rows) : len(rows[k]) <= 0 THEN ErrResult
       ELSE [err |-> FALSE, td |-> WMedCoded(Ns, Ds, Ws), ad |-> <<ZZero, ZOne>>, anone |-> TRUE]
AmpliconCoded(r, fb) ==
    IF (IsBam(r) /\ SampleFails(r.targets, fb)) \/ TargetsOffBam(r, r.targets) THEN ErrResult
    ELSE [err |-> FALSE, td |-> TargetDepth(r, r.targets, fb), ad |-> <<ZZero, ZOne>>, anone |-> TRUE]
(* hybrid(): byname = FALSE is the code (captured reads paired with chromosomes BY POSITION: i-th chromosome of the   *)
(* targets table against the i-th remaining row of the idxstats table); byname = TRUE pairs them by chromosome        *)
HybridParts(r, mp) ==
    LET rc == RcChroms(r, mp)
        acc == IF r.has_access THEN r.access ELSE [k \in 1..Len(rc) |-> <<rc[k], 0, CLen(r, rc[k])>>]
        tchr == ChromOrder(r.targets)
        shared == SelectSeq(rc, LAMBDA c : InSeq(c, tchr) /\ AntiLenOn(acc, r.targets, c) > 0)
        tg == RowsOn(r.targets, shared)
    IN [rc |-> rc, acc |-> acc, shared |-> shared, tg |-> tg, torder |-> ChromOrder(tg),
        namesdisjoint |-> ~r.has_access /\ rc # <<>> /\ \A k \in 1..Len(tchr) : ~InSeq(tchr[k], rc)]
HybridAnti(r, mp, rl2, hp, T, byname) ==     \* T = <<Tn, Td>>; returns <<Ns, Ds, Ws>> per remaining chromosome
    LET sh == hp.shared
        tlen(k) == SizeOn(hp.tg, IF byname THEN sh[k] ELSE hp.torder[k])
        alen(k) == AntiLenOn(hp.acc, r.targets, sh[k])
    IN <<Force([k \in 1..Len(sh) |-> ZSub(ZMul(ZI(rl2 * mp[sh[k]]), T[2]), ZMul(ZI(2 * tlen(k)), T[1]))]),
         Force([k \in 1..Len(sh) |-> ZMul(ZI(2 * alen(k)), T[2])]),
         Force([k \in 1..Len(sh) |-> ZI(alen(k))])>>
HybridCoded(r, mp, rl2, byname, fb) ==
    LET hp == HybridParts(r, mp) IN
    IF hp.namesdisjoint \/ hp.shared = <<>> \/ rl2 = 0 \/ (IsBam(r) /\ SampleFails(hp.tg, fb)) \/ TargetsOffBam(r, hp.tg)
    THEN ErrResult
    ELSE LET T == TargetDepth(r, hp.tg, fb)
             a == HybridAnti(r, mp, rl2, hp, T, byname)
         IN [err |-> FALSE, td |-> T, ad |-> WMedCoded(a[1], a[2], a[3]), anone |-> FALSE]
AutobinCoded(r, byname, fb) ==
    LET mp == MappedVec(r)
        rl2 == ReadLen2(r)
    IN IF TargetsMissing(r) THEN ErrResult
       ELSE IF r.method = "wgs" THEN WgsCoded(r, mp, rl2)
       ELSE IF r.method = "amplicon" THEN AmpliconCoded(r, fb)
       ELSE HybridCoded(r, mp, rl2, byname, fb)
(* bin sizes the code may return for a coded depth N / D (a float division chain: near-ties accepted both ways) *)
(* a depth that is exactly 0 as a rational (every mapped read captured) comes out of the float chain as 0 or as a     *)
(* rounding residue of either sign: None, or the limit on that side                                                 *)
SizesFor(r, q, none, mn, mx) == IF none THEN {NoneSize}
                                ELSE IF ZIsZero(q[1]) THEN {NoneSize, mn, mx}
                                ELSE CodedSizes(r.bpn, r.bpd, q[1], q[2], mn, mx, FALSE)
(* does the recorded output agree with the coded computation? *)
DepthAgrees(o, q, none) == IF none THEN ObsNone(o) ELSE CloseRat(o, q[1], q[2])
AutobinAgrees(r, byname, fb) ==
    LET a == AutobinCoded(r, byname, fb) IN
    IF a.err THEN ~NoErr(r)
    ELSE /\ NoErr(r)
         /\ DepthAgrees(r.out.td, a.td, FALSE) /\ r.out.ts \in SizesFor(r, a.td, FALSE, r.tmin, r.tmax)
         /\ DepthAgrees(r.out.ad, a.ad, a.anone) /\ r.out.as \in SizesFor(r, a.ad, a.anone, r.amin, r.amax)

(* ----- P-layer clauses of op "autobin" *)
(* sizes against the depths the call itself returned (limits, aim at bp_per_bin) *)
ObsX(r) == ZMul(ZI(r.bpn), AbTen12)
ObsY(r, o) == ZMul(ZI(r.bpd), ObsZ(o))
ObsPositive(o) == ~ObsNone(o) /\ ZSign(ObsZ(o)) > 0
AbSizesFromDepths(r) ==
    /\ ObsPositive(r.out.td) => /\ r.out.ts # NoneSize /\ SizeLimitsOK(r.out.ts, r.tmin, r.tmax)
                                /\ SizeAimsAtBp(r.out.ts, ObsX(r), ObsY(r, r.out.td), r.tmin, r.tmax, 10)
    /\ ObsPositive(r.out.ad) => /\ r.out.as # NoneSize /\ SizeLimitsOK(r.out.as, r.amin, r.amax)
                                /\ SizeAimsAtBp(r.out.as, ObsX(r), ObsY(r, r.out.ad), r.amin, r.amax, 10)
(* pipeline.rst: "estimate reasonable on- and (if relevant) off-target bin sizes"; the code's own "# No antitargets   *)
(* for wgs, amplicon": only hybrid capture has an off-target depth and size                                         *)
AbNoAntitarget(r) == r.method \in {"wgs", "amplicon"} => (ObsNone(r.out.ad) /\ r.out.as = NoneSize)
(* average_depth docstring: "Median of the per-chromosome mean read depths, weighted by chromosome size";            *)
(* idxstats docstring: "Contigs with no mapped reads are skipped"; read depth of a chromosome = read length *       *)
(* mapped reads / length.  Judged for wgs without an access table, where "chromosome size" is the contig length.    *)
AbWgsDepth(r) ==
    (r.method = "wgs" /\ (~r.has_access \/ r.access = <<>>)) =>
        LET mp == MappedVec(r)
            rl2 == ReadLen2(r)
            rc == RcChroms(r, mp)
            Ns == Force([k \in 1..Len(rc) |-> ZI(rl2 * mp[rc[k]])])
            Ds == Force([k \in 1..Len(rc) |-> ZI(2 * CLen(r, rc[k]))])
            Ws == Force([k \in 1..Len(rc) |-> ZI(CLen(r, rc[k]))])
        IN CloseAny(r.out.td, WMedAdmissible(Ns, Ds, Ws))
(* sample_region_cov: "Calculate read depth in a randomly sampled subset of regions" / "Mean read depth across all   *)
(* sampled regions"; pipeline.rst: "random sampling of targeted regions (-t) is used to estimate average on-target   *)
(* read depth".  Which regions are sampled is not documented: the pooled mean depth of ANY non-empty subset lies     *)
(* between the smallest and the largest per-region mean depth.  (BAM-backed records.)                                *)
AbTargetDepthRange(r) ==
    (IsBam(r) /\ NeedsTargets(r)) =>
        LET pos == SelectSeq(r.targets, LAMBDA x : RowSize(x) > 0 /\ RowC(x) <= NC(r))
            bs == Force([k \in 1..Len(pos) |-> BasesOf(r, pos[k])])
            ov == ObsZ(r.out.td)
            tol(k) == ZI(2000 * RowSize(pos[k]))       \* 2 * 10^-9 in units of 10^-12 * size
        IN /\ ~ObsNone(r.out.td)
           /\ \E k \in 1..Len(pos) : ZLe(ZMul(ZI(bs[k]), AbTen12), ZAdd(ZMulInt(ov, RowSize(pos[k])), tol(k)))
           /\ \E k \in 1..Len(pos) : ZLe(ZMulInt(ov, RowSize(pos[k])), ZAdd(ZMul(ZI(bs[k]), AbTen12), tol(k)))
(* hybrid(): "# Identify off-target regions" (access minus targets; the whole contigs with mapped reads when no       *)
(* access table is given), "# Only examine chromosomes present in all 2-3 input datasets", "# Antitargets: subtract  *)
(* captured reads from total" (captured reads of a chromosome = its target length * target depth / read length),    *)
(* then average_depth ("median of the per-chromosome mean read depths, weighted by chromosome size") over the        *)
(* off-target sizes.  Each chromosome's own captured reads are subtracted from that chromosome's total.  Judged     *)
(* with the target depth the call itself returned, on tables whose rows do not overlap (area unambiguous).           *)
AbHybridAnti(r) ==
    (r.method = "hybrid" /\ PairwiseDisjoint(r.targets) /\ PairwiseDisjoint(r.access)) =>
        LET mp == MappedVec(r)
            hp == HybridParts(r, mp)
            a == HybridAnti(r, mp, ReadLen2(r), hp, <<ObsZ(r.out.td), AbTen12>>, TRUE)
        IN ~ObsNone(r.out.td) /\ CloseAny(r.out.ad, WMedAdmissible(a[1], a[2], a[3]))
(* "Target regions are required for method %r but were not provided." *)
AbRequiresTargets(r) == TargetsMissing(r) => ~NoErr(r)

(* ================================================================= clauses ============ *)
Clauses(op) ==
    CASE op = "binsize" -> {"bs_noerr", "bs_within_limits", "bs_aims_at_bp_per_bin", "bs_higher_depth_smaller_bin",
                            "bs_no_depth_no_size"}
      [] op = "midsize" -> {"ms_median_size_file", "ms_none_rejected"}
      [] op = "autobin" -> {"ab_noerr", "ab_requires_targets", "ab_sizes_from_depths", "ab_no_antitarget",
                            "ab_wgs_depth", "ab_target_depth_range", "ab_hybrid_anti_depth"}
      [] OTHER -> {}
Runs(r) == r.op = "autobin" /\ ~TargetsMissing(r)
Holds(c, r) ==
    CASE c = "bs_noerr" -> NoErr(r) /\ BsShape(r)
      [] c = "bs_within_limits" -> (NoErr(r) /\ BsShape(r)) => BsLimits(r)
      [] c = "bs_aims_at_bp_per_bin" -> (NoErr(r) /\ BsShape(r)) => BsAims(r)
      [] c = "bs_higher_depth_smaller_bin" -> (NoErr(r) /\ BsShape(r)) => BsMonotone(r)
      [] c = "bs_no_depth_no_size" -> (NoErr(r) /\ BsShape(r)) => BsNone(r)
      [] c = "ms_median_size_file" -> Len(r.sizes) > 0 => (NoErr(r) /\ r.out \in 1..Len(r.sizes) /\ MsRankOK(r.sizes, r.out))
      [] c = "ms_none_rejected" -> Len(r.sizes) = 0 => ~NoErr(r)
      [] c = "ab_noerr" -> Runs(r) => NoErr(r)
      [] c = "ab_requires_targets" -> AbRequiresTargets(r)
      [] c = "ab_sizes_from_depths" -> (Runs(r) /\ NoErr(r)) => AbSizesFromDepths(r)
      [] c = "ab_no_antitarget" -> (Runs(r) /\ NoErr(r)) => AbNoAntitarget(r)
      [] c = "ab_wgs_depth" -> (Runs(r) /\ NoErr(r)) => AbWgsDepth(r)
      [] c = "ab_target_depth_range" -> (Runs(r) /\ NoErr(r)) => AbTargetDepthRange(r)
      [] c = "ab_hybrid_anti_depth" -> (Runs(r) /\ NoErr(r)) => AbHybridAnti(r)

(* ================================================================= premise ============ *)
(* binsize: positive bp_per_bin, min <= max (both pairs), non-negative depths.  autobin: the same limits; some       *)
(* contig has mapped reads and a read length; wgs with an access table shares a chromosome with the BAM; target and   *)
(* access rows lie on contigs of the BAM inside their bounds with start <= end; at least one target of positive      *)
(* size; hybrid: some chromosome is present in the BAM (with reads), the targets and the off-target regions.         *)
RowsOnBam(r, rows) == \A k \in 1..Len(rows) : /\ RowC(rows[k]) \in 1..NC(r)
                                               /\ 0 <= rows[k][2] /\ rows[k][2] <= rows[k][3] /\ rows[k][3] <= CLen(r, RowC(rows[k]))
LimitsSane(r) == r.bpn > 0 /\ r.bpd > 0 /\ 0 <= r.tmin /\ r.tmin <= r.tmax /\ 0 <= r.amin /\ r.amin <= r.amax
Premise(r) ==
    CASE r.op = "binsize" -> /\ LimitsSane(r)
                             /\ \A k \in 1..BsN(r) : LET d == r.depths[k] IN d.tn >= 0 /\ d.td > 0 /\ (~d.anone => (d.an >= 0 /\ d.ad > 0))
      [] r.op = "midsize" -> TRUE
      [] r.op = "autobin" ->
            LET mp == MappedVec(r) IN
            /\ LimitsSane(r) /\ ~r.big            \* big: a returned depth beyond the 12-digit encoding (|x| >= 2000)
            /\ RcChroms(r, mp) # <<>> /\ ReadLen2(r) > 0
            /\ RowsOnBam(r, r.targets) /\ RowsOnBam(r, r.access)
            /\ (r.method = "wgs" /\ r.has_access /\ r.access # <<>>) =>
                   \E k \in 1..Len(r.access) : mp[RowC(r.access[k])] > 0 /\ RowSize(r.access[k]) > 0
            /\ (NeedsTargets(r) /\ ~TargetsMissing(r)) => \E k \in 1..Len(r.targets) : RowSize(r.targets[k]) > 0
            /\ (r.method = "hybrid" /\ ~TargetsMissing(r)) =>
                   LET hp == HybridParts(r, mp) IN
                   /\ hp.shared # <<>>
                   /\ \E k \in 1..Len(hp.tg) : RowSize(hp.tg[k]) > 0
                   /\ r.has_access => r.access # <<>>
      [] OTHER -> FALSE

(* ================================================================= drift ============ *)
(* the recorded output differs from the code's arithmetic as modelled -- with and without the two findings repaired  *)
(* (captured reads paired by position / by chromosome name; no / all positive-size regions sampled when none lies    *)
(* within the quartiles), so that a repair of either does not show up as drift                                       *)
Drift(r) ==
    CASE r.op = "binsize" -> NoErr(r) /\ BsDrift(r)
      [] r.op = "midsize" -> NoErr(r) /\ r.out # MsCoded(r.sizes)
      [] r.op = "autobin" -> /\ ~AutobinAgrees(r, FALSE, FALSE) /\ ~AutobinAgrees(r, TRUE, FALSE)
                             /\ ~AutobinAgrees(r, FALSE, TRUE) /\ ~AutobinAgrees(r, TRUE, TRUE)
      [] OTHER -> FALSE

(* ================================================================= known-finding triggers ============ *)
(* HybridChromOrder: the chromosomes shared by BAM, targets and off-target regions appear in the targets table in    *)
(*   another order than in the BAM header (e.g. header chr1, chr10, chr2 -- targets sorted chr1, chr2, chr10)          *)
(* NoMidsizeRegion: no target of positive size lies within the inter-quartile range of the target sizes (exactly two  *)
(*   targets of different sizes): the sampled BED is empty                                                           *)
KnownTriggers == {"HybridChromOrder", "NoMidsizeRegion"}
TriggerHolds(t, r) ==
    CASE t = "HybridChromOrder" ->
            r.op = "autobin" /\ r.method = "hybrid" /\ ~TargetsMissing(r) /\
            LET hp == HybridParts(r, MappedVec(r)) IN hp.torder # hp.shared
      [] t = "NoMidsizeRegion" ->
            r.op = "autobin" /\ IsBam(r) /\ NeedsTargets(r) /\ ~TargetsMissing(r) /\
            LET rows == IF r.method = "hybrid" THEN HybridParts(r, MappedVec(r)).tg ELSE r.targets
            IN PosSizes(rows) # <<>> /\ MidsizeRowsCoded(rows) = <<>>
      [] OTHER -> FALSE
=============================================================================
