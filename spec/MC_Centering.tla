--------------------------- MODULE MC_Centering ---------------------------
(* Design check + enumerator for C15: every input of a small scope, one step computing the A-layer result           *)
(* (Centering.CtACenter / CtAShiftXX / CtAFlat: cnary.py statement by statement); invariant DesignOK = every         *)
(* P-layer clause holds on it.  The dump of this run is replayed into the real cnvlib (direction 1).                 *)
(*   Fam = "center"   center_all: all tables of 1..MaxRows rows over Tags x Vals (x depth 0 or not) x estimator in    *)
(*                    Ests x by_chrom x skip_low x PAR genome in {none, Build} x naming.  The estimator is concrete   *)
(*                    here (Stats.Median / Mean / BiweightLocation); the mode is uninterpreted and not enumerated.    *)
(*   Fam = "sexgrid"  shift_xx and expect_flat_log2: all tables of 1..MaxRows rows over Tags x Vals x reference sex   *)
(*                    x is_xx x PAR genome (expect_flat_log2: all three, also the build the coordinates do not come    *)
(*                    from; shift_xx: none -- the claim does not range over a genome there) x naming                  *)
(* Row kinds (Tags) sit on the boundaries: autosomes, X outside PAR, X exactly PAR1/PAR2 (XP1, XP2), one base beyond   *)
(* either end (..lo, ..hi), strictly inside (XP1in), the same on Y, another contig (MT).  Vals are log2 in 1/Unit:    *)
(* -961 / -960 are one grid step below / exactly at the null-coverage cut-off -15 (Unit = 64).                        *)
EXTENDS Centering
CONSTANTS Fam, Build, MaxRows, Ests, Tags, Vals, Depth, ShiftWithGenome

P == K!ParOf(Build)
Coord(tag) ==
    CASE tag = "A1"    -> <<1, "", 100, 200>>
      [] tag = "A2"    -> <<2, "", 300, 500>>
      [] tag = "XN"    -> <<-1, "X", 5000000, 5000100>>
      [] tag = "XP1"   -> <<-1, "X", P.PAR1X[1], P.PAR1X[2]>>
      [] tag = "XP1lo" -> <<-1, "X", P.PAR1X[1] - 1, P.PAR1X[1] + 100>>
      [] tag = "XP1hi" -> <<-1, "X", P.PAR1X[2] - 100, P.PAR1X[2] + 1>>
      [] tag = "XP1in" -> <<-1, "X", P.PAR1X[1] + 1, P.PAR1X[1] + 100>>
      [] tag = "XP2"   -> <<-1, "X", P.PAR2X[1], P.PAR2X[2]>>
      [] tag = "XP2lo" -> <<-1, "X", P.PAR2X[1] - 1, P.PAR2X[2]>>
      [] tag = "XP2hi" -> <<-1, "X", P.PAR2X[1], P.PAR2X[2] + 1>>
      [] tag = "Y"     -> <<-1, "Y", 20000000, 20000100>>
      [] tag = "YP1"   -> <<-1, "Y", P.PAR1Y[1], P.PAR1Y[2]>>
      [] tag = "YP1lo" -> <<-1, "Y", P.PAR1Y[1] - 1, P.PAR1Y[2]>>
      [] tag = "YP1hi" -> <<-1, "Y", P.PAR1Y[1], P.PAR1Y[2] + 1>>
      [] tag = "YP2"   -> <<-1, "Y", P.PAR2Y[1], P.PAR2Y[2]>>
      [] tag = "YP2hi" -> <<-1, "Y", P.PAR2Y[2] - 100, P.PAR2Y[2] + 1>>
      [] tag = "O"     -> <<-1, "MT", 100, 200>>

(* a TLC configuration file cannot hold negative numbers: Vals are given as value + ValOffset *)
ValOffset == 2000
RowKinds == {<<t, v - ValOffset, d>> : t \in Tags, v \in Vals, d \in (IF Depth THEN {0, 1} ELSE {0})}
Tables == UNION {[1..n -> RowKinds] : n \in 1..MaxRows}
Resolve(tab) == [i \in 1..Len(tab) |-> LET c == Coord(tab[i][1]) IN <<c[1], c[2], c[3], c[4], tab[i][2], tab[i][3]>>]

VARIABLES op, pfx, genome, bychrom, skiplow, hasdepth, hapx, isxx, unit, tab, rows, ph
vars == <<op, pfx, genome, bychrom, skiplow, hasdepth, hapx, isxx, unit, tab, rows, ph>>

Choose ==
    \/ /\ Fam = "center"
       /\ op \in {"center." \o e : e \in Ests}
       /\ genome \in {"none", Build}
       /\ bychrom \in BOOLEAN /\ skiplow \in BOOLEAN
       /\ hasdepth = Depth /\ hapx = FALSE /\ isxx = FALSE /\ unit = 64
    \/ /\ Fam = "sexgrid"
       /\ op \in {"shiftxx", "flat"}
       /\ genome \in (IF op = "shiftxx" /\ ~ShiftWithGenome THEN {"none"} ELSE K!Genomes)
       /\ hapx \in BOOLEAN
       /\ isxx \in (IF op = "shiftxx" THEN BOOLEAN ELSE {FALSE})
       /\ bychrom = TRUE /\ skiplow = FALSE /\ hasdepth = FALSE /\ unit = 1024
Init == Choose /\ pfx \in K!Prefixes /\ tab \in Tables /\ rows = <<>> /\ ph = "call"
Call == /\ ph = "call" /\ ph' = "ret"
        /\ rows' = Resolve(tab)
        /\ UNCHANGED <<op, pfx, genome, bychrom, skiplow, hasdepth, hapx, isxx, unit, tab>>
Next == Call
Spec == Init /\ [][Next]_vars

(* the record the A-layer produces for the enumerated input *)
Col(j) == [i \in 1..Len(rows) |-> rows[i][j]]
BaseRec ==
    LET k == Col(5) IN
    [op |-> op, pfx |-> pfx, genome |-> genome, bn |-> Col(1), bs |-> Col(2), s |-> Col(3), e |-> Col(4),
     hasdepth |-> hasdepth, dz |-> [i \in 1..Len(rows) |-> rows[i][6] = 1], U |-> unit, k |-> k,
     x |-> IF Fam = "center" THEN FxSeqOfGrid(k, unit) ELSE <<>>,
     bychrom |-> bychrom, skiplow |-> skiplow, hapx |-> hapx, isxx |-> isxx,
     female |-> FALSE, withy |-> FALSE, usew |-> FALSE, sdm |-> 0, nx |-> 0, sseed |-> 0, w |-> <<>>, cli |-> FALSE,
     out |-> <<>>, nout |-> 0, outnan |-> FALSE, err |-> "", digin |-> "d", digout |-> "d", log |-> <<>>, relog |-> <<>>,
     so |-> <<>>, soff |-> 0, fo |-> <<>>, foff |-> 0, guess |-> "", dosex |-> "", clisex |-> ""]
ARec ==
    LET b == BaseRec IN
    IF Fam = "center" THEN
        LET fn == CtFn(b)
            est(j, args) == CtEstimate(fn, args)
            a == CtACenter(b, b.x, est)
            out == CtForce([i \in 1..Len(b.x) |-> ZAdd(b.x[i], a.shift)])
            again == CtACenter(b, out, est)            \* the same functions on the same rows of the result
            enc(calls) == [j \in 1..Len(calls) |-> [fn |-> fn, args |-> calls[j].args, res |-> calls[j].res, nan |-> FALSE]]
            logged == CtEst(b) # "default"
        IN [b EXCEPT !.out = out, !.nout = Len(out), !.log = IF logged THEN enc(a.calls) ELSE <<>>,
                     !.relog = IF logged THEN enc(again.calls) ELSE <<>>]
    ELSE IF op = "shiftxx" THEN [b EXCEPT !.so = CtForce(CtAShiftXX(b, isxx))]
    ELSE [b EXCEPT !.fo = CtForce(CtAFlat(b))]

(* design-level statement: the algorithm as the code has it satisfies every clause of the property *)
DesignOK == ph = "ret" => LET r == ARec IN Premise(r) => \A c \in Clauses(op) : Holds(c, r)
(* Not part of the check (ShiftWithGenome = TRUE enumerates shift_xx with a genome; the claim's premise is dropped):    *)
(* violated by exactly the inputs of Centering.CtShiftXXMovesParX -- smallest: one row chrX:10001-10100 (inside PAR1X   *)
(* of grch38), shift_xx(False, False, "grch38") moves it by +1.                                                         *)
DesignShiftXXWithGenome ==
    (ph = "ret" /\ op = "shiftxx") => LET r == ARec IN
        (\A c \in Clauses(op) : Holds(c, r)) \/ CtShiftXXMovesParX(r)
DesignShiftXXWithGenomeStrict ==
    (ph = "ret" /\ op = "shiftxx") => LET r == ARec IN \A c \in Clauses(op) : Holds(c, r)
=============================================================================
