--------------------------- MODULE Centering ---------------------------
(* C15 -- "Centring is a uniform shift zeroing the autosomes; sample sex is inferred right".                       *)
(* cnvlib/cnary.py: center_all, drop_low_coverage, autosomes (+ skgenome/gary.py autosomes), shift_xx, guess_xx,      *)
(* compare_sex_chromosomes, expect_flat_log2;  cnvlib/commands.py: do_sex.                                            *)
(*                                                                                                                  *)
(* Two layers.  P-layer (Ct...P, Holds): the property as stated, declaratively (sets of rows).  A-layer (CtA...):     *)
(* the code's steps, row by row, one operator per statement / branch of the code.  The estimator inside center_all   *)
(* is a LOGGED ABSTRACT FUNCTION (DESIGN 3.2): every call of it during center_all is recorded (function name,        *)
(* argument values, result); TLC verifies the orchestration around it exactly, and separately recomputes the         *)
(* estimator itself for median / mean (Stats.Median / Mean, exact on the dyadic grid) and the biweight location      *)
(* (Stats, fixed point).  The mode (Gaussian KDE) is not recomputed (DESIGN 9); its zero is checked by re-applying   *)
(* the logged function.  Sex inference (Mood's median test) is not modelled either: TLC states the scenario premise  *)
(* and the expected outcome and judges the recorded outcome of a seeded ensemble (DESIGN 6, statistical clauses).    *)
(*                                                                                                                  *)
(* Record r (one call of the real code; every field present in every record):                                        *)
(*   op        "center.<est>" (est: median, mean, biweight, mode, default = no estimator argument) | "shiftxx" |      *)
(*             "flat" | "sex" (scenario without a PAR genome) | "sex.par" (scenario with one: shift_xx not called)    *)
(*   pfx       naming style of the whole table, "chr" or ""        genome   "none" | "grch37" | "grch38"             *)
(*   bn, bs    chromosome name of row i: pfx \o ToString(bn[i]) when bn[i] >= 0 ("named like an autosome":           *)
(*             (chr)?[0-9]+), else pfx \o bs[i] with bs[i] in CtOtherNames (bn[i] = -1)                               *)
(*   s, e      start, end                  hasdepth, dz    a depth column exists; dz[i]: its value is 0               *)
(*   U, k      log2 of row i = k[i] / U    (ops shiftxx, flat, sex; U = 1024)                                         *)
(*   x         log2 of row i as fixed point (Num.Z of value * 10^12; op center; values on the 1/64 grid)              *)
(*   center:   bychrom, skiplow;  out = log2 after the call (Num.Z), nout = rows after, outnan, err,                  *)
(*             digin / digout = digest of every other column (and the column list) before / after,                    *)
(*             log   = the estimator calls made during center_all, in order: [fn, args, res, nan]                     *)
(*             relog = the same functions re-applied by the harness to the result: for each logged first-level call   *)
(*                     the function on the new values of the same rows, then (by_chrom) on those results              *)
(*   shiftxx:  hapx (is_haploid_x_reference), isxx;   so = floor(log2 after * U), soff = number of values off grid    *)
(*   flat:     hapx;   fo = floor(expect_flat_log2 * U), foff                                                         *)
(*   sex:      scenario female, hapx, withy, usew, sdm (noise sd in 1/1000), nx, sseed, w (weights k/64 or <<>>);     *)
(*             guess ("female" | "male" | "none" | other), dosex (the `sex` column of do_sex), cli, clisex            *)
(*             (`cnvkit.py sex` run in-process on the written file), so / soff (shift_xx with is_xx=None), fo / foff  *)
(* Scope of the PAR genome (the property's quantifier): it ranges over centring ("every estimator x by_chrom x        *)
(* skip_low x PAR genome"); the sex part does not range over it.  shift_xx is therefore judged only when no           *)
(* diploid_parx_genome is passed to it (premise of "shiftxx"; "sex.par" scenarios do not call it).  expect_flat_log2   *)
(* is judged with and without a genome.  The A-layer models shift_xx as the code is (mask = every row named X,        *)
(* genome or not); CtShiftXXMovesParX below records what that does to PAR-X bins -- outside the claim.                *)
EXTENDS Stats, FiniteSetsExt
K == INSTANCE Karyotype      \* (its `Prefixes` clashes with SequencesExt.Prefixes, hence a named instance)

CtEstimators == {"median", "mean", "biweight", "mode", "default"}
CtCenterOps == {"center." \o e : e \in CtEstimators}
CtOtherNames == {"X", "Y", "M", "MT", "Un", "I", "II", "III", "IV", "2L", "2R", "3L", "6_random", "Un_gl000211",
                 "scaffold_12", "EBV"}
CtEst(r) == CHOOSE e \in CtEstimators : r.op = ("center." \o e)
(* the function center_all documents for each estimator name (pd.Series.median / mean, cnvlib.descriptives) *)
CtFn(r) == IF CtEst(r) = "default" THEN "median" ELSE CtEst(r)
CtExact(r) == CtFn(r) = "median"                \* "exact on the grid for median"
CtTol9 == FxTol9                                \* "<= 10^-9 otherwise"
CtTolBw == FxFromRat(2, 1000)                   \* biweight: its own stopping radius, twice (DESIGN 8 C15)
CtTol6 == FxTol6
CtForce(s) == s \o <<>>                         \* materialise a lazily evaluated function-as-sequence once

CtN(r) == Len(r.bn)
CtBase(r, i) == IF r.bn[i] >= 0 THEN ToString(r.bn[i]) ELSE r.bs[i]
CtKey(r, i) == <<r.bn[i], r.bs[i]>>
CtClass(r, i) == K!Class(CtBase(r, i), r.s[i], r.e[i], r.genome)           \* Karyotype: auto / X / Y / PARX / PARY
CtIsAutoName(r, i) == r.bn[i] >= 0
CtAscending(S) == SortSeq(SetToSeq(S), LAMBDA a, b : a < b)
CtSameMultiset(a, b) ==
    \/ a = b
    \/ /\ Len(a) = Len(b)
       /\ \A v \in {a[i] : i \in 1..Len(a)} :
             Cardinality({i \in 1..Len(a) : a[i] = v}) = Cardinality({i \in 1..Len(b) : b[i] = v})
CtApprox(r, a, b) == IF CtExact(r) THEN a = b ELSE FxCloseAbs(a, b, CtTol9)
CtAt(vals, idx) == CtForce([t \in 1..Len(idx) |-> vals[idx[t]]])

(* ================================================================ P-layer: which bins are "the autosomal bins" *)
(* "optionally ignoring null-coverage bins": drop_low_coverage's definition -- log2 below                           *)
(* params.NULL_LOG2_COVERAGE - params.MIN_REF_COVERAGE = -20 - (-5) = -15, or a depth column that is 0              *)
CtNullCut == ZNeg(FxFromInt(15))
CtNullCoverage(r, i) == ZLt(r.x[i], CtNullCut) \/ (r.hasdepth /\ r.dz[i])
CtKeptP(r) == {i \in 1..CtN(r) : ~(r.skiplow /\ CtNullCoverage(r, i))}
(* "counting PAR-X as autosomal when asked": Karyotype.Class is PARX only under a genome build                      *)
CtCountsAsAutosomal(r, i) == CtIsAutoName(r, i) \/ CtClass(r, i) = "PARX"
(* "(or none named like autosomes)": then every bin counts (gary.autosomes: "The autosomes, if any, are not named    *)
(* with plain integers")                                                                                             *)
CtSelP(r) == LET kept == CtKeptP(r) IN
             IF \A i \in kept : ~CtIsAutoName(r, i) THEN kept ELSE {i \in kept : CtCountsAsAutosomal(r, i)}
(* "per chromosome first, then across chromosomes": the selected rows grouped by chromosome name, chromosomes in     *)
(* order of first appearance; one group of everything when by_chrom is off                                           *)
CtGroupsP(r) ==
    LET sel == CtSelP(r) IN
    IF sel = {} THEN <<>>
    ELSE IF ~r.bychrom THEN <<CtAscending(sel)>>
    ELSE LET keys == {CtKey(r, i) : i \in sel}
             firsts == CtAscending({Min({i \in sel : CtKey(r, i) = key}) : key \in keys})
         IN CtForce([j \in 1..Len(firsts) |-> CtAscending({i \in sel : CtKey(r, i) = CtKey(r, firsts[j])})])

(* the estimators TLC can recompute *)
CtBilocAcceptable(a) == LET its == BilocIterates(a, Median(a), 6, 5, BwEps, CtTol9)
                        IN {its[k + 1] : k \in BilocAcceptedRounds(its, BwEps, CtTol9)}
CtEstimate(fn, a) == CASE fn = "median" -> Median(a)
                       [] fn = "mean" -> Mean(a)
                       [] fn = "biweight" -> IF Len(a) = 1 THEN a[1] ELSE BiweightLocation(a)
CtTwoLevel(r, vals) ==                     \* the estimator of the autosomal bins as the statement defines it
    LET G == CtGroupsP(r)
        fn == CtFn(r)
        per == CtForce([j \in 1..Len(G) |-> CtEstimate(fn, CtAt(vals, G[j]))])
    IN IF r.bychrom THEN CtEstimate(fn, per) ELSE per[1]
CtZeroTol(r) == CASE CtFn(r) = "median" -> ZZero
                  [] CtFn(r) = "biweight" -> CtTolBw
                  [] OTHER -> CtTol9

(* the logged calls are exactly: the per-chromosome autosomal multisets in order, then one call on their results     *)
(* (by_chrom), or one call on all autosomal bins; `vals` = the log2 column the calls were made on                    *)
CtLogMatches(r, log, vals) ==
    LET G == CtGroupsP(r)
        m == Len(G)
        fn == CtFn(r)
    IN IF m = 0 THEN Len(log) = 0
       ELSE IF r.bychrom
       THEN /\ Len(log) = m + 1
            /\ \A j \in 1..m : log[j].fn = fn /\ ~log[j].nan /\ CtSameMultiset(log[j].args, CtAt(vals, G[j]))
            /\ log[m + 1].fn = fn /\ ~log[m + 1].nan
            /\ CtSameMultiset(log[m + 1].args, [j \in 1..m |-> log[j].res])
       ELSE /\ Len(log) = 1 /\ log[1].fn = fn /\ ~log[1].nan
            /\ CtSameMultiset(log[1].args, CtAt(vals, G[1]))
CtLast(log) == log[Len(log)].res

CtCallRecomputed(fn, c) ==
    CASE fn = "median" -> c.res = Median(c.args)
      [] fn = "mean" -> FxCloseAbs(c.res, Mean(c.args), CtTol9)
      [] fn = "biweight" -> IF Len(c.args) = 1 THEN c.res = c.args[1]
                            ELSE \E mm \in CtBilocAcceptable(c.args) : FxClose(c.res, mm, CtTol6)
      [] fn = "mode" -> FxWithin(c.res, c.args)         \* not recomputed (KDE): only "a value within the data"

(* ================================================================ P-layer: sex chromosomes *)
(* "expect_flat_log2 is 0 on autosomes, -1 on Y, and -1 on X only for a male reference".  PAR-X under a genome build *)
(* counts as autosomal (0).  PAR-Y under a genome build is never covered (Karyotype.RefCopies = 0: everything maps   *)
(* to X), so the statement gives it no level: 0 and -1 are both accepted there.                                      *)
CtFlatOK(class, hapx, v, U) ==
    CASE class = "auto" -> v = 0
      [] class = "PARX" -> v = 0
      [] class = "X"    -> v = IF hapx THEN -U ELSE 0
      [] class = "Y"    -> v = -U
      [] class = "PARY" -> v \in {0, -U}
(* shift_xx: "add 1 to chrX log2 ratios for a male sample vs. female reference, or subtract 1 for a female sample     *)
(* vs. male reference"; otherwise nothing                                                                             *)
CtSpecShift(isxx, hapx, U) == IF isxx /\ hapx THEN -U ELSE IF ~isxx /\ ~hapx THEN U ELSE 0
(* levels "expected for its sex relative to the stated reference sex" (compare_sex_chromosomes docstring):            *)
(* X: female 0 / male -1 against a female reference, +1 / 0 against a male one;  Y: male 0, female "deep negative     *)
(* (below -3)" whatever the reference                                                                                 *)
CtXLevel(female, hapx) == (IF female THEN 0 ELSE -1) + (IF hapx THEN 1 ELSE 0)
CtWithin3Sd(k, level, r) == 1000 * IAbs(k - level * r.U) <= 3 * r.sdm * r.U
CtXRows(r) == {i \in 1..CtN(r) : CtClass(r, i) = "X"}
CtSexWord(r) == IF r.female THEN "female" ELSE "male"
CtSexTitle(r) == IF r.female THEN "Female" ELSE "Male"

(* ================================================================ A-layer: the code, statement by statement *)
(* drop_low_coverage: drop_idx = log2 < min_cvg; if "depth" in self: drop_idx |= depth == 0; self[~drop_idx]          *)
CtADropLow(r, rows) == SelectSeq(rows, LAMBDA i : ~(ZLt(r.x[i], CtNullCut) \/ (r.hasdepth /\ r.dz[i])))
(* cnary.parx_filter via Karyotype.ParXFilter (chr_x_label from the first row's naming; one style per table)          *)
CtAParX(r, i) == K!ParXFilter(r.pfx, r.pfx, CtBase(r, i), r.s[i], r.e[i], r.genome)
(* CopyNumArray.autosomes + GenomicArray.autosomes:  also = parx_filter(genome) if a genome is given;                 *)
(*   is_auto = chromosome.str.match("(chr)?\d+$");  if not is_auto.any(): return self;  is_auto |= also; self[is_auto]*)
CtAAutosomes(r, rows) ==
    IF \A t \in 1..Len(rows) : ~CtIsAutoName(r, rows[t]) THEN rows
    ELSE SelectSeq(rows, LAMBDA i : CtIsAutoName(r, i) \/ (r.genome # "none" /\ CtAParX(r, i)))
(* by_chromosome: data.groupby("chromosome", sort=False) -- groups in order of first appearance, rows in table order  *)
CtAGroupBy(r, rows) ==
    LET step(acc, i) ==
            LET hit == {j \in 1..Len(acc) : CtKey(r, acc[j][1]) = CtKey(r, i)} IN
            IF hit = {} THEN Append(acc, <<i>>)
            ELSE LET j == CHOOSE j \in hit : TRUE IN [acc EXCEPT ![j] = Append(@, i)]
    IN FoldLeft(step, <<>>, rows)
CtAllRows(r) == CtForce([i \in 1..CtN(r) |-> i])
(* center_all up to the estimator: the argument row sets of the first-level calls (<<>>: `if cnarr:` is false)        *)
CtACallRows(r) ==
    LET cnarr == CtAAutosomes(r, IF r.skiplow THEN CtADropLow(r, CtAllRows(r)) ELSE CtAllRows(r))
    IN IF cnarr = <<>> THEN <<>>
       ELSE IF r.bychrom THEN CtAGroupBy(r, cnarr)      \* `if len(subarr)`: groupby yields no empty group
       ELSE <<cnarr>>
(* the rest of center_all with the estimator as a function EstAt(j, args) of the call number and the argument         *)
(* sequence: values = [estimator(sub) ...]; shift = -estimator(values); data["log2"] += shift.                       *)
(* Result: [calls |-> <<[args, res]>>, shift |-> Fx]                                                                  *)
CtACenter(r, vals, EstAt(_, _)) ==
    LET R == CtACallRows(r)
        m == Len(R)
        first == CtForce([j \in 1..m |-> LET a == CtAt(vals, R[j]) IN [args |-> a, res |-> EstAt(j, a)]])
    IN IF m = 0 THEN [calls |-> <<>>, shift |-> ZZero]
       ELSE IF ~r.bychrom THEN [calls |-> first, shift |-> ZNeg(first[1].res)]
       ELSE LET a2 == CtForce([j \in 1..m |-> first[j].res])
                top == [args |-> a2, res |-> EstAt(m + 1, a2)]
            IN [calls |-> Append(first, top), shift |-> ZNeg(top.res)]
(* the logged graph of the abstract estimator: call j, if it was made on exactly these arguments in this order        *)
CtNoValue == Z(FALSE, <<9999, 9999, 9999, 9999, 9999>>)
CtLoggedAt(log, j, args) == IF j <= Len(log) /\ log[j].args = args THEN log[j].res ELSE CtNoValue

(* shift_xx: outprobes[chromosome == chr_x_label, "log2"] -= 1 (is_xx and haploid ref) / += 1 (neither); every row    *)
(* named X, whether or not a genome build was given (diploid_parx_genome only reaches guess_xx)                       *)
CtAShiftXX(r, isxx) ==
    LET d == IF isxx /\ r.hapx THEN -r.U ELSE IF ~isxx /\ ~r.hapx THEN r.U ELSE 0
    IN [i \in 1..CtN(r) |-> IF K!ChromName(r.pfx, CtBase(r, i)) = K!XLabel(r.pfx) THEN r.k[i] + d ELSE r.k[i]]
(* expect_flat_log2: haploid ref: chr_x_filter(genome) | chr_y_filter(genome);  else chr_y_filter() (PAR included)    *)
CtAFlat(r) ==
    [i \in 1..CtN(r) |->
        LET b == CtBase(r, i) IN
        IF r.hapx THEN (IF K!ChrXFilter(r.pfx, r.pfx, b, r.s[i], r.e[i], r.genome)
                           \/ K!ChrYFilter(r.pfx, r.pfx, b, r.s[i], r.e[i], r.genome) THEN -r.U ELSE 0)
        ELSE (IF K!ChrYFilter(r.pfx, r.pfx, b, r.s[i], r.e[i], "none") THEN -r.U ELSE 0)]

(* ================================================================ clauses *)
Clauses(op) ==
    CASE op \in CtCenterOps ->
           {"center_noerr", "center_uniform_shift", "center_differences_kept", "center_table_otherwise_untouched"}
           \cup (IF op = "center.default" THEN {}
                 ELSE {"center_calls", "center_shift_is_minus_estimate", "center_zero_reapplied",
                       "center_estimator_recomputed"})
           \cup (IF op = "center.mode" THEN {} ELSE {"center_zero_recomputed"})
      [] op = "shiftxx" -> {"shiftxx_noerr", "shiftxx_x_by_spec", "shiftxx_rest_untouched"}
      [] op = "flat" -> {"flat_noerr", "flat_levels"}
      [] op = "sex" -> {"sex_noerr", "sex_guess_xx", "sex_do_sex", "sex_cli_report", "sex_shift_x_to_autosomal_level",
                        "sex_shift_rest_untouched", "sex_flat_levels"}
      [] op = "sex.par" -> {"sex_noerr", "sex_guess_xx", "sex_do_sex", "sex_cli_report", "sex_flat_levels"}
      [] OTHER -> {}

CtDelta(r, i) == ZSub(r.out[i], r.x[i])
CtOutShape(r) == r.err = "" /\ ~r.outnan /\ Len(r.out) = CtN(r)
CtGridShape(r, o, off) == r.err = "" /\ Len(o) = CtN(r) /\ off = 0

Holds(c, r) ==
    CASE c = "center_noerr" -> r.err = "" /\ ~r.outnan /\ \A j \in 1..Len(r.log) : ~r.log[j].nan
      (* "center_all adds one constant to every bin" *)
      [] c = "center_uniform_shift" ->
            CtOutShape(r) /\ \A i \in 1..CtN(r) : CtApprox(r, CtDelta(r, i), CtDelta(r, 1))
      (* "and leaves differences between bins untouched" *)
      [] c = "center_differences_kept" ->
            CtOutShape(r) /\ \A i \in 1..CtN(r) - 1 :
                CtApprox(r, ZSub(r.out[i + 1], r.out[i]), ZSub(r.x[i + 1], r.x[i]))
      (* nothing but log2 changes: same rows, same other columns *)
      [] c = "center_table_otherwise_untouched" -> r.err = "" /\ r.nout = CtN(r) /\ r.digout = r.digin
      (* the orchestration: which bins, in which order, two-level or not, PAR-X when asked, low coverage skipped *)
      [] c = "center_calls" -> r.err = "" /\ CtLogMatches(r, r.log, r.x)
      (* "shift = -last result" (no call at all: nothing is added) *)
      [] c = "center_shift_is_minus_estimate" ->
            CtOutShape(r) /\ LET sh == IF Len(r.log) = 0 THEN ZZero ELSE ZNeg(CtLast(r.log))
                             IN \A i \in 1..CtN(r) : CtApprox(r, CtDelta(r, i), sh)
      (* "so that the chosen estimator of the autosomal bins ... becomes zero": the logged function re-applied to the   *)
      (* result on the same rows (all estimators, the only form for the mode)                                          *)
      [] c = "center_zero_reapplied" ->
            CtOutShape(r) /\ CtLogMatches(r, r.relog, r.out)
            /\ (Len(r.relog) > 0 => ZLe(ZAbs(CtLast(r.relog)), IF CtFn(r) = "mode" THEN CtTol9 ELSE CtZeroTol(r)))
      (* ... and recomputed by TLC from the definition (median exactly 0, mean <= 1e-9, biweight <= 2e-3) *)
      [] c = "center_zero_recomputed" ->
            CtOutShape(r) /\ (CtSelP(r) # {} => ZLe(ZAbs(CtTwoLevel(r, r.out)), CtZeroTol(r)))
      (* the logged function is the estimator asked for: median / mean exact, biweight per Stats.tla *)
      [] c = "center_estimator_recomputed" -> \A j \in 1..Len(r.log) : ~r.log[j].nan /\ CtCallRecomputed(r.log[j].fn, r.log[j])
      [] c = "shiftxx_noerr" -> r.err = ""
      (* "moves X by exactly the specified +-1 / 0" *)
      [] c = "shiftxx_x_by_spec" ->
            CtGridShape(r, r.so, r.soff)
            /\ \A i \in CtXRows(r) : r.so[i] = r.k[i] + CtSpecShift(r.isxx, r.hapx, r.U)
      (* "and nothing else" *)
      [] c = "shiftxx_rest_untouched" ->
            CtGridShape(r, r.so, r.soff) /\ \A i \in (1..CtN(r)) \ CtXRows(r) : r.so[i] = r.k[i]
      [] c = "flat_noerr" -> r.err = ""
      [] c = "flat_levels" ->
            CtGridShape(r, r.fo, r.foff) /\ \A i \in 1..CtN(r) : CtFlatOK(CtClass(r, i), r.hapx, r.fo[i], r.U)
      [] c = "sex_noerr" -> r.err = ""
      (* "guess_xx and the `sex` report return that sex" *)
      [] c = "sex_guess_xx" -> r.guess = CtSexWord(r)
      [] c = "sex_do_sex" -> r.dosex = CtSexTitle(r)
      [] c = "sex_cli_report" -> r.cli => r.clisex = CtSexTitle(r)
      (* "shift_xx then brings chrX to the autosomal level": X moved by minus its expected level, hence within the     *)
      (* noise band of 0                                                                                                *)
      [] c = "sex_shift_x_to_autosomal_level" ->
            CtGridShape(r, r.so, r.soff)
            /\ \A i \in CtXRows(r) : /\ r.so[i] = r.k[i] - CtXLevel(r.female, r.hapx) * r.U
                                     /\ CtWithin3Sd(r.so[i], 0, r)
      [] c = "sex_shift_rest_untouched" ->
            CtGridShape(r, r.so, r.soff) /\ \A i \in (1..CtN(r)) \ CtXRows(r) : r.so[i] = r.k[i]
      [] c = "sex_flat_levels" ->
            CtGridShape(r, r.fo, r.foff) /\ \A i \in 1..CtN(r) : CtFlatOK(CtClass(r, i), r.hapx, r.fo[i], r.U)
      [] OTHER -> FALSE

(* ================================================================ undecided: a tied mode *)
(* The mode (peak of a Gaussian KDE, taken at a data point) is not a function of the data when two peaks are equally   *)
(* high: on a multiset that is symmetric about its centre (two bins a, b; values -65, -65, -63, -63; ...) mirror-image  *)
(* points have mathematically equal densities and float rounding picks one -- before the shift one, after it possibly   *)
(* the other.  "The mode of the result is zero" has no truth value then.  Decided by the specification, not guessed:    *)
(* the FIRST re-applied call whose result is not the logged result plus the shift was made on a symmetric multiset      *)
(* and returned exactly the mirror image of the logged result.  Such a record is counted `undecided` for               *)
(* center_zero_reapplied (evidence: undecided_by_table); every other clause is still judged.                            *)
CtSymmetric(a) == LET t == FxSortAsc(a)  n == Len(t) IN
                  \A i \in 1..n : ZAdd(t[i], t[n + 1 - i]) = ZAdd(t[1], t[n])
CtMirror(a, v) == LET t == FxSortAsc(a) IN ZSub(ZAdd(t[1], t[Len(t)]), v)
CtModeTieFlip(r) ==
    /\ r.err = "" /\ Len(r.log) > 0 /\ Len(r.relog) = Len(r.log)
    /\ LET sh == ZNeg(CtLast(r.log))
           moved(j) == ~FxCloseAbs(r.relog[j].res, ZAdd(r.log[j].res, sh), CtTol9)
           firsts == {j \in 1..Len(r.log) : moved(j) /\ \A q \in 1..j - 1 : ~moved(q)}
       IN \E j \in firsts :
             /\ CtSymmetric(r.log[j].args)
             /\ FxCloseAbs(r.relog[j].res, ZAdd(CtMirror(r.log[j].args, r.log[j].res), sh), CtTol9)
Undecided(r) == IF r.op = "center.mode" /\ CtModeTieFlip(r) THEN {"center_zero_reapplied"} ELSE {}

(* ================================================================ premise *)
CtNamesOK(r) ==
    /\ r.pfx \in K!Prefixes /\ r.genome \in K!Genomes
    /\ Len(r.bs) = CtN(r) /\ Len(r.s) = CtN(r) /\ Len(r.e) = CtN(r) /\ Len(r.dz) = CtN(r)
    /\ \A i \in 1..CtN(r) : /\ (r.bn[i] >= 0 /\ r.bs[i] = "") \/ (r.bn[i] = -1 /\ r.bs[i] \in CtOtherNames)
                            /\ 0 <= r.s[i] /\ r.s[i] < r.e[i]
                            /\ r.dz[i] => r.hasdepth
CtChromCount(r) == Cardinality({CtKey(r, i) : i \in 1..CtN(r)})
Premise(r) ==
    CASE r.op \in CtCenterOps ->
           /\ CtNamesOK(r) /\ Len(r.x) = CtN(r)
           (* "all bin tables with 1..24 chromosomes" *)
           /\ CtChromCount(r) \in 1..24
           (* the autosomal bins that are not ignored must exist for their estimator to be spoken of: a table whose   *)
           (* autosome-named bins are ALL null-coverage (and skipped) is outside the statement                       *)
           /\ (\E i \in 1..CtN(r) : CtIsAutoName(r, i)) => (\E i \in CtKeptP(r) : CtIsAutoName(r, i))
      [] r.op = "flat" -> CtNamesOK(r) /\ Len(r.k) = CtN(r) /\ CtN(r) >= 1 /\ r.U > 0
      (* shift_xx: only without a PAR genome (see the header) *)
      [] r.op = "shiftxx" -> CtNamesOK(r) /\ Len(r.k) = CtN(r) /\ CtN(r) >= 1 /\ r.U > 0 /\ r.genome = "none"
      [] r.op \in {"sex", "sex.par"} ->
           /\ CtNamesOK(r) /\ Len(r.k) = CtN(r) /\ r.U = 1024
           /\ (r.op = "sex") = (r.genome = "none")
           (* "noise sd 0.01..0.3", "40..400 bins on X" *)
           /\ r.sdm \in 10..300
           /\ r.nx \in 40..400 /\ Cardinality(CtXRows(r)) = r.nx
           /\ \E i \in 1..CtN(r) : CtIsAutoName(r, i)
           /\ r.withy = (\E i \in 1..CtN(r) : CtClass(r, i) = "Y")
           /\ (IF r.usew THEN Len(r.w) = CtN(r) /\ \A i \in 1..CtN(r) : r.w[i] > 0 ELSE r.w = <<>>)
           (* "bins sit at the levels expected for its sex relative to the stated reference sex, with bin noise        *)
           (* (truncated at 3 sd)": autosomes and PAR-X at 0, X at its level, Y at 0 (male) or below -3 (female)       *)
           /\ \A i \in 1..CtN(r) :
                LET cl == CtClass(r, i) IN
                CASE cl = "X" -> CtWithin3Sd(r.k[i], CtXLevel(r.female, r.hapx), r)
                  [] cl = "Y" -> IF r.female THEN r.k[i] < -3 * r.U ELSE CtWithin3Sd(r.k[i], 0, r)
                  [] cl = "PARY" -> FALSE
                  [] OTHER -> CtWithin3Sd(r.k[i], 0, r)
      [] OTHER -> FALSE

(* ================================================================ A-layer results, drift *)
CtObservedGuess(r) == r.guess = "female"          \* sex inference is not modelled: its recorded result is used
Drift(r) ==
    CASE r.op \in CtCenterOps ->
           IF CtEst(r) = "default"
           THEN LET a == CtACenter(r, r.x, LAMBDA j, args : Median(args))
                IN \E i \in 1..CtN(r) : r.out[i] # ZAdd(r.x[i], a.shift)
           ELSE LET a == CtACenter(r, r.x, LAMBDA j, args : CtLoggedAt(r.log, j, args))
                IN \/ Len(a.calls) # Len(r.log)
                   \/ \E j \in 1..Len(a.calls) : a.calls[j].res = CtNoValue
                   \/ \E i \in 1..CtN(r) : ~CtApprox(r, r.out[i], ZAdd(r.x[i], a.shift))
      [] r.op = "shiftxx" -> CtForce(CtAShiftXX(r, r.isxx)) # r.so
      [] r.op = "flat" -> CtForce(CtAFlat(r)) # r.fo
      [] r.op = "sex" -> CtForce(CtAShiftXX(r, CtObservedGuess(r))) # r.so \/ CtForce(CtAFlat(r)) # r.fo
      [] r.op = "sex.par" -> CtForce(CtAFlat(r)) # r.fo
      [] OTHER -> FALSE

(* ================================================================ known findings *)
KnownTriggers == {}
TriggerHolds(t, r) == FALSE
(* Outside the claim (see the header), recorded for DESIGN.md: shift_xx moves EVERY row named X, also the PAR-X rows    *)
(* that the caller asked (diploid_parx_genome) to be treated as diploid / autosomal.  True of an input when a genome    *)
(* build is given, a PAR-X row is present and the specified shift is not 0; MC_Centering.DesignShiftXXWithGenome         *)
(* (not part of the check) is violated by exactly these inputs.                                                          *)
CtShiftXXMovesParX(r) ==
    /\ r.op = "shiftxx"
    /\ r.genome # "none"
    /\ \E i \in 1..CtN(r) : CtClass(r, i) = "PARX"
    /\ CtSpecShift(r.isxx, r.hapx, r.U) # 0
=============================================================================
