--------------------------- MODULE Fix ---------------------------
(* cnvlib.fix.do_fix: match the reference to the sample by coordinate, drop the bins whose reference bin is  *)
(* bad, correct the biases, subtract the reference, weight, centre  (property C04).                           *)
(*                                                                                                            *)
(* Numbers (DESIGN section 4).  Everything is a plain integer on an exact grid:                               *)
(*   log2 values   k / LU   (LU = 1024; inputs are multiples of 64, so the <= 4 halvings of the two           *)
(*                           median-of-medians centrings stay integral: "equal" below means equal)            *)
(*   spread        k / SU   (SU = 10^6: only compared -- with 1.0 = 10^6/10^6 -- and fed to monotone float      *)
(*                           operations, so a decimal grid is as exact as a dyadic one; fine enough to scan the   *)
(*                           weight floor)      depth  k / 8  (only "= 0" / "> 0" matter)                         *)
(*   gc, rmask     k / GU   (GU = 10000; 0.3 = 3000/10000 and 0.7 = 7000/10000 are the very doubles the code  *)
(*                           compares with, division being correctly rounded)                                 *)
(*   edge density  an exact rational <<num, t>> = num / (4 * INSERT * t), compared by cross-multiplication    *)
(*   weights       observed only: round(w * 10^12) = whi * 10^6 + wlo (rounding is monotone, so order         *)
(*                 statements about the floats are order statements about these integers)                     *)
(*                                                                                                            *)
(* Rows (tuples, as JsonDeserialize delivers arrays):                                                         *)
(*   sample row     <<c, s, e, l, d0>>              d0 = 1 iff the bin's depth is 0 (no coverage; l = -20)    *)
(*   reference row  <<c, s, e, l, sp, dp, g, rm>>   (g, rm, dp are 0 when the column is absent)               *)
(*   output row     <<c, s, e, u, exact, l6, lnan, d0, anti, wnan, whi, wlo>>                                 *)
(*        u = round(log2 * LU), exact = 1 iff log2 = u / LU exactly, l6 = round(log2 * 10^6),                 *)
(*        lnan / wnan = 1 iff log2 / weight is NaN or infinite, anti = 1 iff the gene is an antitarget alias  *)
(* Chromosomes are small integer ids whose order is the natural order of the names the harness uses;          *)
(* ids <= r.nauto are the autosomes (names matching (chr)?[0-9]+).                                            *)
(*                                                                                                            *)
(* Record r: [op, nauto, gc, edge, rmask, hasgc, hasrmask, hasdepth, ref, tgt, ant, err, errkind, out, var]   *)
(*   op = "fix" (one call) or "fix_scale2k" / "fix_scalef" / "fix_perm" (a pair of calls);                    *)
(*   var = [kind, k, k16, tperm, aperm, err, out]: the second run of the pair -- depth x 2^k (k16 = 16 k),    *)
(*   depth x fnum/fden (k16 = round(16 log2 of it)), or rows permuted by tperm / aperm / rperm.               *)
EXTENDS Stats

LU == 1024
SU == 1000000
GU == 10000
MinRefLog2 == -5 * LU           \* params.MIN_REF_COVERAGE
MaxRefSpread == 1 * SU          \* params.MAX_REF_SPREAD
NullCut == -15 * LU             \* params.NULL_LOG2_COVERAGE - params.MIN_REF_COVERAGE  (drop_low_coverage)
GcLo == 3000                    \* params.GC_MIN_FRACTION
GcHi == 7000                    \* params.GC_MAX_FRACTION
Insert == 250                   \* params.INSERT_SIZE
EdgeSizeMax == 16000            \* cross-products num * t stay below 2^31 (|num| <= 2 * Insert^2)


KeyOf(x) == <<x[1], x[2], x[3]>>
KeyLt(a, b) == \/ a[1] < b[1]
               \/ (a[1] = b[1] /\ a[2] < b[2])
               \/ (a[1] = b[1] /\ a[2] = b[2] /\ a[3] < b[3])
KeySet(t) == {KeyOf(t[i]) : i \in 1..Len(t)}
HasDup(t) == Cardinality(KeySet(t)) < Len(t)
MissingFrom(ref, samp) == LET ks == KeySet(ref) IN \E i \in 1..Len(samp) : KeyOf(samp[i]) \notin ks
RefOf(ref, k) == ref[CHOOSE j \in 1..Len(ref) : KeyOf(ref[j]) = k]
SortedByKey(t) == \A k \in 1..Len(t) - 1 : KeyLt(t[k], t[k + 1])
(* genomic order; keys are pairwise distinct wherever this is used on a path without error *)
SortRows(t) == SortSeq(t, KeyLt)

(* ================================================================ what the statement fixes (shared by P and A) *)
(* "refuses (error) a sample bin absent from the reference or duplicated coordinates" *)
MustRefuse(r) == \/ HasDup(r.tgt) \/ HasDup(r.ant) \/ HasDup(r.ref)
                 \/ MissingFrom(r.ref, r.tgt) \/ MissingFrom(r.ref, r.ant)

(* "passes the reference filters (log2 within +-5, spread <= 1, depth > 0, GC within 0.3-0.7)" *)
PassesFilters(rr, r) ==
    /\ rr[4] >= MinRefLog2 /\ rr[4] <= -MinRefLog2
    /\ rr[5] <= MaxRefSpread
    /\ (r.hasdepth => rr[6] > 0)
    /\ (r.hasgc => (rr[7] >= GcLo /\ rr[7] <= GcHi))

(* the bins of one class ("T": target table, "A": antitarget table) whose reference bin is kept, in genomic   *)
(* order, each paired with its reference row -- matched by (chromosome, start, end), never by row position    *)
ClassBinsBy(r, K, Keep(_)) ==
    LET samp == IF K = "T" THEN r.tgt ELSE r.ant
        ss == SortRows(samp)
        both == Force([k \in 1..Len(ss) |-> <<ss[k], RefOf(r.ref, KeyOf(ss[k]))>>])
    IN SelectSeq(both, LAMBDA p : Keep(p[2]))
ClassBins(r, K) == ClassBinsBy(r, K, LAMBDA rr : PassesFilters(rr, r))

(* ---- the rolling-median correction: sort the bins by the covariate, subtract the rolling median (mirrored   *)
(*      edges) of log2 in that order.  The window is the code's: fraction max(0.01, n^-1/2) of the n bins, i.e. *)
(*      wing = ceil(sqrt(n) / 2) for n <= 10^4 (checked equal to the float expression for every n <= 20000),   *)
(*      at least 3, at most n - 1;  fewer than 2 bins: the rolling median is the signal itself                  *)
FixWing(n) == LET s == ISqrt(n)
                  c == IF s * s = n THEN s ELSE s + 1
                  raw == IF n <= 10000 THEN CeilDiv(c, 2) ELSE CeilDiv(n, 200)
              IN IntMin(IntMax(raw, 3), n - 1)
FixRolling(y) == IF Len(y) < 2 THEN y ELSE RollingMedian(y, FixWing(Len(y)))      \* Stats.RollingMedian
Detrend(x, ord) ==          \* ord: the bins' indices in covariate order
    LET n == Len(x)
        y == Force([j \in 1..n |-> x[ord[j]]])
        b == Force(FixRolling(y))
        pos == Force([i \in 1..n |-> CHOOSE j \in 1..n : ord[j] = i])
    IN Force([i \in 1..n |-> x[i] - b[pos[i]]])
OrderByInt(keys) == SortSeq([i \in 1..Len(keys) |-> i], LAMBDA a, b : keys[a] < keys[b])
DistinctInts(keys) == Cardinality({keys[i] : i \in 1..Len(keys)}) = Len(keys)

(* ---- edge density ("edge-density formula"), as an exact rational num / (4 * Insert * t) for a tile of size t:  *)
(*   loss  = i/2t - [t < i] (i-t)^2 / 2it                 = (2 i^2 - [t < i] 2 (i-t)^2) / 4it                    *)
(*   gain from a neighbour on the same chromosome at gap g < i (g < 0 counts as 0):                              *)
(*           (i-g)^2 / 4it - [t+g < i] (i-t-g)^2 / 4it                                                            *)
(*   density = gains - loss.  Neighbours are the adjacent kept target bins in genomic order.                     *)
EdgeLossNum(t) == 2 * Insert * Insert - (IF t < Insert THEN 2 * (Insert - t) * (Insert - t) ELSE 0)
EdgeGainNum(t, gap) == LET g == IF gap < 0 THEN 0 ELSE gap IN
    (Insert - g) * (Insert - g) - (IF t + g < Insert THEN (Insert - t - g) * (Insert - t - g) ELSE 0)
EdgeKeys(bins) ==           \* bins: ClassBins of "T" (genomic order)
    LET n == Len(bins)
        row(k) == bins[k][1]
        size(k) == row(k)[3] - row(k)[2]
        gapAfter(k) == row(k + 1)[2] - row(k)[3]
        near(k) == row(k)[1] = row(k + 1)[1] /\ gapAfter(k) < Insert          \* k and k+1 are neighbours
    IN Force([k \in 1..n |->
          <<(IF k > 1 /\ near(k - 1) THEN EdgeGainNum(size(k), gapAfter(k - 1)) ELSE 0)
            + (IF k < n /\ near(k) THEN EdgeGainNum(size(k), gapAfter(k)) ELSE 0)
            - EdgeLossNum(size(k)),
            size(k)>>])
EdgeLt(p, q) == p[1] * q[2] < q[1] * p[2]
OrderByEdge(keys) == SortSeq([i \in 1..Len(keys) |-> i], LAMBDA a, b : EdgeLt(keys[a], keys[b]))
DistinctEdges(keys) == \A i, j \in 1..Len(keys) : i < j => keys[i][1] * keys[j][2] # keys[j][1] * keys[i][2]
EdgeSafe(keys) == \A i \in 1..Len(keys) : keys[i][2] <= EdgeSizeMax

(* which corrections apply to a class: gc to both (if the reference has the column), edge to targets only,     *)
(* rmask to antitargets only (if the reference has the column); applied in this order                          *)
GcApplies(r) == r.gc /\ r.hasgc
EdgeApplies(r, K) == r.edge /\ K = "T"
RmaskApplies(r, K) == r.rmask /\ r.hasrmask /\ K = "A"
AnyApplies(r, K) == GcApplies(r) \/ EdgeApplies(r, K) \/ RmaskApplies(r, K)
Corrections(r, K, bins, x) ==
    LET xa == IF GcApplies(r) THEN Detrend(x, OrderByInt([i \in 1..Len(bins) |-> bins[i][2][7]])) ELSE x
        xb == IF EdgeApplies(r, K) THEN Detrend(xa, OrderByEdge(EdgeKeys(bins))) ELSE xa
        xc == IF RmaskApplies(r, K) THEN Detrend(xb, OrderByInt([i \in 1..Len(bins) |-> bins[i][2][8]])) ELSE xb
    IN xc
(* premise of the rolling-median clause: *distinct* covariate values (ties are ordered by the seeded shuffle,  *)
(* which the specification does not model) *)
DistinctCovariates(r, K) ==
    LET bins == ClassBins(r, K) IN
    /\ GcApplies(r) => DistinctInts([i \in 1..Len(bins) |-> bins[i][2][7]])
    /\ EdgeApplies(r, K) => LET ek == EdgeKeys(bins) IN EdgeSafe(ek) /\ DistinctEdges(ek)
    /\ RmaskApplies(r, K) => DistinctInts([i \in 1..Len(bins) |-> bins[i][2][8]])

(* ---- centring: 4 x (median of the per-chromosome medians of log2) over the bins that count:                 *)
(*      with skipLow the bins without coverage (log2 < -15 or depth 0) are left out; then the autosomes        *)
(*      (every chromosome when none is an autosome).  rows: sequence of <<c, v, d0>>                           *)
FixMed2(s) == LET t == SortSeq(s, LAMBDA a, b : a < b)
                  n == Len(t)
              IN IF n % 2 = 1 THEN 2 * t[(n + 1) \div 2] ELSE t[n \div 2] + t[n \div 2 + 1]
LowCoverageAt(v, d0, cut) == v < cut \/ d0 = 1
LowCoverage(v, d0) == LowCoverageAt(v, d0, NullCut)
CentreM4At(rows, skipLow, nauto, cut) ==
    LET use == SelectSeq(rows, LAMBDA x : ~(skipLow /\ LowCoverageAt(x[2], x[3], cut)))
        sel == IF \E k \in 1..Len(use) : use[k][1] <= nauto
               THEN SelectSeq(use, LAMBDA x : x[1] <= nauto) ELSE use
        cs == SetToSortSeq({sel[k][1] : k \in 1..Len(sel)}, <)
        meds == Force([j \in 1..Len(cs) |->
                    LET on == SelectSeq(sel, LAMBDA x : x[1] = cs[j]) IN FixMed2([k \in 1..Len(on) |-> on[k][2]])])
    IN IF sel = <<>> THEN 0 ELSE FixMed2(meds)
CentreM4(rows, skipLow, nauto) == CentreM4At(rows, skipLow, nauto, NullCut)

(* ================================================================= A-layer: cnvlib/fix.py, step for step ===== *)
(* mask_bad_bins: (log2 < MIN) | (log2 > -MIN) | (spread > MAX) | depth == 0 [if depth] | gc > hi | gc < lo [if gc] *)
BadBin(rr, r) == \/ rr[4] < MinRefLog2 \/ rr[4] > -MinRefLog2 \/ rr[5] > MaxRefSpread
                 \/ (r.hasdepth /\ rr[6] = 0)
                 \/ (r.hasgc /\ (rr[7] > GcHi \/ rr[7] < GcLo))
(* match_ref_to_sample raises, in this order: duplicates in the sample table, duplicates in the reference,      *)
(* sample bins missing from the reference; the target table is processed first, an empty table is skipped       *)
ALoadErr(r, samp) == IF samp = <<>> THEN ""
                     ELSE IF HasDup(samp) THEN "dup_sample"
                     ELSE IF HasDup(r.ref) THEN "dup_reference"
                     ELSE IF MissingFrom(r.ref, samp) THEN "missing"
                     ELSE ""
AErr(r) == IF ALoadErr(r, r.tgt) # "" THEN ALoadErr(r, r.tgt) ELSE ALoadErr(r, r.ant)
(* load_adjust_coverages (a copy of the sample is sorted first, see F1 below):                              *)
(*   keep the bins whose matched reference bin is not bad -> center_all(skip_low = on-target) -> unless at most *)
(*   half of the bins have log2 > -15: gc, edge, rmask corrections -> rows <<c, s, e, v - ref log2, d0, anti>>  *)
ALoad(r, K) ==
    LET bins == ClassBinsBy(r, K, LAMBDA rr : ~BadBin(rr, r))
        n == Len(bins)
        x0 == [i \in 1..n |-> bins[i][1][4]]
        m4 == CentreM4([i \in 1..n |-> <<bins[i][1][1], x0[i], bins[i][1][5]>>], K = "T", r.nauto)
        sh == 0 - (m4 \div 4)
        x1 == Force([i \in 1..n |-> x0[i] + sh])
        covered == Cardinality({i \in 1..n : x1[i] > NullCut})
        x2 == IF covered <= n \div 2 THEN x1 ELSE Corrections(r, K, bins, x1)
    IN Force([i \in 1..n |-> <<bins[i][1][1], bins[i][1][2], bins[i][1][3], x2[i] - bins[i][2][4], bins[i][1][5],
                               IF K = "A" THEN 1 ELSE 0>>])
CoveredEnough(r, K) ==      \* the corrections of this class are not skipped by the "most bins have no coverage" rule
    LET bins == ClassBinsBy(r, K, LAMBDA rr : ~BadBin(rr, r))
        n == Len(bins)
        m4 == CentreM4([i \in 1..n |-> <<bins[i][1][1], bins[i][1][4], bins[i][1][5]>>], K = "T", r.nauto)
        sh == 0 - (m4 \div 4)
    IN n = 0 \/ Cardinality({i \in 1..n : bins[i][1][4] + sh > NullCut}) > n \div 2
(* do_fix: target then antitarget; combined and sorted (if any antitarget bin is left); log2 -= reference log2   *)
(* (done in ALoad); center_all(skip_low = True).  Rows <<c, s, e, u, d0, anti>> in genomic order.                *)
ABeforeCentre(r) == SortRows(ALoad(r, "T") \o ALoad(r, "A"))
AFix(r) ==
    LET all == ABeforeCentre(r)
        m4 == CentreM4([i \in 1..Len(all) |-> <<all[i][1], all[i][4], all[i][5]>>], TRUE, r.nauto)
        sh == 0 - (m4 \div 4)
    IN [i \in 1..Len(all) |-> <<all[i][1], all[i][2], all[i][3], all[i][4] + sh, all[i][5], all[i][6]>>]

(* ================================================================= P-layer: the property as stated ============ *)
NoErr(r) == r.err = ""
OutKeys(o) == [j \in 1..Len(o) |-> KeyOf(o[j])]
ExpectedKeys(r) == LET t == ClassBins(r, "T")
                       a == ClassBins(r, "A")
                   IN {KeyOf(t[i][1]) : i \in 1..Len(t)} \cup {KeyOf(a[i][1]) : i \in 1..Len(a)}
OutIndex(o, k) == CHOOSE j \in 1..Len(o) : KeyOf(o[j]) = k

(* the class's log2 up to its constant: the corrected sample log2 (raw, uncentred) minus the reference log2.     *)
(* Each correction subtracts a rolling median, which commutes with adding a constant, so the class constant      *)
(* (the code's per-class centring and the common final centring) is left free here.                              *)
PCore(r, K) == LET bins == ClassBins(r, K)
                   n == Len(bins)
                   x == Corrections(r, K, bins, [i \in 1..n |-> bins[i][1][4]])
               IN Force([i \in 1..n |-> <<KeyOf(bins[i][1]), x[i] - bins[i][2][4]>>])
ClassConstantOK(r, K) ==
    LET core == PCore(r, K)
        ks == KeySet(r.out)
        present == {i \in 1..Len(core) : core[i][1] \in ks}
        rows == [i \in present |-> r.out[OutIndex(r.out, core[i][1])]]
    IN /\ \A i \in present : rows[i][5] = 1 /\ rows[i][7] = 0                 \* a value on the grid, not NaN
       /\ Cardinality({rows[i][4] - core[i][2] : i \in present}) <= 1          \* one constant for the class

(* "the output is centred (median of the autosomal chromosome medians is 0)" -- over the bins that have coverage *)
(* (depth > 0: the documented reading of center_all(skip_low=True)); exact when every value is on the grid,      *)
(* otherwise |median| <= 2 * 10^-6 on the values rounded to 10^-6.  The code also leaves out covered bins whose  *)
(* log2 *before* the shift is below -15; whether an output bin was one of those cannot be told from the output   *)
(* near the cut, so a record with a covered bin below -7 (cut + 8) is `undecided` for this clause.                *)
NoCut == -1000000000
CentredOK(o, nauto) ==
    IF \E j \in 1..Len(o) : o[j][7] = 1 THEN FALSE
    ELSE IF \A j \in 1..Len(o) : o[j][5] = 1
         THEN CentreM4At([j \in 1..Len(o) |-> <<o[j][1], o[j][4], o[j][8]>>], TRUE, nauto, NoCut) = 0
         ELSE LET m4 == CentreM4At([j \in 1..Len(o) |-> <<o[j][1], o[j][6], o[j][8]>>], TRUE, nauto, NoCut)
              IN m4 <= 8 /\ m4 >= -8
CentredUndecided(o) == \E j \in 1..Len(o) : o[j][7] = 0 /\ o[j][8] = 0 /\ o[j][4] < NullCut + 8 * LU

(* weights *)
WNum(x) == <<x[11], x[12]>>
WLe(a, b) == a[1] < b[1] \/ (a[1] = b[1] /\ a[2] <= b[2])
WeightInRange(x) == /\ x[10] = 0
                    /\ WLe(<<100, 0>>, WNum(x))                  \* >= 0.0001
                    /\ WLe(WNum(x), <<1000000, 0>>)              \* <= 1
(* per output row: <<class, size, reference spread, weight>>; class by the table the coordinates come from *)
WeightInfo(r) ==
    LET tk == KeySet(r.tgt)
        rk == KeySet(r.ref) IN
    Force([j \in 1..Len(r.out) |->
        LET x == r.out[j] IN
        <<IF KeyOf(x) \in tk THEN 0 ELSE 1, x[3] - x[2],
          IF KeyOf(x) \in rk THEN RefOf(r.ref, KeyOf(x))[5] ELSE -1, WNum(x)>>])
WeightSizeOK(r) == LET w == WeightInfo(r) IN
    \A i, j \in 1..Len(w) : (w[i][1] = w[j][1] /\ w[i][3] = w[j][3] /\ w[i][2] <= w[j][2]) => WLe(w[i][4], w[j][4])
WeightSpreadOK(r) == LET w == WeightInfo(r) IN
    \A i, j \in 1..Len(w) : (w[i][1] = w[j][1] /\ w[i][2] = w[j][2] /\ w[i][3] <= w[j][3]) => WLe(w[j][4], w[i][4])

(* the second run of a pair gives "the same table": same rows in the same order, log2 equal (exactly on the grid, *)
(* or within 2 * 10^-6 for an arbitrary depth factor), weights within 10^-9, NaN only where the first has NaN     *)
WClose(a, b) == LET dh == a[11] - b[11] IN
    IF dh > 1 \/ dh < -1 THEN FALSE
    ELSE LET d == dh * 1000000 + (a[12] - b[12]) IN d <= 1000 /\ d >= -1000
(* A bin without coverage (depth 0) carries the placeholder log2 -20 whatever the depth scale, so after centring  *)
(* its log2 moves by the scale's logarithm: when the depth is rescaled its row must still be there with the same   *)
(* weight, but its log2 is not compared (skipNull).                                                                *)
(* For an arbitrary (non-dyadic) factor the residuals move by ~10^-16, and the weights go through the biweight    *)
(* midvariance, whose |u| < 1 mask is discontinuous exactly where grid data put points (|u| = 1): there the       *)
(* weights are not compared (exactly = FALSE); the x 2^k pair compares them.                                      *)
SameRow(a, b, exactly, skipNull) ==
    /\ KeyOf(a) = KeyOf(b)
    /\ a[7] = b[7] /\ a[8] = b[8] /\ a[10] = b[10]
    /\ (a[7] = 0 /\ ~(skipNull /\ a[8] = 1)) =>
            IF exactly THEN a[5] = 1 /\ b[5] = 1 /\ a[4] = b[4]
            ELSE a[6] - b[6] <= 2 /\ b[6] - a[6] <= 2
    /\ (a[10] = 0 /\ exactly) => WClose(a, b)
SameOutcome(r, exactly, skipNull) ==
    /\ (r.err = "") = (r.var.err = "")
    /\ r.err = "" => /\ Len(r.out) = Len(r.var.out)
                     /\ \A j \in 1..Len(r.out) : SameRow(r.out[j], r.var.out[j], exactly, skipNull)

Ops == {"fix", "fix_scale2k", "fix_scalef", "fix_perm"}         \* one call / a pair of calls
BaseClauses == {"refuses_missing_or_duplicate", "no_spurious_error", "emits_exactly_passing_bins",
                "genomic_order", "centred", "weight_in_range",
                "weight_never_decreases_with_bin_size", "weight_never_increases_with_spread"}
ValueClauses == {"log2_is_sample_minus_reference_plus_class_constant", "log2_detrended_by_covariate_rolling_median"}
VarClause(op) == CASE op = "fix_scale2k" -> {"unchanged_by_depth_scale_pow2"}
                   [] op = "fix_scalef"  -> {"unchanged_by_depth_scale_any"}
                   [] op = "fix_perm"    -> {"unchanged_by_row_permutation"}
                   [] OTHER -> {}
Clauses(op) == IF op \in Ops THEN BaseClauses \cup ValueClauses \cup VarClause(op) ELSE {}

(* premise of the rolling-median clause, per class: *distinct* covariate values, and the code's "most bins have no  *)
(* coverage: skip the corrections" rule (of which the statement says nothing) not in force.  A record where it fails *)
(* for a class is judged on every other clause and counted `undecided` for this one.                                 *)
ValuePremise(r, K) == DistinctCovariates(r, K) /\ CoveredEnough(r, K)
Undecided(c, r) ==
    \/ /\ c = "log2_detrended_by_covariate_rolling_median"
       /\ NoErr(r) /\ ~MustRefuse(r)
       /\ \E K \in {"T", "A"} : AnyApplies(r, K) /\ ~ValuePremise(r, K)
    \/ c = "centred" /\ NoErr(r) /\ CentredUndecided(r.out)

Holds(c, r) ==
    CASE c = "refuses_missing_or_duplicate" -> MustRefuse(r) => ~NoErr(r)
      [] c = "no_spurious_error" -> ~MustRefuse(r) => NoErr(r)
      (* "emits exactly the sample bins whose reference bin -- matched by (chromosome, start, end) -- passes" *)
      [] c = "emits_exactly_passing_bins" ->
            (NoErr(r) /\ ~MustRefuse(r)) => (KeySet(r.out) = ExpectedKeys(r) /\ ~HasDup(r.out))
      (* "in genomic order" *)
      [] c = "genomic_order" -> NoErr(r) => SortedByKey(r.out)
      (* "with bias corrections off each on-target (resp. off-target) bin's log2 equals sample log2 - reference *)
      (*  log2 plus a single constant for its class"  (a class none of whose corrections applies) *)
      [] c = "log2_is_sample_minus_reference_plus_class_constant" ->
            (NoErr(r) /\ ~MustRefuse(r)) =>
                \A K \in {"T", "A"} : ~AnyApplies(r, K) => ClassConstantOK(r, K)
      (* "each enabled correction subtracts the rolling median of log2 over the bins ordered by the covariate" *)
      [] c = "log2_detrended_by_covariate_rolling_median" ->
            (NoErr(r) /\ ~MustRefuse(r)) =>
                \A K \in {"T", "A"} : (AnyApplies(r, K) /\ ValuePremise(r, K)) => ClassConstantOK(r, K)
      [] c = "centred" -> (NoErr(r) /\ ~CentredUndecided(r.out)) => CentredOK(r.out, r.nauto)
      (* "carries a per-bin weight in [0.0001, 1]" *)
      [] c = "weight_in_range" -> NoErr(r) => \A j \in 1..Len(r.out) : WeightInRange(r.out[j])
      (* "that never decreases with bin size" (same class, same reference spread) *)
      [] c = "weight_never_decreases_with_bin_size" -> NoErr(r) => WeightSizeOK(r)
      (* "nor increases with reference spread" (same class, same size) *)
      [] c = "weight_never_increases_with_spread" -> NoErr(r) => WeightSpreadOK(r)
      (* "unchanged by rescaling the sample's depth" x 2^k: the same table exactly *)
      [] c = "unchanged_by_depth_scale_pow2" -> SameOutcome(r, TRUE, TRUE)
      (* ... x an arbitrary factor: within tolerance *)
      [] c = "unchanged_by_depth_scale_any" -> SameOutcome(r, FALSE, TRUE)
      (* "or permuting the rows of any input" *)
      [] c = "unchanged_by_row_permutation" -> SameOutcome(r, TRUE, FALSE)

(* ---------------------------------------------------------------- premises (checked, never assumed) *)
PosRows(t) == \A k \in 1..Len(t) : t[k][1] >= 1 /\ t[k][2] >= 0 /\ t[k][2] < t[k][3]
OnGrid(t) == \A k \in 1..Len(t) : t[k][4] % 64 = 0
Premise(r) ==
    /\ r.op \in Ops
    /\ r.tgt # <<>>                                         \* an empty antitarget table is in scope, an empty target is not
    /\ PosRows(r.tgt) /\ PosRows(r.ant) /\ PosRows(r.ref)
    /\ OnGrid(r.tgt) /\ OnGrid(r.ant) /\ OnGrid(r.ref)      \* dyadic grid: every clause is exact
    /\ \A k \in 1..Len(r.ref) : r.ref[k][5] >= 0 /\ r.ref[k][6] >= 0    \* spread, depth are not negative
    /\ KeySet(r.tgt) \cap KeySet(r.ant) = {}                \* a bin is on-target or off-target, not both

(* ---------------------------------------------------------------- A-layer vs. observed (MODEL-DRIFT only) *)
ValuesModelled(r) == \A K \in {"T", "A"} : AnyApplies(r, K) => DistinctCovariates(r, K)
Drift(r) ==
    \/ r.errkind # AErr(r)
    \/ /\ NoErr(r) /\ AErr(r) = "" /\ ValuesModelled(r)
       /\ LET a == AFix(r) IN
          \/ Len(a) # Len(r.out)
          \/ \E j \in 1..Len(a) : \/ KeyOf(a[j]) # KeyOf(r.out[j])
                                  \/ r.out[j][5] # 1 \/ r.out[j][4] # a[j][4]
                                  \/ r.out[j][8] # a[j][5] \/ r.out[j][9] # a[j][6]

(* ---------------------------------------------------------------- known findings *)
(* F1 (fixed, /repo 9319317): do_fix relied on the sample tables being in genomic order (as tabio.read delivers   *)
(*     them): center_by_window re-sorted the corrected bins but not the matched reference rows, get_edge_bias took  *)
(*     table neighbours for genomic neighbours, and without antitargets nothing sorted the output.  The repaired    *)
(*     load_adjust_coverages sorts a copy of the sample first -- which is what ALoad models.                        *)
UnsortedSample(r) ==
    \/ ~SortedByKey(r.tgt) \/ ~SortedByKey(r.ant)
    \/ /\ r.var.kind = "perm"
       /\ \/ ~SortedByKey([k \in 1..Len(r.tgt) |-> r.tgt[r.var.tperm[k]]])
          \/ ~SortedByKey([k \in 1..Len(r.ant) |-> r.ant[r.var.aperm[k]]])
(* F2 (fixed, /repo 13543f3): a class (on- or off-target) all of whose emitted bins are without coverage got NaN    *)
(*     weights (biweight_midvariance of nothing); they now get the minimum weight.                                  *)
ClassWithoutCoverage(r) ==
    /\ AErr(r) = ""
    /\ LET all == ABeforeCentre(r) IN
       \E cls \in {0, 1} :
          /\ \E i \in 1..Len(all) : all[i][6] = cls
          /\ \A i \in 1..Len(all) : all[i][6] = cls => LowCoverage(all[i][4], all[i][5])
(* F3 (open): a bin without coverage keeps depth 0 and the placeholder log2 -20 whatever the depth scale, but such   *)
(*     bins take part in the rolling-median trend of every corrected class (center_by_window does not drop them) and *)
(*     in the centre of the off-target class (center_all(skip_low=False)).  Where such an estimate is attained at    *)
(*     (or between) placeholder values -- a window whose median is a null bin, a chromosome median / median of        *)
(*     medians that is one -- the corrected value / class offset of *covered* bins moves with the depth scale.        *)
(*     The trigger says exactly that, on the inputs alone: some kept bin of a corrected class or of the off-target    *)
(*     class has no coverage, AND the algorithm as modelled (AFix), run on the sample with every covered bin's log2   *)
(*     moved by the scale's logarithm (r.var.k16 / 16, on the grid) and the placeholders left alone, gives some       *)
(*     covered bin another value.  (With covariate ties the order, hence the A-layer, is not modelled: there the      *)
(*     first conjunct alone.)                                                                                        *)
NullBinEstimated(r) ==
    \E K \in {"T", "A"} :
        /\ K = "A" \/ AnyApplies(r, K)
        /\ LET bins == ClassBins(r, K) IN \E i \in 1..Len(bins) : bins[i][1][5] = 1
MoveCovered(t, d) == [i \in 1..Len(t) |-> IF t[i][5] = 1 THEN t[i] ELSE <<t[i][1], t[i][2], t[i][3], t[i][4] + d, t[i][5]>>]
ModelDependsOnScale(r) ==
    LET d == IF r.var.k16 = 0 THEN 64 ELSE r.var.k16 * 64      \* a factor within 2^(1/32) of 1: probe with one grid step
        a == AFix(r)
        b == AFix([r EXCEPT !.tgt = Force(MoveCovered(r.tgt, d)), !.ant = Force(MoveCovered(r.ant, d))])
    IN \E j \in 1..Len(a) : a[j][5] = 0 /\ a[j][4] # b[j][4]
NullBinInEstimate(r) ==
    /\ r.var.kind \in {"scale2k", "scalef"}
    /\ AErr(r) = ""
    /\ NullBinEstimated(r)
    /\ ValuesModelled(r) => ModelDependsOnScale(r)
KnownTriggers == {"UnsortedSample", "ClassWithoutCoverage", "NullBinInEstimate"}
TriggerHolds(t, r) == CASE t = "UnsortedSample" -> UnsortedSample(r)
                        [] t = "ClassWithoutCoverage" -> ClassWithoutCoverage(r)
                        [] t = "NullBinInEstimate" -> NullBinInEstimate(r)
                        [] OTHER -> FALSE
=============================================================================
