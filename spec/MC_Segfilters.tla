--------------------------- MODULE MC_Segfilters ---------------------------
(* Design check + enumerator for C14: every segment table of the small scope x every direct  *)
(* filter call / every admissible ordered filter list through do_call (calling = identity,   *)
(* method "none"); one step computes the A-layer result; the invariant is the P-layer.       *)
(* The dump of this run is replayed into the real cnvlib code (direction 1).                 *)
EXTENDS Segfilters
CONSTANTS MinN, MaxN, \* MinN..MaxN segments
          NChrom,     \* 1 or 2 chromosomes
          CNs,        \* copy numbers (unscaled integers)
          Kinds,      \* subset of {"P", "ZP", "N", "ZN", "Z0"}: sign of ci / sem level, boundary variants
          Ws,         \* weights in 1/16 units
          Als,        \* {"none"} (no cn1/cn2 columns) or a subset of {"nan", "hi", "lo"}
          DirectOps,  \* filters called directly
          CallLists   \* "all" | "post" (lists over cn, ampdel only) | "none"

(* kind -> <<lh, se, lo, hi>>:  log2 = +-0.98; sem 0.25 (clear) or 0.5 (log2 = +-1.96*sem exactly);  *)
(* CI clear of zero, or touching it with ci_lo = 0 / ci_hi = 0                                         *)
KindVals(k) == CASE k = "P"  -> <<1568, 16, 800, 2400>>
                 [] k = "ZP" -> <<1568, 32, 0, 3136>>
                 [] k = "N"  -> <<-1568, 16, -2400, -800>>
                 [] k = "ZN" -> <<-1568, 32, -3136, 0>>
                 [] k = "Z0" -> <<0, 0, 0, 0>>
Pow2(n) == IF n = 1 THEN 1 ELSE IF n = 2 THEN 2 ELSE IF n = 3 THEN 4 ELSE 8
MkRow(n, ch, o) ==   \* o = <<cn, kind, w, al>>; segments 2|3 abut, 1|2 and 3|4 are separated by a gap
    LET kv == KindVals(o[2])
        cn == o[1] * CS
        c1 == IF o[4] = "hi" THEN cn ELSE ((o[1] + 1) \div 2) * CS
    IN [c |-> ch, s |-> 100 * (n - 1) + (IF n % 2 = 0 THEN 20 ELSE 0), e |-> 100 * n,
        lh |-> kv[1], ll |-> 0, p |-> Pow2(n), w |-> o[3], cn |-> cn,
        m1 |-> o[4] \in {"hi", "lo"}, c1 |-> IF o[4] \in {"hi", "lo"} THEN c1 ELSE 0,
        m2 |-> o[4] \in {"hi", "lo"}, c2 |-> IF o[4] \in {"hi", "lo"} THEN cn - c1 ELSE 0,
        lo |-> kv[3], hi |-> kv[4], se |-> kv[2], bad |-> 0]
Opt == CNs \X Kinds \X Ws \X Als
Shapes == UNION {{<<n, k>> : k \in (IF NChrom = 2 THEN 1..n ELSE {n})} : n \in MinN..MaxN}   \* n rows, k on chromosome 1
MkTable(sh, fo) == [m \in 1..sh[1] |-> MkRow(m, IF m <= sh[2] THEN 1 ELSE 2, fo[m])]
Cols == [cn |-> TRUE, al |-> Als # {"none"}, ci |-> TRUE, sem |-> TRUE]

(* "every ordered list of distinct filters holding at most one of ci/sem" *)
Lists == {l \in UNION {[1..m -> FilterNames] : m \in 1..3} : Distinct(l) /\ ~(Has(l, "ci") /\ Has(l, "sem"))}
SelLists == CASE CallLists = "all"  -> Lists
              [] CallLists = "post" -> {l \in Lists : \A n \in Idx(l) : ~IsPre(l[n])}
              [] OTHER -> {}
OpChoices == {<<"direct", <<f>>>> : f \in DirectOps} \cup {<<"call", l>> : l \in SelLists}

(* the table is chosen as a compact (shape, options) pair and materialised by the call step, *)
(* which keeps the dumped `call` states small; the result is recomputed by the invariants     *)
VARIABLES ch, sh, fo, ph, tab
vars == <<ch, sh, fo, ph, tab>>
RecOf(t) ==
    LET steps == IF ch[1] = "call" THEN ACallSteps(t, Cols, ch[2]) ELSE <<>>
        out == IF ch[1] = "direct" THEN AFilterRows(ch[2][1], Cols, t)
               ELSE IF steps = <<>> THEN t ELSE steps[Len(steps)].out
    IN [op |-> IF ch[1] = "direct" THEN ch[2][1] ELSE "call", f |-> IF ch[1] = "direct" THEN ch[2][1] ELSE "", filters |-> IF ch[1] = "call" THEN ch[2] ELSE <<>>,
        method |-> "none", a |-> t, cols |-> Cols, steps |-> steps, out |-> out, err |-> ""]

Init == /\ ch \in OpChoices /\ sh \in Shapes /\ fo \in [1..MaxN -> Opt] /\ ph = "call" /\ tab = <<>>
        /\ \A m \in (sh[1]+1)..MaxN : fo[m] = fo[1]          \* unused positions: one canonical value
Call == /\ ph = "call" /\ ph' = "ret" /\ UNCHANGED <<ch, sh, fo>>
        /\ tab' = MkTable(sh, fo)
Next == Call
Spec == Init /\ [][Next]_vars

(* the algorithm as modelled satisfies every clause, outside the inputs of the listed findings *)
DesignOK == ph = "ret" => LET r == RecOf(tab) IN
                            \/ \A c \in Clauses(r.op) : Holds(c, r)
                            \/ \E t \in KnownTriggers : TriggerHolds(t, r)
(* ... and with them (violated as long as a listed finding is open: the design counterexample) *)
DesignStrict == ph = "ret" => LET r == RecOf(tab) IN \A c \in Clauses(r.op) : Holds(c, r)
(* the enumerated scope lies inside the premise *)
DesignPremise == ph = "ret" =>
    Premise([op |-> IF ch[1] = "direct" THEN ch[2][1] ELSE "call", f |-> IF ch[1] = "direct" THEN ch[2][1] ELSE "", filters |-> IF ch[1] = "call" THEN ch[2] ELSE <<>>,
             method |-> "none", a |-> tab, cols |-> Cols])
=============================================================================
