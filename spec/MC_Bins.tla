--------------------------- MODULE MC_Bins ---------------------------
(* Design check + enumerator for C12: every input of a small scope, one step computing the A-layer     *)
(* result; invariants are the P-layer clauses.  The dump is replayed into cnvlib.target / antitarget.  *)
(* Antitarget scopes are on an abstract grid: one unit = 500/Pad real bases (Pad = 1 or 2), so the     *)
(* harness maps grid coordinate x to the real coordinate x * 500/Pad (+ a shift in the "guess" scope,  *)
(* where the real telomere constant 150000 corresponds to the abstract Telo).                          *)
EXTENDS Bins
CONSTANTS Scope,      \* "target" | "anti_fixed" | "anti_access" | "anti_guess" | "anti_contigs"
          NChrom, Grid, MaxRows, MinWidth, MaxWidth,     \* baits / targets: <= MaxRows rows of width MinWidth..MaxWidth over 0..Grid
          Avgs,       \* target: integer average sizes
          Sizes,      \* antitarget: set of codes avg * 100 + min (min = 0: default); cfg files cannot hold tuples
          Pad, Telo,
          Namings     \* indices into NameTable

NameTable == <<
   << <<99,104,114,49>>, <<99,104,114,50>>, <<99,104,114,88>> >>,                                   \* chr1 chr2 chrX     all canonical
   << <<99,104,114,49>>, <<99,104,114,49,48>>, <<99,104,114,77>> >>,                                \* chr1 chr10 chrM
   << <<99,104,114,50>>, <<99,104,114,77>>, <<99,104,114,85,110,95,120>> >>,                        \* chr2 chrM chrUn_x
   << <<99,104,114,77>>, <<99,104,114,85,110,95,120>>, <<99,104,114,49,95,97,108,116>> >> >>        \* chrM chrUn_x chr1_alt  none canonical

RowSet(nch, wmin, wmax, g) == {x \in {<<c, s, e, g>> : c \in 1..nch, s \in 0..Grid, e \in 0..Grid} :
                                 E(x) - S(x) >= wmin /\ E(x) - S(x) <= wmax}
RECURSIVE Tabs(_, _)
Tabs(rows, n) == IF n = 0 THEN {<<>>}
                 ELSE LET prev == Tabs(rows, n-1) IN prev \cup {Append(t, x) : t \in {p \in prev : Len(p) = n-1}, x \in rows}
SortedTabs(rows, n) == {t \in Tabs(rows, n) : \A k \in 1..Len(t)-1 : IV!RowLeq(t[k], t[k+1])}

Annotation == << <<1, 0, 2, "G1">>, <<1, 2, Grid, "G2,G3">> >>     \* fixed annotation table of the "target" scope
Subsets3 == SUBSET (1..3) \ {{}}
OneRowEach(cs, s, e, g) == LET q == SetToSortSeq(cs, <) IN [k \in 1..Len(q) |-> <<q[k], s, e, g>>]

VARIABLES op, a, b, has_access, split, an, short, annot, avg, min, names, ph, out
vars == <<op, a, b, has_access, split, an, short, annot, avg, min, names, ph, out>>

Rec == IF op = "target"
       THEN [op |-> op, a |-> a, b |-> b, split |-> split, an |-> an, ad |-> 1, short |-> short, annot |-> annot,
             base |-> out, base_err |-> "", out |-> out, err |-> ""]
       ELSE [op |-> op, a |-> a, b |-> b, has_access |-> has_access, avg |-> avg, min |-> min, pad |-> Pad, telo |-> Telo,
             names |-> names, out |-> out, err |-> ""]

NoTargetFields == split = FALSE /\ an = 1 /\ short = FALSE /\ annot = FALSE
InitTarget ==
    /\ op = "target" /\ a \in SortedTabs(RowSet(NChrom, MinWidth, MaxWidth, "g"), MaxRows)
    /\ split \in BOOLEAN /\ an \in (IF split THEN Avgs ELSE {1})
    /\ short \in BOOLEAN /\ annot \in BOOLEAN
    /\ b = IF annot THEN Annotation ELSE <<>>
    /\ annot => 1 \in Chroms(NonEmptyRows(a))
    /\ has_access = FALSE /\ avg = 1 /\ min = 0 /\ names = NameTable[1]
InitAnti ==
    /\ op = "antitarget" /\ NoTargetFields
    /\ \E sz \in Sizes : avg = sz \div 100 /\ min = sz % 100
    /\ CASE Scope = "anti_fixed" ->      \* one access row spanning the grid, all target tables
              /\ a \in SortedTabs(RowSet(NChrom, MinWidth, MaxWidth, "g"), MaxRows) \ {<<>>}
              /\ has_access = TRUE /\ b = << <<1, 0, Grid, "">> >> /\ names = NameTable[1]
         [] Scope = "anti_access" ->     \* all access tables of <= 2 rows, one target row
              /\ a \in {<< x >> : x \in RowSet(1, MinWidth, MaxWidth, "g")}
              /\ has_access = TRUE /\ b \in SortedTabs(RowSet(1, 1, Grid, ""), 2) \ {<<>>} /\ names = NameTable[1]
         [] Scope = "anti_guess" ->      \* no access table: guessed chromosome extents
              /\ a \in SortedTabs(RowSet(NChrom, MinWidth, MaxWidth, "g"), MaxRows) \ {<<>>}
              /\ has_access = FALSE /\ b = <<>> /\ names = NameTable[1]
         [] Scope = "anti_contigs" ->    \* which contigs are targeted / accessible / canonically named
              /\ \E tc \in Subsets3 : a = OneRowEach(tc, Grid \div 2, Grid \div 2 + 1, "g")
              /\ \/ has_access = FALSE /\ b = <<>>
                 \/ has_access = TRUE /\ \E ac \in Subsets3 : b = OneRowEach(ac, 0, Grid, "") /\ Chroms(a) \cap ac # {}
              /\ \E n \in Namings : names = NameTable[n]
Init == /\ ph = "call" /\ out = <<>>
        /\ IF Scope = "target" THEN InitTarget ELSE InitAnti
Call == /\ ph = "call" /\ ph' = "ret"
        /\ out' = ALayer(Rec)
        /\ UNCHANGED <<op, a, b, has_access, split, an, short, annot, avg, min, names>>
Next == Call
Spec == Init /\ [][Next]_vars

(* the algorithm as modelled satisfies every clause of the property *)
DesignOK == ph = "ret" => \A c \in Clauses(op) : Holds(c, Rec)
(* ... except on inputs characterised by a known-finding trigger (used while those findings are open) *)
DesignOKModuloKnown == ph = "ret" => \/ \A c \in Clauses(op) : Holds(c, Rec)
                                     \/ \E t \in KnownTriggers : TriggerHolds(t, Rec)
DesignNoErr == ph = "ret" => (op = "antitarget" => ~AAntiErr(Rec))
=============================================================================
