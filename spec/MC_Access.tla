--------------------------- MODULE MC_Access ---------------------------
(* Design check + enumerator for C13.                                                              *)
(*   op = "scan"    : the line scanner of get_regions as a state machine, one TLC action per line   *)
(*                    kind (Header, AllN, Mixed, NoN, Blank, EOF); checks the inductive invariant    *)
(*                    ScanInv at every line and that the machine equals the folded form GetRegions. *)
(*   op = "regions" : one step computing GetRegions(fasta); dumped and replayed into get_regions.   *)
(*   op = "access"  : one step computing the whole do_access (scan, drop contigs, subtract every     *)
(*                    exclude file, join); dumped and replayed into do_access.                      *)
(* Scope of the FASTA texts: <= MaxSeqs sequences of total length <= MaxLen over Alphabet, wrapped  *)
(* at every width in Widths; Blanks = {0} no blank lines, 1 = one blank line after each sequence.   *)
EXTENDS Access
CONSTANTS Ops, MaxSeqs, MaxLen, Alphabet, Widths, Blanks,
          ExChroms,    \* exclude rows may name chromosome ids 1..ExChroms (an id > number of sequences: not in the FASTA)
          MaxEx,       \* exclude rows in total (0..2)
          MaxGap,      \* min_gap 0..MaxGap
          Skips        \* values of skip_noncanonical

NamePool == << <<99, 104, 114, 49>>,                    \* "chr1"    canonical
               <<99, 104, 114, 77>>,                    \* "chrM"    non-canonical (chrM)
               <<99, 104, 114, 85, 110, 95, 120>> >>    \* "chrUn_x" non-canonical (Un_)

Strs(n) == UNION {[1..k -> Alphabet] : k \in 0..n}
TextTuples == {<<t>> : t \in Strs(MaxLen)}
              \cup (IF MaxSeqs >= 2 THEN UNION {{<<t, u>> : u \in Strs(MaxLen - Len(t))} : t \in Strs(MaxLen)} ELSE {})
Wrap(t, w) == [j \in 1..((Len(t) + w - 1) \div w) |->
                 <<1, SubSeq(t, (j-1)*w + 1, IF j*w < Len(t) THEN j*w ELSE Len(t))>>]
Layout(texts, names, w, blank) ==
    FlattenSeq([k \in 1..Len(texts) |->
        << <<0, names[k]>> >> \o Wrap(texts[k], w) \o (IF blank = 1 THEN << <<1, <<>>>> >> ELSE <<>>)])
NameChoices(n) == IF Skips = {FALSE} THEN {[k \in 1..n |-> NamePool[k]]}      \* names do not matter
                  ELSE {[k \in 1..n |-> NamePool[p[k]]] : p \in {q \in [1..n -> 1..Len(NamePool)] :
                                                                   \A a, b \in 1..n : a # b => q[a] # q[b]}}

ExRows == {<<c, s, e, "">> : c \in 1..ExChroms, s \in 0..MaxLen, e \in 1..MaxLen}
PosExRows == {x \in ExRows : S(x) < E(x)}
SortedPairs == {p \in PosExRows \X PosExRows : IV!RowLeq(p[1], p[2])}
ExclChoices == {<<>>}
               \cup (IF MaxEx >= 1 THEN {<< <<x>> >> : x \in PosExRows} ELSE {})
               \cup (IF MaxEx >= 2 THEN {<< <<p[1], p[2]>> >> : p \in SortedPairs}            \* one file, two rows
                                        \* two files of one row each: EVERY ordered pair, so that both file orders and a
                                        \* later file's row containing / inside / overlapping / equal to an earlier file's occur
                                        \cup {<< <<p[1]>>, <<p[2]>> >> : p \in PosExRows \X PosExRows}
                     ELSE {})

VARIABLES op, fasta, excl, gap, skip, ph, pc, st, out
vars == <<op, fasta, excl, gap, skip, ph, pc, st, out>>
Rec == [op |-> IF op = "scan" THEN "regions" ELSE op, fasta |-> fasta, excl |-> excl, gap |-> gap, skip |-> skip,
        out |-> out, err |-> ""]

Init == /\ op \in Ops
        /\ \E ts \in TextTuples, w \in Widths, bl \in Blanks : \E nm \in NameChoices(Len(ts)) : fasta = Layout(ts, nm, w, bl)
        /\ excl \in IF op = "access" THEN ExclChoices ELSE {<<>>}
        /\ gap \in IF op = "access" THEN 0..MaxGap ELSE {0}
        /\ skip \in IF op = "access" THEN Skips ELSE {FALSE}
        /\ ph = IF op = "scan" THEN "scan" ELSE "call"
        /\ pc = 1 /\ st = ScanInit /\ out = <<>>

(* ---- the scanner, one action per line kind ---- *)
Scanning == op = "scan" /\ ph = "scan" /\ pc <= Len(fasta)
Advance == pc' = pc + 1 /\ UNCHANGED <<op, fasta, excl, gap, skip, ph, out>>
Header == /\ Scanning /\ LineKind(fasta[pc]) = "header"
          /\ st' = ScanHeader(st) /\ Advance
AllN   == /\ Scanning /\ LineKind(fasta[pc]) = "alln"
          /\ st' = ScanAllN(st, fasta[pc][2]) /\ Advance
Mixed  == /\ Scanning /\ LineKind(fasta[pc]) = "mixed"
          /\ st' = ScanMixed(st, fasta[pc][2]) /\ Advance
NoN    == /\ Scanning /\ LineKind(fasta[pc]) = "non"
          /\ st' = ScanNoN(st, fasta[pc][2]) /\ Advance
Blank  == /\ Scanning /\ LineKind(fasta[pc]) = "blank"
          /\ st' = ScanBlank(st) /\ Advance
EOF    == /\ op = "scan" /\ ph = "scan" /\ pc = Len(fasta) + 1
          /\ st' = ScanEOF(st) /\ out' = st'.emitted /\ ph' = "ret"
          /\ UNCHANGED <<op, fasta, excl, gap, skip, pc>>
(* ---- whole calls in one step ---- *)
Call == /\ ph = "call" /\ ph' = "ret"
        /\ out' = ALayer(Rec)
        /\ UNCHANGED <<op, fasta, excl, gap, skip, pc, st>>
Next == Header \/ AllN \/ Mixed \/ NoN \/ Blank \/ EOF \/ Call
Spec == Init /\ [][Next]_vars

(* the algorithm as modelled satisfies every clause of the property *)
DesignOK == ph = "ret" => \A c \in Clauses(Rec.op) : Holds(c, Rec)
(* ... except on inputs characterised by a known-finding trigger (used while the finding is open) *)
DesignOKModuloKnown == ph = "ret" => \/ \A c \in Clauses(Rec.op) : Holds(c, Rec)
                                     \/ \E t \in KnownTriggers : TriggerHolds(t, Rec)
(* the A-layer never predicts the join assertion inside the premise *)
DesignNoAssert == ph = "ret" => ~ALayerErr(Rec)

(* inductive invariant of the scanner: after the lines consumed so far, `emitted` holds exactly the closed   *)
(* maximal runs, `run` is the start of the open one (None if the text ends in N / is empty), `cursor` is the  *)
(* length of the current sequence so far                                                                     *)
ScanInv == (op = "scan" /\ ph = "scan" /\ st.chrom >= 1) =>
    LET done == SubSeq(fasta, 1, pc - 1)
        n    == st.chrom
        T    == SeqText(done, n)
        runs == MaximalRuns(T)
        open == T # <<>> /\ T[Len(T)] # NCode
        mine == Coords3(OnChrom(st.emitted, n))
    IN /\ n = NSeq(done)
       /\ st.cursor = Len(T)
       /\ open  => (st.run = runs[Len(runs)][1] /\ mine = SubSeq(runs, 1, Len(runs) - 1))
       /\ ~open => (st.run = None /\ mine = runs)
       /\ \A m \in 1..(n-1) : Coords3(OnChrom(st.emitted, m)) = MaximalRuns(SeqText(done, m))
(* Documentation of the repaired blank-line defect: the scanner as it was (a blank line opens a run) breaks    *)
(* "every reported region is non-empty" -- DesignOldScannerOK is VIOLATED on any scope with Blanks = {1} -- and  *)
(* it differs from the repaired scanner exactly on the inputs BlankLineOutsideRun describes (this one holds).    *)
OldRec == [Rec EXCEPT !.out = GetRegionsUnrepaired(fasta)]
DesignOldScannerOK == (ph = "ret" /\ Rec.op = "regions") => \A c \in Clauses("regions") : Holds(c, OldRec)
OldScannerDiffersOnlyOnTrigger ==
    (ph = "ret" /\ Rec.op = "regions") => (GetRegionsUnrepaired(fasta) # GetRegions(fasta) <=> BlankLineOutsideRun(Rec))
(* the action-per-line machine and the folded form used by "regions"/"access" are the same function *)
ScanMatchesFold == (op = "scan" /\ ph = "ret") => out = GetRegions(fasta)
=============================================================================
