--------------------------- MODULE PlotData ---------------------------
(* X05 (extension): the data-selection layer of the plotting commands -- no rendering.                      *)
(*   skgenome/rangelabel.py  from_label / to_label / unpack_range                                            *)
(*   cnvlib/plots.py         chromosome_sizes, plot_chromosome_dividers (coordinate arithmetic),              *)
(*                           translate_region_to_bins, translate_segments_to_bins,                            *)
(*                           update_binwise_positions[_simple], get_repeat_slices, cvg2rgb,                   *)
(*                           gene_coords_by_name, gene_coords_by_range                                        *)
(*   cnvlib/scatter.py       do_scatter (dispatch, by-bin preparation), select_range_genes,                   *)
(*                           cnv_on_genome (x coordinates), choose_segment_color, get_segment_vafs            *)
(*   cnvlib/diagram.py       create_diagram up to the feature lists;  cnvlib/heatmap.py  do_heatmap up to     *)
(*                           the arguments of pcolormesh                                                      *)
(*                                                                                                            *)
(* Rows: bin <<c, s, e, g, x>>, segment <<c, s, e, g, x, p>>, variant <<c, s, e, f>>:                         *)
(*   c chromosome id (the harness maps ids to names whose natural order is the id order), [s, e) 0-based      *)
(*   half-open, g the gene label as the SEQUENCE of its comma-separated names, x = 8 * log2, p = probes,      *)
(*   f = 64 * alt_freq.  Text the specification looks into (range labels) is Seq(0..255) (Text.tla).          *)
(*                                                                                                            *)
(* P-layer = only what the package documents (docstrings, doc/plots.rst, CLI help, error messages); each      *)
(* clause quotes its source.  A-layer = the code, case for case; A-layer disagreement is MODEL-DRIFT.         *)
(* Range selection (in_range, by_ranges) is Ranges!Want (C07); natural chromosome order and character        *)
(* classes come from Text.tla.  The gene-metrics kernels behind `diagram` (reports.gene_metrics_by_*,         *)
(* CopyNumArray.squash_genes: C16, Genes.tla) are uninterpreted here: their outputs come with the record.     *)
EXTENDS Ranges, Text

X(r)  == r[5]          \* 8 * log2 of a bin / segment
P6(r) == r[6]          \* probes of a segment
VF(r) == r[4]          \* 64 * alt_freq of a variant
AbsI(v) == IF v < 0 THEN 0 - v ELSE v
MaxI(x, y) == IF x > y THEN x ELSE y
IgnoreNames == {"-", ".", "CGH"}                      \* params.IGNORE_GENE_NAMES
AntiAliases == {"Antitarget", "Background"}           \* params.ANTITARGET_ALIASES
WholeIn(g, names) == Len(g) = 1 /\ g[1] \in names     \* the whole gene field is one of `names`
HasNameG(b, n) == \E j \in 1..Len(G(b)) : G(b)[j] = n
MaxEndOn(t, c) == Max({E(t[k]) : k \in {j \in Idx(t) : C(t[j]) = c}})
LastOn(t, c) == LET rows == OnChrom(t, c) IN rows[Len(rows)]
CountLess(q, key) == Cardinality({k \in 1..Len(q) : q[k] < key})       \* np.searchsorted(sorted q, key), side = "left"
StartsOn(a, c) == StartsCol(OnChrom(a, c))
BinIdx(a, c, key) == CountLess(StartsOn(a, c), key)
BagOf(q) == [v \in Range(q) |-> Cardinality({k \in 1..Len(q) : q[k] = v})]
DisjointOnChrom(a) == StrictSortedDisjoint(a, 0)
QWin(c, hw, lo, hi) == IF hw THEN Qr(c, lo, hi, TRUE, TRUE) ELSE Qr(c, 0, 0, FALSE, FALSE)
Scale(rows, u) == [k \in Idx(rows) |-> [rows[k] EXCEPT ![2] = u * @, ![3] = u * @]]

(* ========================================================================= range labels ============== *)
(* re_label: an optional chromosome (one \w then any of \w or '.'), ':', optional digits, '-', optional       *)
(* digits, optional blanks, an optional non-blank word; used with re.match.  No backtracking can change the  *)
(* greedy split, so a match exists iff ':' follows the chromosome run and '-' follows the first digit run.   *)
LabelParts(t) ==
    LET nc  == IF t # <<>> /\ IsWord(t[1]) THEN 1 + LeadCount(Tail(t), LAMBDA ch : IsWord(ch) \/ ch = ch_dot) ELSE 0
        ok1 == Len(t) >= nc + 1 /\ t[nc + 1] = ch_colon
        r1  == IF ok1 THEN DropFirst(t, nc + 1) ELSE <<>>
        ns  == LeadCount(r1, IsDigit)
        ok2 == ok1 /\ Len(r1) >= ns + 1 /\ r1[ns + 1] = ch_minus
        r2  == IF ok2 THEN DropFirst(r1, ns + 1) ELSE <<>>
        ne  == LeadCount(r2, IsDigit)
        r3  == DropFirst(r2, ne)
        r4  == DropFirst(r3, LeadCount(r3, IsSpace))
    IN [ok |-> ok2, chrom |-> TakeFirst(t, nc), sd |-> TakeFirst(r1, ns), ed |-> TakeFirst(r2, ne),
        gene |-> TakeFirst(r4, LeadCount(r4, IsNonSpace))]
RegNone == [err |-> "", hc |-> FALSE, chrom |-> <<>>, hs |-> FALSE, s |-> 0, he |-> FALSE, e |-> 0]
FromLabelA(t, keep) ==                                  \* rangelabel.from_label
    LET p == LabelParts(t) IN
    IF ~p.ok THEN [RegNone EXCEPT !.err = "ValueError"] @@ [nf |-> 0, gene |-> <<>>]
    ELSE [err |-> "", nf |-> IF keep THEN 4 ELSE 3, hc |-> p.chrom # <<>>, chrom |-> p.chrom,
          hs |-> p.sd # <<>>, s |-> IF p.sd # <<>> THEN DigitsVal(p.sd) - 1 ELSE 0,      \* int(start) - 1 if start else None
          he |-> p.ed # <<>>, e |-> IF p.ed # <<>> THEN DigitsVal(p.ed) ELSE 0,          \* int(end) if end else None
          gene |-> IF keep THEN p.gene ELSE <<>>]
HasChar(t, ch) == \E k \in 1..Len(t) : t[k] = ch
WellFormed(t) == LET p == LabelParts(t) IN      \* exactly  <chromosome>:<digits>-<digits>  (either digit run may be missing)
    p.ok /\ p.chrom # <<>> /\ Len(t) = Len(p.chrom) + 2 + Len(p.sd) + Len(p.ed)
ChromWord(c) == c # <<>> /\ IsWord(c[1]) /\ \A k \in 1..Len(c) : IsWord(c[k]) \/ c[k] = ch_dot
Reg3(r) == <<r.hc, r.chrom, r.hs, r.s, r.he, r.e>>

UnpackA(r) ==                                           \* rangelabel.unpack_range
    CASE r.kind \in {"none", "empty_str"} -> RegNone                                   \* if not a_range
      [] r.kind = "text" -> IF HasChar(r.text, ch_colon) /\ HasChar(r.text, ch_minus)
                            THEN LET f == FromLabelA(r.text, FALSE) IN [k \in DOMAIN RegNone |-> f[k]]
                            ELSE [RegNone EXCEPT !.hc = TRUE, !.chrom = r.text]
      [] r.kind \in {"tuple3", "list3", "tuple4"} ->
            [err |-> "", hc |-> TRUE, chrom |-> r.tc, hs |-> TRUE, s |-> r.ts, he |-> TRUE, e |-> r.te]
      [] OTHER -> [RegNone EXCEPT !.err = "ValueError"]                                 \* "Not a range"
ToLabelA(chrom, s, e) == chrom \o <<ch_colon>> \o IntText(s + 1) \o <<ch_minus>> \o IntText(e)   \* rangelabel.to_label
RoundtripA(r) ==
    LET lab == ToLabelA(r.chrom, r.s, r.e)
        b   == FromLabelA(lab, FALSE)
    IN [err |-> "", label |-> lab, berr |-> b.err, bhc |-> b.hc, bchrom |-> b.chrom, bhs |-> b.hs, bs |-> b.s,
        bhe |-> b.he, be |-> b.e]

(* ========================================================================= chromosome layout ========= *)
ChromSizesA(t) == LET cs == FirstApp(t) IN [n \in Idx(cs) |-> <<cs[n], MaxEndOn(t, cs[n])>>]   \* plots.chromosome_sizes
(* plot_chromosome_dividers, positions in units of 1/1000 *)
SumSizes(sz) == SumSeq([k \in Idx(sz) |-> sz[k][2]])
Pad1000(r) == IF r.hp THEN 1000 * r.pad ELSE 3 * SumSizes(r.sizes)            \* pad = 0.003 * sum(sizes)
OffOf(sz, pad1000, k) == pad1000 * (2 * k - 1) + 1000 * SumSeq([j \in 1..(k - 1) |-> sz[j][2]])
DividersOf(sz, pad1000, along) ==
    LET n == Len(sz) IN
    [err |-> "", starts |-> [k \in 1..n |-> <<sz[k][1], OffOf(sz, pad1000, k)>>],
     ticks |-> [k \in 1..n |-> OffOf(sz, pad1000, k) + 500 * sz[k][2]],
     lines |-> [k \in 1..(n - 1) |-> OffOf(sz, pad1000, k) + 1000 * sz[k][2] + pad1000],
     lim |-> <<0, IF n = 0 THEN pad1000 ELSE OffOf(sz, pad1000, n) + 1000 * sz[n][2] + 2 * pad1000>>,   \* curr_offset after the loop
     labels |-> [k \in 1..n |-> sz[k][1]], axis |-> along]
DividersA(r) ==
    IF r.along \notin {"x", "y"}
    THEN [err |-> "ValueError", starts |-> <<>>, ticks |-> <<>>, lines |-> <<>>, lim |-> <<>>, labels |-> <<>>, axis |-> ""]
    ELSE DividersOf(r.sizes, Pad1000(r), r.along)

(* ========================================================================= regions =================== *)
(* a region argument: rk = "none" | "chrom" | "range"; rtext: given as text (1-based start) or as a tuple;  *)
(* rc chromosome id; [rs, re) 0-based with rhs / rhe = FALSE for an open side                                *)
HasCoords(r) == r.rk = "range" /\ (r.rhs \/ r.rhe)
RegOf(hc, c, hs, s, he, e) == [hc |-> hc, c |-> c, hs |-> hs, s |-> s, he |-> he, e |-> e]
ParsedRegion(r) ==                                                           \* unpack_range(show_range)
    IF r.rk = "none" THEN RegOf(FALSE, 0, FALSE, 0, FALSE, 0)
    ELSE IF ~HasCoords(r) THEN RegOf(TRUE, r.rc, FALSE, 0, FALSE, 0)
    ELSE RegOf(TRUE, r.rc, r.rhs, IF r.rhs THEN r.rs ELSE 0, r.rhe, IF r.rhe THEN r.re ELSE 0)
RegionToBinsOn(r, a) ==                                                      \* plots.translate_region_to_bins
    IF ~HasCoords(r) THEN ParsedRegion(r)
    ELSE LET st == StartsOn(a, r.rc) IN
         RegOf(TRUE, r.rc, TRUE, CountLess(st, IF r.rhs THEN r.rs ELSE 0),
               TRUE, IF r.rhe THEN CountLess(st, r.re) ELSE Len(st))          \* end = inf
RegionToBinsA(r) == [err |-> ""] @@ RegionToBinsOn(r, r.a)

(* ========================================================================= by-bin positions ========== *)
(* plots.update_binwise_positions(cnarr, segments, variants); variant positions in units of 1/840            *)
BinwiseBins(a) ==            \* c_starts = arange(len(c_bins)), in table order within each chromosome
    [k \in Idx(a) |-> LET j == Cardinality({i \in 1..(k - 1) : C(a[i]) = C(a[k])}) IN [a[k] EXCEPT ![2] = j, ![3] = j + 1]]
SegBinwise(a, sg) ==
    IF sg = <<>> THEN sg                                                     \* `if segments:` -- an empty table is falsy
    ELSE [k \in Idx(sg) |-> LET c == C(sg[k]) IN
            IF c \notin Chroms(a) THEN sg[k]                                 \* only the chromosomes of cnarr are visited
            ELSE LET later == {i \in (k + 1)..Len(sg) : C(sg[i]) = c} IN
                 [sg[k] EXCEPT ![2] = BinIdx(a, c, S(sg[k])),                \* searchsorted(bin starts, segment starts)
                               ![3] = IF later = {} THEN Len(OnChrom(a, c))  \* seg_ends = r_[seg_starts[1:], len(c_bins)]
                                      ELSE BinIdx(a, c, S(sg[Min(later)]))]]
VarIdx(a, v) == BinIdx(a, C(v), S(v))
VarRepeatOn(a, va, c) == LET vs == OnChrom(va, c) IN \E k \in 1..(Len(vs) - 1) : VarIdx(a, vs[k]) = VarIdx(a, vs[k + 1])
(* v_starts is the int64 result of searchsorted; `v_starts[idx] += np.arange(size) / size` cannot be cast     *)
VarsCrash(a, va) == \E c \in Chroms(a) \cap Chroms(va) : VarRepeatOn(a, va, c)
VarBinwise(a, va) ==
    [k \in Idx(va) |-> IF C(va[k]) \notin Chroms(a) THEN [va[k] EXCEPT ![2] = 840 * @, ![3] = 840 * @]
                       ELSE [va[k] EXCEPT ![2] = 840 * VarIdx(a, va[k]), ![3] = 840 * (VarIdx(a, va[k]) + E(va[k]) - S(va[k]))]]
BinwiseOf(a, hsg, sg, hv, va) ==
    IF hv /\ va # <<>> /\ VarsCrash(a, va) THEN [err |-> "UFuncTypeError", oa |-> <<>>, osg |-> <<>>, ova |-> <<>>]
    ELSE [err |-> "", oa |-> BinwiseBins(a), osg |-> IF hsg THEN SegBinwise(a, sg) ELSE <<>>,
          ova |-> IF ~hv THEN <<>> ELSE IF va = <<>> THEN va ELSE VarBinwise(a, va)]
BinwiseA(r) == BinwiseOf(r.a, r.hsg, r.sg, r.hv, r.va)
                   @@ [aa |-> r.a, asg |-> IF r.hsg THEN r.sg ELSE <<>>, ava |-> IF r.hv THEN r.va ELSE <<>>]   \* works on copies

(* plots.update_binwise_positions_simple: per-chromosome chunks (groupby order) assigned to the table in place *)
SimpleOf(kind, t) ==
    IF kind = "bins" THEN IF t = <<>> THEN [err |-> "ValueError", ot |-> <<>>]          \* np.concatenate([])
                          ELSE [err |-> "", ot |-> BinwiseBins(t)]
    ELSE LET kept == SelectSeq(t, LAMBDA row : P6(row) > 0) IN                           \* cnarr[cnarr["probes"] > 0]
         IF kept = <<>> THEN [err |-> "ValueError", ot |-> <<>>]
         ELSE [err |-> "", ot |-> [k \in Idx(kept) |->
                  LET before == SumSeq([i \in 1..(k - 1) |-> IF C(kept[i]) = C(kept[k]) THEN P6(kept[i]) ELSE 0])
                  IN [kept[k] EXCEPT ![2] = before, ![3] = before + P6(kept[k])]]]       \* ends = probes.cumsum()
SimpleA(r) == SimpleOf(r.kind, r.t)
(* plots.translate_segments_to_bins *)
SumProbes(sg) == SumSeq([k \in Idx(sg) |-> P6(sg[k])])
SegsToBinsA(r) ==
    IF r.hp /\ SumProbes(r.sg) = Len(r.a)                                     \* "probes" in segments and probes.sum() == len(bins)
    THEN LET o == SimpleOf("segs", r.sg) IN [err |-> o.err, osg |-> o.ot]
    ELSE LET o == SegBinwise(r.a, r.sg) IN
         [err |-> "", osg |-> IF r.hp THEN o ELSE [k \in Idx(o) |-> [o[k] EXCEPT ![6] = 0]]]
(* segments tile the bins: per chromosome the first segment starts at the first bin, each ends at a bin end,  *)
(* the next starts at the following bin, the last ends at the last bin; probes = number of bins covered       *)
BinAtStart(a, c, s) == {j \in Idx(OnChrom(a, c)) : S(OnChrom(a, c)[j]) = s}
BinAtEnd(a, c, e)   == {j \in Idx(OnChrom(a, c)) : E(OnChrom(a, c)[j]) = e}
Tiling(a, sg, probes) ==
    /\ Chroms(a) = Chroms(sg)
    /\ \A c \in Chroms(a) : LET ss == OnChrom(sg, c)  n == Len(OnChrom(a, c)) IN
         /\ \A k \in Idx(ss) : BinAtStart(a, c, S(ss[k])) # {} /\ BinAtEnd(a, c, E(ss[k])) # {}
         /\ \A k \in Idx(ss) : LET j1 == Min(BinAtStart(a, c, S(ss[k])))  j2 == Min(BinAtEnd(a, c, E(ss[k]))) IN
              /\ j1 <= j2
              /\ (k = 1 => j1 = 1) /\ (k = Len(ss) => j2 = n)
              /\ (k < Len(ss) => BinAtStart(a, c, S(ss[k + 1])) = {j2 + 1})
              /\ (probes => P6(ss[k]) = j2 - j1 + 1)
TiledIndices(a, sg, out) ==       \* "segments translate to the bin indices that contain their ends"
    /\ Len(out) = Len(sg)
    /\ \A k \in Idx(sg) : /\ C(out[k]) = C(sg[k])
                          /\ S(out[k]) = Min(BinAtStart(a, C(sg[k]), S(sg[k]))) - 1
                          /\ E(out[k]) = Min(BinAtEnd(a, C(sg[k]), E(sg[k])))

(* plots.get_repeat_slices: itertools.groupby runs; i = idx + offset, offset += size - 1 after a repeat *)
RunStarts(v) == {k \in 1..Len(v) : k = 1 \/ v[k - 1] # v[k]}
RunEnd(v, k) == Min({j \in k..Len(v) : j = Len(v) \/ v[j + 1] # v[k]})
MaxRuns(v) == LET st == SortedSeqOfSet({k \in RunStarts(v) : RunEnd(v, k) > k}) IN
              [n \in 1..Len(st) |-> <<st[n] - 1, RunEnd(v, st[n]), RunEnd(v, st[n]) - st[n] + 1>>]
RepeatSlicesA(r) ==
    LET st  == SortedSeqOfSet(RunStarts(r.vals))                              \* one group per run, idx = n - 1
        sz  == [n \in 1..Len(st) |-> RunEnd(r.vals, st[n]) - st[n] + 1]
        off == [n \in 1..Len(st) |-> SumSeq([m \in 1..(n - 1) |-> IF sz[m] > 1 THEN sz[m] - 1 ELSE 0])]
        all == [n \in 1..Len(st) |-> <<n - 1 + off[n], n - 1 + off[n] + sz[n], sz[n]>>]
    IN [err |-> "", sl |-> SelectSeq(all, LAMBDA x : x[3] > 1)]

(* plots.cvg2rgb without desaturation: x = min(|cvg| / 1.33, 1); blue (1-x, 1-x, 1-x/4) / red (1-x/4, 1-x, 1-x);  *)
(* cvg = k / 1024; components observed as round(v * 10^6); 532 * 10^6 * x = min(390625 * |k|, 532 * 10^6)      *)
Cvg532(k) == LET v == 390625 * AbsI(k) IN IF v > 532000000 THEN 532000000 ELSE v
CvgNear(obs, exp532) == AbsI(532 * obs - exp532) <= 3 * 532
CvgPlainOK(k, rgb) ==
    LET full == 532000000 - Cvg532(k)  quart == 532000000 - (Cvg532(k) \div 4) IN
    IF k < 0 THEN CvgNear(rgb[1], full) /\ CvgNear(rgb[2], full) /\ CvgNear(rgb[3], quart)
    ELSE CvgNear(rgb[1], quart) /\ CvgNear(rgb[2], full) /\ CvgNear(rgb[3], full)

(* ========================================================================= gene coordinates ========== *)
ReqNames(names) == {names[k] : k \in 1..Len(names)} \ {""}                   \* list(filter(None, set(names)))
NamePos(a, n) == {k \in Idx(a) : HasNameG(a[k], n)}                          \* gene.split(",") contains the name
NameChroms(a, n) == {C(a[k]) : k \in NamePos(a, n)}
NameStart(a, n) == Min({S(a[k]) : k \in NamePos(a, n)})
NameEnd(a, n)   == Max({E(a[k]) : k \in NamePos(a, n)})
NameLabel(a, n) == UNION {Range(G(a[k])) : k \in NamePos(a, n)}              \* all names on the gene's bins
NameErrs(a, req) == (IF \E n \in req : NamePos(a, n) = {} THEN {"ValueError"} ELSE {})              \* "No targeted gene named"
                    \cup (IF \E n \in req : Cardinality(NameChroms(a, n)) > 1 THEN {"AssertionError"} ELSE {})  \* check_unique
NameKeys(a, req) == {<<CHOOSE c \in NameChroms(a, n) : TRUE, NameStart(a, n), NameEnd(a, n)>> : n \in req}
NameEntries(a, req) ==       \* all_coords[chrom][start, end].update(uniq_names): one entry per distinct extent
    {<<key[1], key[2], key[3], UNION {NameLabel(a, n) : n \in {m \in req : <<CHOOSE c \in NameChroms(a, m) : TRUE,
                                                                 NameStart(a, m), NameEnd(a, m)>> = key}}>> : key \in NameKeys(a, req)}
EntrySet(res) == {<<res[k][1], res[k][2], res[k][3], Range(res[k][4])>> : k \in 1..Len(res)}
GenesByNameA(r) ==           \* plots.gene_coords_by_name; the set order of `names` decides which error comes first
    LET req == ReqNames(r.names) IN
    IF req = {} THEN [errs |-> {""}, entries |-> {}]
    ELSE IF NameErrs(r.a, req) # {} THEN [errs |-> NameErrs(r.a, req), entries |-> {}]
    ELSE [errs |-> {""}, entries |-> NameEntries(r.a, req)]

IgnoredLabel(g) == WholeIn(g, IgnoreNames \cup AntiAliases)
RECURSIVE GeneFold(_, _, _)
GeneFold(rows, k, acc) ==    \* plots.gene_coords_by_range: OrderedDict name -> [start of first row, end of last row]
    IF k > Len(rows) THEN acc
    ELSE LET g == G(rows[k])  pos == {j \in 1..Len(acc) : acc[j][3] = g} IN
         IF pos # {} THEN GeneFold(rows, k + 1, [acc EXCEPT ![Min(pos)][2] = E(rows[k])])
         ELSE IF IgnoredLabel(g) THEN GeneFold(rows, k + 1, acc)
         ELSE GeneFold(rows, k + 1, Append(acc, <<S(rows[k]), E(rows[k]), g>>))
GenesByRangeOf(a, q) == GeneFold(Want(a, "outer", q), 1, <<>>)
GenesByRangeA(r) == [err |-> "", res |-> GenesByRangeOf(r.a, Qr(r.c, r.s, r.e, r.hs, r.he))]
GeneNameSets(a, q) == {Range(G(row)) : row \in {x \in Range(Want(a, "outer", q)) : ~IgnoredLabel(G(x))}}

(* ========================================================================= scatter: selection ======== *)
(* scatter.do_scatter up to the call of genome_scatter / chromosome_scatter, then select_range_genes.         *)
(* Variant rows are carried in units of 1/840 throughout this operation.                                      *)
TB(r)  == r.hb /\ r.a # <<>>                     \* `if cnarr:` -- None and an empty array are both falsy
TSG(r) == r.hsg /\ r.sg # <<>>
TV(r)  == r.hv /\ r.va # <<>>
JoinedNonEmpty(names) == Len(names) >= 2 \/ (Len(names) = 1 /\ names[1] # "")       \* ",".join(names) != ""
GeneTruthy(r) == r.hg /\ JoinedNonEmpty(r.names)
SelDefault == [errs |-> {""}, which |-> "", probes |-> <<>>, segs |-> <<>>, snvs |-> <<>>, hw |-> FALSE, wlo |-> 0, whi |-> 0,
               geneset |-> {}, chrom |-> 0, mb1 |-> FALSE]
SelErrs(es) == [SelDefault EXCEPT !.errs = es]
GeneSetOfSeq(gs) == {<<gs[k][1], gs[k][2], Range(gs[k][3])>> : k \in 1..Len(gs)}
Prune(x, chrom, hw, lo, hi, geneset) ==          \* "Prune plotted elements to the selected region"
    LET q == QWin(chrom, hw, lo, hi)
        (* in_range as the code selects: rows with end > lo and start < hi (this keeps a zero-width by-bin segment that  *)
        (* Ranges!Want, which speaks of shared bases, does not), clipped for "trim"; without a window the chromosome's rows *)
        Sel(t, qq) == SelectSeq(t, LAMBDA row : C(row) = qq.c /\ E(row) > qq.s /\ S(row) < qq.e)
        InR(t, mode, qq) == IF ~hw THEN OnChrom(t, chrom)
                            ELSE IF mode = "trim" THEN [k \in Idx(Sel(t, qq)) |-> Clipped(Sel(t, qq)[k], qq)] ELSE Sel(t, qq)
    IN
    [SelDefault EXCEPT !.which = "chrom", !.mb1 = x.bybin, !.hw = hw, !.wlo = IF hw THEN lo ELSE 0, !.whi = IF hw THEN hi ELSE 0,
                       !.geneset = geneset, !.chrom = chrom,
                       !.probes = IF x.tb THEN InR(x.a, "outer", q) ELSE <<>>,
                       !.segs = IF x.tsg THEN InR(x.sg, "trim", q) ELSE <<>>,
                       !.snvs = IF x.tv THEN InR(x.va, "outer", QWin(chrom, hw, 840 * lo, 840 * hi)) ELSE <<>>]
GeneStage(x, coords, start, end) ==
    LET reg == x.reg  rchrom == IF reg.hc THEN reg.c ELSE 0 IN
    IF ~x.hg
    THEN LET gr  == IF coords /\ x.tb THEN GenesByRangeOf(x.a, Qr(reg.c, start, end, TRUE, TRUE)) ELSE <<>>
             sel == coords /\ gr = <<>> /\ (end - start) < 10 * x.w          \* "highlight the selected region itself"
         IN IF ~coords THEN Prune(x, rchrom, FALSE, 0, 0, {})
            ELSE IF sel THEN Prune(x, rchrom, TRUE, MaxI(0, start - x.w), end + x.w, {<<start, end, {"Selection"}>>})
            ELSE Prune(x, rchrom, TRUE, start, end, GeneSetOfSeq(gr))
    ELSE LET req == ReqNames(x.names)
             tab == IF x.tb THEN x.a ELSE x.sg                               \* cnarr or segments
         IN IF req = {} THEN SelErrs({"KeyError"})                            \* {}.popitem(): filter(...) is always truthy
            ELSE IF ~x.tb /\ ~x.hsg THEN SelErrs({"TypeError"})               \* None["gene"]
            ELSE IF NameErrs(tab, req) # {} THEN SelErrs(NameErrs(tab, req))
            ELSE LET ent == NameEntries(tab, req)  chroms == {en[1] : en \in ent} IN
                 IF Cardinality(chroms) > 1 THEN SelErrs({"ValueError"})      \* "split across chromosomes"
                 ELSE LET gc == CHOOSE c \in chroms : TRUE
                          gs == {<<en[2], en[3], en[4]>> : en \in ent}
                          minS == Min({en[2] : en \in ent})
                          maxS == Max({en[2] : en \in ent})
                          lastEnd == Max({en[3] : en \in {y \in ent : y[2] = maxS}})      \* gene_ranges.sort(); [-1][1]
                      IN IF reg.hc /\ reg.c # gc THEN SelErrs({"ValueError"})             \* core.assert_equal
                         ELSE IF coords /\ \E en \in ent : ~(start <= en[2] /\ en[3] <= end)
                              THEN SelErrs({"ValueError"})                                \* "is outside specified region"
                         ELSE IF coords THEN Prune(x, gc, TRUE, start, end, gs)
                         ELSE IF ~x.regtruthy THEN Prune(x, gc, TRUE, MaxI(0, minS - x.w), lastEnd + x.w, gs)
                         ELSE Prune(x, gc, FALSE, 0, 0, gs)
SelectStage(x) ==
    LET reg == x.reg
        coords == reg.hs \/ reg.he
        start == IF ~reg.hs THEN 0 ELSE IF reg.s < 0 THEN 0 ELSE reg.s
        needDefault == ~(reg.he /\ reg.e # 0)                                 \* `if not end:`
        pick == IF x.tb THEN x.a ELSE IF x.tsg THEN x.sg ELSE x.va            \* (cnarr or segments or variants)
        unit == IF x.tb \/ x.tsg THEN 1 ELSE 840
        rowsOn == OnChrom(pick, reg.c)
        end == IF ~needDefault THEN reg.e ELSE E(rowsOn[Len(rowsOn)]) \div unit        \* .filter(chromosome=chrom).end.iat[-1]
    IN IF coords /\ needDefault /\ ~x.tb /\ ~x.tsg /\ ~x.hv THEN SelErrs({"AttributeError"})
       ELSE IF coords /\ needDefault /\ rowsOn = <<>> THEN SelErrs({"IndexError"})
       ELSE IF coords /\ end <= start THEN SelErrs({"ValueError"})             \* "has size <= 0"
       ELSE GeneStage(x, coords, start, end)
Dispatch(r, a, sg, va, reg, regtruthy) ==
    IF ~GeneTruthy(r) /\ r.rk = "none"
    THEN [SelDefault EXCEPT !.which = "genome", !.probes = a, !.segs = sg, !.snvs = va, !.mb1 = r.bybin]
    ELSE SelectStage([a |-> a, sg |-> sg, va |-> va, tb |-> r.hb /\ a # <<>>, tsg |-> r.hsg /\ sg # <<>>,
                      tv |-> r.hv /\ va # <<>>, hsg |-> r.hsg, hv |-> r.hv, reg |-> reg, regtruthy |-> regtruthy,
                      hg |-> r.hg, names |-> r.names, w |-> r.w, bybin |-> r.bybin])
SelectA(r) ==
    IF r.bybin
    THEN IF ~r.hb THEN SelErrs({"AttributeError"})                            \* None.by_chromosome()
         ELSE IF r.a = <<>> THEN SelErrs({"ZeroDivisionError"})               \* sum(...) / len(cnarr)
         ELSE LET bw == BinwiseOf(r.a, r.hsg, r.sg, r.hv, r.va) IN
              IF bw.err # "" THEN SelErrs({bw.err})
              ELSE Dispatch(r, bw.oa, bw.osg, bw.ova, RegionToBinsOn(r, r.a), TRUE)   \* Region(...) is a non-empty tuple
    ELSE Dispatch(r, IF r.hb THEN r.a ELSE <<>>, IF r.hsg THEN r.sg ELSE <<>>,
                  IF r.hv THEN Scale(r.va, 840) ELSE <<>>, ParsedRegion(r), r.rk # "none")

(* ---- what the documentation says about a selection (used by the P-layer clauses) ---- *)
SelTab(r) == IF r.bybin THEN BinwiseBins(r.a) ELSE r.a            \* the bins in the coordinates of the plot
NameTab(r) == IF TB(r) THEN SelTab(r) ELSE r.sg                    \* where -g looks genes up
Req(r) == ReqNames(r.names)
AllFound(r) == Req(r) # {} /\ (TB(r) \/ r.hsg) /\ \A n \in Req(r) : Cardinality(NameChroms(NameTab(r), n)) = 1
ReqChroms(r) == UNION {NameChroms(NameTab(r), n) : n \in Req(r)}
ReqMinStart(r) == Min({NameStart(NameTab(r), n) : n \in Req(r)})
ReqMaxEnd(r)   == Max({NameEnd(NameTab(r), n) : n \in Req(r)})
ObsGenes(r) == GeneSetOfSeq(r.genes)
IsSelection(r) == \E g \in ObsGenes(r) : g[3] = {"Selection"}
ClosedRange(r) == r.rk = "range" /\ r.rhs /\ r.rhe
DataEnds(r, c) == (IF r.hb /\ c \in Chroms(r.a) THEN {MaxEndOn(r.a, c)} ELSE {})
                  \cup (IF r.hsg /\ c \in Chroms(r.sg) THEN {MaxEndOn(r.sg, c)} ELSE {})
                  \cup (IF r.hv /\ c \in Chroms(r.va) THEN {MaxEndOn(r.va, c)} ELSE {})
BaseStart(r) == IF r.rhs THEN r.rs ELSE 0
BaseEnds(r)  == IF r.rhe THEN {r.re} ELSE DataEnds(r, r.rc)
(* the plotted window is the region as given, or -- only when no gene lies in it and -g was not used -- the     *)
(* region padded by the width with the region itself highlighted as "Selection"                                 *)
RegionWindowOK(r) ==
    /\ r.hw
    /\ \E be \in BaseEnds(r) : LET bs == BaseStart(r) IN
         \/ /\ r.wlo = bs /\ r.whi = be /\ ~IsSelection(r)
         \/ /\ ~r.hg /\ ObsGenes(r) = {<<bs, be, {"Selection"}>>}
            /\ (TB(r) => GeneNameSets(r.a, Qr(r.rc, bs, be, TRUE, TRUE)) = {})
            /\ r.wlo = MaxI(0, bs - r.w) /\ r.whi = be + r.w

(* ========================================================================= scatter: colours, VAFs, layout *)
SegColorA(r) ==                                  \* scatter.choose_segment_color; ck: 1 autosome, 2 X, 3 Y
    IF ~r.hcn THEN IF r.bright THEN "hl" ELSE "neutral"                       \* "cn" not in segment._fields
    ELSE LET expected == CASE r.ck = 3 -> {0, 1} [] r.ck = 2 -> {1, 2} [] OTHER -> {2} IN
         IF r.cn \notin expected THEN "hl"
         ELSE IF r.ck = 1 /\ r.hal /\ r.cn1 # r.cn2 THEN "hl" ELSE "neutral"  \* allelic imbalance / LOH
(* scatter.get_segment_vafs: medians (in 1/128) of the frequencies above / not above 0.5 (32/64), each only if > 1 value *)
VafGroup(r, j) == IF j = 0 THEN r.va ELSE Want(r.va, "outer", QOfRow(r.sg[j]))
VafEmit(j, rows) ==
    LET fr == [k \in Idx(rows) |-> VF(rows[k])]
        above == SelectSeq(fr, LAMBDA f : f > 32)
        below == SelectSeq(fr, LAMBDA f : f <= 32)
    IN (IF Len(above) > 1 THEN << <<j, Median2(above)>> >> ELSE <<>>) \o (IF Len(below) > 1 THEN << <<j, Median2(below)>> >> ELSE <<>>)
SegVafsA(r) ==
    LET js == IF r.hsg /\ r.sg # <<>> THEN [j \in Idx(r.sg) |-> j] ELSE <<0>> IN      \* `if segments:` else one fake chunk
    [err |-> "", res |-> FlattenSeq([n \in Idx(js) |-> VafEmit(js[n], VafGroup(r, js[n]))])]
(* scatter.cnv_on_genome: x = bin midpoint + chromosome offset (default padding), positions in 1/1000 *)
GenomeLayoutA(r) ==
    LET sz  == ChromSizesA(IF TB(r) THEN r.a ELSE r.sg)
        pad == 3 * SumSizes(sz)
    IN [err |-> "", starts |-> [k \in Idx(sz) |-> <<sz[k][1], OffOf(sz, pad, k)>>],
        pts |-> FlattenSeq([k \in Idx(sz) |-> IF ~TB(r) THEN <<>> ELSE
                   LET rows == OnChrom(r.a, sz[k][1]) IN [i \in Idx(rows) |-> 500 * (S(rows[i]) + E(rows[i])) + OffOf(sz, pad, k)]]),
        lines |-> FlattenSeq([k \in Idx(sz) |-> IF ~TSG(r) THEN <<>> ELSE
                   LET rows == OnChrom(r.sg, sz[k][1]) IN
                   [i \in Idx(rows) |-> <<1000 * S(rows[i]) + OffOf(sz, pad, k), 1000 * E(rows[i]) + OffOf(sz, pad, k), X(rows[i])>>]])]

(* ========================================================================= diagram =================== *)
(* diagram.create_diagram up to build_chrom_diagram(features, chrom_sizes).  r.km = rows <<gene, probes>>    *)
(* yielded by reports.gene_metrics_by_gene / _by_segment, r.sq = cnarr.squash_genes() (kernels, from the trace) *)
SizeOf(sz, c) == (CHOOSE k \in Idx(sz) : sz[k][1] = c)
RECURSIVE FeatFold(_, _, _, _, _)
FeatFold(rows, k, seen, acc, p) ==      \* p = [sz, strand, labels, glabels]
    IF k > Len(rows) THEN acc
    ELSE LET row == rows[k]
             ok == S(row) - 1 >= 0 /\ E(row) <= p.sz[SizeOf(p.sz, C(row))][2]            \* "Sanity check"
             named == p.labels /\ G(row) \in p.glabels /\ G(row) \notin seen
         IN IF ~ok THEN FeatFold(rows, k + 1, seen, acc, p)
            ELSE FeatFold(rows, k + 1, IF named THEN seen \cup {G(row)} ELSE seen,
                          Append(acc, <<C(row), S(row) - 1, E(row), p.strand, IF named THEN G(row) ELSE <<>>>>), p)
DiagramErr(e) == [err |-> e, feats |-> <<>>, csizes |-> <<>>]
DiagramA(r) ==
    IF ~TB(r) /\ ~TSG(r) THEN DiagramErr("ValueError")                        \* "Must provide argument cnarr or segarr"
    ELSE IF r.rk # "none" /\ HasCoords(r) THEN DiagramErr("ValueError")       \* "genomic-range not allowed for 'diagram'"
    ELSE LET both  == TB(r) /\ TSG(r)
             isSeg == ~TB(r)
             q     == Qr(r.rc, 0, 0, FALSE, FALSE)
             cn0   == IF TB(r) THEN r.a ELSE r.sg
             cn    == IF r.rk = "none" THEN cn0 ELSE Want(cn0, "outer", q)
             sgf   == IF ~TSG(r) THEN <<>> ELSE IF r.rk = "none" THEN r.sg ELSE Want(r.sg, "outer", q)
             gl    == IF isSeg
                      THEN {G(row) : row \in {x \in Range(cn) : AbsI(X(x)) >= r.thr8 /\ ~WholeIn(G(x), IgnoreNames) /\ P6(x) >= r.minp}}
                      ELSE {kr[1] : kr \in {y \in Range(r.km) : y[2] >= r.minp}}
             sz    == ChromSizesA(cn)
             binF  == FeatFold(IF isSeg THEN cn ELSE r.sq, 1, {}, <<>>,
                               [sz |-> sz, strand |-> IF both THEN 1 ELSE 0, labels |-> r.labels, glabels |-> gl])
             segOK == SelectSeq(sgf, LAMBDA x : S(x) - 1 >= 0)
             segF  == IF ~both THEN <<>>
                      ELSE LET keep == SelectSeq(segOK, LAMBDA x : E(x) <= sz[SizeOf(sz, C(x))][2]) IN
                           [k \in Idx(keep) |-> <<C(keep[k]), S(keep[k]) - 1, E(keep[k]), -1, <<>>>>]
         IN IF both /\ \E k \in Idx(segOK) : C(segOK[k]) \notin Chroms(cn) THEN DiagramErr("KeyError")   \* chrom_sizes[chrom]
            ELSE [err |-> "", csizes |-> sz,
                  feats |-> FlattenSeq([n \in Idx(sz) |-> SelectSeq(binF, LAMBDA f : f[1] = sz[n][1])
                                                          \o SelectSeq(segF, LAMBDA f : f[1] = sz[n][1])])]

(* ========================================================================= heatmap ==================== *)
(* heatmap.do_heatmap up to pcolormesh.  r.samples[i] = <<is_segments, rows>>.  Modelled: the region, the     *)
(* chromosome sizes, the offsets and the axis limits; the cell matrix is judged by the P-layer only.           *)
HmKind(r, i) == IF r.samples[i][1] THEN "segs" ELSE "bins"
HmSimple(r, i) == IF r.bybin THEN SimpleOf(HmKind(r, i), r.samples[i][2]) ELSE [err |-> "", ot |-> r.samples[i][2]]
HmTab(r, i) == HmSimple(r, i).ot
HmN(r) == Len(r.samples)
HmRegion(r) ==                           \* [err, reg]
    IF r.bybin /\ r.rk # "none"
    THEN LET cnr == {i \in 1..HmN(r) : ~r.samples[i][1]} IN                     \* next(c for c in cnarrs if "probes" not in c)
         IF cnr = {} THEN [err |-> IF HasCoords(r) THEN "ValueError" ELSE "", reg |-> ParsedRegion(r)]
         ELSE [err |-> "", reg |-> RegionToBinsOn(r, r.samples[Min(cnr)][2])]
    ELSE [err |-> "", reg |-> ParsedRegion(r)]
HmQ(reg) == Qr(reg.c, reg.s, reg.e, reg.hs, reg.he)
HmSub(r, i, reg) == Want(HmTab(r, i), "trim", HmQ(reg))
HmRegionSize(r, reg) == Max({0} \cup {E(HmSub(r, i, reg)[Len(HmSub(r, i, reg))]) : i \in {j \in 1..HmN(r) : HmSub(r, j, reg) # <<>>}})
HmChromOrder(r) == UniqSeq(FlattenSeq([i \in 1..HmN(r) |-> FirstApp(HmTab(r, i))]), <<>>)
HmLastWith(r, c) == Max({i \in 1..HmN(r) : c \in Chroms(HmTab(r, i))})
HmSizes(r) == LET cs == HmChromOrder(r) IN          \* max(end, chrom_sizes.get(r_chrom, 0)) with r_chrom = None: the last sample wins
    [n \in Idx(cs) |-> <<cs[n], E(LastOn(HmTab(r, HmLastWith(r, cs[n])), cs[n]))>>]
HmOff(sz, k) == (2 * k - 1) + SumSeq([j \in 1..(k - 1) |-> sz[j][2]])          \* plot_chromosome_dividers(axis, sizes, 1)
HmErr(e) == [err |-> e, lim |-> <<>>, offsets |-> <<>>]
HeatmapA(r) ==
    LET hr == HmRegion(r) IN
    IF hr.err # "" THEN HmErr(hr.err)
    ELSE IF \E i \in 1..HmN(r) : HmSimple(r, i).err # "" THEN HmErr("ValueError")
    ELSE IF r.rk # "none"
         THEN LET reg == hr.reg IN
              [err |-> "", offsets |-> <<>>,
               lim |-> <<IF reg.hs THEN reg.s ELSE 0, IF reg.he /\ reg.e # 0 THEN reg.e ELSE HmRegionSize(r, reg)>>]
         ELSE LET sz == HmSizes(r)  n == Len(sz) IN
              [err |-> "", offsets |-> [k \in 1..n |-> <<sz[k][1], HmOff(sz, k), sz[k][2]>>],
               lim |-> <<0, HmOff(sz, n) + sz[n][2] + 2>>]
(* the (start, end) keys of the table that do_heatmap assembles (pd.DataFrame.from_dict of the per-sample Series) *)
HmAOff(r, c) == LET sz == HmSizes(r) IN HmOff(sz, SizeOf(sz, c))
HmAKeys(r) == UNION {IF r.rk # "none"
                     THEN {<<S(row), E(row)>> : row \in Range(HmSub(r, i, HmRegion(r).reg))}
                     ELSE {<<S(row) + HmAOff(r, C(row)), E(row) + HmAOff(r, C(row))>> : row \in Range(HmTab(r, i))} : i \in 1..HmN(r)}
(* what is drawn for sample i: every valued cell j spans [xs[j], xs[j+1]] *)
HmValued(r, i) == {j \in 1..(Len(r.xs) - 1) : r.cells[i][j][1]}
HmCells(r, i) == {<<r.xs[j], r.xs[j + 1], r.cells[i][j][2]>> : j \in HmValued(r, i)}
HmObsOff(r, c) == (CHOOSE o \in Range(r.offsets) : o[1] = c)[2]
HmExpectedRows(r, i) ==
    IF r.rk # "none" THEN LET sub == HmSub(r, i, HmRegion(r).reg) IN [k \in Idx(sub) |-> <<S(sub[k]), E(sub[k]), X(sub[k])>>]
    ELSE LET t == HmTab(r, i) IN [k \in Idx(t) |-> <<S(t[k]) + HmObsOff(r, C(t[k])), E(t[k]) + HmObsOff(r, C(t[k])), X(t[k])>>]

(* ========================================================================= P-layer ==================== *)
PdOps == {"from_label", "unpack_range", "roundtrip", "chrom_sizes", "dividers", "region_to_bins", "binwise", "simple",
          "segs_to_bins", "repeat_slices", "cvg2rgb", "genes_by_name", "genes_by_range", "select", "seg_color", "seg_vafs",
          "genome_layout", "diagram", "heatmap"}
PdClauses(op) ==
    CASE op = "from_label"     -> {"lbl_parse_1based", "lbl_open_end", "lbl_open_start_doc", "lbl_invalid_rejected", "lbl_fields"}
      [] op = "unpack_range"   -> {"ur_chrom_only", "ur_label", "ur_tuple", "ur_not_a_range"}
      [] op = "roundtrip"      -> {"rt_label_1based", "rt_roundtrip"}
      [] op = "chrom_sizes"    -> {"cs_noerr", "cs_max_end", "cs_natural_order"}
      [] op = "dividers"       -> {"dv_offsets_table", "dv_slots_disjoint", "dv_centered", "dv_limits", "dv_labels", "dv_along",
                                   "dv_bad_along"}
      [] op = "region_to_bins" -> {"rb_noerr", "rb_passthrough", "rb_bracket"}
      [] op = "binwise"        -> {"bb_noerr", "bb_bins_enumerated", "bb_other_columns_kept", "bb_inputs_untouched",
                                   "bb_seg_at_bin_start", "bb_seg_end_tiling", "bb_var_in_own_bin", "bb_var_fractional"}
      [] op = "simple"         -> {"sb_bins_enumerated"}
      [] op = "segs_to_bins"   -> {"s2b_bin_indices"}
      [] op = "repeat_slices"  -> {"rs_exact_runs"}
      [] op = "cvg2rgb"        -> {"cr_unit_range", "cr_hue", "cr_white_at_zero", "cr_saturates"}
      [] op = "genes_by_name"  -> {"gn_each_gene_located", "gn_missing_rejected", "gn_no_extra", "gn_empty"}
      [] op = "genes_by_range" -> {"gr_noerr", "gr_names_exact", "gr_extent"}
      [] op = "select"         -> {"sel_genome_when_nothing", "sel_chrom_only_whole", "sel_region_window", "sel_open_ended",
                                   "sel_dash_all_genes", "sel_genes_in_region", "sel_gene_override", "sel_gene_window",
                                   "sel_genes_same_chrom", "sel_gene_outside_region", "sel_gene_chrom_mismatch",
                                   "sel_unknown_gene", "sel_empty_gene_no_highlight", "sel_probes_exact", "sel_segs_trimmed",
                                   "sel_snvs_exact", "sel_noerr_doc"}
      [] op = "seg_color"      -> {"sc_no_call_info", "sc_autosome_cna", "sc_autosome_neutral"}
      [] op = "seg_vafs"       -> {"sv_noerr", "sv_value_in_group"}
      [] op = "genome_layout"  -> {"gl_noerr", "gl_bins_in_own_slot"}
      [] op = "diagram"        -> {"dg_needs_input", "dg_range_rejected", "dg_chrom_only", "dg_labels_threshold", "dg_qualifying_labelled",
                                   "dg_no_labels", "dg_sides"}
      [] op = "heatmap"        -> {"hm_noerr", "hm_samples_in_order", "hm_cells_faithful", "hm_slots_disjoint",
                                   "hm_bybin_needs_cnr"}
      [] OTHER                 -> {}

Ok(r) == r.err = ""
BothDigits(p) == p.sd # <<>> /\ p.ed # <<>> /\ DigitsVal(p.sd) >= 1
EnumeratedBins(a, out) ==      \* "All bins will be shown with equal width, no blank regions will be shown, and x-axis values
                               \*  indicate bin number (within chromosome)" (--by-bin help); "the positions indicate enumerated bins"
    /\ Len(out) = Len(a)
    /\ \A k \in Idx(a) : /\ C(out[k]) = C(a[k])
                         /\ S(out[k]) = Cardinality({i \in 1..(k - 1) : C(a[i]) = C(a[k])})
                         /\ E(out[k]) = S(out[k]) + 1
OwnBin(a, v) == LET bs == OnChrom(a, C(v))  js == {j \in Idx(bs) : S(bs[j]) <= S(v) /\ S(v) < E(bs[j])} IN
                IF js = {} THEN 0 ELSE Min(js)
VarRunsOn(a, va, ps) ==        \* maximal runs (p, q), p < q, of consecutive variants of one chromosome inside the same bin
    {pq \in (1..Len(ps)) \X (1..Len(ps)) :
        /\ pq[1] < pq[2] /\ OwnBin(a, va[ps[pq[1]]]) # 0
        /\ \A i \in pq[1]..pq[2] : OwnBin(a, va[ps[i]]) = OwnBin(a, va[ps[pq[1]]])
        (* the neighbours lie in other bins (a neighbour between bins could be grouped either way: not judged) *)
        /\ (pq[1] = 1 \/ OwnBin(a, va[ps[pq[1] - 1]]) \notin {0, OwnBin(a, va[ps[pq[1]]])})
        /\ (pq[2] = Len(ps) \/ OwnBin(a, va[ps[pq[2] + 1]]) \notin {0, OwnBin(a, va[ps[pq[1]]])})}
Within(r) == r.rs <= ReqMinStart(r) /\ ReqMaxEnd(r) <= r.re
GeneDocOK(r) == \/ ~r.hg
                \/ Req(r) = {} /\ (ClosedRange(r) \/ (~GeneTruthy(r) /\ r.rk = "none"))
                \/ /\ AllFound(r) /\ Cardinality(ReqChroms(r)) = 1 /\ (r.rk = "none" \/ r.rc \in ReqChroms(r))
                   /\ (ClosedRange(r) => Within(r))
SelDocOK(r) == /\ (r.rk \in {"none", "chrom"} \/ ClosedRange(r)) /\ GeneDocOK(r)
               /\ (r.bybin => (TB(r) /\ r.rk \in {"none", "chrom"}))
DgIsSeg(r) == ~TB(r)
HmNextBoundary(r, k) == IF k < Len(r.offsets) THEN r.offsets[k + 1][2] ELSE r.lim[2]

PdHolds(c, r) ==
    CASE
    (* ---- rangelabel.  Module docstring: "chromosome:start-end, e.g. chr1:1234-5678, with 1-indexed integer coordinates";
            unpack_range: "chr1:100-123" -> ("chr1", 99, 123) ---- *)
         c = "lbl_parse_1based" -> LET p == LabelParts(r.text) IN (WellFormed(r.text) /\ BothDigits(p)) =>
            (Ok(r) /\ r.hc /\ r.chrom = p.chrom /\ r.hs /\ r.s = DigitsVal(p.sd) - 1 /\ r.he /\ r.e = DigitsVal(p.ed))
    (* "We also allow chr1:1234- ... missing end becomes None" *)
      [] c = "lbl_open_end" -> LET p == LabelParts(r.text) IN
            (WellFormed(r.text) /\ p.sd # <<>> /\ DigitsVal(p.sd) >= 1 /\ p.ed = <<>>) =>
            (Ok(r) /\ r.hc /\ r.chrom = p.chrom /\ r.hs /\ r.s = DigitsVal(p.sd) - 1 /\ ~r.he)
    (* "... or chr1:-5678, where missing start becomes 0 and missing end becomes None" (module and from_label docstrings) *)
      [] c = "lbl_open_start_doc" -> LET p == LabelParts(r.text) IN (WellFormed(r.text) /\ p.sd = <<>>) =>
            (Ok(r) /\ r.hc /\ r.chrom = p.chrom /\ r.hs /\ r.s = 0
             /\ (IF p.ed = <<>> THEN ~r.he ELSE r.he /\ r.e = DigitsVal(p.ed)))
    (* ValueError("Invalid range spec: ... (should be like: chr1:2333000-2444000)") *)
      [] c = "lbl_invalid_rejected" -> ~HasChar(r.text, ch_colon) => r.err = "ValueError"
    (* keep_gene: "If True, include gene names as a 4th field where available; otherwise return a 3-field Region" *)
      [] c = "lbl_fields" -> Ok(r) => (r.nf = (IF r.keep THEN 4 ELSE 3) /\ ((r.keep /\ WellFormed(r.text)) => r.gene = <<>>))
    (* unpack_range examples: "chr1" -> ("chr1", None, None) *)
      [] c = "ur_chrom_only" -> (r.kind = "text" /\ ~HasChar(r.text, ch_colon)) => (Ok(r) /\ Reg3(r) = <<TRUE, r.text, FALSE, 0, FALSE, 0>>)
    (* "chr1:100-123" -> ("chr1", 99, 123) *)
      [] c = "ur_label" -> LET p == LabelParts(r.text) IN (r.kind = "text" /\ WellFormed(r.text) /\ BothDigits(p)) =>
            (Ok(r) /\ Reg3(r) = <<TRUE, p.chrom, TRUE, DigitsVal(p.sd) - 1, TRUE, DigitsVal(p.ed)>>)
    (* ("chr1", 100, 123) -> ("chr1", 100, 123);  a_range: Union[str, Sequence] *)
      [] c = "ur_tuple" -> r.kind \in {"tuple3", "list3"} => (Ok(r) /\ Reg3(r) = <<TRUE, r.tc, TRUE, r.ts, TRUE, r.te>>)
    (* ValueError("Not a range: ...") *)
      [] c = "ur_not_a_range" -> r.kind \in {"tuple2", "int"} => r.err = "ValueError"
    (* to_label: "Convert a Region tuple to a region label" with 1-indexed start *)
      [] c = "rt_label_1based" -> Ok(r) /\ r.label = ToLabelA(r.chrom, r.s, r.e)
    (* the label of a 0-based half-open region parses back to the same region *)
      [] c = "rt_roundtrip" -> ChromWord(r.chrom) =>
            (r.berr = "" /\ <<r.bhc, r.bchrom, r.bhs, r.bs, r.bhe, r.be>> = <<TRUE, r.chrom, TRUE, r.s, TRUE, r.e>>)
    (* ---- chromosome_sizes: "Create an ordered mapping of chromosome names to sizes"; heatmap: "the size (max endpoint
            value) of each chromosome" ---- *)
      [] c = "cs_noerr" -> Ok(r)
      [] c = "cs_max_end" -> Ok(r) => /\ {r.sizes[k][1] : k \in 1..Len(r.sizes)} = Chroms(r.a)
                                      /\ Len(r.sizes) = Cardinality(Chroms(r.a))
                                      /\ \A k \in 1..Len(r.sizes) : r.sizes[k][2] = MaxEndOn(r.a, r.sizes[k][1])
      [] c = "cs_natural_order" -> (Ok(r) /\ \A k \in 1..(Len(r.a) - 1) : C(r.a[k]) <= C(r.a[k + 1])) =>
                                   \A k \in 1..(Len(r.sizes) - 1) : r.sizes[k][1] < r.sizes[k + 1][1]
    (* ---- plot_chromosome_dividers: "Returns: A table of the position offsets of each chromosome along the specified axis" *)
      [] c = "dv_offsets_table" -> r.along \in {"x", "y"} =>
            (Ok(r) /\ [k \in 1..Len(r.starts) |-> r.starts[k][1]] = [k \in 1..Len(r.sizes) |-> r.sizes[k][1]])
    (* "Draws black lines between each chromosome, with padding": every divider lies between the end of one chromosome's
       slot and the start of the next; slots do not overlap *)
      [] c = "dv_slots_disjoint" -> (r.along \in {"x", "y"} /\ Ok(r) /\ Len(r.starts) = Len(r.sizes)) =>
            LET n == Len(r.sizes) IN
            /\ Len(r.lines) = MaxI(n - 1, 0) /\ (n >= 1 => r.starts[1][2] >= 0)
            /\ \A k \in 1..(n - 1) : /\ r.starts[k][2] + 1000 * r.sizes[k][2] <= r.lines[k] /\ r.lines[k] <= r.starts[k + 1][2]
                                     /\ (Pad1000(r) > 0 => (r.starts[k][2] + 1000 * r.sizes[k][2] < r.lines[k]
                                                            /\ r.lines[k] < r.starts[k + 1][2]))
    (* "Labels each chromosome range with the chromosome name, centered in the region, under a tick" *)
      [] c = "dv_centered" -> (r.along \in {"x", "y"} /\ Ok(r) /\ Len(r.starts) = Len(r.sizes)) =>
            (Len(r.ticks) = Len(r.sizes) /\ \A k \in 1..Len(r.sizes) : r.ticks[k] = r.starts[k][2] + 500 * r.sizes[k][2])
    (* "Sets the axis limits to the covered range" *)
      [] c = "dv_limits" -> (r.along \in {"x", "y"} /\ Ok(r) /\ Len(r.starts) = Len(r.sizes)) =>
            LET n == Len(r.sizes) IN Len(r.lim) = 2 /\ r.lim[1] = 0 /\ (n >= 1 => r.lim[2] >= r.starts[n][2] + 1000 * r.sizes[n][2])
      [] c = "dv_labels" -> (r.along \in {"x", "y"} /\ Ok(r)) => r.labels = [k \in 1..Len(r.sizes) |-> r.sizes[k][1]]
    (* "If the `along` parameter is 'y', this is transposed to horizontal dividers and the labels on the Y axis" *)
      [] c = "dv_along" -> (r.along \in {"x", "y"} /\ Ok(r)) => r.axis = r.along
    (* ValueError("Direction for plotting chromosome dividers and labels along must be either x or y.") *)
      [] c = "dv_bad_along" -> r.along \notin {"x", "y"} => r.err = "ValueError"
    (* ---- translate_region_to_bins: "Map genomic coordinates to bin indices. Return a tuple of (chrom, start, end), just
            like unpack_range" ---- *)
      [] c = "rb_noerr" -> Ok(r)
    (* (the text "chr:-" is left to the A-layer: the code reads it as the chromosome alone, the docstring as start 0) *)
      [] c = "rb_passthrough" -> (Ok(r) /\ r.rk \in {"none", "chrom"}) =>
            (IF r.rk = "none" THEN ~r.hc /\ ~r.hs /\ ~r.he ELSE r.hc /\ r.c = r.rc /\ ~r.hs /\ ~r.he)
    (* the index range contains every bin wholly inside the region and only bins that overlap it *)
      [] c = "rb_bracket" -> (Ok(r) /\ HasCoords(r)) =>
            LET bs == OnChrom(r.a, r.rc)  n == Len(bs)  lo == IF r.rhs THEN r.rs ELSE 0 IN
            /\ r.hc /\ r.c = r.rc /\ r.hs /\ r.he /\ 0 <= r.s /\ r.s <= r.e /\ r.e <= n
            /\ \A k \in 1..n : /\ (S(bs[k]) >= lo /\ (r.rhe => E(bs[k]) <= r.re)) => (r.s <= k - 1 /\ k - 1 < r.e)
                               /\ (r.s <= k - 1 /\ k - 1 < r.e) => (E(bs[k]) > lo /\ (r.rhe => S(bs[k]) < r.re))
    (* ---- update_binwise_positions ---- *)
      [] c = "bb_noerr" -> Ok(r)
      [] c = "bb_bins_enumerated" -> Ok(r) => EnumeratedBins(r.a, r.oa)
      [] c = "bb_other_columns_kept" -> (Ok(r) /\ Len(r.oa) = Len(r.a)) => \A k \in Idx(r.a) : G(r.oa[k]) = G(r.a[k]) /\ X(r.oa[k]) = X(r.a[k])
    (* "Returns copies of the 3 input objects with revised `start` and `end` arrays" *)
      [] c = "bb_inputs_untouched" -> r.aa = r.a /\ (r.hsg => r.asg = r.sg) /\ (r.hv => r.ava = r.va)
    (* "the `cnarr` bins are mapped to corresponding `segments`": a segment that starts at a bin starts at that bin's index *)
      [] c = "bb_seg_at_bin_start" -> (Ok(r) /\ r.hsg) =>
            /\ Len(r.osg) = Len(r.sg)
            /\ \A k \in Idx(r.sg) : BinAtStart(r.a, C(r.sg[k]), S(r.sg[k])) # {} =>
                                    S(r.osg[k]) = Min(BinAtStart(r.a, C(r.sg[k]), S(r.sg[k]))) - 1
    (* ... and, where the segments tile the bins, ends at the index after its last bin *)
      [] c = "bb_seg_end_tiling" -> (Ok(r) /\ r.hsg /\ r.sg # <<>> /\ Tiling(r.a, r.sg, FALSE)) => TiledIndices(r.a, r.sg, r.osg)
    (* "`variants` are grouped into `cnarr` bins as well": a variant inside bin k is placed inside bin k's unit interval *)
      [] c = "bb_var_in_own_bin" -> (Ok(r) /\ r.hv) =>
            /\ Len(r.ova) = Len(r.va)
            /\ \A k \in Idx(r.va) : OwnBin(r.a, r.va[k]) # 0 =>
                  (840 * (OwnBin(r.a, r.va[k]) - 1) <= S(r.ova[k]) /\ S(r.ova[k]) < 840 * OwnBin(r.a, r.va[k]))
    (* "if multiple `variants` rows fall within a single bin, equally-spaced fractional positions are used" *)
      [] c = "bb_var_fractional" -> (r.hv /\ r.va # <<>>) =>
            /\ Ok(r) /\ Len(r.ova) = Len(r.va)
            /\ \A ch \in Chroms(r.a) \cap Chroms(r.va) : LET ps == PosOn(r.va, ch) IN
                 \A pq \in VarRunsOn(r.a, r.va, ps) : LET m == pq[2] - pq[1] + 1  base == S(r.ova[ps[pq[1]]]) IN
                    base % 840 = 0 /\ \A i \in pq[1]..pq[2] : S(r.ova[ps[i]]) = base + (i - pq[1]) * (840 \div m)
      [] c = "sb_bins_enumerated" -> (r.kind = "bins" /\ r.t # <<>>) => (Ok(r) /\ EnumeratedBins(r.t, r.ot))
    (* segments translate to the indices of the bins that contain their ends (task statement; both code paths) *)
      [] c = "s2b_bin_indices" -> (r.sg # <<>> /\ Tiling(r.a, r.sg, r.hp)) => (Ok(r) /\ TiledIndices(r.a, r.sg, r.osg))
    (* get_repeat_slices: "Find the location and size of each repeat in `values`" *)
      [] c = "rs_exact_runs" -> Ok(r) /\ r.sl = MaxRuns(r.vals)
    (* ---- cvg2rgb: "Choose a shade of red or blue representing log2-coverage value";
            "cutoff = 1.33  # Values above this magnitude are shown with max intensity" ---- *)
      [] c = "cr_unit_range" -> Ok(r) /\ \A j \in 1..3 : 0 <= r.rgb[j] /\ r.rgb[j] <= 1000000
    (* (with desaturation the tint of |cvg| < 1/16 is below 0.001 and not judged) *)
      [] c = "cr_hue" -> Ok(r) => LET faint == r.desat /\ AbsI(r.k) < 64 IN
                                  IF r.k < 0 THEN r.rgb[1] = r.rgb[2] /\ (faint \/ r.rgb[2] <= r.rgb[3])
                                  ELSE r.rgb[2] = r.rgb[3] /\ (faint \/ r.rgb[3] <= r.rgb[1])
      [] c = "cr_white_at_zero" -> (Ok(r) /\ r.k = 0) => r.rgb = <<1000000, 1000000, 1000000>>
      [] c = "cr_saturates" -> (Ok(r) /\ 100 * AbsI(r.k) >= 133 * 1024) => r.rgb = r.sat
    (* ---- gene_coords_by_name: "Find the chromosomal position of each named gene in probes.
            Returns dict {chromosome: [(start, end, gene name), ...]}" ---- *)
      [] c = "gn_each_gene_located" -> Ok(r) => \A n \in ReqNames(r.names) : \E en \in EntrySet(r.res) :
            en[1] \in NameChroms(r.a, n) /\ en[2] = NameStart(r.a, n) /\ en[3] = NameEnd(r.a, n) /\ n \in en[4]
    (* ValueError("No targeted gene named ... found") *)
      [] c = "gn_missing_rejected" -> ((\E n \in ReqNames(r.names) : NamePos(r.a, n) = {})
                                       /\ \A n \in ReqNames(r.names) : Cardinality(NameChroms(r.a, n)) <= 1) => r.err = "ValueError"
      [] c = "gn_no_extra" -> Ok(r) => \A en \in EntrySet(r.res) : \E n \in ReqNames(r.names) :
            NamePos(r.a, n) # {} /\ en[1] \in NameChroms(r.a, n) /\ en[2] = NameStart(r.a, n) /\ en[3] = NameEnd(r.a, n)
      [] c = "gn_empty" -> ReqNames(r.names) = {} => (Ok(r) /\ r.res = <<>>)
    (* ---- gene_coords_by_range: "Find the chromosomal position of all genes in a range" ---- *)
      [] c = "gr_noerr" -> Ok(r)
      [] c = "gr_names_exact" -> Ok(r) => /\ {Range(r.res[k][3]) : k \in 1..Len(r.res)} = GeneNameSets(r.a, Qr(r.c, r.s, r.e, r.hs, r.he))
                                          /\ \A j, k \in 1..Len(r.res) : j # k => r.res[j][3] # r.res[k][3]
      [] c = "gr_extent" -> Ok(r) => \A k \in 1..Len(r.res) :
            LET rows == SelectSeq(Want(r.a, "outer", Qr(r.c, r.s, r.e, r.hs, r.he)), LAMBDA x : G(x) = r.res[k][3]) IN
            rows # <<>> /\ r.res[k][1] = Min({S(rows[j]) : j \in Idx(rows)}) /\ r.res[k][2] = Max({E(rows[j]) : j \in Idx(rows)})
    (* ---- scatter selection (doc/plots.rst "Selection and highlighting", CLI help, select_range_genes docstring) ---- *)
    (* "Without any further arguments, this plots the genome-wide copy number" *)
      [] c = "sel_genome_when_nothing" -> (r.rk = "none" /\ ~r.hg) =>
            /\ Ok(r) => r.which = "genome"
            /\ ~r.bybin => (Ok(r) /\ r.probes = (IF r.hb THEN r.a ELSE <<>>))
    (* "A chromosome name alone (e.g. -c chr5) plots the whole chromosome. (No genes are highlighted.)" *)
      [] c = "sel_chrom_only_whole" -> (r.rk = "chrom" /\ ~r.hg /\ ~r.bybin) =>
            /\ Ok(r) /\ r.which = "chrom" /\ ObsGenes(r) = {}
            /\ r.probes = (IF TB(r) THEN OnChrom(r.a, r.rc) ELSE <<>>) /\ r.segs = (IF TSG(r) THEN OnChrom(r.sg, r.rc) ELSE <<>>)
    (* "A region label with chromosome name and 1-based start and end coordinates plots the specified region, with the
       start and end coordinates as the x-axis limits"; "If -c is used, -w is ignored -- only the specified genomic region
       will be shown, with no padding"; "Special behavior occurs if there are no genes in the selected region: Instead, the
       selection itself is treated as a gene, highlighted and labeled with the string Selection, with padding controlled by -w" *)
      [] c = "sel_region_window" -> (~r.bybin /\ ClosedRange(r) /\ Ok(r)) => RegionWindowOK(r)
    (* "If the start or end coordinate is left off, the region is extended to the end of the chromosome in the direction
       of the open coordinate" *)
      [] c = "sel_open_ended" -> (~r.bybin /\ HasCoords(r) /\ ~ClosedRange(r) /\ Ok(r)) => RegionWindowOK(r)
    (* "If both are left off but - remains (e.g. -c chrY:-), the whole chromosome is shown, with all genes highlighted" *)
      [] c = "sel_dash_all_genes" -> (~r.bybin /\ r.rk = "range" /\ r.rtext /\ ~r.rhs /\ ~r.rhe /\ ~r.hg /\ TB(r) /\ r.rc \in Chroms(r.a)) =>
            LET all == GeneNameSets(r.a, Qr(r.rc, 0, 0, FALSE, FALSE)) IN
            Ok(r) /\ r.probes = OnChrom(r.a, r.rc) /\ (all # {} => {g[3] : g \in ObsGenes(r)} = all)
    (* "All genes in this region (that are labeled in the input .cnr file) are highlighted and labeled" *)
      [] c = "sel_genes_in_region" -> (~r.bybin /\ HasCoords(r) /\ ~r.hg /\ TB(r) /\ Ok(r) /\ r.hw /\ ~IsSelection(r)) =>
            {g[3] : g \in ObsGenes(r)} = GeneNameSets(r.a, Qr(r.chrom, r.wlo, r.whi, TRUE, TRUE))
    (* "The -g option overrides the default behavior of showing all genes in the selection -- only the genes specified
       with -g will be highlighted and labeled" *)
      [] c = "sel_gene_override" -> (r.hg /\ AllFound(r) /\ Ok(r)) =>
            /\ \A n \in Req(r) : \E g \in ObsGenes(r) : n \in g[3] /\ g[1] = NameStart(NameTab(r), n) /\ g[2] = NameEnd(NameTab(r), n)
            /\ \A g \in ObsGenes(r) : \E n \in Req(r) : g[1] = NameStart(NameTab(r), n) /\ g[2] = NameEnd(NameTab(r), n)
    (* "A gene name or multiple gene names will plot the genomic [region] around that gene, or genes"; "The --width/-w
       argument determines the size of the plotted genomic region, in terms of basepairs flanking the selected region" *)
      [] c = "sel_gene_window" -> (r.hg /\ AllFound(r) /\ r.rk = "none" /\ Ok(r)) =>
            (r.hw /\ r.wlo = MaxI(0, ReqMinStart(r) - r.w) /\ r.whi = ReqMaxEnd(r) + r.w /\ r.chrom \in ReqChroms(r))
    (* "If multiple genes, they must all be on the same chromosome" *)
      [] c = "sel_genes_same_chrom" -> (~r.bybin /\ r.hg /\ AllFound(r) /\ Cardinality(ReqChroms(r)) > 1
                                        /\ (r.rk \in {"none", "chrom"} \/ ClosedRange(r))) => r.err = "ValueError"
    (* select_range_genes: "given region + genes; err if any gene outside it" *)
      [] c = "sel_gene_outside_region" -> (~r.bybin /\ r.hg /\ AllFound(r) /\ ClosedRange(r) /\ ReqChroms(r) = {r.rc} /\ ~Within(r)) =>
            r.err = "ValueError"
    (* ValueError("Chromosome also selected by region (-c) does not match ...") *)
      [] c = "sel_gene_chrom_mismatch" -> (~r.bybin /\ r.hg /\ AllFound(r) /\ (r.rk = "chrom" \/ ClosedRange(r))
                                           /\ Cardinality(ReqChroms(r)) = 1 /\ r.rc \notin ReqChroms(r)) => r.err = "ValueError"
    (* ValueError("No targeted gene named ... found") *)
      [] c = "sel_unknown_gene" -> (~r.bybin /\ r.hg /\ Req(r) # {} /\ (TB(r) \/ r.hsg) /\ (r.rk \in {"none", "chrom"} \/ ClosedRange(r))
                                    /\ (\E n \in Req(r) : NamePos(NameTab(r), n) = {})
                                    /\ \A n \in Req(r) : Cardinality(NameChroms(NameTab(r), n)) <= 1) => r.err = "ValueError"
    (* "To not show any genes, specify an empty string: -g ''"; "then the specified region will be plotted as usual, with
       nothing highlighted and no padding"; docstring: "show_gene is '' or ',' ... no genes will be highlighted" *)
      [] c = "sel_empty_gene_no_highlight" -> (~r.bybin /\ r.hg /\ Req(r) = {} /\ ClosedRange(r)) =>
            (Ok(r) /\ ObsGenes(r) = {} /\ r.hw /\ r.wlo = r.rs /\ r.whi = r.re)
    (* "Prune plotted elements to the selected region": exactly the bins overlapping the window ... *)
      [] c = "sel_probes_exact" -> (Ok(r) /\ r.which = "chrom" /\ r.chrom # 0) =>
            r.probes = (IF TB(r) THEN Want(SelTab(r), "outer", QWin(r.chrom, r.hw, r.wlo, r.whi)) ELSE <<>>)
    (* ... the segments overlapping it, trimmed to it ... *)
      [] c = "sel_segs_trimmed" -> (Ok(r) /\ r.which = "chrom" /\ r.chrom # 0 /\ ~r.bybin) =>
            r.segs = (IF TSG(r) THEN Want(r.sg, "trim", QWin(r.chrom, r.hw, r.wlo, r.whi)) ELSE <<>>)
    (* ... and the variants in it *)
      [] c = "sel_snvs_exact" -> (Ok(r) /\ r.which = "chrom" /\ r.chrom # 0 /\ ~r.bybin) =>
            r.snvs = (IF TV(r) THEN Want(Scale(r.va, 840), "outer", QWin(r.chrom, r.hw, 840 * r.wlo, 840 * r.whi)) ELSE <<>>)
    (* every invocation the documentation describes succeeds *)
      [] c = "sel_noerr_doc" -> SelDocOK(r) => Ok(r)
    (* ---- choose_segment_color: "Uses the fields added by the 'call' command. If these aren't present, use
            `highlight_color` for everything"; "Choose a display color based on a segment's CNA status" ---- *)
      [] c = "sc_no_call_info" -> (~r.hcn /\ r.bright) => (Ok(r) /\ r.color = "hl")
      [] c = "sc_autosome_cna" -> (r.hcn /\ r.ck = 1 /\ r.cn # 2) => (Ok(r) /\ r.color = "hl")
      [] c = "sc_autosome_neutral" -> (r.hcn /\ r.ck = 1 /\ r.cn = 2 /\ (~r.hal \/ r.cn1 = r.cn2)) => (Ok(r) /\ r.color = "neutral")
    (* ---- get_segment_vafs: "Group SNP allele frequencies by segment ... Yields (segment, value)"; plots.rst: "the
            b-allele frequency values above and below 0.5 of SNVs falling within each segment" ---- *)
      [] c = "sv_noerr" -> Ok(r)
      [] c = "sv_value_in_group" -> Ok(r) => \A k \in 1..Len(r.res) :
            LET j == r.res[k][1]  m == r.res[k][2] IN
            /\ j \in 0..Len(r.sg)
            /\ LET rows == VafGroup(r, j)
                   above == {VF(rows[i]) : i \in {n \in Idx(rows) : VF(rows[n]) > 32}}
                   below == {VF(rows[i]) : i \in {n \in Idx(rows) : VF(rows[n]) <= 32}}
               IN \/ m > 64 /\ above # {} /\ 2 * Min(above) <= m /\ m <= 2 * Max(above)
                  \/ m <= 64 /\ below # {} /\ 2 * Min(below) <= m /\ m <= 2 * Max(below)
    (* ---- cnv_on_genome: each chromosome's bins map into its own slot of the concatenated x axis ---- *)
      [] c = "gl_noerr" -> Ok(r)
      [] c = "gl_bins_in_own_slot" -> (Ok(r) /\ TB(r)) =>
            LET ids == [k \in 1..Len(r.starts) |-> r.starts[k][1]]
                off(ch) == r.starts[CHOOSE k \in 1..Len(r.starts) : r.starts[k][1] = ch][2]
            IN /\ Range(ids) = Chroms(r.a) /\ Len(ids) = Cardinality(Chroms(r.a))
               /\ \A k \in 1..(Len(ids) - 1) : r.starts[k + 1][2] >= r.starts[k][2] + 1000 * MaxEndOn(r.a, ids[k])
               /\ BagOf(r.pts) = BagOf([k \in Idx(r.a) |-> 500 * (S(r.a[k]) + E(r.a[k])) + off(C(r.a[k]))])
    (* ---- diagram ---- *)
    (* ValueError("Must provide argument cnarr or segarr, or both.") *)
      [] c = "dg_needs_input" -> (~r.hb /\ ~r.hsg) => r.err = "ValueError"
    (* -c: "Chromosome to display, e.g. 'chr1' (no chromosomal range allowed)";
       ValueError("Must provide chromosome only (genomic-range not allowed for 'diagram').") *)
      [] c = "dg_range_rejected" -> HasCoords(r) => r.err = "ValueError"
      [] c = "dg_chrom_only" -> (r.rk # "none" /\ Ok(r)) => \A k \in 1..Len(r.feats) : r.feats[k][1] = r.rc
    (* -t "Copy number change threshold to label genes"; -m "Minimum number of covered probes to label a gene" *)
      [] c = "dg_labels_threshold" -> Ok(r) =>
            /\ \A k \in 1..Len(r.feats) : LET f == r.feats[k] IN f[5] # <<>> =>
                 IF DgIsSeg(r)
                 THEN /\ \E row \in Range(r.sg) : C(row) = f[1] /\ S(row) - 1 = f[2] /\ E(row) = f[3] /\ G(row) = f[5]
                      /\ \E row \in Range(r.sg) : G(row) = f[5] /\ AbsI(X(row)) >= r.thr8 /\ P6(row) >= r.minp
                 ELSE \E kr \in Range(r.km) : kr[1] = f[5] /\ kr[2] >= r.minp
            /\ \A j, k \in 1..Len(r.feats) : (j # k /\ r.feats[j][5] # <<>>) => r.feats[j][5] # r.feats[k][5]
    (* ... and every gene that reaches both thresholds is labelled (once), provided one of its rows is drawn at all  *)
    (* (rows starting at 0 are skipped by the code's "sanity check" -- A-layer)                                      *)
      [] c = "dg_qualifying_labelled" -> (Ok(r) /\ r.labels) =>
            LET shown == IF r.rk # "none" THEN {r.rc} ELSE 1..1000        \* "chr" and "chr:-" both select the chromosome
                lab == {r.feats[k][5] : k \in 1..Len(r.feats)}
            IN IF DgIsSeg(r)
               THEN \A row \in Range(r.sg) :
                       (C(row) \in shown /\ AbsI(X(row)) >= r.thr8 /\ P6(row) >= r.minp /\ ~WholeIn(G(row), IgnoreNames)
                        /\ \E y \in Range(r.sg) : C(y) \in shown /\ G(y) = G(row) /\ S(y) >= 1) => G(row) \in lab
               ELSE \A kr \in Range(r.km) :
                       (kr[2] >= r.minp /\ \E y \in Range(r.sq) : G(y) = kr[1] /\ S(y) >= 1) => kr[1] \in lab
    (* --no-gene-labels: "Disable gene_name labels on plot" *)
      [] c = "dg_no_labels" -> (Ok(r) /\ ~r.labels) => \A k \in 1..Len(r.feats) : r.feats[k][5] = <<>>
    (* "If both the bin-level log2 ratios and segmentation calls are given, show them side-by-side on each chromosome
       (segments on the left side, bins on the right side)" *)
      [] c = "dg_sides" -> (Ok(r) /\ TB(r) /\ TSG(r)) => \A k \in 1..Len(r.feats) : LET f == r.feats[k] IN
            \/ f[4] = -1 /\ \E row \in Range(r.sg) : C(row) = f[1] /\ S(row) - 1 = f[2] /\ E(row) = f[3]
            \/ f[4] = 1 /\ \E row \in Range(r.sq) : C(row) = f[1] /\ S(row) - 1 = f[2] /\ E(row) = f[3]
    (* ---- heatmap ---- *)
      [] c = "hm_noerr" -> ~(r.bybin /\ r.rk = "range" /\ \A i \in 1..HmN(r) : r.samples[i][1]) => Ok(r)
    (* "The samples are shown in the order they're given on the command line" *)
      [] c = "hm_samples_in_order" -> Ok(r) => r.labels = [i \in 1..HmN(r) |-> i]
    (* "Draw copy number (either bins or segments) for multiple samples as a heatmap" / "-c": each sample's row shows
       exactly that sample's intervals (of the selected region, clipped to it) at their coordinates, nothing else *)
      [] c = "hm_cells_faithful" -> (Ok(r) /\ ~(r.bybin /\ HasCoords(r))) =>
            IF r.xs = <<>> THEN \A i \in 1..HmN(r) : HmExpectedRows(r, i) = <<>>
            ELSE /\ Len(r.cells) = HmN(r)
                 /\ \A i \in 1..HmN(r) : /\ Len(r.cells[i]) = Len(r.xs) - 1
                                         /\ HmCells(r, i) = Range(HmExpectedRows(r, i))
                                         /\ Cardinality(HmValued(r, i)) = Len(HmExpectedRows(r, i))
    (* genome-wide: "Calculate the size (max endpoint value) of each chromosome"; dividers between chromosomes: every
       sample's intervals stay inside their own chromosome's slot *)
      [] c = "hm_slots_disjoint" -> (Ok(r) /\ r.rk = "none") =>
            /\ \A j, k \in 1..Len(r.offsets) : j # k => r.offsets[j][1] # r.offsets[k][1]
            /\ \A i \in 1..HmN(r) : \A row \in Range(HmTab(r, i)) : \E k \in 1..Len(r.offsets) :
                  r.offsets[k][1] = C(row) /\ E(row) + r.offsets[k][2] <= HmNextBoundary(r, k)
    (* ValueError("Need at least 1 .cnr input file if --by-bin (by_bin) and --chromosome (show_range) are both used to
       specify a sub-chromosomal region.") *)
      [] c = "hm_bybin_needs_cnr" -> (r.bybin /\ HasCoords(r) /\ \A i \in 1..HmN(r) : r.samples[i][1]) => r.err = "ValueError"

(* ========================================================================= premises =================== *)
AsciiText(t) == Len(t) <= 60 /\ \A k \in 1..Len(t) : t[k] \in 1..127
DigitRunsShort(t) == \A k \in 1..Len(t) : (IsDigit(t[k]) /\ k + 9 <= Len(t)) => \E j \in k..(k + 9) : ~IsDigit(t[j])
TableOK(t) == Sorted(t) /\ PositiveW(t) /\ NonNeg(t) /\ DisjointOnChrom(t)
RegionOK(r) == /\ r.rk \in {"none", "chrom", "range"} /\ r.rs >= 0 /\ r.re >= 0
               /\ (r.rk = "range" /\ r.rhs /\ r.rhe) => r.rs < r.re
               /\ (r.rk = "range" /\ r.rhe) => r.re > 0
RunsShort(a, va) == \A ch \in Chroms(a) \cap Chroms(va) : LET ps == PosOn(va, ch) IN
                        \A pq \in VarRunsOn(a, va, ps) : pq[2] - pq[1] + 1 <= 8
PdPremise(r) ==
    CASE r.op = "from_label"     -> AsciiText(r.text) /\ DigitRunsShort(r.text)
      [] r.op = "unpack_range"   -> AsciiText(r.text) /\ DigitRunsShort(r.text) /\ AsciiText(r.tc)
      [] r.op = "roundtrip"      -> AsciiText(r.chrom) /\ r.s >= 0 /\ r.e >= 0
      [] r.op = "chrom_sizes"    -> NonNeg(r.a)
      [] r.op = "dividers"       -> /\ \A j, k \in 1..Len(r.sizes) : j # k => r.sizes[j][1] # r.sizes[k][1]
                                    /\ \A k \in 1..Len(r.sizes) : r.sizes[k][2] >= 0
                                    /\ r.pad >= 0 /\ SumSizes(r.sizes) <= 300000
      [] r.op = "region_to_bins" -> Sorted(r.a) /\ PositiveW(r.a) /\ NonNeg(r.a) /\ RegionOK(r)
      [] r.op = "binwise"        -> /\ TableOK(r.a) /\ (r.hsg => TableOK(r.sg))
                                    /\ (r.hv => (Sorted(r.va) /\ PositiveW(r.va) /\ NonNeg(r.va) /\ RunsShort(r.a, r.va)))
      [] r.op = "simple"         -> Sorted(r.t) /\ PositiveW(r.t) /\ NonNeg(r.t)
      [] r.op = "segs_to_bins"   -> TableOK(r.a) /\ TableOK(r.sg)
      [] r.op = "repeat_slices"  -> TRUE
      [] r.op = "cvg2rgb"        -> AbsI(r.k) <= 2048
      [] r.op = "genes_by_name"  -> NonNeg(r.a) /\ PositiveW(r.a)
      [] r.op = "genes_by_range" -> TableOK(r.a) /\ r.s >= 0 /\ ((r.hs /\ r.he) => r.s < r.e) /\ (r.he => r.e > 0)
      [] r.op = "select"         -> /\ (r.hb => TableOK(r.a)) /\ (r.hsg => TableOK(r.sg))
                                    /\ (r.hv => (Sorted(r.va) /\ PositiveW(r.va) /\ NonNeg(r.va)))
                                    /\ RegionOK(r) /\ r.w >= 0
                                    /\ r.bybin => (r.w = 0 /\ ((r.hb /\ r.hv) => RunsShort(r.a, r.va)))
      [] r.op = "seg_color"      -> r.ck \in 1..3
      [] r.op = "seg_vafs"       -> /\ Sorted(r.va) /\ PositiveW(r.va) /\ NonNeg(r.va) /\ Cardinality(Chroms(r.va)) <= 1
                                    /\ r.hsg => (TableOK(r.sg) /\ Chroms(r.sg) \subseteq Chroms(r.va))
      [] r.op = "genome_layout"  -> /\ (TB(r) \/ TSG(r)) /\ (r.hb => TableOK(r.a)) /\ (r.hsg => TableOK(r.sg))
                                    /\ SumSizes(ChromSizesA(IF TB(r) THEN r.a ELSE r.sg)) <= 1000000
      [] r.op = "diagram"        -> (r.hb => TableOK(r.a)) /\ (r.hsg => TableOK(r.sg)) /\ RegionOK(r) /\ r.thr8 >= 0
      [] r.op = "heatmap"        -> /\ HmN(r) >= 1 /\ RegionOK(r)
                                    /\ \A i \in 1..HmN(r) : /\ r.samples[i][2] # <<>> /\ TableOK(r.samples[i][2])
                                                            /\ r.samples[i][1] => \A row \in Range(r.samples[i][2]) : P6(row) > 0
      [] OTHER -> FALSE

(* ========================================================================= A-layer dispatch, drift ==== *)
PdALayer(r) ==        \* a record of the output fields the A-layer predicts
    CASE r.op = "from_label"     -> FromLabelA(r.text, r.keep)
      [] r.op = "unpack_range"   -> UnpackA(r)
      [] r.op = "roundtrip"      -> RoundtripA(r)
      [] r.op = "chrom_sizes"    -> [err |-> "", sizes |-> ChromSizesA(r.a)]
      [] r.op = "dividers"       -> DividersA(r)
      [] r.op = "region_to_bins" -> RegionToBinsA(r)
      [] r.op = "binwise"        -> BinwiseA(r)
      [] r.op = "simple"         -> SimpleA(r)
      [] r.op = "segs_to_bins"   -> SegsToBinsA(r)
      [] r.op = "repeat_slices"  -> RepeatSlicesA(r)
      [] r.op = "genes_by_range" -> GenesByRangeA(r)
      [] r.op = "seg_color"      -> [err |-> "", color |-> SegColorA(r)]
      [] r.op = "seg_vafs"       -> SegVafsA(r)
      [] r.op = "genome_layout"  -> GenomeLayoutA(r)
      [] r.op = "diagram"        -> DiagramA(r)
      [] r.op = "heatmap"        -> HeatmapA(r)
      [] OTHER                   -> [err |-> r.err]
FieldsDiffer(r, o) == \E f \in DOMAIN o : r[f] # o[f]
SelFields == {"which", "probes", "segs", "snvs", "hw", "wlo", "whi", "chrom", "mb1"}
PdDrift(r) ==
    CASE r.op = "genes_by_name" -> LET o == GenesByNameA(r) IN r.err \notin o.errs \/ (Ok(r) /\ EntrySet(r.res) # o.entries)
      [] r.op = "select"        -> LET o == SelectA(r) IN
                                   r.err \notin o.errs \/ (Ok(r) /\ ((\E f \in SelFields : r[f] # o[f]) \/ ObsGenes(r) # o.geneset))
      [] r.op = "cvg2rgb"       -> Ok(r) /\ ~r.desat /\ ~CvgPlainOK(r.k, r.rgb)
      [] OTHER                  -> FieldsDiffer(r, PdALayer(r))

(* ========================================================================= known findings ============= *)
PdKnownTriggers == {"EmptyGeneList", "VariantsShareBin", "VariantInsideBin", "OpenStart", "LastSampleShorter", "ByBinGeneOnly",
                    "LastGeneNotRightmost", "TwoIntervalsGap"}
PdTriggerHolds(t, r) ==
    CASE t = "EmptyGeneList" ->          \* -g given but no gene name in it, and the chromosome-level plot is reached
            r.op = "select" /\ r.hg /\ Req(r) = {} /\ (GeneTruthy(r) \/ r.rk # "none")
      [] t = "VariantsShareBin" ->       \* two consecutive variants of a chromosome get the same searchsorted index
            \/ r.op = "binwise" /\ r.hv /\ r.va # <<>> /\ VarsCrash(r.a, r.va)
            \/ r.op = "select" /\ r.bybin /\ r.hb /\ r.a # <<>> /\ r.hv /\ r.va # <<>> /\ VarsCrash(r.a, r.va)
      [] t = "VariantInsideBin" ->       \* a variant lies inside a bin but not at its first base
            r.op = "binwise" /\ r.hv /\ \E k \in Idx(r.va) : LET j == OwnBin(r.a, r.va[k]) IN
                j # 0 /\ S(OnChrom(r.a, C(r.va[k]))[j]) # S(r.va[k])
      [] t = "OpenStart" ->              \* a range text without a start coordinate
            \/ r.op = "from_label" /\ WellFormed(r.text) /\ LabelParts(r.text).sd = <<>>
            \/ r.op = "select" /\ r.rk = "range" /\ r.rtext /\ ~r.rhs /\ ~r.rhe
      [] t = "LastSampleShorter" ->      \* genome-wide heatmap: the last sample having a chromosome ends before an earlier one
            r.op = "heatmap" /\ r.rk = "none" /\ (\A i \in 1..HmN(r) : HmSimple(r, i).err = "") /\
            \E k \in 1..Len(HmSizes(r)) : \E i \in 1..HmN(r) :
                HmSizes(r)[k][1] \in Chroms(HmTab(r, i)) /\ MaxEndOn(HmTab(r, i), HmSizes(r)[k][1]) > HmSizes(r)[k][2]
      [] t = "TwoIntervalsGap" ->        \* exactly two distinct intervals to draw, not abutting: log2_df.loc[0.5, :] = ... on a
                                         \* 2-row RangeIndex (pandas 3 RangeIndex.insert computes a step of 0)
            r.op = "heatmap" /\ HmRegion(r).err = "" /\ (\A i \in 1..HmN(r) : HmSimple(r, i).err = "") /\
            LET ks == HmAKeys(r) IN Cardinality(ks) = 2 /\
                LET k1 == CHOOSE x \in ks : \A y \in ks : x[1] < y[1] \/ (x[1] = y[1] /\ x[2] <= y[2])
                    k2 == CHOOSE y \in ks : y # k1
                IN k1[2] # k2[1]
      [] t = "ByBinGeneOnly" ->          \* --by-bin with -g and without -c
            r.op = "select" /\ r.bybin /\ r.rk = "none" /\ GeneTruthy(r)
      [] t = "LastGeneNotRightmost" ->   \* the selected gene that starts last does not have the largest end
            r.op = "select" /\ r.rk = "none" /\ r.hg /\ AllFound(r) /\
            LET ms == Max({NameStart(NameTab(r), n) : n \in Req(r)}) IN
            Max({NameEnd(NameTab(r), n) : n \in {m \in Req(r) : NameStart(NameTab(r), m) = ms}}) < ReqMaxEnd(r)
      [] OTHER -> FALSE
(* which clauses a trigger explains (used by the design check only; the harness reads known_findings.json) *)
TriggerClauses(t) ==
    CASE t = "EmptyGeneList" -> {"sel_empty_gene_no_highlight", "sel_noerr_doc"}
      [] t = "VariantsShareBin" -> {"bb_noerr", "bb_var_fractional", "bb_var_in_own_bin", "sel_noerr_doc"}
      [] t = "VariantInsideBin" -> {"bb_var_in_own_bin", "bb_var_fractional"}
      [] t = "OpenStart" -> {"lbl_open_start_doc", "sel_dash_all_genes"}
      [] t = "LastSampleShorter" -> {"hm_slots_disjoint"}
      [] t = "ByBinGeneOnly" -> {"sel_gene_window"}
      [] t = "TwoIntervalsGap" -> {"hm_noerr"}
      [] t = "LastGeneNotRightmost" -> {"sel_gene_window"}
      [] OTHER -> {}
Explained(c, r) == \E t \in PdKnownTriggers : c \in TriggerClauses(t) /\ PdTriggerHolds(t, r)
=============================================================================
