--------------------------- MODULE Trace_PlotData ---------------------------
(* Trace validation for X05: one recorded call of the real code per record; verdicts are carried as state      *)
(* (total verdicts) and read from the dump.  Same shape as Trace_Intervals; the content operators of PlotData  *)
(* carry the prefix Pd because PlotData EXTENDS Ranges / Intervals, which already define Clauses / Holds / ... *)
EXTENDS PlotData, Json, IOUtils
Trace == JsonDeserialize(IOEnv.TRACE_FILE)
VARIABLES i, ph, failed, scope, triggers, drift, checked
vars == <<i, ph, failed, scope, triggers, drift, checked>>
Init == /\ i \in 1..Len(Trace) /\ ph = "call"
        /\ failed = {} /\ scope = TRUE /\ triggers = {} /\ drift = FALSE /\ checked = {}
Next == /\ ph = "call" /\ ph' = "ret" /\ UNCHANGED i
        /\ LET r == Trace[i] IN
           /\ scope' = PdPremise(r)
           /\ checked' = IF scope' THEN PdClauses(r.op) ELSE {}
           /\ failed' = {c \in checked' : ~PdHolds(c, r)}
           /\ triggers' = {t \in PdKnownTriggers : PdTriggerHolds(t, r)}
           /\ drift' = (scope' /\ failed' = {} /\ PdDrift(r))
Spec == Init /\ [][Next]_vars
NoFailure == failed = {}
=============================================================================
