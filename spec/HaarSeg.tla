--------------------------- MODULE HaarSeg ---------------------------
(* X06 (extension) -- the HaarSeg segmentation algorithm: cnvlib/segmentation/haar.py                                *)
(* (haarSeg, HaarConv with and without weights, FindLocalPeaks, FDRThres, UnifyLevels, SegmentByPeaks, PulseConv,    *)
(* AdjustBreaks, table2coords, segment_haar / one_chrom).                                                            *)
(*                                                                                                                  *)
(* There is no listed property.  P-layer = only what the package documents (the module docstring of haar.py with its *)
(* six algorithm steps, the docstrings of its functions, doc/pipeline.rst section "segment", doc/fileformats.rst     *)
(* section "Segmented log2 ratios (.cns)", error messages); every clause quotes its source.  A-layer = the code's    *)
(* algorithm case for case on EXACT numbers: signals are integers on a dyadic grid (I = sig / U, U a power of two),   *)
(* weights integers, so every window sum of the wavelet transform is an exact integer; a subband value is the pair   *)
(* of quotients a/b + c/d (low + high half window) times a positive constant, compared by cross-multiplication;      *)
(* the FDR decision p <= m q is bracketed with the Phi table (PhiTable.tla) and sqrt/division in 10^-12 fixed point  *)
(* (Num.tla / Stats.tla): a decision the brackets cannot make widens the set of admissible outcomes of that level    *)
(* (counted `undecided`), it never produces a verdict.  Verdicts come from the P-layer only; disagreement with the   *)
(* A-layer is MODEL-DRIFT.                                                                                           *)
(*                                                                                                                  *)
(* Positions are 0-based as in the code; TLA+ sequences are 1-based: position k is element k + 1.                    *)
(*                                                                                                                  *)
(* Records (one per call of the real code):                                                                         *)
(*  op = "haarseg"  haarSeg(I = sig / U, q = qn / qd, W = w / WU or None, rawI, haarStartLevel = l0, haarEndLevel =  *)
(*        l1) run with HaarConv / FindLocalPeaks / FDRThres / UnifyLevels wrapped by recorders (the wrappers call    *)
(*        the real functions):                                                                                      *)
(*        [sig, U, hasw, w, WU, qn, qd, l0, l1, hasraw, raw, shape_ok, sigma: obs,                                   *)
(*         levels: << [L, h, inexact, conv: ints (no weights: result * U * sqrt(2h)), cobs: obs (weights: result /   *)
(*                    sqrt(h / 2)), sgn: signs of the subband, up: up[k] = sign(x[k] - x[k-1]) of the recorded       *)
(*                    floats, peaks, addon, win, joined] >>,                                                         *)
(*         out: [start, end, size, mean: obs], err]                                                                  *)
(*  op = "conv"     HaarConv(sig / U, w or None, h): [sig, U, hasw, w, h, inexact, conv, cobs, err]                  *)
(*  op = "peaks"    FindLocalPeaks(sig): [sig, out, err]                                                             *)
(*  op = "unify"    UnifyLevels(base, addon, win): [base, addon, win, out, err]                                      *)
(*  op = "segmeans" SegmentByPeaks(sig / U, peaks, w or None): [sig, U, hasw, w, peaks, out: obs per position, err]   *)
(*  op = "pulse"    PulseConv(sig, size): [sig, size, inexact, out: ints (result * size), err]                       *)
(*  op = "adjust"   AdjustBreaks(sig, peaks): [sig, peaks, out, err]                                                 *)
(*  op = "coords"   table2coords(rows): [rows: <<<<start, size, val>>>>, x, y, err]                                  *)
(*  op = "segment"  segment_haar(cnarr, q) with haarSeg wrapped by a recorder:                                       *)
(*        [mode ("raw": CopyNumArray.smooth_log2 replaced by the identity, the signal stays on the grid; "smooth":   *)
(*         the real Savitzky-Golay smoothing), U, hasw, WU, qn, qd, chroms: << [cid, bins: <<<<start, end, sig, w>>>>] >>,*)
(*         calls: << [cid, n, I: obs (the signal haarSeg received), res: [start, end, size, mean: obs]] >>,            *)
(*         out: <<[cid, start, end, log2: obs, probes, dash]>>, err]                                                 *)
(*  obs = [nan, neg, hi, lo]: an observed float, |x| * 10^12 = hi * 10^6 + lo (Num.FxObs) or nan.                    *)
EXTENDS Stats, PhiTable, FiniteSetsExt

HxNoErr(r) == r.err = ""
HxAt(s, k) == s[k + 1]                                          \* 0-based access
HxSgn(x) == IF x > 0 THEN 1 ELSE IF x < 0 THEN -1 ELSE 0
HxInc(s) == \A k \in 1..Len(s) - 1 : s[k] < s[k + 1]            \* strictly increasing
HxSet(s) == {s[k] : k \in 1..Len(s)}
HxZI(k) == ZFromInt(k)
HxTen12 == Z(FALSE, <<0, 0, 0, 1>>)                             \* 10^12
HxIsPow2(x) == x \in {1, 2, 4, 8, 16, 32, 64, 128, 256, 512, 1024, 2048, 4096, 8192, 16384, 32768, 65536, 131072, 262144}
HxPow2(e) == 2 ^ e
HxObsZ(o) == FxObs(o)                                           \* observed float * 10^12 (nan excluded by the caller)
(* observed float o against the rational N / D (plain integers, D > 0): |o - N/D| <= 2 * 10^-9 * max(1, |N/D|)        *)
HxCloseRat(o, N, D) ==
    /\ ~o.nan
    /\ ZLe(ZAbs(ZSub(ZMul(HxObsZ(o), HxZI(D)), ZMul(HxZI(N), HxTen12))), ZMulInt(HxZI(IntMax(D, IAbs(N))), 2000))

(* ================================================================= HaarConv (A-layer) ============ *)
(* a subband value is the pair of quotients a/b + c/d (b, d > 0) times a positive constant of the level:             *)
(*   without weights  a = result[k] * U * sqrt(2h) (an integer), b = 1, c = 0, d = 1                                 *)
(*   with weights     a = lowNonNormed, b = lowWeightSum, c = highNonNormed, d = highWeightSum (in units of U, WU)   *)
HxVal(a, b, c, d) == [a |-> a, b |-> b, c |-> c, d |-> d]
HxZeroVal == HxVal(0, 1, 0, 1)
HxNum(v) == v.a * v.d + v.c * v.b
HxDen(v) == v.b * v.d
HxPlain(v) == v.b = 1 /\ v.d = 1
HxSign(v) == HxSgn(HxNum(v))
HxCmpV(x, y) ==                                                 \* sign(x - y)
    IF HxPlain(x) /\ HxPlain(y) THEN HxSgn(x.a - y.a)
    ELSE ZCmp(ZMul(HxZI(HxNum(x)), HxZI(HxDen(y))), ZMul(HxZI(HxNum(y)), HxZI(HxDen(x))))
HxCmpAbs(x, y) ==                                               \* sign(|x| - |y|)
    IF HxPlain(x) /\ HxPlain(y) THEN HxSgn(IAbs(x.a) - IAbs(y.a))
    ELSE ZCmp(ZMul(HxZI(IAbs(HxNum(x))), HxZI(HxDen(y))), ZMul(HxZI(IAbs(HxNum(y))), HxZI(HxDen(x))))
(* the "circular padding" of the code: positions beyond either end are mirrored back into the signal *)
HxHigh(k, h, n) == LET e == k + h - 1 IN IF e >= n THEN n - 1 - (e - n) ELSE e
HxLow(k, h) == LET e == k - h - 1 IN IF e < 0 THEN -e - 1 ELSE e
(* without weights: result[k] = result[k-1] + signal[highEnd] + signal[lowEnd] - 2 signal[k-1]; result[0] = 0;        *)
(* `if stepHalfSize > signalSize: return zeros`                                                                      *)
HxConvU(sig, h) ==
    LET n == Len(sig) IN
    IF h > n THEN [k \in 1..n |-> 0]
    ELSE FoldLeft(LAMBDA acc, k : Append(acc, acc[k] + HxAt(sig, HxHigh(k, h, n)) + HxAt(sig, HxLow(k, h)) - 2 * HxAt(sig, k - 1)),
                  <<0>>, [k \in 1..n - 1 |-> k])
(* the same values from the definition of the wavelet: (sum of the h values from k on) - (sum of the h values before k) *)
HxMirror(j, n) == IF j < 0 THEN -j - 1 ELSE IF j >= n THEN 2 * n - 1 - j ELSE j
HxConvDirect(sig, h) ==
    LET n == Len(sig) IN
    IF h > n THEN [k \in 1..n |-> 0]
    ELSE [k1 \in 1..n |-> LET k == k1 - 1 IN
            ISum([j \in 1..h |-> HxAt(sig, HxMirror(k + j - 1, n))]) - ISum([j \in 1..h |-> HxAt(sig, HxMirror(k - j, n))])]
(* with weights: the four running sums, one step per position *)
HxConvW(sig, w, h) ==
    LET n == Len(sig) IN
    IF h > n THEN [k \in 1..n |-> HxZeroVal]
    ELSE LET hw == ISum([j \in 1..h |-> w[j]])
             hn == ISum([j \in 1..h |-> w[j] * sig[j]])
             step(acc, k) ==
                 LET p == acc[Len(acc)]
                     he == HxHigh(k, h, n)
                     le == HxLow(k, h)
                     v == HxVal(p.a + HxAt(sig, le) * HxAt(w, le) - HxAt(sig, k - 1) * HxAt(w, k - 1),
                                p.b + HxAt(w, k - 1) - HxAt(w, le),
                                p.c + HxAt(sig, he) * HxAt(w, he) - HxAt(sig, k - 1) * HxAt(w, k - 1),
                                p.d + HxAt(w, he) - HxAt(w, k - 1))
                 IN Append(acc, v)
             run == FoldLeft(step, <<HxVal(-hn, hw, hn, hw)>>, [k \in 1..n - 1 |-> k])
         IN [k \in 1..n |-> IF k = 1 THEN HxZeroVal ELSE run[k]]          \* result[0] stays 0
HxVals(sig, hasw, w, h) ==
    IF hasw THEN HxConvW(sig, w, h) ELSE LET s == HxConvU(sig, h) IN [k \in 1..Len(s) |-> HxVal(s[k], 1, 0, 1)]
HxSigns(vals) == [k \in 1..Len(vals) |-> HxSign(vals[k])]
HxUps(vals) == [k \in 1..Len(vals) - 1 |-> HxCmpV(vals[k + 1], vals[k])]         \* up[k] = sign(x[k] - x[k-1]), k = 1..n-1
(* a weighted window with no weight at all: numpy divides by zero (nan / inf); not modelled *)
HxZeroWindow(vals) == \E k \in 1..Len(vals) : vals[k].b <= 0 \/ vals[k].d <= 0
(* two subband values that are equal as rationals but are computed from different quotients with a denominator that  *)
(* is not a power of two: the two floating-point results may differ in the last place, so `==` / `>` between them is  *)
(* not predictable from the exact values                                                                            *)
HxSamePair(x, y) == \/ (x.a * y.b = y.a * x.b /\ x.c * y.d = y.c * x.d)
                    \/ (x.a * y.d = y.c * x.b /\ x.c * y.b = y.a * x.d)
HxNegPair(x, y) == HxSamePair(x, HxVal(-y.a, y.b, -y.c, y.d))
HxExactFloat(x) == HxIsPow2(x.b) /\ HxIsPow2(x.d)
HxFragilePair(x, y) ==
    /\ ~(HxExactFloat(x) /\ HxExactFloat(y))
    /\ HxCmpAbs(x, y) = 0
    /\ ~HxSamePair(x, y) /\ ~HxNegPair(x, y)
HxFragileAdjacent(vals) == \E k \in 1..Len(vals) - 1 : HxFragilePair(vals[k], vals[k + 1])
HxFragilePeaks(vals, peaks) == \E i, j \in 1..Len(peaks) : i < j /\ HxFragilePair(HxAt(vals, peaks[i]), HxAt(vals, peaks[j]))

(* ================================================================= FindLocalPeaks ============ *)
(* A-layer: the loop of the code over k = 1..n-2 with its two "suspects" (first position of a run of equal values;   *)
(* -1 = None), from the signs sg and the comparisons up of neighbouring values                                      *)
HxPeaksFrom(sg, up) ==
    LET n == Len(sg)
        step(st, k) ==
            LET s == sg[k + 1]
                u1 == up[k]
                u2 == up[k + 1]
            IN IF s > 0 THEN
                    IF u1 = 1 /\ u2 = -1 THEN [st EXCEPT !.pk = Append(@, k)]
                    ELSE IF u1 = 1 /\ u2 = 0 THEN [st EXCEPT !.mx = k]
                    ELSE IF u1 = 0 /\ u2 = -1 THEN (IF st.mx >= 0 THEN [st EXCEPT !.pk = Append(@, st.mx), !.mx = -1] ELSE st)
                    ELSE IF u1 = 0 /\ u2 = 1 THEN [st EXCEPT !.mx = -1]
                    ELSE st
               ELSE IF s < 0 THEN
                    IF u1 = -1 /\ u2 = 1 THEN [st EXCEPT !.pk = Append(@, k)]
                    ELSE IF u1 = -1 /\ u2 = 0 THEN [st EXCEPT !.mn = k]
                    ELSE IF u1 = 0 /\ u2 = 1 THEN (IF st.mn >= 0 THEN [st EXCEPT !.pk = Append(@, st.mn), !.mn = -1] ELSE st)
                    ELSE IF u1 = 0 /\ u2 = -1 THEN [st EXCEPT !.mn = -1]
                    ELSE st
               ELSE st
    IN IF n < 3 THEN <<>> ELSE FoldLeft(step, [pk |-> <<>>, mx |-> -1, mn |-> -1], [k \in 1..n - 2 |-> k]).pk
(* P-layer.  FindLocalPeaks docstring: "Find local maxima on positive values, local minima on negative values.       *)
(* First and last index are never considered extramum." ... "Returns peakLoc: Locations of extrema in `signal`".     *)
(* A run of equal values is one extremum ("# Take the first in a series of equal values" is a code comment only):     *)
(* a reported position is never below a neighbour (positive values) / above a neighbour (negative values); every     *)
(* position that is strictly above (below) both neighbours is reported.                                              *)
HxPkShape(sg, up) == Len(up) = IntMax(Len(sg) - 1, 0) /\ \A k \in 1..Len(sg) : sg[k] \in {-1, 0, 1}
HxPkInterior(sg, out) == \A i \in 1..Len(out) : 1 <= out[i] /\ out[i] <= Len(sg) - 2
HxPkExtremum(sg, up, out) ==
    \A i \in 1..Len(out) : LET p == out[i] IN
        /\ sg[p + 1] # 0
        /\ sg[p + 1] > 0 => (up[p] >= 0 /\ up[p + 1] <= 0)
        /\ sg[p + 1] < 0 => (up[p] <= 0 /\ up[p + 1] >= 0)
HxPkStrictFound(sg, up, out) ==
    \A k \in 1..Len(sg) - 2 :
        ((sg[k + 1] > 0 /\ up[k] = 1 /\ up[k + 1] = -1) \/ (sg[k + 1] < 0 /\ up[k] = -1 /\ up[k + 1] = 1)) => k \in HxSet(out)
HxPkOK(sg, up, out) == HxPkInterior(sg, out) /\ HxPkExtremum(sg, up, out) /\ HxPkStrictFound(sg, up, out)
HxIntSigns(sig) == [k \in 1..Len(sig) |-> HxSgn(sig[k])]
HxIntUps(sig) == [k \in 1..Len(sig) - 1 |-> HxSgn(sig[k + 1] - sig[k])]

(* ================================================================= UnifyLevels ============ *)
(* A-layer: the two nested loops of the code *)
RECURSIVE HxUniLoop(_, _, _, _, _)
HxUniLoop(addon, j, b, w, out) ==
    IF j > Len(addon) THEN <<j, out>>
    ELSE LET a == addon[j] IN
         IF a < b - w THEN HxUniLoop(addon, j + 1, b, w, Append(out, a))           \* well before this base item -- use it
         ELSE IF a <= b + w THEN HxUniLoop(addon, j + 1, b, w, out)                \* too close -- skip it
         ELSE <<j, out>>                                                           \* beyond -- keep for the next round
RECURSIVE HxSkipUpTo(_, _, _)
HxSkipUpTo(addon, j, last) == IF j <= Len(addon) /\ addon[j] <= last THEN HxSkipUpTo(addon, j + 1, last) ELSE j
HxUnify(base, addon, w) ==
    IF addon = <<>> THEN base
    ELSE LET perBase(st, b) == LET res == HxUniLoop(addon, st[1], b, w, st[2]) IN <<res[1], Append(res[2], b)>>
             st == FoldLeft(perBase, <<1, <<>>>>, base)
             last == IF base # <<>> THEN base[Len(base)] + w ELSE -1
             j == HxSkipUpTo(addon, st[1], last)
         IN ISort(st[2] \o SubSeq(addon, j, Len(addon)))
(* P-layer.  UnifyLevels docstring: "Unify several decomposition levels.  Merge the two lists of breakpoints, but     *)
(* drop addonLevel values that are too close to baseLevel values."  `windowSize` is the measure of "too close":       *)
(* strictly inside the window is too close, strictly outside is not; the edge of the window is left to the A-layer.   *)
HxUnKeepsBase(base, out) == HxSet(base) \subseteq HxSet(out)
HxUnOnlyGiven(base, addon, out) == HxSet(out) \subseteq (HxSet(base) \cup HxSet(addon))
HxUnDropsClose(base, addon, w, out) ==
    \A a \in HxSet(addon) \ HxSet(base) : (\E b \in HxSet(base) : IAbs(a - b) < w) => a \notin HxSet(out)
HxUnKeepsFar(base, addon, w, out) ==
    \A a \in HxSet(addon) : (\A b \in HxSet(base) : IAbs(a - b) > w) => a \in HxSet(out)
HxUnOK(base, addon, w, out) ==
    HxUnKeepsBase(base, out) /\ HxUnOnlyGiven(base, addon, out) /\ HxUnDropsClose(base, addon, w, out) /\ HxUnKeepsFar(base, addon, w, out)

(* ================================================================= FDRThres ============ *)
(* A-layer.  x = |subband value| of a peak, M peaks sorted by x descending, p_j = 2 (1 - norm.cdf(x_j, stdev)) --     *)
(* scipy's second positional argument is `loc`: p_j = 2 (1 - Phi(x_j - stdev)) --, cut = the largest j with           *)
(* p_j <= (j / M) q, T = x_cut; no such j: T = x_1 + 1e-16, which in float64 IS x_1 when x_1 >= 1 (1e-16 is less than  *)
(* half a unit in the last place there) and the next float above x_1 when x_1 < 1; M < 2: T = 0.                      *)
(* All of it in 10^-12 fixed point; HxPad (10^-9) covers the truncations.                                            *)
HxPad == HxZI(1000)
HxSqrtFx(k) == FxSqrtFast(FxFromInt(k))
(* x of a subband value at half window h: without weights |a| / (U sqrt(2h)); with weights sqrt(h/2) |num/den| / U;  *)
(* c = the level's constant, computed once per level: U sqrt(2h) resp. sqrt(h/2)                                      *)
HxLevelConst(h, U, hasw) == IF hasw THEN HxSqrtFx(h \div 2) ELSE FxMul(FxFromInt(U), HxSqrtFx(2 * h))
HxXFx(v, U, hasw, c) ==
    IF ~hasw THEN FxDivFast(FxFromInt(IAbs(v.a)), c)
    ELSE FxDivFast(FxMul(c, FxFromInt(IAbs(HxNum(v)))), FxFromInt(HxDen(v) * U))
(* peakSigmaEst = median(|diffI|) * 1.4826, diffI = HaarConv(I, None, 1) (n values, the first one 0) *)
HxMed2(sig) == IF Len(sig) = 0 THEN 0 ELSE LET d == HxConvU(sig, 1) IN IMedian2([k \in 1..Len(d) |-> IAbs(d[k])])
HxSigmaFx(sig, U) == FxDivFast(FxMul(K14826, FxFromInt(HxMed2(sig))), FxMul(FxFromInt(2 * U), HxSqrtFx(2)))
HxMagToNatCap(m, cap) == IF Len(m) = 0 THEN 0 ELSE IF Len(m) >= 2 THEN cap ELSE IF m[1] > cap THEN cap ELSE m[1]
HxHund(z) == HxMagToNatCap(ZDivTFast(ZMulInt(z, 100), HxTen12).m, PhiKMax)          \* floor(100 z) capped, z >= 0
HxTabFx(e) == FxObs([neg |-> FALSE, hi |-> e[1], lo |-> e[2]])
(* "Y" / "N": p_j <= (j / M) (qn / qd) holds / fails for certain; "U": the table cannot tell                          *)
HxPass(x, sigma, j, M, qn, qd) ==
    LET zlo == ZSub(ZSub(x, sigma), HxPad)
        zhi == ZAdd(ZSub(x, sigma), HxPad)
    IN IF ZSign(zlo) < 0 THEN "N"                                  \* p >= 1 - epsilon > q / 2 ... (q <= 1/2 by the premise)
       ELSE LET klo == HxHund(zlo)
                khi == HxHund(zhi)
                plo == IF khi >= PhiKMax THEN ZZero ELSE HxTabFx(PhiLoTab[khi + 2])
                phi == HxTabFx(PhiHiTab[klo + 1])
                rhs == ZMul(HxZI(j * qn), HxTen12)                 \* (j qn / (M qd)) in units of 10^-12, times M qd
                mq == HxZI(M * qd)
            IN IF ZLe(ZAdd(ZMul(phi, mq), mq), rhs) THEN "Y"
               ELSE IF ZLt(ZAdd(rhs, mq), ZMul(plo, mq)) THEN "N"
               ELSE "U"
(* is the largest x at least 1.0 as a float?  without weights the float is exact at the boundary; with weights a       *)
(* value of exactly 1 may come out on either side                                                                   *)
HxAtLeastOne(v, h, U, hasw) ==
    LET lhs == IF hasw THEN ZMulInt(ZMul(HxZI(HxNum(v)), HxZI(HxNum(v))), h) ELSE ZMul(HxZI(v.a), HxZI(v.a))
        rhs == IF hasw THEN ZMulInt(ZMul(HxZI(HxDen(v) * U), HxZI(HxDen(v) * U)), 2) ELSE HxZI(2 * h * U * U)
        c == ZCmp(lhs, rhs)
    IN IF c > 0 THEN {TRUE} ELSE IF c < 0 THEN {FALSE} ELSE IF hasw /\ ~HxExactFloat(v) THEN {TRUE, FALSE} ELSE {TRUE}
(* the admissible sets of selected peaks (subsequences of `peaks`) at one level *)
HxAddons(vals, peaks, h, U, hasw, sigma, qn, qd) ==
    LET M == Len(peaks) IN
    IF M < 2 THEN {peaks}                                                            \* T = 0: everything passes
    ELSE LET pv == [i \in 1..M |-> HxAt(vals, peaks[i])]
             ord == SortSeq([i \in 1..M |-> i], LAMBDA i, j : HxCmpAbs(pv[i], pv[j]) > 0)      \* by x descending
             c == HxLevelConst(h, U, hasw)
             xs == [j \in 1..M |-> HxXFx(pv[ord[j]], U, hasw, c)]
             pass == [j \in 1..M |-> HxPass(xs[j], sigma, j, M, qn, qd)]
             ys == {j \in 1..M : pass[j] = "Y"}
             jy == IF ys = {} THEN 0 ELSE Max(ys)
             cuts == {jy} \cup {j \in jy + 1..M : pass[j] = "U"}
             sel(j) == SelectSeq(peaks, LAMBDA p : HxCmpAbs(HxAt(vals, p), pv[ord[j]]) >= 0)
             top == SelectSeq(peaks, LAMBDA p : HxCmpAbs(HxAt(vals, p), pv[ord[1]]) = 0)
         IN {sel(j) : j \in cuts \ {0}}
            \cup (IF 0 \in cuts THEN {IF b THEN top ELSE <<>> : b \in HxAtLeastOne(pv[ord[1]], h, U, hasw)} ELSE {})

(* ================================================================= SegmentByPeaks / the result of haarSeg ============ *)
HxSegStarts(bps) == <<0>> \o bps
HxSegEnds(bps, n) == bps \o <<n>>
(* mean of positions s..e-1 as <<numerator, denominator>> (value = num / den): the weighted mean when weights are      *)
(* given and their sum over the segment is positive, else the plain mean                                            *)
HxSegMean(sig, U, hasw, w, s, e) ==
    LET ws == IF hasw THEN ISum([j \in 1..e - s |-> w[s + j]]) ELSE 0 IN
    IF hasw /\ ws > 0 THEN <<ISum([j \in 1..e - s |-> w[s + j] * sig[s + j]]), U * ws>>
    ELSE <<ISum([j \in 1..e - s |-> sig[s + j]]), U * (e - s)>>
HxResult(sig, U, hasw, w, bps) ==
    LET st == HxSegStarts(bps)
        ed == HxSegEnds(bps, Len(sig))
        m == Len(st)
    IN [start |-> st, end |-> [i \in 1..m |-> ed[i] - 1], size |-> [i \in 1..m |-> ed[i] - st[i]],
        mean |-> [i \in 1..m |-> HxSegMean(sig, U, hasw, w, st[i], ed[i])]]

(* ================================================================= one level / the whole run (A-layer) ============ *)
HxWin(L) == IF L >= 1 THEN HxPow2(L - 1) ELSE 0           \* UnifyLevels(breakpoints, addonPeaks, 2 ** (level - 1))
HxLevel(sig, U, hasw, w, qn, qd, sigma, L) ==
    LET h == HxPow2(L)
        vals == HxVals(sig, hasw, w, h)
        peaks == HxPeaksFrom(HxSigns(vals), HxUps(vals))
    IN [h |-> h, vals |-> vals, peaks |-> peaks,
        fragile |-> hasw /\ (HxFragileAdjacent(vals) \/ HxFragilePeaks(vals, peaks)),
        addons |-> HxAddons(vals, peaks, h, U, hasw, sigma, qn, qd)]
(* forward run; amb = some level had more than one admissible outcome (then one of them is followed) *)
HxRun(sig, U, hasw, w, qn, qd, l0, l1) ==
    LET sigma == HxSigmaFx(sig, U)
        step(st, L) == LET lv == HxLevel(sig, U, hasw, w, qn, qd, sigma, L)
                           ad == CHOOSE a \in lv.addons : TRUE
                       IN [bps |-> HxUnify(st.bps, ad, HxWin(L)), amb |-> st.amb \/ lv.fragile \/ Cardinality(lv.addons) # 1]
    IN FoldLeft(step, [bps |-> <<>>, amb |-> FALSE], [k \in 1..IntMax(l1 - l0 + 1, 0) |-> l0 + k - 1])

(* ================================================================= op "haarseg" ============ *)
HsN(r) == Len(r.sig)
HsBreaks(r) == Tail(r.out.start)
HsLastJoined(r) == IF r.levels = <<>> THEN <<>> ELSE r.levels[Len(r.levels)].joined
HsPrev(r, t) == IF t = 1 THEN <<>> ELSE r.levels[t - 1].joined
(* P-layer *)
(* module docstring: "Reconstruct the segmentation result from the list of significant breakpoints."; SegmentByPeaks *)
(* docstring: "Average the values of the probes within each segment ... peaks: Positions of copy number breakpoints   *)
(* in the original array"; variants_in_segment: "NB: 'results' are indices, i.e. enumerated bins": the segments       *)
(* partition the positions 0..n-1 in order, each holds at least one probe and `size` counts its probes.              *)
HsTiles(r) ==
    LET o == r.out  m == Len(o.start) IN
    /\ m >= 1 /\ Len(o.end) = m /\ Len(o.size) = m /\ Len(o.mean) = m
    /\ o.start[1] = 0 /\ o.end[m] = HsN(r) - 1
    /\ \A i \in 1..m : o.size[i] = o.end[i] - o.start[i] + 1 /\ o.size[i] >= 1
    /\ \A i \in 1..m - 1 : o.start[i + 1] = o.end[i] + 1
(* "Average the values of the probes within each segment"; haarSeg docstring "W: Weight matrix, corresponding to      *)
(* quality of measurement"; fileformats.rst (.cns): "log2 is the weighted mean of the input bin-level values          *)
(* corresponding to the segment"                                                                                    *)
HsMean(r) ==
    HsTiles(r) =>
    \A i \in 1..Len(r.out.start) :
        LET q == HxSegMean(r.sig, r.U, r.hasw, r.w, r.out.start[i], r.out.end[i] + 1) IN HxCloseRat(r.out.mean[i], q[1], q[2])
(* module docstring: "Select a set of detail subbands from the transform {LMIN, LMIN+1, ..., LMAX}"; haarSeg           *)
(* docstring: "haarStartLevel: The detail subband from which we start to detect peaks", "haarEndLevel: The detail      *)
(* subband until which we use to detect peaks"; HaarConv is called with stepHalfSize = 2^level                        *)
HsLevels(r) ==
    /\ r.shape_ok
    /\ Len(r.levels) = IntMax(r.l1 - r.l0 + 1, 0)
    /\ \A t \in 1..Len(r.levels) : r.levels[t].L = r.l0 + t - 1
(* "Find the local maxima of the selected detail subbands." (FindLocalPeaks clauses on every recorded subband)         *)
HsPeaksAreExtrema(r) ==
    \A t \in 1..Len(r.levels) : LET lv == r.levels[t] IN
        /\ Len(lv.sgn) = HsN(r) /\ HxPkShape(lv.sgn, lv.up) /\ HxPkOK(lv.sgn, lv.up, lv.peaks)
(* "Threshold the maxima of each subband separately, using an FDR thresholding procedure."; in the code "# Keep only   *)
(* the peak values where the signal amplitude is large enough": the maxima kept are maxima of that subband, and no     *)
(* dropped maximum has a larger amplitude than a kept one                                                            *)
HsAmp(lv, hasw, p) == IF hasw THEN ZAbs(HxObsZ(HxAt(lv.cobs, p))) ELSE HxZI(IAbs(HxAt(lv.conv, p)))
HsThreshold(r) ==
    \A t \in 1..Len(r.levels) : LET lv == r.levels[t] IN
        /\ HxSet(lv.addon) \subseteq HxSet(lv.peaks)
        /\ \A a \in HxSet(lv.addon), b \in HxSet(lv.peaks) \ HxSet(lv.addon) : ZLe(HsAmp(lv, r.hasw, b), HsAmp(lv, r.hasw, a))
(* "Unify selected maxima from all the subbands to create a list of significant breakpoints in the data."             *)
(* (UnifyLevels clauses level by level, with the window the code passed)                                             *)
HsUnify(r) ==
    \A t \in 1..Len(r.levels) : LET lv == r.levels[t] IN HxUnOK(HsPrev(r, t), lv.addon, lv.win, lv.joined)
(* "Reconstruct the segmentation result from the list of significant breakpoints": every segment after the first     *)
(* starts at a breakpoint of the unified list and every such breakpoint starts a segment; a significant breakpoint is *)
(* a local maximum of at least one selected subband                                                                  *)
HsFromBreaks(r) ==
    /\ Len(r.out.start) >= 1 /\ HxSet(HsBreaks(r)) = HxSet(HsLastJoined(r))
    /\ \A b \in HxSet(HsBreaks(r)) : \E t \in 1..Len(r.levels) : b \in HxSet(r.levels[t].peaks)
(* A-layer: the recorded run against the level step, level by level (the recorded peaks / selected maxima / joined     *)
(* list of a level are the inputs of the next phase, as in a trace)                                                  *)
HsUnmodelled(r) == r.hasraw \/ (r.hasw /\ \E k \in 1..HsN(r) : r.w[k] <= 0)
HsConvAgrees(r, lv, vals) ==
    IF r.hasw THEN Len(lv.cobs) = HsN(r) /\ \A k \in 1..HsN(r) : HxCloseRat(lv.cobs[k], HxNum(vals[k]), HxDen(vals[k]) * r.U)
    ELSE ~lv.inexact /\ lv.conv = [k \in 1..HsN(r) |-> vals[k].a]
(* [ok |-> the recorded level follows the A-layer, open |-> more than one outcome was admissible at this level] *)
HsLevelCheck(r, t, sigma) ==
    LET lv == r.levels[t]
        h == HxPow2(lv.L)
        vals == HxVals(r.sig, r.hasw, r.w, h)
        fragile == r.hasw /\ (HxFragileAdjacent(vals) \/ HxFragilePeaks(vals, lv.peaks))
        ads == HxAddons(vals, lv.peaks, h, r.U, r.hasw, sigma, r.qn, r.qd)
        pre == /\ lv.h = h /\ lv.win = HxWin(lv.L)
               /\ HsConvAgrees(r, lv, vals)
               /\ fragile \/ (lv.sgn = HxSigns(vals) /\ lv.up = HxUps(vals))
               /\ lv.peaks = HxPeaksFrom(lv.sgn, lv.up)
    IN IF ~pre THEN [ok |-> FALSE, open |-> FALSE]
       ELSE [ok |-> /\ fragile \/ lv.addon \in ads
                    /\ lv.joined = HxUnify(HsPrev(r, t), lv.addon, lv.win),
             open |-> fragile \/ Cardinality(ads) # 1]
HsSigmaAgrees(r) ==
    r.levels = <<>> \/ (~r.sigma.nan /\ ZLe(ZAbs(ZSub(HxObsZ(r.sigma), HxSigmaFx(r.sig, r.U))), HxPad))
HsOutAgrees(r) ==
    LET a == HxResult(r.sig, r.U, r.hasw, r.w, HsLastJoined(r)) IN
    /\ r.out.start = a.start /\ r.out.end = a.end /\ r.out.size = a.size
    /\ Len(r.out.mean) = Len(a.mean) /\ \A i \in 1..Len(a.mean) : HxCloseRat(r.out.mean[i], a.mean[i][1], a.mean[i][2])
(* [drift, open] of a haarseg record in one pass (the trace module binds it once per record) *)
HsJudge(r) ==
    IF ~HxNoErr(r) \/ HsUnmodelled(r) THEN [drift |-> FALSE, open |-> FALSE]
    ELSE IF ~(HsLevels(r) /\ HsSigmaAgrees(r)) THEN [drift |-> TRUE, open |-> FALSE]
    ELSE LET sigma == HxSigmaFx(r.sig, r.U)
             chk == [t \in 1..Len(r.levels) |-> HsLevelCheck(r, t, sigma)]
         IN [drift |-> ~((\A t \in 1..Len(chk) : chk[t].ok) /\ HsOutAgrees(r)),
             open |-> \E t \in 1..Len(chk) : chk[t].open]

(* ================================================================= op "conv" ============ *)
HcAgrees(r) ==
    LET vals == HxVals(r.sig, r.hasw, r.w, r.h)  n == Len(r.sig) IN
    IF r.hasw THEN Len(r.cobs) = n /\ \A k \in 1..n : HxCloseRat(r.cobs[k], HxNum(vals[k]), HxDen(vals[k]) * r.U)
    ELSE ~r.inexact /\ r.conv = [k \in 1..n |-> vals[k].a]

(* ================================================================= op "segmeans" ============ *)
SmBoundsOK(r) == HxInc(r.peaks) /\ \A i \in 1..Len(r.peaks) : 1 <= r.peaks[i] /\ r.peaks[i] <= Len(r.sig) - 1
SmSegOf(r, k) ==         \* <<s, e>> of the segment holding 0-based position k
    LET st == HxSegStarts(r.peaks)  ed == HxSegEnds(r.peaks, Len(r.sig))
        i == CHOOSE i \in 1..Len(st) : st[i] <= k /\ k < ed[i]
    IN <<st[i], ed[i]>>
SmWeightSum(r, se) == ISum([j \in 1..se[2] - se[1] |-> r.w[se[1] + j]])
(* SegmentByPeaks docstring: "Average the values of the probes within each segment." (the result has one value per    *)
(* probe); with weights: the weighted mean (fileformats.rst, .cns: "log2 is the weighted mean of the input bin-level   *)
(* values corresponding to the segment") wherever the segment has any weight                                         *)
SmMean(r) ==
    /\ Len(r.out) = Len(r.sig)
    /\ \A k \in 0..Len(r.sig) - 1 :
          LET se == SmSegOf(r, k) IN
          (~r.hasw \/ SmWeightSum(r, se) > 0) =>
              LET q == HxSegMean(r.sig, r.U, r.hasw, r.w, se[1], se[2]) IN HxCloseRat(HxAt(r.out, k), q[1], q[2])
SmAgrees(r) ==           \* A-layer: a segment without any weight falls back to the plain mean
    /\ Len(r.out) = Len(r.sig)
    /\ \A k \in 0..Len(r.sig) - 1 :
          LET se == SmSegOf(r, k)  q == HxSegMean(r.sig, r.U, r.hasw, r.w, se[1], se[2]) IN HxCloseRat(HxAt(r.out, k), q[1], q[2])

(* ================================================================= op "pulse" ============ *)
(* A-layer: result[m] * pulseSize as an integer; the first value from the two init loops, then one step per position  *)
PcCoded(sig, size) ==
    LET n == Len(sig)
        first == ISum([k \in 1..(size + 1) \div 2 |-> sig[k]]) + ISum([k \in 1..size \div 2 |-> sig[k]])
        step(acc, k) ==
            LET t0 == k - size
                tail == IF t0 < 0 THEN -t0 - 1 ELSE t0
                head == IF k >= n THEN n - 1 - (k - n) ELSE k
            IN Append(acc, acc[Len(acc)] + HxAt(sig, head) - HxAt(sig, tail))
    IN FoldLeft(step, <<first>>, [j \in 1..n - 1 |-> size \div 2 + j - 1])

(* ================================================================= op "adjust" ============ *)
(* the "data error" of a list of breaks: sum over the segments of the squared deviations from the segment mean        *)
(* = (sum of squares, constant) - G, G = sum over segments of (segment sum)^2 / (segment length); as <<Z num, Z den>> *)
AjSum(sig, s, e) == ISum([j \in 1..e - s |-> sig[s + j]])
AjGain(sig, bps) ==
    LET st == HxSegStarts(bps)  ed == HxSegEnds(bps, Len(sig)) IN
    FoldLeft(LAMBDA acc, i : LET s == AjSum(sig, st[i], ed[i])  m == ed[i] - st[i] IN
                             <<ZAdd(ZMulInt(acc[1], m), ZMul(ZMul(HxZI(s), HxZI(s)), acc[2])), ZMulInt(acc[2], m)>>,
             <<ZZero, ZOne>>, [i \in 1..Len(st) |-> i])
AjBreaksOK(sig, bps) == HxInc(bps) /\ \A i \in 1..Len(bps) : 1 <= bps[i] /\ bps[i] <= Len(sig) - 1
(* A-layer, one loop iteration: the offsets p in (-1, 0, 1) that minimise the error of the two segments around break  *)
(* k of the list b (entries before k already moved); the code takes the first of them in that order (`score <          *)
(* bestScore`), a tie in exact arithmetic may fall either way in floating point                                       *)
AjAllowed(n1, n2) == {p \in {-1, 0, 1} : ~((n1 = 1 /\ p = -1) \/ (n2 = 1 /\ p = 1))}
AjPairGain(sig, pos, n1, n2, p) ==        \* s1^2 / (n1 + p) + s2^2 / (n2 - p) as <<Z, Z>>
    LET s1 == AjSum(sig, pos - n1, pos + p)  s2 == AjSum(sig, pos + p, pos + n2) IN
    <<ZAdd(ZMulInt(ZMul(HxZI(s1), HxZI(s1)), n2 - p), ZMulInt(ZMul(HxZI(s2), HxZI(s2)), n1 + p)), HxZI((n1 + p) * (n2 - p))>>
AjBest(sig, b, k) ==
    LET pos == b[k]
        n1 == IF k = 1 THEN pos ELSE pos - b[k - 1]
        n2 == (IF k = Len(b) THEN Len(sig) ELSE b[k + 1]) - pos
        al == AjAllowed(n1, n2)
        g(p) == AjPairGain(sig, pos, n1, n2, p)
    IN {p \in al : \A q \in al : ZRatLe(g(q), g(p))}
AjFirst(ps) == IF -1 \in ps THEN -1 ELSE IF 0 \in ps THEN 0 ELSE 1
AjStep(sig, b, k) == [b EXCEPT ![k] = @ + AjFirst(AjBest(sig, b, k))]
AjCoded(sig, peaks) == FoldLeft(LAMBDA b, k : AjStep(sig, b, k), peaks, [k \in 1..Len(peaks) |-> k])
(* does the recorded result follow the loop?  entries 1..k-1 as recorded, entries k.. as given *)
AjMixed(r, k) == [i \in 1..Len(r.peaks) |-> IF i < k THEN r.out[i] ELSE r.peaks[i]]
AjAgrees(r) == /\ Len(r.out) = Len(r.peaks)
               /\ \A k \in 1..Len(r.peaks) : (r.out[k] - r.peaks[k]) \in AjBest(r.sig, AjMixed(r, k), k)
(* P-layer.  AdjustBreaks docstring: "Improve localization of breaks. Suboptimal, but linear-complexity.  We try to    *)
(* move each break 1 sample left/right, choosing the offset which leads to minimum data error."                       *)
AjWithinOne(r) == Len(r.out) = Len(r.peaks) /\ \A k \in 1..Len(r.peaks) : IAbs(r.out[k] - r.peaks[k]) <= 1
AjStillBreaks(r) == AjBreaksOK(r.sig, r.out)           \* "# Pointless to try to remove single-sample segments": breaks stay breaks
AjErrorNotWorse(r) == AjBreaksOK(r.sig, r.out) => ZRatLe(AjGain(r.sig, r.peaks), AjGain(r.sig, r.out))

(* ================================================================= op "coords" ============ *)
TcCoded(rows) == [x |-> FlattenSeq([i \in 1..Len(rows) |-> <<rows[i][1], rows[i][1] + rows[i][2]>>]),
                  y |-> FlattenSeq([i \in 1..Len(rows) |-> <<rows[i][3], rows[i][3]>>])]

(* ================================================================= op "segment" ============ *)
SgBins(r, c) == r.chroms[c].bins
SgChromIdx(r, cid) == CHOOSE c \in 1..Len(r.chroms) : r.chroms[c].cid = cid
SgKnownCid(r, cid) == \E c \in 1..Len(r.chroms) : r.chroms[c].cid = cid
SgCovered(r, row) == LET bs == SgBins(r, SgChromIdx(r, row[1])) IN {k \in 1..Len(bs) : row[2] <= bs[k][1] /\ bs[k][2] <= row[3]}
(* the signal haarSeg received for chromosome c, bin by bin: the calls for that chromosome in order *)
SgSignal(r, c) == FlattenSeq(SelectSeq([j \in 1..Len(r.calls) |-> IF r.calls[j].cid = r.chroms[c].cid THEN r.calls[j].I ELSE <<>>],
                                       LAMBDA s : s # <<>>))
(* P-layer *)
(* fileformats.rst (.cns): "the additional column `probes`, indicating the number of bins covered by the segment"     *)
SgProbesCover(r) == \A i \in 1..Len(r.out) : LET row == r.out[i] IN SgKnownCid(r, row[1]) /\ row[5] = Cardinality(SgCovered(r, row))
(* pipeline.rst (segment): "Infer discrete copy number segments from the given coverage table", "Bins with a weight   *)
(* of 0 are dropped before segmentation" (no other bin is); segment_haar: "Segment each chromosome individually":     *)
(* every bin handed to segment_haar lies in exactly one segment of its chromosome                                    *)
SgBinsOnce(r) ==
    \A c \in 1..Len(r.chroms) : \A k \in 1..Len(SgBins(r, c)) :
        Cardinality({i \in 1..Len(r.out) : r.out[i][1] = r.chroms[c].cid /\ k \in SgCovered(r, r.out[i])}) = 1
(* fileformats.rst (.cns): "log2 is the weighted mean of the input bin-level values corresponding to the segment" --  *)
(* judged on the values that were segmented (one_chrom hands haarSeg cnarr.smooth_log2(); see the report)             *)
SgLog2Mean(r) ==
    \A i \in 1..Len(r.out) :
        LET row == r.out[i]
            c == SgChromIdx(r, row[1])
            bs == SgBins(r, c)
            cov == SgCovered(r, row)
            sigc == SgSignal(r, c)
            wt(k) == IF r.hasw THEN bs[k][4] ELSE 1
            num == FoldSet(LAMBDA k, acc : ZAdd(acc, ZMulInt(HxObsZ(sigc[k]), wt(k))), ZZero, cov)
            den == FoldSet(LAMBDA k, acc : acc + wt(k), 0, cov)
        IN (SgKnownCid(r, row[1]) /\ cov # {} /\ Len(sigc) = Len(bs) /\ den > 0) =>
              /\ ~row[4].nan
              /\ ZLe(ZAbs(ZSub(ZMulInt(HxObsZ(row[4]), den), num)), ZMulInt(HxZI(den), 20000))      \* 2 * 10^-8
(* the same sentence read literally -- "the input bin-level values" are the bins' own log2 values (sig / U), not the  *)
(* smoothed signal.  one_chrom segments AND averages cnarr.smooth_log2(): finding SmoothedSignal.                      *)
SgLog2OfBins(r) ==
    \A i \in 1..Len(r.out) :
        LET row == r.out[i]
            c == SgChromIdx(r, row[1])
            bs == SgBins(r, c)
            cov == SgCovered(r, row)
            wt(k) == IF r.hasw THEN bs[k][4] ELSE 1
            num == FoldSet(LAMBDA k, acc : acc + wt(k) * bs[k][3], 0, cov)               \* in units of 1 / U
            den == FoldSet(LAMBDA k, acc : acc + wt(k), 0, cov)
        IN (SgKnownCid(r, row[1]) /\ cov # {} /\ den > 0) =>
              /\ ~row[4].nan
              /\ ZLe(ZAbs(ZSub(ZMulInt(HxObsZ(row[4]), den * r.U), ZMul(HxZI(num), HxTen12))), ZMulInt(HxZI(den * r.U), 20000))
(* some value handed to haarSeg differs from its bin's log2 by more than 10^-9 (the smoothing changed the signal) *)
SgSmoothed(r) ==
    \E c \in 1..Len(r.chroms) :
        LET bs == SgBins(r, c)  sigc == SgSignal(r, c) IN
        Len(sigc) = Len(bs) /\ \E k \in 1..Len(bs) :
            ~ZLe(ZAbs(ZSub(ZMulInt(HxObsZ(sigc[k]), r.U), ZMul(HxZI(bs[k][3]), HxTen12))), HxZI(1000 * r.U))
(* A-layer: one call per chromosome in input order (no chromosome is long enough for by_arm to split), rows assembled *)
(* from the call's result by position (`.take`), gene "-"; mode "raw": the call's result is the haarSeg run           *)
SgArmsUnmodelled(r) == \E c \in 1..Len(r.chroms) : Len(SgBins(r, c)) > 101
SgRowsOfCall(r, call) ==
    LET bs == SgBins(r, SgChromIdx(r, call.cid)) IN
    [i \in 1..Len(call.res.start) |-> <<call.cid, HxAt(bs, call.res.start[i])[1], HxAt(bs, call.res.end[i])[2], call.res.size[i]>>]
SgRowsAgree(r) ==
    LET exp == FlattenSeq([j \in 1..Len(r.calls) |-> SgRowsOfCall(r, r.calls[j])]) IN
    /\ Len(r.out) = Len(exp)
    /\ \A i \in 1..Len(exp) : <<r.out[i][1], r.out[i][2], r.out[i][3], r.out[i][5]>> = exp[i] /\ r.out[i][6]
SgCallsAgree(r) ==
    /\ Len(r.calls) = Len(r.chroms)
    /\ \A c \in 1..Len(r.chroms) : r.calls[c].cid = r.chroms[c].cid /\ r.calls[c].n = Len(SgBins(r, c))
SgRunAgrees(r) ==
    r.mode = "raw" =>
    \A c \in 1..Len(r.chroms) :
        LET bs == SgBins(r, c)
            sig == [k \in 1..Len(bs) |-> bs[k][3]]
            w == [k \in 1..Len(bs) |-> bs[k][4]]
            run == HxRun(sig, r.U, r.hasw, w, r.qn, r.qd, 1, 5)
            a == HxResult(sig, r.U, r.hasw, w, run.bps)
            res == r.calls[c].res
        IN run.amb \/ (res.start = a.start /\ res.end = a.end /\ res.size = a.size)
SgAgrees(r) == SgArmsUnmodelled(r) \/ (SgCallsAgree(r) /\ SgRowsAgree(r) /\ SgRunAgrees(r))

(* ================================================================= clauses ============ *)
Clauses(op) ==
    CASE op = "haarseg" -> {"hs_noerr", "hs_rawI_accepted", "hs_tiles", "hs_mean", "hs_levels", "hs_peaks_are_extrema",
                            "hs_threshold", "hs_unify", "hs_from_breaks"}
      [] op = "conv" -> {"hc_noerr"}
      [] op = "peaks" -> {"pk_noerr", "pk_interior", "pk_extremum", "pk_strict_found"}
      [] op = "unify" -> {"un_noerr", "un_keeps_base", "un_only_given", "un_drops_close", "un_keeps_far"}
      [] op = "segmeans" -> {"sm_noerr", "sm_mean"}
      [] op = "pulse" -> {"pc_noerr", "pc_too_large_rejected"}
      [] op = "adjust" -> {"aj_noerr", "aj_within_one", "aj_still_breaks", "aj_error_not_worse"}
      [] op = "coords" -> {"tc_noerr"}
      [] op = "segment" -> {"sg_noerr", "sg_probes_cover", "sg_bins_once", "sg_log2_mean", "sg_log2_of_input_bins"}
      [] OTHER -> {}
HsOk(r) == HxNoErr(r)
Holds(c, r) ==
    CASE c = "hs_noerr" -> ~r.hasraw => HxNoErr(r)
      (* haarSeg docstring: "rawI : array ... Used for the non-stationary variance compensation. Must have the same     *)
      (* size as I." -- a documented optional input: the call returns a segmentation                                  *)
      [] c = "hs_rawI_accepted" -> r.hasraw => HxNoErr(r)
      [] c = "hs_tiles" -> HsOk(r) => HsTiles(r)
      [] c = "hs_mean" -> HsOk(r) => HsMean(r)
      [] c = "hs_levels" -> HsOk(r) => HsLevels(r)
      [] c = "hs_peaks_are_extrema" -> (HsOk(r) /\ r.shape_ok) => HsPeaksAreExtrema(r)
      [] c = "hs_threshold" -> (HsOk(r) /\ r.shape_ok) => HsThreshold(r)
      [] c = "hs_unify" -> (HsOk(r) /\ r.shape_ok) => HsUnify(r)
      [] c = "hs_from_breaks" -> (HsOk(r) /\ r.shape_ok) => HsFromBreaks(r)
      [] c = "hc_noerr" -> HxNoErr(r)
      [] c = "pk_noerr" -> HxNoErr(r)
      [] c = "pk_interior" -> HxNoErr(r) => HxPkInterior(HxIntSigns(r.sig), r.out)
      [] c = "pk_extremum" -> (HxNoErr(r) /\ HxPkInterior(HxIntSigns(r.sig), r.out)) => HxPkExtremum(HxIntSigns(r.sig), HxIntUps(r.sig), r.out)
      [] c = "pk_strict_found" -> HxNoErr(r) => HxPkStrictFound(HxIntSigns(r.sig), HxIntUps(r.sig), r.out)
      [] c = "un_noerr" -> HxNoErr(r)
      [] c = "un_keeps_base" -> HxNoErr(r) => HxUnKeepsBase(r.base, r.out)
      [] c = "un_only_given" -> HxNoErr(r) => HxUnOnlyGiven(r.base, r.addon, r.out)
      [] c = "un_drops_close" -> HxNoErr(r) => HxUnDropsClose(r.base, r.addon, r.win, r.out)
      [] c = "un_keeps_far" -> HxNoErr(r) => HxUnKeepsFar(r.base, r.addon, r.win, r.out)
      [] c = "sm_noerr" -> HxNoErr(r)
      [] c = "sm_mean" -> HxNoErr(r) => SmMean(r)
      (* PulseConv: `raise ValueError(f"pulseSize ({pulseSize}) > signalSize ({signalSize})")` *)
      [] c = "pc_noerr" -> r.size <= Len(r.sig) => HxNoErr(r)
      [] c = "pc_too_large_rejected" -> r.size > Len(r.sig) => ~HxNoErr(r)
      [] c = "aj_noerr" -> HxNoErr(r)
      [] c = "aj_within_one" -> HxNoErr(r) => AjWithinOne(r)
      [] c = "aj_still_breaks" -> HxNoErr(r) => AjStillBreaks(r)
      [] c = "aj_error_not_worse" -> (HxNoErr(r) /\ AjWithinOne(r)) => AjErrorNotWorse(r)
      [] c = "tc_noerr" -> HxNoErr(r)
      [] c = "sg_noerr" -> HxNoErr(r)
      [] c = "sg_probes_cover" -> HxNoErr(r) => SgProbesCover(r)
      [] c = "sg_bins_once" -> (HxNoErr(r) /\ SgProbesCover(r)) => SgBinsOnce(r)
      [] c = "sg_log2_mean" -> (HxNoErr(r) /\ SgProbesCover(r)) => SgLog2Mean(r)
      [] c = "sg_log2_of_input_bins" -> (HxNoErr(r) /\ SgProbesCover(r)) => SgLog2OfBins(r)

(* ================================================================= premise ============ *)
(* bounds keep every integer product below 2^31 (see HxNum / HxDen / HxCmpV)                                          *)
HxSigBounded(sig, hasw) == Len(sig) <= 600 /\ \A k \in 1..Len(sig) : IAbs(sig[k]) <= (IF hasw THEN 64 ELSE 1024)
HxWBounded(sig, hasw, w) == hasw => (Len(w) = Len(sig) /\ \A k \in 1..Len(w) : 0 <= w[k] /\ w[k] <= 16)
HxQOK(qn, qd) == qn > 0 /\ qd > 0 /\ 2 * qn <= qd /\ qd <= 1000000 /\ qn <= 1000          \* 0 < q <= 1/2
Premise(r) ==
    CASE r.op = "haarseg" -> /\ Len(r.sig) >= 1 /\ HxSigBounded(r.sig, r.hasw) /\ HxWBounded(r.sig, r.hasw, r.w)
                             /\ (r.hasw => (Len(r.sig) <= 100 /\ \A k \in 1..Len(r.w) : r.w[k] > 0))
                             /\ HxIsPow2(r.U) /\ r.U <= 64 /\ HxQOK(r.qn, r.qd)
                             /\ 1 <= r.l0 /\ r.l1 <= 5
                             /\ (r.hasraw => Len(r.raw) = Len(r.sig))
      [] r.op = "conv" -> /\ HxSigBounded(r.sig, r.hasw) /\ HxWBounded(r.sig, r.hasw, r.w) /\ HxIsPow2(r.U) /\ r.U <= 64
                          /\ (r.hasw => (Len(r.sig) <= 100 /\ \A k \in 1..Len(r.w) : r.w[k] > 0))
                          /\ 1 <= r.h /\ r.h <= 32
      [] r.op = "peaks" -> HxSigBounded(r.sig, FALSE)
      [] r.op = "unify" -> /\ HxInc(r.base) /\ HxInc(r.addon) /\ r.win >= 0
                           /\ \A x \in HxSet(r.base) \cup HxSet(r.addon) : 0 <= x /\ x <= 100000
      [] r.op = "segmeans" -> /\ Len(r.sig) >= 1 /\ HxSigBounded(r.sig, TRUE) /\ HxWBounded(r.sig, r.hasw, r.w) /\ SmBoundsOK(r)
                              /\ HxIsPow2(r.U) /\ r.U <= 64
      [] r.op = "pulse" -> Len(r.sig) >= 1 /\ r.size >= 1 /\ HxSigBounded(r.sig, FALSE)
      [] r.op = "adjust" -> Len(r.sig) >= 2 /\ HxSigBounded(r.sig, TRUE) /\ Len(r.sig) <= 60 /\ AjBreaksOK(r.sig, r.peaks)
      [] r.op = "coords" -> \A i \in 1..Len(r.rows) : Len(r.rows[i]) = 3
      [] r.op = "segment" ->
            /\ Len(r.chroms) >= 1 /\ HxIsPow2(r.U) /\ r.U <= 64 /\ HxQOK(r.qn, r.qd)
            /\ \A c, d \in 1..Len(r.chroms) : c # d => r.chroms[c].cid # r.chroms[d].cid
            /\ \A c \in 1..Len(r.chroms) : LET bs == SgBins(r, c) IN
                  /\ Len(bs) >= 1 /\ Len(bs) <= 120
                  /\ \A k \in 1..Len(bs) : bs[k][1] >= 0 /\ bs[k][1] < bs[k][2] /\ IAbs(bs[k][3]) <= 64 /\ 1 <= bs[k][4] /\ bs[k][4] <= 16
                  /\ \A k \in 1..Len(bs) - 1 : bs[k][2] <= bs[k + 1][1]            \* sorted, not overlapping
      [] OTHER -> FALSE

(* ================================================================= drift ============ *)
Drift(r) ==
    CASE r.op = "haarseg" -> HsJudge(r).drift
      [] r.op = "conv" -> HxNoErr(r) /\ ~HcAgrees(r)
      [] r.op = "peaks" -> HxNoErr(r) /\ r.out # HxPeaksFrom(HxIntSigns(r.sig), HxIntUps(r.sig))
      [] r.op = "unify" -> HxNoErr(r) /\ r.out # HxUnify(r.base, r.addon, r.win)
      [] r.op = "segmeans" -> HxNoErr(r) /\ ~SmAgrees(r)
      [] r.op = "pulse" -> HxNoErr(r) /\ (r.inexact \/ r.out # PcCoded(r.sig, r.size))
      [] r.op = "adjust" -> HxNoErr(r) /\ ~AjAgrees(r)
      [] r.op = "coords" -> HxNoErr(r) /\ [x |-> r.x, y |-> r.y] # TcCoded(r.rows)
      [] r.op = "segment" -> HxNoErr(r) /\ ~SgAgrees(r)
      [] OTHER -> FALSE
(* clauses the Phi table / exact arithmetic could not settle for this record (counted, never a verdict) *)
Undecided(c, r) == c = "hs_threshold" /\ r.op = "haarseg" /\ HsJudge(r).open
(* drift and undecided of one record, each record judged once *)
Judge(r) == IF r.op = "haarseg" THEN HsJudge(r) ELSE [drift |-> Drift(r), open |-> FALSE]

(* ================================================================= known-finding triggers ============ *)
(* RawIGiven: haarSeg is called with the documented rawI array.  `if rawI:` raises "The truth value of an array with   *)
(*   more than one element is ambiguous" for every array of two or more values (a one-element array [0.] is falsy and  *)
(*   silently ignored, [x # 0] reaches PulseConv(varMask, 2) on a signal of length 1 and is rejected there)            *)
(* SmoothedSignal: segment_haar on bins whose Savitzky-Golay-smoothed log2 (cnarr.smooth_log2()) differs from the bins'  *)
(*   own log2: the segment log2 is the (weighted) mean of the smoothed values                                           *)
KnownTriggers == {"RawIGiven", "SmoothedSignal"}
TriggerHolds(t, r) ==
    CASE t = "RawIGiven" -> r.op = "haarseg" /\ r.hasraw /\ ~(Len(r.raw) = 1 /\ r.raw[1] = 0)
      [] t = "SmoothedSignal" -> r.op = "segment" /\ HxNoErr(r) /\ SgSmoothed(r)
      [] OTHER -> FALSE
=============================================================================
