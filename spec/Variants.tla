--------------------------- MODULE Variants ---------------------------
(* C18 -- VCF genotypes become allele frequencies and per-segment BAF as defined.                      *)
(*                                                                                                      *)
(* A VCF is   [samples |-> <<"S1",..>>, peds |-> << <<derived, original>>, .. >>, recs |-> <<rec,..>>]    *)
(*   rec  = [c (chromosome id; natural order = id order), pos (1-based), ref, alt, sym (alt is "<..>"),  *)
(*           svend (INFO/END or -1), filt (FILTER names; <<>> for "."), som (INFO/SOMATIC flag),         *)
(*           idp (INFO/DP or -1), fad / fdp (AD / DP are keys of FORMAT; GT always is),                   *)
(*           calls = one per sample: [gt |-> allele indices, -1 = ".", ad |-> counts, -1 = ".", dp]]     *)
(*   args = [sk, sn, si | nk, nn, ni]  sample_id / normal_id as kind none/name/index + name + index,     *)
(*          mind (min_depth; -1 = not given), skipsom, skiprej, zn/zd (zygosity_freq; zd = 0: not given), *)
(*          tboost, above (-1 = None, 0 = False, 1 = True), pn/pd (purity; pd = 0: not given), src        *)
(* An observed variant table row is                                                                      *)
(*   [k (index of the VCF record it claims to come from -- a witness the specification verifies),         *)
(*    lab (pandas index label), c, s, e, ref, alt, som, zyg, dp, ac, af, nzyg, ndp, nac, naf]             *)
(*   zygosity in half units (0, 1, 2 for 0.0, 0.5, 1.0); af / naf observed floats [m, neg, hi, lo]        *)
(*   (m = "" finite value x with |x|*10^12 = hi*10^6+lo; "nan"; "inf").                                   *)
(*                                                                                                      *)
(* P-layer = the property as stated; where the statement is silent (a field that is missing in the      *)
(*           file beyond "no depth at all", which depth min_depth uses for a pair, a record straddling an edge *)
(*           edge, which side "one side of 0.5" is when nothing is asked) the clauses leave the freedom. *)
(* A-layer = skgenome/tabio/vcfio.py, cnvlib/vary.py, cnvlib/cmdutil.py, skgenome/intersect.py,          *)
(*           cnvlib/call.py case for case.  Known defects of the code are *named switches* below.        *)
EXTENDS Naturals, Integers, Sequences, FiniteSets, SequencesExt, FiniteSetsExt, Functions, TLC, Num

(* ---- the code as it is today: named switches for defects found by this check ---------------------- *)
(* (TRUE / FALSE as committed in /repo; the other value is the behaviour before the repair named)       *)
CodeBoostAlignedByPosition == TRUE    \* 0d7719f: tumor_boost() carries the rows' index (before: a 0..n-1 Series aligned by *label*)
CodePreMirrorsExplicitSide == TRUE    \* 142cc54: baf_by_ranges mirrors up front when above_half is given (before: a 1-row
                                      \*          group came back raw, because into_ranges does not call summary_func on it)
CodeDepthGuardOnFilterColumn == TRUE  \* bb2305d: min_depth is skipped only when the filtered depth column is all missing
                                      \*          (before: whenever no *tumour* depth was non-zero after filling with 0)
CodeHetFallbackToAll == TRUE          \* OPEN finding: heterozygous() returns *all* rows when no row is heterozygous

Idx(s) == 1..Len(s)
Max2(a, b) == IF a < b THEN b ELSE a
RECURSIVE Gcd(_, _)
Gcd(a, b) == IF b = 0 THEN a ELSE Gcd(b, a % b)

(* ---------------------------------------------------------------- exact rationals <<num, den>>, den > 0 *)
Norm(q) == LET p == IF q[2] < 0 THEN <<0 - q[1], 0 - q[2]>> ELSE q        \* keep den > 0 (a normal frequency above 1 makes 1 - n negative)
               g == Gcd(IAbs(p[1]), p[2])
           IN IF g <= 1 THEN p ELSE <<p[1] \div g, p[2] \div g>>
Rat(n, d) == Norm(<<n, d>>)
RLess(a, b) == a[1] * b[2] < b[1] * a[2]
RLeq(a, b) == a[1] * b[2] <= b[1] * a[2]
RAdd(a, b) == Norm(<<a[1] * b[2] + b[1] * a[2], a[2] * b[2]>>)
RSub(a, b) == Norm(<<a[1] * b[2] - b[1] * a[2], a[2] * b[2]>>)
RHalfOf(a) == Norm(<<a[1], 2 * a[2]>>)
RAbs(a) == <<IAbs(a[1]), a[2]>>
RHalf == <<1, 2>>
RZero == <<0, 1>>
ROne == <<1, 1>>
(* k-th smallest of a sequence of rationals by counting (no sequence copying: 500 values cost 250 000 integer *)
(* comparisons); the median averages the two middle values of an even count (numpy.nanmedian, Series.median)  *)
Kth(s, k) == LET j == CHOOSE j \in Idx(s) : /\ Cardinality({i \in Idx(s) : RLess(s[i], s[j])}) < k
                                              /\ k <= Cardinality({i \in Idx(s) : RLeq(s[i], s[j])})
             IN s[j]
RMedian(s) == LET n == Len(s) IN      \* s non-empty
              IF n % 2 = 1 THEN Kth(s, (n + 1) \div 2) ELSE RHalfOf(RAdd(Kth(s, n \div 2), Kth(s, n \div 2 + 1)))

(* observed float o against the rational q: |o - q| <= 10^-9 * max(1, |q|), by cross-multiplication in limbs *)
RatClose(o, q) ==
    /\ o.m = ""
    /\ LET den == ZFromInt(q[2])
           num == ZFromInt(q[1])
           lhs == ZAbs(ZSub(ZMul(FxObs(o), den), FxFromZ(num)))
           big == IF IAbs(q[1]) > q[2] THEN ZAbs(num) ELSE den
       IN ZLe(lhs, ZMul(ZFromInt(1000), big))
ObsIsZero(o) == o.m = "" /\ o.hi = 0 /\ o.lo = 0
(* a value the A-layer computes: [m |-> "" | "nan" | "inf", q |-> rational]; does the observed float equal it *)
AVal(q) == [m |-> "", q |-> q]
ANaN == [m |-> "nan", q |-> RZero]
AInf == [m |-> "inf", q |-> RZero]
SameVal(o, a) == IF a.m = "" THEN RatClose(o, a.q) ELSE o.m = a.m

(* ================================================================= the VCF ========================== *)
Has(samples, n) == \E i \in Idx(samples) : samples[i] = n
NameIdx(samples, n) == CHOOSE i \in Idx(samples) : samples[i] = n
CallOf(vcf, rc, n) == rc.calls[NameIdx(vcf.samples, n)]
BadFilter(rc) == \E i \in Idx(rc.filt) : rc.filt[i] \notin {".", "PASS", "KEEP"}

(* ================================================================= A-layer: vcfio.py ================= *)
(* _choose_samples: ints index the header's sample list (Python: negative ints count from the end) *)
Resolve(samples, k, n, i) ==
    CASE k = "none"  -> [ok |-> TRUE, v |-> ""]
      [] k = "name"  -> [ok |-> TRUE, v |-> n]
      [] k = "index" -> IF i >= 0 /\ i < Len(samples) THEN [ok |-> TRUE, v |-> samples[i + 1]]
                        ELSE IF i < 0 /\ -i <= Len(samples) THEN [ok |-> TRUE, v |-> samples[Len(samples) + i + 1]]
                        ELSE [ok |-> FALSE, v |-> ""]
SelErr == [err |-> TRUE, sid |-> "", nid |-> ""]
ChooseA(vcf, a) ==
    LET S  == vcf.samples
        rs == Resolve(S, a.sk, a.sn, a.si)
        rn == Resolve(S, a.nk, a.nn, a.ni)
    IN IF ~rs.ok \/ ~rn.ok THEN SelErr                                   \* IndexError: list index out of range
       ELSE IF (rs.v # "" /\ ~Has(S, rs.v)) \/ (rn.v # "" /\ ~Has(S, rn.v)) THEN SelErr   \* "not in VCF file"
       ELSE LET others == SelectSeq(S, LAMBDA s : s # rn.v)
                pairs0 == IF vcf.peds # <<>> THEN vcf.peds                              \* trust the PEDIGREE tags
                          ELSE IF rn.v # "" THEN [j \in Idx(others) |-> <<others[j], rn.v>>]   \* all others pair with the normal
                          ELSE [j \in Idx(S) |-> <<S[j], "">>]                          \* all unpaired
                pairs1 == IF rs.v # "" THEN SelectSeq(pairs0, LAMBDA p : p[1] = rs.v) ELSE pairs0
                pairs2 == IF pairs1 = <<>> THEN << <<rs.v, "">> >> ELSE pairs1           \* "salvage" the given id as unpaired
                ids    == ({pairs2[j][1] : j \in Idx(pairs2)} \cup {pairs2[j][2] : j \in Idx(pairs2)}) \ {""}
            IN IF \E id \in ids : Cardinality({i \in Idx(S) : S[i] = id}) # 1 THEN SelErr   \* _confirm_unique
               ELSE [err |-> FALSE, sid |-> pairs2[1][1], nid |-> pairs2[1][2]]

(* _extract_genotype / _get_alt_count; -1 stands for NaN / None (filled with 0 by read_vcf) *)
SafeSum(ad) == ISum([i \in Idx(ad) |-> IF ad[i] > 0 THEN ad[i] ELSE 0])
ADepth(rc, cl) == IF rc.fdp THEN cl.dp                                   \* "DP" in sample (None when ".")
                  ELSE IF rc.fad THEN SafeSum(cl.ad)
                  ELSE IF rc.idp >= 0 THEN rc.idp ELSE -1
AZyg(cl) == LET g == {cl.gt[i] : i \in Idx(cl.gt)} IN
            IF Cardinality(g) > 1 THEN 1 ELSE IF (CHOOSE x \in g : TRUE) = 0 THEN 0 ELSE 2
ACount(rc, cl) == IF rc.fad /\ cl.ad # <<-1>> THEN (IF Len(cl.ad) > 1 THEN cl.ad[2] ELSE 0) ELSE -1
AFreq(d, ac) == IF d < 0 \/ ac < 0 THEN AVal(RZero)                      \* NaN -> fillna(0.0)
                ELSE IF d = 0 THEN (IF ac = 0 THEN AVal(RZero) ELSE AInf) \* 0/0 = NaN -> 0 ; x/0 = inf stays
                ELSE AVal(Rat(ac, d))
Fill0(x) == IF x < 0 THEN 0 ELSE x
(* _get_end *)
AEnd(rc) == IF rc.sym THEN (IF rc.svend >= 0 THEN rc.svend ELSE rc.pos - 1 + Len(rc.ref)) ELSE rc.pos - 1 + Len(rc.alt)

ARow(vcf, k, sid, nid) ==
    LET rc == vcf.recs[k]
        sample == sid # ""                                               \* no sample kept: INFO-only branch
        ct == IF sample THEN CallOf(vcf, rc, sid) ELSE rc.calls[1]
        d  == IF sample THEN ADepth(rc, ct) ELSE (IF rc.idp >= 0 THEN rc.idp ELSE 0)
        z  == IF sample THEN AZyg(ct) ELSE 0
        ac == IF sample THEN ACount(rc, ct) ELSE 0
        cn == IF nid # "" THEN CallOf(vcf, rc, nid) ELSE ct
        nd == IF nid # "" THEN ADepth(rc, cn) ELSE 0
        nz == IF nid # "" THEN AZyg(cn) ELSE 0
        na == IF nid # "" THEN ACount(rc, cn) ELSE 0
    IN [k |-> k, c |-> rc.c, s |-> rc.pos - 1, e |-> AEnd(rc), ref |-> rc.ref, alt |-> rc.alt, som |-> rc.som,
        zyg |-> z, dp |-> Fill0(d), ac |-> Fill0(ac), af |-> AFreq(d, ac),
        nzyg |-> nz, ndp |-> Fill0(nd), nac |-> Fill0(na), naf |-> IF nid # "" THEN AFreq(nd, na) ELSE AVal(RZero)]

(* GenomicArray.sort: stable by (chromosome, start, end) *)
CoordLess(x, y) == \/ x.c < y.c \/ (x.c = y.c /\ x.s < y.s) \/ (x.c = y.c /\ x.s = y.s /\ x.e < y.e)
RECURSIVE RowInsertBack(_, _)
RowInsertBack(acc, x) == IF acc = <<>> \/ ~CoordLess(x, acc[Len(acc)]) THEN Append(acc, x)
                         ELSE Append(RowInsertBack(SubSeq(acc, 1, Len(acc) - 1), x), acc[Len(acc)])
SortRows(t) == FoldLeft(RowInsertBack, <<>>, t)

(* read_vcf + tabio.read: rows of the records not skipped, the table-level filters, the sort *)
ReadRowsA(vcf, sid, nid, mind, skipsom, skiprej) ==
    LET kept == SelectSeq([k \in Idx(vcf.recs) |-> k], LAMBDA k : ~(skiprej /\ BadFilter(vcf.recs[k])))
        t0 == [j \in Idx(kept) |-> ARow(vcf, kept[j], sid, nid)]
        keyname == IF nid # "" THEN nid ELSE sid
        rawkey(k) == IF keyname = "" THEN 0 ELSE ADepth(vcf.recs[k], CallOf(vcf, vcf.recs[k], keyname))
        guard == IF CodeDepthGuardOnFilterColumn
                 THEN \E j \in Idx(kept) : rawkey(kept[j]) >= 0                  \* table[dkey].notna().any(), before fillna
                 ELSE \E j \in Idx(t0) : t0[j].dp # 0                            \* table["depth"].any()
        t1 == IF mind > 0 /\ guard
              THEN SelectSeq(t0, LAMBDA r : (IF nid # "" THEN r.ndp ELSE r.dp) >= mind)
              ELSE t0
        t2 == IF skipsom THEN SelectSeq(t1, LAMBDA r : ~r.som) ELSE t1
        t3 == SortRows(t2)
    IN [j \in Idx(t3) |-> [lab |-> j - 1] @@ t3[j]]        \* reset_index: label = position
ReadA(vcf, a) ==
    LET sel == ChooseA(vcf, a) IN
    IF sel.err THEN [err |-> TRUE, sid |-> "", nid |-> "", rows |-> <<>>]
    ELSE [err |-> FALSE, sid |-> sel.sid, nid |-> sel.nid,
          rows |-> ReadRowsA(vcf, sel.sid, sel.nid, a.mind, a.skipsom, a.skiprej)]

(* ================================================================= A-layer: vary.py / cmdutil.py ===== *)
(* the frequency of an *observed* table row: count/depth, 0 where the depth is 0 (TableOK checks the stored   *)
(* float against this); rows the A-layer itself produced carry the value in r.af / r.naf                       *)
TabFreq(r)  == IF r.dp > 0 THEN AVal(Rat(r.ac, r.dp)) ELSE AVal(RZero)
TabNFreq(r) == IF r.ndp > 0 THEN AVal(Rat(r.nac, r.ndp)) ELSE AVal(RZero)
(* _tumor_boost: 0.5 t/n if t < n, else 1 - 0.5 (1-t)/(1-n); NaN / inf when the divisor is 0 *)
Boost(t, n) ==
    IF RLess(t, n) THEN AVal(Norm(<<t[1] * n[2], 2 * t[2] * n[1]>>))
    ELSE IF n[1] = n[2] THEN (IF t[1] = t[2] THEN ANaN ELSE AInf)       \* n = 1 <= t: (1-t)/0
    ELSE AVal(Norm(<<2 * t[2] * (n[2] - n[1]) - (t[2] - t[1]) * n[2], 2 * t[2] * (n[2] - n[1])>>))
BoostVals(t, n) == IF t.m = "nan" \/ n.m = "nan" \/ (t.m = "inf" /\ n.m = "inf") THEN ANaN
                   ELSE IF t.m = "inf" THEN AInf                       \* 1 - 0.5 (1 - inf) / (1 - n)
                   ELSE IF n.m = "inf" THEN AVal(RZero)                 \* 0.5 t / inf
                   ELSE Boost(t.q, n.q)
BoostRow(r) == BoostVals(TabFreq(r), TabNFreq(r))
(* what pandas does with `frame["alt_freq"] = tumor_boost()`: the 0..k-1 indexed result b is aligned with the  *)
(* frame's index *labels*; a row whose label is >= k gets NaN (CodeBoostAlignedByPosition = FALSE)            *)
BoostedColumn(rows, b) ==
    IF CodeBoostAlignedByPosition THEN b
    ELSE [j \in Idx(rows) |-> IF rows[j].lab + 1 <= Len(rows) THEN b[rows[j].lab + 1] ELSE ANaN]

(* zygosity_from_freq(het, hom) on a frequency value v *)
ZygFromFreq(v, zn, zd) ==
    IF v.m = "inf" THEN 2
    ELSE IF RLess(v.q, <<zn, zd>>) THEN 0                                \* "< het_freq" is applied last
    ELSE IF RLeq(<<zd - zn, zd>>, v.q) THEN 2 ELSE 1
HetKey(r, paired) == IF paired THEN r.nzyg ELSE r.zyg
(* heterozygous() *)
HetRows(rows, paired) ==
    LET h == SelectSeq(rows, LAMBDA r : HetKey(r, paired) = 1) IN
    IF h = <<>> /\ CodeHetFallbackToAll THEN rows ELSE h

(* load_het_snps *)
HetsA(vcf, a) ==
    LET rd == ReadA(vcf, [a EXCEPT !.skipsom = TRUE, !.skiprej = FALSE]) IN
    IF rd.err THEN [err |-> TRUE, sid |-> "", nid |-> "", rows |-> <<>>]
    ELSE LET paired == rd.nid # ""
             zgiven == a.zd > 0
             mutect == ~zgiven /\ paired /\ \A j \in Idx(rd.rows) : rd.rows[j].nzyg = 0
             zn == IF zgiven THEN a.zn ELSE 1
             zd == IF zgiven THEN a.zd ELSE 4
             t1 == IF zgiven \/ mutect
                   THEN [j \in Idx(rd.rows) |->
                           [rd.rows[j] EXCEPT !.zyg = ZygFromFreq(rd.rows[j].af, zn, zd),
                                              !.nzyg = IF paired THEN ZygFromFreq(rd.rows[j].naf, zn, zd) ELSE 0]]
                   ELSE rd.rows
             t2 == IF paired THEN SelectSeq(t1, LAMBDA r : ~(r.zyg # 0 /\ r.nzyg = 0)) ELSE t1
             t3 == HetRows(t2, paired)
         IN IF a.tboost /\ ~paired THEN [err |-> TRUE, sid |-> rd.sid, nid |-> rd.nid, rows |-> <<>>]   \* ValueError
            ELSE IF a.tboost
                 THEN LET b == BoostedColumn(t3, [j \in Idx(t3) |-> BoostVals(t3[j].af, t3[j].naf)]) IN
                      [err |-> FALSE, sid |-> rd.sid, nid |-> rd.nid,
                       rows |-> [j \in Idx(t3) |-> [t3[j] EXCEPT !.af = b[j]]]]
                 ELSE [err |-> FALSE, sid |-> rd.sid, nid |-> rd.nid, rows |-> t3]

(* ---- a variant table as handed to the BAF functions: the frequency column is r.af when the table says so *)
(* (tables in the traces carry count and depth; the premise checks af = count/depth) *)
Overlaps(r, g) == r.c = g[1] /\ r.e > g[2] /\ r.s < g[3]                  \* intersect.py "outer"
Inside(r, g)   == r.c = g[1] /\ r.s >= g[2] /\ r.e <= g[3]

(* _mirrored_baf of the finite values of one group, then nanmedian: 1/2 +- median |v - 1/2| *)
Finite(vals) == SelectSeq(vals, LAMBDA v : v.m = "")
Shifts(qs) == [j \in Idx(qs) |-> RAbs(RSub(qs[j], RHalf))]
SideAbove(qs, above) == IF above = -1 THEN RLess(RHalf, RMedian(qs)) ELSE above = 1
MirrorMedian(qs, up) == LET m == RMedian(Shifts(qs)) IN IF up THEN RAdd(RHalf, m) ELSE RSub(RHalf, m)
(* series2value + summarize on the values of one range *)
GroupBafA(vals, above) ==
    IF vals = <<>> THEN ANaN
    ELSE IF Len(vals) = 1 THEN vals[1]                                    \* ser.iat[0]: summary_func is not called
    ELSE LET qs == [j \in Idx(Finite(vals)) |-> Finite(vals)[j].q] IN
         IF qs = <<>> THEN ANaN
         ELSE IF \E j \in Idx(vals) : vals[j].m = "inf" THEN ANaN           \* not modelled further (premise excludes it)
         ELSE AVal(MirrorMedian(qs, SideAbove(qs, above)))
(* baf_by_ranges(ranges, above_half, tumor_boost) over a table *)
BafTable(rows, paired, tboost) ==
    LET h == HetRows(rows, paired) IN
    IF tboost /\ paired THEN LET b == BoostedColumn(h, [j \in Idx(h) |-> BoostRow(h[j])]) IN
                             [j \in Idx(h) |-> [row |-> h[j], v |-> b[j]]]
    ELSE [j \in Idx(h) |-> [row |-> h[j], v |-> TabFreq(h[j])]]
Mirror1(v, up) == IF v.m # "" THEN v
                  ELSE LET sh == RAbs(RSub(v.q, RHalf)) IN AVal(IF up THEN RAdd(RHalf, sh) ELSE RSub(RHalf, sh))
BafByRangesA(rows, paired, ranges, above, tboost) ==
    LET t0 == BafTable(rows, paired, tboost)
        t == IF above # -1 /\ CodePreMirrorsExplicitSide                  \* mirrored up front when a side is asked for
             THEN [j \in Idx(t0) |-> [t0[j] EXCEPT !.v = Mirror1(t0[j].v, above = 1)]] ELSE t0 IN
    [g \in Idx(ranges) |->
        LET grp == SelectSeq(t, LAMBDA x : Overlaps(x.row, ranges[g])) IN
        GroupBafA([j \in Idx(grp) |-> grp[j].v], above)]
(* call.rescale_baf: (baf - 1/2 (1 - p)) / p *)
Rescale(q, pn, pd) == Norm(<<2 * q[1] * pd - q[2] * (pd - pn), 2 * q[2] * pn>>)
CallBafA(rows, paired, ranges, pn, pd) ==
    IF rows = <<>> THEN [g \in Idx(ranges) |-> ANaN]                      \* `if variants:` is false: no baf column
    ELSE LET b == BafByRangesA(rows, paired, ranges, -1, FALSE) IN
         IF pd > 0 /\ pn < pd THEN [g \in Idx(ranges) |-> IF b[g].m = "" THEN AVal(Rescale(b[g].q, pn, pd)) ELSE b[g]]
         ELSE b
(* mirrored_baf(above_half, tumor_boost): whole table, one value per row; tumor_boost() itself is positional *)
TableVals(rows, paired, tboost) ==
    IF tboost /\ paired THEN [j \in Idx(rows) |-> BoostRow(rows[j])] ELSE [j \in Idx(rows) |-> TabFreq(rows[j])]
MirrorA(rows, paired, above, tboost) ==
    LET vals == TableVals(rows, paired, tboost)
        fin == Finite(vals)
        qs == [j \in Idx(fin) |-> fin[j].q]
        up == IF qs = <<>> THEN above = 1 ELSE SideAbove(qs, above)
    IN [j \in Idx(vals) |-> IF vals[j].m # "" THEN vals[j]
                            ELSE LET sh == RAbs(RSub(vals[j].q, RHalf)) IN
                                 AVal(IF up THEN RAdd(RHalf, sh) ELSE RSub(RHalf, sh))]

(* ================================================================= P-layer ========================== *)
(* what the file itself defines (-1 = the file does not say; the property is silent there) *)
PDepth(rc, cl) == IF rc.fdp /\ cl.dp >= 0 THEN cl.dp ELSE -1
PCount(rc, cl) == IF rc.fad /\ Len(cl.ad) >= 2 /\ cl.ad[2] >= 0 THEN cl.ad[2] ELSE -1
PZyg(cl) == IF \E i \in Idx(cl.gt) : cl.gt[i] < 0 THEN -1
            ELSE IF \A i \in Idx(cl.gt) : cl.gt[i] = cl.gt[1] THEN (IF cl.gt[1] = 0 THEN 0 ELSE 2) ELSE 1

(* "chosen by the documented rules (PEDIGREE-declared pairs first, else the given tumour and normal ids,   *)
(*  else the first sample)";  rs / rn are the given ids ("" = not given)                                  *)
PIds(vcf, a) == [s |-> Resolve(vcf.samples, a.sk, a.sn, a.si), n |-> Resolve(vcf.samples, a.nk, a.nn, a.ni)]
BadId(vcf, a) == LET p == PIds(vcf, a) IN
                 \/ ~p.s.ok \/ ~p.n.ok
                 \/ (p.s.v # "" /\ ~Has(vcf.samples, p.s.v)) \/ (p.n.v # "" /\ ~Has(vcf.samples, p.n.v))
(* the rules do not say what happens here: the only sample is named as the normal *)
Degenerate(vcf, a) == LET p == PIds(vcf, a) IN
                      vcf.peds = <<>> /\ p.n.v # "" /\ p.s.v = "" /\ \A i \in Idx(vcf.samples) : vcf.samples[i] = p.n.v
SelOK(vcf, a, sel) ==
    LET p == PIds(vcf, a)  S == vcf.samples  sid == p.s.v  nid == p.n.v IN
    IF vcf.peds # <<>>
    THEN IF sid = "" THEN sel.sid = vcf.peds[1][1] /\ sel.nid = vcf.peds[1][2]
         ELSE /\ sel.sid = sid
              /\ (\E j \in Idx(vcf.peds) : vcf.peds[j][1] = sid)
                    => \E j \in Idx(vcf.peds) : vcf.peds[j][1] = sid /\ vcf.peds[j][2] = sel.nid
    ELSE IF nid # ""
    THEN IF sid # "" /\ sid # nid THEN sel.sid = sid /\ sel.nid = nid
         ELSE IF sid = "" THEN (\E i \in Idx(S) : S[i] # nid) =>
                                   (sel.nid = nid /\ sel.sid = S[CHOOSE i \in Idx(S) : S[i] # nid /\ \A j \in 1..(i-1) : S[j] = nid])
         ELSE sel.sid = sid                                               \* tumour = normal given: pairing not defined
    ELSE sel.nid = "" /\ sel.sid = (IF sid # "" THEN sid ELSE S[1])

(* does a record survive "the depth and somatic filters asked for" (and skip_reject): keep / drop / free      *)
(* The statement does not say WHICH sample's depth min_depth applies to for a tumour/normal pair, so both        *)
(* readings are admitted: a record is "keep" (must have its row) only if it passes under both, "drop" (must not  *)
(* have one) only if it fails under both, and free otherwise -- e.g. when both depths are present and lie on      *)
(* opposite sides of min_depth.  (The A-layer models the code's choice, the normal's: a change is MODEL-DRIFT.)   *)
(* Under one reading, for the sample it names:                                                                    *)
(*   - DP present: compared with min_depth (>= keeps);                                                            *)
(*   - the file gives the sample no depth at all in this record (no DP, no AD value, no INFO/DP): the record is   *)
(*     below any min_depth > 0 whenever depth information exists in the file for that sample; "exists" is        *)
(*     decided on all parsed records (every record not skipped as rejected), before any filter -- a SOMATIC       *)
(*     record that skip_somatic will drop still counts.  A file without any depth for the sample is left          *)
(*     unfiltered ("depth info not available"): free;                                                             *)
(*   - DP missing but AD has values: the statement does not say whether their sum is the depth: free.             *)
FilterKey(sid, nid) == IF nid # "" THEN nid ELSE sid            \* the sample whose genotype makes a record germline-het
NoDepthAtAll(rc, cl) == /\ ~(rc.fdp /\ cl.dp >= 0)
                        /\ ~(rc.fad /\ \E i \in Idx(cl.ad) : cl.ad[i] >= 0)
                        /\ rc.idp < 0
DepthInfoInFile(vcf, key, skiprej) ==
    key # "" /\ \E k \in Idx(vcf.recs) : /\ ~(skiprej /\ BadFilter(vcf.recs[k]))
                                         /\ PDepth(vcf.recs[k], CallOf(vcf, vcf.recs[k], key)) >= 0
DepthFate(vcf, rc, key, mind, info) ==      \* one reading: the filter looks at sample `key`
    LET cl == CallOf(vcf, rc, key)  d == PDepth(rc, cl) IN
    IF d >= 0 THEN (IF d >= mind THEN "keep" ELSE "drop")
    ELSE IF NoDepthAtAll(rc, cl) /\ info THEN "drop"
    ELSE "free"
(* infoS / infoN = DepthInfoInFile for the sample / the paired normal (computed once per record of the trace) *)
PFateI(vcf, rc, sid, nid, mind, skipsom, skiprej, infoS, infoN) ==
    IF (skiprej /\ BadFilter(rc)) \/ (skipsom /\ rc.som) THEN "drop"
    ELSE IF mind <= 0 THEN "keep"
    ELSE LET fs == DepthFate(vcf, rc, sid, mind, infoS)
             fn == IF nid # "" THEN DepthFate(vcf, rc, nid, mind, infoN) ELSE fs IN
         IF fs = fn THEN fs ELSE "free"

KeyOK(vcf, row) == /\ row.k \in Idx(vcf.recs)
                   /\ LET rc == vcf.recs[row.k] IN
                      rc.c = row.c /\ rc.pos - 1 = row.s /\ rc.ref = row.ref /\ rc.alt = row.alt
RowsFromRecords(vcf, rows) ==      \* one row per record, 0-based start: every row is a record, no record twice
    /\ \A j \in Idx(rows) : KeyOK(vcf, rows[j])
    /\ Cardinality({rows[j].k : j \in Idx(rows)}) = Len(rows)
SampleFieldsOK(rc, cl, zyg, dp, ac) ==
    /\ zyg \in {0, 1, 2} /\ (PZyg(cl) >= 0 => zyg = PZyg(cl))
    /\ (PDepth(rc, cl) >= 0 => dp = PDepth(rc, cl))
    /\ (PCount(rc, cl) >= 0 => ac = PCount(rc, cl))
FreqOK(dp, ac, af) == dp > 0 => RatClose(af, Rat(ac, dp))                \* alt_freq = count / depth

SelUsable(vcf, r) == r.err = "" /\ r.sel.called /\ r.sel.sid # "" /\ Has(vcf.samples, r.sel.sid)
                     /\ (r.sel.nid # "" => Has(vcf.samples, r.sel.nid))

(* ---- germline-heterozygous (load_het_snps): yes / no / free ---------------------------------------- *)
(* zygosity in effect: the genotype, or -- when zygosity_freq is given, or (the code's documented Mutect2     *)
(* work-around) every genotype of the paired normal is 0/0 -- thresholds z and 1-z on the allele frequency    *)
EffZI(vcf, a, sid, nid, infoS, infoN) ==
    IF a.zd > 0 THEN <<a.zn, a.zd>>
    ELSE IF nid = "" THEN <<0, 0>>                                         \* <<0,0>> = by genotype
    ELSE IF \A k \in Idx(vcf.recs) : PZyg(CallOf(vcf, vcf.recs[k], nid)) = 0 THEN <<1, 4>>
    ELSE IF \E k \in Idx(vcf.recs) : /\ PFateI(vcf, vcf.recs[k], sid, nid, a.mind, TRUE, FALSE, infoS, infoN) = "keep"
                                     /\ PZyg(CallOf(vcf, vcf.recs[k], nid)) \in {1, 2} THEN <<0, 0>>
    ELSE <<-1, 0>>                                                         \* cannot be told from the file
PHetI(vcf, a, sid, nid, rc, ez, infoS, infoN) ==       \* ez = EffZI(..), infoS/N = DepthInfoInFile(..): computed once per record of the trace
    LET fate == PFateI(vcf, rc, sid, nid, a.mind, TRUE, FALSE, infoS, infoN)
        key == CallOf(vcf, rc, FilterKey(sid, nid))
        byrule == IF ez = <<-1, 0>> THEN "free"
                  ELSE IF ez = <<0, 0>> THEN (IF PZyg(key) < 0 THEN "free" ELSE IF PZyg(key) = 1 THEN "yes" ELSE "no")
                  ELSE LET d == PDepth(rc, key)  c == PCount(rc, key) IN
                       IF d <= 0 \/ c < 0 THEN "free"
                       ELSE IF ez[1] * d <= c * ez[2] /\ c * ez[2] < (ez[2] - ez[1]) * d THEN "yes" ELSE "no"
    IN IF fate = "drop" \/ byrule = "no" THEN "no"
       ELSE IF fate = "keep" /\ byrule = "yes" THEN "yes" ELSE "free"

(* ---- BAF of one range over a table ------------------------------------------------------------------ *)
(* the values that count: heterozygous rows (by the normal's genotype for a pair); rows wholly inside the   *)
(* range must be used, rows straddling an edge may be (the statement says "inside")                         *)
PHetRows(rows, paired) == SelectSeq(rows, LAMBDA r : HetKey(r, paired) = 1)
PValue(r, paired, tboost) == IF tboost /\ paired THEN BoostRow(r) ELSE TabFreq(r)
MaxStraddle == 6
GroupOK(o, must, may, paired, above, tboost, pn, pd) ==
    \E extra \in SUBSET (DOMAIN may) :
        LET rowsin == must \o [j \in 1..Cardinality(extra) |-> may[SetToSortSeq(extra, <)[j]]]
            qs == [j \in Idx(rowsin) |-> PValue(rowsin[j], paired, tboost).q]
            fin(q) == IF pd > 0 /\ pn < pd THEN Rescale(q, pn, pd) ELSE q
            m == RMedian(Shifts(qs))
        IN IF rowsin = <<>> THEN o.m = "nan"                              \* missing where there are none
           ELSE IF above = -1 THEN RatClose(o, fin(RAdd(RHalf, m))) \/ RatClose(o, fin(RSub(RHalf, m)))   \* "one side"
           ELSE RatClose(o, fin(IF above = 1 THEN RAdd(RHalf, m) ELSE RSub(RHalf, m)))
RangeBafOK(o, rows, paired, g, above, tboost, pn, pd) ==
    LET h == PHetRows(rows, paired)
        must == SelectSeq(h, LAMBDA r : Inside(r, g))
        may == SelectSeq(h, LAMBDA r : Overlaps(r, g) /\ ~Inside(r, g))
    IN GroupOK(o, must, may, paired, above, tboost, pn, pd)
(* the documented default: with above_half = None the side is the majority's (median of the raw values);     *)
(* judged only away from the tie, and only where no row straddles an edge                                     *)
RangeSideOK(o, rows, paired, g, tboost) ==
    LET h == PHetRows(rows, paired)
        must == SelectSeq(h, LAMBDA r : Inside(r, g))
        may == SelectSeq(h, LAMBDA r : Overlaps(r, g) /\ ~Inside(r, g))
        qs == [j \in Idx(must) |-> PValue(must[j], paired, tboost).q]
    IN (may = <<>> /\ must # <<>> /\ RMedian(qs) # RHalf) =>
          RatClose(o, MirrorMedian(qs, RLess(RHalf, RMedian(qs))))

(* ---- premises ------------------------------------------------------------------------------------------ *)
VcfOK(vcf) ==
    /\ Len(vcf.samples) \in 1..3
    /\ \A i, j \in Idx(vcf.samples) : i # j => vcf.samples[i] # vcf.samples[j]
    /\ Len(vcf.peds) <= 2
    /\ \A j \in Idx(vcf.peds) : vcf.peds[j][1] # vcf.peds[j][2] /\ Has(vcf.samples, vcf.peds[j][1]) /\ Has(vcf.samples, vcf.peds[j][2])
    /\ Len(vcf.recs) <= 500
    /\ \A k \in Idx(vcf.recs) : LET rc == vcf.recs[k] IN
          /\ rc.pos >= 1 /\ rc.c \in 1..3 /\ Len(rc.calls) = Len(vcf.samples)
          /\ \A i \in Idx(rc.calls) : Len(rc.calls[i].gt) \in 1..2 /\ Len(rc.calls[i].ad) \in 1..2    \* biallelic
    /\ \A k1, k2 \in Idx(vcf.recs) : k1 < k2 =>                             \* a record is identified by its locus and alleles
          LET x == vcf.recs[k1]  y == vcf.recs[k2] IN ~(x.c = y.c /\ x.pos = y.pos /\ x.ref = y.ref /\ x.alt = y.alt)
ArgsOK(a) ==
    /\ (a.sk = "index" => a.si >= 0) /\ (a.nk = "index" => a.ni >= 0)      \* "a positive integer ... counting from 0"
    /\ (a.sk = "name" => a.sn # "") /\ (a.nk = "name" => a.nn # "")
    /\ a.mind >= -1
    /\ (a.zd > 0 => (a.zn >= 0 /\ 2 * a.zn <= a.zd))                        \* 0 <= z <= 1 - z
    /\ (a.pd > 0 => (a.pn > 0 /\ a.pn <= a.pd))
(* a table handed to the BAF functions: sorted as tabio.read delivers it, frequencies = count/depth, small    *)
(* enough integers for exact 32-bit rational arithmetic; tumour-boosted values must be defined               *)
TableOK(rows, paired, tboost) ==
    /\ \A j \in 1..Len(rows)-1 : ~CoordLess(rows[j+1], rows[j])
    /\ \A j \in Idx(rows) : LET r == rows[j] IN
          /\ r.s < r.e /\ r.zyg \in {0, 1, 2} /\ r.nzyg \in {0, 1, 2}
          /\ r.dp >= 0 /\ r.ac >= 0 /\ r.ndp >= 0 /\ r.nac >= 0
          /\ r.dp <= (IF tboost /\ paired THEN 40 ELSE 1000) /\ (r.dp > 0 => r.ac <= 2 * r.dp)
          /\ (r.ndp <= 40 \/ ~(tboost /\ paired)) /\ (r.ndp > 0 => r.nac <= 2 * r.ndp)
          /\ (IF r.dp > 0 THEN RatClose(r.af, Rat(r.ac, r.dp)) ELSE ObsIsZero(r.af))
          /\ (paired => IF r.ndp > 0 THEN RatClose(r.naf, Rat(r.nac, r.ndp)) ELSE ObsIsZero(r.naf))
          /\ ((tboost /\ paired /\ HetKey(r, paired) = 1) => BoostRow(r).m = "")
RangesOK(rows, paired, ranges) ==
    /\ \A g \in Idx(ranges) : ranges[g][2] < ranges[g][3] /\ ranges[g][2] >= 0
    /\ \A g1, g2 \in Idx(ranges) : (g1 < g2 /\ ranges[g1][1] = ranges[g2][1]) =>
           \A g3 \in g1..g2 : ranges[g3][1] = ranges[g1][1]                 \* rows of one chromosome are contiguous
    /\ \A g \in Idx(ranges) :
           Len(SelectSeq(PHetRows(rows, paired), LAMBDA r : Overlaps(r, ranges[g]) /\ ~Inside(r, ranges[g]))) <= MaxStraddle

ReadOps  == {"read"}
TableOps == {"baf", "call", "segment", "mirror", "boost"}

Premise(r) ==
    CASE r.op = "read" -> VcfOK(r.vcf) /\ ArgsOK(r.args)
      [] r.op = "hets" -> VcfOK(r.vcf) /\ ArgsOK(r.args) /\ r.args.mind >= 0
      [] r.op \in {"baf", "call", "segment"} ->
            /\ ArgsOK(r.args)
            /\ TableOK(r.rows, r.paired, r.args.tboost /\ r.op = "baf")
            /\ RangesOK(r.rows, r.paired, r.segs)
      [] r.op \in {"mirror", "boost"} ->
            /\ ArgsOK(r.args)
            /\ TableOK(r.rows, r.paired, r.op = "boost" \/ r.args.tboost)
            /\ ((r.paired /\ (r.op = "boost" \/ r.args.tboost)) => \A j \in Idx(r.rows) : BoostRow(r.rows[j]).m = "")
      [] OTHER -> FALSE

Clauses(op) ==
    CASE op = "read" -> {"select_bad_id_refused", "read_noerr", "select_pair", "rows_paired_columns",
                         "rows_one_per_record", "rows_filters_keep", "rows_filters_drop", "row_start_end",
                         "row_sample_fields", "row_normal_fields", "row_alt_freq", "row_somatic"}
      [] op = "hets" -> {"hets_bad_id_refused", "hets_noerr", "hets_one_per_record", "hets_keeps_every_het",
                         "hets_keeps_only_hets", "hets_fields", "hets_freq_attached"}
      [] op = "baf"  -> {"baf_noerr", "baf_median_mirrored", "baf_missing_iff_none", "baf_majority_side"}
      [] op = "call" -> {"call_noerr", "call_baf_column", "call_baf_missing_iff_none"}
      [] op = "segment" -> {"segment_noerr", "segment_baf_column", "segment_baf_missing_iff_none"}
      [] op = "mirror" -> {"mirror_noerr", "mirror_each_row"}
      [] op = "boost" -> {"boost_needs_pair", "boost_formula_each_row"}
      [] OTHER -> {}

OutOK(r) == r.err = "" /\ Len(r.out) = Len(r.segs)
NoHetInside(rows, paired, g) == ~\E j \in Idx(rows) : HetKey(rows[j], paired) = 1 /\ Overlaps(rows[j], g)
SomeHetInside(rows, paired, g) == \E j \in Idx(rows) : HetKey(rows[j], paired) = 1 /\ Inside(rows[j], g)

Holds(c, r) ==
    LET vcf == r.vcf  a == r.args  sel == r.sel IN
    CASE c \in {"select_bad_id_refused", "hets_bad_id_refused"} ->
            (* an id that is not in the file (or an index past the last sample) is refused *)
            BadId(vcf, a) => r.err # ""
      [] c = "read_noerr" -> (~BadId(vcf, a) /\ ~Degenerate(vcf, a)) => r.err = ""
      [] c = "select_pair" ->
            (* PEDIGREE-declared pairs first, else the given tumour and normal ids, else the first sample *)
            (~BadId(vcf, a) /\ ~Degenerate(vcf, a) /\ r.err = "") => (sel.called /\ SelOK(vcf, a, sel))
      [] c = "rows_paired_columns" ->
            (* "... and paired normal, if any": the n_* columns are there exactly when a normal was chosen *)
            (r.err = "" /\ sel.called /\ Len(r.rows) > 0) => (r.paired <=> sel.nid # "")
      [] c = "rows_one_per_record" -> r.err = "" => RowsFromRecords(vcf, r.rows)
      [] c = "rows_filters_keep" ->
            (* a record that passes every filter asked for has its row *)
            (SelUsable(vcf, r) /\ RowsFromRecords(vcf, r.rows)) =>
                LET infoS == DepthInfoInFile(vcf, sel.sid, a.skiprej)
                    infoN == DepthInfoInFile(vcf, sel.nid, a.skiprej)
                    have == {r.rows[j].k : j \in Idx(r.rows)} IN
                \A k \in Idx(vcf.recs) :
                    PFateI(vcf, vcf.recs[k], sel.sid, sel.nid, a.mind, a.skipsom, a.skiprej, infoS, infoN) = "keep" => k \in have
      [] c = "rows_filters_drop" ->
            (* a record below min_depth, flagged SOMATIC under skip_somatic, or rejected under skip_reject has none *)
            (SelUsable(vcf, r) /\ RowsFromRecords(vcf, r.rows)) =>
                LET infoS == DepthInfoInFile(vcf, sel.sid, a.skiprej)
                    infoN == DepthInfoInFile(vcf, sel.nid, a.skiprej) IN
                \A j \in Idx(r.rows) :
                    PFateI(vcf, vcf.recs[r.rows[j].k], sel.sid, sel.nid, a.mind, a.skipsom, a.skiprej, infoS, infoN) # "drop"
      [] c = "row_start_end" ->
            (* 0-based start (in the key) and a proper interval; a symbolic allele ends at INFO/END *)
            (r.err = "" /\ RowsFromRecords(vcf, r.rows)) =>
                \A j \in Idx(r.rows) : LET row == r.rows[j]  rc == vcf.recs[row.k] IN
                    /\ row.s = rc.pos - 1 /\ row.e > row.s
                    /\ (rc.sym /\ rc.svend >= 0) => row.e = rc.svend
      [] c = "row_sample_fields" ->
            (* depth, alt-allele count, zygosity 0/0.5/1 from the genotype -- of the chosen sample *)
            (SelUsable(vcf, r) /\ RowsFromRecords(vcf, r.rows)) =>
                \A j \in Idx(r.rows) : LET row == r.rows[j]  rc == vcf.recs[row.k] IN
                    SampleFieldsOK(rc, CallOf(vcf, rc, sel.sid), row.zyg, row.dp, row.ac)
      [] c = "row_normal_fields" ->
            (SelUsable(vcf, r) /\ sel.nid # "" /\ r.paired /\ RowsFromRecords(vcf, r.rows)) =>
                \A j \in Idx(r.rows) : LET row == r.rows[j]  rc == vcf.recs[row.k] IN
                    /\ SampleFieldsOK(rc, CallOf(vcf, rc, sel.nid), row.nzyg, row.ndp, row.nac)
                    /\ FreqOK(row.ndp, row.nac, row.naf)
      [] c = "row_alt_freq" ->
            (* alt_freq = count / depth *)
            r.err = "" => \A j \in Idx(r.rows) : FreqOK(r.rows[j].dp, r.rows[j].ac, r.rows[j].af)
      [] c = "row_somatic" ->
            (r.err = "" /\ RowsFromRecords(vcf, r.rows)) =>
                \A j \in Idx(r.rows) : r.rows[j].som = vcf.recs[r.rows[j].k].som
      (* ---------------- load_het_snps keeps exactly the germline-heterozygous records *)
      [] c = "hets_noerr" ->
            (~BadId(vcf, a) /\ ~Degenerate(vcf, a) /\ ~(a.tboost /\ sel.called /\ sel.nid = "")) => r.err = ""
      [] c = "hets_one_per_record" -> r.err = "" => RowsFromRecords(vcf, r.rows)
      [] c = "hets_keeps_every_het" ->
            (SelUsable(vcf, r) /\ RowsFromRecords(vcf, r.rows)) =>
                LET infoS == DepthInfoInFile(vcf, sel.sid, FALSE)
                    infoN == DepthInfoInFile(vcf, sel.nid, FALSE)
                    ez == EffZI(vcf, a, sel.sid, sel.nid, infoS, infoN)
                    have == {r.rows[j].k : j \in Idx(r.rows)} IN
                \A k \in Idx(vcf.recs) :
                    PHetI(vcf, a, sel.sid, sel.nid, vcf.recs[k], ez, infoS, infoN) = "yes" => k \in have
      [] c = "hets_keeps_only_hets" ->
            (SelUsable(vcf, r) /\ RowsFromRecords(vcf, r.rows)) =>
                LET infoS == DepthInfoInFile(vcf, sel.sid, FALSE)
                    infoN == DepthInfoInFile(vcf, sel.nid, FALSE)
                    ez == EffZI(vcf, a, sel.sid, sel.nid, infoS, infoN) IN
                \A j \in Idx(r.rows) : PHetI(vcf, a, sel.sid, sel.nid, vcf.recs[r.rows[j].k], ez, infoS, infoN) # "no"
      [] c = "hets_fields" ->
            (SelUsable(vcf, r) /\ RowsFromRecords(vcf, r.rows)) =>
                \A j \in Idx(r.rows) : LET row == r.rows[j]  rc == vcf.recs[row.k] IN
                    /\ row.s = rc.pos - 1 /\ row.e > row.s /\ row.som = rc.som
                    /\ LET cl == CallOf(vcf, rc, sel.sid) IN
                       /\ (PDepth(rc, cl) >= 0 => row.dp = PDepth(rc, cl))
                       /\ (PCount(rc, cl) >= 0 => row.ac = PCount(rc, cl))
                    /\ (sel.nid # "" /\ r.paired) => LET cl == CallOf(vcf, rc, sel.nid) IN
                       /\ (PDepth(rc, cl) >= 0 => row.ndp = PDepth(rc, cl))
                       /\ (PCount(rc, cl) >= 0 => row.nac = PCount(rc, cl))
      [] c = "hets_freq_attached" ->
            (* frequencies stay attached to their own coordinates: a row's alt_freq is its own record's            *)
            (* count/depth, or with tumor_boost its own TumorBoost value                                            *)
            (r.err = "" /\ RowsFromRecords(vcf, r.rows)) =>
                \A j \in Idx(r.rows) : LET row == r.rows[j] IN
                    IF a.tboost
                    THEN (row.dp > 0 /\ row.ndp > 0 /\ BoostRow(row).m = "") => RatClose(row.af, BoostRow(row).q)
                    ELSE FreqOK(row.dp, row.ac, row.af)
      (* ---------------- BAF of a segment or bin *)
      [] c \in {"baf_noerr", "call_noerr", "segment_noerr"} ->
            (* one value per range, for every table (an empty one included) and every range table *)
            OutOK(r)
      [] c \in {"baf_median_mirrored", "segment_baf_column"} ->
            (* the median of the heterozygous frequencies inside it, mirrored to one side of 0.5 *)
            OutOK(r) => \A g \in Idx(r.segs) :
                RangeBafOK(r.out[g], r.rows, r.paired, r.segs[g], IF c = "baf_median_mirrored" THEN a.above ELSE -1,
                           a.tboost /\ c = "baf_median_mirrored", 0, 0)
      [] c = "call_baf_column" ->
            (* ... and purity rescaling follows its formula (baf - (1-p)/2) / p *)
            OutOK(r) => \A g \in Idx(r.segs) : RangeBafOK(r.out[g], r.rows, r.paired, r.segs[g], -1, FALSE, a.pn, a.pd)
      [] c \in {"baf_missing_iff_none", "call_baf_missing_iff_none", "segment_baf_missing_iff_none"} ->
            (* missing where there are none -- and only there *)
            OutOK(r) => \A g \in Idx(r.segs) :
                /\ NoHetInside(r.rows, r.paired, r.segs[g]) => r.out[g].m = "nan"
                /\ SomeHetInside(r.rows, r.paired, r.segs[g]) => r.out[g].m = ""
      [] c = "baf_majority_side" ->
            (OutOK(r) /\ a.above = -1) => \A g \in Idx(r.segs) : RangeSideOK(r.out[g], r.rows, r.paired, r.segs[g], a.tboost)
      [] c = "mirror_noerr" -> r.err = ""
      [] c = "mirror_each_row" ->
            (* every frequency mirrored at 0.5 to the side asked for (one common side when none is asked), in place *)
            r.err = "" =>
                /\ Len(r.out) = Len(r.rows)
                /\ \E up \in (IF a.above = -1 THEN {TRUE, FALSE} ELSE {a.above = 1}) :
                      \A j \in Idx(r.rows) :
                          LET v == PValue(r.rows[j], r.paired, a.tboost).q  sh == RAbs(RSub(v, RHalf)) IN
                          RatClose(r.out[j], IF up THEN RAdd(RHalf, sh) ELSE RSub(RHalf, sh))
      [] c = "boost_needs_pair" -> r.paired <=> r.err = ""
      [] c = "boost_formula_each_row" ->
            (* TumorBoost: t/(2n) if t < n, else 1 - (1-t)/(2(1-n)), each row from its own t and n *)
            (r.paired /\ r.err = "") =>
                /\ Len(r.out) = Len(r.rows)
                /\ \A j \in Idx(r.rows) : RatClose(r.out[j], BoostRow(r.rows[j]).q)

(* ================================================================= drift (A-layer vs. output) ======== *)
SameRow(o, x, paired, withlab) ==
    /\ o.k = x.k /\ o.c = x.c /\ o.s = x.s /\ o.e = x.e /\ o.som = x.som /\ o.zyg = x.zyg /\ o.dp = x.dp /\ o.ac = x.ac
    /\ SameVal(o.af, x.af)
    /\ (withlab => o.lab = x.lab)
    /\ paired => (o.nzyg = x.nzyg /\ o.ndp = x.ndp /\ o.nac = x.nac /\ SameVal(o.naf, x.naf))
SameRows(orows, arows, paired, withlab) ==
    Len(orows) = Len(arows) /\ \A j \in Idx(orows) : SameRow(orows[j], arows[j], paired, withlab)
SameOut(out, exp) == Len(out) = Len(exp) /\ \A j \in Idx(out) : SameVal(out[j], exp[j])
Drift(r) ==
    CASE r.op = "read" -> LET x == ReadA(r.vcf, r.args) IN
            IF x.err THEN r.err = ""
            ELSE \/ r.err # "" \/ ~r.sel.called \/ r.sel.sid # x.sid \/ r.sel.nid # x.nid
                 \/ (Len(r.rows) > 0 /\ (r.paired <=> x.nid = ""))
                 \/ ~SameRows(r.rows, x.rows, x.nid # "", TRUE)
      [] r.op = "hets" -> LET x == HetsA(r.vcf, r.args) IN
            IF x.err THEN r.err = ""
            ELSE r.err # "" \/ ~SameRows(r.rows, x.rows, x.nid # "", TRUE)
      [] r.op = "baf" -> r.err # "" \/ ~SameOut(r.out, BafByRangesA(r.rows, r.paired, r.segs, r.args.above, r.args.tboost))
      [] r.op = "call" -> r.err # "" \/ ~SameOut(r.out, CallBafA(r.rows, r.paired, r.segs, r.args.pn, r.args.pd))
      [] r.op = "segment" -> r.err # "" \/ ~SameOut(r.out, BafByRangesA(r.rows, r.paired, r.segs, -1, FALSE))
      [] r.op = "mirror" -> r.err # "" \/ ~SameOut(r.out, MirrorA(r.rows, r.paired, r.args.above, r.args.tboost))
      [] r.op = "boost" -> IF r.paired THEN r.err # "" \/ ~SameOut(r.out, [j \in Idx(r.rows) |-> BoostRow(r.rows[j])])
                           ELSE r.err = ""
      [] OTHER -> FALSE

(* ================================================================= known-finding triggers =========== *)
KnownTriggers == {"NoHeterozygousRowAtAll"}
(* inputs on which the defects repaired in 142cc54, 0d7719f, bb2305d, c778dbd, dbdf8d1 showed (kept as documentation) *)
RepairedTriggers == {"SingleHetExplicitSide", "TumorBoostLabelsShifted", "NoTumourDepthAtAll", "EmptyTableLosesColumns",
                     "DepthMissingInEveryRecord"}
(* positions of the rows tumor_boost() is computed for are not their index labels *)
LabelsShifted(rows) == \E j \in Idx(rows) : rows[j].lab # j - 1
TriggerHolds(t, r) ==
    CASE t = "NoHeterozygousRowAtAll" ->
            (* heterozygous() hands back every row when none is heterozygous *)
            \/ r.op \in {"baf", "call", "segment"} /\ r.rows # <<>> /\ PHetRows(r.rows, r.paired) = <<>>
            \/ r.op = "hets" /\ r.err = "" /\ r.rows # <<>> /\ PHetRows(r.rows, r.paired) = <<>>
      [] t = "SingleHetExplicitSide" ->
            (* a range with exactly one heterozygous row gets that row's raw frequency, whatever side was asked for *)
            r.op = "baf" /\ r.args.above # -1 /\
            \E g \in Idx(r.segs) : Len(SelectSeq(PHetRows(r.rows, r.paired), LAMBDA x : Overlaps(x, r.segs[g]))) = 1
      [] t = "TumorBoostLabelsShifted" ->
            (* the boosted frequencies come back indexed 0..k-1 and are aligned by label with rows labelled otherwise *)
            \/ r.op = "baf" /\ r.args.tboost /\ r.paired /\ LabelsShifted(PHetRows(r.rows, r.paired))
            \/ r.op = "hets" /\ r.args.tboost /\ r.err = "" /\ LabelsShifted(r.rows)
      [] t = "NoTumourDepthAtAll" ->
            (* min_depth is not applied when every tumour depth read is 0 *)
            r.op \in {"read", "hets"} /\ r.args.mind > 0 /\ r.err = "" /\ r.rows # <<>> /\ \A j \in Idx(r.rows) : r.rows[j].dp = 0
      [] t = "EmptyTableLosesColumns" ->
            (* read_vcf(skip_somatic=True) of a file with no (unrejected) record returns a table without its columns; *)
            (* the functions over it then raise                                                                        *)
            /\ r.rows = <<>> /\ r.err # ""
            /\ (r.nrec = 0 \/ r.args.skiprej)
            /\ (r.op = "hets" \/ r.args.src = "hets" \/ r.args.skipsom)
      [] t = "DepthMissingInEveryRecord" ->
            (* DP is a FORMAT key but "." for one of the chosen samples in every record: read_vcf leaves that depth   *)
            (* and frequency column object-typed, and _tumor_boost over it raises TypeError                           *)
            /\ r.err # ""
            /\ \/ /\ r.op = "hets" /\ r.args.tboost /\ r.sel.called /\ r.sel.nid # "" /\ r.vcf.recs # <<>>
                  /\ \E n \in {r.sel.sid, r.sel.nid} :
                         \A k \in Idx(r.vcf.recs) : r.vcf.recs[k].fdp /\ CallOf(r.vcf, r.vcf.recs[k], n).dp < 0
               \/ /\ (r.op = "boost" \/ (r.op \in {"baf", "mirror"} /\ r.args.tboost)) /\ r.paired /\ r.rows # <<>>
                  /\ ((\A j \in Idx(r.rows) : r.rows[j].dp = 0) \/ (\A j \in Idx(r.rows) : r.rows[j].ndp = 0))
      [] OTHER -> FALSE
=============================================================================
