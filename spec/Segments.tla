--------------------------- MODULE Segments ---------------------------
(* Segmentation orchestration of cnvkit (cnvlib/segmentation/__init__.py: do_segmentation,    *)
(* _do_segmentation, transfer_fields; none.py; haar.py breakpoints -> start/end/size; hmm.py   *)
(* run squashing by arm; skgenome by_arm / iter_slices)  --  property C03:                     *)
(* "Segments tile each chromosome and account for every surviving bin".                        *)
(*                                                                                             *)
(* The numeric segmentation kernels (HaarSeg peak detection, the HMM fit + Viterbi path) are   *)
(* UNINTERPRETED here: the kernel may return any breakpoint set / any state sequence           *)
(* (`kern`, a set of cut positions in the sequence of surviving bins).  What is specified      *)
(* exactly is everything around it: arm split, bin filters, breakpoints -> segments, run       *)
(* squashing, endpoint stretch, per-segment gene / weight / depth aggregation.                 *)
(*                                                                                             *)
(* P-layer = the property as stated (clauses below, each with its sentence).                   *)
(* A-layer = the code, case for case (ByArm, filters, Units, Pieces, StretchEndpoints,         *)
(*           Aggregate).  Verdicts come from the P-layer only; A-layer disagreement is         *)
(*           MODEL-DRIFT.                                                                      *)
(*                                                                                             *)
(* Numbers (DESIGN section 4).  Bin values lie on dyadic grids and enter as scaled integers:   *)
(*   weight = w / WU,  log2 = l / LU,  depth = d / DU.   Sums of products are exact limb        *)
(*   integers (Num.tla).  Observed segment weight / depth / log2 are floats and enter as        *)
(*   fixed point [neg, hi, lo, ok] (|x| * 10^12 = hi * 10^6 + lo; ok = finite and < 2147);      *)
(*   they must agree with the exact rational within 10^-9 * max(1, |expected|) (FxTol9; the     *)
(*   encoding error is 5 * 10^-13, the truncation of the fixed-point quotient 10^-12).          *)
(*                                                                                             *)
(* A bin is a tuple <<c, s, e, g, w, l, d>>: chromosome id (1, 2, ... in order of first         *)
(* appearance in the table = the order pandas groupby(sort=False) and by_arm use), 0-based      *)
(* half-open [s, e), gene name (string), weight / log2 / depth in grid units.                   *)
(* A segment (observed row) is a record [c, s, e, p, pok, g, w, d, l]: chromosome id (0 if not  *)
(* an input chromosome), coordinates, probes (pok = the column held an integer), gene field     *)
(* split at commas ("-" alone = the empty list), and the three observed floats.                 *)
(*                                                                                             *)
(* Record r (one call of the real code):                                                        *)
(*   op      "none" | "haar" | "hmm" | "hmm-tumor" | "hmm-germline"  (do_segmentation)          *)
(*           | "byarm"  (GenomicArray.by_arm(gap, mab) called directly)                         *)
(*   bins, skiplow, skipout, minw (weight units; 0 = "drop zero weight"), procs                 *)
(*   gap, mab   by_arm's min_gap_size / min_arm_bins in effect (100000 / 50 in do_segmentation) *)
(*   surv    which bins reached the segmentation kernel (recorded at the kernel's entry)        *)
(*   sd9     robust autosomal spread the HMM was built with, * 10^9 (0 = none / zero / NaN);    *)
(*           sdseen = the estimate was reached;  cls = class of each chromosome by name         *)
(*   forced, kern   the harness replaced the numeric kernel by one returning the cuts `kern`    *)
(*              (a sequence of cut positions)                                                   *)
(*   out, err   observed segments / exception;   arms (op = "byarm"): observed arms             *)
EXTENDS Naturals, Integers, Sequences, FiniteSets, FiniteSetsExt, SequencesExt, Functions, TLC, Num
Iv == INSTANCE Intervals      \* reused: UniqSeq (distinct in order of first appearance), RoundHalfEven,
                              \*         StrictSortedDisjoint / PositiveW on <<c, s, e, g>> rows

WU == 64          \* weight grid: multiples of 1/64
LU == 1024        \* log2 grid:   multiples of 1/1024
DU == 64          \* depth grid:  multiples of 1/64
WMax == 1024      \* weight <= 16
LMax == 1048576   \* |log2| <= 1024
DMax == 1048576   \* depth <= 16384   (w * d, w * |l| <= 2^30 fit a TLC integer)
LowCut == -15 * LU   \* params.NULL_LOG2_COVERAGE - params.MIN_REF_COVERAGE = -20 - (-5)
Ignored == {"-", ".", "CGH", "Antitarget", "Background"}   \* params.IGNORE_GENE_NAMES + ANTITARGET_ALIASES

PerArm  == {"none", "haar"}                      \* methods run once per chromosome arm (cbs needs R: not run)
HMM     == {"hmm", "hmm-tumor", "hmm-germline"}  \* methods run once on the whole table
Methods == PerArm \cup HMM

BC(b) == b[1]
BS(b) == b[2]
BE(b) == b[3]
BG(b) == b[4]
BW(b) == b[5]
BL(b) == b[6]
BD(b) == b[7]
Idx(t) == 1..Len(t)
IntSeq(a, b) == [i \in 1..(b - a + 1) |-> a + i - 1]     \* the sequence a, a+1, ..., b (empty if b < a)

(* ================================================================= table structure ======= *)
NChrom(bins) == IF bins = <<>> THEN 0 ELSE BC(bins[Len(bins)])
(* chromosome ids 1..NC, each one contiguous block (as tabio.read / a .cnr file delivers them) *)
Contiguous(bins) == /\ bins # <<>> /\ BC(bins[1]) = 1
                    /\ \A n \in 1..Len(bins)-1 : BC(bins[n+1]) \in {BC(bins[n]), BC(bins[n]) + 1}
Block(bins, c) == LET ix == {n \in Idx(bins) : BC(bins[n]) = c} IN <<Min(ix), Max(ix)>>
Blocks(bins) == [c \in 1..NChrom(bins) |-> Block(bins, c)]
(* within a chromosome: positive width, sorted, not overlapping *)
BinsSorted(bins) == /\ \A n \in Idx(bins) : 0 <= BS(bins[n]) /\ BS(bins[n]) < BE(bins[n])
                    /\ \A n \in 1..Len(bins)-1 : BC(bins[n]) = BC(bins[n+1]) => BE(bins[n]) <= BS(bins[n+1])
OnGrid(bins) == \A n \in Idx(bins) : /\ 0 <= BW(bins[n]) /\ BW(bins[n]) <= WMax
                                     /\ -LMax <= BL(bins[n]) /\ BL(bins[n]) <= LMax
                                     /\ 0 <= BD(bins[n]) /\ BD(bins[n]) <= DMax

(* ================================================================= chromosome arms ======= *)
(* skgenome/gary.py::by_arm on one chromosome's rows cb:                                       *)
(*   margin = max(min_arm_bins, int(round(0.1 * n)))     (round half to even; only n > 500 can  *)
(*            exceed the default 50, and 0.1 * n is a float tie only for n = 5, 15, ...)         *)
(*   if n > 2 * margin + 1: gaps = start[margin+1 : -margin] - end[margin : -margin-1];          *)
(*        cmere_idx = argmax(gaps) + margin + 1 (the FIRST largest gap), cmere_size = its size   *)
(*   split there iff cmere_size >= min_gap_size.                                                 *)
(* 1-based: the q arm may begin at k in margin+2 .. n-margin; gap before k = s[k] - e[k-1].      *)
Margin(n, mab) == LET t == Iv!RoundHalfEven(n, 10) IN IF mab > t THEN mab ELSE t
GapBefore(cb, k) == BS(cb[k]) - BE(cb[k-1])
CmereIdx(cb, mab) ==
    LET n == Len(cb)
        m == Margin(n, mab)
    IN IF n > 2 * m + 1
       THEN LET cand == (m + 2)..(n - m)
                best == Max({GapBefore(cb, k) : k \in cand})
            IN Min({k \in cand : GapBefore(cb, k) = best})
       ELSE 0
(* arms of one chromosome as index ranges <<lo, hi>> into cb *)
ArmRanges(cb, gap, mab) ==
    LET k == CmereIdx(cb, mab) IN
    IF k > 0 /\ GapBefore(cb, k) >= gap THEN << <<1, k - 1>>, <<k, Len(cb)>> >> ELSE << <<1, Len(cb)>> >>
(* arms of a whole table (chromosome blocks in table order), as <<lo, hi, c>> with global indices *)
TableArms(bins, gap, mab) ==
    LET bl == Blocks(bins) IN
    FlattenSeq([c \in 1..NChrom(bins) |->
        LET ar == ArmRanges(SubSeq(bins, bl[c][1], bl[c][2]), gap, mab)
        IN [j \in Idx(ar) |-> <<bl[c][1] - 1 + ar[j][1], bl[c][1] - 1 + ar[j][2], c>>]])

(* ================================================================= exact arithmetic ====== *)
ZSumOver(ix, F(_)) == ZSum([i \in Idx(ix) |-> ZFromInt(F(ix[i]))])     \* ix: a sequence of bin indices
ObsOk(o) == o.ok
(* observed float o agrees with the exact rational num / den  (num, den limb integers, den > 0) *)
ObsIs(o, num, den) == ObsOk(o) /\ FxClose(FxObs(o), ZDivT(FxFromZ(num), den), FxTol9)
(* fixed point -> observed form (truncating), for the A-layer's concrete rows *)
FxToObs(z) ==
    LET m == z.m
        L(i) == IF i <= Len(m) THEN m[i] ELSE 0
    IN [neg |-> z.n, ok |-> (Len(m) <= 4 /\ L(4) <= 2146),
        lo |-> L(1) + (L(2) % 100) * 10000,
        hi |-> IF Len(m) <= 4 /\ L(4) <= 2146 THEN L(2) \div 100 + L(3) * 100 + L(4) * 1000000 ELSE 0]
ObsNear(o, e) == ObsOk(o) /\ ObsOk(e) /\ FxClose(FxObs(o), FxObs(e), FxTol9)

(* ================================================================= P-layer =============== *)
(* input bins a segment spans: those of its chromosome that overlap [s, e) *)
BlockOf(r, o) == IF o.c \in 1..NChrom(r.bins) THEN Block(r.bins, o.c) ELSE <<1, 0>>
SpanSet(r, o) == LET b == BlockOf(r, o) IN
                 {n \in b[1]..b[2] : BE(r.bins[n]) > o.s /\ BS(r.bins[n]) < o.e}
(* surviving bins that lie in the segment *)
InSeg(r, n, o) == o.c = BC(r.bins[n]) /\ o.s <= BS(r.bins[n]) /\ BE(r.bins[n]) <= o.e
SurvIn(r, o) == LET b == BlockOf(r, o) IN {n \in b[1]..b[2] : r.surv[n] /\ InSeg(r, n, o)}
SurvSet(r) == {n \in Idx(r.bins) : r.surv[n]}
SegsOn(r, c) == SelectSeq(r.out, LAMBDA o : o.c = c)
AsRows(t) == [k \in Idx(t) |-> <<t[k].c, t[k].s, t[k].e, "">>]
AscSeq(S) == SetToSortSeq(S, <)
Meaningful(names) == SelectSeq(names, LAMBDA g : g \notin Ignored)

WSum(r, ix)  == ZSumOver(ix, LAMBDA n : BW(r.bins[n]))
WDSum(r, ix) == ZSumOver(ix, LAMBDA n : BW(r.bins[n]) * BD(r.bins[n]))
WLSum(r, ix) == ZSumOver(ix, LAMBDA n : BW(r.bins[n]) * BL(r.bins[n]))

SegClauses == {"noerr", "sorted_disjoint", "positive_length", "inside_span", "survivor_in_exactly_one",
               "probes_count", "probes_total", "chrom_with_survivor_has_segment",
               "weight_sum", "depth_wavg", "gene_list"}
Clauses(op) ==
    CASE op = "none"  -> SegClauses \cup {"arm_endpoints", "log2_wavg"}
      [] op = "haar"  -> SegClauses \cup {"arm_endpoints"}          \* haar's log2 is the kernel's own mean: not claimed
      [] op \in HMM   -> SegClauses \cup {"log2_wavg"}              \* run on the whole table: no arm clause
      [] op = "byarm" -> {"byarm_noerr", "byarm_partition", "byarm_rule"}
      [] OTHER        -> {}

NoErr(r) == r.err = ""

Holds(c, r) ==
    CASE c \in {"noerr", "byarm_noerr"} ->
           (* "For every segmentation method and every combination of bin filters, the segments reported ..." *)
           NoErr(r)
      [] c = "sorted_disjoint" ->
           (* "the segments reported on a chromosome are sorted ... do not overlap" *)
           NoErr(r) => \A ch \in {r.out[k].c : k \in Idx(r.out)} : Iv!StrictSortedDisjoint(AsRows(SegsOn(r, ch)), 0)
      [] c = "positive_length" ->
           (* "have positive length" *)
           NoErr(r) => Iv!PositiveW(AsRows(r.out))
      [] c = "inside_span" ->
           (* "stay within the span of that chromosome's input bins" *)
           NoErr(r) => \A k \in Idx(r.out) :
               LET o == r.out[k] IN
               /\ o.c \in 1..NChrom(r.bins)
               /\ LET b == Block(r.bins, o.c) IN BS(r.bins[b[1]]) <= o.s /\ o.e <= BE(r.bins[b[2]])
      [] c = "survivor_in_exactly_one" ->
           (* "every bin that survived filtering lies in exactly one segment" *)
           NoErr(r) => \A ch \in 1..NChrom(r.bins) :
               LET sg == SegsOn(r, ch)
                   b == Block(r.bins, ch)
               IN \A n \in b[1]..b[2] : r.surv[n] => Cardinality({k \in Idx(sg) : InSeg(r, n, sg[k])}) = 1
      [] c = "probes_count" ->
           (* "... whose `probes` equals the number of surviving bins it contains" *)
           NoErr(r) => \A k \in Idx(r.out) : r.out[k].pok /\ r.out[k].p = Cardinality(SurvIn(r, r.out[k]))
      [] c = "probes_total" ->
           (* "(so probes sum to the number of surviving bins ..." *)
           NoErr(r) => /\ \A k \in Idx(r.out) : r.out[k].pok
                       /\ ISum([k \in Idx(r.out) |-> r.out[k].p]) = Cardinality(SurvSet(r))
      [] c = "chrom_with_survivor_has_segment" ->
           (* "... and every chromosome with a surviving bin has a segment)" *)
           NoErr(r) => \A n \in SurvSet(r) : \E k \in Idx(r.out) : r.out[k].c = BC(r.bins[n])
      [] c = "arm_endpoints" ->
           (* "For the methods run per chromosome arm (none, haar, cbs) the first segment of each arm starts *)
           (*  at the arm's first input bin and the last ends at its last input bin even when edge bins      *)
           (*  were filtered out."  An arm none of whose bins survived has no segment to speak of.           *)
           NoErr(r) => LET arms == TableArms(r.bins, r.gap, r.mab) IN
               \A j \in Idx(arms) :
                   LET lo == arms[j][1]
                       hi == arms[j][2]
                       ks == {k \in Idx(r.out) : /\ r.out[k].c = arms[j][3]
                                                 /\ r.out[k].e > BS(r.bins[lo]) /\ r.out[k].s < BE(r.bins[hi])}
                   IN (\E n \in lo..hi : r.surv[n]) =>
                        /\ ks # {}
                        /\ Min({r.out[k].s : k \in ks}) = BS(r.bins[lo])
                        /\ Max({r.out[k].e : k \in ks}) = BE(r.bins[hi])
      [] c = "weight_sum" ->
           (* "Each segment's weight is the sum ... of all input bins it spans" *)
           NoErr(r) => \A k \in Idx(r.out) :
               ObsIs(r.out[k].w, WSum(r, AscSeq(SpanSet(r, r.out[k]))), ZFromInt(WU))
      [] c = "depth_wavg" ->
           (* "... and its depth the weight-averaged depth, of all input bins it spans"; with total weight 0 *)
           (* the weighted average is undefined and nothing is demanded                                    *)
           NoErr(r) => \A k \in Idx(r.out) :
               LET ix == AscSeq(SpanSet(r, r.out[k]))
                   ws == WSum(r, ix)
               IN ~ZIsZero(ws) => ObsIs(r.out[k].d, WDSum(r, ix), ZMulInt(ws, DU))
      [] c = "gene_list" ->
           (* "its gene field lists their distinct meaningful names in order" *)
           NoErr(r) => \A k \in Idx(r.out) :
               LET ix == AscSeq(SpanSet(r, r.out[k]))
               IN r.out[k].g = Iv!UniqSeq(Meaningful([i \in Idx(ix) |-> BG(r.bins[ix[i]])]), <<>>)
      [] c = "log2_wavg" ->
           (* "for `none` and the HMM methods its log2 is the weight-averaged log2 of its surviving bins" *)
           NoErr(r) => \A k \in Idx(r.out) :
               LET ix == AscSeq(SurvIn(r, r.out[k]))
                   ws == WSum(r, ix)
               IN ~ZIsZero(ws) => ObsIs(r.out[k].l, WLSum(r, ix), ZMulInt(ws, LU))
      [] c = "byarm_partition" ->
           (* the arms are consecutive non-empty single-chromosome pieces of the table, at most two per chromosome *)
           NoErr(r) => /\ FlattenSeq(r.arms) = IntSeq(1, Len(r.bins))
                       /\ \A j \in Idx(r.arms) : /\ r.arms[j] # <<>>
                                                 /\ \A i \in Idx(r.arms[j]) : BC(r.bins[r.arms[j][i]]) = BC(r.bins[r.arms[j][1]])
                       /\ \A ch \in 1..NChrom(r.bins) :
                              Cardinality({j \in Idx(r.arms) : BC(r.bins[r.arms[j][1]]) = ch}) \in {1, 2}
      [] c = "byarm_rule" ->
           (* what "arm" means above: split at the first largest gap between bins margin+1 .. n-margin, if >= min gap *)
           NoErr(r) => LET arms == TableArms(r.bins, r.gap, r.mab) IN
                       r.arms = [j \in Idx(arms) |-> IntSeq(arms[j][1], arms[j][2])]

(* ----------------------------------------------------------------- premise --------------- *)
(* bin tables as a .cnr file holds them: chromosomes in blocks, bins sorted and disjoint, values on the   *)
(* grids; by_arm needs min_arm_bins >= 1; the HMM methods need a non-degenerate robust autosomal spread  *)
(* (pomegranate raises ZeroDivisionError for sigma = 0; no autosomal bin at all gives no model either).  *)
(* r.cls[c] = "auto" | "x" | "y": the class of chromosome c by its name; r.sdseen = the spread estimate was reached *)
HmmFeasible(r) ==
    \/ SurvSet(r) = {}                                             \* nothing to segment: no model is built
    \/ /\ \E n \in SurvSet(r) : r.cls[BC(r.bins[n])] = "auto"      \* the model is built from the autosomal bins
       /\ r.sdseen => r.sd9 >= 1000                                \* ... and needs a spread that is not (numerically) zero:
                                                                   \* >= 10^-6; grid values 1/1024 apart give 0 or far more
Premise(r) ==
    /\ Contiguous(r.bins) /\ BinsSorted(r.bins) /\ OnGrid(r.bins)
    /\ r.mab >= 1 /\ r.gap >= 0
    /\ r.op \in Methods => /\ Len(r.surv) = Len(r.bins) /\ r.minw >= 0 /\ r.procs >= 1
                           /\ (r.op \in HMM /\ ~r.forced) => HmmFeasible(r)

(* ================================================================= A-layer =============== *)
(* ---- bin filters of _do_segmentation, in the code's order ---- *)
LowCov(b) == BL(b) < LowCut \/ BD(b) = 0                         \* cnary.drop_low_coverage
WeightLow(b, minw) == IF minw > 0 THEN BW(b) < minw ELSE BW(b) = 0   \* weight < min_weight / weight == 0
KeepLow(r, n) == ~(r.skiplow /\ LowCov(r.bins[n]))
Keep0(r) == {n \in Idx(r.bins) : KeepLow(r, n) /\ ~WeightLow(r.bins[n], r.minw)}
(* drop_outliers(filtered, 50, factor) is numeric (Savitzky-Golay trend + rolling quantile): uninterpreted, *)
(* except that rolling_outlier_quantile returns "no outliers" for a chromosome of <= 50 (width) rows.       *)
(* The array it sees is one arm (per-arm methods) or the whole table (HMM), after the low-coverage filter,  *)
(* taken by chromosome.                                                                                     *)
OutlierUnits(r) == IF r.op \in PerArm THEN TableArms(r.bins, r.gap, r.mab)
                   ELSE [c \in 1..NChrom(r.bins) |-> <<Block(r.bins, c)[1], Block(r.bins, c)[2], c>>]
MayBeOutlier(r, n) ==
    /\ r.skipout > 0
    /\ \E j \in Idx(OutlierUnits(r)) :
          LET u == OutlierUnits(r)[j] IN
          /\ u[1] <= n /\ n <= u[2]
          /\ Cardinality({m \in u[1]..u[2] : KeepLow(r, m)}) > 50
FilterConsistent(r) == /\ SurvSet(r) \subseteq Keep0(r)
                       /\ \A n \in Keep0(r) \ SurvSet(r) : MayBeOutlier(r, n)

(* ---- units: the stretches of surviving bins handed to one kernel run ---- *)
(* F = global indices of the survivors, ascending; a unit is [a, b, arm]: survivor ranks a..b, and the     *)
(* index (into TableArms) of the input arm whose endpoints transfer_fields will stretch to (0: none).      *)
SurvSeq(r) == SelectSeq(IntSeq(1, Len(r.bins)), LAMBDA n : r.surv[n])
RanksIn(F, lo, hi) == {i \in Idx(F) : lo <= F[i] /\ F[i] <= hi}
(* by_arm applied to the survivors with ranks a0..b0 (one chromosome): sub-ranges of ranks *)
SubUnits(r, F, a0, b0, arm) ==
    LET ar == ArmRanges([i \in 1..(b0 - a0 + 1) |-> r.bins[F[a0 + i - 1]]], r.gap, r.mab)
    IN [j \in Idx(ar) |-> [a |-> a0 - 1 + ar[j][1], b |-> a0 - 1 + ar[j][2], arm |-> arm]]
Units(r) ==
    LET F == SurvSeq(r) IN
    IF r.op \in PerArm
    THEN (* do_segmentation: one _do_segmentation call per arm of the INPUT table *)
         LET arms == TableArms(r.bins, r.gap, r.mab) IN
         FlattenSeq([j \in Idx(arms) |->
            LET rk == RanksIn(F, arms[j][1], arms[j][2]) IN
            IF rk = {} THEN <<>>                                        \* "if not len(filtered_cn): return"
            ELSE IF r.op = "none" THEN << [a |-> Min(rk), b |-> Max(rk), arm |-> j] >>   \* segment_none: one row
            ELSE SubUnits(r, F, Min(rk), Max(rk), j)])                  \* segment_haar: by_arm() of the filtered arm
    ELSE (* one call on the whole table; segment_hmm: observations and squash_by_groups by_arm() of the filtered table *)
         FlattenSeq([c \in 1..NChrom(r.bins) |->
            LET b == Block(r.bins, c)
                rk == RanksIn(F, b[1], b[2])
            IN IF rk = {} THEN <<>> ELSE SubUnits(r, F, Min(rk), Max(rk), 0)])

(* ---- pieces: a unit cut at the kernel's breakpoints ---- *)
(* cut p (1 <= p < number of survivors) = "a new segment begins at survivor p + 1".                         *)
(* haar: breakpoints -> segSt = [0] + bp, segEd = bp + [n]; start = start.take(segSt), end = end.take(segEd - 1), *)
(*       size = segEd - segSt.   hmm: maximal runs of equal state within an arm (squash_by_groups).             *)
PiecesOf(u, kern) ==
    LET cuts == AscSeq({p \in kern : u.a <= p /\ p < u.b})
    IN [m \in 1..(Len(cuts) + 1) |->
          [a |-> IF m = 1 THEN u.a ELSE cuts[m - 1] + 1,
           b |-> IF m > Len(cuts) THEN u.b ELSE cuts[m],
           arm |-> u.arm]]
Pieces(r, kern) == LET us == Units(r) IN FlattenSeq([j \in Idx(us) |-> PiecesOf(us[j], IF r.op = "none" THEN {} ELSE kern)])

(* the kernel's rows before transfer_fields: first survivor's start, last survivor's end, number of survivors *)
RawRows(r, kern) ==
    LET F == SurvSeq(r)
        ps == Pieces(r, kern)
    IN [k \in Idx(ps) |-> [c |-> BC(r.bins[F[ps[k].a]]), s |-> BS(r.bins[F[ps[k].a]]), e |-> BE(r.bins[F[ps[k].b]]),
                           p |-> ps[k].b - ps[k].a + 1, a |-> ps[k].a, b |-> ps[k].b, arm |-> ps[k].arm]]

(* ---- transfer_fields, step 1: "Stretch first and last segment endpoints to match first/last bins" ---- *)
(* Each transfer_fields call sees the rows of one arm (per-arm methods) or all rows (HMM).  As repaired:     *)
(* the first row's start := first bin's start, the last row's end := last bin's end, each only if on the     *)
(* same chromosome (whole-table call with a chromosome none of whose bins survived).                         *)
StretchEndpoints(r, rows) ==
    IF r.op \in PerArm
    THEN LET arms == TableArms(r.bins, r.gap, r.mab) IN
         [k \in Idx(rows) |->
            LET j == rows[k].arm
                first == k = 1 \/ rows[k - 1].arm # j
                last == k = Len(rows) \/ rows[k + 1].arm # j
            IN [rows[k] EXCEPT !.s = IF first THEN BS(r.bins[arms[j][1]]) ELSE @,
                               !.e = IF last THEN BE(r.bins[arms[j][2]]) ELSE @]]
    ELSE [k \in Idx(rows) |->
            [rows[k] EXCEPT !.s = IF k = 1 /\ rows[k].c = BC(r.bins[1]) THEN BS(r.bins[1]) ELSE @,
                            !.e = IF k = Len(rows) /\ rows[k].c = BC(r.bins[Len(r.bins)]) THEN BE(r.bins[Len(r.bins)]) ELSE @]]
(* THE DEFECT (DESIGN section 10, candidate 8): `segments.start.iat[0] = bins_start; segments.end.iat[-1] =   *)
(* bins_end` assigns into a temporary Series under pandas >= 3 copy-on-write, so the step changed nothing.    *)
(* Kept as a named operator; MC_Segments.DesignNoStretch shows that with it "arm_endpoints" fails.            *)
StretchEndpointsCoW(r, rows) == rows

(* ---- transfer_fields, step 2: gene / weight / depth over iter_slices(bins, segments, "outer") ---- *)
(* _irange_simple on the chromosome's bins: from the first bin whose end > segment start                     *)
(* (end.searchsorted(start, "right")) up to the last bin whose start < segment end (start.searchsorted(end)) *)
SliceOf(r, row) ==
    LET b == Block(r.bins, row.c)
        i0 == b[1] + Cardinality({n \in b[1]..b[2] : BE(r.bins[n]) <= row.s})
        i1 == b[1] + Cardinality({n \in b[1]..b[2] : BS(r.bins[n]) < row.e}) - 1
    IN IntSeq(i0, i1)
Aggregate(r, row) ==
    LET F == SurvSeq(r)
        ix == SliceOf(r, row)
        ws == WSum(r, ix)
        sv == [i \in 1..(row.b - row.a + 1) |-> F[row.a + i - 1]]
        wv == WSum(r, sv)
    IN [c |-> row.c, s |-> row.s, e |-> row.e, p |-> row.p, pok |-> TRUE,
        (* subgenes = [g for g in pd.unique(bin_genes[idx]) if g not in ignore]; "-" if none *)
        g |-> Meaningful(Iv!UniqSeq([i \in Idx(ix) |-> BG(r.bins[ix[i]])], <<>>)),
        (* seg_wt = bin_weights[idx].sum() *)
        w |-> FxToObs(ZDivT(FxFromZ(ws), ZFromInt(WU))),
        (* np.average(depths, weights) if seg_wt > 0 else 0.0 *)
        d |-> IF ZIsZero(ws) THEN FxToObs(ZZero) ELSE FxToObs(ZDivT(FxFromZ(WDSum(r, ix)), ZMulInt(ws, DU))),
        (* none: segment_mean; hmm: squash_region -- np.average(log2, weights) if the weights are not all 0,  *)
        (* else the plain mean.  haar: the kernel's own mean (uninterpreted; this value is a placeholder)      *)
        l |-> IF ZIsZero(wv) THEN FxToObs(ZDivT(FxFromZ(ZSumOver(sv, LAMBDA n : BL(r.bins[n]))), ZFromInt(LU * Len(sv))))
              ELSE FxToObs(ZDivT(FxFromZ(WLSum(r, sv)), ZMulInt(wv, LU)))]

TransferFields(r, rows) == LET st == StretchEndpoints(r, rows) IN [k \in Idx(st) |-> Aggregate(r, st[k])]
TransferFieldsCoW(r, rows) == LET st == StretchEndpointsCoW(r, rows) IN [k \in Idx(st) |-> Aggregate(r, st[k])]
ALayer(r, kern) == TransferFields(r, RawRows(r, kern))
ALayerCoW(r, kern) == TransferFieldsCoW(r, RawRows(r, kern))

(* ---- the kernel's choice, read back from an observed output: cumulative probes ---- *)
RECURSIVE CumCuts(_, _, _)
CumCuts(out, k, acc) == IF k >= Len(out) THEN {} ELSE {acc + out[k].p} \cup CumCuts(out, k + 1, acc + out[k].p)
KernUsed(r) == IF r.forced THEN ToSet(r.kern) ELSE CumCuts(r.out, 1, 0)     \* r.kern: a sequence in traces

RowMatches(r, o, x) ==
    /\ o.c = x.c /\ o.s = x.s /\ o.e = x.e /\ o.pok /\ o.p = x.p /\ o.g = x.g
    /\ ObsNear(o.w, x.w) /\ ObsNear(o.d, x.d)
    /\ r.op # "haar" => ObsNear(o.l, x.l)
Drift(r) ==
    /\ NoErr(r)
    /\ IF r.op = "byarm" THEN FALSE       \* by_arm's rule is a clause
       ELSE \/ ~FilterConsistent(r)
            \/ LET x == ALayer(r, KernUsed(r)) IN
               \/ Len(x) # Len(r.out)
               \/ \E k \in Idx(x) : ~RowMatches(r, r.out[k], x[k])

(* ================================================================= known findings ======== *)
(* EdgeBinFiltered: a per-arm method, and some arm with a surviving bin has its first or last input bin     *)
(*   filtered out (the endpoint stretch that should cover it is a no-op under pandas copy-on-write).        *)
(* HmmFirstChromEmpty: an HMM method, and no bin of the table's first chromosome survived while some other  *)
(*   bin did (transfer_fields asserts that the first segment is on the first bin's chromosome).             *)
KnownTriggers == {"EdgeBinFiltered", "HmmFirstChromEmpty"}
TriggerHolds(t, r) ==
    CASE t = "EdgeBinFiltered" ->
           /\ r.op \in PerArm /\ Contiguous(r.bins)
           /\ LET arms == TableArms(r.bins, r.gap, r.mab) IN
              \E j \in Idx(arms) : /\ \E n \in arms[j][1]..arms[j][2] : r.surv[n]
                                   /\ (~r.surv[arms[j][1]] \/ ~r.surv[arms[j][2]])
      [] t = "HmmFirstChromEmpty" ->
           /\ r.op \in HMM /\ Contiguous(r.bins)
           /\ SurvSet(r) # {}
           /\ \A n \in SurvSet(r) : BC(r.bins[n]) # 1
      [] OTHER -> FALSE
=============================================================================
