--------------------------- MODULE Theta ---------------------------
(* X03 (extension, part 2) -- interchange with THetA2 and Picard, and the `metrics` table:                           *)
(*   cnvlib/export.py     export_theta, ref_means_nbins, theta_read_counts, export_theta_snps                       *)
(*   cnvlib/importers.py  parse_theta_results, do_import_theta, do_import_picard, unpipe_name                       *)
(*   cnvlib/metrics.py    do_metrics, zip_repeater, ests_of_scale                                                   *)
(*                                                                                                                  *)
(* There is no listed property.  P-layer = only what the package documents (docstrings, doc/importexport.rst,        *)
(* doc/heterogeneity.rst, doc/reports.rst, CLI help, error messages); each clause quotes its source.  A-layer = the  *)
(* code case for case.  Verdicts come from the P-layer only; A-layer disagreement is MODEL-DRIFT.                    *)
(*                                                                                                                  *)
(* Numbers (DESIGN section 4): a segment's log2 is log2(qn/qd) -- the specification works with the exact ratio       *)
(* q = qn/qd = 2^log2; bin log2 values are integers in units 1/LU (dyadic grid, exact as floats); weights are        *)
(* integers in units 1/WU; read counts are compared as exact rationals over limb integers (Num.tla); observed        *)
(* floats are [nan|none, neg, hi, lo] (Num.FxObs).  A chromosome is <<pfx, base>>, its name pfx \o base.             *)
(* Tokens of written text are <<text, kind, m, e>> as in Exports.tla (kind "i": integer literal of value m).         *)
(*                                                                                                                  *)
(* Records:                                                                                                         *)
(*  "export_theta"  [segs: <<<<pfx, base, s, e, qn, qd, probes, wn>>>>, has_probes, has_weight, WU, has_normal,      *)
(*                   normal: <<<<pfx, base, s, e, lg>>>>, LU, cols (header tokens' text), out: rows of 6 tokens       *)
(*                   (the table as _cmd_export_theta writes it: to_csv(sep = TAB, index = False)), err]               *)
(*  "theta_snps"    [rows: <<<<pfx, base, pos, reflen, altlen, d, a, nd, na>>>> (-1 = missing value), has_n,          *)
(*                   out: <<tumor table, normal table>>, each <<<<pfx, base, pos, ref_allele, mut_allele>>>>, err]    *)
(*  "import_theta"  [segs: <<<<pfx, base, s, e>>>>, ploidy, C: one sequence per interval of the results file, each    *)
(*                   with one entry per subclone (-1 = "X"), nll, mu: <<normal, tumour...>> (units 1/1000),           *)
(*                   p: per interval (-1 = "X", units 1/1000), parsed: what parse_theta_results returned,             *)
(*                   out: per subclone <<<<pfx, base, s, e, cn, pow>>>> with pow = 2^log2 observed,                   *)
(*                   exp: <<<<start, end>>>> of the rows export_theta writes for these very segments (round trip), err] *)
(*  "unpipe"        [parts (the name split on "|"), out, err]                                                         *)
(*  "import_picard" [rows: <<<<pfx, base, start1, end, parts, gc, dn, rn>>>> (coverages in units 1/CU, gc 1/100),     *)
(*                   CU, too_many, warned, out: <<<<pfx, base, s, e, gene, gc, depth, ratio, isnull, pow>>>>, err]    *)
(*  "metrics"       [LU, samples: <<[bins: <<<<c, s, e, lg, dz>>>>, fname, sid]>>, nsegsets,                          *)
(*                   segsets: <<<<<<c, s, e, lg>>>>>>, skip_low, has_depth,                                           *)
(*                   out: <<[sample, nseg (-1 = "-"), stdev, mad, iqr, bivar]>>, err]                                 *)
EXTENDS Stats, FiniteSetsExt
Ab == INSTANCE Autobin          \* rounding helpers (round-half-even of a limb rational, near-tie candidates)

NoErr(r) == r.err = ""
ZI(k) == ZFromInt(k)
Ten6 == ZI(1000000)
Ten12 == Z(FALSE, <<0, 0, 0, 1>>)
SeqToSet(s) == {s[k] : k \in 1..Len(s)}
ObsV(o) == FxObs(o)

(* ================================================================= chromosomes ============ *)
(* GenomicArray.autosomes: "Select chromosomes w/ integer names, ignoring any 'chr' prefixes" (regex (chr)?\d+$)     *)
DigitNames == {ToString(k) : k \in 0..99}
IsAuto(pfx, base) == pfx \in {"chr", ""} /\ base \in DigitNames
IsXY(pfx, base) == pfx \in {"chr", ""} /\ base \in {"X", "Y"}
ChromOf(x) == <<x[1], x[2]>>
(* as coded: when no row has an integer name the table is returned whole *)
AutosomesCoded(rows) == IF \E k \in 1..Len(rows) : IsAuto(rows[k][1], rows[k][2])
                        THEN SelectSeq(rows, LAMBDA x : IsAuto(x[1], x[2])) ELSE rows
FirstAppearance(rows) ==
    FoldLeft(LAMBDA acc, x : IF \E i \in 1..Len(acc) : acc[i] = x THEN acc ELSE Append(acc, x), <<>>,
             [k \in 1..Len(rows) |-> ChromOf(rows[k])])
IndexIn(s, x) == CHOOSE i \in 1..Len(s) : s[i] = x

(* ================================================================= export_theta ============ *)
TokIsInt(t) == t[2] = "i"
TokVal(t) == t[3]
SegS(x) == x[3]
SegE(x) == x[4]
EtKept(r) == AutosomesCoded(r.segs)
EtNormal(r) == AutosomesCoded(r.normal)
EtHasAuto(r) == \E k \in 1..Len(r.segs) : IsAuto(r.segs[k][1], r.segs[k][2])
(* normal bins "within each segment": by_ranges, i.e. the bins overlapping the segment on its chromosome *)
EtBinsIn(r, x) == SelectSeq(EtNormal(r), LAMBDA b : ChromOf(b) = ChromOf(x) /\ b[4] > SegS(x) /\ b[3] < SegE(x))
(* the docstring table of ref_means_nbins ("Code paths") and doc/importexport.rst ("If neither file is given, the    *)
(* THetA2 normal read counts will be calculated from the segment weight values in the given .cns file, or the number *)
(* of probes if the "weight" column is missing, or as a last resort, the segment sizes if the "probes" column is also *)
(* missing").  modern weights: "Segment weights are already multiplied by probe counts" -- some weight > 1.          *)
EtModernWeights(r) == r.has_weight /\ \E k \in 1..Len(EtKept(r)) : EtKept(r)[k][8] > r.WU
EtMode(r) == IF r.has_normal THEN (IF r.has_probes THEN "probes" ELSE "bincount")
             ELSE IF EtModernWeights(r) THEN "weight"
             ELSE IF r.has_probes THEN (IF r.has_weight THEN "probes_x_weight" ELSE "probes")
             ELSE (IF r.has_weight THEN "size_x_weight" ELSE "size")
EtExactScale(r) == EtMode(r) \in {"probes", "bincount"}          \* nbins is a count: scale fixed by the documented defaults
(* nbins of row k as a rational <<N, D>> (limb integers), as coded *)
EtNbins(r, k) ==
    LET ks == EtKept(r)
        n == Len(ks)
        x == ks[k]
        sumw == ZSum([j \in 1..n |-> ZI(ks[j][8])])
        maxw == Max({ks[j][8] : j \in 1..n})
        sumsz == ZSum([j \in 1..n |-> ZI(SegE(ks[j]) - SegS(ks[j]))])
        mode == EtMode(r)
    IN CASE mode = "probes" -> <<ZI(x[7]), ZOne>>
         [] mode = "bincount" -> <<ZI(Len(EtBinsIn(r, x))), ZOne>>
            (* nbins = weight; nbins /= nbins.max() / nbins.mean() *)
         [] mode = "weight" -> <<ZMul(ZI(x[8]), sumw), ZMul(ZI(n * maxw), ZI(r.WU))>>
            (* probes * weight / weight.mean() *)
         [] mode = "probes_x_weight" -> <<ZMulInt(ZMul(ZI(x[7]), ZI(x[8])), n), sumw>>
            (* sizes / sizes.mean() [* weight / weight.mean()] *)
         [] mode = "size" -> <<ZMulInt(ZI(SegE(x) - SegS(x)), n), sumsz>>
         [] mode = "size_x_weight" -> <<ZMulInt(ZMulInt(ZMul(ZI(SegE(x) - SegS(x)), ZI(x[8])), n), n), ZMul(sumsz, sumw)>>
(* theta_read_counts docstring: "read_count = bin_width * read_depth / read_length", "read_depth = read_depth_ratio   *)
(* * avg_depth", defaults avg_depth = 500, avg_bin_width = 200, read_len = 100:  count = nbins * 1000 * 2^log2        *)
EtTumorExact(r, k) == LET nb == EtNbins(r, k)  x == EtKept(r)[k] IN
                      <<ZMul(ZMulInt(nb[1], 1000), ZI(x[5])), ZMul(nb[2], ZI(x[6]))>>
(* reference level of a segment: "take the mean of the bin values within each segment"; 0 without a normal.          *)
(* <<sum of lg, count>>; the mean log2 is sum / (count * LU)                                                         *)
EtRefSum(r, x) == LET bs == EtBinsIn(r, x) IN <<ISum([j \in 1..Len(bs) |-> bs[j][5]]), Len(bs)>>
FloorDiv(a, b) == IF a >= 0 THEN a \div b ELSE 0 - ((0 - a + b - 1) \div b)         \* b > 0
CeilDivS(a, b) == 0 - FloorDiv(0 - a, b)
Pow2Rat(k) == IF k >= 0 THEN <<ZI(2 ^ k), ZOne>> ELSE <<ZOne, ZI(2 ^ (0 - k))>>     \* |k| <= 30
(* bracket of 2^(mean log2) between the neighbouring integer exponents; exact when they coincide *)
EtRefBracket(r, x) ==
    LET sm == EtRefSum(r, x) IN
    IF ~r.has_normal THEN [empty |-> FALSE, lo |-> Pow2Rat(0), hi |-> Pow2Rat(0)]
    ELSE IF sm[2] = 0 THEN [empty |-> TRUE, lo |-> Pow2Rat(0), hi |-> Pow2Rat(0)]
    ELSE [empty |-> FALSE, lo |-> Pow2Rat(FloorDiv(sm[1], sm[2] * r.LU)), hi |-> Pow2Rat(CeilDivS(sm[1], sm[2] * r.LU))]
EtNormalExact(r, k, p2) == LET nb == EtNbins(r, k) IN <<ZMul(ZMulInt(nb[1], 1000), p2[1]), ZMul(nb[2], p2[2])>>
(* an integer count within 1 of the rational c = <<N, D>> (the direction of rounding is not documented) *)
Within1(cnt, c) == ZLt(ZAbs(ZSub(ZMul(ZI(cnt), c[2]), c[1])), c[2])
AtLeastM1(cnt, c) == ZLt(ZSub(c[1], c[2]), ZMul(ZI(cnt), c[2]))          \* cnt > c - 1
AtMostP1(cnt, c) == ZLt(ZMul(ZI(cnt), c[2]), ZAdd(c[1], c[2]))           \* cnt < c + 1
(* proportionality of integer counts to positive rationals y (scale left open): c_a = k y_a + e_a, |e| < 1 for one   *)
(* common k implies |c_a y_b - c_b y_a| < y_a + y_b for every pair                                                   *)
Proportional(cs, ys) == \A a, b \in 1..Len(cs) :
    LET l == ZSub(ZMul(ZMul(ZI(cs[a]), ys[b][1]), ys[a][2]), ZMul(ZMul(ZI(cs[b]), ys[a][1]), ys[b][2]))
        rr == ZAdd(ZMul(ys[a][1], ys[b][2]), ZMul(ys[b][1], ys[a][2]))
    IN ZIsZero(l) \/ ZLt(ZAbs(l), rr)
(* header: docstring "THetA2 input format is tabular, with columns: ID, chrm, start, end, tumorCount, normalCount"    *)
EtColsOK(r) == /\ Len(r.cols) = 6
               /\ r.cols[1] \in {"ID", "#ID"}
               /\ SubSeq(r.cols, 2, 6) = <<"chrm", "start", "end", "tumorCount", "normalCount">>
EtShapeOK(r) == \A k \in 1..Len(r.out) : Len(r.out[k]) = 6 /\ \A j \in 2..6 : TokIsInt(r.out[k][j])
(* rows: "Convert tumor segments ... to THetA input"; "# Drop any chromosomes that are not integer or XY";            *)
(* "NB: THetA2 now apparently just drops X and Y (#153)": one row per segment on an integer-named chromosome, in      *)
(* order, with its start and end; segments on X / Y may or may not be listed (docstring "1 through 24" vs. code).    *)
EtCoords(rows) == [k \in 1..Len(rows) |-> <<rows[k][3], rows[k][4]>>]
EtOutCoords(r) == [k \in 1..Len(r.out) |-> <<TokVal(r.out[k][3]), TokVal(r.out[k][4])>>]
EtRowsOK(r) ==
    \/ EtOutCoords(r) = EtCoords(SelectSeq(r.segs, LAMBDA x : IsAuto(x[1], x[2])))
    \/ EtOutCoords(r) = EtCoords(SelectSeq(r.segs, LAMBDA x : IsAuto(x[1], x[2]) \/ IsXY(x[1], x[2])))
(* "chromosome IDs ("chrm") are integers 1 through 24"; "Convert chromosome names to 1-based integer indices":        *)
(* same chromosome <=> same id.  "Unique string identifier for each row": ids pairwise distinct.                      *)
EtChrmOK(r) ==
    LET ks == EtKept(r) IN
    Len(r.out) = Len(ks) =>
       /\ \A k \in 1..Len(ks) : TokVal(r.out[k][2]) \in 1..24
       /\ \A i, j \in 1..Len(ks) : (ChromOf(ks[i]) = ChromOf(ks[j])) <=> (TokVal(r.out[i][2]) = TokVal(r.out[j][2]))
       /\ \A i, j \in 1..Len(ks) : i # j => r.out[i][1][1] # r.out[j][1][1]
EtTumorOK(r) ==
    LET ks == EtKept(r)
        cs == [k \in 1..Len(ks) |-> TokVal(r.out[k][5])]
        ex == Force([k \in 1..Len(ks) |-> EtTumorExact(r, k)])
    IN Len(r.out) = Len(ks) =>
         IF EtExactScale(r) THEN \A k \in 1..Len(ks) : Within1(cs[k], ex[k])
         ELSE Proportional(cs, ex)
EtNormalOK(r) ==
    LET ks == EtKept(r)
        cs == [k \in 1..Len(ks) |-> TokVal(r.out[k][6])]
        br == Force([k \in 1..Len(ks) |-> EtRefBracket(r, ks[k])])
    IN Len(r.out) = Len(ks) =>
         IF EtExactScale(r)
         THEN \A k \in 1..Len(ks) : ~br[k].empty =>
                 /\ AtLeastM1(cs[k], EtNormalExact(r, k, br[k].lo)) /\ AtMostP1(cs[k], EtNormalExact(r, k, br[k].hi))
              (* without a normal the reference level is 0 everywhere: tumour and normal counts share one scale *)
         ELSE Proportional(cs \o [k \in 1..Len(ks) |-> TokVal(r.out[k][5])],
                           Force([k \in 1..Len(ks) |-> EtNormalExact(r, k, Pow2Rat(0))]) \o
                           Force([k \in 1..Len(ks) |-> EtTumorExact(r, k)]))
(* A-layer: the whole table *)
EtCountCands(c) == IF ZIsZero(c[1]) THEN {0} ELSE {Ab!ZToInt(q) : q \in Ab!AbRoundCands(c[1], c[2], FALSE)}
EtIdText(chrm, s, e) == "start_" \o ToString(chrm) \o "_" \o ToString(s) \o ":end_" \o ToString(chrm) \o "_" \o ToString(e)
EtCodedRowOK(r, k, row) ==
    LET ks == EtKept(r)
        x == ks[k]
        chrm == IndexIn(FirstAppearance(ks), ChromOf(x))
        br == EtRefBracket(r, x)
    IN /\ row[1][1] = EtIdText(chrm, SegS(x), SegE(x))
       /\ TokVal(row[2]) = chrm /\ TokVal(row[3]) = SegS(x) /\ TokVal(row[4]) = SegE(x)
       /\ TokVal(row[5]) \in EtCountCands(EtTumorExact(r, k))
       /\ IF br.empty THEN TokVal(row[6]) = 0                                     \* mean of nothing is NaN -> fillna(0)
          ELSE IF br.lo = br.hi THEN TokVal(row[6]) \in EtCountCands(EtNormalExact(r, k, br.lo))
          ELSE AtLeastM1(TokVal(row[6]), EtNormalExact(r, k, br.lo)) /\ AtMostP1(TokVal(row[6]), EtNormalExact(r, k, br.hi))
EtCodedOK(r) ==
    /\ r.cols = <<"#ID", "chrm", "start", "end", "tumorCount", "normalCount">>
    /\ IF r.segs = <<>> THEN r.out = <<>>
       ELSE Len(r.out) = Len(EtKept(r)) /\ EtShapeOK(r) /\ \A k \in 1..Len(r.out) : EtCodedRowOK(r, k, r.out[k])

(* ================================================================= export_theta_snps ============ *)
(* docstring: "Generate THetA's SNP per-allele read count "formatted.txt" files"; doc/importexport.rst: "produces     *)
(* these two additional files when given a VCF file of paired tumor-normal SNV calls".  Comments: "# Drop any          *)
(* chromosomes that are not integer or XY", "# Skip indels", "# Drop rows with any NaN", "# Avoid weird situation      *)
(* ... depth >= alt_count".  Row <<pfx, base, pos, reflen, altlen, d, a, nd, na>>, -1 = missing.                       *)
SnpIsSnv(x) == x[4] = 1 /\ x[5] = 1
SnpKeptChrom(rows) ==        \* autosomes(also = X, Y in the style of the first row); all rows when no integer name
    IF \E k \in 1..Len(rows) : IsAuto(rows[k][1], rows[k][2])
    THEN SelectSeq(rows, LAMBDA x : IsAuto(x[1], x[2]) \/
                                    (x[2] \in {"X", "Y"} /\ x[1] = (IF rows[1][1] = "chr" THEN "chr" ELSE "")))
    ELSE rows
SnpBase(r) ==
    LET a == SelectSeq(SnpKeptChrom(r.rows), SnpIsSnv)
        b == SelectSeq(a, LAMBDA x : x[6] >= 0 /\ x[7] >= 0)
        c == IF r.has_n THEN SelectSeq(b, LAMBDA x : x[8] >= 0) ELSE b      \* dropna(subset = [n_depth, alt_count])
    IN SelectSeq(c, LAMBDA x : x[6] >= x[7])
SnpTumorCoded(r) == [k \in 1..Len(SnpBase(r)) |-> LET x == SnpBase(r)[k] IN <<x[1], x[2], x[3], x[6] - x[7], x[7]>>]
SnpNormalCoded(r) ==
    IF ~r.has_n THEN <<>>
    ELSE LET b == SelectSeq(SnpBase(r), LAMBDA x : x[9] >= 0) IN
         [k \in 1..Len(b) |-> <<b[k][1], b[k][2], b[k][3], b[k][8] - b[k][9], b[k][9]>>]
(* P: every listed row is a single-base variant of the input with complete counts, Ref_Allele = depth - alt count,     *)
(* Mut_Allele = alt count, at its position; no variant is listed twice; rows keep the input order                      *)
SnpRowFrom(row, x, dcol, acol) == /\ row[1] = x[1] /\ row[2] = x[2] /\ row[3] = x[3]
                                  /\ SnpIsSnv(x) /\ x[dcol] >= 0 /\ x[acol] >= 0
                                  /\ row[4] = x[dcol] - x[acol] /\ row[5] = x[acol]
(* rows are matched in order (positions are distinct by premise) *)
SnpTableOKFast(r, tab, dcol, acol) ==
    /\ \A k \in 1..Len(tab) : \E m \in 1..Len(r.rows) : SnpRowFrom(tab[k], r.rows[m], dcol, acol)
    /\ \A i, j \in 1..Len(tab) : i < j =>
          LET mi == CHOOSE m \in 1..Len(r.rows) : SnpRowFrom(tab[i], r.rows[m], dcol, acol)
              mj == CHOOSE m \in 1..Len(r.rows) : SnpRowFrom(tab[j], r.rows[m], dcol, acol)
          IN mi < mj

(* ================================================================= THetA results, import ============ *)
NSub(r) == IF r.C = <<>> THEN Len(r.mu) - 1 ELSE Len(r.C[1])
CopiesOf(r, k) == [j \in 1..Len(r.C) |-> r.C[j][k]]                  \* subclone k over the intervals of the file
(* parse_theta_results docstring: "Parse THetA results into a data structure.  Columns: NLL, mu, C, p*"               *)
PtFieldsOK(r) ==
    /\ r.parsed.nll = r.nll
    /\ r.parsed.mu_normal = r.mu[1]
    /\ r.parsed.mu_tumors = SubSeq(r.mu, 2, Len(r.mu))
    /\ Len(r.parsed.C) = NSub(r)
    /\ \A k \in 1..NSub(r) : r.parsed.C[k] = CopiesOf(r, k)
    /\ NSub(r) = 1 => r.parsed.p = <<r.p>>
(* as coded for several tumour populations: the p* field is split on "," only, giving ONE row of all values *)
PtCodedOK(r) == PtFieldsOK(r) /\ (NSub(r) > 1 => r.parsed.p = <<r.p>>)
(* do_import_theta: "THetA doesn't handle sex chromosomes well" (autosomes only) *)
ItKept(r) == AutosomesCoded(r.segs)
(* doc/importexport.rst: "Convert the ".results" output of THetA2 to one or more CNVkit .cns files representing        *)
(* subclones with integer absolute copy number in each segment"; doc/heterogeneity.rst: "matching the original        *)
(* segmentation (.cns) to the THetA2-inferred absolute copy number values", "there may be fewer segments derived      *)
(* from THetA2 than were originally found"; code: "# Drop any segments where the C value is None".                    *)
ItExpected(r, k) ==       \* subclone k: the kept segments whose entry is not missing, with that copy number
    LET ks == ItKept(r)
        cp == CopiesOf(r, k)
        idx == SelectSeq([j \in 1..Len(ks) |-> j], LAMBDA j : cp[j] >= 0)
    IN [m \in 1..Len(idx) |-> <<ks[idx[m]][1], ks[idx[m]][2], ks[idx[m]][3], ks[idx[m]][4], cp[idx[m]]>>]
ItRowKey(row) == <<row[1], row[2], row[3], row[4], row[5]>>
ItAssignedOK(r) == /\ Len(r.out) = NSub(r)
                   /\ \A k \in 1..NSub(r) : [m \in 1..Len(r.out[k]) |-> ItRowKey(r.out[k][m])] = ItExpected(r, k)
(* doc/heterogeneity.rst: "The segment values are still log2-transformed in the resulting .cns files": log2 of the    *)
(* copy number relative to the ploidy ("--ploidy: Ploidy of normal cells"), 2^log2 = cn / ploidy; for cn = 0 any      *)
(* finite value below a single copy's                                                                                *)
ItLog2OK(r) == \A k \in 1..Len(r.out) : \A m \in 1..Len(r.out[k]) :
    LET row == r.out[k][m]
        pw == ObsV(row[6])
    IN /\ ~row[6].nan
       /\ IF row[5] > 0 THEN FxClose(pw, FxFromRat(row[5], r.ploidy), FxTol9)
          ELSE ZSign(pw) > 0 /\ ZLt(pw, FxFromRat(1, r.ploidy))
(* round trip: doc/heterogeneity.rst "generate the THetA2 input files from the .cns ... run THetA2 ... import THetA2's    *)
(* results back ..., matching the original segmentation": the i-th interval export_theta writes is the i-th segment      *)
(* do_import_theta assigns a copy number to (both keep the same segments, in the same order)                            *)
ItRoundTripOK(r) == r.exp = [k \in 1..Len(ItKept(r)) |-> <<ItKept(r)[k][3], ItKept(r)[k][4]>>]
(* A-layer: carry = TRUE is the code (the table reduced by one subclone's missing entries is reused for the next,     *)
(* whose copies are cut to its length); carry = FALSE starts every subclone from the kept segments.                   *)
(* Result <<error?, outputs>>                                                                                        *)
RECURSIVE ItLoop(_, _, _, _, _)
ItLoop(r, k, cur, acc, carry) ==
    IF k > NSub(r) THEN <<FALSE, acc>>
    ELSE LET cp0 == CopiesOf(r, k)
             cp == IF Len(cp0) # Len(cur) THEN SubSeq(cp0, 1, IntMin(Len(cur), Len(cp0))) ELSE cp0
         IN IF Len(cp) # Len(cur) THEN <<TRUE, acc>>                          \* boolean mask of the wrong length
            ELSE LET idx == SelectSeq([j \in 1..Len(cur) |-> j], LAMBDA j : cp[j] >= 0)
                     nxt == [m \in 1..Len(idx) |-> cur[idx[m]]]
                     outk == [m \in 1..Len(idx) |-> <<cur[idx[m]][1], cur[idx[m]][2], cur[idx[m]][3], cur[idx[m]][4], cp[idx[m]]>>]
                 IN ItLoop(r, k + 1, IF carry THEN nxt ELSE cur, Append(acc, outk), carry)
ItCoded(r, carry) == ItLoop(r, 1, ItKept(r), <<>>, carry)
ItCodedOK(r, carry) ==
    LET a == ItCoded(r, carry) IN
    IF a[1] THEN ~NoErr(r)
    ELSE /\ NoErr(r) /\ Len(r.out) = Len(a[2])
         /\ \A k \in 1..Len(a[2]) : [m \in 1..Len(r.out[k]) |-> ItRowKey(r.out[k][m])] = a[2][k]
         /\ \A k \in 1..Len(r.out) : \A m \in 1..Len(r.out[k]) :          \* ok_copies[ok_copies == 0] = 0.5
               r.out[k][m][5] = 0 => FxClose(ObsV(r.out[k][m][6]), FxFromRat(1, 2 * r.ploidy), FxTol9)

(* ================================================================= Picard ============ *)
IgnoreNames == {"-", ".", "CGH"}                    \* params.IGNORE_GENE_NAMES
(* unpipe_name docstring: "Return a string containing the single gene name, sans duplications and pipe characters.    *)
(* Picard CalculateHsMetrics combines the labels of overlapping intervals by joining all labels with '|', e.g.         *)
(* 'BRAF|BRAF' -- ... these dupes are redundant.  Meaningless target names are dropped, e.g. 'CGH|FOO|-' resolves as   *)
(* 'FOO'.  In case of ambiguity, the longest name is taken, e.g. "TERT|TERT Promoter" resolves as "TERT Promoter"."    *)
(* Which of several equally long names is taken is not documented (and depends on set iteration order in the code).   *)
UnpipeOK(parts, name) ==
    LET S == SeqToSet(parts)
        cleaned == S \ IgnoreNames
        pool == IF cleaned # {} THEN cleaned ELSE S
    IN IF Len(parts) = 1 THEN name = parts[1]
       ELSE IF Cardinality(S) = 1 THEN name \in S
       ELSE name \in pool /\ \A x \in pool : Len(x) <= Len(name)
(* rows of the converted table, matched by their (distinct) coordinates.  doc/importexport.rst: "Convert Picard        *)
(* CollectHsMetrics per-target coverage files (.tsv) to the CNVkit .cnn format"; doc/fileformats.rst: Picard            *)
(* coordinates are 1-indexed, CNVkit's 0-based half-open: start - 1; read_picard_hs docstring: the columns.            *)
IpMatch(x, y) == y[1] = x[1] /\ y[2] = x[2] /\ y[3] = x[3] - 1 /\ y[4] = x[4]
IpRowsOK(r) ==
    /\ Len(r.out) = Len(r.rows)
    /\ \A k \in 1..Len(r.rows) : \E m \in 1..Len(r.out) :
          LET x == r.rows[k]  y == r.out[m] IN
          /\ IpMatch(x, y) /\ UnpipeOK(x[5], y[5])
          /\ y[6] = x[6] /\ y[7] = x[7] /\ y[8] = x[8]                      \* gc, mean coverage, normalized coverage kept
(* "Create log2 column from coverages, avoiding math domain error": log2 of the row's coverage (the code takes the     *)
(* normalized coverage; the documentation does not say which of the two coverage columns, either is admitted);        *)
(* no coverage -> params.NULL_LOG2_COVERAGE (-20)                                                                     *)
IpLog2Of(r, y, cov) == IF cov = 0 THEN y[9] ELSE ~y[9] /\ ~y[10].nan /\ FxClose(ObsV(y[10]), FxFromRat(cov, r.CU), FxTol9)
IpLog2OK(r) == \A m \in 1..Len(r.out) : LET y == r.out[m] IN IpLog2Of(r, y, y[8]) \/ IpLog2Of(r, y, y[7])
(* "WARNING: Sample %s has >%d bins with no coverage": the warning is logged exactly when more than too_many bins have *)
(* no coverage                                                                                                       *)
IpZeroCount(r) == Cardinality({k \in 1..Len(r.rows) : r.rows[k][8] = 0})
IpWarningOK(r) == r.warned <=> (IpZeroCount(r) > r.too_many)
(* A-layer: tabio.read sorts the rows by (chromosome in natural order, start, end): the harness supplies the rank of   *)
(* each row in that order (field `rank`, from the chromosome ids it generated); log2 from the normalized coverage      *)
IpCodedOK(r) ==
    /\ Len(r.out) = Len(r.rows)
    /\ \A k \in 1..Len(r.rows) : IpMatch(r.rows[k], r.out[r.rank[k]])
    /\ \A m \in 1..Len(r.out) : IpLog2Of(r, r.out[m], r.out[m][8])

(* ================================================================= metrics ============ *)
NSamples(r) == Len(r.samples)
Compatible(r) == r.nsegsets \in {0, 1, NSamples(r)}
SegsetOf(r, i) == IF r.nsegsets = 1 THEN r.segsets[1] ELSE r.segsets[i]
(* CLI help "--drop-low-coverage: Drop very-low-coverage bins before calculations"; drop_low_coverage: log2 below      *)
(* NULL_LOG2_COVERAGE - MIN_REF_COVERAGE = -15, or depth == 0 when there is a depth column                            *)
MtUsedBins(r, i) == LET bs == r.samples[i].bins IN
    IF r.skip_low THEN SelectSeq(bs, LAMBDA b : ~(b[4] < -15 * r.LU \/ (r.has_depth /\ b[5] = 1))) ELSE bs
Inside(b, s) == b[1] = s[1] /\ b[2] >= s[2] /\ b[3] <= s[3]
OverlapsSeg(b, s) == b[1] = s[1] /\ b[3] > s[2] /\ b[2] < s[3]
(* doc/reports.rst (metrics): "the log2 ratio value of each segment is subtracted from each of the bins it covers,     *)
(* and several estimators of spread are calculated from the residual values"; CopyNumArray.residuals docstring: "If    *)
(* None, subtract each chromosome's median".  Residuals in units 1 / (2 LU) (a median may fall on a half step).        *)
MtResiduals2(r, i) ==
    LET bs == MtUsedBins(r, i) IN
    IF r.nsegsets = 0
    THEN LET med2(c) == LET v == SelectSeq(bs, LAMBDA b : b[1] = c) IN Ab!Median2Int([k \in 1..Len(v) |-> v[k][4]])
         IN [k \in 1..Len(bs) |-> 2 * bs[k][4] - med2(bs[k][1])]
    ELSE LET sg == SegsetOf(r, i) IN
         FlattenSeq([j \in 1..Len(sg) |->
             LET ins == SelectSeq(bs, LAMBDA b : Inside(b, sg[j])) IN [m \in 1..Len(ins) |-> 2 * (ins[m][4] - sg[j][4])]])
MtResFx(r, i) == LET d == MtResiduals2(r, i) IN Force([k \in 1..Len(d) |-> FxGrid(d[k], 2 * r.LU)])
(* the four estimators of doc/reports.rst: "Uncorrected sample standard deviation", "Median absolute deviation (MAD)",  *)
(* "Interquartile range (IQR)", "Tukey's biweight midvariance" -- formulas of Stats.tla (as judged under C17 / C19)     *)
ThStdPop(d) == LET n == Len(d)
                   sx == ZSum(d)
                   sxx == ZSum([k \in 1..n |-> ZMul(d[k], d[k])])
               IN Z(FALSE, MagDivFast(MagSqrtFast(ZSub(ZMulInt(sxx, n), ZMul(sx, sx)).m), MagFromNat(n)))
ThBilocAcceptable(a) == LET its == BilocIterates(a, Median(a), 6, 5, BwEps, FxTol9)
                        IN {its[k + 1] : k \in BilocAcceptedRounds(its, BwEps, FxTol9)}
ThBivarAt(o, a, M) == LET b == BivarAt(a, M, 9)  D == BwRadius(a, M, 9) IN
                      \/ b[1] /\ FxClose(o, b[2], FxTol6)
                      \/ ZLe(ZAbs(b[3]), FxMul(FxTol9, D)) /\ FxClose(o, BivarFallback(a, M), FxTol6)
ThBivarOK(o, a) == \E m \in ThBilocAcceptable(a) : ThBivarAt(o, a, m)
MtStatOK(name, o, d) ==
    LET n == Len(d) IN
    IF n = 0 THEN o.nan                                     \* a spread of no residuals is undefined
    ELSE IF n = 1 THEN ~o.nan /\ ZIsZero(ObsV(o))
    ELSE /\ ~o.nan
         /\ CASE name = "stdev" -> FxClose(ObsV(o), ThStdPop(d), FxTol9)
              [] name = "mad" -> FxClose(ObsV(o), Mad(d, TRUE), FxTol9)
              [] name = "iqr" -> FxClose(ObsV(o), Iqr(d), FxTol9)
              [] name = "bivar" -> ~ObsV(o).n /\ (n <= 400 => ThBivarOK(ObsV(o), d))
MtStat(r, name) == (NoErr(r) /\ Compatible(r) /\ Len(r.out) = NSamples(r)) =>
    \A i \in 1..NSamples(r) : MtStatOK(name, r.out[i][name], MtResFx(r, i))
(* doc/reports.rst: "The output table shows for each sample: ..."; one row per coverage table, in order               *)
MtRowsOK(r) == (NoErr(r) /\ Compatible(r)) => Len(r.out) = NSamples(r)
(* "Total number of segments (in the .cns file)"; without segments the column holds "-" (A-layer: -1 encodes "-")      *)
MtSegmentsOK(r) == (NoErr(r) /\ Compatible(r) /\ Len(r.out) = NSamples(r) /\ r.nsegsets > 0) =>
    \A i \in 1..NSamples(r) : r.out[i].nseg = Len(SegsetOf(r, i))
(* CLI help "-s: ... If more than one file is given, the number must match the coverage data files, in which case the  *)
(* input files will be paired together in the given order.  Otherwise, the same segments will be used for all          *)
(* coverage files"; zip_repeater: "# Require lengths to match" / "Number of unsegmented and segmented input files did  *)
(* not match"                                                                                                        *)
MtMismatchRejected(r) == ~Compatible(r) => ~NoErr(r)
MtNoErr(r) == Compatible(r) => NoErr(r)
(* A-layer: zip() stops at the shorter list; the length check fires only when fewer pairs than segment tables came     *)
(* out; the label is meta["filename"] when present, else the sample id                                                *)
(* repaired = TRUE: every incompatible count is rejected (what the CLI help states) *)
MtCodedErr(r, repaired) == IF repaired THEN ~Compatible(r) ELSE r.nsegsets > 1 /\ NSamples(r) < r.nsegsets
MtCodedRows(r) == IF r.nsegsets <= 1 THEN NSamples(r) ELSE IntMin(NSamples(r), r.nsegsets)
MtCodedOK(r, repaired) ==
    IF MtCodedErr(r, repaired) THEN ~NoErr(r)
    ELSE /\ NoErr(r) /\ Len(r.out) = MtCodedRows(r)
         /\ \A i \in 1..Len(r.out) :
               /\ r.out[i].sample = (IF r.samples[i].fname # "" THEN r.samples[i].fname ELSE r.samples[i].sid)
               /\ r.out[i].nseg = (IF r.nsegsets = 0 THEN -1 ELSE Len(SegsetOf(r, i)))

(* ================================================================= clauses ============ *)
Clauses(op) ==
    CASE op = "export_theta" -> {"et_noerr", "et_columns", "et_rows", "et_chrm", "et_tumor_count", "et_normal_count",
                                 "et_empty"}
      [] op = "theta_snps" -> {"snp_noerr", "snp_rows"}
      [] op = "import_theta" -> {"it_noerr", "pt_fields", "it_one_per_subclone", "it_assigned", "it_log2", "rt_same_intervals"}
      [] op = "unpipe" -> {"up_noerr", "up_name"}
      [] op = "import_picard" -> {"ip_noerr", "ip_rows", "ip_log2", "ip_warning"}
      [] op = "metrics" -> {"mt_noerr", "mt_rows", "mt_segments", "mt_stdev", "mt_mad", "mt_iqr", "mt_bivar",
                            "mt_mismatch_rejected"}
      [] OTHER -> {}
EtJudgable(r) == NoErr(r) /\ r.segs # <<>> /\ EtShapeOK(r)
Holds(c, r) ==
    CASE c = "et_noerr" -> NoErr(r)
      [] c = "et_columns" -> NoErr(r) => EtColsOK(r)
      [] c = "et_rows" -> (EtJudgable(r) /\ EtHasAuto(r)) => EtRowsOK(r)
      [] c = "et_chrm" -> (EtJudgable(r) /\ EtHasAuto(r)) => EtChrmOK(r)
      [] c = "et_tumor_count" -> EtJudgable(r) => EtTumorOK(r)
      [] c = "et_normal_count" -> EtJudgable(r) => EtNormalOK(r)
         (* "if not tumor_segs: return pd.DataFrame(columns=out_columns)": no segments, no rows *)
      [] c = "et_empty" -> (NoErr(r) /\ r.segs = <<>>) => r.out = <<>>
      [] c = "snp_noerr" -> NoErr(r)
      [] c = "snp_rows" -> NoErr(r) => /\ Len(r.out) = 2
                                       /\ SnpTableOKFast(r, r.out[1], 6, 7)
                                       /\ SnpTableOKFast(r, r.out[2], 8, 9)
                                       /\ (~r.has_n => r.out[2] = <<>>)
      [] c = "it_noerr" -> NoErr(r)
      [] c = "pt_fields" -> r.parsed.ok => PtFieldsOK(r)
      [] c = "it_one_per_subclone" -> NoErr(r) => Len(r.out) = NSub(r)
      [] c = "it_assigned" -> NoErr(r) => ItAssignedOK(r)
      [] c = "it_log2" -> NoErr(r) => ItLog2OK(r)
      [] c = "rt_same_intervals" -> r.exp_ok => ItRoundTripOK(r)
      [] c = "up_noerr" -> NoErr(r)
      [] c = "up_name" -> NoErr(r) => UnpipeOK(r.parts, r.out)
      [] c = "ip_noerr" -> NoErr(r)
      [] c = "ip_rows" -> NoErr(r) => IpRowsOK(r)
      [] c = "ip_log2" -> NoErr(r) => IpLog2OK(r)
      [] c = "ip_warning" -> NoErr(r) => IpWarningOK(r)
      [] c = "mt_noerr" -> MtNoErr(r)
      [] c = "mt_rows" -> MtRowsOK(r)
      [] c = "mt_segments" -> MtSegmentsOK(r)
      [] c = "mt_stdev" -> MtStat(r, "stdev")
      [] c = "mt_mad" -> MtStat(r, "mad")
      [] c = "mt_iqr" -> MtStat(r, "iqr")
      [] c = "mt_bivar" -> MtStat(r, "bivar")
      [] c = "mt_mismatch_rejected" -> MtMismatchRejected(r)

(* ================================================================= premise ============ *)
SortedDisjoint(rows, cidx, sidx, eidx) == \A i, j \in 1..Len(rows) :
    (i < j /\ rows[i][cidx] = rows[j][cidx]) => rows[i][eidx] <= rows[j][sidx]
Premise(r) ==
    CASE r.op = "export_theta" ->
            (* positive-width segments, positive ratios, at most 24 distinct chromosomes (THetA's limit), probes >= 1  *)
            (* and weights > 0 where present; normal bins of positive width, sorted and disjoint per chromosome;       *)
            (* |mean log2| stays below 20                                                                            *)
            /\ \A k \in 1..Len(r.segs) : LET x == r.segs[k] IN x[3] >= 0 /\ x[4] > x[3] /\ x[5] > 0 /\ x[6] > 0 /\ x[7] >= 1 /\ x[8] >= 1
            /\ Cardinality({ChromOf(r.segs[k]) : k \in 1..Len(r.segs)}) <= 22
            /\ r.WU >= 1 /\ r.LU >= 1
            /\ \A k \in 1..Len(r.normal) : r.normal[k][4] > r.normal[k][3] /\ r.normal[k][5] >= -20 * r.LU /\ r.normal[k][5] <= 20 * r.LU
            /\ \A i, j \in 1..Len(r.normal) : (i < j /\ ChromOf(r.normal[i]) = ChromOf(r.normal[j])) => r.normal[i][4] <= r.normal[j][3]
            /\ \A i, j \in 1..Len(r.segs) : (i < j /\ ChromOf(r.segs[i]) = ChromOf(r.segs[j])) => r.segs[i][4] <= r.segs[j][3]
      [] r.op = "theta_snps" ->
            (* at least one record (the CLI rejects an empty VCF); distinct (chromosome, position)                    *)
            /\ r.rows # <<>>
            /\ \A i, j \in 1..Len(r.rows) : i # j => <<r.rows[i][1], r.rows[i][2], r.rows[i][3]>> # <<r.rows[j][1], r.rows[j][2], r.rows[j][3]>>
      [] r.op = "import_theta" ->
            (* the results file has one interval per autosomal segment of the .cns (what export_theta wrote), one or   *)
            (* two tumour populations, ploidy >= 1                                                                   *)
            /\ r.ploidy >= 1 /\ r.C # <<>> /\ Len(r.mu) >= 2
            /\ \A j \in 1..Len(r.C) : Len(r.C[j]) = Len(r.mu) - 1
            /\ Len(r.C) = Len(ItKept(r))
            /\ \E k \in 1..Len(r.segs) : IsAuto(r.segs[k][1], r.segs[k][2])
      [] r.op = "unpipe" -> Len(r.parts) >= 1
      [] r.op = "import_picard" ->
            /\ \A i, j \in 1..Len(r.rows) : i # j =>
                  <<r.rows[i][1], r.rows[i][2], r.rows[i][3], r.rows[i][4]>> # <<r.rows[j][1], r.rows[j][2], r.rows[j][3], r.rows[j][4]>>
            /\ \A k \in 1..Len(r.rows) : r.rows[k][3] >= 1 /\ r.rows[k][7] >= 0 /\ r.rows[k][8] >= 0 /\ Len(r.rows[k][5]) >= 1
            /\ r.rows # <<>>
      [] r.op = "metrics" ->
            (* at least one coverage table; no empty segment table; segments of a set pairwise disjoint; every bin lies inside one segment of  *)
            (* its set or overlaps none ("the bins it covers" is then unambiguous)                                    *)
            /\ NSamples(r) >= 1
            /\ \A j \in 1..Len(r.segsets) : r.segsets[j] # <<>>     \* (an empty table is falsy: residuals() then falls back to chromosome medians)
            /\ \A j \in 1..Len(r.segsets) : \A a, b \in 1..Len(r.segsets[j]) :
                  a # b => ~OverlapsSeg(r.segsets[j][a], r.segsets[j][b])
            /\ Compatible(r) => \A i \in 1..NSamples(r) : r.nsegsets > 0 =>
                  \A k \in 1..Len(r.samples[i].bins) : \A j \in 1..Len(SegsetOf(r, i)) :
                      LET b == r.samples[i].bins[k]  s == SegsetOf(r, i)[j] IN OverlapsSeg(b, s) => Inside(b, s)
      [] OTHER -> FALSE

(* ================================================================= drift ============ *)
Drift(r) ==
    CASE r.op = "export_theta" -> NoErr(r) /\ ~EtCodedOK(r)
      [] r.op = "theta_snps" -> NoErr(r) /\ (r.out[1] # SnpTumorCoded(r) \/ r.out[2] # SnpNormalCoded(r))
      [] r.op = "import_theta" -> (~ItCodedOK(r, TRUE) /\ ~ItCodedOK(r, FALSE)) \/ (r.parsed.ok /\ ~PtCodedOK(r))
      [] r.op = "unpipe" -> FALSE
      [] r.op = "import_picard" -> NoErr(r) /\ ~IpCodedOK(r)
      [] r.op = "metrics" -> ~MtCodedOK(r, FALSE) /\ ~MtCodedOK(r, TRUE)
      [] OTHER -> FALSE

(* ================================================================= known-finding triggers ============ *)
(* ThetaNormalNoProbes: a normal / reference table is given and the tumour segments have no "probes" column            *)
(* ThetaSubcloneAfterMissing: several tumour populations and one before the last has a missing ("X") entry             *)
(* MoreSamplesThanSegments: more coverage tables than segment tables, more than one of the latter                      *)
KnownTriggers == {"ThetaNormalNoProbes", "ThetaSubcloneAfterMissing", "MoreSamplesThanSegments"}
TriggerHolds(t, r) ==
    CASE t = "ThetaNormalNoProbes" -> r.op = "export_theta" /\ r.has_normal /\ ~r.has_probes /\ r.segs # <<>>
      [] t = "ThetaSubcloneAfterMissing" ->
            r.op = "import_theta" /\ NSub(r) >= 2 /\ \E k \in 1..NSub(r) - 1 : \E j \in 1..Len(r.C) : r.C[j][k] < 0
      [] t = "MoreSamplesThanSegments" -> r.op = "metrics" /\ r.nsegsets > 1 /\ NSamples(r) > r.nsegsets
      [] OTHER -> FALSE
=============================================================================
