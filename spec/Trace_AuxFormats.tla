--------------------------- MODULE Trace_AuxFormats ---------------------------
(* Trace validation for X09 (AuxFormats): one recorded call of the real code per record; verdicts are carried   *)
(* as state (total verdicts) and read from the dump.  AuxFormats extends Formats, which owns the names          *)
(* Clauses / Holds / Premise / ...; this module therefore uses AuxFormats' X-prefixed operators.                *)
EXTENDS AuxFormats, Json, IOUtils
Trace == JsonDeserialize(IOEnv.TRACE_FILE)
VARIABLES i, ph, failed, scope, triggers, drift, checked
vars == <<i, ph, failed, scope, triggers, drift, checked>>
Init == /\ i \in 1..Len(Trace) /\ ph = "call"
        /\ failed = {} /\ scope = TRUE /\ triggers = {} /\ drift = FALSE /\ checked = {}
Next == /\ ph = "call" /\ ph' = "ret" /\ UNCHANGED i
        /\ LET r == Trace[i] IN
           /\ scope' = XPremise(r)
           /\ checked' = IF scope' THEN XClauses(r.op) ELSE {}
           /\ failed' = {c \in checked' : ~XHolds(c, r)}
           /\ triggers' = {t \in XKnownTriggers : XTriggerHolds(t, r)}
           (* a record that only fails clauses a listed finding explains is still compared with the A-layer *)
           /\ drift' = (scope' /\ failed' \subseteq UNION {XTriggerClauses(t) : t \in triggers'} /\ XDrift(r))
Spec == Init /\ [][Next]_vars
NoFailure == failed = {}
=============================================================================
