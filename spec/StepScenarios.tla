--------------------------- MODULE StepScenarios ---------------------------
(* Property C11: "A clear copy-number step is found and localised; flat profiles stay          *)
(* unsegmented" (cnvlib.segmentation.do_segmentation with method haar / hmm-germline).          *)
(*                                                                                             *)
(* WHAT THIS MODULE IS -- AND IS NOT.  The detectors (HaarSeg wavelet peaks + FDR threshold;    *)
(* the 3-state fixed-mean HMM with MAP decoding; Savitzky-Golay pre-smoothing) are numeric      *)
(* algorithms over real-valued noise; TLA+ / TLC cannot model them and this module does not     *)
(* try (DESIGN.md section 8 "C11", section 9).  The specification supplies                      *)
(*   (1) the SCENARIO SPACE of the property's quantifier as a finite grid of scenario classes   *)
(*       (`Scenarios`) that TLC enumerates; each enumerated scenario is realised by the driver  *)
(*       (exact sizes / coordinates / weights / truncated-Gaussian noise drawn from             *)
(*       random.Random("C11|<scenario id>|<VERIF_SEED>")) and run through the REAL code;        *)
(*   (2) the PREMISE: the realised profile, as observed on the table handed to the real code,   *)
(*       lies inside the quantifier (sizes, levels, noise bound 3 sd, weights, spacing);         *)
(*   (3) the ACCEPTANCE PREDICATE (`Holds`): the clauses of the property, evaluated by TLC on    *)
(*       every recorded outcome.                                                                 *)
(* Evidence level: exploration (a seeded ensemble judged by a TLA+ predicate); no claim over     *)
(* all noise realisations.  There is no A-layer (no model of the detector): Drift is FALSE.      *)
(* The design check (MC_StepScenarios) shows that the predicate accepts the ideal outcome of     *)
(* every scenario, accepts outcomes exactly at the stated tolerances and rejects outcomes just   *)
(* beyond them (the predicate is neither unsatisfiable nor vacuous).                             *)
(*                                                                                             *)
(* Units: log2 levels and segment means in MILLI-units (integers; +0.585 = 585); noise sd in     *)
(* milli-units (10..100); per-bin deviation from the true level in MICRO-units; weights in       *)
(* milli-units (500..1000); coordinates in bases.                                                *)
(*                                                                                             *)
(* Record r (one call of do_segmentation(cnarr, method), all defaults):                          *)
(*   op      "<method>:<kind>"   (selects the clauses)                                           *)
(*   scn     the scenario as enumerated by TLC: [method, kind, lv, dir, nchrom, szc, sdc, wc, sp]*)
(*   sid     scenario id (= Sid(scn));  seed   VERIF_SEED of the realisation                     *)
(*   sd      realised noise sd (milli)                                                           *)
(*   chroms  per chromosome, OBSERVED on the CopyNumArray passed to the real code:               *)
(*     c      chromosome id (1..nchrom, order of the table)                                      *)
(*     n      bins;  nl  bins left of the true step (0 = flat);  ll, rl  true levels left/right   *)
(*     dev    max over bins of |log2 - true level|, micro-units                                  *)
(*     wmin, wmax   smallest / largest bin weight (milli)                                        *)
(*     first, last  start of the first bin / end of the last bin                                 *)
(*     mingap, maxgap   smallest / largest distance start[k+1] - end[k], the arm gap excluded    *)
(*     gap    bins before the centromere-sized gap (0 = none);  gapsz  its size                  *)
(*     gl     <<end of bin gap, start of bin gap+1>>  (<<0, 0>> if none)                         *)
(*     win    <<k, start, end>> of the 12 bins k = nl-5 .. nl+6 around the true step (<<>> flat) *)
(*   out     observed segments <<c, start, end, probes, log2 (milli, rounded)>> in table order   *)
(*   err     exception text ("" = none)                                                          *)
EXTENDS Naturals, Integers, Sequences, FiniteSets, TLC

(* ================================================================ scenario grid ========== *)
MethodSeq  == <<"haar", "hmm-germline">>
KindSeq    == <<"step", "flat">>
LevelSeq   == <<0, -1000, 585, 1000>>                \* 0 = flat; one-copy loss; one-copy gain; +1 (haar only)
DirSeq     == <<"N", "L", "R">>                      \* which side carries the changed level (N = flat)
SizeSeq    == <<"min", "small", "asym", "large", "any">>
SdSeq      == <<"sd10", "sd30", "sd100", "sdany">>
WeightSeq  == <<"one", "half", "unif">>
SpacingSeq == <<"contig", "targeted", "sparse", "cmere">>
Range(s)   == {s[k] : k \in 1..Len(s)}
Ix(s, x)   == (CHOOSE k \in 1..Len(s) : s[k] = x) - 1            \* 0-based index

Methods == Range(MethodSeq)
(* "levels 0 and -1, or 0 and +0.585; also 0 and +1 for haar" *)
ChangedLevels(m) == IF m = "haar" THEN {-1000, 585, 1000} ELSE {-1000, 585}

WellFormedScn(s) ==
    /\ s.method \in Methods /\ s.kind \in Range(KindSeq)
    /\ s.nchrom \in 1..3                                          \* "1..3 chromosomes"
    /\ s.szc \in Range(SizeSeq) /\ s.sdc \in Range(SdSeq) /\ s.wc \in Range(WeightSeq) /\ s.sp \in Range(SpacingSeq)
    /\ IF s.kind = "flat" THEN s.lv = 0 /\ s.dir = "N"
       ELSE s.lv \in ChangedLevels(s.method) /\ s.dir \in {"L", "R"}   \* "either direction and sign of the step"

Scenarios == {s \in [method : Methods, kind : Range(KindSeq), lv : Range(LevelSeq), dir : Range(DirSeq),
                     nchrom : 1..3, szc : Range(SizeSeq), sdc : Range(SdSeq), wc : Range(WeightSeq),
                     sp : Range(SpacingSeq)] : WellFormedScn(s)}

Digits(s) == <<Ix(MethodSeq, s.method), Ix(KindSeq, s.kind), Ix(LevelSeq, s.lv), Ix(DirSeq, s.dir), s.nchrom - 1,
               Ix(SizeSeq, s.szc), Ix(SdSeq, s.sdc), Ix(WeightSeq, s.wc), Ix(SpacingSeq, s.sp)>>
Radix == <<2, 2, 4, 3, 3, 5, 4, 3, 4>>
RECURSIVE MixedRadix(_, _)
MixedRadix(d, k) == IF k = 0 THEN 0 ELSE MixedRadix(d, k - 1) * Radix[k] + d[k]
Sid(s) == MixedRadix(Digits(s), 9)                               \* unique scenario id, < 34560
RECURSIVE SumSeq(_, _)
SumSeq(d, k) == IF k = 0 THEN 0 ELSE SumSeq(d, k - 1) + d[k]
(* diagonal shard: every value of every factor occurs in every shard *)
ShardOf(s, nshards) == SumSeq(Digits(s), 9) % nshards
OpOf(s) == IF s.method = "haar" THEN (IF s.kind = "step" THEN "haar:step" ELSE "haar:flat")
           ELSE (IF s.kind = "step" THEN "hmm-germline:step" ELSE "hmm-germline:flat")

(* what each class promises about the realisation (all inside the quantifier) *)
StepSizeOK(szc, nl, nr) ==                                       \* "100..400 bins per side"
    CASE szc = "min"   -> nl = 100 /\ nr = 100
      [] szc = "small" -> nl \in 100..150 /\ nr \in 100..150
      [] szc = "asym"  -> \/ (nl \in 100..130 /\ nr \in 300..400)
                          \/ (nr \in 100..130 /\ nl \in 300..400)
      [] szc = "large" -> nl \in 300..400 /\ nr \in 300..400
      [] szc = "any"   -> nl \in 100..400 /\ nr \in 100..400
FlatSizeOK(szc, n) ==                                            \* "flat controls 100..600 bins"
    CASE szc = "min"   -> n = 100
      [] szc = "small" -> n \in 101..200
      [] szc = "asym"  -> n \in 201..400
      [] szc = "large" -> n \in 401..600
      [] szc = "any"   -> n \in 100..600
SdOK(sdc, sd) ==                                                 \* "noise sd in [0.01, 0.1]"
    CASE sdc = "sd10" -> sd = 10 [] sdc = "sd30" -> sd = 30 [] sdc = "sd100" -> sd = 100 [] sdc = "sdany" -> sd \in 10..100
WeightOK(wc, wmin, wmax) ==                                      \* "bin weights in [0.5, 1]"
    /\ 500 <= wmin /\ wmin <= wmax /\ wmax <= 1000
    /\ (wc = "one" => wmin = 1000) /\ (wc = "half" => wmax = 500)

(* ================================================================ premise ================ *)
MaxI(a, b) == IF a >= b THEN a ELSE b
MinI(a, b) == IF a <= b THEN a ELSE b
Abs(x) == IF x < 0 THEN -x ELSE x
MinGapSize == 100000          \* skgenome.GenomicArray.by_arm(min_gap_size=1e5, min_arm_bins=50)
(* upper bound of by_arm's margin max(50, int(round(0.1 * n))) (whichever way a tie rounds) *)
ArmMargin(n) == MaxI(50, (n + 5) \div 10)

IsStepChrom(ch) == ch.nl > 0
ChromOK(s, sd, k, ch) ==
    /\ ch.c = k
    /\ ch.dev >= 0 /\ ch.dev <= 3000 * sd                        \* noise truncated at 3 sd (dev in micro-units)
    /\ WeightOK(s.wc, ch.wmin, ch.wmax)
    /\ 0 <= ch.first /\ ch.first < ch.last
    (* "random bin sizes and spacing": bins sorted, not overlapping; no gap that by_arm could take for a
       centromere except the declared one *)
    /\ 0 <= ch.mingap /\ ch.mingap <= ch.maxgap /\ ch.maxgap < MinGapSize
    /\ IF s.kind = "step"
       THEN /\ ch.nl \in 100..400 /\ (ch.n - ch.nl) \in 100..400 /\ StepSizeOK(s.szc, ch.nl, ch.n - ch.nl)
            /\ \/ (ch.ll = 0 /\ ch.rl \in ChangedLevels(s.method))
               \/ (ch.rl = 0 /\ ch.ll \in ChangedLevels(s.method))
            (* the first chromosome carries the scenario's own level and direction *)
            /\ k = 1 => IF s.dir = "L" THEN ch.ll = s.lv ELSE ch.rl = s.lv
            /\ Len(ch.win) = 12
            /\ \A j \in 1..12 : /\ ch.win[j][1] = ch.nl - 6 + j /\ ch.win[j][2] < ch.win[j][3]
                                /\ j < 12 => ch.win[j][3] <= ch.win[j+1][2]
            /\ ch.first <= ch.win[1][2] /\ ch.win[12][3] <= ch.last
       ELSE /\ ch.nl = 0 /\ ch.ll = 0 /\ ch.rl = 0 /\ ch.win = <<>>
            /\ ch.n \in 100..600 /\ FlatSizeOK(s.szc, ch.n)
    /\ IF ch.gap = 0 THEN ch.gapsz = 0 /\ ch.gl = <<0, 0>>
       ELSE (* a centromere-sized gap where by_arm looks for one: the chromosome has exactly two arms;
               on a stepped chromosome it is >= 100 bins away from the step, so that the arm holding
               the step still has >= 100 bins on each side of it *)
            /\ s.sp = "cmere"
            /\ ch.gapsz >= MinGapSize /\ ch.gl[2] - ch.gl[1] = ch.gapsz
            /\ ch.first < ch.gl[1] /\ ch.gl[2] < ch.last
            /\ ch.gap >= ArmMargin(ch.n) + 1 /\ ch.n - ch.gap >= ArmMargin(ch.n) + 1
            /\ IsStepChrom(ch) => \/ ch.gap <= ch.nl - 100
                                  \/ ch.gap >= ch.nl + 100

Premise(r) ==
    /\ WellFormedScn(r.scn) /\ r.sid = Sid(r.scn) /\ r.op = OpOf(r.scn)
    /\ r.sd \in 10..100 /\ SdOK(r.scn.sdc, r.sd)
    /\ Len(r.chroms) = r.scn.nchrom
    /\ \A k \in 1..Len(r.chroms) : ChromOK(r.scn, r.sd, k, r.chroms[k])

(* ================================================================ acceptance predicate ==== *)
SC(s) == s[1]
SS(s) == s[2]
SE(s) == s[3]
SP(s) == s[4]
SL(s) == s[5]
SegsOf(r, k) == SelectSeq(r.out, LAMBDA s : SC(s) = k)
(* the boundary between consecutive segments a, b straddles the chromosome's centromere gap: an arm
   boundary, not a copy-number breakpoint *)
IsArmBoundary(ch, a, b) == ch.gap > 0 /\ SE(a) <= ch.gl[1] /\ SS(b) >= ch.gl[2]
BreakIdx(ch, S) == {j \in 1..Len(S)-1 : ~IsArmBoundary(ch, S[j], S[j+1])}
RECURSIVE ProbesUpTo(_, _)
ProbesUpTo(S, j) == IF j = 0 THEN 0 ELSE ProbesUpTo(S, j - 1) + SP(S[j])
OneBreak(ch, S) == Cardinality(BreakIdx(ch, S)) = 1
TheBreak(ch, S) == CHOOSE j \in BreakIdx(ch, S) : TRUE
StepChroms(r) == {k \in 1..Len(r.chroms) : IsStepChrom(r.chroms[k])}
BinTol == 5          \* "within 5 bins of the true one"
MeanTol == 100       \* "within 0.1 of the true levels" (milli-units; the rounding of the encoding, 1/2 unit, included)

StepClauses == {"noerr", "step_one_breakpoint", "step_localised", "step_localised_coord", "step_means"}
FlatClauses == {"noerr", "flat_one_segment_per_arm"}
Clauses(op) == IF op \in {"haar:step", "hmm-germline:step"} THEN StepClauses
               ELSE IF op \in {"haar:flat", "hmm-germline:flat"} THEN FlatClauses ELSE {}

Holds(c, r) ==
    CASE c = "noerr" -> r.err = ""
      (* "the haar and hmm-germline methods each report exactly one breakpoint" -- per stepped chromosome;
         a boundary at the centromere gap separates arms and is not counted *)
      [] c = "step_one_breakpoint" ->
            \A k \in StepChroms(r) : OneBreak(r.chroms[k], SegsOf(r, k))
      (* "within 5 bins of the true one": the bins reported left of the breakpoint vs. the bins generated
         left of the step (observe_at: cumulative `probes`) *)
      [] c = "step_localised" ->
            \A k \in StepChroms(r) : LET ch == r.chroms[k]  S == SegsOf(r, k) IN
                OneBreak(ch, S) => Abs(ProbesUpTo(S, TheBreak(ch, S)) - ch.nl) <= BinTol
      (* the same in coordinates: the left segment ends no earlier than bin nl-5 and no later than bin nl+5
         ends; the right segment starts between the starts of bins nl-4 and nl+6 *)
      [] c = "step_localised_coord" ->
            \A k \in StepChroms(r) : LET ch == r.chroms[k]  S == SegsOf(r, k) IN
                OneBreak(ch, S) =>
                    LET j == TheBreak(ch, S) IN
                    /\ ch.win[1][3] <= SE(S[j]) /\ SE(S[j]) <= ch.win[11][3]
                    /\ ch.win[2][2] <= SS(S[j+1]) /\ SS(S[j+1]) <= ch.win[12][2]
      (* "the two segments' means lie within 0.1 of the true levels" (every segment left of the breakpoint
         against the left level, every segment right of it against the right level) *)
      [] c = "step_means" ->
            \A k \in StepChroms(r) : LET ch == r.chroms[k]  S == SegsOf(r, k) IN
                OneBreak(ch, S) =>
                    LET j == TheBreak(ch, S) IN
                    \A q \in 1..Len(S) : Abs(SL(S[q]) - (IF q <= j THEN ch.ll ELSE ch.rl)) <= MeanTol
      (* "A profile of at least 100 bins with no change and the same noise yields exactly one segment per
         chromosome arm" *)
      [] c = "flat_one_segment_per_arm" ->
            \A k \in 1..Len(r.chroms) : LET ch == r.chroms[k]  S == SegsOf(r, k) IN
                IF ch.gap = 0 THEN Len(S) = 1
                ELSE Len(S) = 2 /\ IsArmBoundary(ch, S[1], S[2])

Drift(r) == FALSE            \* no A-layer: the detectors are not modelled

(* ================================================================ known findings ========= *)
(* A failing realisation inside the quantifier is a finding identified by (scenario id, seed); *)
(* the trigger pins exactly the pairs seen in calibration -- see PinnedCases.                  *)
PinnedCases == {}            \* set of <<sid, seed>>
KnownTriggers == {"PinnedStepCase"}
TriggerHolds(t, r) == t = "PinnedStepCase" /\ <<r.sid, r.seed>> \in PinnedCases

(* ================================================================ design check helpers ==== *)
(* canonical realisation of a scenario class (smallest sizes of the class, contiguous 1000-base bins,    *)
(* no noise) and its ideal outcome; used by MC_StepScenarios only                                        *)
CanonNL(s) == CASE s.szc \in {"min", "small", "any"} -> 100 [] s.szc = "asym" -> 100 [] s.szc = "large" -> 300
CanonNR(s) == CASE s.szc \in {"min", "small", "any"} -> 100 [] s.szc = "asym" -> 300 [] s.szc = "large" -> 300
CanonFlatN(s) == CASE s.szc \in {"min", "any"} -> 100 [] s.szc = "small" -> 101 [] s.szc = "asym" -> 201 [] s.szc = "large" -> 401
CanonSd(s) == CASE s.sdc \in {"sd10", "sdany"} -> 10 [] s.sdc = "sd30" -> 30 [] s.sdc = "sd100" -> 100
BinW == 1000
CanonGap(s, n, nl) ==       \* bins before the arm gap (0 if the class has none or no admissible place)
    IF s.sp # "cmere" THEN 0
    ELSE LET lo == ArmMargin(n) + 1  hi == n - ArmMargin(n) - 1
             ok == {g \in lo..hi : nl = 0 \/ g <= nl - 100 \/ g >= nl + 100} IN
         IF ok = {} THEN 0 ELSE CHOOSE g \in ok : \A h \in ok : g >= h
(* coordinates of bin k (1-based): contiguous bins, shifted by the gap after bin g *)
CStart(k, g) == (k - 1) * BinW + (IF g > 0 /\ k > g THEN MinGapSize ELSE 0)
CEnd(k, g) == CStart(k, g) + BinW
CanonChrom(s, k) ==
    LET nl == IF s.kind = "step" THEN CanonNL(s) ELSE 0
        n  == IF s.kind = "step" THEN CanonNL(s) + CanonNR(s) ELSE CanonFlatN(s)
        g  == CanonGap(s, n, nl)
        lv == IF s.kind = "step" THEN s.lv ELSE 0 IN
    [c |-> k, n |-> n, nl |-> nl,
     ll |-> IF s.dir = "L" THEN lv ELSE 0, rl |-> IF s.dir = "R" THEN lv ELSE 0,
     dev |-> 0, wmin |-> IF s.wc = "half" THEN 500 ELSE 1000, wmax |-> IF s.wc = "half" THEN 500 ELSE 1000,
     first |-> 0, last |-> CEnd(n, g), mingap |-> 0, maxgap |-> 0,
     gap |-> g, gapsz |-> IF g > 0 THEN MinGapSize ELSE 0,
     gl |-> IF g > 0 THEN <<CEnd(g, g), CStart(g + 1, g)>> ELSE <<0, 0>>,
     win |-> IF nl = 0 THEN <<>> ELSE [j \in 1..12 |-> <<nl - 6 + j, CStart(nl - 6 + j, g), CEnd(nl - 6 + j, g)>>]]
(* segments of one chromosome when the detector puts its breakpoint after bin b (b = 0: none) with the
   given means; arms are always separated *)
RECURSIVE Pieces(_, _, _, _, _)
Pieces(k, cuts, from, g, lev) ==    \* cuts: increasing sequence of last-bin indices of each segment
    IF cuts = <<>> THEN <<>>
    ELSE <<(<<k, CStart(from, g), CEnd(cuts[1], g), cuts[1] - from + 1, lev[1]>>)>>
         \o Pieces(k, Tail(cuts), cuts[1] + 1, g, Tail(lev))
SortedCuts(set) == LET RECURSIVE Srt(_)
                       Srt(S) == IF S = {} THEN <<>> ELSE LET m == CHOOSE x \in S : \A y \in S : x <= y IN <<m>> \o Srt(S \ {m})
                   IN Srt(set)
OutcomeChrom(ch, b, ml, mr) ==
    LET cutset == {ch.n} \cup (IF b > 0 THEN {b} ELSE {}) \cup (IF ch.gap > 0 THEN {ch.gap} ELSE {})
        cuts == SortedCuts(cutset)
        lev == [q \in 1..Len(cuts) |-> IF b > 0 /\ cuts[q] <= b THEN ml ELSE mr] IN
    Pieces(ch.c, cuts, 1, ch.gap, lev)
RECURSIVE ConcatAll(_, _)
ConcatAll(f, k) == IF k = 0 THEN <<>> ELSE ConcatAll(f, k - 1) \o f[k]
CanonRec(s) == [op |-> OpOf(s), scn |-> s, sid |-> Sid(s), seed |-> 0, sd |-> CanonSd(s),
                chroms |-> [k \in 1..s.nchrom |-> CanonChrom(s, k)], out |-> <<>>, err |-> ""]
(* outcome in which chromosome 1's breakpoint is displaced by `shift` bins, its means by dl / dr *)
Outcome(r, shift, dl, dr) ==
    [r EXCEPT !.out = ConcatAll([k \in 1..Len(r.chroms) |->
        LET ch == r.chroms[k]
            b == IF ch.nl = 0 THEN 0 ELSE ch.nl + (IF k = 1 THEN shift ELSE 0) IN
        OutcomeChrom(ch, b, ch.ll + (IF k = 1 THEN dl ELSE 0), ch.rl + (IF k = 1 THEN dr ELSE 0))], Len(r.chroms))]
Ideal(r) == Outcome(r, 0, 0, 0)
(* chromosome 1 reported as one segment per arm (step missed) / with one extra cut in the middle of its
   first arm (spurious breakpoint) *)
Missed(r) == [r EXCEPT !.out = ConcatAll([k \in 1..Len(r.chroms) |->
                 LET ch == r.chroms[k] IN
                 OutcomeChrom(ch, IF k = 1 THEN 0 ELSE ch.nl, ch.ll, IF k = 1 /\ ch.nl > 0 THEN ch.ll ELSE ch.rl)],
                 Len(r.chroms))]
Spurious(r) == [r EXCEPT !.out = ConcatAll([k \in 1..Len(r.chroms) |->
                 LET ch == r.chroms[k] IN
                 IF k > 1 THEN OutcomeChrom(ch, ch.nl, ch.ll, ch.rl)
                 ELSE LET cutset == {ch.n, 50} \cup (IF ch.nl > 0 THEN {ch.nl} ELSE {})
                                    \cup (IF ch.gap > 0 THEN {ch.gap} ELSE {})
                          cuts == SortedCuts(cutset)
                          lev == [q \in 1..Len(cuts) |-> IF ch.nl > 0 /\ cuts[q] <= ch.nl THEN ch.ll ELSE ch.rl] IN
                      Pieces(k, cuts, 1, ch.gap, lev)], Len(r.chroms))]
Failed(r) == {c \in Clauses(r.op) : ~Holds(c, r)}
=============================================================================
