--------------------------- MODULE Stats ---------------------------
(* Robust statistics over sequences of fixed-point values (Num.tla: Fx = signed limb integer read as        *)
(* value * 10^12).  A pure library: definitions "from the cited formulas", written independently of the       *)
(* cnvkit code (DESIGN.md section 8, C19 table).  No state, no clauses -- the content modules of C19, C17,    *)
(* C05, C15 build their P-/A-layers on top of it.                                                             *)
(*                                                                                                            *)
(* Conventions: `a` is a non-empty sequence of Fx, `w` an equally long sequence of non-negative Fx (or any Z)  *)
(* weights.  Everything is exact integer arithmetic; a division or square root truncates at 10^-12, so        *)
(* callers compare with FxClose / FxCloseAbs and a stated tolerance (exact on dyadic grids where the result   *)
(* needs no division).  Operator names are prefixed where a clash with Intervals/Ranges/Calling is likely.    *)
EXTENDS Num, FiniteSets

(* ------------------------------------------------------------------------------------------ faster division, sqrt *)
(* Num.MagDiv finds each quotient limb by a 14-step binary search over 0..9999, Num.MagSqrt starts Newton's       *)
(* iteration from a power of the base: 10 ms and 200 ms for 13-limb operands in TLC.  Same results, cheaper:       *)
(* Knuth's normalisation (scale both operands so that the divisor's top limb is >= B/2; then two leading limbs of   *)
(* the running remainder bracket the quotient limb to within 2), and a first guess from the leading limbs.          *)
RECURSIVE NDivStep(_, _, _, _, _)
NDivStep(x, y, i, q, r) ==      \* y normalised: y[Len(y)] >= B \div 2
  IF i = 0 THEN Trim(q)
  ELSE LET r1 == Trim(<<x[i]>> \o r)
           ly == Len(y)
           ytop == y[ly]
           rtop == IF Len(r1) = ly + 1 THEN r1[ly + 1] * B + r1[ly] ELSE IF Len(r1) = ly THEN r1[ly] ELSE 0
           dlo == rtop \div (ytop + 1)
           dhi0 == rtop \div ytop
           dhi == IF dhi0 > B - 1 THEN B - 1 ELSE dhi0
           d  == QDigit(r1, y, dlo, dhi)
           r2 == MagSub(r1, Trim(MagMulLimb(y, d)))
       IN NDivStep(x, y, i - 1, <<d>> \o q, r2)
MagDivFast(x, y) ==             \* floor(x / y), y # <<>>
    LET f == B \div (y[Len(y)] + 1) IN
    IF f <= 1 THEN NDivStep(x, y, Len(x), <<>>, <<>>)
    ELSE LET xs == MagMulLimb(x, f) IN NDivStep(xs, MagMulLimb(y, f), Len(xs), <<>>, <<>>)
RECURSIVE ISqrtIter(_, _)
ISqrtIter(t, g) == LET g2 == (g + t \div g) \div 2 IN IF g2 >= g THEN g ELSE ISqrtIter(t, g2)
ISqrt(t) == IF t = 0 THEN 0 ELSE ISqrtIter(t, IF t > 46340 THEN 46340 ELSE t)      \* floor(sqrt t), 0 <= t < 2^31
RECURSIVE MagSqrtIterFast(_, _)
MagSqrtIterFast(x, g) ==        \* g >= floor(sqrt x); Newton from above, stops when the iterate no longer decreases
    LET g2 == MagDivFast(MagAdd(g, MagDivFast(x, g)), <<2>>) IN
    IF MagCmp(g2, g) >= 0 THEN g ELSE MagSqrtIterFast(x, g2)
MagSqrtFast(x) ==               \* floor(sqrt x)
    LET L == Len(x) IN
    IF L = 0 THEN <<>>
    ELSE IF L = 1 THEN MagFromNat(ISqrt(x[1]))
    ELSE IF L = 2 THEN MagFromNat(ISqrt(x[2] * B + x[1]))
    ELSE LET k == IF L % 2 = 0 THEN 2 ELSE 3              \* leading limbs used; L - k is even
             t == IF k = 2 THEN x[L] * B + x[L - 1]       \* < 10^8
                  ELSE x[L] * 100000 + x[L - 1] * 10 + x[L - 2] \div 1000     \* top three limbs / 1000, < 10^9
             \* sqrt(x) < (isqrt(t) + 1) * B^((L-k)/2) * (1 or sqrt(1000) < 32)
             g0 == IF k = 2 THEN ShiftL(MagFromNat(ISqrt(t) + 1), (L - 2) \div 2)
                   ELSE ShiftL(MagFromNat((ISqrt(t) + 1) * 32), (L - 3) \div 2)
         IN MagSqrtIterFast(x, g0)
FxDivFast(a, b) == Z(a.n # b.n, MagDivFast(ShiftL(a.m, FL), b.m))
FxSqrtFast(a) == Z(FALSE, MagSqrtFast(ShiftL(a.m, FL)))     \* a >= 0
ZDivTFast(a, b) == Z(a.n # b.n, MagDivFast(a.m, b.m))

(* ------------------------------------------------------------------------------------------ helpers *)
(* TLC evaluates a function constructor [i \in S |-> e] lazily -- element by element and again at every           *)
(* application; Force turns it into a stored tuple (each element evaluated once).  Same value.                      *)
Force(s) == s \o <<>>
FxSortAsc(s) == SortSeq(s, ZLt)                 \* TLC's native insertion sort; equal Fx values are identical
FxNeg(a) == ZNeg(a)
FxAbs(a) == ZAbs(a)
FxScaleInt(a, k) == ZMulInt(a, k)               \* exact
FxDivInt(a, k) == ZDivT(a, ZFromInt(k))         \* truncated
FxMid(a, b) == ZDivTFast(ZAdd(a, b), ZFromInt(2))
(* the grid value k/unit; exact when unit divides 10^12 * k.  The usual units get a pre-computed step so that a   *)
(* conversion is one small multiplication instead of a long division (0.6 ms each in TLC)                        *)
FxStep1024 == FxFromRat(1, 1024)
FxStep64 == FxFromRat(1, 64)
FxStep4 == FxFromRat(1, 4)
FxGrid(k, unit) == IF unit = 1 THEN FxFromInt(k)
                   ELSE IF unit = 1024 THEN ZMul(ZFromInt(k), FxStep1024)
                   ELSE IF unit = 64 THEN ZMul(ZFromInt(k), FxStep64)
                   ELSE IF unit = 4 THEN ZMul(ZFromInt(k), FxStep4)
                   ELSE FxFromRat(k, unit)
FxSeqOfGrid(ks, unit) == [i \in 1..Len(ks) |-> FxGrid(ks[i], unit)]
FxAllEqual(s) == \A i \in 1..Len(s) : s[i] = s[1]
FxWithin(x, s) ==                                \* min(s) <= x <= max(s), by order comparisons only
    /\ \E i \in 1..Len(s) : ZLe(s[i], x)
    /\ \E i \in 1..Len(s) : ZLe(x, s[i])
(* Fx constants beyond 2^31, written as limbs (little endian, base 10^4) of value * 10^12 *)
K14826 == Z(FALSE, <<0, 0, 4826, 1>>)           \* 1.4826   (MAD -> sd for normal data)
K1392  == Z(FALSE, <<0, 0, 3920, 1>>)           \* 1.392    (Qn finite-sample factor, n <= 10)
SqrtPiLo == Z(FALSE, <<905, 5385, 7724, 1>>)    \* 1.772453850905 < sqrt(pi) = 1.7724538509055160...
SqrtPiHi == Z(FALSE, <<906, 5385, 7724, 1>>)    \* 1.772453850906 > sqrt(pi)
(* an Fx value as the [neg, hi, lo] triple of Num.FxObs (|x| < 2147), for modules that compute expected outputs *)
FxToObs(a) ==
    LET L(i) == IF i <= Len(a.m) THEN a.m[i] ELSE 0
    IN [neg |-> a.n, lo |-> L(1) + (L(2) % 100) * 10000,
        hi |-> (L(2) \div 100) + L(3) * 100 + L(4) * 1000000]

(* ------------------------------------------------------------------------------------------ order statistics *)
MedianOfSorted(t) == LET n == Len(t) IN
    IF n % 2 = 1 THEN t[(n + 1) \div 2] ELSE FxMid(t[n \div 2], t[n \div 2 + 1])
Median(s) == MedianOfSorted(FxSortAsc(s))
AbsDevs(s, m) == Force([i \in 1..Len(s) |-> ZAbs(ZSub(s[i], m))])
(* median absolute deviation about a given centre / about the median; scaled = multiplied by 1.4826 *)
MadAbout(s, m) == Median(AbsDevs(s, m))
MadRaw(s) == MadAbout(s, Median(s))
Mad(s, scaled) == IF scaled THEN FxMul(MadRaw(s), K14826) ELSE MadRaw(s)

(* numpy.percentile(method="linear") at p = pn/pd percent: position (n-1)*p/100 in the sorted values,        *)
(* linear interpolation between the two neighbours.  (n-1)*pn must stay below 2^31.                          *)
PercentileOfSorted(t, pn, pd) ==
    LET n == Len(t)
        num == (n - 1) * pn
        den == 100 * pd
        lo == num \div den
        rem == num % den
    IN IF rem = 0 THEN t[lo + 1]
       ELSE ZAdd(t[lo + 1], ZDivT(ZMulInt(ZSub(t[lo + 2], t[lo + 1]), rem), ZFromInt(den)))
Percentile(s, pn, pd) == PercentileOfSorted(FxSortAsc(s), pn, pd)
Iqr(s) == LET t == FxSortAsc(s) IN ZSub(PercentileOfSorted(t, 75, 1), PercentileOfSorted(t, 25, 1))

(* ------------------------------------------------------------------------------------------ weighted median *)
TotalWeight(w) == ZSum(w)
WeightBelow(m, a, w) == ZSum([i \in 1..Len(a) |-> IF ZLt(a[i], m) THEN w[i] ELSE ZZero])
WeightAbove(m, a, w) == ZSum([i \in 1..Len(a) |-> IF ZLt(m, a[i]) THEN w[i] ELSE ZZero])
(* the half-weight characterisation: no more than half of the total weight lies strictly on either side of m *)
IsWeightedMedian(m, a, w) ==
    LET W == TotalWeight(w) IN
    /\ ZLe(ZMulInt(WeightBelow(m, a, w), 2), W)
    /\ ZLe(ZMulInt(WeightAbove(m, a, w), 2), W)

(* (value, weight) pairs sorted by value *)
PairLt(p, q) == ZLt(p[1], q[1])
SortedPairs(a, w) == SortSeq([i \in 1..Len(a) |-> <<a[i], w[i]>>], PairLt)
SupportPairs(a, w) == SelectSeq(SortedPairs(a, w), LAMBDA p : ~ZIsZero(p[2]))
(* running sums (iterative: FoldLeft, no recursion depth) *)
PrefixSums(ws) ==
    FoldLeft(LAMBDA acc, x : LET nx == ZAdd(acc[1], x) IN <<nx, Append(acc[2], nx)>>, <<ZZero, <<>>>>, ws)[2]
(* first k with 2 * cum[k] >= W (strict = FALSE) or > W (strict = TRUE) in a non-decreasing cum; Len(cum) + 1 if none *)
FirstReach(cum, W, k0, strict) ==
    LET reached(k) == LET c2 == ZMulInt(cum[k], 2) IN IF strict THEN ZLt(W, c2) ELSE ZLe(W, c2)
    IN k0 + Cardinality({k \in k0..Len(cum) : ~reached(k)})
(* the closed interval [lo, hi] of all m satisfying the characterisation (total weight > 0 required):         *)
(* lo = first support value whose cumulative weight reaches half, hi = last support value before which no     *)
(* more than half has accumulated.  lo = hi unless the half-weight point falls exactly between two values.    *)
WMedianBounds(a, w) ==
    LET ps == SupportPairs(a, w)
        n == Len(ps)
        cum == PrefixSums([i \in 1..n |-> ps[i][2]])
        W == cum[n]
        klo == FirstReach(cum, W, 1, FALSE)
        \* largest k with 2*cum[k-1] <= W  ==  one before the first k with 2*cum[k] > W, plus one
        khi == FirstReach(cum, W, 1, TRUE)
    IN <<ps[klo][1], ps[khi][1]>>
(* constructive version: the value at the half-weight point; the midpoint of the two middle (positive-weight) *)
(* values when the half-weight point falls exactly between them                                               *)
WeightedMedian(a, w) == LET b == WMedianBounds(a, w) IN IF b[1] = b[2] THEN b[1] ELSE FxMid(b[1], b[2])
(* the values that count as "the" weighted median: the value at the half-weight point; when that point falls     *)
(* exactly between two values, their midpoint -- unless zero-weight data lie on or between the two, where "the two *)
(* middle values" is ambiguous (is a weightless value a middle value?): then every data value in [lo, hi], the      *)
(* midpoints of neighbours, and (lo+hi)/2.  All of them satisfy IsWeightedMedian.                                   *)
WMedianCandidates(a, w) ==
    LET b == WMedianBounds(a, w) IN
    IF b[1] = b[2] THEN {b[1]}
    ELSE IF \A i \in 1..Len(a) : ~(ZIsZero(w[i]) /\ ZLe(b[1], a[i]) /\ ZLe(a[i], b[2])) THEN {FxMid(b[1], b[2])}
    ELSE LET inside == FxSortAsc(SelectSeq(a, LAMBDA x : ZLe(b[1], x) /\ ZLe(x, b[2])))
         IN {inside[k] : k \in 1..Len(inside)}
            \cup {FxMid(inside[k], inside[k + 1]) : k \in 1..Len(inside) - 1}
            \cup {FxMid(b[1], b[2])}
(* weighted MAD: weighted median of the absolute deviations from the weighted median (same weights) *)
WeightedMadRaw(a, w) == WeightedMedian(AbsDevs(a, WeightedMedian(a, w)), w)
WeightedMad(a, w, scaled) == IF scaled THEN FxMul(WeightedMadRaw(a, w), K14826) ELSE WeightedMadRaw(a, w)
(* all raw weighted MADs obtainable from admissible weighted medians at both levels *)
WeightedMadRawCandidates(a, w) ==
    UNION {WMedianCandidates(AbsDevs(a, m1), w) : m1 \in WMedianCandidates(a, w)}

(* ------------------------------------------------------------------------------------------ moments *)
(* raw integer sums; X = x * 10^12, W = w * 10^12 *)
SumW(w) == ZSum(w)
SumWX(a, w) == ZSum([i \in 1..Len(a) |-> ZMul(w[i], a[i])])
SumWXX(a, w) == ZSum([i \in 1..Len(a) |-> ZMul(w[i], ZMul(a[i], a[i]))])
(* weighted standard deviation sqrt(sum w (x - mu_w)^2 / sum w), mu_w = sum w x / sum w                       *)
(*   = sqrt(SW * SWXX - SWX^2) / SW  with one integer square root and one division (total weight > 0)         *)
WeightedStd(a, w) ==
    LET sw == SumW(w)
        rad == ZSub(ZMul(sw, SumWXX(a, w)), ZMul(SumWX(a, w), SumWX(a, w)))
    IN Z(FALSE, MagDivFast(MagSqrtFast(rad.m), sw.m))
WeightedMean(a, w) == ZDivTFast(SumWX(a, w), SumW(w))
Ones(n) == [i \in 1..n |-> FxOne]
Mean(a) == ZDivT(ZSum(a), ZFromInt(Len(a)))
(* population standard deviation (ddof = 0) *)
StdPop(a) == WeightedStd(a, Ones(Len(a)))
(* mean squared error about a given reference point c:  sum (x - c)^2 / n *)
MseAbout(a, c) == LET n == Len(a)
                      ss == ZSum([i \in 1..n |-> LET d == ZSub(a[i], c) IN ZMul(d, d)])
                  IN Z(FALSE, MagDivFast(ShiftR(ss.m, FL), MagFromNat(n)))
MseFromZero(a) == MseAbout(a, ZZero)            \* "the input is the residuals, so MSE is calculated from zero"
(* mean squared deviation from the arithmetic mean (= population variance): (n sum x^2 - (sum x)^2) / n^2 *)
MseFromMean(a) == LET n == Len(a)
                      sx == ZSum(a)
                      sxx == ZSum([i \in 1..n |-> ZMul(a[i], a[i])])
                      num == ZSub(ZMulInt(sxx, n), ZMul(sx, sx))
                  IN Z(FALSE, MagDivFast(ShiftR(num.m, FL), MagFromNat(n * n)))

(* ------------------------------------------------------------------------------------------ gapper, Qn *)
(* Wainer & Thissen gapper:  sqrt(pi) / (n (n-1)) * sum_{i=1}^{n-1} i (n-i) (x_(i+1) - x_(i)),   n >= 2       *)
GapperSum(t) == LET n == Len(t) IN ZSum([i \in 1..n - 1 |-> ZMulInt(ZSub(t[i + 1], t[i]), i * (n - i))])
GapperWith(s, sqrtpi) == LET n == Len(s) IN ZDivTFast(FxMul(GapperSum(FxSortAsc(s)), sqrtpi), ZFromInt(n * (n - 1)))
GapperLo(s) == GapperWith(s, SqrtPiLo)
GapperHi(s) == GapperWith(s, SqrtPiHi)
(* Qn as cnvkit's docstring defines it: first quartile (linear interpolation) of {|x_i - x_j| : i < j},       *)
(* divided by the documented finite-sample factor 1.392 (n <= 10), 1 + 4/n (10 < n < 400), 1 (otherwise)      *)
PairDiffs(s) == FlattenSeq([i \in 1..Len(s) - 1 |-> [j \in 1..Len(s) - i |-> ZAbs(ZSub(s[i], s[i + j]))]])
QnQuartile(s) == PercentileOfSorted(FxSortAsc(PairDiffs(s)), 25, 1)
Qn(s) == LET n == Len(s)
             q == QnQuartile(s)
         IN IF n <= 10 THEN FxDivFast(q, K1392)
            ELSE IF n < 400 THEN ZDivTFast(ZMulInt(q, n), ZFromInt(n + 4))
            ELSE q

(* ------------------------------------------------------------------------------------------ biweights *)
(* Mosteller-Tukey / Beers et al. 1990 / astropy:                                                              *)
(*   location:    M + sum_{|u|<1} d (1-u^2)^2 / sum_{|u|<1} (1-u^2)^2,    d = x - M,  u = d / max(c*MAD, eps)  *)
(*   midvariance: sqrt(n sum_{|u|<1} d^2 (1-u^2)^4) / |sum_{|u|<1} (1-u^2)(1-5u^2)|                            *)
(* with MAD = median|d| about the current centre M.  Computed with t = D^2 - d^2 (so (1-u^2) = t / D^2 and the *)
(* powers of D cancel in the ratios: one division per evaluation), and with d, D rescaled by one limb (10^4)  *)
(* when D < 1 so that the products keep their significant digits (DESIGN section 4 item 4).                   *)
BwEps == FxFromRat(1, 1000)
BwUp(x) == Z(x.n, ShiftL(x.m, 1))               \* * 10^4
BwDown(x) == Z(x.n, ShiftR(x.m, 1))             \* / 10^4, truncated
BwRadius(a, M, c) == FxMax(ZMulInt(MadAbout(a, M), c), BwEps)
(* one application of the location formula at centre M *)
BilocStep(a, M, c) ==
    LET n == Len(a)
        d == Force([i \in 1..n |-> ZSub(a[i], M)])
        D == BwRadius(a, M, c)
        small == ZLt(D, FxOne)
        Sc(x) == IF small THEN BwUp(x) ELSE x
        D2 == FxMul(Sc(D), Sc(D))
        t == Force([i \in 1..n |-> IF ZLt(ZAbs(d[i]), D) THEN ZSub(D2, FxMul(Sc(d[i]), Sc(d[i]))) ELSE ZZero])
        t2 == Force([i \in 1..n |-> FxMul(t[i], t[i])])
        ws == ZSum(t2)
        num == ZSum([i \in 1..n |-> FxMul(d[i], t2[i])])
    IN IF ZIsZero(ws) THEN M ELSE ZAdd(M, FxDivFast(num, ws))
(* the iterates M_0 = start, M_k = BilocStep(M_{k-1}), k = 1, 2, ...: computed up to the first round whose step   *)
(* is certainly <= eps (by more than `slack`), at most `rounds` of them -- later ones are never needed            *)
RECURSIVE BilocIteratesFrom(_, _, _, _, _, _)
BilocIteratesFrom(a, c, k, eps, slack, acc) ==
    IF k = 0 THEN acc
    ELSE LET cur == acc[Len(acc)]
             nx == BilocStep(a, cur, c)
         IN IF ZLe(ZAbs(ZSub(nx, cur)), ZSub(eps, slack)) THEN Append(acc, nx)
            ELSE BilocIteratesFrom(a, c, k - 1, eps, slack, Append(acc, nx))
BilocIterates(a, start, c, rounds, eps, slack) == BilocIteratesFrom(a, c, rounds, eps, slack, <<start>>)
(* The documented iteration: re-apply at most `rounds` times, stop after the first round whose step is <= eps.*)
(* its[k+1] = M_k.  BilocStopRound = J;  BilocAcceptedRounds = {J} plus the neighbouring rounds when a step     *)
(* lies within `slack` of the stopping radius (the only place where a float/rational difference could change   *)
(* a discrete decision).                                                                                       *)
BilocStepSize(its, k) == ZAbs(ZSub(its[k + 1], its[k]))
RECURSIVE BilocStopFrom(_, _, _, _)
BilocStopFrom(its, k, rounds, eps) ==
    IF k >= rounds \/ ZLe(BilocStepSize(its, k), eps) THEN k ELSE BilocStopFrom(its, k + 1, rounds, eps)
BilocStopRound(its, eps) == BilocStopFrom(its, 1, Len(its) - 1, eps)
BilocAcceptedRounds(its, eps, slack) ==
    LET rounds == Len(its) - 1
        surelyOn(k) == ZLt(ZAdd(eps, slack), BilocStepSize(its, k))      \* the iteration certainly continues after round k
        maybeStop(k) == k = rounds \/ ~surelyOn(k)
        surelyStop(k) == k = rounds \/ ZLe(BilocStepSize(its, k), ZSub(eps, slack))
    IN {k \in 1..rounds : maybeStop(k) /\ \A j \in 1..k - 1 : ~surelyStop(j)}
BiweightLocation(a) ==       \* c = 6, <= 5 rounds, eps = 10^-3, started at the median
    LET its == BilocIterates(a, Median(a), 6, 5, BwEps, ZZero) IN its[Len(its)]

(* midvariance at centre M.  Returns <<defined, value, sumd>>: `sumd` = sum of d over the points with |u| < 1   *)
(* (zero on data exactly symmetric about M).  n = number of points with |u| < 1 (astropy's                      *)
(* modify_sample_size=True variant, which is the one cnvkit implements).                                        *)
BivarAt(a, M, c) ==
    LET n == Len(a)
        d == Force([i \in 1..n |-> ZSub(a[i], M)])
        D == BwRadius(a, M, c)
        small == ZLt(D, FxOne)
        Sc(x) == IF small THEN BwUp(x) ELSE x
        D2 == FxMul(Sc(D), Sc(D))
        inside(i) == ZLt(ZAbs(d[i]), D)
        dd == Force([i \in 1..n |-> FxMul(Sc(d[i]), Sc(d[i]))])
        t == Force([i \in 1..n |-> ZSub(D2, dd[i])])
        s == Force([i \in 1..n |-> ZSub(D2, ZMulInt(dd[i], 5))])
        t4 == Force([i \in 1..n |-> LET t2 == FxMul(t[i], t[i]) IN FxMul(t2, t2)])
        cnt == Cardinality({i \in 1..n : inside(i)})
        num == ZMulInt(ZSum([i \in 1..n |-> IF inside(i) THEN FxMul(dd[i], t4[i]) ELSE ZZero]), cnt)
        den == ZAbs(ZSum([i \in 1..n |-> IF inside(i) THEN FxMul(t[i], s[i]) ELSE ZZero]))
        sumd == ZSum([i \in 1..n |-> IF inside(i) THEN d[i] ELSE ZZero])
        ratio == FxDivFast(FxSqrtFast(num), den)
    IN IF ZIsZero(den) THEN <<FALSE, ZZero, sumd>>
       ELSE <<TRUE, IF small THEN BwDown(ratio) ELSE ratio, sumd>>
BivarFallback(a, M) == FxMul(MadAbout(a, M), K14826)

(* ------------------------------------------------------------------------------------------ Gaussian KDE, mode *)
(* exp(-z) for a fixed-point z >= 0: 0 beyond z = 32 (< 1.3 * 10^-14); else y = z / 2^8 <= 1/8, the Taylor           *)
(* polynomial of degree 8 in Horner form (remainder y^9/9! < 4 * 10^-14) and eight squarings.  Every product           *)
(* truncates at 10^-12, so the absolute error of the result is below 10^-8 (256 * 3 * 10^-11).                          *)
FxInv(k) == FxFromRat(1, k)
FxInv2 == FxInv(2)  FxInv3 == FxInv(3)  FxInv4 == FxInv(4)  FxInv5 == FxInv(5)
FxInv6 == FxInv(6)  FxInv7 == FxInv(7)  FxInv8 == FxInv(8)  FxInv256 == FxInv(256)
FxInvOf(k) == CASE k = 1 -> FxOne [] k = 2 -> FxInv2 [] k = 3 -> FxInv3 [] k = 4 -> FxInv4 [] k = 5 -> FxInv5
                [] k = 6 -> FxInv6 [] k = 7 -> FxInv7 [] k = 8 -> FxInv8
RECURSIVE ExpHorner(_, _, _)
ExpHorner(y, k, t) == IF k = 0 THEN t ELSE ExpHorner(y, k - 1, ZSub(FxOne, FxMul(FxMul(y, t), FxInvOf(k))))
RECURSIVE FxSquareTimes(_, _)
FxSquareTimes(x, k) == IF k = 0 THEN x ELSE FxSquareTimes(FxMul(x, x), k - 1)
FxExpNeg(z) == IF ZLe(FxFromInt(32), z) THEN ZZero
               ELSE FxSquareTimes(ExpHorner(FxMul(z, FxInv256), 8, FxOne), 8)
(* floor of the fifth root of a magnitude: integer Newton iteration from above (g >= root), g' = (4g + x/g^4) / 5 *)
RECURSIVE MagRoot5Iter(_, _)
MagRoot5Iter(x, g) ==
    LET g2 == MagMul(g, g)
        nx == MagDivFast(MagAdd(MagMulLimb(g, 4), MagDivFast(x, MagMul(g2, g2))), <<5>>)
    IN IF MagCmp(nx, g) >= 0 THEN g ELSE MagRoot5Iter(x, nx)
RECURSIVE LeastFifthPowerAtLeast(_, _)
LeastFifthPowerAtLeast(t, k) == IF k * k * k * k * k >= t THEN k ELSE LeastFifthPowerAtLeast(t, k + 1)
(* n^(2/5) in fixed point (truncated): fifth root of n^2 * 10^60, started at the least integer k with k^5 >= n^2; n <= 1000 *)
FxPow25(n) == Z(FALSE, MagRoot5Iter(ShiftL(MagFromNat(n * n), 5 * FL), ShiftL(MagFromNat(LeastFifthPowerAtLeast(n * n, 1)), FL)))
(* distinct values of a sorted sequence with their multiplicities: <<value, count>> *)
Multiplicities(t) ==
    LET n == Len(t)
        firsts == SelectSeq(Force([i \in 1..n |-> i]), LAMBDA i : i = 1 \/ t[i] # t[i - 1])
    IN Force([k \in 1..Len(firsts) |->
                <<t[firsts[k]], (IF k = Len(firsts) THEN n + 1 ELSE firsts[k + 1]) - firsts[k]>>])
(* scipy.stats.gaussian_kde (Scott's rule): Gaussian kernels of variance h^2 = s^2 * n^(-2/5), s^2 the sample           *)
(* variance (ddof = 1), one kernel per observation -- so a value observed k times carries k kernels.  The density at   *)
(* a data point y_i is, up to the common factor 1/(n h sqrt(2 pi)),                                                     *)
(*      S_i = sum_j mult_j * exp(-(y_i - y_j)^2 * n^(2/5) / (2 s^2)).                                                   *)
(* KdeScores(a) = <<ys, S>> over the distinct values ys (ascending); a must not be constant.  Each S_i is within         *)
(* Len(a) * 2 * 10^-8 of its true value (FxExpNeg; the factor q below carries 16 decimals).                             *)
KdeScores(a) ==
    LET n == Len(a)
        ym == Multiplicities(FxSortAsc(a))
        m == Len(ym)
        sx == ZSum(a)
        sxx == ZSum(Force([i \in 1..n |-> ZMul(a[i], a[i])]))
        R == ZSub(ZMulInt(sxx, n), ZMul(sx, sx))                   \* n(n-1) s^2 * 10^24
        \* q = n^(2/5) / (2 s^2) * 10^16 = c * n(n-1) * 10^(12+16) / (2 R)
        q == MagDivFast(ShiftL(MagMul(FxPow25(n).m, MagFromNat(n * (n - 1))), 2 * FL + 1), MagMulLimb(R.m, 2))
        z(i, j) == LET d == ZSub(ym[i][1], ym[j][1]) IN Z(FALSE, ShiftR(MagMul(MagMul(d.m, d.m), q), 2 * FL + 1))
        \* the kernel matrix is symmetric: evaluate exp once per unordered pair
        K == Force([i \in 1..m |-> Force([j \in 1..i |-> IF j = i THEN FxOne ELSE FxExpNeg(z(i, j))])])
        Kij(i, j) == IF j <= i THEN K[i][j] ELSE K[j][i]
    IN <<Force([i \in 1..m |-> ym[i][1]]),
         Force([i \in 1..m |-> ZSum(Force([j \in 1..m |-> ZMulInt(Kij(i, j), ym[j][2])]))])>>
(* the KDE mode among the data points: the first (smallest) distinct value of maximal score *)
KdeMode(a) == LET ks == KdeScores(a)
                  best == CHOOSE i \in 1..Len(ks[1]) : (\A j \in 1..Len(ks[1]) : ZLe(ks[2][j], ks[2][i]))
                                                        /\ (\A k \in 1..i - 1 : ZLt(ks[2][k], ks[2][i]))
              IN ks[1][best]
(* o is a data value whose score is not below any other's by more than tol *)
IsKdeMode(o, a, tol) ==
    LET ks == KdeScores(a) IN
    \E i \in 1..Len(ks[1]) : ZCmp(ks[1][i], o) = 0 /\ \A j \in 1..Len(ks[1]) : ZLe(ks[2][j], ZAdd(ks[2][i], tol))

(* ------------------------------------------------------------------------------------------ smoothing windows *)
(* plain integers: signal values are grid multiples *)
CeilDiv(x, y) == (x + y - 1) \div y              \* x >= 0, y > 0
IntMin(x, y) == IF x < y THEN x ELSE y
IntMax(x, y) == IF x < y THEN y ELSE x
(* half-window ("wing") from a width that is either a fraction wn/wd in (0,1) of the signal length or an       *)
(* integer wn >= 2 (wd = 1):  fraction -> ceil(n * width / 2);  integer -> min(width, n-1) div 2;              *)
(* then at least minwing, at most n-1.  Result -1: the width is neither;  -2: the wing would be < 1.            *)
Width2Wing(n, wn, wd, minwing) ==
    LET isfrac == wd > 0 /\ 0 < wn /\ wn < wd
        isint == wd = 1 /\ wn >= 2
        raw == IF isfrac THEN CeilDiv(n * wn, 2 * wd) ELSE IntMin(wn, n - 1) \div 2
        wing == IntMin(IntMax(raw, minwing), n - 1)
    IN IF ~(isfrac \/ isint) THEN -1 ELSE IF wing < 1 THEN -2 ELSE wing
(* mirror padding: the first `wing` values reversed, the signal, the last `wing` values reversed (1 <= wing <= n) *)
MirrorPad(x, wing) == LET n == Len(x) IN
    [i \in 1..wing |-> x[wing + 1 - i]] \o x \o [i \in 1..wing |-> x[n + 1 - i]]
(* m is the median of the odd-length integer window win: a member with at most half of the others on either side *)
IsMedianOfOdd(m, win) ==
    LET h == Len(win) \div 2 IN
    /\ \E k \in 1..Len(win) : win[k] = m
    /\ Cardinality({k \in 1..Len(win) : win[k] < m}) <= h
    /\ Cardinality({k \in 1..Len(win) : win[k] > m}) <= h
(* rolling median with mirrored edges: out[i] = median(padded[i .. i + 2 wing]) *)
RollingMedian(x, wing) ==
    LET p == MirrorPad(x, wing) IN
    [i \in 1..Len(x) |-> LET t == SortSeq(SubSeq(p, i, i + 2 * wing), LAMBDA u, v : u < v) IN t[wing + 1]]
IsRollingMedian(out, x, wing) ==
    LET p == MirrorPad(x, wing) IN
    /\ Len(out) = Len(x)
    /\ \A i \in 1..Len(x) : IsMedianOfOdd(out[i], SubSeq(p, i, i + 2 * wing))

(* ------------------------------------------------------------------------------------------ Benjamini-Hochberg *)
(* p-values as exact rationals <<num, den>> (plain integers, den > 0).  Adjusted value of p_i:                  *)
(*   q_i = min(1, min_{j : p_j >= p_i} n p_j / R_j),   R_j = #{k : p_k <= p_j}                                 *)
(* (= min over ranks >= rank(i) of n p_(j) / j; a tie group is decided by its largest rank, so no tie order).   *)
(* Results are rationals <<Z num, Z den>>, compared by cross-multiplication.                                    *)
RatLeInt(p, q) == ZLe(ZMul(ZFromInt(p[1]), ZFromInt(q[2])), ZMul(ZFromInt(q[1]), ZFromInt(p[2])))
ZRatLe(p, q) == ZLe(ZMul(p[1], q[2]), ZMul(q[1], p[2]))         \* positive denominators
ZRatEq(p, q) == ZMul(p[1], q[2]) = ZMul(q[1], p[2])
ZRatMin(p, q) == IF ZRatLe(p, q) THEN p ELSE q
ZRatMinOver(terms, k, acc) == FoldLeft(ZRatMin, acc, SubSeq(terms, k, Len(terms)))
(* Every intermediate vector is stored (Force): TLC evaluates a function constructor lazily, element by element    *)
(* and again at every application, which made the unforced version cubic (200 p-values did not finish).            *)
BHAdjust(ps0) ==
    LET ps == Force(ps0)
        n == Len(ps)
        R == Force([j \in 1..n |-> Cardinality({k \in 1..n : RatLeInt(ps[k], ps[j])})])
        term == Force([j \in 1..n |-> <<ZFromInt(n * ps[j][1]), ZFromInt(ps[j][2] * R[j])>>])
    IN Force([i \in 1..n |->
                 LET js == SelectSeq(Force([j \in 1..n |-> j]), LAMBDA j : RatLeInt(ps[i], ps[j]))
                 IN FoldLeft(ZRatMin, <<ZOne, ZOne>>, Force([k \in 1..Len(js) |-> term[js[k]]]))])
=============================================================================
