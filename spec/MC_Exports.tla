--------------------------- MODULE MC_Exports ---------------------------
(* Design check + enumerator for C20.  Every input record of the configured small scope is an *)
(* initial state; one step evaluates the A-layer (the code's algorithm as modelled) on it and  *)
(* judges the result with every P-layer clause.  The `call` states of the dump are replayed    *)
(* into the real cnvlib code (direction 1).                                                    *)
(*                                                                                            *)
(* Scope constants (chosen per run by harness/props/c20.py, which shards the full product):   *)
EXTENDS Exports
CONSTANTS MOps,        \* subset of {"bed_all","bed_ploidy","bed_variant","vcf","seg","seg_enum","jtv","cdt","nexus"}
          Kinds,       \* chromosome kinds of rows: subset of {"auto","X","Y"}
          HasCn,       \* TRUE: tables with a cn column (values CnVals); FALSE: none, log2 from the ratio grid
          CnVals,      \* copy numbers of the cn column
          QGrid,       \* "small" | "full": the ratio grid for tables without cn column
          Positions,   \* symbolic coordinates, see PosCoord
          MaxRows,     \* rows per segment table (bed/vcf)
          Ploidies, Females, Hapxs, Pfxs, Genomes,
          MaxSamples,  \* seg/jtv/cdt: 1..MaxSamples input files
          MaxBins      \* bins per input file

(* ratios q = qn/qd; odd denominators, so r*q is never exactly at k + 1/2 *)
QSmall == {<<6, 25>>, <<13, 25>>, <<19, 25>>, <<1, 1>>, <<31, 25>>, <<38, 25>>, <<2, 1>>, <<63, 25>>}
QFull  == QSmall \cup {<<3, 25>>, <<7, 25>>, <<12, 25>>, <<18, 25>>, <<32, 25>>, <<37, 25>>, <<62, 25>>, <<3, 1>>,
                       <<1, 2>>, <<3, 2>>}        \* the last two: exact ties on odd r (premise excludes them)
Qs == IF QGrid = "small" THEN QSmall ELSE QFull

(* symbolic positions -> coordinates.  PAR positions take the numbers of the run's genome     *)
(* (grch37 numbers when the genome is "none", where they are ordinary coordinates), the X      *)
(* table for X and autosomes, the Y table for Y.                                               *)
PosCoord(pos, kind, genome) ==
    LET t == ExParOf(IF genome = "none" THEN "grch37" ELSE genome)
        p1 == IF kind = "Y" THEN t.PAR1Y ELSE t.PAR1X
        p2 == IF kind = "Y" THEN t.PAR2Y ELSE t.PAR2X
    IN CASE pos = "s0"        -> <<0, 50>>
         [] pos = "s1"        -> <<1, 50>>
         [] pos = "s100"      -> <<100, 200>>
         [] pos = "par1"      -> <<p1[1], p1[2]>>            \* exactly the PAR: within
         [] pos = "par1_in"   -> <<p1[1] + 1000, p1[1] + 2000>>
         [] pos = "par1_end1" -> <<p1[1], p1[2] + 1>>        \* one base over the end: not within
         [] pos = "par1_sta1" -> <<p1[1] - 1, p1[2]>>        \* one base before the start: not within
         [] pos = "par2"      -> <<p2[1], p2[2]>>
KindRank(k) == CASE k = "auto" -> 1 [] k = "X" -> 2 [] k = "Y" -> 3
BaseOf(k) == IF k = "auto" THEN "1" ELSE k

(* a row of the scope: <<kind, value index, pos>> is expanded to the row tuple of Exports.tla *)
RowsFor(pfx, genome) ==
    {<<pfx, BaseOf(k), PosCoord(p, k, genome)[1], PosCoord(p, k, genome)[2], "G", 5,
       IF HasCn THEN v[1] ELSE 0, IF HasCn THEN 1 ELSE v[1], IF HasCn THEN 1 ELSE v[2], 0>> :
         k \in Kinds, p \in Positions, v \in IF HasCn THEN {<<c, 0>> : c \in CnVals} ELSE Qs}
RowKey(r) == <<KindRank(ExKind(RBase(r))), RS(r), RE(r), RCn(r), (RQn(r) * 1000) \div RQd(r)>>
RECURSIVE TupLeq(_, _, _)
TupLeq(x, y, i) == IF i > Len(x) THEN TRUE
                   ELSE IF x[i] < y[i] THEN TRUE ELSE IF x[i] > y[i] THEN FALSE ELSE TupLeq(x, y, i + 1)
RowLeq(x, y) == TupLeq(RowKey(x), RowKey(y), 1)
RECURSIVE SortedTabs(_, _)      \* non-decreasing tables of 0..n rows (one representative per multiset)
SortedTabs(rows, n) ==
    IF n = 0 THEN {<<>>}
    ELSE LET prev == SortedTabs(rows, n - 1)
             ext == {Append(t, r) : t \in {p \in prev : Len(p) = n - 1}, r \in rows}
         IN prev \cup {t \in ext : Len(t) < 2 \/ RowLeq(t[Len(t) - 1], t[Len(t)])}

BedVcfOps == MOps \cap {"bed_all", "bed_ploidy", "bed_variant", "vcf"}
BedVcfRec(m, pl, hx, fe, g, t) ==
    [op |-> IF m = "vcf" THEN "vcf" ELSE "bed", via |-> "func", tab |-> t, hascn |-> HasCn, hasprobes |-> TRUE,
     lmode |-> IF HasCn THEN "grid" ELSE "ratio", ploidy |-> pl, hapx |-> hx, female |-> fe, genome |-> g,
     show |-> CASE m = "bed_all" -> "all" [] m = "bed_ploidy" -> "ploidy" [] m = "bed_variant" -> "variant"
                [] OTHER -> "",
     labmode |-> "id", label |-> "lab", sid |-> "S1", out |-> Empty, err |-> ""]
InitBedVcf(r) == \E px \in Pfxs, g \in Genomes :
                    \E t \in SortedTabs(RowsFor(px, g), MaxRows) \ {<<>>} :
                       \E m \in BedVcfOps, pl \in Ploidies, hx \in Hapxs, fe \in Females :
                          r = BedVcfRec(m, pl, hx, fe, g, t)

(* seg / jtv / cdt / nexus: files over four bins (two of them differing only in the gene), two   *)
(* sample-level log2 bases, ids from {"A", "B"} (so ids repeat)                                  *)
MBins(pfx) == {<<pfx, "1", 0, 50, "G">>, <<pfx, "X", 100, 200, "G">>, <<pfx, "X", 100, 200, "H">>, <<pfx, "X", 300, 400, "G">>}
BinKey(b) == <<KindRank(ExKind(b[2])), b[3], b[4]>>     \* the rows of one file are distinct regions, in order
RECURSIVE SortedBinTabs(_, _)
SortedBinTabs(bins, n) ==
    IF n = 0 THEN {<<>>}
    ELSE LET prev == SortedBinTabs(bins, n - 1)
             ext == {Append(t, b) : t \in {p \in prev : Len(p) = n - 1}, b \in bins}
         IN prev \cup {t \in ext : Len(t) < 2 \/ (/\ TupLeq(BinKey(t[Len(t) - 1]), BinKey(t[Len(t)]), 1)
                                                   /\ BinKey(t[Len(t) - 1]) # BinKey(t[Len(t)]))}
MLgs == {-1234, 585}
MTab(bt, lg0) == [j \in 1..Len(bt) |-> <<bt[j][1], bt[j][2], bt[j][3], bt[j][4], bt[j][5], 3 + j, 0, 1, 1, lg0 + 1000 * (j - 1)>>]
MSampleSet(pfx) == {<<sid, MTab(bt, lg0)>> : sid \in {"A", "B"}, bt \in SortedBinTabs(MBins(pfx), MaxBins) \ {<<>>}, lg0 \in MLgs}
RECURSIVE SeqsUpTo(_, _)
SeqsUpTo(S, n) == IF n = 0 THEN {<<>>}
                  ELSE LET prev == SeqsUpTo(S, n - 1) IN prev \cup {Append(t, x) : t \in {p \in prev : Len(p) = n - 1}, x \in S}
TableMOps == MOps \cap {"seg", "seg_enum", "jtv", "cdt", "nexus"}
TableRec(m, ss) ==
    [op |-> IF m = "seg_enum" THEN "seg" ELSE m, via |-> "cmd", samples |-> ss, enumerate |-> (m = "seg_enum"),
     hasprobes |-> TRUE, lmode |-> "grid", out |-> Empty, err |-> ""]
InitTable(r) == \E px \in Pfxs, m \in TableMOps :
                   \E ss \in {s \in SeqsUpTo(MSampleSet(px), MaxSamples) \ {<<>>} : m = "nexus" => Len(s) = 1} :
                      r = TableRec(m, ss)

VARIABLES rec, ph, ok
vars == <<rec, ph, ok>>
Init == /\ InitBedVcf(rec) \/ InitTable(rec)
        /\ ph = "call" /\ ok = "ok"
(* the verdict of the design check on one input: every clause on the A-layer's output;        *)
(* "known" when the only failing clauses are those of a listed finding whose trigger holds     *)
Verdict(r) ==
    IF ~Premise(r) THEN "oos"
    ELSE LET a == WithALayer(r)
             bad == {c \in Clauses(r.op) : ~Holds(c, a)}
             excused == UNION {TriggerClauses(t) : t \in {u \in KnownTriggers : TriggerHolds(u, r)}}
         IN IF bad = {} THEN "ok" ELSE IF bad \subseteq excused THEN "known" ELSE "bad"
Call == /\ ph = "call" /\ ph' = "ret"
        /\ ok' = Verdict(rec)
        /\ rec' = <<>>                  \* keeps the dump small: inputs are read from the `call` states
Next == Call
Spec == Init /\ [][Next]_vars

(* A |= P on the whole scope, outside the listed findings *)
DesignOK == ok # "bad"
(* not checked by default: fails exactly on the inputs of finding BedParCopies (shows it in the model) *)
DesignNoKnownFinding == ok # "known"
(* every enumerated input is inside the premise, except the exact-tie ratios of QFull *)
DesignAllInScope == ok # "oos"
=============================================================================
