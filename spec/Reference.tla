--------------------------- MODULE Reference ---------------------------
(* C05 -- the pooled reference is the robust per-bin consensus in the chosen reference sex.                    *)
(* (cnvlib/reference.py: do_reference, do_reference_flat, combine_probes, load_sample_block,                   *)
(*  bias_correct_logr, shift_sex_chroms, summarize_info, get_fasta_stats, calculate_gc_lo)                     *)
(*                                                                                                            *)
(* A record r is one call of the real code through real files (.cnn / BED / FASTA in a temp dir):             *)
(*   op = "pooled": do_reference(target files, antitarget files, fasta, is_haploid_x_reference, female_samples, *)
(*                  do_gc, do_edge, do_rmask)                                                                  *)
(*   op = "flat"  : do_reference_flat(target BED, antitarget BED, fasta, is_haploid_x_reference)               *)
(*   op = "gc"    : one bin of a FASTA contig -> (gc, rmask)   (recorded from a do_reference_flat call)        *)
(*                                                                                                            *)
(* Numbers: log2 inputs are integers in units of 1/U (U a power of two <= 1024: exact in IEEE double and in   *)
(* decimal fixed point); medians of medians live on the grid 1/Q, Q = 4U; observed floats enter twice: as      *)
(* their IEEE bit pattern split into three integers (compared only for *equality*: "the value returned by that  *)
(* call") and as a 12-digit fixed-point triple (Num.FxObs) for the comparisons with a stated tolerance.        *)
(*                                                                                                            *)
(* Chromosomes are ids 1..25 in natural sort order: 1..22 the autosomes "1".."22", 23 = X, 24 = Y, 25 = M      *)
(* (an "other" contig: not an autosome by name, not a sex chromosome); the name given to the code is           *)
(* pfx \o base with one naming style pfx per record (Karyotype.tla).                                           *)
(*                                                                                                            *)
(* P-layer = the property as stated; A-layer = reference.py case for case.  Verdicts come from the P-layer.    *)
EXTENDS Stats, Karyotype

BaseNames == <<"1", "2", "3", "4", "5", "6", "7", "8", "9", "10", "11", "12", "13", "14", "15", "16", "17", "18",
               "19", "20", "21", "22", "X", "Y", "M">>
Base(c) == BaseNames[c]
IsAutoId(c) == c <= 22                 \* the names matching (chr)?[0-9]+$  (GenomicArray.autosomes)
OtherId(c) == c = 25
RIdx(t) == 1..Len(t)

(* ---------------------------------------------------------------------------------------------- bins *)
(* a bin row is <<chromosome id, start, end, gene>> *)
Coord(b) == <<b[1], b[2], b[3]>>
CoordsOf(t) == [k \in RIdx(t) |-> Coord(t[k])]
CoordLt(x, y) == \/ x[1] < y[1]
                 \/ x[1] = y[1] /\ x[2] < y[2]
                 \/ x[1] = y[1] /\ x[2] = y[2] /\ x[3] < y[3]
StrictlySorted(t) == \A k \in 1..Len(t) - 1 : CoordLt(t[k], t[k + 1])
(* stable insertion sort by (chromosome, start, end)   (GenomicArray.sort: mergesort on sort key, start, end) *)
RECURSIVE RfInsertRow(_, _)
RfInsertRow(sorted, x) == IF sorted = <<>> THEN <<x>>
                          ELSE IF CoordLt(x, Head(sorted)) THEN <<x>> \o sorted
                          ELSE <<Head(sorted)>> \o RfInsertRow(Tail(sorted), x)
RECURSIVE RfSortRowsFrom(_, _)
RfSortRowsFrom(t, acc) == IF t = <<>> THEN acc ELSE RfSortRowsFrom(Tail(t), RfInsertRow(acc, Head(t)))
RfSortRows(t) == RfSortRowsFrom(t, <<>>)
BinClass(b) == Class(Base(b[1]), b[2], b[3], "none")          \* Karyotype: "auto" / "X" / "Y" (no PAR handling here)
IsSexBin(b) == BinClass(b) \in {"X", "Y"}
(* log2 of the copies a reference of the requested sex carries (ploidy 2): 0 for two copies, -1 for one *)
Lg(copies) == IF copies = 1 THEN -1 ELSE 0
FlatLevel(b, hapx) == Lg(RefCopies(BinClass(b), 2, hapx))     \* P-style: 0 autosomes, -1 Y, -1 X iff male reference
(* cnary.expect_flat_log2, by its masks (A-style) *)
FlatLevelA(pfx, b, hapx) ==
    LET isx == ChrXFilter(pfx, pfx, Base(b[1]), b[2], b[3], "none")
        isy == ChrYFilter(pfx, pfx, Base(b[1]), b[2], b[3], "none")
    IN IF hapx THEN (IF isx \/ isy THEN -1 ELSE 0) ELSE (IF isy THEN -1 ELSE 0)

(* ---------------------------------------------------------------------------------------------- samples, files *)
(* file names are "S" \o digits \o ".targetcoverage.cnn" / ".antitargetcoverage.cnn"; the code orders files by  *)
(* core.fbase, i.e. by the string "S<digits>" -- lexicographically, character by character                      *)
RECURSIVE SeqLexLt(_, _)
SeqLexLt(a, b) == IF a = <<>> THEN b # <<>>
                  ELSE IF b = <<>> THEN FALSE
                  ELSE IF Head(a) < Head(b) THEN TRUE
                  ELSE IF Head(a) > Head(b) THEN FALSE
                  ELSE SeqLexLt(Tail(a), Tail(b))
RECURSIVE InsertSmp(_, _)
InsertSmp(sorted, x) == IF sorted = <<>> THEN <<x>>
                        ELSE IF SeqLexLt(x.smp.name, Head(sorted).smp.name) THEN <<x>> \o sorted
                        ELSE <<Head(sorted)>> \o InsertSmp(Tail(sorted), x)
RECURSIVE SortSmpFrom(_, _)
SortSmpFrom(s, acc) == IF s = <<>> THEN acc ELSE SortSmpFrom(Tail(s), InsertSmp(acc, Head(s)))
(* the samples in file-name order, each with the sex the code used for it ("F", "M", "?" = not in the dict) *)
SamplesWith(r, used) == SortSmpFrom([j \in RIdx(r.samples) |-> [smp |-> r.samples[j],
                                                                 used |-> IF Len(used) = Len(r.samples) THEN used[j] ELSE "?"]],
                                    <<>>)
Samples(r) == SamplesWith(r, r.used)
NSamples(r) == Len(r.samples)
Blocks(r) == IF r.anti THEN <<"t", "a">> ELSE <<"t">>
FileBins(r, smp, k) == IF k = "t" THEN (IF smp.tmod # <<>> THEN smp.tmod ELSE r.tbins)
                       ELSE (IF smp.amod # <<>> THEN smp.amod ELSE IF smp.aempty THEN <<>> ELSE r.abins)
FileVals(smp, k) == IF k = "t" THEN smp.tv ELSE smp.av
FileDz(smp, k) == IF k = "t" THEN smp.tdz ELSE smp.adz
BlockFiles(r, k) == LET ss == Samples(r) IN [j \in RIdx(ss) |-> FileBins(r, ss[j].smp, k)]
(* "files whose bins differ": two files of the same kind (target / antitarget) with different coordinates *)
CoordMismatchIn(fs) == \E i, j \in RIdx(fs) : CoordsOf(fs[i]) # CoordsOf(fs[j])
RowMismatchIn(fs) == \E i, j \in RIdx(fs) : fs[i] # fs[j]
CoordMismatch(r) == \E b \in RIdx(Blocks(r)) : CoordMismatchIn(BlockFiles(r, Blocks(r)[b]))
RowMismatch(r) == \E b \in RIdx(Blocks(r)) : RowMismatchIn(BlockFiles(r, Blocks(r)[b]))
(* the bins of the cohort when all files agree: the first file's of each kind *)
CohortBins(r, k) == IF k = "a" /\ ~r.anti THEN <<>> ELSE BlockFiles(r, k)[1]

NoErr(r) == r.err = ""
OutRow(o) == <<o.c, o.s, o.e, o.g>>
OutRows(r) == [p \in RIdx(r.out) |-> OutRow(r.out[p])]
(* exactly the target and antitarget bins, in genomic order *)
BinsExactly(rows, tb, ab, withgene) ==
    LET want == {IF withgene THEN tb[k] ELSE Coord(tb[k]) : k \in RIdx(tb)}
                \cup {IF withgene THEN ab[k] ELSE Coord(ab[k]) : k \in RIdx(ab)}
    IN /\ Len(rows) = Len(tb) + Len(ab)
       /\ StrictlySorted(rows)
       /\ \A p \in RIdx(rows) : (IF withgene THEN rows[p] ELSE Coord(rows[p])) \in want

(* ---------------------------------------------------------------------------------------------- centring *)
(* cnary.center_all(skip_low, by_chrom=True, estimator=median): the median over the autosomal chromosomes of   *)
(* each chromosome's median log2; bins below NULL_LOG2_COVERAGE - MIN_REF_COVERAGE = -15 or with depth 0 are    *)
(* dropped first when skip_low; if no (remaining) chromosome is named like an autosome, all (remaining) bins    *)
(* are used; nothing remaining: no shift.  Values in 1/U units; the result is in 1/(4U) units (exact).          *)
LowCov(v, dz, U) == v < -15 * U \/ dz
CenterQ(bins, v, dz, skip, U) ==
    LET kept == {i \in RIdx(bins) : ~skip \/ ~LowCov(v[i], dz[i], U)}
        auto == {i \in kept : IsAutoId(bins[i][1])}
        sel == IF auto # {} THEN auto ELSE kept
        chroms == {bins[i][1] : i \in sel}
        cs == SetToSeq(chroms)
        idxs == [i \in RIdx(bins) |-> i]
        med2(c) == IMedian2(LET on == SelectSeq(idxs, LAMBDA i : i \in sel /\ bins[i][1] = c)
                            IN [m \in RIdx(on) |-> v[on[m]]])
    IN IF sel = {} THEN 0 ELSE IMedian2([m \in RIdx(cs) |-> med2(cs[m])])
HasLowCovAuto(bins, v, dz, U) == \E i \in RIdx(bins) : IsAutoId(bins[i][1]) /\ LowCov(v[i], dz[i], U)
HasGoodAuto(bins, v, dz, U) == \E i \in RIdx(bins) : IsAutoId(bins[i][1]) /\ ~LowCov(v[i], dz[i], U)

(* ---------------------------------------------------------------------------------------------- sex shift *)
(* P-style: a sample of the given sex carries ExpectCopies of the bin, the requested reference RefCopies; its   *)
(* log2 moves by log2(RefCopies / ExpectCopies).  A female sample has no Y: it contributes the reference's own  *)
(* single-copy level on Y instead of its noise.  Everything in 1/(4U) units.                                    *)
ShiftedP(b, v4, female, hapx, Q) ==
    LET cls == BinClass(b) IN
    IF cls = "Y" /\ female THEN Q * FlatLevel(b, hapx)
    ELSE v4 + Q * (Lg(RefCopies(cls, 2, hapx)) - Lg(ExpectCopies(cls, 2, female)))
(* A-style: reference.shift_sex_chroms -- add the flat level everywhere, then: female (is_xx truthy) -> Y := -1; *)
(* otherwise (male, or sample id not in the dict) -> X and Y += 1                                               *)
ShiftedA(pfx, b, v4, used, hapx, Q) ==
    LET isx == ChrXFilter(pfx, pfx, Base(b[1]), b[2], b[3], "none")
        isy == ChrYFilter(pfx, pfx, Base(b[1]), b[2], b[3], "none")
        w == v4 + Q * FlatLevelA(pfx, b, hapx)
    IN IF used = "F" THEN (IF isy THEN -Q ELSE w)
       ELSE (IF isx \/ isy THEN w + Q ELSE w)

(* the matrix of one kind of file: W[j][i] = centred, sex-shifted log2 of sample j (file-name order) at bin i   *)
MatrixP(r, k, skip) ==
    LET ss == Samples(r)  U == r.U  Q == 4 * r.U  bins == CohortBins(r, k) IN
    [j \in RIdx(ss) |->
        LET smp == ss[j].smp
            v == FileVals(smp, k)  dz == FileDz(smp, k)
            ctr == CenterQ(bins, v, dz, skip, U)
        IN [i \in RIdx(bins) |-> ShiftedP(bins[i], 4 * v[i] - ctr, ss[j].used = "F", r.hapx, Q)]]
MatrixA(r, k, used) ==
    LET ss == SamplesWith(r, used)  U == r.U  Q == 4 * r.U  bins == CohortBins(r, k) IN
    [j \in RIdx(ss) |->
        LET smp == ss[j].smp
            v == FileVals(smp, k)  dz == FileDz(smp, k)
            ctr == CenterQ(bins, v, dz, k = "t", U)        \* skip_low = True for targets, False for antitargets
        IN [i \in RIdx(bins) |-> ShiftedA(r.pfx, bins[i], 4 * v[i] - ctr, ss[j].used, r.hapx, Q)]]
(* the column of bin i: the neutral pseudo-sample first, then the samples in file-name order *)
ColumnOf(W, flatq, i) == <<flatq>> \o [j \in RIdx(W) |-> W[j][i]]
(* where an output row comes from: <<"t" | "a", index>> , <<"", 0>> if from neither *)
Origin(o, tb, ab) ==
    LET c == <<o.c, o.s, o.e>>
        it == {i \in RIdx(tb) : Coord(tb[i]) = c}
        ia == {i \in RIdx(ab) : Coord(ab[i]) = c}
    IN IF it # {} THEN <<"t", CHOOSE i \in it : TRUE>> ELSE IF ia # {} THEN <<"a", CHOOSE i \in ia : TRUE>> ELSE <<"", 0>>

(* ---------------------------------------------------------------------------------------------- estimators *)
FxOfQ(col, Q) == LET step == FxFromRat(1, Q) IN [j \in RIdx(col) |-> ZMul(ZFromInt(col[j]), step)]
ObsFx(o) == FxObs(o)                      \* [neg, hi, lo] -> Fx
(* Tukey's biweight location as published (Stats.tla: c = 6, <= 5 rounds, eps = 10^-3, started at the median);  *)
(* a step within 10^-9 of the stopping radius may stop a float iteration one round earlier or later             *)
RfBilocAcceptable(a) ==
    LET its == BilocIterates(a, Median(a), 6, 5, BwEps, FxTol9)
    IN {its[k + 1] : k \in BilocAcceptedRounds(its, BwEps, FxTol9)}
LocationOK(o, a) == o.fin /\ \E m \in RfBilocAcceptable(a) : FxClose(ObsFx(o), m, FxTol6)
(* the biweight midvariance about the centre M (c = 9), with the package's documented fallback to 1.4826 MAD     *)
(* when the deviations of the kept points cancel (exactly symmetric data) -- the reading C19 fixes               *)
Tiny == Z(FALSE, <<10>>)                 \* 10^-11
MidvarianceOK(o, a, M) ==
    LET b == BivarAt(a, M, 9)
        D == BwRadius(a, M, 9)
    IN o.fin /\ (\/ b[1] /\ FxClose(ObsFx(o), b[2], FxTol6)
                 \/ ZLe(ZAbs(b[3]), ZAdd(FxMul(FxTol9, D), Tiny)) /\ FxClose(ObsFx(o), BivarFallback(a, M), FxTol6))
(* descriptives.biweight_midvariance as coded: fallback iff the sum of u over the kept points is 0 *)
MidvarianceA(a, M) == LET b == BivarAt(a, M, 9) IN IF ZIsZero(b[3]) \/ ~b[1] THEN BivarFallback(a, M) ELSE b[2]

(* ---------------------------------------------------------------------------------------------- pooled: P-layer *)
Pooled(r) == r.op = "pooled"
FixOff(r) == ~r.fix[1] /\ ~r.fix[2] /\ ~r.fix[3]
UsedKnown(r) == Len(r.used) = NSamples(r) /\ \A j \in RIdx(r.used) : r.used[j] \in {"F", "M"}
(* "median-centring" leaves open whether null-coverage bins take part in the median (center_all's skip_low);     *)
(* the P-layer accepts either reading per kind of file, the A-layer has the code's choice                        *)
SkipChoices(r, k) ==
    IF k = "a" /\ ~r.anti THEN {TRUE}
    ELSE LET ss == Samples(r)  bins == CohortBins(r, k) IN
         IF \E j \in RIdx(ss) : HasLowCovAuto(bins, FileVals(ss[j].smp, k), FileDz(ss[j].smp, k), r.U)
         THEN {TRUE, FALSE} ELSE {TRUE}
OutBinsOK(r) == BinsExactly(OutRows(r), CohortBins(r, "t"), CohortBins(r, "a"), FALSE)
(* the exact-oracle clauses: check(o, col) for every output bin with its specified column, for one admissible     *)
(* reading of the centring                                                                                       *)
ForEveryColumn(r, check(_, _)) ==
    /\ OutBinsOK(r)
    /\ \E ct \in SkipChoices(r, "t"), ca \in SkipChoices(r, "a") :
         LET tb == CohortBins(r, "t")  ab == CohortBins(r, "a")
             Wt == MatrixP(r, "t", ct)
             Wa == IF ab = <<>> THEN <<>> ELSE MatrixP(r, "a", ca)
             Q == 4 * r.U
         IN \A p \in RIdx(r.out) :
              LET o == r.out[p]
                  og == Origin(o, tb, ab)
                  col == IF og[1] = "t" THEN ColumnOf(Wt, Q * FlatLevel(tb[og[2]], r.hapx), og[2])
                         ELSE ColumnOf(Wa, Q * FlatLevel(ab[og[2]], r.hapx), og[2])
              IN og[1] # "" /\ check(o, col)
ExactScope(r) == NoErr(r) /\ ~CoordMismatch(r) /\ FixOff(r) /\ UsedKnown(r)
(* the fixed-point evaluation of the published formulas is limited to references of <= 64 bins (cost) *)
EstimatorScope(r) == ExactScope(r) /\ Len(r.out) <= 64
LocLogged(r, o, col) == \E e \in RIdx(r.gloc) : r.gloc[e].a = col /\ r.gloc[e].r = o.l
VarLogged(r, o, col) == \E e \in RIdx(r.gvar) : r.gvar[e].a = col /\ r.gvar[e].i = o.l /\ r.gvar[e].r = o.sp
(* the property does not order the samples within a column: the P-layer compares columns as multisets (sorted), the  *)
(* A-layer has the code's order (pseudo-sample first, then file-name order)                                        *)
LocLoggedAnyOrder(r) ==
    LET g == [e \in RIdx(r.gloc) |-> ISort(r.gloc[e].a)] IN
    ForEveryColumn(r, LAMBDA o, col : LET sc == ISort(col) IN \E e \in RIdx(g) : g[e] = sc /\ r.gloc[e].r = o.l)
VarLoggedAnyOrder(r) ==
    LET g == [e \in RIdx(r.gvar) |-> ISort(r.gvar[e].a)] IN
    ForEveryColumn(r, LAMBDA o, col : LET sc == ISort(col) IN
                                      \E e \in RIdx(g) : g[e] = sc /\ r.gvar[e].i = o.l /\ r.gvar[e].r = o.sp)

(* clean levels: every sample sits at its own depth level on the autosomes (and on "other" contigs anything),     *)
(* 0 / -1 below it on X for a female / male, -1 on Y for a male, anything on Y for a female; noise <= A           *)
LevelsCleanIn(r, smp, k) ==
    LET bins == FileBins(r, smp, k)  v == FileVals(smp, k)  dz == FileDz(smp, k) IN
    \A i \in RIdx(bins) :
        LET cls == BinClass(bins[i]) IN
        \/ OtherId(bins[i][1])
        \/ cls = "Y" /\ smp.sex = "F"
        \/ /\ ~dz[i] /\ v[i] >= -15 * r.U
           /\ IAbs(v[i] - smp.level - (IF cls = "auto" \/ (cls = "X" /\ smp.sex = "F") THEN 0 ELSE -r.U)) <= r.A
CleanLevels(r) == /\ ~RowMismatch(r)
                  /\ \A j \in RIdx(r.samples), b \in RIdx(Blocks(r)) : LevelsCleanIn(r, r.samples[j], Blocks(r)[b])
UsedIsTruth(r) == Len(r.used) = NSamples(r) /\ \A j \in RIdx(r.samples) : r.used[j] = r.samples[j].sex
(* smoothing._width2wing(0.1): half-window of the rolling median of the bias corrections *)
Wing(n) == LET w0 == (n + 19) \div 20
               w1 == IF w0 < 3 THEN 3 ELSE w0
           IN IF w1 > n - 1 THEN n - 1 ELSE w1
(* every (mirror-padded) window of a correction holds a strict majority of autosomal bins whatever the order of    *)
(* the covariate: an element occurs at most twice in a window of 2 wing + 1                                       *)
WindowsNeutral(r) ==
    \A b \in RIdx(Blocks(r)) :
        LET bins == CohortBins(r, Blocks(r)[b])
            nonauto == Cardinality({i \in RIdx(bins) : ~IsAutoId(bins[i][1])})
        IN bins = <<>> \/ 2 * nonauto <= Wing(Len(bins))
(* error bound of a column entry: centring error <= A on top of noise <= A; each correction subtracts a median     *)
(* of values that are themselves within the current bound: at most two corrections per kind of file               *)
LevelBound(r) == ZAdd(FxFromRat(2 * r.A * (IF FixOff(r) THEN 1 ELSE 4), r.U), FxTol9)
SexLevelsScope(r) == /\ NoErr(r) /\ CleanLevels(r) /\ UsedIsTruth(r)
                     /\ FixOff(r) \/ WindowsNeutral(r)
                     /\ \E i \in RIdx(r.tbins) : IsAutoId(r.tbins[i][1])
SexLevelsOK(r) ==
    LET E == LevelBound(r)
        autos == SelectSeq(r.out, LAMBDA o : IsAutoId(o.c))
        \* the autosomal baseline of the reference: the band [lo, hi] that holds every autosomal bin
        lo == FoldLeft(LAMBDA acc, o : ZMin(acc, ObsFx(o.lfx)), ObsFx(autos[1].lfx), autos)
        hi == FoldLeft(LAMBDA acc, o : ZMax(acc, ObsFx(o.lfx)), ObsFx(autos[1].lfx), autos)
        dx == FxFromInt(IF r.hapx THEN -1 ELSE 0)
    IN /\ \A p \in RIdx(r.out) : r.out[p].lfx.fin
       /\ \A p \in RIdx(r.out) :
            LET o == r.out[p]
                cls == BinClass(OutRow(o))
                lv == ObsFx(o.lfx)
            IN \/ OtherId(o.c)
               \* every bin within the bound of its neutral level ...
               \/ /\ FxCloseAbs(lv, FxFromInt(FlatLevel(OutRow(o), r.hapx)), E)
                  \* ... hence chrX 1.0 below the autosomal baseline for a male reference, on it for a female one
                  /\ cls = "X" => (autos = <<>> \/ (/\ FxCloseAbs(lv, ZAdd(lo, dx), ZAdd(E, E))
                                                     /\ FxCloseAbs(lv, ZAdd(hi, dx), ZAdd(E, E))))
(* normals that differ only in sequencing depth: every file is the first one plus a constant *)
DepthOnly(r) ==
    /\ NSamples(r) >= 2 /\ ~RowMismatch(r)
    /\ Len(r.used) = NSamples(r) /\ \A j \in RIdx(r.used) : r.used[j] = r.used[1] /\ r.used[1] \in {"F", "M"}
    /\ \A j \in RIdx(r.samples), b \in RIdx(Blocks(r)) :
         LET k == Blocks(r)[b]
             v == FileVals(r.samples[j], k)  v1 == FileVals(r.samples[1], k)
             dz == FileDz(r.samples[j], k)
             d == r.samples[j].level - r.samples[1].level
         IN /\ Len(v) = Len(v1)
            /\ \A i \in RIdx(v) : v[i] = v1[i] + d /\ ~dz[i] /\ v[i] >= -15 * r.U
TolEps == FxFromRat(1, 1000)             \* the estimator's own stopping radius
DepthOnlyOK(r) ==
    /\ \A p \in RIdx(r.out) : r.out[p].spfx.fin /\ ZLe(ZAbs(ObsFx(r.out[p].spfx)), ZAdd(TolEps, TolEps))
    /\ FixOff(r) => ForEveryColumn(r, LAMBDA o, col :
                        o.lfx.fin /\ FxCloseAbs(ObsFx(o.lfx), FxOfQ(<<col[2]>>, 4 * r.U)[1], TolEps))
(* sex inference is required to be right where the levels are clean and there is enough to infer from: noise     *)
(* <= 1/4, >= 40 chrX bins (the C15 bound) and three times as many autosomal bins in every file it is inferred from *)
InferableFrom(bins) ==
    LET nx == Cardinality({i \in RIdx(bins) : BinClass(bins[i]) = "X"})
        na == Cardinality({i \in RIdx(bins) : IsAutoId(bins[i][1])})
    IN nx >= 40 /\ na >= 3 * nx
InferRegime(r) ==
    /\ CleanLevels(r) /\ 4 * r.A <= r.U
    /\ InferableFrom(r.tbins)
    /\ r.anti => \A j \in RIdx(r.samples) :
                    LET ab == FileBins(r, r.samples[j], "a") IN
                    ab = <<>> \/ InferableFrom(ab) \/ ~\E i \in RIdx(ab) : BinClass(ab[i]) = "X"
GivenCode(r) == IF r.given = "female" THEN "F" ELSE "M"
(* gc / rmask of a bin's sequence (character codes) *)
IsGCCode(k) == k \in {67, 71, 99, 103}
IsATCode(k) == k \in {65, 84, 97, 116}
IsLowerCode(k) == k >= 97 /\ k <= 122
CountIf(seq, P(_)) == Cardinality({i \in RIdx(seq) : P(seq[i])})
NUnamb(seq) == CountIf(seq, LAMBDA k : IsGCCode(k) \/ IsATCode(k))
Frac01(o) == o.fin /\ ~(o.neg /\ (o.hi # 0 \/ o.lo # 0)) /\ ZLe(ObsFx(o), FxOne)
IsFrac(o, num, den) == o.fin /\ FxClose(ObsFx(o), FxFromRat(num, den), FxTol9)
(* "gc is the G+C fraction of unambiguous bases" (no unambiguous base: any fraction) *)
GcOK(o, seq) == IF NUnamb(seq) = 0 THEN Frac01(o) ELSE IsFrac(o, CountIf(seq, IsGCCode), NUnamb(seq))
(* "rmask the lowercase fraction of each bin's sequence": of its unambiguous bases (parallel to gc) or of all its    *)
(* characters -- the sentence allows both readings, either is accepted                                              *)
RmaskOK(o, seq) ==
    \/ NUnamb(seq) = 0 /\ Frac01(o)
    \/ NUnamb(seq) > 0 /\ IsFrac(o, CountIf(seq, LAMBDA k : IsLowerCode(k) /\ (IsGCCode(k) \/ IsATCode(k))), NUnamb(seq))
    \/ Len(seq) > 0 /\ IsFrac(o, CountIf(seq, IsLowerCode), Len(seq))
(* reference.calculate_gc_lo as coded: counts of a t g c A T G C, 0.0 / 0.0 when there is none *)
GcLoA(seq) ==
    LET n(k) == CountIf(seq, LAMBDA x : x = k)
        atlo == n(97) + n(116)  atup == n(65) + n(84)  gclo == n(103) + n(99)  gcup == n(71) + n(67)
        tot == atlo + atup + gclo + gcup
    IN IF tot = 0 THEN <<0, 1, 0, 1>> ELSE <<gclo + gcup, tot, atlo + gclo, tot>>
(* pyfaidx slice [start, end) of a contig, truncated at its end *)
ContigOf(fa, c) == LET hit == SelectSeq(fa, LAMBDA x : x[1] = c) IN IF hit = <<>> THEN <<>> ELSE hit[1][2]
BinSeq(fa, c, s, e) == LET ctg == ContigOf(fa, c)
                           hi == IF e > Len(ctg) THEN Len(ctg) ELSE e
                       IN IF s >= hi THEN <<>> ELSE SubSeq(ctg, s + 1, hi)

(* ---------------------------------------------------------------------------------------------- clauses *)
Clauses(op) ==
    CASE op = "pooled" -> {"pool_reject_mismatch", "pool_accepts_matching", "pool_bins", "pool_sexes_given",
                           "pool_sexes_inferred", "pool_log2_orchestration", "pool_spread_orchestration",
                           "pool_log2_estimator", "pool_spread_estimator", "pool_depth_only", "pool_sex_levels",
                           "pool_gc"}
      [] op = "flat"   -> {"flat_noerr", "flat_bins", "flat_log2", "flat_gc", "flat_rmask"}
      [] op = "gc"     -> {"gc_noerr", "gc_value", "rmask_value"}
      [] OTHER         -> {}

(* Holds(c, r) == Applies(c, r) => Claim(c, r): the antecedent (which records a clause speaks about) and the claim   *)
(* are kept apart so that the trace specification can count a clause as *checked* only where it applies              *)
Applies(c, r) ==
    CASE c = "pool_reject_mismatch" -> CoordMismatch(r)
      [] c = "pool_accepts_matching" -> ~RowMismatch(r)
      [] c = "pool_bins" -> NoErr(r) /\ ~CoordMismatch(r)
      [] c = "pool_sexes_given" -> r.given # "none" /\ r.used # <<>>
      [] c = "pool_sexes_inferred" -> r.given = "none" /\ NoErr(r) /\ InferRegime(r)
      [] c \in {"pool_log2_orchestration", "pool_spread_orchestration"} -> ExactScope(r) /\ r.hasgraph
      [] c \in {"pool_log2_estimator", "pool_spread_estimator"} -> EstimatorScope(r)
      [] c = "pool_depth_only" -> NoErr(r) /\ DepthOnly(r)
      [] c = "pool_sex_levels" -> SexLevelsScope(r)
      [] c = "pool_gc" -> NoErr(r) /\ r.fa # <<>> /\ ~CoordMismatch(r) /\ (r.hasgc \/ r.hasrm)
      [] c \in {"flat_noerr", "gc_noerr"} -> TRUE
      [] c \in {"flat_bins", "flat_log2", "gc_value", "rmask_value"} -> NoErr(r)
      [] c \in {"flat_gc", "flat_rmask"} -> NoErr(r) /\ r.fa # <<>>
Claim(c, r) ==
    CASE (* "files whose bins differ are rejected" *)
         c = "pool_reject_mismatch" -> ~NoErr(r)
         (* ... and only those: files with identical bins make a reference *)
      [] c = "pool_accepts_matching" -> NoErr(r)
         (* "A reference built from coverage files has exactly their bins" (genomic order; gene labels too when the   *)
         (* files agree on them)                                                                                    *)
      [] c = "pool_bins" -> BinsExactly(OutRows(r), CohortBins(r, "t"), CohortBins(r, "a"), ~RowMismatch(r))
         (* sexes given: every sample is treated as the sex the caller states *)
      [] c = "pool_sexes_given" -> Len(r.used) = NSamples(r) /\ \A j \in RIdx(r.used) : r.used[j] = GivenCode(r)
         (* sexes inferred: at clean levels the inferred sex is the sample's sex *)
      [] c = "pool_sexes_inferred" -> UsedIsTruth(r)
         (* "each bin's log2 and spread are Tukey's biweight location and midvariance -- over the samples plus one     *)
         (* neutral pseudo-sample -- of each sample's log2 after median-centring and shifting its sex chromosomes to    *)
         (* the requested reference sex": (i) orchestration, exact: the reported values are what the package's own      *)
         (* estimators returned for exactly that column (and, for the spread, about exactly that log2)                  *)
      [] c = "pool_log2_orchestration" -> LocLoggedAnyOrder(r)
      [] c = "pool_spread_orchestration" -> VarLoggedAnyOrder(r)
         (* (ii) estimator: the same values are the published biweight location / midvariance of that column, 10^-6 *)
      [] c = "pool_log2_estimator" -> ForEveryColumn(r, LAMBDA o, col : LocationOK(o.lfx, FxOfQ(col, 4 * r.U)))
      [] c = "pool_spread_estimator" -> ForEveryColumn(r, LAMBDA o, col :
                                            o.lfx.fin /\ MidvarianceOK(o.spfx, FxOfQ(col, 4 * r.U), ObsFx(o.lfx)))
         (* "normals that differ only in sequencing depth reproduce their common profile with spread ~ 0" *)
      [] c = "pool_depth_only" -> DepthOnlyOK(r)
         (* "for any mix of male and female normals chrX lies 1.0 below the autosomal baseline for a male reference  *)
         (* and on it for a female one, with chrY at the single-copy level -1.0 in both"                              *)
      [] c = "pool_sex_levels" -> SexLevelsOK(r)
         (* gc / rmask columns computed from the FASTA are those of each bin's sequence *)
         (* (a bin without a value -- the pooled reference computes rmask only for antitarget bins -- claims nothing) *)
      [] c = "pool_gc" -> \A p \in RIdx(r.out) :
                              LET o == r.out[p]  seq == BinSeq(r.fa, o.c, o.s, o.e) IN
                              /\ (r.hasgc /\ o.gc.fin) => GcOK(o.gc, seq)
                              /\ (r.hasrm /\ o.rm.fin) => RmaskOK(o.rm, seq)
         (* ---- flat reference *)
      [] c \in {"flat_noerr", "gc_noerr"} -> NoErr(r)
      [] c = "flat_bins" -> BinsExactly(OutRows(r), r.tbins, IF r.anti THEN r.abins ELSE <<>>, TRUE)
         (* "A flat reference is 0 on autosomes, -1 on Y, and -1 on X only for a male reference" *)
      [] c = "flat_log2" -> \A p \in RIdx(r.out) :
                                r.out[p].lok /\ r.out[p].l4 = 4 * FlatLevel(OutRow(r.out[p]), r.hapx)
         (* "gc is the G+C fraction of unambiguous bases and rmask the lowercase fraction of each bin's sequence" *)
      [] c = "flat_gc" -> r.hasgc /\ \A p \in RIdx(r.out) :
                              GcOK(r.out[p].gc, BinSeq(r.fa, r.out[p].c, r.out[p].s, r.out[p].e))
      [] c = "flat_rmask" -> r.hasrm /\ \A p \in RIdx(r.out) :
                              RmaskOK(r.out[p].rm, BinSeq(r.fa, r.out[p].c, r.out[p].s, r.out[p].e))
      [] c = "gc_value" -> GcOK(r.gc, BinSeq(<<<<1, r.contig>>>>, 1, r.s, r.e))
      [] c = "rmask_value" -> RmaskOK(r.rm, BinSeq(<<<<1, r.contig>>>>, 1, r.s, r.e))
Holds(c, r) == Applies(c, r) => Claim(c, r)

(* ---------------------------------------------------------------------------------------------- premise *)
RowsOK(t) == \A k \in RIdx(t) : t[k][1] \in 1..25 /\ 0 <= t[k][2] /\ t[k][2] < t[k][3]
DisjointCoords(t, a) == {Coord(t[i]) : i \in RIdx(t)} \cap {Coord(a[j]) : j \in RIdx(a)} = {}
FileOK(r, smp, k) ==
    LET bins == FileBins(r, smp, k)  v == FileVals(smp, k)  dz == FileDz(smp, k) IN
    /\ Len(v) = Len(bins) /\ Len(dz) = Len(bins)
    /\ RowsOK(bins) /\ StrictlySorted(bins)
    /\ \A i \in RIdx(v) : v[i] >= -30 * r.U /\ v[i] <= 30 * r.U
    /\ bins = <<>> \/ HasGoodAuto(bins, v, dz, r.U)
Premise(r) ==
    CASE r.op = "pooled" ->
           /\ r.pfx \in {"chr", ""} /\ r.U \in {4, 16, 64, 256, 1024} /\ r.A >= 0
           /\ NSamples(r) >= 1
           /\ \A i, j \in RIdx(r.samples) : i # j => r.samples[i].name # r.samples[j].name
           /\ r.tbins # <<>> /\ DisjointCoords(r.tbins, r.abins)
           /\ \A j \in RIdx(r.samples) :
                /\ r.samples[j].sex \in {"F", "M"}
                /\ FileBins(r, r.samples[j], "t") # <<>>
                /\ FileOK(r, r.samples[j], "t")
                /\ r.anti => FileOK(r, r.samples[j], "a")
      [] r.op = "flat" -> /\ r.pfx \in {"chr", ""} /\ r.tbins # <<>> /\ RowsOK(r.tbins) /\ RowsOK(r.abins)
                          /\ StrictlySorted(r.tbins) /\ StrictlySorted(r.abins) /\ DisjointCoords(r.tbins, r.abins)
      [] r.op = "gc" -> 0 <= r.s /\ r.s <= r.e
      [] OTHER -> FALSE

(* ---------------------------------------------------------------------------------------------- A-layer *)
(* do_reference: the sexes handed to combine_probes *)
UsedA(r) == IF r.given # "none" THEN [j \in RIdx(r.samples) |-> GivenCode(r)]
            ELSE [j \in RIdx(r.samples) |->          \* targets first, a definite antitarget call is preferred
                     IF Len(r.infa) = NSamples(r) /\ r.infa[j] # "?" THEN r.infa[j]
                     ELSE IF Len(r.inft) = NSamples(r) THEN r.inft[j] ELSE "?"]
(* load_sample_block: the first file (by name) of a kind is the template; every other file must have identical      *)
(* (chromosome, start, end, gene) rows -- also when the template is empty (repaired: c05-fix-1; before, an empty first  *)
(* file made the code skip the whole kind without looking at the others: BlockErrOld, kept to show the defect)          *)
BlockErrA(fs) == \E j \in RIdx(fs) : fs[j] # fs[1]
BlockErrOld(fs) == fs[1] # <<>> /\ \E j \in RIdx(fs) : fs[j] # fs[1]
ErrA(r) == \E b \in RIdx(Blocks(r)) : BlockErrA(BlockFiles(r, Blocks(r)[b]))
OutRowsA(r) == RfSortRows(CohortBins(r, "t") \o CohortBins(r, "a"))
(* the whole pooled result as the code computes it: rows, and per row the column and its two estimates *)
PooledA(r, used) ==
    LET tb == CohortBins(r, "t")  ab == CohortBins(r, "a")
        Wt == MatrixA(r, "t", used)
        Wa == IF ab = <<>> THEN <<>> ELSE MatrixA(r, "a", used)
        Q == 4 * r.U
        rows == OutRowsA(r)
    IN [p \in RIdx(rows) |->
           LET o == [c |-> rows[p][1], s |-> rows[p][2], e |-> rows[p][3]]
               og == Origin(o, tb, ab)
               col == IF og[1] = "t" THEN ColumnOf(Wt, Q * FlatLevelA(r.pfx, tb[og[2]], r.hapx), og[2])
                      ELSE ColumnOf(Wa, Q * FlatLevelA(r.pfx, ab[og[2]], r.hapx), og[2])
           IN [row |-> rows[p], col |-> col]]
ColumnsLoggedA(r) ==
    LET exp == PooledA(r, r.used) IN
    /\ Len(exp) = Len(r.out)
    /\ \A p \in RIdx(exp) : /\ OutRow(r.out[p]) = exp[p].row
                            /\ LocLogged(r, r.out[p], exp[p].col) /\ VarLogged(r, r.out[p], exp[p].col)
FlatRowsA(r) == RfSortRows(r.tbins \o (IF r.anti THEN r.abins ELSE <<>>))
Drift(r) ==
    CASE r.op = "pooled" ->
           \/ NoErr(r) = ErrA(r)
           \/ ~NoErr(r) /\ r.errtype # "RuntimeError"
           \/ NoErr(r) /\ ~BinsExactly(OutRows(r), CohortBins(r, "t"), CohortBins(r, "a"), TRUE)
           \/ r.used # <<>> /\ r.used # UsedA(r)
           \/ NoErr(r) /\ FixOff(r) /\ r.hasgraph /\ ~ColumnsLoggedA(r)
           \* with a FASTA: gc for every bin when the gc correction is on, rmask for the antitarget bins when that one is
           \/ NoErr(r) /\ r.fa # <<>> /\ ~CoordMismatch(r) /\
                \E p \in RIdx(r.out) :
                    LET o == r.out[p]  og == Origin(o, CohortBins(r, "t"), CohortBins(r, "a")) IN
                    \/ (r.hasgc /\ o.gc.fin) # r.fix[1]
                    \/ (r.hasrm /\ o.rm.fin) # (r.fix[3] /\ og[1] = "a")
      [] r.op = "flat" ->
           \/ NoErr(r) /\ ~BinsExactly(OutRows(r), r.tbins, IF r.anti THEN r.abins ELSE <<>>, TRUE)
           \/ NoErr(r) /\ \E p \in RIdx(r.out) : r.out[p].l4 # 4 * FlatLevelA(r.pfx, OutRow(r.out[p]), r.hapx)
           \/ NoErr(r) /\ r.fa # <<>> /\ r.hasgc /\ r.hasrm /\ \E p \in RIdx(r.out) :
                 LET g == GcLoA(BinSeq(r.fa, r.out[p].c, r.out[p].s, r.out[p].e)) IN
                 ~(IsFrac(r.out[p].gc, g[1], g[2]) /\ IsFrac(r.out[p].rm, g[3], g[4]))
      [] r.op = "gc" ->
           NoErr(r) /\ LET g == GcLoA(BinSeq(<<<<1, r.contig>>>>, 1, r.s, r.e)) IN
                       ~(IsFrac(r.gc, g[1], g[2]) /\ IsFrac(r.rm, g[3], g[4]))
      [] OTHER -> FALSE

(* ---------------------------------------------------------------------------------------------- known findings *)
(* both repaired in /repo (c05-fix-1: load_sample_block looked at no other file when the first antitarget file was  *)
(* empty; c05-fix-2: compare_chrom floored only the denominator of female_stat / male_stat, so one chrY bin with two    *)
(* equally tiny statistics counted as strong evidence for female); the predicates stay as the characterisation of the  *)
(* inputs on which the unrepaired code broke pool_reject_mismatch / pool_sexes_inferred                                *)
KnownTriggers == {"FirstAntitargetEmptyOthersNot", "InferMaleWithY"}
TriggerHolds(t, r) ==
    CASE t = "FirstAntitargetEmptyOthersNot" ->
            r.op = "pooled" /\ r.anti /\ LET fs == BlockFiles(r, "a") IN fs[1] = <<>> /\ \E j \in RIdx(fs) : fs[j] # <<>>
      [] t = "InferMaleWithY" ->
            /\ r.op = "pooled" /\ r.given = "none" /\ Len(r.used) = NSamples(r)
            /\ \E j \in RIdx(r.samples) :
                  /\ r.samples[j].sex = "M" /\ r.used[j] # "M"
                  /\ \E b \in RIdx(Blocks(r)) :
                        LET bins == FileBins(r, r.samples[j], Blocks(r)[b]) IN
                        Cardinality({i \in RIdx(bins) : BinClass(bins[i]) = "Y"}) = 1
      [] OTHER -> FALSE
=============================================================================
