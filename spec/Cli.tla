--------------------------- MODULE Cli ---------------------------
(* X04 (extension) -- design model of the cnvkit command line as a state machine over a file      *)
(* system.  A session is a sequence of cnvkit.py commands run in one working directory:           *)
(*                                                                                               *)
(*   fs     the directory: set of <<file name, content id>> (numbered backups p.1, p.2 included)   *)
(*   meta   the artefacts produced so far with their kind (targets bed, antitargets bed, coverage *)
(*          cnn, reference cnn, cnr, cns with the columns it carries, seg, report ...)            *)
(*   hist   the commands run so far: variant of the menu, input files per role, output selector,  *)
(*          and -- derived by the specification -- the argv and the library call it stands for   *)
(*                                                                                               *)
(* One action per command (Step, instantiated by the variant's command): enabled when files of    *)
(* the right kind exist for every input role; its effect is CliOps!Effect (A-layer, the _cmd_*    *)
(* wrappers case for case).  DesignOK: the A-layer satisfies the documented clauses (P-layer) in  *)
(* every reachable state.  The dump / the simulated                                               *)
(* behaviours of this model are what the harness executes against the real command line.          *)
EXTENDS CliOps
CONSTANTS MaxSteps,   \* commands per behaviour
          Pre,        \* which of cnv_reference.cnn, cnv_reference.cnn.1, .2 exist before the session ({0,1,2} subset)
          OnlyCmds,   \* restrict the exploration to these commands ({} = all)
          Ablation    \* FALSE: the variants of the menu; TRUE: their one-flag-removed copies (abl = <<variant, flag index>>),
                      \* from which the harness measures that every flag changes the library result in this world
VARIABLES fs, meta, nid, hist, pfs, pmeta, last,
          pend     \* the command line being composed: [st (0 none, 1 variant chosen, 2 inputs chosen), v, ins]
vars == <<fs, meta, nid, hist, pfs, pmeta, last, pend>>

PreN(k) == IF k = 0 THEN <<"cnv_reference", "cnn">> ELSE <<"cnv_reference", "cnn", ToString(k)>>
PreFs == {<<JoinDots(PreN(k)), 900 + k>> : k \in Pre}
PreMeta == {MkMeta("", PreN(k), "other", {}, "", "", <<>>) : k \in Pre}
NoPend == [st |-> 0, v |-> 0, ins |-> <<<<>>, <<>>, <<>>>>]
NoObs == [err |-> "", liberr |-> "", lib |-> <<>>, so |-> 0, post |-> {}, w |-> {}, n |-> {}]

Init == /\ fs = WorldFs \cup PreFs
        /\ meta = WorldMeta \cup PreMeta
        /\ nid = 1000
        /\ hist = <<>>
        /\ pfs = {} /\ pmeta = {} /\ last = NoObs
        /\ pend = NoPend

Step(v, ins, osel, oname) ==
    LET e == MkEvent(v, ins, osel, oname, Len(hist) + 1)
        nl == NLib(e, meta)
        lib == [k \in 1..nl |-> nid + k]                 \* content of the library results: fresh ids
        x == Effect(fs, meta, e, lib, "")
        post == {<<y[1], IF y[2] = AnyId THEN nid + 50 ELSE y[2]>> : y \in x.fs}
    IN
    /\ fs' = post
    /\ meta' = x.meta
    /\ nid' = nid + 100
    /\ hist' = Append(hist, [v |-> v, cmd |-> e.cmd, tag |-> Variants[v].tag, ins |-> ins, osel |-> osel, oname |-> oname,
                             argv |-> Argv(e), lib |-> PLib(e), nlib |-> nl, experr |-> DocErr(e, meta)])
    /\ pfs' = fs /\ pmeta' = meta /\ pend' = NoPend
    /\ last' = [err |-> x.err, liberr |-> "", lib |-> lib, so |-> x.so, post |-> post, w |-> x.w,
                n |-> {<<m.name, m.d, m.n>> : m \in x.meta}]

(* A command line is composed in three choices (variant of the menu, input files per role, output  *)
(* selector), then run.  The split keeps the branching small: `tlc -simulate` picks uniformly among *)
(* the successors of a state, i.e. first a variant, then its inputs, then where the output goes.   *)
ChooseVariant ==
    /\ pend.st = 0 /\ Len(hist) < MaxSteps
    /\ \E v \in {u \in 1..Len(Variants) : (OnlyCmds = {} \/ Variants[u].cmd \in OnlyCmds) /\ ((Variants[u].abl[1] # 0) = Ablation)} :
          pend' = [st |-> 1, v |-> v, ins |-> <<<<>>, <<>>, <<>>>>]
    /\ UNCHANGED <<fs, meta, nid, hist, pfs, pmeta, last>>
ChooseInputs ==
    /\ pend.st = 1
    /\ \E ins \in InChoices(pend.v, meta) :
          LET e0 == MkEvent(pend.v, ins, "default", "", Len(hist) + 1) IN
          /\ SyntaxOK(e0) /\ InsOK(e0, meta)                   \* enabling condition: inputs of the right kind
          /\ pend' = [st |-> 2, v |-> pend.v, ins |-> ins]
    /\ UNCHANGED <<fs, meta, nid, hist, pfs, pmeta, last>>
Run ==
    /\ pend.st = 2
    /\ LET e0 == MkEvent(pend.v, pend.ins, "default", "", Len(hist) + 1) IN
       \E osel \in SetOf(Variants[pend.v].osels) :
           IF osel = "clash" THEN \E nm \in ClashNames(e0, fs, meta) : Step(pend.v, pend.ins, "clash", nm)
           ELSE Step(pend.v, pend.ins, osel, IF osel = "default" THEN "" ELSE ONameFor(e0.cmd, osel, Len(hist) + 1))
Next == ChooseVariant \/ ChooseInputs \/ Run
Spec == Init /\ [][Next]_vars

LastEvent == LET h == hist[Len(hist)] IN MkEvent(h.v, h.ins, h.osel, h.oname, Len(hist))
(* A |= P: what the wrappers do satisfies what is documented (no defect of the command layer is exempt:   *)
(* KnownTriggers = {}; with CliOps!LegacyDefects non-empty this invariant fails on the repaired defects)   *)
DesignOK == hist = <<>> \/ pend.st # 0 \/
            \A c \in ClausesOf(LastEvent) :
                \/ Holds(c, pfs, pmeta, LastEvent, last)
                \/ \E t \in KnownTriggers : TriggerHolds(t, LastEvent, pmeta)
DesignStrict == DesignOK
(* session-level facts *)
TypeOK == /\ \A x \in fs : \A y \in fs : x[1] = y[1] => x = y                   \* one content per name
          /\ \A m \in meta : Exists(fs, m.name)                                    \* bookkeeping only of files that exist
ReferenceNeverLoses ==      \* k writes of `reference` to one path leave k more files (C10's NoOverwrite, at the command level)
    (hist # <<>> /\ pend.st = 0 /\ hist[Len(hist)].cmd = "reference" /\ last.err = "")
        => Cardinality(fs) = Cardinality(pfs) + Cardinality(last.w)
=============================================================================
