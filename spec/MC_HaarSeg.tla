--------------------------- MODULE MC_HaarSeg ---------------------------
(* Design check + enumerator for X06 / HaarSeg.  The A-layer of haarSeg runs as a state machine: one action per level  *)
(* and per phase (Conv -> Peaks -> Fdr -> Unify, then the next level, then Finish); AdjustBreaks runs one action per   *)
(* loop iteration (AdjustStep); the other operations are one call -> done step.  DesignOK (A |= P) is evaluated in the  *)
(* final state of every input on the record the A-layer produced.  ConvOK cross-checks the incremental wavelet         *)
(* transform against its definition (window sums) in every Conv state.  The dump of this run is replayed into the     *)
(* real code (direction 1): every input of a final state is run through cnvlib.segmentation.haar.                     *)
EXTENDS HaarSeg
CONSTANTS Ops, NMax, PosMax
(* value sets (cfg files cannot hold negative numbers) *)
Vals == {0, 1, 8}
Vals2 == {-8, 0, 3}
PkVals == {-1, 0, 1, 2}

RECURSIVE SeqsOfLen(_, _)
SeqsOfLen(S, n) == IF n = 0 THEN {<<>>} ELSE {Append(s, x) : s \in SeqsOfLen(S, n - 1), x \in S}
SeqsUpTo(S, n) == UNION {SeqsOfLen(S, k) : k \in 0..n}
SubSeqsOf(lo, hi) == {SetToSortSeq(T, <) : T \in SUBSET (lo..hi)}          \* strictly increasing sequences
NoObs == [nan |-> TRUE, neg |-> FALSE, hi |-> 0, lo |-> 0]

(* weight patterns (cfg files cannot hold tuples): none, all equal, mixed *)
WPats == << <<2, 2, 2, 2, 2, 2, 2, 2>>, <<1, 3, 2, 1, 1, 2, 4, 1>> >>
HsBase(sig, wp, l0, l1, qn, qd) ==
    [op |-> "haarseg", sig |-> sig, U |-> 1, hasw |-> wp > 0, w |-> IF wp > 0 THEN SubSeq(WPats[wp], 1, Len(sig)) ELSE <<>>,
     WU |-> 1, qn |-> qn, qd |-> qd, l0 |-> l0, l1 |-> l1, hasraw |-> FALSE, raw |-> <<>>]
HsInputs == {HsBase(sig, wp, lv[1], lv[2], 1, 100) : sig \in SeqsUpTo(Vals, NMax) \ {<<>>}, wp \in 0..2, lv \in {<<1, 2>>}}
            \cup {HsBase(sig, 0, lv[1], lv[2], q[1], q[2]) : sig \in SeqsOfLen(Vals, NMax), lv \in {<<2, 3>>, <<1, 1>>, <<3, 2>>},
                                                            q \in {<<1, 2>>, <<1, 10000>>}}
            \cup {HsBase(sig, wp, 1, 2, 1, 100) : sig \in SeqsOfLen(Vals2, NMax), wp \in {0, 2}}
            \cup {[HsBase(sig, 0, 1, 2, 1, 100) EXCEPT !.hasraw = TRUE, !.raw = [k \in 1..Len(sig) |-> 100]]
                     : sig \in SeqsOfLen(Vals, 1) \cup SeqsOfLen(Vals, 3)}
CvInputs == {[op |-> "conv", sig |-> sig, U |-> 1, hasw |-> wp > 0, w |-> IF wp > 0 THEN SubSeq(WPats[wp], 1, Len(sig)) ELSE <<>>,
              h |-> h] : sig \in SeqsUpTo(Vals, NMax - 1), wp \in 0..2, h \in {1, 2, 4, 8}}
PkInputs == {[op |-> "peaks", sig |-> sig] : sig \in SeqsUpTo(PkVals, NMax)}
UnInputs == {[op |-> "unify", base |-> b, addon |-> a, win |-> w] : b \in SubSeqsOf(0, PosMax), a \in SubSeqsOf(0, PosMax), w \in 0..2}
SmInputs == {[op |-> "segmeans", sig |-> sig, U |-> 2, hasw |-> wk > 0,
              w |-> IF wk = 1 THEN SubSeq(WPats[2], 1, Len(sig)) ELSE IF wk = 2 THEN [k \in 1..Len(sig) |-> IF k <= 2 THEN 0 ELSE 1]
                    ELSE <<>>, peaks |-> p]
             : sig \in SeqsUpTo(Vals, 4) \ {<<>>}, wk \in 0..2, p \in SubSeqsOf(1, 3)}
PcInputs == {[op |-> "pulse", sig |-> sig, size |-> z] : sig \in SeqsUpTo({0, 1}, 5) \ {<<>>}, z \in 1..6}
AjInputs == {[op |-> "adjust", sig |-> sig, peaks |-> p] : sig \in SeqsOfLen(Vals, 5) \cup SeqsOfLen(Vals, 2), p \in SubSeqsOf(1, 4)}
TcInputs == {[op |-> "coords", rows |-> rows] : rows \in SeqsUpTo({<<0, 3, 1>>, <<3, 2, -2>>}, 2)}
InScope(x) ==
    CASE x.op = "segmeans" -> \A i \in 1..Len(x.peaks) : x.peaks[i] <= Len(x.sig) - 1
      [] x.op = "adjust" -> \A i \in 1..Len(x.peaks) : x.peaks[i] <= Len(x.sig) - 1
      [] OTHER -> TRUE
AllInputs == {x \in (IF "haarseg" \in Ops THEN HsInputs ELSE {}) \cup (IF "conv" \in Ops THEN CvInputs ELSE {})
                    \cup (IF "peaks" \in Ops THEN PkInputs ELSE {}) \cup (IF "unify" \in Ops THEN UnInputs ELSE {})
                    \cup (IF "segmeans" \in Ops THEN SmInputs ELSE {}) \cup (IF "pulse" \in Ops THEN PcInputs ELSE {})
                    \cup (IF "adjust" \in Ops THEN AjInputs ELSE {}) \cup (IF "coords" \in Ops THEN TcInputs ELSE {}) : InScope(x)}

(* st: the machine's state.  ph: call | conv | peaks | fdr | unify | finish | adjust | done;  lvl: the level (haarseg)  *)
(* or the loop index (adjust);  vals / peaks / addon: the subband, its maxima, the maxima kept;  bps: the breakpoints   *)
(* so far;  trace: the finished levels                                                                              *)
VARIABLES inp, st
vars == <<inp, st>>
St0 == [ph |-> "call", lvl |-> 0, vals |-> <<>>, peaks |-> <<>>, addon |-> <<>>, bps |-> <<>>, trace |-> <<>>]
Init == inp \in AllInputs /\ st = St0
Sigma == HxSigmaFx(inp.sig, inp.U)
Start == /\ st.ph = "call"
         /\ st' = IF inp.op = "haarseg" /\ ~inp.hasraw
                    THEN [st EXCEPT !.ph = IF inp.l0 <= inp.l1 THEN "conv" ELSE "finish", !.lvl = inp.l0]
                  ELSE IF inp.op = "adjust" THEN [st EXCEPT !.ph = IF inp.peaks = <<>> THEN "done" ELSE "adjust", !.lvl = 1, !.bps = inp.peaks]
                  ELSE [st EXCEPT !.ph = "done"]
         /\ UNCHANGED inp
Conv == /\ st.ph = "conv"          \* convRes = HaarConv(I, W, 2 ** level)
        /\ st' = [st EXCEPT !.ph = "peaks", !.vals = HxVals(inp.sig, inp.hasw, inp.w, HxPow2(st.lvl))]
        /\ UNCHANGED inp
Peaks == /\ st.ph = "peaks"        \* peakLoc = FindLocalPeaks(convRes)
         /\ st' = [st EXCEPT !.ph = "fdr", !.peaks = HxPeaksFrom(HxSigns(st.vals), HxUps(st.vals))]
         /\ UNCHANGED inp
Fdr == /\ st.ph = "fdr"            \* T = FDRThres(...); addonPeaks = peaks with |convRes| >= T  (every admissible outcome)
       /\ \E ad \in HxAddons(st.vals, st.peaks, HxPow2(st.lvl), inp.U, inp.hasw, Sigma, inp.qn, inp.qd) :
             st' = [st EXCEPT !.ph = "unify", !.addon = ad]
       /\ UNCHANGED inp
Unify == /\ st.ph = "unify"        \* breakpoints = UnifyLevels(breakpoints, addonPeaks, 2 ** (level - 1))
         /\ LET j == HxUnify(st.bps, st.addon, HxWin(st.lvl))
                lv == [L |-> st.lvl, h |-> HxPow2(st.lvl), inexact |-> FALSE,
                       conv |-> IF inp.hasw THEN <<>> ELSE [k \in 1..Len(st.vals) |-> st.vals[k].a], cobs |-> <<>>,
                       sgn |-> HxSigns(st.vals), up |-> HxUps(st.vals), peaks |-> st.peaks, addon |-> st.addon,
                       win |-> HxWin(st.lvl), joined |-> j]
            IN st' = [st EXCEPT !.ph = IF st.lvl >= inp.l1 THEN "finish" ELSE "conv", !.lvl = st.lvl + 1, !.bps = j,
                                !.trace = Append(st.trace, lv), !.vals = <<>>, !.peaks = <<>>, !.addon = <<>>]
         /\ UNCHANGED inp
Finish == /\ st.ph = "finish"      \* segs = SegmentByPeaks(I, breakpoints, W); the result dict
          /\ st' = [st EXCEPT !.ph = "done"]
          /\ UNCHANGED inp
AdjustStep == /\ st.ph = "adjust"  \* one iteration of `for k, npl_k in enumerate(newPeakLoc)`
              /\ st' = [st EXCEPT !.bps = AjStep(inp.sig, st.bps, st.lvl), !.lvl = st.lvl + 1,
                                  !.ph = IF st.lvl >= Len(inp.peaks) THEN "done" ELSE "adjust"]
              /\ UNCHANGED inp
Next == Start \/ Conv \/ Peaks \/ Fdr \/ Unify \/ Finish \/ AdjustStep
Spec == Init /\ [][Next]_vars

(* the record the A-layer produces for the input (observed floats: the exact value is what HxCloseRat compares, so    *)
(* the design check evaluates the clauses with the exact rationals through RatObs)                                   *)
RatObs(q) == LET f == FxToObs(ZDivTFast(ZMul(HxZI(q[1]), HxTen12), HxZI(q[2]))) IN [nan |-> FALSE, neg |-> f.neg, hi |-> f.hi, lo |-> f.lo]
WObs(vals, U) == [k \in 1..Len(vals) |-> RatObs(<<HxNum(vals[k]), HxDen(vals[k]) * U>>)]
ALayerRec ==
    CASE inp.op = "haarseg" ->
            IF inp.hasraw THEN inp @@ [shape_ok |-> TRUE, sigma |-> NoObs, levels |-> <<>>,
                                    out |-> [start |-> <<>>, end |-> <<>>, size |-> <<>>, mean |-> <<>>],
                                    err |-> IF TriggerHolds("RawIGiven", inp) THEN "ValueError" ELSE ""]
            ELSE LET a == HxResult(inp.sig, inp.U, inp.hasw, inp.w, st.bps)
                     lvs == [t \in 1..Len(st.trace) |->
                                IF inp.hasw THEN [st.trace[t] EXCEPT !.cobs = WObs(HxVals(inp.sig, TRUE, inp.w, st.trace[t].h), inp.U)]
                                ELSE st.trace[t]]
                     sg == FxToObs(Sigma)
                 IN inp @@ [shape_ok |-> TRUE, sigma |-> [nan |-> FALSE, neg |-> sg.neg, hi |-> sg.hi, lo |-> sg.lo], levels |-> lvs,
                            out |-> [start |-> a.start, end |-> a.end, size |-> a.size,
                                     mean |-> [i \in 1..Len(a.mean) |-> RatObs(a.mean[i])]], err |-> ""]
      [] inp.op = "conv" -> LET vals == HxVals(inp.sig, inp.hasw, inp.w, inp.h) IN
            inp @@ [inexact |-> FALSE, conv |-> IF inp.hasw THEN <<>> ELSE [k \in 1..Len(vals) |-> vals[k].a],
                    cobs |-> IF inp.hasw THEN WObs(vals, inp.U) ELSE <<>>, err |-> ""]
      [] inp.op = "peaks" -> inp @@ [out |-> HxPeaksFrom(HxIntSigns(inp.sig), HxIntUps(inp.sig)), err |-> ""]
      [] inp.op = "unify" -> inp @@ [out |-> HxUnify(inp.base, inp.addon, inp.win), err |-> ""]
      [] inp.op = "segmeans" -> inp @@ [out |-> [k1 \in 1..Len(inp.sig) |->
                                                    LET se == SmSegOf(inp, k1 - 1) IN RatObs(HxSegMean(inp.sig, inp.U, inp.hasw, inp.w, se[1], se[2]))],
                                        err |-> ""]
      [] inp.op = "pulse" -> IF inp.size > Len(inp.sig) THEN inp @@ [inexact |-> FALSE, out |-> <<>>, err |-> "ValueError"]
                             ELSE inp @@ [inexact |-> FALSE, out |-> PcCoded(inp.sig, inp.size), err |-> ""]
      [] inp.op = "adjust" -> inp @@ [out |-> st.bps, err |-> ""]
      [] inp.op = "coords" -> LET t == TcCoded(inp.rows) IN inp @@ [x |-> t.x, y |-> t.y, err |-> ""]
(* the rawI path of the code fails (finding RawIGiven): the clause it breaks is excluded from the design check *)
DesignClauses(r) == Clauses(r.op) \ (IF r.op = "haarseg" /\ r.hasraw THEN {"hs_rawI_accepted"} ELSE {})
DesignOK == st.ph = "done" => (Premise(inp) => LET rec == ALayerRec IN
                                  /\ \A c \in DesignClauses(rec) : Holds(c, rec)
                                  /\ ~Drift(rec))
ConvOK == (st.ph = "peaks" /\ ~inp.hasw) =>
             [k \in 1..Len(st.vals) |-> st.vals[k].a] = HxConvDirect(inp.sig, HxPow2(st.lvl))
=============================================================================
