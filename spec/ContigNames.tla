--------------------------- MODULE ContigNames ---------------------------
(* The package's contig-name rule (cnvlib/antitarget.py: re_noncanonical, is_canonical_contig_name), *)
(* shared by Access.tla (C13) and Bins.tla (C12).  A name is text the specification looks *into*,   *)
(* so it is a sequence of character codes (Seq(0..255)), never a TLA+ string.                       *)
(*                                                                                                  *)
(*   re_noncanonical = ^chrEBV$ | ^NC | _random$ | Un_ | ^HLA\- | _alt$ | hap\d$ | chrM | MT         *)
(*   is_canonical_contig_name(name) = not re_noncanonical.search(name)                              *)
EXTENDS Naturals, Sequences

HasSubAt(s, p, k) == /\ k >= 1 /\ k + Len(p) - 1 <= Len(s)
                     /\ \A j \in 1..Len(p) : s[k + j - 1] = p[j]
ContainsSub(s, p) == \E k \in 1..(Len(s) - Len(p) + 1) : HasSubAt(s, p, k)
StartsWithSub(s, p) == HasSubAt(s, p, 1)
EndsWithSub(s, p)   == Len(s) >= Len(p) /\ HasSubAt(s, p, Len(s) - Len(p) + 1)
IsDigitCode(c) == c \in 48..57

txt_chrEBV == <<99, 104, 114, 69, 66, 86>>            \* "chrEBV"
txt_NC     == <<78, 67>>                              \* "NC"
txt_random == <<95, 114, 97, 110, 100, 111, 109>>     \* "_random"
txt_Un     == <<85, 110, 95>>                         \* "Un_"
txt_HLA    == <<72, 76, 65, 45>>                      \* "HLA-"
txt_alt    == <<95, 97, 108, 116>>                    \* "_alt"
txt_hap    == <<104, 97, 112>>                        \* "hap"
txt_chrM   == <<99, 104, 114, 77>>                    \* "chrM"
txt_MT     == <<77, 84>>                              \* "MT"

(* one disjunct per alternative of the regular expression, in its order *)
NonCanonicalName(s) ==
    \/ s = txt_chrEBV                                 \* ^chrEBV$
    \/ StartsWithSub(s, txt_NC)                       \* ^NC
    \/ EndsWithSub(s, txt_random)                     \* _random$
    \/ ContainsSub(s, txt_Un)                         \* Un_
    \/ StartsWithSub(s, txt_HLA)                      \* ^HLA\-
    \/ EndsWithSub(s, txt_alt)                        \* _alt$
    \/ (Len(s) >= 4 /\ HasSubAt(s, txt_hap, Len(s) - 3) /\ IsDigitCode(s[Len(s)]))   \* hap\d$
    \/ ContainsSub(s, txt_chrM)                       \* chrM
    \/ ContainsSub(s, txt_MT)                         \* MT
CanonicalName(s) == ~NonCanonicalName(s)
=============================================================================
