--------------------------- MODULE Num ---------------------------
(* Numbers for a TLC specification (DESIGN.md section 4): TLC has 32-bit integers only.          *)
(*   * magnitudes: little-endian base-10^4 limb sequences without trailing zeros (zero = <<>>)   *)
(*   * signed integers Z: [n |-> negative?, m |-> magnitude]                                      *)
(*   * decimal fixed point Fx: a Z read as value * 10^12 (FL = 3 fractional limbs)                *)
(*   * observed floats enter traces as [neg, hi, lo] with |x| * 10^12 = hi * 10^6 + lo            *)
(* Everything here is exact integer arithmetic; divisions truncate toward zero.                   *)
EXTENDS Naturals, Integers, Sequences, SequencesExt, TLC

B == 10000          \* limb base
FL == 3             \* fractional limbs: scale S = B^FL = 10^12

\* ---------- magnitudes: little-endian limb sequences without trailing zeros; zero = <<>>
RECURSIVE Trim(_)
Trim(x) == IF x # <<>> /\ x[Len(x)] = 0 THEN Trim(SubSeq(x, 1, Len(x)-1)) ELSE x

RECURSIVE MagFromNat(_)
MagFromNat(n) == IF n = 0 THEN <<>> ELSE <<n % B>> \o MagFromNat(n \div B)

RECURSIVE CmpFrom(_, _, _)
CmpFrom(x, y, i) == IF i = 0 THEN 0
                    ELSE IF x[i] < y[i] THEN -1 ELSE IF x[i] > y[i] THEN 1 ELSE CmpFrom(x, y, i-1)
MagCmp(x, y) == IF Len(x) < Len(y) THEN -1 ELSE IF Len(x) > Len(y) THEN 1 ELSE CmpFrom(x, y, Len(x))

RECURSIVE AddC(_, _, _, _)
AddC(x, y, i, c) ==
  IF i > Len(x) /\ i > Len(y) THEN (IF c = 0 THEN <<>> ELSE <<c>>)
  ELSE LET s == (IF i <= Len(x) THEN x[i] ELSE 0) + (IF i <= Len(y) THEN y[i] ELSE 0) + c
       IN <<s % B>> \o AddC(x, y, i+1, s \div B)
MagAdd(x, y) == AddC(x, y, 1, 0)

\* x >= y required
RECURSIVE SubC(_, _, _, _)
SubC(x, y, i, br) ==
  IF i > Len(x) THEN <<>>
  ELSE LET d == x[i] - (IF i <= Len(y) THEN y[i] ELSE 0) - br
       IN IF d < 0 THEN <<d + B>> \o SubC(x, y, i+1, 1) ELSE <<d>> \o SubC(x, y, i+1, 0)
MagSub(x, y) == Trim(SubC(x, y, 1, 0))

RECURSIVE MulLimbC(_, _, _, _)
MulLimbC(x, d, i, c) ==
  IF i > Len(x) THEN (IF c = 0 THEN <<>> ELSE <<c>>)
  ELSE LET p == x[i]*d + c IN <<p % B>> \o MulLimbC(x, d, i+1, p \div B)
MagMulLimb(x, d) == IF d = 0 THEN <<>> ELSE MulLimbC(x, d, 1, 0)

RECURSIVE MulAcc(_, _, _)
MulAcc(x, y, j) == IF j > Len(y) THEN <<>>
   ELSE MagAdd(MulLimbC(x, y[j], 1, 0), <<0>> \o MulAcc(x, y, j+1))
MagMul(x, y) == IF x = <<>> \/ y = <<>> THEN <<>> ELSE Trim(MulAcc(x, y, 1))

\* largest digit q in lo..hi with y*q <= r   (binary search)
RECURSIVE QDigit(_, _, _, _)
QDigit(r, y, lo, hi) ==
  IF lo = hi THEN lo
  ELSE LET mid == (lo + hi + 1) \div 2 IN
       IF MagCmp(Trim(MagMulLimb(y, mid)), r) <= 0 THEN QDigit(r, y, mid, hi) ELSE QDigit(r, y, lo, mid - 1)

\* schoolbook long division, most significant limb first; returns <<quotient, remainder>>
RECURSIVE DivStep(_, _, _, _, _)
DivStep(x, y, i, q, r) ==
  IF i = 0 THEN <<Trim(q), r>>
  ELSE LET r1 == Trim(<<x[i]>> \o r)
           d  == QDigit(r1, y, 0, B-1)
           r2 == MagSub(r1, Trim(MagMulLimb(y, d)))
       IN DivStep(x, y, i-1, <<d>> \o q, r2)
MagDivMod(x, y) == DivStep(x, y, Len(x), <<>>, <<>>)    \* y # <<>>
MagDiv(x, y) == MagDivMod(x, y)[1]

\* ---------- signed integers: [n |-> BOOLEAN (negative), m |-> magnitude]
Z(neg, m) == [n |-> (neg /\ m # <<>>), m |-> m]
ZFromInt(k) == IF k < 0 THEN Z(TRUE, MagFromNat(-k)) ELSE Z(FALSE, MagFromNat(k))
ZNeg(a) == Z(~a.n, a.m)
ZAbs(a) == Z(FALSE, a.m)
ZAdd(a, b) == IF a.n = b.n THEN Z(a.n, MagAdd(a.m, b.m))
              ELSE IF MagCmp(a.m, b.m) >= 0 THEN Z(a.n, MagSub(a.m, b.m)) ELSE Z(b.n, MagSub(b.m, a.m))
ZSub(a, b) == ZAdd(a, ZNeg(b))
ZMul(a, b) == Z(a.n # b.n, MagMul(a.m, b.m))
ZDivT(a, b) == Z(a.n # b.n, MagDiv(a.m, b.m))          \* truncated toward zero
ZCmp(a, b) == IF a.n /\ ~b.n THEN -1 ELSE IF ~a.n /\ b.n THEN 1
              ELSE IF a.n THEN MagCmp(b.m, a.m) ELSE MagCmp(a.m, b.m)
ZLe(a, b) == ZCmp(a, b) <= 0
ZLt(a, b) == ZCmp(a, b) < 0
ZZero == Z(FALSE, <<>>)

\* ---------- fixed point: value = Z / 10^12
ShiftL(m, k) == IF m = <<>> THEN <<>> ELSE [i \in 1..k |-> 0] \o m
ShiftR(m, k) == IF Len(m) <= k THEN <<>> ELSE SubSeq(m, k+1, Len(m))
FxFromZ(a) == Z(a.n, ShiftL(a.m, FL))                  \* integer -> fixed
FxFromRat(num, den) == ZDivT(FxFromZ(ZFromInt(num)), ZFromInt(den))
FxMul(a, b) == Z(a.n # b.n, ShiftR(MagMul(a.m, b.m), FL))
FxDiv(a, b) == Z(a.n # b.n, MagDiv(ShiftL(a.m, FL), b.m))
FxHalf(a) == ZDivT(a, ZFromInt(2))


ZOne == ZFromInt(1)
ZIsZero(a) == a.m = <<>>
ZSign(a) == IF a.m = <<>> THEN 0 ELSE IF a.n THEN -1 ELSE 1
ZMax(a, b) == IF ZLt(a, b) THEN b ELSE a
ZMin(a, b) == IF ZLt(a, b) THEN a ELSE b
RECURSIVE ZSumFrom(_, _)
ZSumFrom(s, i) == IF i > Len(s) THEN ZZero ELSE ZAdd(s[i], ZSumFrom(s, i+1))
ZSum(s) == FoldLeft(LAMBDA acc, x : ZAdd(acc, x), ZZero, s)
ZOfInts(s) == [k \in 1..Len(s) |-> ZFromInt(s[k])]
ZMulInt(a, k) == ZMul(a, ZFromInt(k))
(* exact comparison of rationals a/b ? c/d with b, d > 0 *)
RatCmp(a, b, c, d) == ZCmp(ZMul(a, d), ZMul(c, b))

(* ---------- fixed point helpers *)
FxOne == FxFromZ(ZOne)
FxFromInt(k) == FxFromZ(ZFromInt(k))
FxAbsDiff(a, b) == ZAbs(ZSub(a, b))
FxMax(a, b) == ZMax(a, b)
(* |a - b| <= tol * max(1, |b|)  -- relative/absolute tolerance, tol itself fixed point *)
FxClose(a, b, tol) == ZLe(FxAbsDiff(a, b), IF ZLt(ZAbs(b), FxOne) THEN tol ELSE FxMul(tol, ZAbs(b)))
FxCloseAbs(a, b, tol) == ZLe(FxAbsDiff(a, b), tol)
(* observed float: x * 10^12 = hi * 10^6 + lo, sign separate *)
FxObs(r) == Z(r.neg, MagAdd(MagMul(MagFromNat(r.hi), MagFromNat(1000000)), MagFromNat(r.lo)))
FxTol6 == FxFromRat(1, 1000000)
FxTol9 == FxFromRat(1, 1000000000)

(* integer square root of a magnitude: floor(sqrt(x)), Newton iteration from above *)
RECURSIVE MagSqrtIter(_, _)
MagSqrtIter(x, g) ==   \* g >= floor(sqrt(x)) invariant; stops when the iterate no longer decreases
    LET g2 == MagDiv(MagAdd(g, MagDiv(x, g)), <<2>>) IN
    IF MagCmp(g2, g) >= 0 THEN g ELSE MagSqrtIter(x, g2)
MagSqrt(x) == IF x = <<>> THEN <<>>
              ELSE MagSqrtIter(x, ShiftL(<<1>>, (Len(x) + 1) \div 2))    \* B^ceil(len/2) >= sqrt(x)
FxSqrt(a) == Z(FALSE, MagSqrt(ShiftL(a.m, FL)))     \* a >= 0

(* ---------- sorting / order statistics of Z (or Fx) sequences: stable insertion sort *)
RECURSIVE ZInsert(_, _)
ZInsert(sorted, x) == IF sorted = <<>> THEN <<x>>
                      ELSE IF ZLt(x, Head(sorted)) THEN <<x>> \o sorted
                      ELSE <<Head(sorted)>> \o ZInsert(Tail(sorted), x)
RECURSIVE ZSortFrom(_, _)
ZSortFrom(s, acc) == IF s = <<>> THEN acc ELSE ZSortFrom(Tail(s), ZInsert(acc, Head(s)))
ZSort(s) == ZSortFrom(s, <<>>)
FxHalfOf(a) == ZDivT(a, ZFromInt(2))
FxMedian(s) == LET t == ZSort(s)  n == Len(t) IN
               IF n % 2 = 1 THEN t[(n+1) \div 2] ELSE FxHalfOf(ZAdd(t[n \div 2], t[n \div 2 + 1]))

(* plain-integer helpers (values that are known to stay below 2^31) *)
RECURSIVE IInsert(_, _)
IInsert(sorted, x) == IF sorted = <<>> THEN <<x>>
                      ELSE IF x < Head(sorted) THEN <<x>> \o sorted
                      ELSE <<Head(sorted)>> \o IInsert(Tail(sorted), x)
RECURSIVE ISortFrom(_, _)
ISortFrom(s, acc) == IF s = <<>> THEN acc ELSE ISortFrom(Tail(s), IInsert(acc, Head(s)))
ISort(s) == ISortFrom(s, <<>>)
ISum(s) == FoldLeft(LAMBDA acc, x : acc + x, 0, s)      \* iterative (no deep recursion on long sequences)
IAbs(x) == IF x < 0 THEN -x ELSE x
IMin(s) == LET t == ISort(s) IN t[1]
IMax(s) == LET t == ISort(s) IN t[Len(t)]
(* twice the median of an integer sequence (exact, no halves) *)
IMedian2(s) == LET t == ISort(s)  n == Len(t) IN
               IF n % 2 = 1 THEN 2 * t[(n+1) \div 2] ELSE t[n \div 2] + t[n \div 2 + 1]
=============================================================================
