--------------------------- MODULE Trace_Fix ---------------------------
(* Trace validation for C04: one record per recorded do_fix call of the real code (with the second call of   *)
(* the pair -- depth rescaled / rows permuted -- in r.var); verdicts are carried as state (total verdicts)    *)
(* and read from the dump.                                                                                   *)
EXTENDS Fix, Json, IOUtils
Trace == JsonDeserialize(IOEnv.TRACE_FILE)
VARIABLES i, ph, failed, scope, triggers, drift, checked, undecided
vars == <<i, ph, failed, scope, triggers, drift, checked, undecided>>
Init == /\ i \in 1..Len(Trace) /\ ph = "call"
        /\ failed = {} /\ scope = TRUE /\ triggers = {} /\ drift = FALSE /\ checked = {} /\ undecided = {}
Next == /\ ph = "call" /\ ph' = "ret" /\ UNCHANGED i
        /\ LET r == Trace[i] IN
           /\ scope' = Premise(r)
           /\ checked' = IF scope' THEN Clauses(r.op) ELSE {}
           /\ failed' = {c \in checked' : ~Holds(c, r)}
           /\ undecided' = {c \in checked' : Undecided(c, r)}
           /\ triggers' = {t \in KnownTriggers : TriggerHolds(t, r)}
           /\ drift' = (scope' /\ failed' = {} /\ Drift(r))
Spec == Init /\ [][Next]_vars
NoFailure == failed = {}
=============================================================================
