--------------------------- MODULE Trace_Centering ---------------------------
(* Trace validation for C15: one recorded call of the real code per record; verdicts are     *)
(* carried as state (total verdicts) and read from the dump.                                 *)
EXTENDS Centering, Json, IOUtils
Trace == JsonDeserialize(IOEnv.TRACE_FILE)
VARIABLES i, ph, failed, scope, triggers, drift, checked, undecided
vars == <<i, ph, failed, scope, triggers, drift, checked, undecided>>
Init == /\ i \in 1..Len(Trace) /\ ph = "call"
        /\ failed = {} /\ scope = TRUE /\ triggers = {} /\ drift = FALSE /\ checked = {} /\ undecided = {}
Next == /\ ph = "call" /\ ph' = "ret" /\ UNCHANGED i
        /\ LET r == Trace[i] IN
           /\ scope' = Premise(r)
           /\ checked' = IF scope' THEN Clauses(r.op) ELSE {}
           /\ undecided' = IF scope' THEN Undecided(r) ELSE {}        \* a tied mode (Centering.Undecided)
           /\ failed' = {c \in checked' \ undecided' : ~Holds(c, r)}
           /\ triggers' = {t \in KnownTriggers : TriggerHolds(t, r)}
           /\ drift' = (scope' /\ failed' = {} /\ Drift(r))
Spec == Init /\ [][Next]_vars
NoFailure == failed = {}
=============================================================================
