--------------------------- MODULE MC_Segmetrics ---------------------------
(* Design check + enumerator for C17: every input of a small scope, one step computing the A-layer result          *)
(* (Segmetrics.ALayer: the cnvkit code case for case); invariant DesignOK = every P-layer clause that the model     *)
(* can evaluate holds on it.  The dump of this run is replayed into the real cnvlib code (direction 1).             *)
(*   Fam = "stat"  one segment over n abutting bins: all log2 vectors of length 0..MaxLen over Vals x segment log2  *)
(*                 in SVals; every statistic requested                                                             *)
(*   Fam = "sel"   which bins: all sorted bin tables (<= MaxBins rows, overlapping / nested / duplicate rows        *)
(*                 allowed) x all sorted non-overlapping segment tables (<= MaxSegs rows) over coordinates          *)
(*                 0..MaxCoord on 1..NChrom chromosomes x skip_low; bin 2 is below the low-coverage cut, bin 3 has  *)
(*                 depth 0; cheap statistics requested (the selection is what is enumerated)                        *)
(*   Fam = "bt"    which bins bintest tests: the same tables x target_only x alpha choice (pick); bin 2 is          *)
(*                 off-target, bin 3 has weight 1                                                                  *)
(*   Fam = "bh"    p_adjust_bh: all p-vectors of length 0..MaxLen over {0, 1/4, 1/2, 1}                             *)
(* The input record is assembled in the Call step (TLC computes initial states in one thread).                      *)
EXTENDS Segmetrics
CONSTANTS Fam, MaxCoord, NChrom, MaxBins, MaxSegs, MaxLen, Vals, SVals, An, Ad

SegCols == <<"chromosome", "start", "end", "gene", "log2", "probes", "weight">>
Seqs0(S, n) == UNION {[1..k -> S] : k \in 0..n}
PSet == {<<0, 1>>, <<1, 4>>, <<1, 2>>, <<1, 1>>}

Rows3 == {<<c, s, e>> : c \in 1..NChrom, s \in 0..MaxCoord, e \in 0..MaxCoord}
PosRows3 == {x \in Rows3 : x[2] < x[3]}
RECURSIVE Tabs(_)
Tabs(n) == IF n = 0 THEN {<<>>}
           ELSE LET prev == Tabs(n - 1) IN prev \cup {Append(t, x) : t \in {p \in prev : Len(p) = n - 1}, x \in PosRows3}
BinTables == {t \in Tabs(MaxBins) : \A k \in 1..Len(t) - 1 : Row3Leq(t[k], t[k + 1])}
SegTables == {t \in Tabs(MaxSegs) : \A k \in 1..Len(t) - 1 :
                 t[k][1] < t[k + 1][1] \/ (t[k][1] = t[k + 1][1] /\ t[k][3] <= t[k + 1][2])}

(* log2 by position (units 1/64): 0.25, -16.25 (below the cut of -15), 0.75, ... ; segment log2 0.125 j *)
LgOf(k) == IF k = 2 THEN -1040 ELSE 16 * k
BinRow(x, k, w, anti, dz) == <<x[1], x[2], x[3], LgOf(k), w, anti, dz>>
SegRow(x, j) == <<x[1], x[2], x[3], 8 * j, j, 64, "G">>

BlankSm == [op |-> "segmetrics", LU |-> 64, WU |-> 64, hasdepth |-> TRUE, bins |-> <<>>, segs |-> <<>>, icols |-> SegCols,
            loc |-> <<>>, spr |-> <<>>, itv |-> <<>>, an |-> An, ad |-> Ad, boots |-> 10, smoothed |-> FALSE,
            skip_low |-> FALSE]
BlankBt == [op |-> "bintest", LU |-> 64, WU |-> 64, bins |-> <<>>, segs |-> <<>>, hassegs |-> TRUE, target_only |-> FALSE,
            an |-> An, ad |-> Ad, pick |-> 0]

MkStat(v, sl) ==
    LET n == Len(v) IN
    [BlankSm EXCEPT !.bins = [k \in 1..n |-> <<1, 10 * (k - 1), 10 * k, v[k], 32, 0, 0>>],
                    !.segs = << <<1, 0, 10 * (IF n = 0 THEN 1 ELSE n), sl, n, 64, "G">> >>,
                    !.loc = <<"mean", "median", "mode", "p_ttest">>,
                    !.spr = <<"stdev", "mad", "mse", "iqr", "bivar", "sem">>,
                    !.itv = <<"ci", "pi">>]
MkSel(bt, st, skip) ==
    [BlankSm EXCEPT !.bins = [k \in 1..Len(bt) |-> BinRow(bt[k], k, 32, 0, IF k = 3 THEN 1 ELSE 0)],
                    !.segs = [j \in 1..Len(st) |-> SegRow(st[j], j)],
                    !.loc = <<"median", "mean">>, !.spr = <<"mse">>, !.itv = <<"ci">>,
                    !.skip_low = skip]
MkBt(bt, st, tonly, pick) ==
    [BlankBt EXCEPT !.bins = [k \in 1..Len(bt) |-> <<bt[k][1], bt[k][2], bt[k][3], 16 * k, IF k = 3 THEN 64 ELSE 32,
                                                     IF k = 2 THEN 1 ELSE 0, 0>>],
                    !.segs = [j \in 1..Len(st) |-> SegRow(st[j], j)],
                    !.hassegs = (Len(st) > 0), !.target_only = tonly, !.pick = pick]
MkBh(ps) == [op |-> "bh", ps |-> ps]

VARIABLES a, b, f1, f2, ph, inp, res
vars == <<a, b, f1, f2, ph, inp, res>>

Choose ==
    \/ /\ Fam = "stat"
       /\ a \in Seqs0(Vals, MaxLen) /\ b \in {<<sl>> : sl \in SVals} /\ f1 = FALSE /\ f2 = 0
    \/ /\ Fam = "sel"
       /\ a \in BinTables /\ b \in SegTables /\ f1 \in BOOLEAN /\ f2 = 0
    \/ /\ Fam = "bt"
       /\ a \in BinTables /\ b \in SegTables /\ f1 \in BOOLEAN /\ f2 \in {0, 1}
    \/ /\ Fam = "bh"
       /\ a \in Seqs0(PSet, MaxLen) /\ b = <<>> /\ f1 = FALSE /\ f2 = 0

Mk == CASE Fam = "stat" -> MkStat(a, b[1])
        [] Fam = "sel" -> MkSel(a, b, f1)
        [] Fam = "bt" -> MkBt(a, b, f1, f2)
        [] Fam = "bh" -> MkBh(a)

Init == Choose /\ ph = "call" /\ inp = [op |-> ""] /\ res = [err |-> ""]
Call == /\ ph = "call" /\ ph' = "ret"
        /\ inp' = Mk
        /\ res' = IF Fam = "bt" THEN [err |-> "", t_ids |-> TestedCode(inp')] ELSE ALayer(inp')
        /\ UNCHANGED <<a, b, f1, f2>>
Next == Call
Spec == Init /\ [][Next]_vars
Rec == inp @@ res

(* design-level statement: the algorithm as modelled satisfies every clause of the property the model can evaluate  *)
(* (bintest: the set of tested bins; its p-values need the real normal CDF and are judged on real outputs only)     *)
DesignOK ==
    (ph = "ret" /\ Premise(inp)) =>
        IF Fam = "bt" THEN TestedOK(Rec) /\ Holds("bt_on_target_only_when_asked", Rec)
        ELSE \A c \in Clauses(inp.op) : Holds(c, Rec)
(* the stored-vector BH of this module is Stats.BHAdjust *)
DesignBHIsLibraryBH ==
    (ph = "ret" /\ Fam = "bh") => LET x == SmBHRat(inp.ps)  y == BHAdjust(inp.ps) IN
                                   Len(x) = Len(y) /\ \A i \in 1..Len(x) : ZRatEq(x[i], y[i])
(* the selection itself, stated directly: the code's searchsorted / mask slices are exactly the overlapping bins *)
DesignSelection ==
    (ph = "ret" /\ Fam = "sel" /\ Premise(inp)) => \A j \in 1..NSeg(inp) : SelCode(inp, j) = Sel(inp, j)
(* what the unrepaired mean_squared_error would have produced -- kept to show the defect in the model *)
DesignOldMse ==
    (ph = "ret" /\ Fam = "stat") =>
        LET idx == Sel(inp, 1)  d == DevsFx(inp, idx, 1)
            old == IF Len(d) = 0 THEN SmNaN ELSE SmVal(MseCodeOld(d))
        IN Holds("sm_mse", [Rec EXCEPT !.out.mse = <<ToObs(old)>>])
=============================================================================
