--------------------------- MODULE Trace_HaarSeg ---------------------------
(* Trace validation for X06 (HaarSeg): one recorded call of the real code per record (for haarSeg the record holds   *)
(* the recorded level-by-level run); verdicts are carried as state (total verdicts) and read from the dump.          *)
(* `undecided` holds the clauses whose A-layer counterpart the Phi table could not settle (counted, never a verdict). *)
EXTENDS HaarSeg, Json, IOUtils
Trace == JsonDeserialize(IOEnv.TRACE_FILE)
VARIABLES i, ph, failed, scope, triggers, drift, checked, undecided
vars == <<i, ph, failed, scope, triggers, drift, checked, undecided>>
Init == /\ i \in 1..Len(Trace) /\ ph = "call"
        /\ failed = {} /\ scope = TRUE /\ triggers = {} /\ drift = FALSE /\ checked = {} /\ undecided = {}
Next == /\ ph = "call" /\ ph' = "ret" /\ UNCHANGED i
        /\ LET r == Trace[i] IN
           /\ scope' = Premise(r)
           /\ checked' = IF scope' THEN Clauses(r.op) ELSE {}
           /\ failed' = {c \in checked' : ~Holds(c, r)}
           /\ triggers' = {t \in KnownTriggers : TriggerHolds(t, r)}
           /\ LET j == IF scope' THEN Judge(r) ELSE [drift |-> FALSE, open |-> FALSE] IN      \* = Drift(r), Undecided(c, r)
              /\ undecided' = IF j.open THEN {"hs_threshold"} \cap checked' ELSE {}
              /\ drift' = (scope' /\ failed' = {} /\ j.drift)
Spec == Init /\ [][Next]_vars
NoFailure == failed = {}
=============================================================================
