--------------------------- MODULE MC_BinDesign ---------------------------
(* Design check + enumerator for X01: the bin-design pipeline as a state machine, one action per step          *)
(*     Access, Target (independent: both interleavings are explored), Antitarget, FlatReference                 *)
(* over an abstract file system `fs` holding the tables; every step computes the A-layer result from the       *)
(* tables the steps before it left in `fs`.  The P-layer clauses are invariants of every reachable state       *)
(* (DesignOK); every finished behaviour (pc = "done") is replayed into the real functions through real files.  *)
(*                                                                                                            *)
(* Everything is on an abstract grid: one unit = 500/Pad real bases (Pad = 1 or 2), so the package's 500-base   *)
(* margin is Pad units and its 150000-base telomere guess is Telo = 300 * Pad units; the harness maps grid       *)
(* coordinate x to x * 500/Pad (run lengths of the genome, exclude rows, baits, min_gap and the bin sizes).    *)
(* Here the Access step runs C13's line scanner (Access.tla) on the genome text expanded from its run-length   *)
(* form and wrapped at LineWidth; ScannerAgreesWithRuns ties it to the scanner-free A-layer of BinDesign.tla.  *)
EXTENDS BinDesign
CONSTANTS Scope,      \* "genome" | "baits" | "contigs" | "telomere"
          Pad, Telo,
          GLen,       \* length of a sequence in grid units
          LineWidth,  \* line width of the abstract FASTA text
          ExPoints,   \* exclude rows [s, e) with s < e from this set (plus: no exclude file)
          Gaps,       \* min_gap_size values
          MaxBaits, MaxW,    \* baits: <= MaxBaits rows of width 0..MaxW
          TgtAvgs,    \* target --split average sizes
          Sizes,      \* antitarget: codes avg * 100 + min (min = 0: not given); cfg files cannot hold tuples
          Hapxs,      \* values of is_haploid_x_reference
          Namings     \* indices into NameTable

NameTable == <<
   << <<99,104,114,49>>, <<99,104,114,88>>, <<99,104,114,89>> >>,                       \* chr1 chrX chrY
   << <<99,104,114,49>>, <<99,104,114,49,48>>, <<99,104,114,77>> >>,                    \* chr1 chr10 chrM
   << <<99,104,114,49,48>>, <<99,104,114,77>>, <<99,104,114,85,110,95,120>> >>,         \* chr10 chrM chrUn_x
   << <<50>>, <<88>>, <<77,84>> >>,                                                     \* 2 X MT
   << <<99,104,114,50>>, <<99,104,114,89>>, <<99,104,114,49,95,97,108,116>> >>,         \* chr2 chrY chr1_alt
   << <<99,104,114,77>>, <<99,104,114,85,110,95,120>>, <<99,104,114,49,95,97,108,116>> >> >>   \* chrM chrUn_x chr1_alt

NCode == 78
ACode == 65
Repeat(x, n) == [j \in 1..n |-> x]
(* run-length form of a text given as a function 1..n -> {0, 1} (1 = N) *)
RECURSIVE RleFrom(_, _, _)
RleFrom(t, k, acc) ==
    IF k > Len(t) THEN acc
    ELSE IF acc # <<>> /\ acc[Len(acc)][1] = t[k]
         THEN RleFrom(t, k + 1, [acc EXCEPT ![Len(acc)] = <<@[1], @[2] + 1>>])
         ELSE RleFrom(t, k + 1, Append(acc, <<t[k], 1>>))
Rle(t) == RleFrom(t, 1, <<>>)
Expand(runs) == FlattenSeq([k \in 1..Len(runs) |-> Repeat(IF runs[k][1] = 1 THEN NCode ELSE ACode, runs[k][2])])
Wrap(t, w) == [j \in 1..((Len(t) + w - 1) \div w) |->
                 <<1, SubSeq(t, (j-1)*w + 1, IF j*w < Len(t) THEN j*w ELSE Len(t))>>]
FastaLines(genome, names) ==
    FlattenSeq([k \in 1..Len(genome) |-> << <<0, names[genome[k].c]>> >> \o Wrap(Expand(genome[k].runs), LineWidth)])

Texts(n) == [1..n -> {0, 1}]
RowSet(c, wmin, wmax, lo, hi) == {x \in {<<c, s, e, "">> : s \in lo..hi, e \in lo..hi} : E(x) - S(x) >= wmin /\ E(x) - S(x) <= wmax}
Lab(x) == <<C(x), S(x), E(x), IF (S(x) + E(x)) % 2 = 0 THEN "g" ELSE "h">>          \* a label per bait, two values
RECURSIVE Tabs(_, _)
Tabs(rows, n) == IF n = 0 THEN {<<>>}
                 ELSE LET prev == Tabs(rows, n-1) IN prev \cup {Append(t, x) : t \in {p \in prev : Len(p) = n-1}, x \in rows}
SortedTabs(rows, n) == {t \in Tabs(rows, n) : \A k \in 1..Len(t)-1 : IV!RowLeq(t[k], t[k+1])}
ExclChoices == {<<>>} \cup {<< << <<1, p[1], p[2], "">> >> >> : p \in {q \in ExPoints \X ExPoints : q[1] < q[2]}}
Subsets3 == SUBSET (1..3) \ {{}}
OneRowEach(cs, s, e) == LET q == SetToSortSeq(cs, <) IN [k \in 1..Len(q) |-> Lab(<<q[k], s, e, "">>)]

(* the abstract file system: inputs (genome, excl, baits) and the artefact each step writes; `done` = files present *)
VARIABLES fs, par, done, pc
vars == <<fs, par, done, pc>>

Empty == [genome |-> <<>>, excl |-> <<>>, baits |-> <<>>, access |-> <<>>, targets |-> <<>>, antitargets |-> <<>>,
          anti_err |-> "", reference |-> <<>>]
ParOf(names, gap, skip, split, an, sz, hapx) ==
    [names |-> names, gap |-> gap, skip |-> skip, split |-> split, an |-> an, avg |-> sz \div 100, min |-> sz % 100, hapx |-> hapx]

InitGenome ==     \* every text of GLen characters over {N, A} x exclude row x min_gap x sizes; one bait in the middle
    \E t \in Texts(GLen), ex \in ExclChoices, gap \in Gaps, sz \in Sizes :
        /\ fs = [Empty EXCEPT !.genome = << [c |-> 1, runs |-> Rle(t)] >>, !.excl = ex,
                              !.baits = << Lab(<<1, GLen \div 2, GLen \div 2 + 1, "">>) >>]
        /\ par = ParOf(NameTable[1], gap, TRUE, FALSE, 1, sz, FALSE)
BaitsGenome == << <<1, 1>>, <<0, (GLen - 3) \div 2>>, <<1, 1>>, <<0, GLen - 3 - (GLen - 3) \div 2>>, <<1, 1>> >>
InitBaits ==      \* a fixed genome N A.. N A.. N; every bait table (zero-width, nested, abutting, duplicate rows) x split x avg
    \E b \in SortedTabs({Lab(x) : x \in RowSet(1, 0, MaxW, 0, GLen)}, MaxBaits), gap \in Gaps, sz \in Sizes,
       split \in BOOLEAN, hapx \in Hapxs :
      \E an \in (IF split THEN TgtAvgs ELSE {1}) :
        /\ NonEmptyRows(b) # <<>>
        /\ fs = [Empty EXCEPT !.genome = << [c |-> 1, runs |-> BaitsGenome] >>, !.baits = b]
        /\ par = ParOf(NameTable[1], gap, TRUE, split, an, sz, hapx)
SecondContig == { << <<0, GLen>> >>, << <<1, GLen>> >>, << <<0, 3>>, <<1, GLen - 6>>, <<0, 3>> >> }
InitContigs ==    \* two sequences (the second: accessible / all N / with a gap) + a contig that is only baited; names, skip, sex
    \E n \in Namings, tc \in Subsets3, g2 \in SecondContig, skip \in BOOLEAN, hapx \in Hapxs, gap \in Gaps, sz \in Sizes :
        /\ fs = [Empty EXCEPT !.genome = << [c |-> 1, runs |-> << <<0, GLen>> >>], [c |-> 2, runs |-> g2] >>,
                              !.baits = OneRowEach(tc, GLen \div 2, GLen \div 2 + 1)]
        /\ par = ParOf(NameTable[n], gap, skip, FALSE, 1, sz, hapx)
TeloLen == Telo + 12
ExAll == << << <<1, 0, TeloLen, "">> >> >>                                \* one exclude file covering the whole sequence
TeloCases == { << << <<1, TeloLen>> >>, <<>> >>,                          \* all N
               << << <<1, Telo>>, <<0, 12>> >>, <<>> >>,                  \* accessible only beyond the telomere guess
               << << <<1, Telo>>, <<0, 12>> >>, ExAll >>,                 \* ... and that excluded
               << << <<0, TeloLen>> >>, ExAll >> }                        \* all accessible, all of it excluded
InitTelomere ==   \* a sequence longer than the telomere guess whose access table is empty / short: `if accessible:`
    \E tc \in TeloCases, sz \in Sizes, b2 \in {0, 1} :
        /\ fs = [Empty EXCEPT !.genome = << [c |-> 1, runs |-> tc[1]] >>, !.excl = tc[2],
                              !.baits = IF b2 = 0 THEN << Lab(<<1, Telo + 6, Telo + 7, "">>) >>
                                        ELSE << Lab(<<1, Telo + 4, Telo + 5, "">>), Lab(<<1, Telo + 10, Telo + 11, "">>) >>]
        /\ par = ParOf(NameTable[1], 0, TRUE, FALSE, 1, sz, FALSE)

Init == /\ done = {} /\ pc = "run"
        /\ CASE Scope = "genome" -> InitGenome
             [] Scope = "baits" -> InitBaits
             [] Scope = "contigs" -> InitContigs
             [] Scope = "telomere" -> InitTelomere

(* the record of BinDesign.tla for the current state: what the harness records of a real run that got this far *)
Rec == [op |-> "pipeline", names |-> par.names, genome |-> fs.genome, excl |-> fs.excl, gap |-> par.gap, skip |-> par.skip,
        baits |-> fs.baits, split |-> par.split, an |-> par.an, ad |-> 1, avg |-> par.avg, min |-> par.min,
        pad |-> Pad, telo |-> Telo, hapx |-> par.hapx, ref_fa |-> FALSE, hasgc |-> FALSE, chain |-> "files",
        ran_access |-> "access" \in done, ran_target |-> "target" \in done, ran_anti |-> "antitarget" \in done,
        ran_ref |-> "reference" \in done,
        access |-> fs.access, access_err |-> "", targets |-> fs.targets, targets_err |-> "",
        antitargets |-> fs.antitargets, anti_err |-> fs.anti_err, reference |-> fs.reference, ref_err |-> ""]

(* ---- one action per pipeline step ---- *)
ScannerAccess == AC!ALayer([op |-> "access", fasta |-> FastaLines(fs.genome, par.names), excl |-> fs.excl,
                            gap |-> par.gap, skip |-> par.skip, out |-> <<>>, err |-> ""])
(* the scanner numbers sequences in file order; fs.genome[k].c is the contig id of the k-th sequence *)
Renumber(t) == [k \in Idx(t) |-> <<fs.genome[C(t[k])].c, S(t[k]), E(t[k]), "">>]
Access == /\ pc = "run" /\ "access" \notin done
          /\ fs' = [fs EXCEPT !.access = Renumber(ScannerAccess)]
          /\ done' = done \cup {"access"} /\ UNCHANGED <<par, pc>>
Target == /\ pc = "run" /\ "target" \notin done
          /\ fs' = [fs EXCEPT !.targets = TargetA(Rec)]
          /\ done' = done \cup {"target"} /\ UNCHANGED <<par, pc>>
Antitarget ==
    /\ pc = "run" /\ {"access", "target"} \subseteq done /\ "antitarget" \notin done
    /\ LET r == [Rec EXCEPT !.ran_anti = TRUE] IN
       IF AntiErrA(r)        \* compare_chrom_names refuses disjoint name sets: the pipeline stops here
       THEN fs' = [fs EXCEPT !.anti_err = "ValueError"] /\ pc' = "done"
       ELSE fs' = [fs EXCEPT !.antitargets = AntiA(r)] /\ pc' = pc
    /\ done' = done \cup {"antitarget"} /\ UNCHANGED par
FlatReference ==
    /\ pc = "run" /\ "antitarget" \in done /\ "reference" \notin done
    /\ LET r == Rec
           rows == RefRowsA(r)
           ref == [p \in 1..Len(rows) |->
                     LET o == [c |-> rows[p][1], s |-> rows[p][2], e |-> rows[p][3], g |-> rows[p][4], lok |-> TRUE]
                     IN [o EXCEPT !.lok = TRUE] @@ [l4 |-> 4 * FlatWantA(r, o)]]
       IN fs' = [fs EXCEPT !.reference = SubSeq(ref, 1, Len(rows))]    \* (SubSeq: evaluate the table here, once)
    /\ done' = done \cup {"reference"} /\ pc' = "done" /\ UNCHANGED par
Next == Access \/ Target \/ Antitarget \/ FlatReference
Spec == Init /\ [][Next]_vars

(* ---- design-level statements ---- *)
(* every clause of the P-layer holds in every reachable state (clauses of steps not yet taken do not apply) *)
DesignOK == Premise(Rec) /\ \A c \in Clauses("pipeline") : Holds(c, Rec)
(* ... except on inputs characterised by the trigger of this module's finding (the C12 findings are excluded by the   *)
(* clauses themselves)                                                                                               *)
DesignOKModuloKnown == Premise(Rec) /\ (\/ \A c \in Clauses("pipeline") : Holds(c, Rec)
                                        \/ TriggerHolds("EmptyAccessGuessed", Rec))
(* the line scanner of Access.tla on the expanded text and the run-length A-layer of BinDesign.tla are one function *)
ScannerAgreesWithRuns == "access" \in done => fs.access = AccessA(Rec)
(* the access table of a finished Access step is the one the documentation specifies *)
AccessIsExpected == "access" \in done => IV!SortRows(fs.access) = ExpectedAccess(Rec)
(* the model never drifts from itself *)
NoSelfDrift == ~Drift(Rec)
(* types / progress: a finished behaviour has every artefact or stopped at the antitarget step with the name error *)
DoneOK == pc = "done" => (done = {"access", "target", "antitarget", "reference"} \/ fs.anti_err # "")
=============================================================================
