--------------------------- MODULE Calling ---------------------------
(* Copy-number calling of CNVkit (cnvlib/call.py: do_call and its helpers), in RATIO SPACE.    *)
(*                                                                                            *)
(* TLA+ has no log2 / 2^x, so a log2 ratio v is carried as the exact rational q = 2^v = n/d   *)
(* (a "point" [n, d, t] with t = 0), or -- for the four literal default thresholds            *)
(* -1.1, -0.25, 0.2, 0.7, which are not logs of small rationals -- as a tag t \in 1..4 whose  *)
(* value 2^t is only known to lie in a published rational bracket.  The driver converts       *)
(* v = math.log2(n/d) on the way in and 2**v (scaled by 10^6) on the way out; equal rationals *)
(* give the identical float and the order of two log2 values is the order of their rationals. *)
(*                                                                                            *)
(* P-layer  = properties C01 / C02 as stated.                                                 *)
(* A-layer  = call.py branch for branch (row masks -> reference/expect copies ->              *)
(*            absolute_clonal / absolute_pure / absolute_threshold -> log2_ratios -> rounding *)
(*            -> allelic split).                                                              *)
(* Verdicts come from the P-layer only; A-layer disagreement is MODEL-DRIFT.                  *)
EXTENDS Karyotype, FiniteSets, TLC

(* ===================================================================================== *)
(* 1. Exact arithmetic beyond TLC's 32-bit integers: magnitudes are little-endian base-10^4 *)
(*    limb sequences without trailing zeros (zero = <<>>); Z = signed; ZRat = Z / magnitude. *)
(* ===================================================================================== *)
BgB == 10000
RECURSIVE BgTrim(_)
BgTrim(x) == IF x # <<>> /\ x[Len(x)] = 0 THEN BgTrim(SubSeq(x, 1, Len(x)-1)) ELSE x
RECURSIVE BgNat(_)
BgNat(n) == IF n = 0 THEN <<>> ELSE <<n % BgB>> \o BgNat(n \div BgB)        \* n >= 0
RECURSIVE BgCmpFrom(_, _, _)
BgCmpFrom(x, y, i) == IF i = 0 THEN 0
                      ELSE IF x[i] < y[i] THEN -1 ELSE IF x[i] > y[i] THEN 1 ELSE BgCmpFrom(x, y, i-1)
BgCmp(x, y) == IF Len(x) < Len(y) THEN -1 ELSE IF Len(x) > Len(y) THEN 1 ELSE BgCmpFrom(x, y, Len(x))
RECURSIVE BgAddC(_, _, _, _)
BgAddC(x, y, i, c) ==
    IF i > Len(x) /\ i > Len(y) THEN (IF c = 0 THEN <<>> ELSE <<c>>)
    ELSE LET s == (IF i <= Len(x) THEN x[i] ELSE 0) + (IF i <= Len(y) THEN y[i] ELSE 0) + c
         IN <<s % BgB>> \o BgAddC(x, y, i+1, s \div BgB)
BgAdd(x, y) == BgAddC(x, y, 1, 0)
RECURSIVE BgSubC(_, _, _, _)
BgSubC(x, y, i, br) ==                                                        \* x >= y
    IF i > Len(x) THEN <<>>
    ELSE LET d == x[i] - (IF i <= Len(y) THEN y[i] ELSE 0) - br
         IN IF d < 0 THEN <<d + BgB>> \o BgSubC(x, y, i+1, 1) ELSE <<d>> \o BgSubC(x, y, i+1, 0)
BgSub(x, y) == BgTrim(BgSubC(x, y, 1, 0))
RECURSIVE BgMulLimbC(_, _, _, _)
BgMulLimbC(x, d, i, c) ==
    IF i > Len(x) THEN (IF c = 0 THEN <<>> ELSE <<c>>)
    ELSE LET p == x[i]*d + c IN <<p % BgB>> \o BgMulLimbC(x, d, i+1, p \div BgB)
BgMulLimb(x, d) == IF d = 0 THEN <<>> ELSE BgTrim(BgMulLimbC(x, d, 1, 0))     \* 0 <= d < 10^4
RECURSIVE BgMulAcc(_, _, _)
BgMulAcc(x, y, j) == IF j > Len(y) THEN <<>>
                     ELSE BgAdd(BgMulLimbC(x, y[j], 1, 0), <<0>> \o BgMulAcc(x, y, j+1))
(* value of a magnitude of at most two limbs (< 10^8); fast paths on native integers *)
BgVal2(x) == IF x = <<>> THEN 0 ELSE IF Len(x) = 1 THEN x[1] ELSE x[1] + x[2] * BgB
BgMul(x, y) == IF x = <<>> \/ y = <<>> THEN <<>>
               ELSE IF Len(x) <= 2 /\ Len(y) <= 2 /\ BgVal2(x) <= 2147483647 \div BgVal2(y)
                    THEN BgNat(BgVal2(x) * BgVal2(y))
               ELSE BgTrim(BgMulAcc(x, y, 1))
(* schoolbook long division, most significant limb first; quotient limb by binary search     *)
RECURSIVE BgQDigit(_, _, _, _)
BgQDigit(r, y, lo, hi) ==
    IF lo = hi THEN lo
    ELSE LET mid == (lo + hi + 1) \div 2 IN
         IF BgCmp(BgMulLimb(y, mid), r) <= 0 THEN BgQDigit(r, y, mid, hi) ELSE BgQDigit(r, y, lo, mid - 1)
RECURSIVE BgDivStep(_, _, _, _, _)
BgDivStep(x, y, i, q, r) ==
    IF i = 0 THEN <<BgTrim(q), r>>
    ELSE LET r1 == BgTrim(<<x[i]>> \o r)
             d  == BgQDigit(r1, y, 0, BgB - 1)
             r2 == BgSub(r1, BgMulLimb(y, d))
         IN BgDivStep(x, y, i-1, <<d>> \o q, r2)
BgDivMod(x, y) ==                                            \* y # <<>>;  <<quotient, remainder>>
    IF Len(x) <= 2 /\ Len(y) <= 2 THEN <<BgNat(BgVal2(x) \div BgVal2(y)), BgNat(BgVal2(x) % BgVal2(y))>>
    ELSE IF BgCmp(x, y) < 0 THEN <<<<>>, x>>
    ELSE BgDivStep(x, y, Len(x), <<>>, <<>>)
BgEven(x) == x = <<>> \/ x[1] % 2 = 0
BgOne == <<1>>

Z(neg, m)   == [neg |-> (neg /\ m # <<>>), m |-> m]
ZInt(k)     == IF k < 0 THEN Z(TRUE, BgNat(-k)) ELSE Z(FALSE, BgNat(k))
ZNorm(a)    == Z(a.neg, BgTrim(a.m))
ZNeg(a)     == Z(~a.neg, a.m)
ZAdd(a, b)  == IF a.neg = b.neg THEN Z(a.neg, BgAdd(a.m, b.m))
               ELSE IF BgCmp(a.m, b.m) >= 0 THEN Z(a.neg, BgSub(a.m, b.m)) ELSE Z(b.neg, BgSub(b.m, a.m))
ZSub(a, b)  == ZAdd(a, ZNeg(b))
ZMul(a, b)  == Z(a.neg # b.neg, BgMul(a.m, b.m))
ZCmp(a, b)  == IF a.neg /\ ~b.neg THEN -1 ELSE IF ~a.neg /\ b.neg THEN 1
               ELSE IF a.neg THEN BgCmp(b.m, a.m) ELSE BgCmp(a.m, b.m)
ZAbs(a)     == Z(FALSE, a.m)
ZMax(a, b)  == IF ZCmp(a, b) >= 0 THEN a ELSE b
ZZero       == Z(FALSE, <<>>)
ZIsZero(a)  == a.m = <<>>
ZSmall(a)   == Len(a.m) <= 2                                     \* |a| < 10^8
ZFits(a)    == BgCmp(a.m, BgNat(2147483647)) <= 0                \* |a| fits a TLC integer
ZToInt(a)   == LET v == (IF Len(a.m) >= 1 THEN a.m[1] ELSE 0) + (IF Len(a.m) >= 2 THEN a.m[2] * BgB ELSE 0)
                        + (IF Len(a.m) >= 3 THEN a.m[3] * BgB * BgB ELSE 0)
               IN IF a.neg THEN 0 - v ELSE v                      \* ZFits(a)

(* rationals  num / den  with num a Z and den a positive magnitude                           *)
Rat(num, den) == [num |-> num, den |-> den]
RatOfInts(a, b) == Rat(ZInt(a), BgNat(b))                         \* b > 0
RatCmpZ(x, y) == ZCmp(ZMul(x.num, Z(FALSE, y.den)), ZMul(y.num, Z(FALSE, x.den)))
RatMax(x, y) == IF RatCmpZ(x, y) >= 0 THEN x ELSE y
RatMulInt(x, k) == Rat(ZMul(x.num, ZInt(k)), x.den)
RatDivInt(x, k) == Rat(x.num, BgMul(x.den, BgNat(k)))            \* k > 0
(* round half to even (numpy / Python round), floor and ceiling of a rational, exact ties    *)
RatRoundHE(x) ==
    LET dm == BgDivMod(x.num.m, x.den)
        c  == BgCmp(BgMulLimb(dm[2], 2), x.den)
        q  == IF c < 0 THEN dm[1] ELSE IF c > 0 THEN BgAdd(dm[1], BgOne)
              ELSE IF BgEven(dm[1]) THEN dm[1] ELSE BgAdd(dm[1], BgOne)
    IN Z(x.num.neg, q)
RatIsTie(x)  == LET dm == BgDivMod(x.num.m, x.den) IN BgCmp(BgMulLimb(dm[2], 2), x.den) = 0
RatIsInt(x)  == BgDivMod(x.num.m, x.den)[2] = <<>>
RatFloor(x)  == LET dm == BgDivMod(x.num.m, x.den) IN                     \* toward -infinity
                IF x.num.neg /\ dm[2] # <<>> THEN Z(TRUE, BgAdd(dm[1], BgOne)) ELSE Z(x.num.neg, dm[1])
RatCeil(x)   == LET dm == BgDivMod(x.num.m, x.den) IN
                IF ~x.num.neg /\ dm[2] # <<>> THEN Z(FALSE, BgAdd(dm[1], BgOne)) ELSE Z(x.num.neg, dm[1])

(* a/b ? c/d for naturals (b, d > 0): -1, 0, 1.  Plain integers when the products fit.        *)
MaxInt == 2147483647
ProdFits(a, d) == d = 0 \/ a <= MaxInt \div d
Sgn(v) == IF v < 0 THEN -1 ELSE IF v > 0 THEN 1 ELSE 0
(* without products: compare integer parts, then the reciprocals of the fractional parts (Euclid) *)
RECURSIVE EuclidCmp(_, _, _, _)
EuclidCmp(a, b, c, d) ==
    LET qa == a \div b  qc == c \div d IN
    IF qa # qc THEN Sgn(qa - qc)
    ELSE LET ra == a % b  rc == c % d IN
         IF ra = 0 /\ rc = 0 THEN 0
         ELSE IF ra = 0 THEN -1
         ELSE IF rc = 0 THEN 1
         ELSE EuclidCmp(d, rc, b, ra)            \* ra/b ? rc/d  <=>  d/rc ? b/ra
NatRatCmp(a, b, c, d) ==
    IF b = d THEN Sgn(a - c)
    ELSE IF ProdFits(a, d) /\ ProdFits(c, b) THEN Sgn(a*d - c*b)
    ELSE EuclidCmp(a, b, c, d)

RECURSIVE IsPow2(_)
IsPow2(n) == n = 1 \/ (n > 1 /\ n % 2 = 0 /\ IsPow2(n \div 2))
(* n/d is a power of two: then math.log2(n/d) and 2**that are exact in IEEE double, so a     *)
(* decision that sits exactly on such a point is reproducible; on any other rational the      *)
(* float 2**log2(n/d) is only known to be n/d (1 +- 1e-15).                                   *)
Pow2Rat(n, d) == n > 0 /\ d > 0 /\ ((n % d = 0 /\ IsPow2(n \div d)) \/ (d % n = 0 /\ IsPow2(d \div n)))

(* ===================================================================================== *)
(* 2. Points in log2 space                                                                 *)
(* ===================================================================================== *)
(* Published constants: 2^-1.1 = 0.46651649576840..., 2^-0.25 = 0.84089641525371...,        *)
(* 2^0.2 = 1.14869835499703..., 2^0.7 = 1.62450479271247...  (40-digit decimal arithmetic at *)
(* specification-writing time); each bracket lo < 2^t < hi has width 1e-9.                    *)
E9 == 1000000000
DefaultBracket == << [lo |-> <<466516495, E9>>,  hi |-> <<466516496, E9>>],
                     [lo |-> <<840896415, E9>>,  hi |-> <<840896416, E9>>],
                     [lo |-> <<1148698354, E9>>, hi |-> <<1148698355, E9>>],
                     [lo |-> <<1624504792, E9>>, hi |-> <<1624504793, E9>>] >>
DefaultU == << [n |-> 0, d |-> 1, t |-> 1], [n |-> 0, d |-> 1, t |-> 2],
               [n |-> 0, d |-> 1, t |-> 3], [n |-> 0, d |-> 1, t |-> 4] >>
IsDefaultU(U) == Len(U) = 4 /\ \A i \in 1..4 : U[i].t = i
PtOK(x) == x.t \in 0..4 /\ (x.t = 0 => (x.n >= 0 /\ x.d > 0))
(* order of two points: -1, 0, 1, or 2 = not decided by the brackets                          *)
PtCmp(x, y) ==
    IF x.t = 0 /\ y.t = 0 THEN NatRatCmp(x.n, x.d, y.n, y.d)
    ELSE IF x.t > 0 /\ y.t > 0 THEN Sgn(x.t - y.t)
    ELSE IF x.t = 0 THEN
         LET br == DefaultBracket[y.t] IN
         IF NatRatCmp(x.n, x.d, br.lo[1], br.lo[2]) <= 0 THEN -1
         ELSE IF NatRatCmp(x.n, x.d, br.hi[1], br.hi[2]) >= 0 THEN 1 ELSE 2
    ELSE LET br == DefaultBracket[x.t] IN
         IF NatRatCmp(y.n, y.d, br.lo[1], br.lo[2]) <= 0 THEN 1
         ELSE IF NatRatCmp(y.n, y.d, br.hi[1], br.hi[2]) >= 0 THEN -1 ELSE 2

(* ===================================================================================== *)
(* 3. Records                                                                              *)
(* ===================================================================================== *)
(* r: [op, ploidy, pn, pd, hapx, female, genome, fpfx, vmode, U, nin, nout, err, rows, out]   *)
(*   purity = pn/pd; pn = 0 means "no purity given"                                          *)
(*   fpfx  = naming prefix of the first row of the table the call was made on                *)
(*   vmode = "none" | "vcf" (BAF through a VariantArray) | "column" (a baf column)            *)
(*   U     = thresholds as points <<n, d, t>> (threshold op)                                  *)
(*   nin, nout = rows of the table passed to / returned by do_call                           *)
(*   rows[k] = <<pfx, base, s, e, qn, qd, qt, nan, n, bafn, bafd>>      (bafd = 0: BAF missing) *)
(*   out[k]  = <<cnneg, cnlimbs, cnint, o6, has12, c1, c2, m1, m2, bafo>>                     *)
(*     cn = sign + base-10^4 limbs; cnint: the reported cn is integral; o6 = round(2^log2' *  *)
(*     1e6) of the output log2, or -1 when not recorded; has12: columns cn1/cn2 exist; m1/m2: *)
(*     cn1/cn2 missing (NaN); bafo = round(baf column * 1e6) or -1 when missing / no column.  *)
(*   (rows and outputs travel as flat tuples -- TLC loads those several times faster than     *)
(*   JSON objects)                                                                            *)
(* A record produced by splitting a batched call holds one row; nin/nout are the batch's.     *)
(* Decode gives the tuples field names, once per record (`<<>> \o f` makes TLC evaluate the    *)
(* function once, to a concrete sequence, instead of at every application).                   *)
RowRec(w) == [pfx |-> w[1], base |-> w[2], s |-> w[3], e |-> w[4], q |-> [n |-> w[5], d |-> w[6], t |-> w[7]],
              nan |-> w[8], n |-> w[9], baf |-> [n |-> w[10], d |-> w[11]]]
OutRec(o) == [cn |-> [neg |-> o[1], m |-> o[2]], cnint |-> o[3], o6 |-> o[4], has12 |-> o[5], c1 |-> o[6],
              c2 |-> o[7], m1 |-> o[8], m2 |-> o[9], bafo |-> o[10]]
UPts(T) == [i \in 1..Len(T) |-> [n |-> T[i][1], d |-> T[i][2], t |-> T[i][3]]]
Decode(t) == [t EXCEPT !.rows = <<>> \o [k \in 1..Len(t.rows) |-> RowRec(t.rows[k])],
                       !.out  = <<>> \o [k \in 1..Len(t.out) |-> OutRec(t.out[k])],
                       !.U    = <<>> \o UPts(t.U)]
(* everything below works on decoded records *)
RowAt(r, k) == r.rows[k]
OutAt(r, k) == r.out[k]
Thr(r) == r.U
ClonalOps == {"clonal_mix", "clonal_mix_cli", "clonal_pure", "clonal_any"}
MixOps == {"clonal_mix", "clonal_mix_cli"}
Rows(r) == 1..Len(r.rows)
Aligned(r) == r.err = "" /\ Len(r.out) = Len(r.rows)
HasRows(r) == Aligned(r) /\ r.nout = r.nin
NoErr(r) == r.err = ""
PurityPath(r)  == r.pn > 0 /\ r.pn < r.pd              \* do_call: `if purity and purity < 1.0`

(* P-layer view of a row *)
PClassG(r, k, g) == Class(RowAt(r, k).base, RowAt(r, k).s, RowAt(r, k).e, g)
PClass(r, k) == PClassG(r, k, r.genome)
(* reference / germline copies "under the stated ploidy, reference sex and sample sex";       *)
(* only the purity-adjusted path takes the diploid-PAR option                                 *)
PRef(r, k) == RefCopies(IF PurityPath(r) THEN PClass(r, k) ELSE PClassG(r, k, "none"), r.ploidy, r.hapx)
PExp(r, k) == ExpectCopies(IF PurityPath(r) THEN PClass(r, k) ELSE PClassG(r, k, "none"), r.ploidy, r.female)

(* ===================================================================================== *)
(* 4. A-layer: call.py                                                                     *)
(* ===================================================================================== *)
RowXF(r, k) == ChrXFilter(r.fpfx, RowAt(r, k).pfx, RowAt(r, k).base, RowAt(r, k).s, RowAt(r, k).e, r.genome)
RowYF(r, k) == ChrYFilter(r.fpfx, RowAt(r, k).pfx, RowAt(r, k).base, RowAt(r, k).s, RowAt(r, k).e, r.genome)
RowPYF(r, k) == r.genome # "none" /\ ParYFilter(r.fpfx, RowAt(r, k).pfx, RowAt(r, k).base, RowAt(r, k).s, RowAt(r, k).e, r.genome)
(* get_as_dframe_and_set_reference_and_expect_copies: default, then the .loc assignments in order *)
ARefClonal(r, k) ==
    LET v0 == r.ploidy
        v1 == IF RowXF(r, k) THEN (IF r.hapx THEN r.ploidy \div 2 ELSE r.ploidy) ELSE v0
        v2 == IF RowYF(r, k) THEN r.ploidy \div 2 ELSE v1
    IN IF RowPYF(r, k) THEN 0 ELSE v2
AExpClonal(r, k) ==
    LET v0 == r.ploidy
        v1 == IF RowXF(r, k) THEN (IF r.female THEN r.ploidy ELSE r.ploidy \div 2) ELSE v0
        v2 == IF RowYF(r, k) THEN (IF r.female THEN 0 ELSE r.ploidy \div 2) ELSE v1
    IN IF RowPYF(r, k) THEN 0 ELSE v2
ARefPure(r, k) == RefCopiesPure(RowAt(r, k).pfx, RowAt(r, k).base, r.ploidy, r.hapx)

QRat(q) == RatOfInts(q.n, q.d)                                    \* q.t = 0
(* _log2_ratio_to_absolute, purity branch:  n = (r*2^v - x*(1-p)) / p                          *)
(*   = (ref*qn*pd - exp*(pd-pn)*qd) / (pn*qd)                                                 *)
AbsClonalRaw(r, k) ==
    LET q == RowAt(r, k).q
        a == ZMul(ZMul(ZInt(ARefClonal(r, k)), ZInt(q.n)), ZInt(r.pd))
        b == ZMul(ZMul(ZInt(AExpClonal(r, k)), ZInt(r.pd - r.pn)), ZInt(q.d))
    IN Rat(ZSub(a, b), BgMul(BgNat(r.pn), BgNat(q.d)))
(* the same with a floor at zero copies -- what a repaired code would compute (finding F-C01) *)
AbsClonalClipped(r, k) == LET a == AbsClonalRaw(r, k) IN IF a.num.neg THEN Rat(ZZero, BgOne) ELSE a
AbsClonal(r, k) == AbsClonalClipped(r, k)        \* the repaired code floors at zero copies (fix: commit in /repo); AbsClonalRaw kept for DesignNonNeg history
(* _log2_ratio_to_absolute_pure:  n = r * 2^v *)
AbsPure(r, k) == LET q == RowAt(r, k).q IN Rat(ZMul(ZInt(ARefPure(r, k)), ZInt(q.n)), BgNat(q.d))

(* log2_ratios: max(absolutes / ploidy, 0.001), +1 (ratio doubled) on chr_x_filter rows when  *)
(* the reference is haploid-X and on chr_y_filter rows                                        *)
ARescaled(r, k) ==
    LET base == RatMax(RatDivInt(AbsClonal(r, k), r.ploidy), RatOfInts(1, 1000))
        b1 == IF r.hapx /\ RowXF(r, k) THEN RatMulInt(base, 2) ELSE base
    IN IF RowYF(r, k) THEN RatMulInt(b1, 2) ELSE b1

(* the ratio do_call leaves in the log2 column *)
AOutRatio(r, k) == IF PurityPath(r) THEN ARescaled(r, k) ELSE QRat(RowAt(r, k).q)

(* absolute_threshold: scan thresholds in order, first one with log2 <= thresh *)
RECURSIVE ScanFirst(_, _, _)
ScanFirst(q, U, i) == IF i > Len(U) THEN i ELSE IF PtCmp(q, U[i]) \in {-1, 0} THEN i ELSE ScanFirst(q, U, i+1)
(* ceil(r * 2^v) for v = log2(q):  exact when r*q is not an integer or q is a power of two;    *)
(* otherwise the float product falls on either side of the integer                            *)
CeilSet(rc, q) ==
    LET x == Rat(ZMul(ZInt(rc), ZInt(q.n)), BgNat(q.d))
        c == RatCeil(x)
    IN IF RatIsInt(x) /\ ~Pow2Rat(q.n, q.d) /\ rc > 0 THEN {c, ZAdd(c, ZInt(1))} ELSE {c}
AThresholdSet(r, k) ==
    LET row == RowAt(r, k)  rc == ARefPure(r, k) IN
    IF row.nan THEN {ZInt(rc)}                                   \* "replacing with neutral copy number"
    ELSE LET i == ScanFirst(row.q, Thr(r), 1) IN
         IF i <= Len(Thr(r))
         THEN {ZInt(IF rc # r.ploidy THEN ((i - 1) * rc) \div r.ploidy ELSE i - 1)}   \* int(cnum*ref/ploidy)
         ELSE CeilSet(rc, row.q)                                 \* for-else: int(ceil(ref * 2^log2))

(* absolutes of the clonal method; cn = absolutes.round() (half to even).  On an exact tie of *)
(* a value that is not float-exact either neighbour can come out.                             *)
AClonalAbs(r, k) == IF PurityPath(r) THEN AbsClonal(r, k) ELSE AbsPure(r, k)
RoundSet(x, exact) == IF RatIsTie(x) /\ ~exact THEN {RatFloor(x), RatCeil(x)} ELSE {RatRoundHE(x)}
AClonalCnSet(r, k) == LET q == RowAt(r, k).q IN RoundSet(AClonalAbs(r, k), Pow2Rat(q.n, q.d) /\ ~PurityPath(r))
ACnSet(r, k) == IF r.op \in ClonalOps THEN AClonalCnSet(r, k) ELSE AThresholdSet(r, k)

(* allelic split (do_call): upper = |baf - 0.5| + 0.5 (1.0 when missing);                      *)
(* cn1 = round(absolutes * upper).clip(0, cn); cn2 = cn - cn1; both NaN where baf missing & cn > 0 *)
BafMissing(row) == row.baf.d = 0
UpperBaf(row) == IF BafMissing(row) THEN RatOfInts(1, 1)
                 ELSE LET t == 2 * row.baf.n - row.baf.d IN
                      RatOfInts((IF t < 0 THEN 0 - t ELSE t) + row.baf.d, 2 * row.baf.d)
Clip(z, lo, hi) == IF ZCmp(z, lo) < 0 THEN lo ELSE IF ZCmp(z, hi) > 0 THEN hi ELSE z
(* absolutes of the threshold method are the (integer) cn itself *)
ACn1Set(r, k, cn) ==
    LET row == RowAt(r, k)
        ab  == IF r.op \in ClonalOps THEN AClonalAbs(r, k) ELSE Rat(cn, BgOne)
        ub  == UpperBaf(row)
        pr  == Rat(ZMul(ab.num, ub.num), BgMul(ab.den, ub.den))
        exact == BafMissing(row) \/ (IsPow2(row.baf.d) /\ r.op \notin ClonalOps)
    IN {Clip(z, ZZero, cn) : z \in RoundSet(pr, exact)}
AHas12(r) == r.vmode # "none"

(* ===================================================================================== *)
(* 5. P-layer                                                                              *)
(* ===================================================================================== *)
(* mixing model of the statement: observed ratio of a segment with n tumour copies at purity p *)
(*   q = (p*n + (1-p)*x) / r                                                                  *)
MixNum(n, pn, pd, x) == pn * n + (pd - pn) * x
MixDen(pd, rc) == pd * rc
IsMix(q, n, pn, pd, x, rc) ==              \* q = Mix exactly (cross-multiplied)
    q.t = 0 /\ BgMul(BgNat(q.n), BgNat(MixDen(pd, rc))) = BgMul(BgNat(MixNum(n, pn, pd, x)), BgNat(q.d))

(* |obs/1e6 - num/den| <= 1e-6 * max(1, num/den)  (+ half a unit for the rounding of the encoding): *)
(*   2*|obs*den - num*1e6| <= 2*max(den, num) + den                                            *)
(* NearK: the same with tolerance K * 1e-6 * max(1, num/den)                                   *)
NearK(obs, x, K) ==
    LET den == Z(FALSE, x.den)
        lhs == ZMul(ZInt(2), ZAbs(ZSub(ZMul(ZInt(obs), den), ZMul(x.num, ZInt(1000000)))))
        rhs == ZAdd(ZMul(ZInt(2 * K), ZMax(den, x.num)), den)
    IN obs >= 0 /\ ~x.num.neg /\ ZCmp(lhs, rhs) <= 0
Near6(obs, x) == NearK(obs, x, 1)

(* the ratio a pure sample with n copies shows against a reference with rc copies, n floored at *)
(* 0.001 of the ploidy:  max(n, ploidy/1000) / rc                                              *)
RescaledRatio(n, rc, ploidy) == RatOfInts(IF 1000 * n > ploidy THEN 1000 * n ELSE ploidy, 1000 * rc)

(* nearest integer to x, float noise of the encoding allowed for (relative 1e-9):             *)
(*   |cn - x| <= 1/2 + 1e-9 * x   <=>   2e9*|cn*den - num| <= 1e9*den + 2*num       (x >= 0)  *)
NearestInt(cn, x) ==
    LET den == Z(FALSE, x.den)
        lhs == ZMul(ZInt(2), ZMul(ZInt(E9), ZAbs(ZSub(ZMul(cn, den), x.num))))
        rhs == ZAdd(ZMul(ZInt(E9), den), ZMul(ZInt(2), ZAbs(x.num)))
    IN ZCmp(lhs, rhs) <= 0

(* C02: the step function of the statement.  k = number of thresholds strictly below log2;    *)
(* below the top: k, times (reference copies / ploidy) truncated where the reference has      *)
(* fewer copies; above the last threshold ceil(r * 2^log2); missing log2 -> r.                *)
CountBelow(q, U) == Cardinality({i \in 1..Len(U) : PtCmp(U[i], q) = -1})
ThresholdCallSet(q, nan, U, rc, ploidy) ==
    IF nan THEN {ZInt(rc)}
    ELSE LET k == CountBelow(q, U) IN
         IF k < Len(U) THEN {ZInt(IF rc = ploidy THEN k ELSE (k * rc) \div ploidy)}
         ELSE CeilSet(rc, q)
PThrRef(r, k) == RefCopies(PClassG(r, k, "none"), r.ploidy, r.hapx)
Cn(r, k) == ZNorm(OutAt(r, k).cn)

Clauses(op) ==
    CASE op = "clonal_mix"  -> {"mix_noerr", "mix_cn_eq_n", "mix_log2_rescaled", "mix_cn_nonneg_int"}
      (* the same through `cnvkit.py call` and the written .call.cns; the file keeps 6 significant *)
      (* digits of log2, hence the wider tolerance (1e-5) of cli_log2_rescaled                     *)
      [] op = "clonal_mix_cli" -> {"cli_noerr", "cli_cn_eq_n", "cli_log2_rescaled", "cli_cn_nonneg_int"}
      [] op = "clonal_pure" -> {"pure_noerr", "pure_nearest", "pure_cn_nonneg_int"}
      [] op = "clonal_any"  -> {"any_noerr", "any_cn_nonneg_int"}
      [] op = "threshold"   -> {"thr_noerr", "thr_rows", "thr_cn_step", "thr_nan_neutral", "thr_monotone",
                                "thr_zero_is_two", "allelic_present", "allelic_sum", "allelic_range",
                                "allelic_missing"}
      [] OTHER -> {}

Holds(c, r) ==
    CASE c \in {"mix_noerr", "cli_noerr", "pure_noerr", "any_noerr", "thr_noerr"} -> NoErr(r)
      (* C02 "the number of rows never changes" *)
      [] c = "thr_rows" -> NoErr(r) => (r.nout = r.nin /\ Aligned(r))
      (* C01 clauses speak about "every reported copy number" / the cn of "a segment": a result whose  *)
      (* rows no longer correspond to the input segments fails them (HasRows)                          *)
      (* C01 "every reported copy number is an integer >= 0" *)
      [] c \in {"mix_cn_nonneg_int", "cli_cn_nonneg_int", "pure_cn_nonneg_int", "any_cn_nonneg_int"} ->
            NoErr(r) => (HasRows(r) /\ \A k \in Rows(r) : OutAt(r, k).cnint /\ ~Cn(r, k).neg)
      (* C01 "reports cn = n" *)
      [] c \in {"mix_cn_eq_n", "cli_cn_eq_n"} ->
            NoErr(r) => (HasRows(r) /\ \A k \in Rows(r) : Cn(r, k) = ZInt(RowAt(r, k).n))
      (* C01 "for even ploidy, rewrites log2 to the ratio a pure sample with n copies would show *)
      (* against that reference (floored at 0.001 of ploidy)"                                    *)
      [] c \in {"mix_log2_rescaled", "cli_log2_rescaled"} ->
            (NoErr(r) /\ r.ploidy % 2 = 0) =>
                HasRows(r) /\ \A k \in Rows(r) : NearK(OutAt(r, k).o6, RescaledRatio(RowAt(r, k).n, PRef(r, k), r.ploidy),
                                         IF c = "cli_log2_rescaled" THEN 10 ELSE 1)
      (* C01 "without a purity, cn is the nearest integer to r*2^log2" *)
      [] c = "pure_nearest" ->
            NoErr(r) => (HasRows(r) /\ \A k \in Rows(r) :
                LET q == RowAt(r, k).q IN NearestInt(Cn(r, k), Rat(ZMul(ZInt(PRef(r, k)), ZInt(q.n)), BgNat(q.d))))
      (* C02 step function, missing log2 *)
      [] c = "thr_cn_step" ->
            Aligned(r) => \A k \in Rows(r) :
                ~RowAt(r, k).nan => Cn(r, k) \in ThresholdCallSet(RowAt(r, k).q, FALSE, Thr(r), PThrRef(r, k), r.ploidy)
      [] c = "thr_nan_neutral" ->
            Aligned(r) => \A k \in Rows(r) : RowAt(r, k).nan => Cn(r, k) = ZInt(PThrRef(r, k))
      (* C02 "with the default thresholds cn never decreases as log2 increases on any chromosome" *)
      [] c = "thr_monotone" ->       \* contrapositive form (cheap tests first): cn_j > cn_k only if log2_j > log2_k
            (Aligned(r) /\ IsDefaultU(Thr(r))) =>
                \A j, k \in Rows(r) :
                    (/\ RowAt(r, j).base = RowAt(r, k).base
                     /\ ~RowAt(r, j).nan /\ ~RowAt(r, k).nan
                     /\ ZCmp(Cn(r, j), Cn(r, k)) > 0) => PtCmp(RowAt(r, j).q, RowAt(r, k).q) = 1
      (* C02 "and is 2 at log2 0 on a diploid autosome" *)
      [] c = "thr_zero_is_two" ->
            (Aligned(r) /\ IsDefaultU(Thr(r)) /\ r.ploidy = 2) =>
                \A k \in Rows(r) :
                    (~RowAt(r, k).nan /\ PClassG(r, k, "none") = "auto" /\ RowAt(r, k).q.t = 0
                     /\ RowAt(r, k).q.n = RowAt(r, k).q.d) => Cn(r, k) = ZInt(2)
      (* C02 allelic split "when b-allele frequencies are supplied" *)
      (* ... there are allelic copy numbers to speak of *)
      [] c = "allelic_present" -> (Aligned(r) /\ r.vmode # "none") => \A k \in Rows(r) : OutAt(r, k).has12
      [] c = "allelic_sum" ->
            (Aligned(r) /\ r.vmode # "none") => \A k \in Rows(r) :
                (OutAt(r, k).has12 /\ ~OutAt(r, k).m1 /\ ~OutAt(r, k).m2) =>
                    (ZSmall(Cn(r, k)) /\ OutAt(r, k).c1 + OutAt(r, k).c2 = ZToInt(Cn(r, k)))
      [] c = "allelic_range" ->
            (Aligned(r) /\ r.vmode # "none") => \A k \in Rows(r) :
                (OutAt(r, k).has12 /\ ~OutAt(r, k).m1 /\ ~OutAt(r, k).m2) =>
                    (/\ ZSmall(Cn(r, k))
                     /\ 0 <= OutAt(r, k).c1 /\ OutAt(r, k).c1 <= ZToInt(Cn(r, k))
                     /\ 0 <= OutAt(r, k).c2 /\ OutAt(r, k).c2 <= ZToInt(Cn(r, k)))
      (* "both missing exactly where a segment has no BAF and cn > 0" *)
      [] c = "allelic_missing" ->
            (Aligned(r) /\ r.vmode # "none") => \A k \in Rows(r) :
                OutAt(r, k).has12 =>
                    LET want == BafMissing(RowAt(r, k)) /\ ZCmp(Cn(r, k), ZZero) > 0
                    IN OutAt(r, k).m1 = want /\ OutAt(r, k).m2 = want

(* ------------------------------------------------------------------ premises               *)
RowShapeOK(r, k) ==
    LET row == RowAt(r, k) IN
    /\ row.pfx = r.fpfx /\ row.pfx \in Prefixes                  \* one naming style per table
    /\ 0 <= row.s /\ row.s < row.e
    /\ PtOK(row.q)
    /\ row.baf.d >= 0 /\ (row.baf.d > 0 => (0 <= row.baf.n /\ row.baf.n <= row.baf.d))
UOK(U) == /\ Len(U) >= 1
          /\ \A i \in 1..Len(U) : PtOK(U[i]) /\ (U[i].t = 0 => U[i].n > 0)
          /\ \A i \in 1..Len(U)-1 : PtCmp(U[i], U[i+1]) = -1     \* strictly increasing, decided
(* the harness built the BAF input so that the segment's mirrored median is the chosen value: *)
(* checked on the baf column of the output, not assumed                                       *)
BafDelivered(r) ==
    (Aligned(r) /\ r.vmode # "none") => \A k \in Rows(r) :
        IF BafMissing(RowAt(r, k)) THEN OutAt(r, k).bafo = -1
        ELSE OutAt(r, k).bafo >= 0 /\ Near6(OutAt(r, k).bafo, RatOfInts(RowAt(r, k).baf.n, RowAt(r, k).baf.d))
Premise(r) ==
    /\ r.ploidy >= 1 /\ r.pd >= 1 /\ 0 <= r.pn /\ r.pn <= r.pd
    /\ r.genome \in Genomes /\ r.vmode \in {"none", "vcf", "column"}
    /\ Len(r.rows) >= 1 /\ r.nin >= Len(r.rows)
    /\ \A k \in Rows(r) : RowShapeOK(r, k)
    /\ r.op \in ClonalOps => \A k \in Rows(r) : ~RowAt(r, k).nan /\ RowAt(r, k).q.t = 0 /\ RowAt(r, k).q.n > 0
    (* C01 premise: log2 = log2((p*n + (1-p)*x)/r) for an integer n >= 0, defined (r > 0, ratio > 0);   *)
    (* the diploid-PAR option only exists on the purity-adjusted path (purity < 1)                      *)
    /\ r.op \in MixOps =>
          /\ r.pn >= 1
          /\ \A k \in Rows(r) :
               /\ RowAt(r, k).n >= 0 /\ PRef(r, k) > 0
               /\ IsMix(RowAt(r, k).q, RowAt(r, k).n, r.pn, r.pd, PExp(r, k), PRef(r, k))
               /\ (r.pn = r.pd /\ r.genome # "none") => PClass(r, k) \notin {"PARX", "PARY"}
    /\ r.op = "clonal_pure" =>
          /\ r.pn = 0
          /\ \A k \in Rows(r) : r.genome # "none" => PClass(r, k) \notin {"PARX", "PARY"}
    (* C02: strictly increasing thresholds; every comparison decided by the published brackets;         *)
    (* a literal default threshold as a log2 value only against a vector that contains it               *)
    /\ r.op = "threshold" =>
          /\ r.pn = 0 /\ UOK(Thr(r))
          /\ \A k \in Rows(r) : ~RowAt(r, k).nan =>
               /\ (RowAt(r, k).q.t = 0 => RowAt(r, k).q.n > 0)
               /\ \A i \in 1..Len(Thr(r)) : PtCmp(RowAt(r, k).q, Thr(r)[i]) # 2
               /\ RowAt(r, k).q.t > 0 => \E i \in 1..Len(Thr(r)) : Thr(r)[i].t = RowAt(r, k).q.t
          /\ BafDelivered(r)

(* ------------------------------------------------------------------ drift                  *)
RowDrift(r, k) ==
    LET o == OutAt(r, k)  cn == Cn(r, k) IN
    \/ cn \notin ACnSet(r, k)
    \/ (r.op \in ClonalOps /\ o.o6 >= 0 /\ ~NearK(o.o6, AOutRatio(r, k), IF r.op = "clonal_mix_cli" THEN 10 ELSE 1))
    \/ o.has12 # AHas12(r)
    \/ (o.has12 /\ AHas12(r) /\ ZSmall(cn) /\ ~cn.neg /\
          LET miss == BafMissing(RowAt(r, k)) /\ ZCmp(cn, ZZero) > 0 IN
          \/ o.m1 # miss \/ o.m2 # miss
          \/ (~miss /\ ~o.m1 /\ ~o.m2 /\ (ZInt(o.c1) \notin ACn1Set(r, k, cn) \/ o.c2 # ZToInt(cn) - o.c1)))
Drift(r) == /\ Aligned(r)
            /\ ~(r.op = "threshold" /\ PurityPath(r))             \* not modelled
            /\ \E k \in Rows(r) : RowDrift(r, k)

(* ------------------------------------------------------------------ known findings         *)
(* F-C01 negative copy number: on the purity-adjusted path the inverted mixing model           *)
(* (r*2^v - x*(1-p))/p is at or below -1/2 -- i.e. the observed ratio is lower than the        *)
(* normal-cell contamination alone would give -- and is rounded to a negative cn (exactly at   *)
(* -1/2 the float value falls on either side, e.g. ploidy 1, purity 1/3, ratio 1/2 -> -1).      *)
(*   2*(r*qn*pd - x*(pd-pn)*qd) <= -pn*qd     (inputs only; r, x from the P-layer classes)     *)
NegativeMixtureRow(r, k) ==
    LET q == RowAt(r, k).q
        a == ZMul(ZMul(ZInt(PRef(r, k)), ZInt(q.n)), ZInt(r.pd))
        b == ZMul(ZMul(ZInt(PExp(r, k)), ZInt(r.pd - r.pn)), ZInt(q.d))
    IN /\ q.t = 0 /\ ~RowAt(r, k).nan
       /\ ZCmp(ZMul(ZInt(2), ZSub(a, b)), ZNeg(ZMul(ZInt(r.pn), ZInt(q.d)))) <= 0
(* F-C02 the "hence" of C02 does not follow where the chromosome has reference copies = ploidy = 1: *)
(* just below the last default threshold the step function counts 3 thresholds (cn 3), just above   *)
(* it is ceil(1 * 2^log2) = 2 for log2 in (0.7, 1].  The code follows the definition, so cn drops.   *)
(* Trigger: a table holds such a pair of rows on one chromosome.                                    *)
StepDropsAtTop(rc, ploidy) == rc = ploidy /\ ploidy = 1
HaploidStepDropPair(r, j, k) ==
    LET a == RowAt(r, j)  b == RowAt(r, k) IN
    /\ ~a.nan /\ ~b.nan /\ a.base = b.base
    /\ StepDropsAtTop(PThrRef(r, j), r.ploidy)
    /\ PtCmp(a.q, DefaultU[3]) = 1 /\ PtCmp(a.q, DefaultU[4]) \in {-1, 0}      \* 0.2 < log2 <= 0.7 : cn 3
    /\ PtCmp(b.q, DefaultU[4]) = 1 /\ b.q.t = 0 /\ NatRatCmp(b.q.n, b.q.d, 2, 1) <= 0   \* 0.7 < log2 <= 1 : cn 2
KnownTriggers == {"NegativeMixture", "HaploidStepDrop"}
TriggerHolds(t, r) ==
    CASE t = "NegativeMixture" -> r.op \in ClonalOps /\ PurityPath(r) /\ \E k \in Rows(r) : NegativeMixtureRow(r, k)
      [] t = "HaploidStepDrop" -> r.op = "threshold" /\ IsDefaultU(Thr(r)) /\ r.ploidy = 1
                                    /\ \E j, k \in Rows(r) : HaploidStepDropPair(r, j, k)
      [] OTHER -> FALSE
=============================================================================
