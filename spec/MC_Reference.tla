--------------------------- MODULE MC_Reference ---------------------------
(* Design check + enumerator for C05.  One run per Mode:                                                      *)
(*   "pool"     every cohort of <= MaxS samples drawn from 2 sexes x NVar value patterns (as a multiset; file   *)
(*              names S1, S2, S10 so that name order differs from position) x reference sex x sexes given       *)
(*              female / given male / inferred x no / empty / real antitarget files, corrections off            *)
(*   "mismatch" a fixed cohort of three files x every kind of differing file x which file differs               *)
(*   "flat"     every non-empty subset of {chr1, chr2, X, Y, M} x antitargets x reference sex x naming x FASTA   *)
(*   "gc"       every sequence of <= SeqLen characters over {A,C,G,T,a,c,g,t,N,n} as one bin                     *)
(* The step computes the A-layer result (the code's algorithm as modelled); DesignOK states that it satisfies     *)
(* every clause of the property.  The dump (the inputs) is replayed into the real code by harness/props/c05.py.   *)
EXTENDS Reference
CONSTANTS Mode, MaxS, NVar, SeqLen

U0 == 64
TB == << <<1, 0, 100, "GA">>, <<1, 300, 400, "GA">>, <<23, 0, 100, "GX">>, <<24, 0, 100, "GY">> >>
AB == << <<1, 150, 250, "Antitarget">>, <<2, 150, 250, "Antitarget">>, <<23, 150, 250, "Antitarget">> >>

(* value patterns: 1 flat at level 0; 2 twice the depth; 3 a bump on the first bin, Y of a female low but covered; *)
(* 4 a null-coverage second bin (an autosomal one in both kinds of file), level -2                                 *)
LevelOf(v) == CASE v = 1 -> 0 [] v = 2 -> U0 [] v = 3 -> 0 [] OTHER -> -2 * U0
ValsOf(sex, v, bins) ==
    LET one(i) ==
          LET cls == BinClass(bins[i])
              base == LevelOf(v) + (IF cls = "auto" \/ (cls = "X" /\ sex = "F") THEN 0 ELSE -U0)
          IN IF cls = "Y" /\ sex = "F" THEN (IF v \in {1, 2} THEN <<-20 * U0, TRUE>> ELSE <<LevelOf(v) - 6 * U0, FALSE>>)
             ELSE IF v = 3 /\ i = 1 THEN <<base + U0 \div 2, FALSE>>
             ELSE IF v = 3 /\ i = 3 THEN <<base - U0 \div 4, FALSE>>
             ELSE IF v = 4 /\ i = 2 THEN <<-20 * U0, TRUE>>
             ELSE <<base, FALSE>>
    IN [v |-> [i \in RIdx(bins) |-> one(i)[1]], dz |-> [i \in RIdx(bins) |-> one(i)[2]]]
NameAt(j) == IF j = 1 THEN <<1>> ELSE IF j = 2 THEN <<2>> ELSE IF j = 3 THEN <<1, 0>> ELSE <<j>>
SpecSex(k) == IF k <= NVar THEN "F" ELSE "M"
SpecVar(k) == IF k <= NVar THEN k ELSE k - NVar
MkSample(j, k, anti) ==
    LET t == ValsOf(SpecSex(k), SpecVar(k), TB)
        a == ValsOf(SpecSex(k), SpecVar(k), AB)
    IN [name |-> NameAt(j), sex |-> SpecSex(k), level |-> LevelOf(SpecVar(k)),
        tv |-> t.v, tdz |-> t.dz, tmod |-> <<>>,
        av |-> IF anti = "files" THEN a.v ELSE <<>>, adz |-> IF anti = "files" THEN a.dz ELSE <<>>, amod |-> <<>>,
        aempty |-> anti = "empty"]
(* cohorts as multisets: non-decreasing sequences of sample specs *)
Cohorts == UNION {{c \in [1..n -> 1..2 * NVar] : \A j \in 1..n - 1 : c[j] <= c[j + 1]} : n \in 1..MaxS}
MkPooled(c, hapx, given, anti, pfx) ==
    [op |-> "pooled", pfx |-> pfx, hapx |-> hapx, given |-> given, fix |-> <<FALSE, FALSE, FALSE>>, U |-> U0, A |-> 0,
     tbins |-> TB, abins |-> IF anti = "none" THEN <<>> ELSE AB, anti |-> anti # "none", gcsrc |-> "none",
     tgc |-> <<>>, agc |-> <<>>, fa |-> <<>>,
     samples |-> [j \in 1..Len(c) |-> MkSample(j, c[j], anti)]]
PoolInputs == {MkPooled(c, hapx, given, anti, IF Len(c) % 2 = 1 THEN "chr" ELSE "") :
                  c \in Cohorts, hapx \in BOOLEAN, given \in {"none", "female", "male"}, anti \in {"none", "empty", "files"}}

(* ---- mismatching files *)
Kinds == {"none", "t_start", "t_end", "t_chrom", "t_fewer", "t_more", "t_gene", "a_start", "a_fewer", "a_gene", "a_empty"}
Without(s, i) == [k \in 1..Len(s) - 1 |-> IF k < i THEN s[k] ELSE s[k + 1]]
ModSample(smp, kind) ==
    CASE kind = "t_start" -> [smp EXCEPT !.tmod = [TB EXCEPT ![2] = <<1, 301, 400, "GA">>]]
      [] kind = "t_end"   -> [smp EXCEPT !.tmod = [TB EXCEPT ![2] = <<1, 300, 401, "GA">>]]
      [] kind = "t_chrom" -> [smp EXCEPT !.tmod = [TB EXCEPT ![2] = <<2, 300, 400, "GA">>]]
      [] kind = "t_fewer" -> [smp EXCEPT !.tmod = Without(TB, 2), !.tv = Without(smp.tv, 2), !.tdz = Without(smp.tdz, 2)]
      [] kind = "t_more"  -> [smp EXCEPT !.tmod = SubSeq(TB, 1, 2) \o << <<1, 500, 600, "GA">> >> \o SubSeq(TB, 3, 4),
                                         !.tv = SubSeq(smp.tv, 1, 2) \o <<smp.tv[1]>> \o SubSeq(smp.tv, 3, 4),
                                         !.tdz = SubSeq(smp.tdz, 1, 2) \o <<FALSE>> \o SubSeq(smp.tdz, 3, 4)]
      [] kind = "t_gene"  -> [smp EXCEPT !.tmod = [TB EXCEPT ![1] = <<1, 0, 100, "ZZ">>]]
      [] kind = "a_start" -> [smp EXCEPT !.amod = [AB EXCEPT ![2] = <<2, 151, 250, "Antitarget">>]]
      [] kind = "a_fewer" -> [smp EXCEPT !.amod = Without(AB, 3), !.av = Without(smp.av, 3), !.adz = Without(smp.adz, 3)]
      [] kind = "a_gene"  -> [smp EXCEPT !.amod = [AB EXCEPT ![1] = <<1, 150, 250, "Background">>]]
      [] kind = "a_empty" -> [smp EXCEPT !.aempty = TRUE, !.av = <<>>, !.adz = <<>>]
      [] OTHER -> smp
MismatchInputs ==
    LET base == MkPooled(<<1, NVar + 1, IF NVar >= 3 THEN 3 ELSE 1>>, FALSE, "female", "files", "chr") IN
    {[base EXCEPT !.samples[j] = ModSample(@, kind)] : kind \in Kinds, j \in 1..3}

(* ---- flat references *)
FlatChroms == {1, 2, 23, 24, 25}
SeqOfChrom(c) ==   \* 24 characters, different per chromosome: a rotation of one mixed-case pattern with N / n
    LET pat == <<65, 67, 103, 116, 78, 71, 99, 97, 84, 110, 67, 67, 103, 65, 116, 116, 71, 78, 99, 65, 97, 84, 71, 103>>
    IN [i \in 1..24 |-> pat[((i + c) % 24) + 1]]
MkFlat(cs, anti, hapx, pfx, fa) ==
    LET s == SetToSortSeq(cs, <) IN
    [op |-> "flat", pfx |-> pfx, hapx |-> hapx, anti |-> anti,
     tbins |-> [k \in RIdx(s) |-> <<s[k], 3 + (s[k] % 3), 11 + (s[k] % 5), "G">>],
     abins |-> IF anti THEN [k \in RIdx(s) |-> <<s[k], 12 + (s[k] % 5), 22, "Antitarget">>] ELSE <<>>,
     fa |-> IF fa THEN [k \in RIdx(s) |-> <<s[k], SeqOfChrom(s[k])>>] ELSE <<>>]
FlatInputs == {MkFlat(cs, anti, hapx, pfx, fa) : cs \in (SUBSET FlatChroms) \ {{}}, anti \in BOOLEAN, hapx \in BOOLEAN,
                  pfx \in {"chr", ""}, fa \in BOOLEAN}

(* ---- one bin's sequence *)
Alphabet == {65, 67, 71, 84, 97, 99, 103, 116, 78, 110}
GcInputs == {[op |-> "gc", contig |-> q, s |-> 0, e |-> Len(q)] : q \in UNION {[1..n -> Alphabet] : n \in 0..SeqLen}}

Inputs == CASE Mode = "pool" -> PoolInputs
            [] Mode = "mismatch" -> MismatchInputs
            [] Mode = "flat" -> FlatInputs
            [] Mode = "gc" -> GcInputs

(* ---------------------------------------------------------------------------------------------- A-layer results *)
ObsOf(x) == LET t == FxToObs(x) IN [fin |-> TRUE, neg |-> t.neg, hi |-> t.hi, lo |-> t.lo]
FracObs(num, den) == ObsOf(FxFromRat(num, den))
TruthOf(r) == [j \in RIdx(r.samples) |-> r.samples[j].sex]
(* sex inference is not modelled: where sexes are inferred the model takes the inference to be right (targets; and   *)
(* antitargets where they have bins)                                                                                 *)
PooledResult(r) ==
    LET inft == IF r.given = "none" THEN TruthOf(r) ELSE <<>>
        infa == IF r.given = "none"
                THEN [j \in RIdx(r.samples) |-> IF r.anti /\ FileBins(r, r.samples[j], "a") # <<>> THEN r.samples[j].sex ELSE "?"]
                ELSE <<>>
        r1 == r @@ [inft |-> inft, infa |-> infa, err |-> "", errtype |-> "", hasgc |-> FALSE, hasrm |-> FALSE]
        used == UsedA(r1)
        r2 == r1 @@ [used |-> used]
    IN IF ErrA(r2)
       THEN [r2 EXCEPT !.err = "RuntimeError: bins do not match", !.errtype = "RuntimeError"]
            @@ [out |-> <<>>, gloc |-> <<>>, gvar |-> <<>>, hasgraph |-> FALSE]
       ELSE LET cols == PooledA(r2, used)
                Q == 4 * r.U
                est == [p \in RIdx(cols) |->
                          LET a == FxOfQ(cols[p].col, Q)
                              M == BiweightLocation(a)
                          IN <<ObsOf(M), ObsOf(MidvarianceA(a, M))>>]
                zero == FracObs(0, 1)
            IN r2 @@ [out |-> [p \in RIdx(cols) |->
                                 [c |-> cols[p].row[1], s |-> cols[p].row[2], e |-> cols[p].row[3], g |-> cols[p].row[4],
                                  l |-> est[p][1], sp |-> est[p][2], lfx |-> est[p][1], spfx |-> est[p][2],
                                  gc |-> zero, rm |-> zero]],
                      gloc |-> [p \in RIdx(cols) |-> [a |-> cols[p].col, r |-> est[p][1]]],
                      gvar |-> [p \in RIdx(cols) |-> [a |-> cols[p].col, i |-> est[p][1], r |-> est[p][2]]],
                      hasgraph |-> TRUE]
FlatResult(r) ==
    LET rows == FlatRowsA(r) IN
    r @@ [err |-> "", errtype |-> "", hasgc |-> r.fa # <<>>, hasrm |-> r.fa # <<>>,
          out |-> [p \in RIdx(rows) |->
                     LET g == GcLoA(BinSeq(r.fa, rows[p][1], rows[p][2], rows[p][3])) IN
                     [c |-> rows[p][1], s |-> rows[p][2], e |-> rows[p][3], g |-> rows[p][4],
                      l4 |-> 4 * FlatLevelA(r.pfx, rows[p], r.hapx), lok |-> TRUE,
                      gc |-> FracObs(g[1], g[2]), rm |-> FracObs(g[3], g[4])]]]
GcResult(r) == LET g == GcLoA(BinSeq(<<<<1, r.contig>>>>, 1, r.s, r.e)) IN
               r @@ [err |-> "", gc |-> FracObs(g[1], g[2]), rm |-> FracObs(g[3], g[4])]
Result(r) == CASE r.op = "pooled" -> PooledResult(r)
               [] r.op = "flat" -> FlatResult(r)
               [] r.op = "gc" -> GcResult(r)

VARIABLES inp, ph, out
vars == <<inp, ph, out>>
Init == inp \in Inputs /\ ph = "call" /\ out = [op |-> "none"]
Next == ph = "call" /\ ph' = "ret" /\ out' = Result(inp) /\ UNCHANGED inp
Spec == Init /\ [][Next]_vars
(* design-level statement: the algorithm as modelled satisfies every clause of the property *)
DesignOK == ph = "ret" => (Premise(out) /\ \A c \in Clauses(out.op) : Holds(c, out))
(* what the unrepaired load_sample_block did with an empty first antitarget file (not checked by default; violated   *)
(* in mode "mismatch": kind a_empty on the first file by name)                                                       *)
DesignOldFirstEmpty == (ph = "ret" /\ inp.op = "pooled") =>
    (CoordMismatch(inp @@ [used |-> <<>>]) => \E b \in RIdx(Blocks(inp)) : BlockErrOld(BlockFiles(inp @@ [used |-> <<>>], Blocks(inp)[b])))
=============================================================================
