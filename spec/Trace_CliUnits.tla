--------------------------- MODULE Trace_CliUnits ---------------------------
(* Trace validation for the helper functions of X04 (core.fbase, ensure_path, assert_equal, check_unique,  *)
(* cmdutil.write_tsv, write_text): one recorded call of the real code per record; verdicts are carried as   *)
(* state (total verdicts) and read from the dump.  Same shape as Trace_Intervals.                           *)
EXTENDS CliOps
Trace == JsonDeserialize(IOEnv.TRACE_FILE)
VARIABLES i, ph, failed, scope, triggers, drift, checked
vars == <<i, ph, failed, scope, triggers, drift, checked>>
Init == /\ i \in 1..Len(Trace) /\ ph = "call"
        /\ failed = {} /\ scope = TRUE /\ triggers = {} /\ drift = FALSE /\ checked = {}
Next == /\ ph = "call" /\ ph' = "ret" /\ UNCHANGED i
        /\ LET r == Trace[i] IN
           /\ scope' = UPremise(r)
           /\ checked' = IF scope' THEN UClauses(r.op) ELSE {}
           /\ failed' = {c \in checked' : ~UHolds(c, r)}
           /\ triggers' = {t \in UKnownTriggers : UTriggerHolds(t, r)}
           /\ drift' = (scope' /\ failed' = {} /\ UDrift(r))
Spec == Init /\ [][Next]_vars
NoFailure == failed = {}
=============================================================================
