--------------------------- MODULE MC_StepScenarios ---------------------------
(* Scenario enumerator + design check for C11.                                                 *)
(* TLC enumerates the scenario grid of StepScenarios (the shard NShards/Shard of it in the      *)
(* quick tier); the dump of this run is what the driver realises and runs through the real      *)
(* cnvlib.segmentation.do_segmentation (direction 1: every enumerated scenario is one or more   *)
(* real runs).  There is no model of the detector; the `ret` step instead checks the            *)
(* ACCEPTANCE PREDICATE itself on the canonical realisation of the scenario:                    *)
(*   DesignOK      the scenario is inside the quantifier (Premise) and the ideal outcome        *)
(*                 (breakpoint at the true position, true means, one segment per arm) is        *)
(*                 accepted by every clause -- the predicate is satisfiable on every scenario;  *)
(*   DesignTight   outcomes exactly at the stated tolerances (breakpoint 5 bins off, means 0.1  *)
(*                 off) are accepted, outcomes just beyond (6 bins, 0.101), a missed step and   *)
(*                 a spurious breakpoint are rejected, each by the clause that states it --     *)
(*                 the predicate is not vacuous.                                                *)
EXTENDS StepScenarios
CONSTANTS NShards, Shard

VARIABLES scn, sid, ph, verdict
vars == <<scn, sid, ph, verdict>>

Init == /\ scn \in {s \in Scenarios : ShardOf(s, NShards) = Shard}
        /\ sid = Sid(scn) /\ ph = "call" /\ verdict = {}
(* verdict: the facts about the predicate established for this scenario *)
Facts == {"premise", "ideal_accepted", "at_tolerance_accepted", "beyond_tolerance_rejected", "missed_rejected",
          "spurious_rejected"}
Fact(f, r, step) ==
    CASE f = "premise" -> Premise(r)
      [] f = "ideal_accepted" -> Failed(Ideal(r)) = {}
      [] f = "at_tolerance_accepted" ->
            step => /\ Failed(Outcome(r, 5, 0, 0)) = {} /\ Failed(Outcome(r, -5, 0, 0)) = {}
                    /\ Failed(Outcome(r, 0, 100, -100)) = {} /\ Failed(Outcome(r, 0, -100, 100)) = {}
      [] f = "beyond_tolerance_rejected" ->
            step => /\ Failed(Outcome(r, 6, 0, 0)) = {"step_localised", "step_localised_coord"}
                    /\ Failed(Outcome(r, -6, 0, 0)) = {"step_localised", "step_localised_coord"}
                    /\ Failed(Outcome(r, 0, 101, 0)) = {"step_means"}
                    /\ Failed(Outcome(r, 0, 0, -101)) = {"step_means"}
      [] f = "missed_rejected" -> step => Failed(Missed(r)) = {"step_one_breakpoint"}
      [] f = "spurious_rejected" ->
            Failed(Spurious(r)) = (IF step THEN {"step_one_breakpoint"} ELSE {"flat_one_segment_per_arm"})
Check == LET r == CanonRec(scn) IN {f \in Facts : Fact(f, r, scn.kind = "step")}
Realise == /\ ph = "call" /\ ph' = "ret" /\ verdict' = Check /\ UNCHANGED <<scn, sid>>
Next == Realise
Spec == Init /\ [][Next]_vars

DesignOK    == ph = "ret" => {"premise", "ideal_accepted"} \subseteq verdict
DesignTight == ph = "ret" => {"at_tolerance_accepted", "beyond_tolerance_rejected", "missed_rejected",
                              "spurious_rejected"} \subseteq verdict
=============================================================================
