--------------------------- MODULE MC_Variants ---------------------------
(* Design check + enumerator for C18.  Every input of a small scope, one step computing the A-layer    *)
(* result (the cnvkit code as modelled); invariant DesignOK = that result satisfies every P-layer        *)
(* clause.  The dump of the run is replayed into the real code: each state becomes a small real VCF      *)
(* text file read by skgenome.tabio.read / cnvlib.cmdutil.load_het_snps (direction 1).                   *)
EXTENDS Variants
CONSTANTS Scope,     \* which family of inputs
          Tier,      \* "thorough": the full scope; "quick": the documented sub-scope (Shard picks a third of the two-pair headers)
          Shard,     \* 0..2
          MindSet    \* values of min_depth enumerated in the "select" scope (0 stands for "not given")

VARIABLES op, vcf, args, segs, ph
vars == <<op, vcf, args, segs, ph>>

Names == <<"S1", "S2", "S3">>
DefaultArgs == [sk |-> "none", sn |-> "", si |-> 0, nk |-> "none", nn |-> "", ni |-> 0, mind |-> -1,
                skipsom |-> FALSE, skiprej |-> FALSE, zn |-> 0, zd |-> 0, tboost |-> FALSE, above |-> -1,
                pn |-> 0, pd |-> 0, src |-> "read", route |-> "fresh"]
Cl(gt, ad, dp) == [gt |-> gt, ad |-> ad, dp |-> dp]
Rc(c, pos, ref, alt, filt, som, idp, fad, fdp, calls) ==
    [c |-> c, pos |-> pos, ref |-> ref, alt |-> alt, sym |-> FALSE, svend |-> -1, filt |-> filt, som |-> som,
     idp |-> idp, fad |-> fad, fdp |-> fdp, calls |-> calls]
Vcf(samples, peds, recs) == [samples |-> samples, peds |-> peds, recs |-> recs]
NoSegs == <<>>

(* ---------------------------------------------------------------- scope "select" *)
(* two records whose numbers tell the samples apart: sample j has depth 10j / 10j+1 and alt count j / j+3 *)
SelGT1 == << <<0, 1>>, <<0, 0>>, <<1, 1>> >>
SelGT2 == << <<1, 1>>, <<0, 1>>, <<0, 1>> >>
SelRecs(n) == << Rc(1, 5, "A", "G", <<"PASS">>, FALSE, -1, TRUE, TRUE, [j \in 1..n |-> Cl(SelGT1[j], <<10, j>>, 10 * j)]),
                 Rc(1, 9, "C", "T", <<>>, TRUE, -1, TRUE, TRUE, [j \in 1..n |-> Cl(SelGT2[j], <<5, j + 3>>, 10 * j + 1)]) >>
PedPairs(n) == {<<Names[i], Names[j]>> : i, j \in 1..n} \ {<<Names[i], Names[i]>> : i \in 1..n}
NameNo(x) == CHOOSE i \in 1..3 : Names[i] = x
TwoPairs(n) == {<<p, q>> : p, q \in PedPairs(n)}
PedSeqs(n) == {<<>>} \cup {<<p>> : p \in PedPairs(n)}
              \cup (IF Tier = "quick" /\ n = 3
                    THEN {pq \in TwoPairs(n) : (NameNo(pq[1][1]) + NameNo(pq[2][2])) % 3 = Shard}
                    ELSE TwoPairs(n))
IdArgs(n) == {<<"none", "", 0>>} \cup {<<"name", Names[i], 0>> : i \in 1..n} \cup {<<"name", "ZZ", 0>>}
             \cup {<<"index", "", i>> : i \in 0..n}
InitSelect ==
    \E n \in 1..3 : \E peds \in PedSeqs(n) : \E s \in IdArgs(n) : \E nn \in IdArgs(n) : \E md \in MindSet :
        /\ op = "read" /\ segs = NoSegs
        /\ vcf = Vcf(SubSeq(Names, 1, n), peds, SelRecs(n))
        /\ args = [DefaultArgs EXCEPT !.sk = s[1], !.sn = s[2], !.si = s[3], !.nk = nn[1], !.nn = nn[2], !.ni = nn[3],
                                      !.mind = IF md = 0 THEN -1 ELSE md]

(* ---------------------------------------------------------------- scope "record": one sample, one record *)
GTs == {<<0, 0>>, <<0, 1>>, <<1, 0>>, <<1, 1>>, <<-1, -1>>, <<-1, 1>>, <<0, -1>>, <<1>>, <<0>>, <<-1>>}
ADs == {<<-1>>, <<0, 0>>, <<2, 0>>, <<1, 1>>, <<0, 2>>, <<3>>, <<1, -1>>, <<-1, 2>>, <<-1, -1>>}
DPs == {-1, 0, 1, 2, 3}
InitRecord ==
    \E fad, fdp \in BOOLEAN : \E gt \in GTs : \E ad \in (IF fad THEN ADs ELSE {<<-1>>}) :
    \E dp \in (IF fdp THEN DPs ELSE {-1}) :
    \E idp \in (IF Tier = "quick" /\ (fad \/ fdp) THEN {-1} ELSE {-1, 2}) :
    \E md \in (IF Tier = "quick" THEN {-1, 2} ELSE {-1, 0, 2}) :
        /\ op = "read" /\ segs = NoSegs
        /\ vcf = Vcf(<<"S1">>, <<>>, << Rc(1, 3, "A", "G", <<"PASS">>, FALSE, idp, fad, fdp, <<Cl(gt, ad, dp)>>) >>)
        /\ args = [DefaultArgs EXCEPT !.mind = md]

(* ---------------------------------------------------------------- scope "alleles": SNV, insertion, deletion, <DEL> *)
Alleles == {<<"A", "G", FALSE, -1>>, <<"A", "GTT", FALSE, -1>>, <<"ATT", "A", FALSE, -1>>, <<"AT", "GC", FALSE, -1>>,
            <<"N", "<DEL>", TRUE, 9>>, <<"N", "<DEL>", TRUE, -1>>, <<"NNN", "<DUP>", TRUE, -1>>}
InitAlleles ==
    \E al \in Alleles : \E pos \in {1, 4} : \E two \in BOOLEAN :
        /\ op = "read" /\ segs = NoSegs /\ args = DefaultArgs
        /\ vcf = Vcf(<<"S1">>, <<>>,
                     << [Rc(1, pos, al[1], al[2], <<>>, FALSE, -1, TRUE, TRUE, <<Cl(<<0, 1>>, <<1, 2>>, 3)>>)
                            EXCEPT !.sym = al[3], !.svend = al[4]] >>
                     \o (IF two THEN << Rc(1, pos, "A", "C", <<>>, FALSE, -1, TRUE, TRUE, <<Cl(<<1, 1>>, <<0, 2>>, 2)>>) >> ELSE <<>>))

(* ---------------------------------------------------------------- scope "flags": SOMATIC / FILTER x skip_* x min_depth *)
Filts == {<<>>, <<"PASS">>, <<"REJECT">>, <<"LowQual", "KEEP">>}
InitFlags ==
    \E s1, s2 \in BOOLEAN : \E f1, f2 \in Filts : \E ss, sr \in BOOLEAN : \E md \in {-1, 2} :
        /\ op = "read" /\ segs = NoSegs
        /\ vcf = Vcf(<<"S1">>, <<>>, << Rc(1, 3, "A", "G", f1, s1, -1, TRUE, TRUE, <<Cl(<<0, 1>>, <<0, 1>>, 1)>>),
                                        Rc(2, 7, "C", "T", f2, s2, -1, TRUE, TRUE, <<Cl(<<0, 1>>, <<1, 2>>, 3)>>) >>)
        /\ args = [DefaultArgs EXCEPT !.skipsom = ss, !.skiprej = sr, !.mind = md]

(* ---------------------------------------------------------------- scope "somdepth": where in the file is the depth? *)
(* two records, each SOMATIC or not, whose filtered sample (the sample, or the paired normal) has full depth, low     *)
(* depth, "." for DP and AD, or a FORMAT of GT only -- so that depth information may exist only in a SOMATIC record,   *)
(* only in a germline record, or nowhere -- x skip_somatic x min_depth, through read and load_het_snps                *)
SdKinds == {"full", "low", "dots", "gtonly"}
SdKeyCall(kind) == CASE kind = "full" -> Cl(<<0, 1>>, <<2, 2>>, 4)
                     [] kind = "low" -> Cl(<<0, 1>>, <<1, 0>>, 1)
                     [] OTHER -> Cl(<<0, 1>>, <<-1>>, -1)
SdRec(pos, ref, alt, kind, som, paired) ==
    Rc(1, pos, ref, alt, <<>>, som, -1, kind # "gtonly", kind # "gtonly",
       IF paired THEN << IF kind = "gtonly" THEN Cl(<<0, 1>>, <<-1>>, -1) ELSE Cl(<<0, 1>>, <<3, 3>>, 6), SdKeyCall(kind) >>
       ELSE << SdKeyCall(kind) >>)
SdCfg == {<<"read", FALSE, -1>>, <<"read", TRUE, -1>>, <<"read", FALSE, 2>>, <<"read", TRUE, 2>>, <<"hets", TRUE, 2>>}
InitSomDepth ==
    \E k1, k2 \in SdKinds : \E s1, s2 \in BOOLEAN : \E cf \in SdCfg : \E paired \in BOOLEAN :
        /\ op = cf[1] /\ segs = NoSegs
        /\ vcf = Vcf(IF paired THEN <<"S1", "S2">> ELSE <<"S1">>, IF paired THEN << <<"S1", "S2">> >> ELSE <<>>,
                     << SdRec(3, "A", "G", k1, s1, paired), SdRec(7, "C", "T", k2, s2, paired) >>)
        /\ args = [DefaultArgs EXCEPT !.skipsom = cf[2], !.mind = IF cf[1] = "hets" THEN 2 ELSE cf[3]]

(* ---------------------------------------------------------------- scope "pair": tumour + normal, read and load_het_snps *)
TCalls == {Cl(<<0, 1>>, <<2, 2>>, 4), Cl(<<0, 1>>, <<1, 3>>, 4), Cl(<<1, 1>>, <<0, 2>>, 2), Cl(<<0, 0>>, <<4, 0>>, 4),
           Cl(<<-1, -1>>, <<-1>>, -1), Cl(<<0, 1>>, <<0, 0>>, 0)}
NCalls == {Cl(<<0, 1>>, <<2, 2>>, 4), Cl(<<0, 1>>, <<3, 1>>, 4), Cl(<<0, 0>>, <<4, 0>>, 4), Cl(<<0, 0>>, <<1, 0>>, 1),
           Cl(<<1, 1>>, <<0, 4>>, 4), Cl(<<-1, -1>>, <<-1>>, -1), Cl(<<0, 1>>, <<1, 1>>, 2), Cl(<<0, 1>>, <<0, 3>>, 3)}
HetArgs == {<<"read", 0, 0, FALSE>>, <<"hets", 0, 0, FALSE>>, <<"hets", 0, 0, TRUE>>, <<"hets", 1, 4, FALSE>>,
            <<"hets", 1, 4, TRUE>>, <<"hets", 1, 2, FALSE>>, <<"hets", 0, 1, FALSE>>}
PairQuick == {<<<<"read", 0, 0, FALSE>>, 0, FALSE>>, <<<<"read", 0, 0, FALSE>>, 2, FALSE>>, <<<<"read", 0, 0, FALSE>>, 2, TRUE>>,
              <<<<"hets", 0, 0, FALSE>>, 0, FALSE>>, <<<<"hets", 0, 0, FALSE>>, 2, TRUE>>, <<<<"hets", 0, 0, TRUE>>, 0, TRUE>>,
              <<<<"hets", 1, 4, FALSE>>, 0, FALSE>>, <<<<"hets", 1, 4, TRUE>>, 2, FALSE>>, <<<<"hets", 1, 2, FALSE>>, 0, FALSE>>,
              <<<<"hets", 0, 1, FALSE>>, 0, TRUE>>}
InitPair ==
    \E t \in TCalls : \E nc \in NCalls : \E t2 \in {Cl(<<0, 1>>, <<1, 2>>, 3), Cl(<<0, 0>>, <<3, 0>>, 3)} :
    \E ha \in HetArgs : \E md \in {0, 2} : \E byped \in BOOLEAN :
        /\ (Tier = "quick") => <<ha, md, byped>> \in PairQuick
        /\ op = ha[1] /\ segs = NoSegs
        /\ vcf = Vcf(<<"S1", "S2">>, IF byped THEN << <<"S1", "S2">> >> ELSE <<>>,
                     << Rc(1, 3, "A", "G", <<>>, FALSE, -1, TRUE, TRUE, <<t, nc>>),
                        Rc(1, 7, "C", "T", <<>>, FALSE, -1, TRUE, TRUE, <<t2, Cl(<<0, 1>>, <<2, 1>>, 3)>>) >>)
        /\ args = [DefaultArgs EXCEPT !.nk = IF byped THEN "none" ELSE "name", !.nn = IF byped THEN "" ELSE "S2",
                                      !.mind = IF ha[1] = "read" /\ md = 0 THEN -1 ELSE md,
                                      !.zn = ha[2], !.zd = ha[3], !.tboost = ha[4]]

(* ---------------------------------------------------------------- scope "hets1": one sample, load_het_snps *)
HCalls == {Cl(<<0, 1>>, <<2, 2>>, 4), Cl(<<0, 1>>, <<3, 1>>, 4), Cl(<<1, 1>>, <<0, 4>>, 4), Cl(<<0, 0>>, <<2, 0>>, 2),
           Cl(<<-1, -1>>, <<-1>>, -1)}
InitHets1 ==
    \E c1, c2 \in HCalls : \E som \in BOOLEAN : \E z \in {<<0, 0>>, <<1, 4>>} : \E md \in {0, 3} :
        /\ op = "hets" /\ segs = NoSegs
        /\ vcf = Vcf(<<"S1">>, <<>>, << Rc(1, 3, "A", "G", <<>>, som, -1, TRUE, TRUE, <<c1>>),
                                        Rc(1, 7, "C", "T", <<>>, FALSE, -1, TRUE, TRUE, <<c2>>) >>)
        /\ args = [DefaultArgs EXCEPT !.mind = md, !.zn = z[1], !.zd = z[2]]

(* ---------------------------------------------------------------- scope "baf": up to 3 variants, fixed ranges *)
BafSegs == << <<1, 0, 3>>, <<1, 3, 6>>, <<2, 0, 5>> >>
BafCalls == {Cl(<<0, 1>>, <<3, 1>>, 4), Cl(<<0, 1>>, <<2, 2>>, 4), Cl(<<0, 1>>, <<1, 3>>, 4), Cl(<<1, 1>>, <<0, 4>>, 4)}
(* <<op, above_half, purity num, den, construction route of the range / segment table>>; the route changes only the    *)
(* row index labels of the table handed to the code (fresh 0..n-1 / boolean-mask filtered out of a larger table /      *)
(* permuted / offset) -- the specification does not look at it: the BAF of a segment depends on its coordinates only   *)
Routes == {"fresh", "masked", "permuted", "offset"}
BafOps == IF Tier = "quick"
          THEN {<<"baf", -1, 0, 0, "masked">>, <<"baf", 0, 0, 0, "permuted">>, <<"baf", 1, 0, 0, "offset">>,
                <<"mirror", -1, 0, 0, "fresh">>, <<"mirror", 1, 0, 0, "fresh">>, <<"call", -1, 1, 2, "masked">>}
               \cup {<<"call", -1, 0, 0, rt>> : rt \in Routes}
          ELSE {<<"mirror", -1, 0, 0, "fresh">>, <<"mirror", 1, 0, 0, "fresh">>}
               \cup {<<"baf", ab, 0, 0, rt>> : ab \in {-1, 0, 1}, rt \in Routes}
               \cup {<<"call", -1, 0, 0, rt>> : rt \in Routes} \cup {<<"call", -1, 1, 2, rt>> : rt \in Routes}
Pick(has, rec) == IF has THEN <<rec>> ELSE <<>>
InitBaf ==
    \E h1, h2, h3 \in BOOLEAN : \E c1, c2, c3 \in BafCalls : \E ins \in BOOLEAN : \E bo \in BafOps :
        /\ (~h1 => c1 = Cl(<<0, 1>>, <<3, 1>>, 4)) /\ (~h2 => (c2 = Cl(<<0, 1>>, <<3, 1>>, 4) /\ ~ins))
        /\ (~h3 => c3 = Cl(<<0, 1>>, <<3, 1>>, 4))
        /\ op = bo[1] /\ segs = BafSegs
        /\ vcf = Vcf(<<"S1">>, <<>>,
                     Pick(h1, Rc(1, 2, "A", "G", <<>>, FALSE, -1, TRUE, TRUE, <<c1>>))
                     \o Pick(h2, Rc(1, 3, "A", IF ins THEN "GTT" ELSE "G", <<>>, FALSE, -1, TRUE, TRUE, <<c2>>))
                     \o Pick(h3, Rc(1, 5, "C", "T", <<>>, FALSE, -1, TRUE, TRUE, <<c3>>)))
        /\ args = [DefaultArgs EXCEPT !.above = bo[2], !.pn = bo[3], !.pd = bo[4], !.route = bo[5]]

(* ---------------------------------------------------------------- scope "boost": a pair, TumorBoost *)
BTN == {<<Cl(<<0, 1>>, <<3, 1>>, 4), Cl(<<0, 1>>, <<2, 2>>, 4)>>, <<Cl(<<0, 1>>, <<1, 3>>, 4), Cl(<<0, 1>>, <<2, 2>>, 4)>>,
        <<Cl(<<0, 1>>, <<2, 2>>, 4), Cl(<<0, 1>>, <<3, 1>>, 4)>>, <<Cl(<<0, 1>>, <<1, 3>>, 4), Cl(<<0, 0>>, <<4, 0>>, 4)>>,
        <<Cl(<<1, 1>>, <<0, 4>>, 4), Cl(<<1, 1>>, <<0, 4>>, 4)>>, <<Cl(<<0, 1>>, <<1, 3>>, 4), Cl(<<0, 1>>, <<1, 3>>, 4)>>}
BoostOps == {<<"baf", -1>>, <<"baf", 1>>, <<"boost", -1>>, <<"mirror", -1>>, <<"mirror", 0>>}
InitBoost ==
    \E h1, h2, h3 \in BOOLEAN : \E p1, p2, p3 \in BTN : \E bo \in BoostOps :
        /\ (Tier = "quick") => ~h3
        /\ (~h1 => p1 = CHOOSE x \in BTN : TRUE) /\ (~h2 => p2 = CHOOSE x \in BTN : TRUE)
        /\ (~h3 => p3 = CHOOSE x \in BTN : TRUE)
        /\ op = bo[1] /\ segs = BafSegs
        /\ vcf = Vcf(<<"S1", "S2">>, << <<"S1", "S2">> >>,
                     Pick(h1, Rc(1, 2, "A", "G", <<>>, FALSE, -1, TRUE, TRUE, p1))
                     \o Pick(h2, Rc(1, 3, "A", "G", <<>>, FALSE, -1, TRUE, TRUE, p2))
                     \o Pick(h3, Rc(1, 5, "C", "T", <<>>, FALSE, -1, TRUE, TRUE, p3)))
        /\ args = [DefaultArgs EXCEPT !.above = bo[2], !.tboost = TRUE]

(* ---- the A-layer result dressed as an observed record --------------------------------------------- *)
ObsOfRat(q) == LET an == IAbs(q[1])
                   hi == (an * 1000000) \div q[2]
                   lo == (((an * 1000000) % q[2]) * 1000000) \div q[2]
               IN [m |-> "", neg |-> q[1] < 0, hi |-> hi, lo |-> lo]
ObsOfVal(v) == IF v.m = "" THEN ObsOfRat(v.q) ELSE [m |-> v.m, neg |-> FALSE, hi |-> 0, lo |-> 0]
ObsRows(rows) == [j \in Idx(rows) |-> [rows[j] EXCEPT !.af = ObsOfVal(rows[j].af), !.naf = ObsOfVal(rows[j].naf)]]
Blank == [op |-> op, vcf |-> vcf, args |-> args, segs |-> segs, err |-> "", sel |-> [called |-> FALSE, sid |-> "", nid |-> ""],
          paired |-> FALSE, rows |-> <<>>, out |-> <<>>, nrec |-> Len(vcf.recs)]
ALayerRec ==
    IF op \in {"read", "hets"}
    THEN LET x == IF op = "read" THEN ReadA(vcf, args) ELSE HetsA(vcf, args) IN
         [Blank EXCEPT !.err = IF x.err THEN "error" ELSE "",
                       !.sel = [called |-> ~ChooseA(vcf, args).err, sid |-> ChooseA(vcf, args).sid, nid |-> ChooseA(vcf, args).nid],
                       !.paired = x.nid # "", !.rows = ObsRows(x.rows)]
    ELSE LET x == ReadA(vcf, args)
             rows == ObsRows(x.rows)
             paired == x.nid # ""
             o == CASE op = "baf" -> BafByRangesA(rows, paired, segs, args.above, args.tboost)
                    [] op = "call" -> CallBafA(rows, paired, segs, args.pn, args.pd)
                    [] op = "mirror" -> MirrorA(rows, paired, args.above, args.tboost)
                    [] op = "boost" -> IF paired THEN [j \in Idx(rows) |-> BoostRow(rows[j])] ELSE <<>>
         IN [Blank EXCEPT !.err = IF op = "boost" /\ ~paired THEN "error" ELSE "", !.paired = paired, !.rows = rows,
                          !.sel = [called |-> TRUE, sid |-> x.sid, nid |-> x.nid],
                          !.out = [j \in Idx(o) |-> ObsOfVal(o[j])]]

Init == /\ ph = "call"
        /\ CASE Scope = "select"  -> InitSelect
             [] Scope = "record"  -> InitRecord
             [] Scope = "alleles" -> InitAlleles
             [] Scope = "flags"   -> InitFlags
             [] Scope = "somdepth" -> InitSomDepth
             [] Scope = "pair"    -> InitPair
             [] Scope = "hets1"   -> InitHets1
             [] Scope = "baf"     -> InitBaf
             [] Scope = "boost"   -> InitBoost
(* the A-layer result is a function of the state (kept out of the state so that the dump stays small) *)
Next == /\ ph = "call" /\ ph' = "ret" /\ UNCHANGED <<op, vcf, args, segs>>
Spec == Init /\ [][Next]_vars

(* the algorithm as modelled satisfies every clause of the property ... *)
DesignOK == (ph = "ret" /\ Premise(ALayerRec)) => \A c \in Clauses(op) : Holds(c, ALayerRec)
(* ... except on inputs characterised by a known-finding trigger (used while those findings are open) *)
DesignOKModuloKnown == (ph = "ret" /\ Premise(ALayerRec)) =>
    \/ \A c \in Clauses(op) : Holds(c, ALayerRec)
    \/ \E t \in KnownTriggers : TriggerHolds(t, ALayerRec)
(* the model never disagrees with itself *)
DesignNoDrift == (ph = "ret" /\ Premise(ALayerRec)) => ~Drift(ALayerRec)
(* the scopes are inside the premise (nothing enumerated is silently unjudged) *)
DesignInScope == ph = "ret" => Premise(ALayerRec)
=============================================================================
