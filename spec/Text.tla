--------------------------- MODULE Text ---------------------------
(* Text the specification has to look *into* is a sequence of character codes, Seq(0..255)   *)
(* (TLC strings support only =, \o and Len).  This module is the shared text library:        *)
(*   - character classes as Python's `re` sees ASCII text (\w \d \s \S), case folding;       *)
(*   - lexicographic order, prefix tests, splitting and joining, decimal integers;           *)
(*   - decimal number text  <->  canonical decimal  [neg, d, e]  (value = d1.d2d3.. * 10^e); *)
(*   - a non-recursive stable sort parametrised by a strict weak order;                      *)
(*   - the natural chromosome order of skgenome/chromsort.py::sorter_chrom, exactly:         *)
(*     KeyLess(name1, name2).                                                                *)
(* The contig-name rule (re_noncanonical) and the substring helpers HasSubAt, ContainsSub,   *)
(* StartsWithSub, EndsWithSub come from ContigNames.tla, which this module extends.          *)
EXTENDS ContigNames, Naturals, Integers, Sequences, FiniteSets, TLC

(* ------------------------------------------------------------------ character classes *)
IsDigit(c)    == c \in 48..57                              \* \d   (ASCII)
IsUpper(c)    == c \in 65..90
IsLower(c)    == c \in 97..122
IsAlpha(c)    == IsUpper(c) \/ IsLower(c)
IsWord(c)     == IsAlpha(c) \/ IsDigit(c) \/ c = 95         \* \w   = [A-Za-z0-9_]
IsSpace(c)    == c \in 9..13 \/ c \in 28..32                \* \s   of a str pattern (incl. \x1c-\x1f)
IsNonSpace(c) == ~IsSpace(c)                               \* \S
ToLower(c)    == IF IsUpper(c) THEN c + 32 ELSE c
LowerSeq(s)   == [k \in 1..Len(s) |-> ToLower(s[k])]
AllChars(s, P(_)) == \A k \in 1..Len(s) : P(s[k])
AnyChar(s, P(_))  == \E k \in 1..Len(s) : P(s[k])
IsText(s)     == \A k \in 1..Len(s) : s[k] \in 0..255

(* frequent single characters *)
ch_tab == 9      ch_space == 32   ch_hash == 35    ch_plus == 43   ch_comma == 44
ch_minus == 45   ch_dot == 46     ch_colon == 58   ch_semi == 59   ch_eq == 61
ch_at == 64      ch_us == 95      ch_quote == 34   ch_lt == 60     ch_gt == 62

(* ------------------------------------------------------------------ sequences of codes *)
MinOf(S) == CHOOSE k \in S : \A j \in S : k <= j
MaxOf(S) == CHOOSE k \in S : \A j \in S : k >= j
(* Python str `<`: code-point lexicographic *)
SeqLess(a, b) ==
    LET n == IF Len(a) < Len(b) THEN Len(a) ELSE Len(b)
        diffs == {k \in 1..n : a[k] # b[k]}
    IN IF diffs = {} THEN Len(a) < Len(b) ELSE LET k == MinOf(diffs) IN a[k] < b[k]
SeqLeq(a, b) == a = b \/ SeqLess(a, b)
DropFirst(s, n) == SubSeq(s, n + 1, Len(s))
TakeFirst(s, n) == SubSeq(s, 1, n)
(* number of leading characters satisfying P  (itertools.takewhile) *)
LeadCount(s, P(_)) ==
    LET bad == {k \in 1..Len(s) : ~P(s[k])} IN IF bad = {} THEN Len(s) ELSE MinOf(bad) - 1
(* number of trailing characters satisfying P *)
TrailCount(s, P(_)) ==
    LET bad == {k \in 1..Len(s) : ~P(s[k])} IN IF bad = {} THEN Len(s) ELSE Len(s) - MaxOf(bad)
RStrip(s) == TakeFirst(s, Len(s) - TrailCount(s, IsSpace))         \* str.rstrip()
Positions(s, c) == {k \in 1..Len(s) : s[k] = c}
StartsWithCI(s, p) == Len(s) >= Len(p) /\ LowerSeq(TakeFirst(s, Len(p))) = LowerSeq(p)
(* index of the first occurrence of sub-sequence p in s, 0 if none  (str.find + 1) *)
FindSub(s, p) == LET hits == {k \in 1..(Len(s) - Len(p) + 1) : HasSubAt(s, p, k)}
                 IN IF hits = {} THEN 0 ELSE MinOf(hits)

(* str.split(sep) for a one-character separator: always >= 1 piece *)
SplitOn(s, sep) ==
    LET cuts == Positions(s, sep)
        n    == Cardinality(cuts)
        cut  == [j \in 0..(n + 1) |-> IF j = 0 THEN 0 ELSE IF j = n + 1 THEN Len(s) + 1
                                      ELSE CHOOSE p \in cuts : Cardinality({q \in cuts : q < p}) = j - 1]
    IN [j \in 1..(n + 1) |-> SubSeq(s, cut[j - 1] + 1, cut[j] - 1)]
RECURSIVE JoinWith(_, _)
JoinWith(parts, sep) == IF parts = <<>> THEN <<>>
                        ELSE IF Len(parts) = 1 THEN parts[1]
                        ELSE parts[1] \o <<sep>> \o JoinWith(Tail(parts), sep)
RECURSIVE Concat(_)
Concat(parts) == IF parts = <<>> THEN <<>> ELSE Head(parts) \o Concat(Tail(parts))
Repeat(c, n) == [k \in 1..n |-> c]
(* the elements of a finite set of integers in increasing order *)
SortedSeqOfSet(S) == [p \in 1..Cardinality(S) |-> CHOOSE x \in S : Cardinality({y \in S : y < x}) = p - 1]
(* the sub-sequence of s at the (increasing) positions in the set K *)
SeqAt(s, K) == LET ks == SortedSeqOfSet(K) IN [p \in 1..Len(ks) |-> s[ks[p]]]
(* elements of s in order of first appearance *)
FirstSeen(s) == SeqAt(s, {k \in 1..Len(s) : \A j \in 1..(k - 1) : s[j] # s[k]})

(* ------------------------------------------------------------------ decimal integers *)
RECURSIVE DigitsVal(_)
DigitsVal(ds) ==   \* value of a run of digit codes; the caller keeps it below 2^31 (<= 9 digits)
    IF ds = <<>> THEN 0 ELSE DigitsVal(SubSeq(ds, 1, Len(ds) - 1)) * 10 + (ds[Len(ds)] - 48)
RECURSIVE NatText(_)
NatText(n) == IF n < 10 THEN <<48 + n>> ELSE NatText(n \div 10) \o <<48 + (n % 10)>>   \* str(n), n >= 0
IntText(n) == IF n < 0 THEN <<ch_minus>> \o NatText(0 - n) ELSE NatText(n)             \* str(n)
IsNatText(s) == s # <<>> /\ AllChars(s, IsDigit)
(* int(text) as Python/pandas accept it in a column of integers: optional sign, digits; fits 32 bits *)
txt_maxint == <<50, 49, 52, 55, 52, 56, 51, 54, 52, 55>>      \* "2147483647"
IsIntText(s) == LET body == IF s # <<>> /\ s[1] \in {ch_plus, ch_minus} THEN Tail(s) ELSE s
                    sig  == DropFirst(body, LeadCount(body, LAMBDA c : c = 48))
                IN IsNatText(body) /\ (Len(sig) <= 9 \/ (Len(sig) = 10 /\ SeqLeq(sig, txt_maxint)))
IntVal(s) == LET neg  == s[1] = ch_minus
                 body == IF s[1] \in {ch_plus, ch_minus} THEN Tail(s) ELSE s
                 v    == DigitsVal(DropFirst(body, LeadCount(body, LAMBDA c : c = 48)))
             IN IF neg THEN 0 - v ELSE v
CanonicalNatText(s) == IsNatText(s) /\ (Len(s) = 1 \/ s[1] # 48)     \* no leading zeros

(* ------------------------------------------------------------------ decimal numbers *)
(* canonical decimal: [neg, d, e]; d = significant digits (values 0..9, first and last non-zero), *)
(* value = (-1)^neg * d[1].d[2]d[3].. * 10^e;  zero is d = <<>>, e = 0 (neg kept: "-0").          *)
Dec(neg, d, e) == [neg |-> neg, d |-> d, e |-> e]
StripZeros(ds) ==   \* digit *values*; drop leading and trailing zeros
    LET lz == LeadCount(ds, LAMBDA x : x = 0)
        tz == TrailCount(ds, LAMBDA x : x = 0)
    IN IF lz = Len(ds) THEN <<>> ELSE SubSeq(ds, lz + 1, Len(ds) - tz)
DigitValues(s) == [k \in 1..Len(s) |-> s[k] - 48]
(* text of a plain decimal number:  [+-]? (digits [. digits*] | . digits) ([eE] [+-]? digits)?   *)
(* -> [ok, neg, d, e]   (no inf/nan/hex/underscores; exponent of at most 4 digits)              *)
ParseDecimal(s) ==
    LET bad  == [ok |-> FALSE, neg |-> FALSE, d |-> <<>>, e |-> 0]
        sgn  == s # <<>> /\ s[1] \in {ch_plus, ch_minus}
        neg  == sgn /\ s[1] = ch_minus
        body == IF sgn THEN Tail(s) ELSE s
        epos == {k \in 1..Len(body) : body[k] \in {101, 69}}
    IN IF Cardinality(epos) > 1 THEN bad ELSE
       LET p     == IF epos = {} THEN Len(body) + 1 ELSE MinOf(epos)
           mant  == SubSeq(body, 1, p - 1)
           expo  == SubSeq(body, p + 1, Len(body))
           esgn  == expo # <<>> /\ expo[1] \in {ch_plus, ch_minus}
           edig  == IF esgn THEN Tail(expo) ELSE expo
           eok   == epos = {} \/ (IsNatText(edig) /\ Len(edig) <= 4)
           dots  == Positions(mant, ch_dot)
       IN IF ~eok \/ Cardinality(dots) > 1 THEN bad ELSE
          LET q    == IF dots = {} THEN Len(mant) + 1 ELSE MinOf(dots)
              ip   == SubSeq(mant, 1, q - 1)
              fp   == SubSeq(mant, q + 1, Len(mant))
              all  == ip \o fp
          IN IF all = <<>> \/ ~AllChars(all, IsDigit) THEN bad ELSE
             LET ev  == IF epos = {} THEN 0
                        ELSE IF esgn /\ expo[1] = ch_minus THEN 0 - DigitsVal(edig) ELSE DigitsVal(edig)
                 dv  == DigitValues(all)
                 lz  == LeadCount(dv, LAMBDA x : x = 0)
                 sig == StripZeros(dv)
             IN IF sig = <<>> THEN [ok |-> TRUE, neg |-> neg, d |-> <<>>, e |-> 0]
                ELSE [ok |-> TRUE, neg |-> neg, d |-> sig, e |-> ev + Len(ip) - lz - 1]
IsDecimalText(s) == ParseDecimal(s).ok
DecOfInt(n) ==   \* the canonical decimal of an integer
    IF n = 0 THEN Dec(FALSE, <<>>, 0)
    ELSE LET m == IF n < 0 THEN 0 - n ELSE n
             t == DigitValues(NatText(m))
         IN Dec(n < 0, StripZeros(t), Len(t) - 1)

(* ------------------------------------------------------------------ stable sort *)
(* Stable sort of a sequence by a strict weak order Less: element k goes to position           *)
(* 1 + #{j : s[j] < s[k], or s[j] ~ s[k] and j < k}.  (pandas sort_values(kind="mergesort"))   *)
StableSortBy(s, Less(_, _)) ==
    LET n    == Len(s)
        rank == [k \in 1..n |-> 1 + Cardinality({j \in 1..n :
                                      Less(s[j], s[k]) \/ (~Less(s[k], s[j]) /\ j < k)})]
        inv  == [p \in 1..n |-> CHOOSE k \in 1..n : rank[k] = p]
    IN [p \in 1..n |-> s[inv[p]]]
IsSortedBy(s, Less(_, _)) == \A k \in 1..(Len(s) - 1) : ~Less(s[k + 1], s[k])

(* ------------------------------------------------------------------ natural chromosome order *)
(* skgenome/chromsort.py::sorter_chrom(label) -> (int, str), compared as Python tuples:         *)
(*   chrom = label without a case-insensitive "chr" prefix                                      *)
(*   "X", "Y"                         -> (1000, chrom)                                          *)
(*   nums = leading digits, chars = the rest, n = int(nums) or 0                                *)
(*   no rest                          -> (n, "")                                                *)
(*   one-character rest               -> (2000 + n, chars)                                      *)
(*   longer rest                      -> (3000 + n, chars)                                      *)
(* so 1 < 2 < 10 < X < Y < M < 1_random ... ; chrUn_x (3000) sorts before chr1_x_random (3001). *)
txt_chr == <<99, 104, 114>>
StripChr(label) == IF StartsWithCI(label, txt_chr) THEN DropFirst(label, 3) ELSE label
ChromKey(label) ==
    LET chrom == StripChr(label) IN
    IF chrom = <<88>> \/ chrom = <<89>> THEN <<1000, chrom>>
    ELSE LET nd    == LeadCount(chrom, IsDigit)
             chars == DropFirst(chrom, nd)
             n     == IF nd = 0 THEN 0 ELSE DigitsVal(TakeFirst(chrom, nd))
         IN IF chars = <<>> THEN <<n, <<>>>>
            ELSE IF Len(chars) = 1 THEN <<2000 + n, chars>>
            ELSE <<3000 + n, chars>>
KeyTupleLess(k1, k2) == k1[1] < k2[1] \/ (k1[1] = k2[1] /\ SeqLess(k1[2], k2[2]))
KeyLess(name1, name2) == KeyTupleLess(ChromKey(name1), ChromKey(name2))
KeyEq(name1, name2)   == ChromKey(name1) = ChromKey(name2)
(* the integer part of the key must fit TLC's integers: at most 8 leading digits *)
KeyComputable(label) == LeadCount(StripChr(label), IsDigit) <= 8
=============================================================================
