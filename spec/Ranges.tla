--------------------------- MODULE Ranges ---------------------------
(* Range queries of skgenome (C07): selecting rows of one interval table by the ranges of    *)
(* another -- GenomicArray.by_ranges / in_range / in_ranges / intersection / iter_ranges_of /  *)
(* into_ranges (skgenome/gary.py, skgenome/intersect.py, skgenome/combiners.py).               *)
(*                                                                                            *)
(* A source row is <<c, s, e, g, v, n>>: chromosome id, 0-based half-open [s, e), a string     *)
(* column "gene", a floating-point column "val" carried as the integer v = 4 * val (the        *)
(* harness draws val from the dyadic grid k/4, so medians and sums are exact), and an integer  *)
(* column "n".  C, S, E, G, Sorted, PositiveW ... come from Intervals.  Every source row also  *)
(* has a pandas index *label* (r.aidx[k]); labels differ from positions for a filtered table.  *)
(*                                                                                            *)
(* A cell value (element of a column, default, summary) is <<kind, num, str>>:                  *)
(*   <<"s", 0, text>> a string; <<"n", 8*x, "">> a number x (int or float on the grid k/8);     *)
(*   <<"nan", 0, "">> NaN; <<"x", 0, repr>> anything else (never equal to a specified value).   *)
(*                                                                                            *)
(* P-layer = the statement of C07.  A-layer = the code, case for case.  Verdicts: P-layer only. *)
(* The A-layer follows the code after five repairs that this check prompted (fix: commits     *)
(* 2cea00a idx_ranges switch, 406f9c3 first_of, 7ec91cb iter_slices mode, 0128ddf into_ranges  *)
(* on empty tables, fecf384 in_ranges without ranges); the behaviour before them is kept as    *)
(* OldUseNested / OldFirstOf / OldIterSlicesAsserts / OldALayer for the DesignOld* invariants.  *)
EXTENDS Intervals

V(r) == r[5]
N(r) == r[6]

Modes     == {"outer", "inner", "trim"}
ModeBases == {"by_ranges", "in_range", "in_ranges", "intersection", "iter_ranges_of"}
TableQueryBases == {"by_ranges", "intersection", "iter_ranges_of", "into_ranges"}
OpName(base, mode) == IF base = "into_ranges" THEN base ELSE base \o "_" \o mode
AllOps == {OpName(bs, m) : bs \in ModeBases, m \in Modes} \cup {"into_ranges"}
BaseOf(op) == IF op = "into_ranges" THEN op ELSE CHOOSE bs \in ModeBases : \E m \in Modes : op = OpName(bs, m)
ModeOf(op) == IF op = "into_ranges" THEN "outer" ELSE CHOOSE m \in Modes : \E bs \in ModeBases : op = OpName(bs, m)
Pfx(base) == CASE base = "by_ranges" -> "br" [] base = "in_range" -> "ir" [] base = "in_ranges" -> "irs"
               [] base = "intersection" -> "ix" [] base = "iter_ranges_of" -> "iro" [] OTHER -> "into"

(* ---------------------------------------------------------------- cell values *)
NumV(x) == <<"n", x, "">>
StrV(s) == <<"s", 0, s>>
Cols    == {"gene", "val", "n", "start", "end"}
IntCol(col) == col \in {"n", "start", "end"}
ColVal(r, col) == CASE col = "gene"  -> StrV(G(r))
                    [] col = "val"   -> NumV(2 * V(r))
                    [] col = "n"     -> NumV(8 * N(r))
                    [] col = "start" -> NumV(8 * S(r))
                    [] col = "end"   -> NumV(8 * E(r))
                    [] OTHER         -> <<"x", 0, "no such column">>
ColVals(rows, col) == [j \in Idx(rows) |-> ColVal(rows[j], col)]

RECURSIVE InsertNum(_, _)
InsertNum(s, x) == IF s = <<>> THEN <<x>> ELSE IF x < Head(s) THEN <<x>> \o s ELSE <<Head(s)>> \o InsertNum(Tail(s), x)
RECURSIVE SortNums(_)
SortNums(s) == IF s = <<>> THEN <<>> ELSE InsertNum(SortNums(Tail(s)), Head(s))
(* twice the median of a non-empty sequence of integers (so it stays an integer) *)
Median2(s) == LET t == SortNums(s)  n == Len(t)
              IN IF n % 2 = 1 THEN 2 * t[(n + 1) \div 2] ELSE t[n \div 2] + t[n \div 2 + 1]

(* the callables the harness supplies as summary_func, by name *)
SummaryFns == {"count", "first", "last", "sum", "max"}
ApplyFn(f, vals) == CASE f = "count" -> NumV(8 * Len(vals))                         \* len
                      [] f = "first" -> vals[1]                                     \* lambda s: s.iat[0]
                      [] f = "last"  -> vals[Len(vals)]                             \* lambda s: s.iat[-1]
                      [] f = "sum"   -> NumV(SumSeq([k \in Idx(vals) |-> vals[k][2]]))  \* lambda s: s.sum()  (numeric)
                      [] f = "max"   -> NumV(Max({vals[k][2] : k \in Idx(vals)}))       \* max               (numeric)

(* ================================================================= P-layer ============ *)
(* A query range: chromosome c and [s, e); hs / he = FALSE means the start / end was given as  *)
(* None ("start from 0" / "select to the end of the chromosome": unbounded on that side).       *)
Qr(c, s, e, hs, he) == [c |-> c, s |-> s, e |-> e, hs |-> hs, he |-> he]
QOfRow(x) == Qr(C(x), S(x), E(x), TRUE, TRUE)

(* the bases a row shares with a query are [SharedLo, SharedHi) *)
SharedLo(r, q) == IF q.hs /\ q.s > S(r) THEN q.s ELSE S(r)
SharedHi(r, q) == IF q.he /\ q.e < E(r) THEN q.e ELSE E(r)
Overlaps(r, q)  == C(r) = q.c /\ SharedLo(r, q) < SharedHi(r, q)                         \* >= 1 shared base
Contained(r, q) == C(r) = q.c /\ (q.hs => q.s <= S(r)) /\ (q.he => E(r) <= q.e)          \* wholly inside
Clipped(r, q)   == [r EXCEPT ![2] = SharedLo(r, q), ![3] = SharedHi(r, q)]               \* clipped to the query

(* "for each query range and in table order, exactly the rows that overlap it by at least one base (outer), *)
(*  exactly those wholly contained in it (inner), or the overlapping rows clipped to it (trim)"            *)
Want(a, mode, q) ==
    CASE mode = "outer" -> SelectSeq(a, LAMBDA r : Overlaps(r, q))
      [] mode = "inner" -> SelectSeq(a, LAMBDA r : Contained(r, q))
      [] mode = "trim"  -> LET ov == SelectSeq(a, LAMBDA r : Overlaps(r, q)) IN [k \in Idx(ov) |-> Clipped(ov[k], q)]

(* in_range / in_ranges: chromosome None (r.chrom = 0) means "the table has only one chromosome" *)
QChrom(r) == IF r.chrom # 0 THEN r.chrom ELSE IF r.a = <<>> THEN 0 ELSE C(r.a[1])
Queries(r) ==
    IF r.base \in {"in_range", "in_ranges"}
    THEN IF ~r.hs /\ ~r.he THEN <<Qr(QChrom(r), 0, 0, FALSE, FALSE)>>       \* both None: the whole chromosome, once
         ELSE [k \in Idx(r.b) |-> Qr(QChrom(r), S(r.b[k]), E(r.b[k]), r.hs, r.he)]
    ELSE [k \in Idx(r.b) |-> QOfRow(r.b[k])]
Selections(r) == LET qs == Queries(r) IN [k \in Idx(qs) |-> Want(r.a, r.mode, qs[k])]

Coord3(x) == <<C(x), S(x), E(x)>>
(* by_ranges: one (query, rows) pair per query, in query order; queries without rows only if keep_empty *)
WantBy(r) == LET sel == Selections(r)
                 all == [k \in Idx(r.b) |-> <<Coord3(r.b[k]), sel[k]>>]
             IN IF r.keep THEN all ELSE SelectSeq(all, LAMBDA p : p[2] # <<>>)
(* iter_ranges_of: the column values of the selected rows, per query.  A column's values cannot be clipped, *)
(* so "trim" selects like "outer" and yields the values as they are in the table (also for start / end).    *)
SelectionsUnclipped(r) == LET qs == Queries(r) IN
    [k \in Idx(qs) |-> Want(r.a, IF r.mode = "trim" THEN "outer" ELSE r.mode, qs[k])]
WantVals(r) == LET sel == SelectionsUnclipped(r)
                   all == [k \in Idx(sel) |-> ColVals(sel[k], r.col)]
               IN IF r.keep THEN all ELSE SelectSeq(all, LAMBDA p : p # <<>>)
OutVals(out) == [k \in Idx(out) |-> [j \in Idx(out[k]) |-> out[k][j][2]]]

(* into_ranges: "one value per query range: the default where nothing overlaps, the value itself for a     *)
(*  single hit, otherwise the summary (comma-joined distinct strings, median of floating-point numbers,    *)
(*  or the supplied function)".  The statement names no default summary for an integer column; a constant  *)
(*  given instead of a function is "the supplied" summary.                                                 *)
SummaryOK(r, hits, got) ==
    LET vals == ColVals(hits, r.col) IN
    CASE r.col = "missing"                 -> TRUE
      [] r.sfun = "none" /\ r.col = "gene" -> got = StrV(JoinStrings([j \in Idx(hits) |-> G(hits[j])]))
      [] r.sfun = "none" /\ r.col = "val"  -> got = NumV(Median2([j \in Idx(hits) |-> V(hits[j])]))
      [] r.sfun = "none"                   -> TRUE
      [] r.sfun = "const"                  -> got = r.sconst
      [] OTHER                             -> got = ApplyFn(r.sfun, vals)
IntoShapeOK(r) == r.kind = "series" /\ Len(r.out) = Len(r.b)

RgClauses(op) ==
    LET base == BaseOf(op)  mode == ModeOf(op)  p == Pfx(base) IN
    CASE base = "by_ranges"      -> {"br_noerr", "br_bins", p \o "_" \o mode}
      [] base = "in_range"       -> {"ir_noerr", p \o "_" \o mode}
      [] base = "in_ranges"      -> {"irs_noerr", p \o "_" \o mode}
      [] base = "intersection"   -> {"ix_noerr", p \o "_" \o mode}
      [] base = "iter_ranges_of" -> {"iro_noerr", "iro_count", p \o "_" \o mode}
      [] base = "into_ranges"    -> {"into_noerr", "into_one_per_query", "into_default", "into_single", "into_summary"}

RgHolds(c, r) ==
    CASE c \in {"br_noerr", "ir_noerr", "irs_noerr", "ix_noerr", "iro_noerr", "into_noerr"} -> NoErr(r)
      (* by_ranges yields the queries in order (all of them / those with at least one row) ... *)
      [] c = "br_bins" -> NoErr(r) => LET w == WantBy(r) IN
                              [k \in Idx(r.out) |-> r.out[k][1]] = [k \in Idx(w) |-> w[k][1]]
      (* ... each with exactly the overlapping / contained / clipped rows, in table order *)
      [] c \in {"br_outer", "br_inner", "br_trim"} ->
            NoErr(r) => LET w == WantBy(r) IN
                            Len(r.out) = Len(w) /\ \A k \in Idx(w) : r.out[k][2] = w[k][2]
      (* in_range: the rows for the one range *)
      [] c \in {"ir_outer", "ir_inner", "ir_trim"} -> NoErr(r) => r.out = Selections(r)[1]
      (* in_ranges, intersection: the selections of all ranges, concatenated in query order *)
      [] c \in {"irs_outer", "irs_inner", "irs_trim", "ix_outer", "ix_inner", "ix_trim"} ->
            NoErr(r) => r.out = FlattenSeq(Selections(r))
      (* iter_ranges_of: one group of column values per query (all / the non-empty ones) *)
      [] c = "iro_count" -> NoErr(r) => Len(r.out) = Len(WantVals(r))
      [] c \in {"iro_outer", "iro_inner", "iro_trim"} -> NoErr(r) => OutVals(r.out) = WantVals(r)
      (* into_ranges returns one value per query range *)
      [] c = "into_one_per_query" -> NoErr(r) => IntoShapeOK(r)
      (* the default where nothing overlaps *)
      [] c = "into_default" -> (NoErr(r) /\ IntoShapeOK(r)) =>
            LET sel == Selections(r) IN \A k \in Idx(sel) : sel[k] = <<>> => r.out[k] = r.dflt
      (* the value itself for a single hit *)
      [] c = "into_single" -> (NoErr(r) /\ IntoShapeOK(r) /\ r.col # "missing") =>
            LET sel == Selections(r) IN \A k \in Idx(sel) : Len(sel[k]) = 1 => r.out[k] = ColVal(sel[k][1], r.col)
      (* otherwise the summary *)
      [] c = "into_summary" -> (NoErr(r) /\ IntoShapeOK(r)) =>
            LET sel == Selections(r) IN \A k \in Idx(sel) : Len(sel[k]) >= 2 => SummaryOK(r, sel[k], r.out[k])

(* premise: both tables sorted by (chromosome, start, end) as tabio.read delivers them, positive-width rows  *)
(* and positive-width query ranges ("overlap by at least one base" says nothing about empty intervals),      *)
(* non-negative coordinates; distinct index labels; chromosome None only on a single-chromosome table.       *)
Distinct(s) == \A p, q \in Idx(s) : p # q => s[p] # s[q]
RgPremise(r) ==
    /\ r.op \in AllOps /\ r.base = BaseOf(r.op) /\ r.mode = ModeOf(r.op)
    /\ Len(r.aidx) = Len(r.a) /\ Distinct(r.aidx)
    /\ PositiveW(r.a) /\ Sorted(r.a) /\ NonNeg(r.a)
    /\ NonNeg(r.b)
    /\ r.base \in TableQueryBases => (PositiveW(r.b) /\ Sorted(r.b))
    /\ r.base \in {"in_range", "in_ranges"} =>
          /\ (r.hs /\ r.he) => PositiveW(r.b)
          /\ (~r.hs /\ r.he) => \A k \in Idx(r.b) : E(r.b[k]) > 0
          /\ r.chrom = 0 => Cardinality(Chroms(r.a)) <= 1
          /\ r.chrom >= 0
    /\ r.base = "in_range" => Len(r.b) = 1
    /\ (r.base = "in_ranges" /\ r.hs # r.he) => Len(r.b) >= 1      \* one None and an empty list of the other: no meaning given
    /\ r.base = "iter_ranges_of" => r.col \in Cols
    /\ r.base = "into_ranges" =>
          /\ r.col \in Cols \cup {"missing"}
          /\ r.sfun \in {"none", "const"} \cup SummaryFns
          /\ r.sfun \in {"sum", "max"} => r.col \in {"val", "n", "start", "end"}

(* ================================================================= A-layer ============ *)
(* numpy's binary search (npy_binsearch.cpp), as Series.searchsorted reaches it: side "left" compares with <,  *)
(* "right" with <=; the bounds are carried from one key to the next (which only matters when the array is      *)
(* not sorted -- before fix 1 the code did search an unsorted `end` column, see OldUseNested).  0-based indices. *)
RECURSIVE BinLoop(_, _, _, _, _)
BinLoop(arr, key, right, lo, hi) ==
    IF lo >= hi THEN lo
    ELSE LET mid == lo + ((hi - lo) \div 2)
             less == IF right THEN arr[mid + 1] <= key ELSE arr[mid + 1] < key
         IN IF less THEN BinLoop(arr, key, right, mid + 1, hi) ELSE BinLoop(arr, key, right, lo, mid)
RECURSIVE SearchFrom(_, _, _, _, _, _, _)
SearchFrom(arr, keys, right, k, lo, hi, last) ==
    IF k > Len(keys) THEN <<>>
    ELSE LET key == keys[k]
             up  == IF right THEN last <= key ELSE last < key
             lo1 == IF up THEN lo ELSE 0
             hi1 == IF up THEN Len(arr) ELSE IF hi < Len(arr) THEN hi + 1 ELSE Len(arr)
             res == BinLoop(arr, key, right, lo1, hi1)
         IN <<res>> \o SearchFrom(arr, keys, right, k + 1, res, res, key)
SearchSorted(arr, keys, right) == IF keys = <<>> THEN <<>> ELSE SearchFrom(arr, keys, right, 1, 0, Len(arr), keys[1])

StartsCol(tab) == [k \in Idx(tab) |-> S(tab[k])]
EndsCol(tab)   == [k \in Idx(tab) |-> E(tab[k])]
MonoInc(s)     == \A k \in 1..Len(s)-1 : s[k] <= s[k+1]        \* Series.is_monotonic_increasing
AllPos(t)      == [k \in Idx(t) |-> k]
PosWhere(t, P(_)) == SelectSeq(AllPos(t), P)
SliceIJ(i, j)  == [k \in 1..(IF j > i THEN j - i ELSE 0) |-> i + k]   \* python slice(i, j) as 1-based positions
(* a start_val / end_val: <<FALSE, 0>> is None *)
NoneV == <<FALSE, 0>>
JustV(x) == <<TRUE, x>>
Truthy(v) == v[1] /\ v[2] # 0                                  \* `if start_val:` -- None and 0 are both falsy

(* intersect.py::_irange_simple.  starts = [S(q)] if hs else None; ends likewise.  -> seq of <<positions, start_val, end_val>> *)
IrangeSimple(tab, qs, hs, he, inner) ==
    LET n      == Len(qs)
        starts == [k \in 1..n |-> S(qs[k])]
        ends   == [k \in 1..n |-> E(qs[k])]
        haveS  == hs /\ n > 0
        haveE  == he /\ n > 0
        ns     == IF haveS THEN n ELSE IF he THEN n ELSE 1        \* np.zeros(len(ends) if ends is not None else 1)
        sidx   == IF haveS THEN (IF inner THEN SearchSorted(StartsCol(tab), starts, FALSE)
                                          ELSE SearchSorted(EndsCol(tab), starts, TRUE))
                  ELSE [k \in 1..ns |-> 0]
        svals  == IF haveS THEN [k \in 1..n |-> JustV(starts[k])] ELSE [k \in 1..ns |-> JustV(0)]
        eidx   == IF haveE THEN (IF inner THEN SearchSorted(EndsCol(tab), ends, TRUE)
                                          ELSE SearchSorted(StartsCol(tab), ends, FALSE))
                  ELSE [k \in 1..ns |-> Len(tab)]
        evals  == IF haveE THEN [k \in 1..n |-> JustV(ends[k])] ELSE [k \in 1..ns |-> NoneV]
    IN [k \in 1..ns |-> <<SliceIJ(sidx[k], eidx[k]), svals[k], evals[k]>>]

(* intersect.py::_irange_nested, one mask per query; hs / he say whether the start / end is not None        *)
(* (`if start_val:` skips None and 0; `if end_val is not None`).  MaskFor is also the reference for SimpleEqMask *)
MaskFor(tab, s, e, hs, he, inner) ==
    LET sv   == IF hs THEN JustV(s) ELSE NoneV
        m1(k) == IF Truthy(sv)
                 THEN (IF inner THEN k > SearchSorted(StartsCol(tab), <<s>>, FALSE)[1]      \* region_mask[:start_idx] = 0
                                ELSE E(tab[k]) > s)                                          \* table.end.values > start_val
                 ELSE TRUE
        m2(k) == IF he
                 THEN (IF inner THEN m1(k) /\ E(tab[k]) <= e                                \* &= table.end.values <= end_val
                                ELSE m1(k) /\ k <= SearchSorted(StartsCol(tab), <<e>>, FALSE)[1])  \* region_mask[end_idx:] = 0
                 ELSE m1(k)
    IN PosWhere(tab, m2)
IrangeNested(tab, qs, hs, he, inner) ==       \* a side given as None was filled with [None] * n by idx_ranges
    [k \in Idx(qs) |-> <<MaskFor(tab, S(qs[k]), E(qs[k]), hs, he, inner),
                         IF hs THEN JustV(S(qs[k])) ELSE NoneV, IF he THEN JustV(E(qs[k])) ELSE NoneV>>]

(* intersect.py::idx_ranges: whole table / the switch between the two paths.                               *)
(* Repaired switch (fix 1): the mask path whenever the end column is not monotonic and no given side is an   *)
(* empty list.  OldUseNested is the switch before the repair: mask path only when BOTH sides are given, so   *)
(* with one side None the binary search ran over an unsorted end column (see DesignOldSwitch in MC_Ranges).  *)
UseNested(tab, qs, hs, he)    == (~he \/ Len(qs) > 0) /\ (~hs \/ Len(qs) > 0) /\ ~MonoInc(EndsCol(tab))
OldUseNested(tab, qs, hs, he) == he /\ Len(qs) > 0 /\ hs /\ ~MonoInc(EndsCol(tab))
WholeTable(tab, hs, he)       == tab = <<>> \/ (~hs /\ ~he)
IdxRanges(tab, qs, hs, he, inner, fx) ==
    IF WholeTable(tab, hs, he) THEN << <<AllPos(tab), NoneV, NoneV>> >>            \* yield slice(None), None, None
    ELSE IF (IF fx THEN UseNested(tab, qs, hs, he) ELSE OldUseNested(tab, qs, hs, he))
         THEN IrangeNested(tab, qs, hs, he, inner)
         ELSE IrangeSimple(tab, qs, hs, he, inner)

(* intersect.py::iter_ranges on a table already restricted to one chromosome: the sub-tables, clipped for trim *)
ClipA(r, sv, ev) == [r EXCEPT ![2] = IF Truthy(sv) /\ @ < sv[2] THEN sv[2] ELSE @,      \* start.clip(lower=start_val)
                              ![3] = IF Truthy(ev) /\ @ > ev[2] THEN ev[2] ELSE @]      \* end.clip(upper=end_val)
IterRanges(tab, qs, hs, he, mode, fx) ==
    LET regs == IdxRanges(tab, qs, hs, he, mode = "inner", fx) IN
    [k \in Idx(regs) |-> LET pos == regs[k][1] IN
        [j \in Idx(pos) |-> IF mode = "trim" THEN ClipA(tab[pos[j]], regs[k][2], regs[k][3]) ELSE tab[pos[j]]]]

(* intersect.py::by_shared_chroms(queries, source, keep_empty): groups [qpos, spos, none] of row positions *)
FirstApp(t)  == UniqSeq([k \in Idx(t) |-> C(t[k])], <<>>)                 \* groupby(sort=False): order of first appearance
PosOn(t, c)  == PosWhere(t, LAMBDA k : C(t[k]) = c)
RowsAt(t, pos) == [j \in Idx(pos) |-> t[pos[j]]]
SharedChroms(q, a, keep) ==
    IF Cardinality(Chroms(q)) = 1 /\ Chroms(q) = Chroms(a)
    THEN << [qpos |-> AllPos(q), spos |-> AllPos(a), none |-> FALSE] >>       \* single-chromosome shortcut: the tables as they are
    ELSE LET cs == FirstApp(q)
             grp(c) == IF c \in Chroms(a) THEN << [qpos |-> PosOn(q, c), spos |-> PosOn(a, c), none |-> FALSE] >>
                       ELSE IF keep THEN << [qpos |-> PosOn(q, c), spos |-> <<>>, none |-> TRUE] >>
                       ELSE <<>>
         IN FlattenSeq([n \in Idx(cs) |-> grp(cs[n])])

(* intersect.py::by_ranges + GenomicArray.by_ranges -> seq of <<query coordinates, rows>> *)
ByRanges(a, b, mode, keep) ==
    LET grps == SharedChroms(b, a, keep)
        one(g) == LET qr == RowsAt(b, g.qpos) IN
                  IF g.none THEN [k \in Idx(qr) |-> <<Coord3(qr[k]), <<>>>>]                      \* elif keep_empty: yield bin_row, []
                  ELSE LET subs == IterRanges(RowsAt(a, g.spos), qr, TRUE, TRUE, mode, TRUE)
                           m == IF Len(subs) < Len(qr) THEN Len(subs) ELSE Len(qr)                \* zip
                       IN [k \in 1..m |-> <<Coord3(qr[k]), subs[k]>>]
        all == FlattenSeq([n \in Idx(grps) |-> one(grps[n])])
    IN IF keep THEN all ELSE SelectSeq(all, LAMBDA p : p[2] # <<>>)           \* if len(subrange): ... elif keep_empty: ...

(* intersect.py::iter_slices -> [err, val]: val = seq of index-label arrays.                              *)
(* Repaired (fix 3): the mode is mapped to "inner" / "outer" before idx_ranges.  OldIterSlicesAsserts: before *)
(* the repair any other mode ("trim", documented for iter_ranges_of) tripped idx_ranges' assertion as soon   *)
(* as one chromosome is shared.                                                                             *)
AnyShared(a, b, keep) == \E n \in Idx(SharedChroms(b, a, keep)) : ~SharedChroms(b, a, keep)[n].none
OldIterSlicesAsserts(a, b, mode, keep) == mode \notin {"inner", "outer"} /\ AnyShared(a, b, keep)
IterSlices(a, aidx, b, mode, keep, fx) ==
    LET grps == SharedChroms(b, a, keep)
        one(g) == IF g.none THEN [k \in Idx(g.qpos) |-> <<>>]                                    \* pd.Index([], dtype="int64") per bin row
                  ELSE LET regs == IdxRanges(RowsAt(a, g.spos), RowsAt(b, g.qpos), TRUE, TRUE, mode = "inner", TRUE)
                           labs == [k \in Idx(regs) |-> [j \in Idx(regs[k][1]) |-> aidx[g.spos[regs[k][1][j]]]]]  \* src_rows.index[slc].values
                       IN IF keep THEN labs ELSE SelectSeq(labs, LAMBDA x : x # <<>>)
    IN IF ~fx /\ OldIterSlicesAsserts(a, b, mode, keep)
       THEN [err |-> "AssertionError", val |-> <<>>]
       ELSE [err |-> "", val |-> FlattenSeq([n \in Idx(grps) |-> one(grps[n])])]

(* label -> position (Series.__getitem__ / DataFrame.loc with an integer array are label based) *)
PosOfLabel(aidx, lab) == CHOOSE k \in Idx(aidx) : aidx[k] = lab

(* result of an operation: <<error type, kind, nrows, out>> *)
Res(out)  == <<"", "", 0, out>>
ErrRes(e) == <<e, "", 0, <<>>>>

(* GenomicArray.intersection (an empty array when nothing is selected) *)
Intersection(a, aidx, b, mode) ==
    IF mode = "trim"
    THEN LET chunks == ByRanges(a, b, mode, FALSE) IN
         Res(FlattenSeq([k \in Idx(chunks) |-> chunks[k][2]]))
    ELSE LET sl == IterSlices(a, aidx, b, mode, FALSE, TRUE)
             labs == FlattenSeq(sl.val)                                         \* np.concatenate(slices)
         IN Res([j \in Idx(labs) |-> a[PosOfLabel(aidx, labs[j])]])             \* self.data.loc[indices]

(* GenomicArray.in_range / in_ranges: iter_ranges(self.data, chrom, starts, ends, mode) *)
ChromTable(a, chrom) == IF chrom # 0 THEN OnChrom(a, chrom) ELSE a              \* `if chrom:` table[table.chromosome == chrom]
InRange(a, chrom, qs, hs, he, mode, fx) ==                                      \* next(results)
    Res(IterRanges(ChromTable(a, chrom), qs, hs, he, mode, fx)[1])
(* Repaired (fix 5): no chunk (empty starts and ends) -> an empty array; before: pd.concat([]) raised ValueError *)
InRanges(a, chrom, qs, hs, he, mode, fx) ==
    LET subs == IterRanges(ChromTable(a, chrom), qs, hs, he, mode, fx) IN
    IF subs = <<>> /\ ~fx THEN ErrRes("ValueError")
    ELSE Res(FlattenSeq(subs))

(* GenomicArray.iter_ranges_of: ser[slc] for every label array -> seq of seq of <<label, value>> *)
IterRangesOf(a, aidx, b, col, mode, keep, fx) ==
    LET sl == IterSlices(a, aidx, b, mode, keep, fx) IN
    IF sl.err # "" THEN ErrRes(sl.err)
    ELSE Res([k \in Idx(sl.val) |-> [j \in Idx(sl.val[k]) |->
                 <<sl.val[k][j], ColVal(a[PosOfLabel(aidx, sl.val[k][j])], col)>>]])

(* intersect.py::into_ranges + combiners.                                                                  *)
(* Repaired (fix 2): first_of takes a Series' first element by position.  OldFirstOf: `elems[0]` looked up   *)
(* the index *label* 0 -- KeyError unless the hits include the row labelled 0.                              *)
OldFirstOf(a, aidx, labs, col, dflt) ==
    IF \E j \in Idx(labs) : labs[j] = 0 THEN <<"", ColVal(a[PosOfLabel(aidx, 0)], col)>> ELSE <<"KeyError", dflt>>
IntoValue(a, aidx, labs, col, dflt, sfun, sconst, fx) ==      \* series2value -> <<error, value>>
    LET rows == [j \in Idx(labs) |-> a[PosOfLabel(aidx, labs[j])]]
        vals == ColVals(rows, col)
    IN IF labs = <<>> THEN <<"", dflt>>
       ELSE IF Len(labs) = 1 THEN <<"", vals[1]>>
       ELSE CASE sfun = "none" /\ col = "gene" -> <<"", StrV(JoinStrings([j \in Idx(rows) |-> G(rows[j])]))>>   \* join_strings
              [] sfun = "none" /\ col = "val"  -> <<"", NumV(Median2([j \in Idx(rows) |-> V(rows[j])]))>>       \* np.nanmedian
              [] sfun = "none"                 -> IF fx THEN <<"", vals[1]>> ELSE OldFirstOf(a, aidx, labs, col, dflt)  \* first_of
              [] sfun = "const"                -> <<"", sconst>>                                                 \* make_const
              [] OTHER                         -> <<"", ApplyFn(sfun, vals)>>
(* Repaired (fix 4): an empty source or query table gives one default per query; before: `return dest`     *)
(* (the query DataFrame itself).                                                                           *)
IntoRanges(a, aidx, b, col, dflt, sfun, sconst, fx) ==
    IF col = "missing" THEN <<"", "series", Len(b), [k \in Idx(b) |-> dflt]>>      \* column not in self: np.repeat(default, len(other))
    ELSE IF a = <<>> \/ b = <<>>
         THEN IF fx THEN <<"", "series", Len(b), [k \in Idx(b) |-> dflt]>>          \* pd.Series([default] * len(dest))
              ELSE <<"", "frame", Len(b), <<>>>>
    ELSE LET sl == IterSlices(a, aidx, b, "outer", TRUE, TRUE)
             vs == [k \in Idx(sl.val) |-> IntoValue(a, aidx, sl.val[k], col, dflt, sfun, sconst, fx)]
         IN IF \E k \in Idx(vs) : vs[k][1] # "" THEN ErrRes((vs[CHOOSE k \in Idx(vs) : vs[k][1] # ""])[1])
            ELSE <<"", "series", Len(vs), [k \in Idx(vs) |-> vs[k][2]]>>

ALayerFx(r, fx) ==
    CASE r.base = "by_ranges"      -> Res(ByRanges(r.a, r.b, r.mode, r.keep))
      [] r.base = "in_range"       -> InRange(r.a, r.chrom, r.b, r.hs, r.he, r.mode, fx)
      [] r.base = "in_ranges"      -> InRanges(r.a, r.chrom, r.b, r.hs, r.he, r.mode, fx)
      [] r.base = "intersection"   -> Intersection(r.a, r.aidx, r.b, r.mode)
      [] r.base = "iter_ranges_of" -> IterRangesOf(r.a, r.aidx, r.b, r.col, r.mode, r.keep, fx)
      [] r.base = "into_ranges"    -> IntoRanges(r.a, r.aidx, r.b, r.col, r.dflt, r.sfun, r.sconst, fx)
RgALayer(r)  == ALayerFx(r, TRUE)        \* the code as it is (after the five repairs)
OldALayer(r) == ALayerFx(r, FALSE)       \* the code before them: only used by the DesignOld* invariants of MC_Ranges
Observed(r) == <<r.errt, r.kind, r.nrows, r.out>>
RgDrift(r) == Observed(r) # RgALayer(r)

(* design statement about the path switch: whenever idx_ranges takes the binary-search path, its slices    *)
(* select what the mask would                                                                              *)
SimpleEqMaskWith(tab, qs, hs, he, inner, nested) ==
    (~WholeTable(tab, hs, he) /\ ~nested /\ Len(qs) > 0) =>
        LET sim == IrangeSimple(tab, qs, hs, he, inner) IN
        \A k \in Idx(sim) : sim[k][1] = MaskFor(tab, S(qs[k]), E(qs[k]), hs, he, inner)
SimpleEqMask(tab, qs, hs, he, inner)    == SimpleEqMaskWith(tab, qs, hs, he, inner, UseNested(tab, qs, hs, he))
OldSimpleEqMask(tab, qs, hs, he, inner) == SimpleEqMaskWith(tab, qs, hs, he, inner, OldUseNested(tab, qs, hs, he))

(* ================================================================= repaired defects === *)
(* The inputs on which the code went wrong before the five repairs (fix: commits in /repo); kept as the     *)
(* antecedents of the DesignOld* invariants of MC_Ranges, which show OldALayer breaking the P-layer there.  *)
(* 1 one bound is None and the table has nested rows: the binary search ran over an unsorted `end` column *)
NoneBoundNested(r) ==
    /\ r.base \in {"in_range", "in_ranges"} /\ r.hs # r.he
    /\ (IF r.hs THEN r.mode # "inner" ELSE r.mode = "inner")                     \* the side that searches table.end
    /\ ~MonoInc(EndsCol(ChromTable(r.a, r.chrom)))
(* 2 first_of on a Series: KeyError when some multi-hit query does not include index label 0 *)
FirstOfLabel(r) ==
    /\ r.base = "into_ranges" /\ r.sfun = "none" /\ IntCol(r.col) /\ r.a # <<>> /\ r.b # <<>>
    /\ \E k \in Idx(r.b) : LET h == PosWhere(r.a, LAMBDA p : Overlaps(r.a[p], QOfRow(r.b[k]))) IN
                               Len(h) >= 2 /\ \A j \in Idx(h) : r.aidx[h[j]] # 0
(* 3 iter_ranges_of(mode="trim") tripped the assertion of idx_ranges as soon as a chromosome is shared *)
IterRangesOfTrim(r) == r.base = "iter_ranges_of" /\ r.mode = "trim" /\ Chroms(r.a) \cap Chroms(r.b) # {}
(* 4 into_ranges with an empty source (or query) table returned the query table instead of one default per query *)
IntoEmptySource(r) == r.base = "into_ranges" /\ (r.a = <<>> \/ r.b = <<>>) /\ r.col # "missing"
(* 5 in_ranges with empty starts/ends on a non-empty chromosome table: concat of nothing *)
InRangesNoQueries(r) == r.base = "in_ranges" /\ r.hs /\ r.he /\ r.b = <<>> /\ ChromTable(r.a, r.chrom) # <<>>
OldDefect(t, r) ==
    CASE t = "NoneBoundNested"   -> NoneBoundNested(r)
      [] t = "FirstOfLabel"      -> FirstOfLabel(r)
      [] t = "IterRangesOfTrim"  -> IterRangesOfTrim(r)
      [] t = "IntoEmptySource"   -> IntoEmptySource(r)
      [] t = "InRangesNoQueries" -> InRangesNoQueries(r)
      [] OTHER -> FALSE
OldDefects == {"NoneBoundNested", "FirstOfLabel", "IterRangesOfTrim", "IntoEmptySource", "InRangesNoQueries"}

(* no open finding for C07 *)
RgKnownTriggers == {}
RgTriggerHolds(t, r) == FALSE
=============================================================================
