--------------------------- MODULE Smoothing ---------------------------
(* X07 (extension) -- signal smoothing and outlier masks: cnvlib/smoothing.py (check_inputs, _width2wing, _pad_array, *)
(* rolling_median / rolling_quantile / rolling_std, convolve_weighted / convolve_unweighted, guess_window_size,       *)
(* kaiser, savgol, _fit_edges, outlier_iqr, outlier_mad_median, rolling_outlier_iqr / _quantile / _std).              *)
(*                                                                                                                  *)
(* There is no listed property.  P-layer = only what the package documents (docstrings, code comments and error      *)
(* messages of smoothing.py); every clause quotes its source.  A-layer = the arithmetic as coded, case for case.      *)
(* Numbers: signals are integers in units 1/U (dyadic grid), weights integers in units 1/WU; every float the code      *)
(* returned enters as [fin, neg, hi, lo] (Num.FxObs: |x| * 10^12 = hi * 10^6 + lo, fin = finite and < 2000).           *)
(* Kaiser / Savitzky-Golay coefficients come from numpy / scipy: the window the code used is LOGGED by the harness     *)
(* (field win) and treated as an abstract vector -- the spec checks its shape (length, symmetry, normalisation) and     *)
(* that the output is that window applied to the mirror-padded signal (exact integer convolution of the 12-digit       *)
(* window with the grid signal; compared at 10^-9 relative).  Rolling windows reuse Stats.Width2Wing / MirrorPad.     *)
(*                                                                                                                  *)
(* Records (one per call of the real code), common fields: op, v, U, wn, wd, wf, wnone (width = wn/wd in lowest terms;    *)
(* wd = 1: the integer wn, as a float when wf; wnone: None), hasw, w, WU, err (exception type or ""), msg (its text),     *)
(* big (some finite result lies beyond the 12-digit encoding: outside every premise).                                  *)
(*  wing     _width2wing(width, zeros(n)): n, wrepr (how Python prints the width), outi                                *)
(*  check    check_inputs(x, width, False, weights): outi (wing), sig (padded signal, grid units), outw (padded weights) *)
(*  rollq / rollmed / rollstd   qn, qd (quantile), outs                                                                *)
(*  convu    convolve_unweighted(window, signal = v, wing, niter): win, outs                                          *)
(*  convw    convolve_weighted(window, signal = v, weights = w, niter): win, outs (y), outw (w)                        *)
(*  kaiser   kaiser(x, width, weights, fit): nwin, winm, beta, win (numpy.kaiser call: count, M, beta, result), gw       *)
(*           (guess_window_size result when width is None), outs, outs0 (the same call without do_fit_edges)           *)
(*  savgol   savgol(x, width, weights, ww, order, niter): dbg = <<n_iter, window_width, order, total_width>> as logged *)
(*           by the code, calls = <<<<window_length, polyorder, mode is interp>>>> of savgol_filter, nwin, win, outs     *)
(*  guess    guess_window_size(x, weights): nsd, sd (the scale estimate it obtained), outi                             *)
(*  oiqr / omad   outlier_iqr(a, cn/cd) / outlier_mad_median(a): mask                                                  *)
(*  roiqr / roq / rostd   rolling_outlier_iqr(x, width, cn/cd) / _quantile(x, width, qn/qd, cn/cd) / _std(x, width,     *)
(*           cn/cd): nwin, trend (the savgol trend line the code obtained), mask                                       *)
EXTENDS Stats, FiniteSetsExt

(* ================================================================= numbers ============ *)
SmTen12 == Z(FALSE, <<0, 0, 0, 1>>)                 \* 10^12
SmTol9 == ZFromInt(1000)                            \* 10^-9 in units of 10^-12
SmTol6 == ZFromInt(1000000)                         \* 10^-6
SmZI(k) == ZFromInt(k)
SmO(o) == FxObs(o)
SmAllFin(s) == \A i \in 1..Len(s) : s[i].fin
(* |o - num/den| <= tol * max(1, |num/den|): num, den Z (den > 0); o an observed float, tol in units of 10^-12 *)
SmNear(o, num, den, tol) ==
    o.fin /\ ZLe(ZAbs(ZSub(ZMul(SmO(o), den), ZMul(num, SmTen12))), ZMul(tol, ZMax(den, ZAbs(num))))
SmNearInt(o, k, unit, tol) == SmNear(o, SmZI(k), SmZI(unit), tol)
SmNearFx(o, a, tol) == SmNear(o, a, SmTen12, tol)                        \* a an Fx value
SmObsOfFx(a) == LET f == FxToObs(a) IN [fin |-> TRUE, neg |-> f.neg, hi |-> f.hi, lo |-> f.lo]
SmObsOfRat(num, den) == SmObsOfFx(ZDivTFast(ZMul(num, SmTen12), den))    \* den > 0, |num/den| < 2147
SmNoObs == [fin |-> FALSE, neg |-> FALSE, hi |-> 0, lo |-> 0]
SmIsPow2(x) == x \in {1, 2, 4, 8, 16, 32, 64, 128, 256, 512, 1024, 2048, 4096}
RECURSIVE SmPow(_, _)
SmPow(a, k) == IF k = 0 THEN ZOne ELSE ZMul(a, SmPow(a, k - 1))
SmIsConst(v) == \A i \in 1..Len(v) : v[i] = v[1]
SmFxDown(z) == Z(z.n, ShiftR(z.m, FL))                                   \* / 10^12, truncated

(* ================================================================= widths and wings ============ *)
(* check_inputs: "`width` is either a fraction of the length of `x` or an integer size of the whole window."          *)
(* _width2wing's message: "width must be either a fraction between 0 and 1 or an integer greater than 1"              *)
SmValidW(wn, wd) == (wd > 1 /\ 0 < wn /\ wn < wd) \/ (wd = 1 /\ wn >= 2)
SmValid(r) == ~r.wnone /\ SmValidW(r.wn, r.wd)
(* ceil(n * width * 0.5) is computed in floating point: it is the exact ceiling unless the width is not dyadic and     *)
(* n * width / 2 is an integer (then either neighbour may come out) -- such inputs are outside the premises            *)
SmExactW(n, wn, wd) == wd = 1 \/ SmIsPow2(wd) \/ (n * wn) % (2 * wd) # 0
SmWingW(n, wn, wd) == Width2Wing(n, wn, wd, 3)                           \* Stats: the code's arithmetic (A-layer)
SmWing(n, r) == SmWingW(n, r.wn, r.wd)
SmNominalWing(n, wn, wd) == IF wd = 1 THEN wn \div 2 ELSE CeilDiv(n * wn, 2 * wd)
SmBadWidthMsg(r) == "width must be either a fraction between 0 and 1 or an integer greater than 1 (got " \o r.wrepr \o ")"
SmWingMsg(n) == "Wing must be at least 1 (got " \o ToString(n - 1) \o ")"

(* ================================================================= rolling windows (integers) ============ *)
SmSortInt(s) == SortSeq(s, LAMBDA a, b : a < b)
SmWindow(pad, i, wing) == SmSortInt(SubSeq(pad, i, i + 2 * wing))
(* position (m - 1) * q of the q-quantile in a sorted window of m values: <<lower index (1-based), rem, den>>          *)
SmQPos(m, qn, qd) == <<((m - 1) * qn) \div qd + 1, ((m - 1) * qn) % qd, qd>>
(* the order statistics bracketing the quantile (any interpolation convention lies between them) and pandas' linear    *)
(* interpolation t[lo] + (t[lo+1] - t[lo]) * rem / den as the rational <<num, den>> (grid units)                        *)
SmQLow(t, p) == t[p[1]]
SmQHigh(t, p) == IF p[2] = 0 THEN t[p[1]] ELSE t[p[1] + 1]
SmQLinNum(t, p) == IF p[2] = 0 THEN t[p[1]] * p[3] ELSE t[p[1]] * p[3] + (t[p[1] + 1] - t[p[1]]) * p[2]
(* sample variance of an integer window, as Fx of value units: (m S2 - S1^2) / (m (m - ddof) U^2)                      *)
SmVarFx(win, U, ddof) ==
    LET m == Len(win)
        s1 == ZSum(Force([k \in 1..m |-> SmZI(win[k])]))
        s2 == ZSum(Force([k \in 1..m |-> SmZI(win[k] * win[k])]))
        num == ZSub(ZMulInt(s2, m), ZMul(s1, s1))
    IN ZDivTFast(ZMul(num, SmTen12), ZMulInt(ZMulInt(SmZI(m * (m - ddof)), U), U))
SmStdFx(win, U, ddof) == FxSqrtFast(SmVarFx(win, U, ddof))

(* ----- op rollq / rollmed / rollstd *)
RqWing(r) == SmWing(Len(r.v), r)
RqQ(r) == IF r.op = "rollmed" THEN <<1, 2>> ELSE <<r.qn, r.qd>>
(* "Rolling quantile (0--1) with mirrored edges." / "Rolling median with mirrored edges.": every output is a q-quantile *)
(* of the window of half-width `wing` around its position in the mirror-padded signal                                 *)
RqWindowed(r, strict) ==
    LET n == Len(r.v)  wg == RqWing(r)  pad == MirrorPad(r.v, wg)  q == RqQ(r)  p == SmQPos(2 * wg + 1, q[1], q[2]) IN
    /\ Len(r.outs) = n
    /\ \A i \in 1..n : LET t == SmWindow(pad, i, wg) IN
          IF strict THEN SmNear(r.outs[i], SmZI(SmQLinNum(t, p)), SmZI(p[3] * r.U), SmTol9)
          ELSE /\ r.outs[i].fin
               /\ ZLe(ZSub(ZMul(SmZI(SmQLow(t, p)), SmTen12), ZMulInt(SmTol9, r.U)), ZMulInt(SmO(r.outs[i]), r.U))
               /\ ZLe(ZMulInt(SmO(r.outs[i]), r.U), ZAdd(ZMul(SmZI(SmQHigh(t, p)), SmTen12), ZMulInt(SmTol9, r.U)))
(* rolling_std: the sample standard deviation of the same windows; the normalisation (n or n - 1) is not documented:  *)
(* the P-layer admits both, the A-layer is pandas' default ddof = 1.  Tolerance 10^-6 (pandas' sliding variance).      *)
RsWindowed(r, strict) ==
    LET n == Len(r.v)  wg == RqWing(r)  pad == MirrorPad(r.v, wg) IN
    /\ Len(r.outs) = n
    /\ \A i \in 1..n : LET win == SubSeq(pad, i, i + 2 * wg) IN
          \/ SmNearFx(r.outs[i], SmStdFx(win, r.U, 1), SmTol6)
          \/ ~strict /\ SmNearFx(r.outs[i], SmStdFx(win, r.U, 0), SmTol6)
RqAllEqualTo(outs, k, U) == \A i \in 1..Len(outs) : SmNearInt(outs[i], k, U, ZZero)

(* ================================================================= convolution ============ *)
SmWinZ(win) == Force([k \in 1..Len(win) |-> SmO(win[k])])                 \* logged window * 10^12
SmHalfNp(M) == (M - 1) \div 2            \* numpy.convolve(mode="same"): out[i] = sum_k W[k] y[i + (M-1) div 2 - k]  (0-based)
SmHalfSci(M) == M \div 2                 \* scipy.ndimage.convolve1d (savgol_filter): centre M div 2
(* one pass of the window over y (zero outside), Z arithmetic, 1-based: out[i] = sum_k W[k] * y[i + h - k + 1]          *)
SmConv(W, y, h) ==
    LET M == Len(W)  L == Len(y) IN
    Force([i \in 1..L |-> ZSum(Force([k \in 1..M |->
        LET j == i + h - k + 1 IN IF j >= 1 /\ j <= L THEN ZMul(W[k], y[j]) ELSE ZZero]))])
RECURSIVE SmConvIter(_, _, _, _)
SmConvIter(W, y, h, k) == IF k = 0 THEN y ELSE SmConvIter(W, SmConv(W, y, h), h, k - 1)
SmIntsZ(v) == Force([i \in 1..Len(v) |-> SmZI(v[i])])
(* the unweighted smoother: `k` passes of the window W (sum S) over the grid signal y0; value i = out[i] / (S^k * U).     *)
(* Exact integers up to SmExactPasses passes (the operands grow by the window's 12 digits per pass); beyond that the     *)
(* same passes in fixed point with the normalised window (truncation 10^-12 per pass, far below the tolerance)           *)
SmExactPasses == 6
SmNormWin(W) == LET S == ZSum(W) IN Force([k \in 1..Len(W) |-> FxDivFast(W[k], S)])
SmConvFx(Wn, y, h) == LET c == SmConv(Wn, y, h) IN Force([i \in 1..Len(c) |-> SmFxDown(c[i])])
RECURSIVE SmConvFxIter(_, _, _, _)
SmConvFxIter(Wn, y, h, k) == IF k = 0 THEN y ELSE SmConvFxIter(Wn, SmConvFx(Wn, y, h), h, k - 1)
SmFxOfGrid(v, U) == Force([i \in 1..Len(v) |-> FxGrid(v[i], U)])
SmUnwOK(outs, W, y0, U, h, k, first, count, tol) ==
    IF k <= SmExactPasses
    THEN LET y == SmConvIter(W, SmIntsZ(y0), h, k)
             den == ZMulInt(SmPow(ZSum(W), k), U)
         IN \A i \in 1..count : SmNear(outs[i], y[first + i - 1], den, tol)
    ELSE LET y == SmConvFxIter(SmNormWin(W), SmFxOfGrid(y0, U), h, k)
         IN \A i \in 1..count : SmNearFx(outs[i], y[first + i - 1], tol)

(* the weighted smoother (convolve_weighted), fixed point: per pass D = conv(w * y), N = conv(w), y' = D / N, w' = N    *)
SmCondMin == FxFromRat(1, 1000)          \* a denominator below 10^-3 amplifies rounding beyond the stated tolerance
SmCwStep(Wn, st, h) ==
    LET L == Len(st.y)
        wy == Force([i \in 1..L |-> FxMul(st.w[i], st.y[i])])
        D == SmConvFx(Wn, wy, h)
        N == SmConvFx(Wn, st.w, h)
    IN [y |-> Force([i \in 1..L |-> IF ZIsZero(N[i]) THEN ZZero ELSE FxDivFast(D[i], N[i])]),
        w |-> N,
        cond |-> st.cond /\ \A i \in 1..L : ZLe(SmCondMin, N[i])]
RECURSIVE SmCwIter(_, _, _, _)
SmCwIter(Wn, st, h, k) == IF k = 0 THEN st ELSE SmCwIter(Wn, SmCwStep(Wn, st, h), h, k - 1)
SmCwStart(y, w) == [y |-> y, w |-> w, cond |-> TRUE]
SmSeqNear(outs, ys, first, count, tol) == \A i \in 1..count : SmNearFx(outs[i], ys[first + i - 1], tol)

(* check_inputs: "# Linearly roll-off weights in mirrored wings": np.linspace(1 / wing, 1, wing) on the left wing, its   *)
(* mirror image on the right: position p of the padded weights carries the factor j / wing                              *)
SmRampNum(p, n, wing) == IF p <= wing THEN p ELSE IF p > n + wing THEN n + 2 * wing + 1 - p ELSE wing
SmPaddedWeightsFx(w, WU, wing) ==
    LET n == Len(w)  mw == MirrorPad(w, wing) IN
    Force([p \in 1..n + 2 * wing |-> ZDivTFast(ZMulInt(FxGrid(mw[p], WU), SmRampNum(p, n, wing)), SmZI(wing))])

(* ----- op convu: direct calls of convolve_unweighted(window, signal, wing, n_iter) *)
CuL(r) == Len(r.v)
CuM(r) == Len(r.win)
CuCount(r) == CuL(r) - 2 * r.wing
(* "Convolve a weighted window over array `signal`. Input array is assumed padded by `_pad_array`; output has padding  *)
(* removed."  n_iter = the number of passes (savgol: "calculate the number of iterations we can do")                    *)
CuApplied(r) == /\ Len(r.outs) = CuCount(r)
                /\ SmUnwOK(r.outs, SmWinZ(r.win), r.v, r.U, SmHalfNp(CuM(r)), r.niter, r.wing + 1, CuCount(r), SmTol9)
(* ----- op convw: direct calls of convolve_weighted(window, signal, weights, n_iter) *)
CwRun(r) == SmCwIter(SmNormWin(SmWinZ(r.win)), SmCwStart(SmFxOfGrid(r.v, r.U), SmFxOfGrid(r.w, r.WU)),
                     SmHalfNp(CuM(r)), r.niter)
CwLenMismatch(r) == Len(r.w) # Len(r.v)
CwLenMsg(r) == "len(weights) = " \o ToString(Len(r.w)) \o ", len(signal) = " \o ToString(Len(r.v))
               \o ", window_size = " \o ToString(Len(r.win))
(* "Convolve a weighted window over a weighted signal array" (source: the weighted moving average D / N of the cited     *)
(* answer); "# Update weights to account for the smoothing"                                                            *)
CwApplied(r) == LET st == CwRun(r) IN
    st.cond => /\ SmSeqNear(r.outs, st.y, 1, CuL(r), SmTol9)
               /\ SmSeqNear(r.outw, st.w, 1, CuL(r), SmTol9)
(* equal weights, one pass: wherever the whole window lies inside the array the weighted mean is the plain convolution  *)
CwEqualWeights(r) ==
    LET M == CuM(r)  h == SmHalfNp(M)  L == CuL(r)
        y == SmConv(SmWinZ(r.win), SmIntsZ(r.v), h)
        den == ZMulInt(ZSum(SmWinZ(r.win)), r.U)
    IN \A i \in 1..L : (i + h - M + 1 >= 1 /\ i + h <= L) => SmNear(r.outs[i], y[i], den, SmTol9)

(* ================================================================= kaiser ============ *)
KsN(r) == Len(r.v)
KsWn(r) == IF r.wnone THEN r.gw ELSE r.wn
KsWd(r) == IF r.wnone THEN 1 ELSE r.wd
KsWing(r) == SmWingW(KsN(r), KsWn(r), KsWd(r))
KsPad(r) == MirrorPad(r.v, KsWing(r))
KsFitted(r, i) == r.fit /\ (i <= KsWing(r) \/ i > KsN(r) - KsWing(r))
(* numpy.kaiser's result is an abstract vector: "Kaiser windowed filter" over a window of "the integer size of the      *)
(* window" / "Fraction of x's total length": 2 * wing + 1 values, symmetric, non-negative, not all zero                 *)
KsWindowShape(r) ==
    LET M == 2 * KsWing(r) + 1 IN
    /\ r.nwin = 1 /\ r.winm = M /\ Len(r.win) = M /\ SmAllFin(r.win)
    /\ \A k \in 1..M : ZLe(ZAbs(ZSub(SmO(r.win[k]), SmO(r.win[M + 1 - k]))), SmZI(10)) /\ ~r.win[k].neg
    /\ ~ZIsZero(ZSum(SmWinZ(r.win)))
KsUnwApplied(r) ==
    LET wg == KsWing(r)  W == SmWinZ(r.win)
        y == SmConv(W, SmIntsZ(KsPad(r)), SmHalfNp(Len(W)))
        den == ZMulInt(ZSum(W), r.U)
    IN \A i \in 1..KsN(r) : KsFitted(r, i) \/ SmNear(r.outs[i], y[wg + i], den, SmTol9)
KsCwRun(r) == SmCwStep(SmNormWin(SmWinZ(r.win)),
                       SmCwStart(SmFxOfGrid(KsPad(r), r.U), SmPaddedWeightsFx(r.w, r.WU, KsWing(r))), SmHalfNp(Len(r.win)))
(* first = position in the padded result of the first compared output value *)
KsWeightedApplied(r, first, count) == LET st == KsCwRun(r) IN st.cond => SmSeqNear(r.outs, st.y, first, count, SmTol9)
(* 4th differences of an integer sequence vanish: a polynomial of degree <= 3 in the index *)
SmCubic(s) == \A i \in 1..Len(s) - 4 : s[i] - 4 * s[i + 1] + 6 * s[i + 2] - 4 * s[i + 3] + s[i + 4] = 0

(* ================================================================= savgol ============ *)
SgN(r) == Len(r.v)
(* "If the effective (total) window width is not specified explicitly, compute it": n_iter * window_width;            *)
(* docstring: "`total_width` overrides `n_iter`."                                                                      *)
SgReqWn(r) == IF r.wnone THEN r.niter * r.ww ELSE r.wn
SgReqWd(r) == IF r.wnone THEN 1 ELSE r.wd
SgWing(r) == SmWingW(SgN(r), SgReqWn(r), SgReqWd(r))
(* "we recalculate it given the actual wing length obtained" *)
SgTotal(r) == 2 * SgWing(r) + 1
(* "In case the signal is *very* short, the smoothing parameters will have to be adjusted as well." *)
SgWw(r) == IntMin(r.ww, SgTotal(r))
SgOrder(r) == IntMin(r.order, SgWw(r) \div 2)
(* "Given the adjusted window widths (one-iteration and total), calculate the number of iterations we can do." *)
SgIter(r) == IntMax(1, IntMin(1000, SgTotal(r) \div SgWw(r)))
SgDbg(r) == <<SgIter(r), SgWw(r), SgOrder(r), SgTotal(r)>>
SgPad(r) == MirrorPad(r.v, SgWing(r))
SgWindowShape(r) ==      \* Savitzky-Golay smoothing coefficients: one per window position, symmetric, summing to 1
    LET M == SgWw(r)  W == SmWinZ(r.win) IN
    /\ r.nwin = 1 /\ Len(r.win) = M /\ SmAllFin(r.win)
    /\ \A k \in 1..M : ZLe(ZAbs(ZSub(W[k], W[M + 1 - k])), SmZI(10))
    /\ ZLe(ZAbs(ZSub(ZSum(W), SmTen12)), SmTol9)
(* unweighted: n_iter passes of the coefficient window over the padded signal.  savgol_filter(mode="interp") refits     *)
(* the first / last window_width div 2 values of the padded array; after n_iter passes that reaches at most             *)
(* n_iter * (window_width div 2) <= total_wing values, all of which are cut off with the padding                        *)
SgUnwApplied(r) ==
    SmUnwOK(r.outs, SmWinZ(r.win), SgPad(r), r.U, SmHalfSci(SgWw(r)), SgIter(r), SgWing(r) + 1, SgN(r), SmTol9)
SgCwRun(r) == SmCwIter(SmNormWin(SmWinZ(r.win)),
                       SmCwStart(SmFxOfGrid(SgPad(r), r.U), SmPaddedWeightsFx(r.w, r.WU, SgWing(r))),
                       SmHalfNp(Len(r.win)), SgIter(r))
SgWeightedApplied(r) == LET st == SgCwRun(r) IN st.cond => SmSeqNear(r.outs, st.y, SgWing(r) + 1, SgN(r), SmTol9)
SgCalls(r) == [k \in 1..SgIter(r) |-> <<SgWw(r), SgOrder(r), 1>>]
SgMaxPasses == 64        \* the window-applied clauses are evaluated up to this many passes (cost); the arithmetic clauses always

(* ================================================================= guess_window_size ============ *)
(* "bandwidth is proportional to signal's standard deviation and the length of the signal ^ 4/5": as coded              *)
(* round(4 * sd * n^(4/5)), then max(3, .), then min(len(x), .).  k = round(raw) <=> (2k-1)^5 <= (8 sd)^5 n^4 <= (2k+1)^5 *)
(* (integers; sd * 10^12 as logged; a relative slack of 10^-8 on the 5th powers absorbs the float arithmetic)            *)
GwTen60 == Z(FALSE, ShiftL(<<1>>, 15))
GwA(r) == LET s == ZMulInt(SmO(r.sd), 8)  n == SmZI(Len(r.v)) IN ZMul(SmPow(s, 5), SmPow(n, 4))
GwAtMost(r, k) == ZLe(ZMulInt(GwA(r), 100000000), ZMul(ZMulInt(SmPow(SmZI(2 * k + 1), 5), 100000001), GwTen60))   \* raw <= k + 1/2
GwAtLeast(r, k) == k <= 0 \/ ZLe(ZMul(ZMulInt(SmPow(SmZI(2 * k - 1), 5), 99999999), GwTen60), ZMulInt(GwA(r), 100000000))
GwCoded(r) == LET n == Len(r.v)  o == r.outi IN
    IF n <= 3 THEN o = n
    ELSE /\ 3 <= o /\ o <= n
         /\ o > 3 => GwAtLeast(r, o)
         /\ o < n => GwAtMost(r, o)

(* ================================================================= outlier masks ============ *)
(* numpy.percentile (linear) of a sorted integer sequence at 25 / 75 percent, times 4 *)
SmQuartile4(t, which) ==
    LET num == (Len(t) - 1) * which  lo == num \div 4  rem == num % 4 IN
    IF rem = 0 THEN 4 * t[lo + 1] ELSE 4 * t[lo + 1] + rem * (t[lo + 2] - t[lo + 1])
SmIqr4(v) == LET t == SmSortInt(v) IN SmQuartile4(t, 3) - SmQuartile4(t, 1)
(* outlier_iqr: "Detect outliers as a multiple of the IQR from the median." / "points more than 1.5 * IQR from the       *)
(* median": |a_i - median| > c * IQR  <=>  2 cd |2 a_i - 2 median| > cn * 4 IQR   (integers)                             *)
SmMedian2(v) == LET t == SmSortInt(v)  n == Len(t) IN IF n % 2 = 1 THEN 2 * t[(n + 1) \div 2] ELSE t[n \div 2] + t[n \div 2 + 1]
OiLhsAll(r) == LET med2 == SmMedian2(r.v) IN Force([i \in 1..Len(r.v) |-> 2 * r.cd * IAbs(2 * r.v[i] - med2)])
OiRhs(r) == r.cn * SmIqr4(r.v)
OiCoded(r) == LET lhs == OiLhsAll(r)  rhs == OiRhs(r) IN [i \in 1..Len(r.v) |-> lhs[i] > rhs]
OiMaskOK(r) == /\ Len(r.mask) = Len(r.v)
               /\ LET lhs == OiLhsAll(r)  rhs == OiRhs(r) IN
                  \A i \in 1..Len(r.v) :
                     \/ r.mask[i] = (lhs[i] > rhs)
                     \/ lhs[i] = rhs /\ ~SmIsPow2(r.cd)      \* c not dyadic: c * IQR is rounded, a tie may fall either way
(* outlier_mad_median: "X_i is an outlier if |X_i - M| / (MAD / 0.6745) > K ~= 2.24".  In units of 1/(2U) / 1/(4U):       *)
(* dev2 = |2 a_i - 2 M|, mad4 = 4 MAD; ratio |X_i - M| / MAD = 2 dev2 / mad4                                            *)
OmDev2(r) == LET med2 == SmMedian2(r.v) IN Force([i \in 1..Len(r.v) |-> IAbs(2 * r.v[i] - med2)])
OmMad4Of(dev2) == SmMedian2(dev2)
OmMad4(r) == OmMad4Of(OmDev2(r))
(* 0.6745 * ratio against 2.24 * (1 +- 1/1000): "~=" (K = 2.2414...; the code scales MAD by 1.4826 ~ 1 / 0.6745)          *)
OmDocOK(r) == /\ Len(r.mask) = Len(r.v)
              /\ LET dev2 == OmDev2(r)  mad4 == OmMad4Of(dev2)
                     hi == ZMulInt(SmZI(mad4), 22422400)  lo == ZMulInt(SmZI(mad4), 22377600) IN
                 \A i \in 1..Len(r.v) : LET x == ZMulInt(SmZI(dev2[i]), 2 * 6745 * 1000) IN
                     (ZLt(hi, x) => r.mask[i]) /\ (ZLt(x, lo) => ~r.mask[i])
(* as coded: dists / (1.4826 * MAD) > 2.24  <=>  2 dev2 * 15625 > 51891 * mad4;  MAD = 0: x / 0 = inf > K, 0 / 0 = nan    *)
OmCoded(r) == LET dev2 == OmDev2(r)  mad4 == OmMad4Of(dev2)  b == ZMulInt(SmZI(mad4), 51891) IN
              [i \in 1..Len(r.v) |-> IF mad4 = 0 THEN dev2[i] > 0 ELSE ZLt(b, ZMulInt(SmZI(dev2[i]), 2 * 15625))]
OmCodedOK(r) == /\ Len(r.mask) = Len(r.v)
                /\ LET dev2 == OmDev2(r)  mad4 == OmMad4Of(dev2)  b == ZMulInt(SmZI(mad4), 51891) IN
                   \A i \in 1..Len(r.v) :
                      LET a == ZMulInt(SmZI(dev2[i]), 2 * 15625) IN
                      IF mad4 = 0 THEN r.mask[i] = (dev2[i] > 0)
                      ELSE a = b \/ r.mask[i] = ZLt(b, a)

(* ----- rolling outliers: residuals d = x - trend (fixed point), rolling statistics of d over mirrored windows *)
RoN(r) == Len(r.v)
RoWing(r) == SmWing(RoN(r), r)
RoEarly(r) == r.wd = 1 /\ RoN(r) <= r.wn                    \* `if len(x) <= width: return np.zeros(len(x), dtype=np.bool_)`
RoResid(r) == LET x == SmFxOfGrid(r.v, r.U) IN Force([i \in 1..RoN(r) |-> ZSub(x[i], SmO(r.trend[i]))])
RoAbs(d) == Force([i \in 1..Len(d) |-> ZAbs(d[i])])
RoWindowFx(pad, i, wing) == FxSortAsc(SubSeq(pad, i, i + 2 * wing))
RoLinFx(t, p) == IF p[2] = 0 THEN t[p[1]]
                 ELSE ZAdd(t[p[1]], ZDivTFast(ZMulInt(ZSub(t[p[1] + 1], t[p[1]]), p[2]), SmZI(p[3])))
(* mask[i] <=> lhs[i] > thr[i], decided outside a band of 10^-9 (the trend line enters with 12 digits); thr between lo   *)
(* and hi: TRUE needs lhs > lo - tol, FALSE needs lhs <= hi + tol.  All quantities already multiplied out (Z).           *)
RoMaskOK(mask, lhs, lo, hi, tol) ==
    /\ Len(mask) = Len(lhs)
    /\ \A i \in 1..Len(lhs) : IF mask[i] THEN ZLt(ZSub(lo[i], tol), lhs[i]) ELSE ZLe(lhs[i], ZAdd(hi[i], tol))
RoTol(r) == ZMulInt(SmTol9, IntMax(r.cn, r.cd))
(* rolling_outlier_quantile: "Outliers are the array elements outside `m` times the `q`'th quantile of deviations from   *)
(* the smoothed trend line, as calculated from the trend line residuals."                                              *)
RoqOK(r, strict) ==
    LET n == RoN(r)  wg == RoWing(r)  a == RoAbs(RoResid(r))  pad == MirrorPad(a, wg)
        p == SmQPos(2 * wg + 1, r.qn, r.qd)
        ts == Force([i \in 1..n |-> RoWindowFx(pad, i, wg)])
        lhs == Force([i \in 1..n |-> ZMulInt(a[i], r.cd)])
        lo == Force([i \in 1..n |-> ZMulInt(IF strict THEN RoLinFx(ts[i], p) ELSE SmQLow(ts[i], p), r.cn)])
        hi == Force([i \in 1..n |-> ZMulInt(IF strict THEN RoLinFx(ts[i], p) ELSE SmQHigh(ts[i], p), r.cn)])
    IN RoMaskOK(r.mask, lhs, lo, hi, RoTol(r))
(* rolling_outlier_iqr: "Detect outliers as a multiple of the IQR from the median" -- of the residuals in the window:     *)
(* |d_i| > c * (Q75 - Q25)                                                                                             *)
RoiqrOK(r, strict) ==
    LET n == RoN(r)  wg == RoWing(r)  d == RoResid(r)  pad == MirrorPad(d, wg)
        p1 == SmQPos(2 * wg + 1, 1, 4)  p3 == SmQPos(2 * wg + 1, 3, 4)
        ts == Force([i \in 1..n |-> RoWindowFx(pad, i, wg)])
        lhs == Force([i \in 1..n |-> ZMulInt(ZAbs(d[i]), r.cd)])
        lo == Force([i \in 1..n |-> ZMulInt(IF strict THEN ZSub(RoLinFx(ts[i], p3), RoLinFx(ts[i], p1))
                                            ELSE ZSub(SmQLow(ts[i], p3), SmQHigh(ts[i], p1)), r.cn)])
        hi == Force([i \in 1..n |-> ZMulInt(IF strict THEN ZSub(RoLinFx(ts[i], p3), RoLinFx(ts[i], p1))
                                            ELSE ZSub(SmQHigh(ts[i], p3), SmQLow(ts[i], p1)), r.cn)])
    IN RoMaskOK(r.mask, lhs, lo, hi, RoTol(r))
(* rolling_outlier_std: "Outliers are the array elements outside `stdevs` standard deviations from the smoothed trend    *)
(* line, as calculated from the trend line residuals."  Standard deviation of the residuals in the window (n or n - 1)   *)
RoStdFx(win, ddof) ==
    LET m == Len(win)
        s1 == ZSum(win)
        s2 == ZSum(Force([k \in 1..m |-> ZMul(win[k], win[k])]))
        num == ZSub(ZMulInt(s2, m), ZMul(s1, s1))                         \* * 10^24
    IN Z(FALSE, MagSqrtFast(MagDivFast(num.m, MagFromNat(m * (m - ddof)))))     \* sqrt(. * 10^24) = std * 10^12
RostdOK(r, strict) ==
    LET n == RoN(r)  wg == RoWing(r)  d == RoResid(r)  pad == MirrorPad(d, wg)
        lhs == Force([i \in 1..n |-> ZMulInt(ZAbs(d[i]), r.cd)])
        lo == Force([i \in 1..n |-> ZMulInt(RoStdFx(SubSeq(pad, i, i + 2 * wg), IF strict THEN 1 ELSE 0), r.cn)])
        hi == Force([i \in 1..n |-> ZMulInt(RoStdFx(SubSeq(pad, i, i + 2 * wg), 1), r.cn)])
    IN RoMaskOK(r.mask, lhs, lo, hi, ZMulInt(SmTol6, IntMax(r.cn, r.cd)))
RoFormulaOK(r, strict) ==
    CASE r.op = "roq" -> RoqOK(r, strict)
      [] r.op = "roiqr" -> RoiqrOK(r, strict)
      [] r.op = "rostd" -> RostdOK(r, strict)
RoAllFalse(r) == Len(r.mask) = RoN(r) /\ \A i \in 1..RoN(r) : ~r.mask[i]

(* ================================================================= clauses ============ *)
NoErr(r) == r.err = ""
Clauses(op) ==
    CASE op = "wing" -> {"wing_valid_accepted", "wing_invalid_rejected", "wing_at_least_1", "wing_truncated",
                         "wing_half_width", "wing_min_wing"}
      [] op = "check" -> {"ck_noerr", "ck_mirror", "ck_weights_rolloff"}
      [] op = "rollq" -> {"rq_noerr", "rq_length", "rq_windowed_quantile", "rq_constant"}
      [] op = "rollmed" -> {"rm_noerr", "rm_length", "rm_windowed_median", "rm_constant"}
      [] op = "rollstd" -> {"rs_noerr", "rs_length", "rs_windowed_std", "rs_constant_zero"}
      [] op = "convu" -> {"cu_noerr", "cu_length", "cu_window_applied", "cu_constant"}
      [] op = "convw" -> {"cw_noerr", "cw_len_mismatch_rejected", "cw_length", "cw_weighted_mean", "cw_constant",
                          "cw_equal_weights_is_unweighted"}
      [] op = "kaiser" -> {"ks_noerr", "ks_short_returned", "ks_length", "ks_window_shape", "ks_window_applied",
                           "ks_weighted_mean", "ks_constant", "ks_fit_interior_unchanged", "ks_fit_cubic_reproduced"}
      [] op = "savgol" -> {"sg_noerr", "sg_short_returned", "sg_length", "sg_total_width", "sg_window_width", "sg_order",
                           "sg_n_iter", "sg_filter_calls", "sg_window_shape", "sg_window_applied", "sg_weighted_mean",
                           "sg_constant"}
      [] op = "guess" -> {"gw_noerr", "gw_bounds"}
      [] op = "oiqr" -> {"oi_noerr", "oi_length", "oi_formula"}
      [] op = "omad" -> {"om_noerr", "om_length", "om_formula"}
      [] op \in {"roiqr", "roq", "rostd"} -> {"ro_noerr", "ro_length", "ro_formula"}
      [] OTHER -> {}

KsRuns(r) == NoErr(r) /\ KsN(r) >= 2
SgRuns(r) == NoErr(r) /\ SgN(r) >= 2
SgLogged(r) == SgRuns(r) /\ Len(r.dbg) = 4
Holds(c, r) ==
    CASE (* ---------------- _width2wing *)
         (* "`width` is either a fraction of the length of `x` or an integer size of the whole window." *)
         c = "wing_valid_accepted" -> (SmValid(r) /\ r.n >= 2) => NoErr(r)
         (* ValueError "width must be either a fraction between 0 and 1 or an integer greater than 1 (got {width})" *)
      [] c = "wing_invalid_rejected" -> ~SmValid(r) => (r.err = "ValueError" /\ r.msg = SmBadWidthMsg(r))
         (* assert "Wing must be at least 1 (got {wing})": a signal of one value has no neighbours to mirror *)
      [] c = "wing_at_least_1" -> SmValid(r) => IF r.n = 1 THEN r.err = "AssertionError" /\ r.msg = SmWingMsg(r.n)
                                                ELSE NoErr(r) => r.outi >= 1
         (* "The output half-window size is truncated to the length of `x` if needed." *)
      [] c = "wing_truncated" -> NoErr(r) => r.outi <= r.n
         (* "Convert a fractional or absolute width to integer half-width": width div 2, or the smallest wing whose     *)
         (* window 2 * wing covers the fraction of the length -- where neither the minimum nor the truncation applies  *)
      [] c = "wing_half_width" ->
            (NoErr(r) /\ SmValid(r)) =>
                LET nom == SmNominalWing(r.n, r.wn, r.wd) IN
                (nom >= 3 /\ nom <= r.n - 1 /\ (r.wd = 1 => r.wn <= r.n - 1)) => r.outi = nom
         (* signature `_width2wing(width, x, min_wing=3)`, "wing = max(wing, min_wing)" *)
      [] c = "wing_min_wing" -> NoErr(r) => r.outi >= IntMin(3, r.n - 1)
         (* ---------------- check_inputs *)
      [] c = "ck_noerr" -> NoErr(r)
         (* _pad_array: "Pad the edges of the input array with mirror copies." -- by the wing the call returned *)
      [] c = "ck_mirror" -> NoErr(r) => (r.outi >= 1 /\ r.outi <= Len(r.v) /\ r.sig = MirrorPad(r.v, r.outi))
         (* "# Linearly roll-off weights in mirrored wings": the signal's own weights are kept; a mirrored weight is    *)
         (* never raised, stays positive and the factor does not decrease towards the signal                           *)
      [] c = "ck_weights_rolloff" ->
            (NoErr(r) /\ r.hasw /\ r.outi >= 1 /\ r.outi <= Len(r.v)) =>
                LET n == Len(r.v)  wg == r.outi  mw == MirrorPad(r.w, wg)
                    left(j) == r.outw[j]  right(j) == r.outw[n + 2 * wg + 1 - j]         \* j = 1 (far end) .. wg
                    nondecr(o1, k1, o2, k2) == ZLe(ZMulInt(SmO(o1), k2), ZAdd(ZMulInt(SmO(o2), k1), ZMulInt(SmTol9, k1 * k2)))
                IN /\ Len(r.outw) = n + 2 * wg /\ SmAllFin(r.outw)
                   /\ \A i \in 1..n : SmNearInt(r.outw[wg + i], r.w[i], r.WU, ZZero)
                   /\ \A p \in (1..wg) \cup (n + wg + 1..n + 2 * wg) :
                         /\ ~r.outw[p].neg /\ (mw[p] > 0 => ~ZIsZero(SmO(r.outw[p])))
                         /\ ZLe(ZMulInt(SmO(r.outw[p]), r.WU), ZAdd(ZMul(SmZI(mw[p]), SmTen12), SmTol9))
                   /\ \A j \in 1..wg - 1 : /\ nondecr(left(j), mw[j], left(j + 1), mw[j + 1])
                                           /\ nondecr(right(j), mw[n + 2 * wg + 1 - j], right(j + 1), mw[n + 2 * wg - j])
                   \* "roll-off": over a wing of >= 2 values the factor really falls towards the far end
                   /\ (wg >= 2 /\ mw[1] > 0 /\ mw[wg] > 0) => ~nondecr(left(wg), mw[wg], left(1), mw[1])
                   /\ (wg >= 2 /\ mw[n + 2 * wg] > 0 /\ mw[n + wg + 1] > 0) => ~nondecr(right(wg), mw[n + wg + 1], right(1), mw[n + 2 * wg])
         (* ---------------- rolling_quantile / rolling_median / rolling_std *)
      [] c \in {"rq_noerr", "rm_noerr", "rs_noerr"} -> NoErr(r)
      [] c \in {"rq_length", "rm_length", "rs_length"} -> NoErr(r) => Len(r.outs) = Len(r.v)
      [] c = "rq_windowed_quantile" -> NoErr(r) => RqWindowed(r, FALSE)
      [] c = "rm_windowed_median" -> NoErr(r) => IF Len(r.v) < 2 THEN Len(r.outs) = Len(r.v) /\ RqAllEqualTo(r.outs, r.v[1], r.U)
                                                 ELSE RqWindowed(r, FALSE)
         (* a constant signal is a fixed point (every window holds the one value) *)
      [] c \in {"rq_constant", "rm_constant"} -> (NoErr(r) /\ SmIsConst(r.v)) => RqAllEqualTo(r.outs, r.v[1], r.U)
      [] c = "rs_windowed_std" -> NoErr(r) => RsWindowed(r, FALSE)
      [] c = "rs_constant_zero" -> (NoErr(r) /\ SmIsConst(r.v)) => RqAllEqualTo(r.outs, 0, 1)
         (* ---------------- convolve_unweighted *)
      [] c = "cu_noerr" -> NoErr(r)
         (* "Input array is assumed padded by `_pad_array`; output has padding removed." *)
      [] c = "cu_length" -> NoErr(r) => Len(r.outs) = CuCount(r)
      [] c = "cu_window_applied" -> NoErr(r) => CuApplied(r)
         (* the window is normalised ("window /= window.sum()"): a constant signal comes back unchanged wherever the   *)
         (* zero padding of the convolution has not reached (n_iter * half-width <= wing)                              *)
      [] c = "cu_constant" -> (NoErr(r) /\ SmIsConst(r.v) /\ r.niter * (CuM(r) \div 2) <= r.wing) =>
                                 \A i \in 1..Len(r.outs) : SmNearInt(r.outs[i], r.v[1], r.U, SmTol9)
         (* ---------------- convolve_weighted *)
      [] c = "cw_noerr" -> ~CwLenMismatch(r) => NoErr(r)
         (* assert len(weights) == len(signal), "len(weights) = ..., len(signal) = ..., window_size = ..." *)
      [] c = "cw_len_mismatch_rejected" -> CwLenMismatch(r) => (r.err = "AssertionError" /\ r.msg = CwLenMsg(r))
      [] c = "cw_length" -> (NoErr(r) /\ ~CwLenMismatch(r)) => (Len(r.outs) = CuL(r) /\ Len(r.outw) = CuL(r))
      [] c = "cw_weighted_mean" -> (NoErr(r) /\ ~CwLenMismatch(r) /\ Len(r.outs) = CuL(r) /\ Len(r.outw) = CuL(r)) => CwApplied(r)
      [] c = "cw_constant" -> (NoErr(r) /\ ~CwLenMismatch(r) /\ SmIsConst(r.v)) =>
                                 \A i \in 1..Len(r.outs) : r.outs[i].fin => SmNearInt(r.outs[i], r.v[1], r.U, SmTol9)
      [] c = "cw_equal_weights_is_unweighted" ->
            (NoErr(r) /\ ~CwLenMismatch(r) /\ r.niter = 1 /\ SmIsConst(r.w) /\ r.w[1] > 0 /\ Len(r.outs) = CuL(r)) => CwEqualWeights(r)
         (* ---------------- kaiser *)
      [] c = "ks_noerr" -> NoErr(r)
         (* `if len(x) < 2: return x` *)
      [] c = "ks_short_returned" -> (NoErr(r) /\ KsN(r) < 2) => (Len(r.outs) = KsN(r) /\ RqAllEqualTo(r.outs, r.v[1], r.U))
         (* "Smooth the values in `x`": one smoothed value per value of x *)
      [] c = "ks_length" -> NoErr(r) => Len(r.outs) = KsN(r)
      [] c = "ks_window_shape" -> KsRuns(r) => KsWindowShape(r)
         (* the smoothed value = the (normalised) Kaiser window applied to the mirror-padded signal around the position *)
      [] c = "ks_window_applied" -> (KsRuns(r) /\ ~r.hasw /\ KsWindowShape(r) /\ Len(r.outs) = KsN(r)) => KsUnwApplied(r)
      [] c = "ks_weighted_mean" -> (KsRuns(r) /\ r.hasw /\ ~r.fit /\ KsWindowShape(r) /\ Len(r.outs) = KsN(r)) =>
                                      KsWeightedApplied(r, KsWing(r) + 1, KsN(r))
      [] c = "ks_constant" -> (NoErr(r) /\ SmIsConst(r.v)) => \A i \in 1..Len(r.outs) : SmNearInt(r.outs[i], r.v[1], r.U, SmTol9)
         (* _fit_edges: "updates the smoothed values `y` in the half of the window closest to the edge" -- only there *)
      [] c = "ks_fit_interior_unchanged" ->
            (KsRuns(r) /\ r.fit /\ Len(r.outs) = KsN(r) /\ Len(r.outs0) = KsN(r)) =>
                \A i \in KsWing(r) + 1..KsN(r) - KsWing(r) : r.outs[i] = r.outs0[i]
         (* "Calculates a polynomial fit (of order `polyorder`) of `x` within a window of width twice `wing`": where x   *)
         (* itself is a polynomial of degree <= 3 over that window, the fit returns x                                  *)
      [] c = "ks_fit_cubic_reproduced" ->
            (KsRuns(r) /\ r.fit /\ Len(r.outs) = KsN(r)) =>
                LET wg == KsWing(r)  n == KsN(r) IN
                /\ SmCubic(SubSeq(r.v, 1, 2 * wg + 1)) => \A i \in 1..wg : SmNearInt(r.outs[i], r.v[i], r.U, SmTol6)
                /\ SmCubic(SubSeq(r.v, n - 2 * wg, n)) => \A i \in n - wg + 1..n : SmNearInt(r.outs[i], r.v[i], r.U, SmTol6)
         (* ---------------- savgol *)
      [] c = "sg_noerr" -> NoErr(r)
      [] c = "sg_short_returned" -> (NoErr(r) /\ SgN(r) < 2) => (Len(r.outs) = SgN(r) /\ RqAllEqualTo(r.outs, r.v[1], r.U))
      [] c = "sg_length" -> NoErr(r) => Len(r.outs) = SgN(r)
         (* the debug message "Smoothing in %s iterations with window width %s and order %s for effective bandwidth %s" *)
      [] c = "sg_total_width" -> SgRuns(r) => (Len(r.dbg) = 4 /\ r.dbg[4] = SgTotal(r))
      [] c = "sg_window_width" -> SgLogged(r) => r.dbg[2] = IntMin(r.ww, r.dbg[4])
         (* "order = min(order, window_width // 2)"; docstring "Fitted polynomial order is typically much less than half *)
         (* the window width."                                                                                         *)
      [] c = "sg_order" -> SgLogged(r) => r.dbg[3] = IntMin(r.order, r.dbg[2] \div 2)
      [] c = "sg_n_iter" -> (SgLogged(r) /\ r.dbg[2] >= 1) => r.dbg[1] = IntMax(1, IntMin(1000, r.dbg[4] \div r.dbg[2]))
         (* "# Apply signal smoothing": that many passes of savgol_filter with that window and order *)
      [] c = "sg_filter_calls" -> (SgLogged(r) /\ ~r.hasw) =>
                                     (Len(r.calls) = r.dbg[1] /\ \A k \in 1..Len(r.calls) : r.calls[k] = <<r.dbg[2], r.dbg[3], 1>>)
      [] c = "sg_window_shape" -> SgRuns(r) => SgWindowShape(r)
         (* odd windows only: an even window has no centre value (there the A-layer follows scipy's alignment) *)
      [] c = "sg_window_applied" -> (SgRuns(r) /\ ~r.hasw /\ SgWindowShape(r) /\ Len(r.outs) = SgN(r) /\ SgWw(r) % 2 = 1 /\ SgIter(r) <= SgMaxPasses) => SgUnwApplied(r)
      [] c = "sg_weighted_mean" -> (SgRuns(r) /\ r.hasw /\ SgWindowShape(r) /\ Len(r.outs) = SgN(r) /\ SgWw(r) % 2 = 1 /\ SgIter(r) <= SgMaxPasses) => SgWeightedApplied(r)
      [] c = "sg_constant" -> (NoErr(r) /\ SmIsConst(r.v)) => \A i \in 1..Len(r.outs) : SmNearInt(r.outs[i], r.v[1], r.U, SmTol9)
         (* ---------------- guess_window_size *)
      [] c = "gw_noerr" -> NoErr(r)
         (* "width = max(3, ...); width = min(len(x), width)": "a reasonable window size given the signal" *)
      [] c = "gw_bounds" -> NoErr(r) => (IntMin(3, Len(r.v)) <= r.outi /\ r.outi <= Len(r.v))
         (* ---------------- outlier_iqr / outlier_mad_median *)
      [] c \in {"oi_noerr", "om_noerr"} -> NoErr(r)
         (* "A boolean array of the same size as `a`, where outlier indices are True." *)
      [] c \in {"oi_length", "om_length"} -> NoErr(r) => Len(r.mask) = Len(r.v)
      [] c = "oi_formula" -> NoErr(r) => OiMaskOK(r)
      [] c = "om_formula" -> (NoErr(r) /\ OmMad4(r) > 0) => OmDocOK(r)
         (* ---------------- rolling_outlier_* *)
      [] c = "ro_noerr" -> NoErr(r)
         (* "A boolean array of the same size as `x`, where outlier indices are True." *)
      [] c = "ro_length" -> NoErr(r) => Len(r.mask) = RoN(r)
      [] c = "ro_formula" -> (NoErr(r) /\ ~RoEarly(r) /\ Len(r.mask) = RoN(r)) =>
                                (r.nwin = 1 /\ Len(r.trend) = RoN(r) /\ RoFormulaOK(r, FALSE))

(* ================================================================= premise ============ *)
SmGridOK(r) == r.U > 0 /\ Len(r.v) >= 1
SmWeightsOK(r, pos) == r.hasw => (r.WU > 0 /\ Len(r.w) = Len(r.v) /\ \A i \in 1..Len(r.w) : IF pos THEN r.w[i] > 0 ELSE r.w[i] >= 0)
SmWidthOK(n, wn, wd) == SmValidW(wn, wd) /\ SmExactW(n, wn, wd)
Premise(r) ==
    ~r.big /\        \* big: a finite result beyond the 12-digit encoding (|x| >= 2000)
    CASE r.op = "wing" -> r.n >= 1 /\ r.wd >= 1 /\ (SmValidW(r.wn, r.wd) => SmExactW(r.n, r.wn, r.wd))
      [] r.op = "check" -> SmGridOK(r) /\ Len(r.v) >= 2 /\ ~r.wnone /\ SmWidthOK(Len(r.v), r.wn, r.wd) /\ SmWeightsOK(r, FALSE)
      [] r.op \in {"rollq", "rollstd"} -> /\ SmGridOK(r) /\ Len(r.v) >= 2 /\ ~r.wnone /\ SmWidthOK(Len(r.v), r.wn, r.wd)
                                          /\ r.qd > 0 /\ 0 <= r.qn /\ r.qn <= r.qd
      [] r.op = "rollmed" -> SmGridOK(r) /\ ~r.wnone /\ SmWidthOK(Len(r.v), r.wn, r.wd)
      [] r.op = "convu" -> /\ SmGridOK(r) /\ CuM(r) >= 1 /\ CuM(r) <= CuL(r) /\ SmAllFin(r.win) /\ r.wing >= 1
                           /\ 2 * r.wing < CuL(r) /\ r.niter >= 1 /\ ZSign(ZSum(SmWinZ(r.win))) > 0
      [] r.op = "convw" -> /\ SmGridOK(r) /\ CuM(r) >= 1 /\ CuM(r) <= CuL(r) /\ SmAllFin(r.win) /\ r.niter >= 1
                           /\ ZSign(ZSum(SmWinZ(r.win))) > 0 /\ r.WU > 0 /\ \A i \in 1..Len(r.w) : r.w[i] >= 0
      [] r.op = "kaiser" -> /\ SmGridOK(r) /\ SmWeightsOK(r, TRUE)
                            /\ Len(r.v) >= 2 => /\ SmWidthOK(KsN(r), KsWn(r), KsWd(r))
                                                /\ r.fit => (~r.hasw /\ KsN(r) >= 2 * KsWing(r) + 1)
      [] r.op = "savgol" -> /\ SmGridOK(r) /\ SmWeightsOK(r, TRUE) /\ r.ww >= 1 /\ r.order >= 0 /\ r.niter >= 1
                            /\ Len(r.v) >= 2 => SmWidthOK(SgN(r), SgReqWn(r), SgReqWd(r))
      [] r.op = "guess" -> SmGridOK(r) /\ SmWeightsOK(r, TRUE) /\ (NoErr(r) => (r.nsd = 1 /\ r.sd.fin))
      [] r.op = "oiqr" -> SmGridOK(r) /\ r.cd > 0 /\ r.cn >= 0
      [] r.op = "omad" -> SmGridOK(r)
      [] r.op \in {"roiqr", "roq", "rostd"} ->
            /\ SmGridOK(r) /\ ~r.wnone /\ r.cd > 0 /\ r.cn >= 0 /\ r.qd > 0 /\ 0 <= r.qn /\ r.qn <= r.qd
            /\ RoEarly(r) \/ (SmWidthOK(RoN(r), r.wn, r.wd) /\ (NoErr(r) => SmAllFin(r.trend)))
      [] OTHER -> FALSE

(* ================================================================= drift (A-layer) ============ *)
SgAgrees(r) ==
    IF SgN(r) < 2 THEN TRUE
    ELSE /\ r.dbg = SgDbg(r)
         /\ Len(r.outs) = SgN(r)
         /\ IF r.hasw THEN r.calls = <<>> /\ ((SgWindowShape(r) /\ SgIter(r) <= SgMaxPasses) => SgWeightedApplied(r))
            ELSE r.calls = SgCalls(r) /\ ((SgWindowShape(r) /\ SgIter(r) <= SgMaxPasses) => SgUnwApplied(r))
KsAgrees(r) ==
    IF KsN(r) < 2 THEN TRUE
    ELSE /\ r.beta = 14
         /\ IF r.hasw THEN /\ Len(r.outs) = KsN(r)                             \* the padding is removed (repaired in 76f680e)
                           /\ (KsWindowShape(r) /\ ~r.fit) => KsWeightedApplied(r, KsWing(r) + 1, KsN(r))
            ELSE Len(r.outs) = KsN(r)
Drift(r) ==
    NoErr(r) /\
    CASE r.op = "wing" -> r.outi # SmWing(r.n, r)
      [] r.op = "check" -> \/ r.outi # SmWing(Len(r.v), r)
                           \/ r.hasw /\ LET pw == SmPaddedWeightsFx(r.w, r.WU, r.outi) IN
                                        Len(r.outw) # Len(pw) \/ ~SmSeqNear(r.outw, pw, 1, Len(pw), SmTol9)
      [] r.op \in {"rollq", "rollmed"} -> Len(r.v) >= 2 /\ ~RqWindowed(r, TRUE)
      [] r.op = "rollstd" -> ~RsWindowed(r, TRUE)
      [] r.op = "kaiser" -> ~KsAgrees(r)
      [] r.op = "savgol" -> ~SgAgrees(r)
      [] r.op = "guess" -> ~GwCoded(r)
      [] r.op = "omad" -> ~OmCodedOK(r)
      [] r.op \in {"roiqr", "roq", "rostd"} -> IF RoEarly(r) THEN ~RoAllFalse(r) ELSE ~RoFormulaOK(r, TRUE)
      [] OTHER -> FALSE

(* ================================================================= known-finding triggers ============ *)
(* KaiserWeightedPadded: kaiser(x, width, weights=...) on a signal of >= 2 values: convolve_weighted's result is         *)
(*   returned with the mirror padding still attached (len(x) + 2 * wing values)                                         *)
(* (repaired in /repo: the entry is "fixed" in known_findings.json and no trigger excuses it any more)                 *)
KnownTriggers == {}
TriggerHolds(t, r) == FALSE
=============================================================================
