--------------------------- MODULE RnaImport ---------------------------
(* X10 (extension) -- the import-rna command: cnvlib/rna.py and cnvlib/import_rna.py                                  *)
(*   tsl2int, load_gene_info (+ load_cnv_expression_corr, dedupe_ens_hugo, dedupe_ens_no_hugo, dedupe_tx,            *)
(*   locate_entrez_dupes), aggregate_gene_counts, aggregate_rsem, filter_probes, safe_log2, normalize_read_depths,   *)
(*   align_gene_info_to_samples, attach_gene_info_to_cnr, correct_cnr, do_import_rna.                                *)
(*                                                                                                                    *)
(* There is no listed property.  P-layer = only what the package documents (docstrings of rna.py / import_rna.py,     *)
(* doc/rna.rst, the CLI help of `cnvkit.py import-rna`, error messages); every clause quotes its source.  A-layer =   *)
(* the code's algorithm case for case (the de-duplication of the gene-info table is a decision table over row groups; *)
(* MC_RnaImport runs it as a state machine, one action per group).  Verdicts come from the P-layer only;              *)
(* disagreement with the A-layer is MODEL-DRIFT.  Floating-point statistics (quantile normalisation, weights,         *)
(* centring) enter as observed fixed-point values [nan, inf, neg, hi, lo] (Num.FxObs) and are constrained by the       *)
(* relations the documentation states (bounds, floors, per-gene median centring in ratio space), not recomputed.       *)
(*                                                                                                                    *)
(* Identifiers: Ensembl gene ids, gene names (Ensembl "gene" and TCGA "hugo_gene" share one name space), Entrez ids,   *)
(* sample ids are positive integers (0 = missing); the harness renders them as ENSG%011d[.version], GENE%d, S%02d.     *)
(* chromosome c is r.names[c] (character codes).                                                                      *)
(*                                                                                                                    *)
(* Records (one per call of the real code), field op:                                                                 *)
(*  "tsl"       [text, out, err]                          rna.tsl2int(text)                                           *)
(*  "geneinfo"  [names, hdr, rows, has_corr, corr, out, err]   rna.load_gene_info(file, corr file or None)            *)
(*              rows[k] = [gid, ver, gc (hundredths of a percent), c, s, e, gene, entrez, txlen, tsl (0 = NA), tstyle]  *)
(*              hdr = number of lines before the first data row (1: a BioMart export; 2: one more line above it)      *)
(*              corr[k] = [entrez, hugo, kt, pr, sr] (coefficients in thousandths)                                    *)
(*              out[k] = [gid, gc6, c, s, e, gene, entrez, txlen, tsl, hugo, kt6, pr6, sr6] (x6 = value * 10^6)       *)
(*  "aggregate" [fmt, samples, genes, cols, m, txlen, err]     import_rna.aggregate_rsem / aggregate_gene_counts      *)
(*              samples[k] = [sid, tail, rows: <<[gid, ver, cnt4 (4 x count), len]>>]; m[g][s] = 4 x count, -1 = NaN;  *)
(*              txlen[g] = round(1000 x length), rsem only                                                           *)
(*  "filter"    [genes, cols, m, ogenes, om, err]              rna.filter_probes                                      *)
(*  "safelog2"  [v64, min_log2, out, lin, err]                 rna.safe_log2(v64 / 64, min_log2); lin = 2^out         *)
(*  "normalize" [genes, cols, m, normals, out, lin, err, err_head]   rna.normalize_read_depths                        *)
(*  "import"    gene-info + corr + cohort files + options -> summary table and one .cnr-like table per sample         *)
EXTENDS Stats, FiniteSetsExt
Tx == INSTANCE Text

RnNoErr(r) == r.err = ""
RnSeqToSet(s) == {s[k] : k \in 1..Len(s)}
RnNoDup(s) == \A i, j \in 1..Len(s) : i # j => s[i] # s[j]
RnCount(S) == Cardinality(S)
RnObsOk(o) == ~o.nan /\ ~o.inf
RnFx(o) == IF o.big THEN ZMulInt(FxObs(o), 4096) ELSE FxObs(o)     \* observed float as Fx (big: value / 4096 was encoded)
RnFxInt(k) == FxFromInt(k)
RnTol9 == FxTol9
RECURSIVE RnTwoPow(_)
RnTwoPow(k) == IF k = 0 THEN 1 ELSE 2 * RnTwoPow(k - 1)

(* ===================================================================================================== tsl2int *)
(* docstring: 'Convert an Ensembl Transcript Support Level (TSL) code to an integer.  The code has the format           *)
(* "tsl([1-5]|NA)".'                                                                                                   *)
txt_tsl == <<116, 115, 108>>
txt_NA == <<78, 65>>
TslDocumented(t) == \/ (Len(t) = 4 /\ Tx!TakeFirst(t, 3) = txt_tsl /\ t[4] \in 49..53)
                    \/ t = txt_tsl \o txt_NA
TslDocValue(t) == IF t = txt_tsl \o txt_NA THEN 0 ELSE t[4] - 48
TslDocOK(r) == TslDocumented(r.text) => (RnNoErr(r) /\ r.out = TslDocValue(r.text))
(* A-layer: the code, line for line *)
TslCoded(t) ==
    IF t = <<>> \/ t = txt_tsl \o txt_NA THEN [err |-> FALSE, v |-> 0]                  \* `if tsl in (np.nan, "", "tslNA")`
    ELSE IF ~(Len(t) >= 3 /\ Tx!TakeFirst(t, 3) = txt_tsl) THEN [err |-> TRUE, v |-> 0]   \* assert tsl[:3] == "tsl"
    ELSE LET v0 == Tx!DropFirst(t, 3)
             v == IF Len(v0) > 2 THEN Tx!RStrip(Tx!TakeFirst(v0, 2)) ELSE v0             \* drop " (assigned to previous ..."
         IN IF v = txt_NA THEN [err |-> FALSE, v |-> 0]
            ELSE IF Tx!IsNatText(v) THEN [err |-> FALSE, v |-> Tx!DigitsVal(v)]            \* int(value)
            ELSE [err |-> TRUE, v |-> 0]                                                  \* ValueError
(* int() also accepts signs, blanks and underscores; the A-layer speaks about letters and digits only *)
TslSimple(t) == \A k \in 1..Len(t) : k <= 5 => (Tx!IsAlpha(t[k]) \/ Tx!IsDigit(t[k]) \/ (k = 5 /\ t[k] = 32 /\ Len(t) > 5))
TslDrift(r) == TslSimple(r.text) /\ LET a == TslCoded(r.text) IN
                  IF a.err THEN RnNoErr(r) ELSE ~RnNoErr(r) \/ r.out # a.v

(* ===================================================================================================== gene info *)
GiRows(r) == r.rows
GiN(r) == Len(r.rows)
(* header = 1 in read_csv: line 0 is skipped, line 1 replaced by the column names -> with hdr = 1 the first data row is lost *)
GiSeenIdx(r) == IF r.hdr >= 2 THEN 1..GiN(r) ELSE 2..GiN(r)
GiCorrOf(r, entrez) ==          \* the TCGA row joined to a gene-info row (left join on entrez_id), or "none"
    LET hits == {k \in 1..Len(r.corr) : entrez # 0 /\ r.corr[k].entrez = entrez} IN
    IF ~r.has_corr \/ hits = {} THEN [has |-> FALSE, hugo |-> 0, kt |-> 0, pr |-> 0, sr |-> 0]
    ELSE LET t == r.corr[CHOOSE k \in hits : TRUE] IN [has |-> TRUE, hugo |-> t.hugo, kt |-> t.kt, pr |-> t.pr, sr |-> t.sr]
GiNameMatch(r, k) == LET t == GiCorrOf(r, r.rows[k].entrez) IN t.has /\ t.hugo = r.rows[k].gene /\ r.rows[k].gene # 0
GiGroup(r, idx, gid) == {k \in idx : r.rows[k].gid = gid}
GiGids(r, idx) == {r.rows[k].gid : k \in idx}
DefaultR6 == 100000             \* load_gene_info(gene_resource, corr_fname, default_r=0.1)
GiRowMatches(o, x) ==           \* an output row carries the fields of input row x
    /\ o.gid = x.gid /\ o.gc6 = x.gc * 100 /\ o.c = x.c /\ o.s = x.s /\ o.e = x.e /\ o.gene = x.gene
    /\ o.entrez = x.entrez /\ o.txlen = x.txlen /\ o.tsl = x.tsl
GiOutOf(r, gid) == {j \in 1..Len(r.out) : r.out[j].gid = gid}

(* ---------- P-layer *)
(* a BioMart table with data rows is loaded without an error *)
GiNoErr(r) == RnNoErr(r)
(* dedupe_ens_hugo docstring: "we need to select a single row for each group of 'gene info' rows with the same         *)
(* Ensembl ID (column 'gene_id')"; load_gene_info: `assert gene_info["gene_id"].is_unique`                            *)
GiUniqueIds(r) == RnNoDup([j \in 1..Len(r.out) |-> r.out[j].gid])
(* "select a single row": every output row is one of the input rows of its gene id, field for field                    *)
(* (gc: "Gene % GC content" read as a fraction; Ensembl ID without its version suffix)                                  *)
GiRowsFromInput(r) == \A j \in 1..Len(r.out) : \E k \in 1..GiN(r) : GiRowMatches(r.out[j], r.rows[k])
(* locate_entrez_dupes docstring: "all entries are still retained in the BioMart table (gene_info)"; "a single row     *)
(* for each group": no Ensembl ID is lost.  Stated separately for the first data row of the file, which the code        *)
(* skips when the table has the single header line of a BioMart export (finding FirstRowSkipped).                       *)
GiEveryGeneKept(r) == \A k \in 2..GiN(r) : (r.hdr = 1 => r.rows[k].gid # r.rows[1].gid) => GiOutOf(r, r.rows[k].gid) # {}
GiFirstRowKept(r) == GiN(r) >= 1 => GiOutOf(r, r.rows[1].gid) # {}
(* groups judged by the survivor clauses: with hdr = 1 the group of the skipped first row is left to GiFirstRowKept *)
GiJudgedGids(r) == {g \in GiGids(r, 1..GiN(r)) : r.hdr = 1 => g # r.rows[1].gid}
GiAll(r, gid) == GiGroup(r, 1..GiN(r), gid)
GiMatched(r, gid) == {k \in GiAll(r, gid) : GiNameMatch(r, k)}
(* dedupe_ens_hugo: "if we also require that the Ensembl and HUGO gene names match within a group, that ... results     *)
(* in a unique row remaining"                                                                                          *)
GiSurvivorNameMatch(r) == r.has_corr => \A g \in GiJudgedGids(r) :
    (RnCount(GiAll(r, g)) > 1 /\ RnCount(GiMatched(r, g)) = 1) =>
        \A j \in GiOutOf(r, g) : GiRowMatches(r.out[j], r.rows[CHOOSE k \in GiMatched(r, g) : TRUE])
(* candidates when the names do not decide: "Failing that (no matches or multiple matches)"; ">1: Take lowest Entrez   *)
(* ID of the matched"; without a TCGA table dedupe_ens_no_hugo: "Deduplicate Ensembl ID using Entrez ID but not HUGO"   *)
GiCands(r, g) == IF r.has_corr /\ RnCount(GiMatched(r, g)) > 1 THEN GiMatched(r, g) ELSE GiAll(r, g)
GiDecidedByKeys(r, g) == RnCount(GiAll(r, g)) > 1 /\ ~(r.has_corr /\ RnCount(GiMatched(r, g)) = 1)
(* "prefer a lower Entrez ID, because well-characterized, protein-coding genes tend to have been discovered and         *)
(* accessioned first"; dedupe_tx: "Choose the lowest-number Entrez ID"  (a row without an Entrez ID has no number)      *)
GiIds(r, S) == {r.rows[k].entrez : k \in S} \ {0}
GiLowestId(r, S) == IF GiIds(r, S) = {} THEN 0 ELSE Min(GiIds(r, S))
GiSurvivorLowestEntrez(r) == \A g \in GiJudgedGids(r) : GiDecidedByKeys(r, g) =>
    \A j \in GiOutOf(r, g) : r.out[j].entrez = GiLowestId(r, GiCands(r, g))
(* dedupe_tx: "and the transcript with the greatest support (primarily) and length (secondarily)".  Support: tsl2int    *)
(* cites the Ensembl glossary -- tsl1 is the best supported level, tsl5 the weakest, tslNA = not analysed.              *)
TslRank(t) == IF t = 0 THEN 6 ELSE t                     \* smaller = better supported
GiSurvivorBestSupport(r) == \A g \in GiJudgedGids(r) : GiDecidedByKeys(r, g) =>
    \A j \in GiOutOf(r, g) :
        LET same == {k \in GiCands(r, g) : r.rows[k].entrez = r.out[j].entrez} IN
        \A k \in same : TslRank(r.out[j].tsl) <= TslRank(r.rows[k].tsl)
GiSurvivorLongest(r) == \A g \in GiJudgedGids(r) : GiDecidedByKeys(r, g) =>
    \A j \in GiOutOf(r, g) :
        LET same == {k \in GiCands(r, g) : r.rows[k].entrez = r.out[j].entrez /\ r.rows[k].tsl = r.out[j].tsl} IN
        \A k \in same : r.out[j].txlen >= r.rows[k].txlen
(* load_gene_info: "Read gene info from BioMart, and optionally TCGA, into a dataframe"; default_r = 0.1;               *)
(* locate_entrez_dupes: "their correlation values will then be filled in with a default value ... It will then be as if *)
(* those genes hadn't appeared in the TCGA tables at all, i.e. CNV-expression correlation is unknown"                   *)
GiCoefIs(o, kt, pr, sr) == o.kt6 = kt /\ o.pr6 = pr /\ o.sr6 = sr
GiIsDefault(o) == GiCoefIs(o, DefaultR6, DefaultR6, DefaultR6)
GiHasTcga(r, o) == LET t == GiCorrOf(r, o.entrez) IN t.has /\ GiCoefIs(o, t.kt * 1000, t.pr * 1000, t.sr * 1000)
GiCorrValues(r) == r.has_corr => \A j \in 1..Len(r.out) :
    LET o == r.out[j]  t == GiCorrOf(r, o.entrez) IN
    IF ~t.has THEN GiIsDefault(o) /\ o.hugo = 0
    ELSE o.hugo = t.hugo /\ (GiIsDefault(o) \/ GiHasTcga(r, o))
(* Entrez ids shared by several Ensembl ids of the output: "emit the indices of the extra rows" -- one row keeps the     *)
(* TCGA values; "Use HUGO vs. HGNC name again, similar to dedupe_hugo": a single name-matched row is that one.          *)
(* An Entrez id used by one output row keeps its TCGA values.                                                          *)
GiJudgedEntrez(r) == {r.out[j].entrez : j \in 1..Len(r.out)} \ ({0} \cup (IF r.hdr = 1 /\ GiN(r) >= 1 THEN {r.rows[1].entrez} ELSE {}))
GiEntrezDupes(r) == r.has_corr => \A e \in GiJudgedEntrez(r) :
    LET grp == {j \in 1..Len(r.out) : r.out[j].entrez = e}
        t == GiCorrOf(r, e)
        nm == {j \in grp : r.out[j].gene = r.out[j].hugo /\ r.out[j].gene # 0}
    IN t.has =>
       /\ RnCount({j \in grp : ~GiIsDefault(r.out[j])}) <= 1
       /\ \E j \in grp : GiHasTcga(r, r.out[j])
       /\ RnCount(nm) = 1 => GiHasTcga(r, r.out[CHOOSE j \in nm : TRUE])

(* ---------- A-layer: the decision table *)
(* dedupe_tx: sort_values(["entrez_id", "tx_support", "tx_length"], ascending=[True, False, False], na_position="last") *)
GiKeyLess(a, b) ==
    LET ea == IF a.entrez = 0 THEN 2000000000 ELSE a.entrez
        eb == IF b.entrez = 0 THEN 2000000000 ELSE b.entrez
    IN \/ ea < eb
       \/ (ea = eb /\ a.tsl > b.tsl)                      \* the larger INTEGER first: tsl5 before tsl1 before tslNA
       \/ (ea = eb /\ a.tsl = b.tsl /\ a.txlen > b.txlen)
GiDedupeTx(r, S) == {k \in S : \A j \in S : ~GiKeyLess(r.rows[j], r.rows[k])}     \* admissible first rows of the sort
GiSurvivors(r, S) ==             \* dedupe_ens_hugo / dedupe_ens_no_hugo on one group S of seen rows
    IF RnCount(S) = 1 THEN S
    ELSE IF ~r.has_corr THEN GiDedupeTx(r, S)
    ELSE LET M == {k \in S : GiNameMatch(r, k)} IN
         IF RnCount(M) = 1 THEN M ELSE IF RnCount(M) > 1 THEN GiDedupeTx(r, M) ELSE GiDedupeTx(r, S)
(* one table entry per surviving row: tab[j] = [k (row index), reset] in gene-id order *)
GiGidSeq(r) == Tx!SortedSeqOfSet(GiGids(r, GiSeenIdx(r)))
GiPick(r, S) == Min(GiSurvivors(r, S))                   \* ties: the stable multi-key sort keeps file order
GiDeduped(r) == LET gs == GiGidSeq(r) IN [j \in 1..Len(gs) |-> GiPick(r, GiGroup(r, GiSeenIdx(r), gs[j]))]
(* locate_entrez_dupes on the de-duplicated table (given as a sequence of row indices): the rows to reset *)
GiEntrezShared(r) ==             \* `if not gene_info["entrez_id"].is_unique` -- on the table as loaded (NaN counts as a value)
    \E a, b \in GiSeenIdx(r) : a # b /\ r.rows[a].entrez = r.rows[b].entrez
GiResetOfGroup(r, grp) ==        \* grp: row indices of the de-duplicated table with one (non-missing) Entrez ID
    IF RnCount(grp) <= 1 THEN {}
    ELSE LET M == {k \in grp : GiNameMatch(r, k)} IN
         IF RnCount(M) = 1 THEN grp \ M
         ELSE LET keepable == IF M # {} THEN M ELSE grp
                  keep == CHOOSE k \in keepable : \A j \in keepable : r.rows[k].gid <= r.rows[j].gid
              IN grp \ {keep}
GiResetSet(r, ks) ==             \* ks: set of surviving row indices
    IF ~GiEntrezShared(r) THEN {}
    ELSE UNION {GiResetOfGroup(r, {k \in ks : r.rows[k].entrez = e}) : e \in {r.rows[k].entrez : k \in ks} \ {0}}
GiOutRow(r, k, reset) ==
    LET x == r.rows[k]  t == GiCorrOf(r, x.entrez)  keepv == r.has_corr /\ t.has /\ ~reset IN
    [gid |-> x.gid, gc6 |-> x.gc * 100, c |-> x.c, s |-> x.s, e |-> x.e, gene |-> x.gene, entrez |-> x.entrez,
     txlen |-> x.txlen, tsl |-> x.tsl, hugo |-> IF r.has_corr THEN t.hugo ELSE 0,
     kt6 |-> IF ~r.has_corr THEN 0 ELSE IF keepv THEN t.kt * 1000 ELSE DefaultR6,
     pr6 |-> IF ~r.has_corr THEN 0 ELSE IF keepv THEN t.pr * 1000 ELSE DefaultR6,
     sr6 |-> IF ~r.has_corr THEN 0 ELSE IF keepv THEN t.sr * 1000 ELSE DefaultR6]
GiCodedOut(r) == LET ks == GiDeduped(r)  rs == GiResetSet(r, RnSeqToSet(ks)) IN
                 [j \in 1..Len(ks) |-> GiOutRow(r, ks[j], ks[j] \in rs)]
(* drift: tolerant of the choice among rows that tie on all three sort keys *)
GiDrift(r) ==
    \/ ~RnNoErr(r)
    \/ LET gs == GiGidSeq(r) IN
       \/ Len(r.out) # Len(gs)
       \/ \E j \in 1..Len(gs) :
             \/ r.out[j].gid # gs[j]
             \/ ~\E k \in GiSurvivors(r, GiGroup(r, GiSeenIdx(r), gs[j])) : GiRowMatches(r.out[j], r.rows[k])
       \/ /\ \A j \in 1..Len(gs) : RnCount(GiSurvivors(r, GiGroup(r, GiSeenIdx(r), gs[j]))) = 1
          /\ r.out # GiCodedOut(r)

(* ===================================================================================================== aggregate *)
AgN(r) == Len(r.samples)
AgGidsOf(smp) == [k \in 1..Len(smp.rows) |-> smp.rows[k].gid]
AgAllGids(r) == UNION {RnSeqToSet(AgGidsOf(r.samples[k])) : k \in 1..AgN(r)}
AgEqualRows(r) == \A k \in 1..AgN(r) : Len(r.samples[k].rows) = Len(r.samples[1].rows)
AgSameOrder(r) == \A k \in 1..AgN(r) : AgGidsOf(r.samples[k]) = AgGidsOf(r.samples[1])
AgRowOf(smp, g) == smp.rows[CHOOSE k \in 1..Len(smp.rows) : smp.rows[k].gid = g]
AgHas(smp, g) == \E k \in 1..Len(smp.rows) : smp.rows[k].gid = g
AgPremise(r) == /\ AgN(r) >= 1 /\ r.fmt \in {"rsem", "counts"}
                /\ \A k \in 1..AgN(r) : Len(r.samples[k].rows) >= 1 /\ RnNoDup(AgGidsOf(r.samples[k]))
                /\ RnNoDup([k \in 1..AgN(r) |-> r.samples[k].sid])
AgColOf(r, sid) == CHOOSE j \in 1..Len(r.cols) : r.cols[j] = sid
AgRowIdx(r, g) == CHOOSE j \in 1..Len(r.genes) : r.genes[j] = g
(* error message of both aggregators: "Number of rows in each input file is not equal" *)
(* (files of equal length that list different genes are not a cohort the documentation speaks about) *)
AgSameSet(r) == \A k \in 1..AgN(r) : RnSeqToSet(AgGidsOf(r.samples[k])) = RnSeqToSet(AgGidsOf(r.samples[1]))
AgRowCountError(r) == IF ~AgEqualRows(r) THEN r.err = "RuntimeError: Number of rows in each input file is not equal"
                      ELSE AgSameSet(r) => RnNoErr(r)
AgOk(r) == AgEqualRows(r) /\ RnNoErr(r)
(* aggregate_rsem: "sample_counts : DataFrame.  Row index is Ensembl gene ID, column index is filename."               *)
AgGenes(r) == AgOk(r) => (RnNoDup(r.genes) /\ RnSeqToSet(r.genes) = AgAllGids(r))
AgCols(r) == AgOk(r) => (RnNoDup(r.cols) /\ RnSeqToSet(r.cols) = {r.samples[k].sid : k \in 1..AgN(r)})
(* doc/rna.rst: "Each gene's read counts and average transcript length are taken from the input file for each sample." *)
AgCounts(r) == (AgOk(r) /\ AgGenes(r) /\ AgCols(r)) => \A k \in 1..AgN(r) : \A g \in RnSeqToSet(AgGidsOf(r.samples[k])) :
    r.m[AgRowIdx(r, g)][AgColOf(r, r.samples[k].sid)] = AgRowOf(r.samples[k], g).cnt4
(* "average transcript length"; aggregate_rsem "tx_lengths : Series.  Gene lengths."  |n * obs - 1000 * sum| <= n        *)
AgLenSum(r, g) == ISum([k \in 1..AgN(r) |-> AgRowOf(r.samples[k], g).len])
AgTxlenOK(r, g, obs_m) == IAbs(AgN(r) * obs_m - 1000 * AgLenSum(r, g)) <= AgN(r)
AgTxlen(r) == (r.fmt = "rsem" /\ AgOk(r) /\ AgGenes(r)) =>
    /\ Len(r.txlen) = Len(r.genes)
    /\ \A g \in AgAllGids(r) : (\A k \in 1..AgN(r) : AgHas(r.samples[k], g)) => AgTxlenOK(r, g, r.txlen[AgRowIdx(r, g)])
(* A-layer: DataFrame(dict of Series) keeps a shared index as it is, else the sorted union; the lengths are averaged     *)
(* by ROW POSITION (np.vstack(length_cols).mean(axis=0)) and labelled with the count table's index                      *)
AgCodedGenes(r) == IF AgSameOrder(r) THEN AgGidsOf(r.samples[1]) ELSE Tx!SortedSeqOfSet(AgAllGids(r))
AgCodedM(r) == LET gs == AgCodedGenes(r) IN
    [j \in 1..Len(gs) |-> [k \in 1..AgN(r) |-> IF AgHas(r.samples[k], gs[j]) THEN AgRowOf(r.samples[k], gs[j]).cnt4 ELSE 0 - 1]]
AgCodedLenOK(r) == LET gs == AgCodedGenes(r) IN
    /\ Len(r.txlen) = Len(gs)
    /\ \A j \in 1..Len(gs) : IAbs(AgN(r) * r.txlen[j] - 1000 * ISum([k \in 1..AgN(r) |-> r.samples[k].rows[j].len])) <= AgN(r)
AgDrift(r) ==
    IF ~AgEqualRows(r) THEN RnNoErr(r)
    ELSE IF r.fmt = "rsem" /\ Len(AgCodedGenes(r)) # Len(r.samples[1].rows) THEN RnNoErr(r)    \* index of another length
    ELSE \/ ~RnNoErr(r) \/ r.genes # AgCodedGenes(r) \/ r.cols # [k \in 1..AgN(r) |-> r.samples[k].sid]
         \/ r.m # AgCodedM(r) \/ (r.fmt = "rsem" /\ ~AgCodedLenOK(r))

(* ===================================================================================================== filter_probes *)
FiNoNaN(m) == \A g \in 1..Len(m) : \A s \in 1..Len(m[g]) : m[g][s] >= 0
FiPremise(r) == Len(r.cols) >= 1 /\ RnNoDup(r.genes) /\ FiNoNaN(r.m) /\ Len(r.m) = Len(r.genes)
                /\ \A g \in 1..Len(r.m) : Len(r.m[g]) = Len(r.cols)
FiDetected(row) == RnCount({s \in 1..Len(row) : row[s] >= 4})          \* samples with a count >= 1
FiIdx(r, g) == CHOOSE j \in 1..Len(r.genes) : r.genes[j] = g
(* docstring: "Filter probes to only include high-quality, transcribed genes." -- a selection of the input rows *)
FiSubset(r) == /\ RnNoErr(r) /\ RnNoDup(r.ogenes) /\ RnSeqToSet(r.ogenes) \subseteq RnSeqToSet(r.genes)
               /\ Len(r.om) = Len(r.ogenes)
               /\ \A j \in 1..Len(r.ogenes) : r.om[j] = r.m[FiIdx(r, r.ogenes[j])]
               /\ \A i, j \in 1..Len(r.ogenes) : i < j => FiIdx(r, r.ogenes[i]) < FiIdx(r, r.ogenes[j])
(* source comment + log message: "Make sure the gene has detectable transcript in at least half of samples";            *)
(* "Dropping %d / %d rarely expressed genes from input samples"                                                        *)
FiKeptDetectable(r) == FiSubset(r) => \A j \in 1..Len(r.ogenes) : 2 * FiDetected(r.om[j]) >= Len(r.cols)
FiKeepsExpressed(r) == \A g \in 1..Len(r.genes) : FiDetected(r.m[g]) = Len(r.cols) => r.genes[g] \in RnSeqToSet(r.ogenes)
(* A-layer: gene_medians >= 1.0 *)
FiMedianPass(row) == LET vals == SelectSeq(row, LAMBDA x : x >= 0) IN vals # <<>> /\ IMedian2(vals) >= 8
FiCodedGenes(r) == SelectSeq(r.genes, LAMBDA g : FiMedianPass(r.m[FiIdx(r, g)]))
FiDrift(r) == r.ogenes # FiCodedGenes(r)

(* ===================================================================================================== safe_log2 *)
SlPremise(r) == r.min_log2 \in -12..0 /\ \A k \in 1..Len(r.v64) : r.v64[k] \in 0..1000000
SlShape(r) == RnNoErr(r) /\ Len(r.out) = Len(r.v64) /\ \A k \in 1..Len(r.out) : RnObsOk(r.out[k])
(* docstring: "min_log2 : Assign input zeros this log2-scaled value instead of -inf." *)
SlZeroGivesMin(r) == SlShape(r) /\ \A k \in 1..Len(r.v64) : r.v64[k] = 0 => RnFx(r.out[k]) = RnFxInt(r.min_log2)
(* "Rather than hard-clipping, input values near 0 (especially below 2^min_log2) will be squeezed a bit above            *)
(* `min_log2` in the log2-scale output."                                                                              *)
SlFloor(r) == SlShape(r) /\ \A k \in 1..Len(r.v64) :
    /\ ZLe(RnFxInt(r.min_log2), RnFx(r.out[k]))
    /\ r.v64[k] > 0 => ZLt(RnFxInt(r.min_log2), RnFx(r.out[k]))
(* "Transform values to log2 scale": order preserving *)
SlMonotone(r) == SlShape(r) /\ \A i, j \in 1..Len(r.v64) : r.v64[i] <= r.v64[j] => ZLe(RnFx(r.out[i]), RnFx(r.out[j]))
(* A-layer in ratio space: 2^out = v + 2^min_log2 *)
SlExactLin(v64, m) == LET p == RnTwoPow(0 - m) IN FxFromRat(v64 * p + 64, 64 * p)
SlDrift(r) == ~SlShape(r) \/ \E k \in 1..Len(r.v64) :
    ~RnObsOk(r.lin[k]) \/ ~FxClose(RnFx(r.lin[k]), SlExactLin(r.v64[k], r.min_log2), RnTol9)

(* ===================================================================================================== normalize *)
NullLog2 == -5                  \* rna.NULL_LOG2_COVERAGE
NoNG(r) == Len(r.genes)
NoNS(r) == Len(r.cols)
NoZerosInCol(m, s) == RnCount({g \in 1..Len(m) : m[g][s] = 0})
NoZerosInRow(row, S) == RnCount({s \in S : row[s] = 0})
(* quantile(0.75) of n values is > 0 iff the value at sorted position ceil(0.75 (n-1)) is: at most that many zeros *)
NoQ3Positive(m, s) == NoZerosInCol(m, s) <= (3 * (Len(m) - 1) + 3) \div 4
(* the median of the samples S of a row is > 0 iff the upper middle value is *)
NoMedianPositive(row, S) == NoZerosInRow(row, S) <= RnCount(S) \div 2
NoNormalIdx(r) == {s \in 1..NoNS(r) : r.cols[s] \in RnSeqToSet(r.normals)}
NoNormalsKnown(r) == RnSeqToSet(r.normals) \subseteq RnSeqToSet(r.cols)
NoRegular(m, nidx) == /\ \A s \in 1..Len(m[1]) : NoQ3Positive(m, s)
                      /\ \A g \in 1..Len(m) : NoMedianPositive(m[g], 1..Len(m[g]))
                      /\ nidx # {} => \A g \in 1..Len(m) : NoMedianPositive(m[g], nidx)
(* `assert sample_depths.values.sum() > 0`: some depth is positive *)
NoPremise(r) == /\ NoNG(r) >= 1 /\ NoNS(r) >= 1 /\ FiPremise(r) /\ RnNoDup(r.cols) /\ RnNoDup(r.normals)
                /\ \E g \in 1..NoNG(r) : \E s \in 1..NoNS(r) : r.m[g][s] > 0
                /\ (NoNormalsKnown(r) => NoRegular(r.m, NoNormalIdx(r)))
(* error message: "Normal sample IDs not in samples: %s" *)
NoMissingNormalError(r) == IF NoNormalsKnown(r) THEN RnNoErr(r)
                           ELSE r.err_head = "ValueError: Normal sample IDs not in sam"
NoShape(r) == RnNoErr(r) /\ Len(r.lin) = NoNG(r) /\ \A g \in 1..NoNG(r) :
                 Len(r.lin[g]) = NoNS(r) /\ \A s \in 1..NoNS(r) : RnObsOk(r.lin[g][s]) /\ RnObsOk(r.out[g][s])
(* docstring: "After normalizing read depths within each sample, normalize (median-center) within each gene, across    *)
(* samples.  Finally, convert to log2 ratios."; source comment "Use normal samples as a baseline for read depths" /     *)
(* CLI help of -n: "Normal samples ... to be used as a control when normalizing and re-centering gene read depth       *)
(* ratios": per gene, the median of the (normal) samples' ratios is 1 -- ratio = 2^out - 2^NULL_LOG2 (safe_log2).       *)
NoShift == FxFromRat(1, 32)
NoRatios(r, g, S) == LET ss == Tx!SortedSeqOfSet(S) IN [j \in 1..Len(ss) |-> ZSub(RnFx(r.lin[g][ss[j]]), NoShift)]
NoGeneCentered(r) == NoNormalsKnown(r) => (NoShape(r) /\ \A g \in 1..NoNG(r) :
    LET S == IF NoNormalIdx(r) = {} THEN 1..NoNS(r) ELSE NoNormalIdx(r) IN
    FxClose(Median(NoRatios(r, g, S)), FxOne, RnTol9))
(* A-layer (partial): zero depth stays zero through every division -> exactly NULL_LOG2; positive depth -> above it *)
NoDrift(r) == NoNormalsKnown(r) /\ (~NoShape(r) \/ \E g \in 1..NoNG(r) : \E s \in 1..NoNS(r) :
    IF r.m[g][s] = 0 THEN RnFx(r.out[g][s]) # RnFxInt(NullLog2) ELSE ~ZLt(RnFxInt(NullLog2), RnFx(r.out[g][s])))

(* ===================================================================================================== do_import_rna *)
ImCohort(r) == RnSeqToSet(r.given) \cup RnSeqToSet(r.normals)
ImSample(r, sid) == r.samples[CHOOSE k \in 1..Len(r.samples) : r.samples[k].sid = sid]
ImFileGids(r) == RnSeqToSet(AgGidsOf(r.samples[1]))
ImInfoGids(r) == GiGids(r, GiSeenIdx(r))
ImCommon(r) == ImFileGids(r) \cap ImInfoGids(r)
ImCountRow(r, g) == LET ss == Tx!SortedSeqOfSet(ImCohort(r)) IN [j \in 1..Len(ss) |-> AgRowOf(ImSample(r, ss[j]), g).cnt4]
ImKeptCoded(r) == {g \in ImCommon(r) : FiMedianPass(ImCountRow(r, g))}
ImMatrixCoded(r) == LET gs == Tx!SortedSeqOfSet(ImKeptCoded(r)) IN [j \in 1..Len(gs) |-> ImCountRow(r, gs[j])]
ImNormalIdx(r) == LET ss == Tx!SortedSeqOfSet(ImCohort(r)) IN {j \in 1..Len(ss) : ss[j] \in RnSeqToSet(r.normals)}
ImPremise(r) ==
    /\ r.hdr = 2 /\ GiN(r) >= 1 /\ r.fmt \in {"rsem", "counts"} /\ Len(r.samples) >= 1
    /\ RnNoDup([k \in 1..Len(r.samples) |-> r.samples[k].sid])
    /\ ImCohort(r) # {} /\ ImCohort(r) \subseteq {r.samples[k].sid : k \in 1..Len(r.samples)}
    /\ \A k \in 1..Len(r.samples) : /\ RnNoDup(AgGidsOf(r.samples[k])) /\ Len(r.samples[k].rows) >= 1
                                    /\ RnSeqToSet(AgGidsOf(r.samples[k])) = ImFileGids(r)
                                    /\ \A j \in 1..Len(r.samples[k].rows) : r.samples[k].rows[j].len >= 1
    /\ \A k \in 1..GiN(r) : r.rows[k].txlen >= 1
    /\ (r.has_corr => (Len(r.corr) >= 1 /\ RnNoDup([k \in 1..Len(r.corr) |-> r.corr[k].entrez])))
    /\ ImKeptCoded(r) # {} /\ NoRegular(ImMatrixCoded(r), ImNormalIdx(r))
ImNoErr(r) == RnNoErr(r)
ImOk(r) == RnNoErr(r) /\ r.cnr_err = ""
(* CLI help of -d: "Directory to write a CNVkit .cnr file for each input sample"; doc/rna.rst: "Normalized,             *)
(* bias-corrected *.cnr files are written"; do_import_rna: "ensure all normals are included in the analysis"           *)
ImCnrPerSample(r) == /\ ImOk(r) /\ RnNoDup([k \in 1..Len(r.cnrs) |-> r.cnrs[k].sid])
                     /\ {r.cnrs[k].sid : k \in 1..Len(r.cnrs)} = ImCohort(r)
(* doc/rna.rst: "an optional summary table with all samples' data is written to --output" *)
ImSummarySamples(r) == RnNoErr(r) /\ RnNoDup(r.sum_cols) /\ RnSeqToSet(r.sum_cols) = ImCohort(r)
(* attach_gene_info_to_cnr: "dropping genes that are not in the Ensembl table.  I.e., filter probes down to those      *)
(* genes that have names/IDs in the gene resource table."                                                              *)
ImGenesInResourceAndFiles(r) == RnNoErr(r) /\ RnNoDup(r.sum_genes) /\ RnSeqToSet(r.sum_genes) \subseteq ImCommon(r)
(* filter_probes (see FiKeptDetectable) applied to the cohort *)
ImGenesPassFilter(r) == \A g \in RnSeqToSet(r.sum_genes) \cap ImCommon(r) : 2 * FiDetected(ImCountRow(r, g)) >= RnCount(ImCohort(r))
ImGenesComplete(r) == RnNoErr(r) /\ \A g \in ImCommon(r) :
    FiDetected(ImCountRow(r, g)) = RnCount(ImCohort(r)) => g \in RnSeqToSet(r.sum_genes)
ImKey(x) == <<x.c, x.s, x.e, x.gene>>
ImKeys(rows) == [k \in 1..Len(rows) |-> ImKey(rows[k])]
(* "Split out samples to individual .cnr files, keeping (most) gene info": every sample's table lists the same genes     *)
(* (those of the summary table), in one order                                                                          *)
ImCnrSameGenes(r) == ImOk(r) /\ \A k \in 1..Len(r.cnrs) :
    /\ ImKeys(r.cnrs[k].rows) = ImKeys(r.cnrs[1].rows)
    /\ Len(r.cnrs[k].rows) = Len(r.sum_rows)
    /\ RnSeqToSet(ImKeys(r.cnrs[k].rows)) = RnSeqToSet(ImKeys(r.sum_rows))
(* align_gene_info_to_samples: "Align columns and sort." -- by position: a chromosome's rows together, starts ascending *)
ImSortedRows(rows) == \A i, j \in 1..Len(rows) : i < j =>
    /\ (rows[i].c = rows[j].c => rows[i].s <= rows[j].s)
    /\ (rows[i].c = rows[j].c => \A k \in i..j : rows[k].c = rows[i].c)
ImSorted(r) == RnNoErr(r) /\ ImSortedRows(r.sum_rows) /\ \A k \in 1..Len(r.cnrs) : ImSortedRows(r.cnrs[k].rows)
(* "Join gene info to each sample's log2 expression ratios": position, name and GC fraction are a gene-info row's *)
ImInfoRowsOf(r, g) == {k \in 1..GiN(r) : r.rows[k].gid = g}
ImGeneInfoAttached(r) == RnNoErr(r) /\ Len(r.sum_rows) = Len(r.sum_genes) /\ \A j \in 1..Len(r.sum_genes) :
    \E k \in ImInfoRowsOf(r, r.sum_genes[j]) :
        LET o == r.sum_rows[j]  x == r.rows[k] IN
        /\ o.c = x.c /\ o.s = x.s /\ o.e = x.e /\ o.gene = x.gene /\ o.gc6 = x.gc * 100
        /\ r.fmt = "counts" => o.txlen = x.txlen * 1000        \* "(RSEM results have this, TCGA gene counts don't)"
(* doc/rna.rst: "Each gene's read counts and average transcript length are taken from the input file for each sample." *)
ImLenSum(r, g) == LET ss == Tx!SortedSeqOfSet(ImCohort(r)) IN ISum([j \in 1..Len(ss) |-> AgRowOf(ImSample(r, ss[j]), g).len])
ImTxlen(r) == (r.fmt = "rsem" /\ RnNoErr(r) /\ Len(r.sum_rows) = Len(r.sum_genes)) =>
    \A j \in 1..Len(r.sum_genes) : r.sum_genes[j] \in ImFileGids(r) =>
        LET n == RnCount(ImCohort(r)) IN IAbs(n * r.sum_rows[j].txlen - 1000 * ImLenSum(r, r.sum_genes[j])) <= n
(* CLI help: "--max-log2: Maximum log2 ratio in output.  Observed values above this limit will be replaced with this    *)
(* value."                                                                                                            *)
ImMaxLog2(r) == ImOk(r) /\ \A k \in 1..Len(r.cnrs) : \A j \in 1..Len(r.cnrs[k].rows) :
    LET o == r.cnrs[k].rows[j].log2 IN RnObsOk(o) /\ ZLe(ZMulInt(RnFx(o), 4), RnFxInt(r.max4))
(* doc/fileformats.rst: "the .cnr file includes each bin's proportional weight or reliability (weight)"; pipeline.rst:    *)
(* "Bins with a weight of 0 are dropped before segmentation" -- a weight is a number, never negative                   *)
ImWeightValid(r) == ImOk(r) /\ \A k \in 1..Len(r.cnrs) : \A j \in 1..Len(r.cnrs[k].rows) :
    LET o == r.cnrs[k].rows[j].weight IN RnObsOk(o) /\ ~(o.neg /\ (o.hi # 0 \/ o.lo # 0))

(* ---------- A-layer of the composition *)
(* sort_values(by=["chromosome", "start"]): the chromosome column is an integer column when every name is a number,     *)
(* else a column of strings compared character by character ("10" < "2")                                               *)
ImAllNumeric(r) == \A k \in GiSeenIdx(r) : Tx!IsNatText(r.names[r.rows[k].c])
ImChromLess(r, a, b) == IF ImAllNumeric(r) THEN Tx!IntVal(r.names[a]) < Tx!IntVal(r.names[b]) ELSE Tx!SeqLess(r.names[a], r.names[b])
ImCodedOrderOK(r) == \A i, j \in 1..Len(r.sum_rows) : i < j =>
    ~(ImChromLess(r, r.sum_rows[j].c, r.sum_rows[i].c) \/ (r.sum_rows[j].c = r.sum_rows[i].c /\ r.sum_rows[j].s < r.sum_rows[i].s))
ImSumIdx(r, g) == CHOOSE j \in 1..Len(r.sum_genes) : r.sum_genes[j] = g
ImColIdx(r, sid) == CHOOSE j \in 1..Len(r.sum_cols) : r.sum_cols[j] = sid
(* attach_gene_info_to_cnr: depth = read_len * count / tx_length with read_len = 100 *)
ImDepthOK(r, cnr) == \A j \in 1..Len(cnr.rows) :
    LET g == r.sum_genes[j]                               \* (only used when the cnr keeps the summary order)
        cnt4 == AgRowOf(ImSample(r, cnr.sid), g).cnt4
        tl == r.sum_rows[j].txlen                          \* 1000 x length
        o == cnr.rows[j].depth
    IN RnObsOk(o) /\ FxClose(RnFx(o), FxFromRat(25 * 1000 * cnt4, tl), FxFromRat(1, 100000))   \* (tl is rounded to 1/1000)
(* align_gene_info_to_samples: gi["weight"] = weight / weight.max(), or 1.0 everywhere *)
ImWeightsCoded(r) == /\ \A j \in 1..Len(r.sum_weight) : RnObsOk(r.sum_weight[j]) /\ ZLe(RnFx(r.sum_weight[j]), FxOne)
                     /\ \E j \in 1..Len(r.sum_weight) : RnFx(r.sum_weight[j]) = FxOne
(* summary columns: safe_log2(., NULL_LOG2_COVERAGE): never below -5; a zero count gives exactly -5 (no normals)         *)
ImSummaryFloor(r) == \A j \in 1..Len(r.sum_genes) : \A s \in ImCohort(r) :
    LET o == r.sum_log2[j][ImColIdx(r, s)]
        cnt4 == AgRowOf(ImSample(r, s), r.sum_genes[j]).cnt4
    IN RnObsOk(o) /\ ZLe(RnFxInt(NullLog2), RnFx(o)) /\ (cnt4 = 0 => RnFx(o) = RnFxInt(NullLog2))
(* correct_cnr without bias corrections: center_all (median of the autosomes' per-chromosome medians), then the clip      *)
(* GenomicArray.autosomes: "Select chromosomes w/ integer names, ignoring any 'chr' prefixes"; when there is none, every row *)
txt_chr == <<99, 104, 114>>
ImIsAuto(r, c) == LET n == r.names[c] IN
    Tx!IsNatText(n) \/ (Len(n) > 3 /\ Tx!TakeFirst(n, 3) = txt_chr /\ Tx!IsNatText(Tx!DropFirst(n, 3)))
ImShiftCoded(r, col) ==          \* col: the sample's summary log2 values as Fx, in summary order
    LET auto0 == {j \in 1..Len(r.sum_rows) : ImIsAuto(r, r.sum_rows[j].c)}
        auto == IF auto0 = {} THEN 1..Len(r.sum_rows) ELSE auto0
        chroms == {r.sum_rows[j].c : j \in auto}
        cmed(c) == LET idx == Tx!SortedSeqOfSet({j \in auto : r.sum_rows[j].c = c}) IN Median([k \in 1..Len(idx) |-> col[idx[k]]])
        cs == Tx!SortedSeqOfSet(chroms)
    IN IF auto = {} THEN ZZero ELSE ZNeg(Median([k \in 1..Len(cs) |-> cmed(cs[k])]))
ImLog2CodedOK(r, cnr) ==
    LET col == [j \in 1..Len(r.sum_genes) |-> RnFx(r.sum_log2[j][ImColIdx(r, cnr.sid)])]
        sh == ImShiftCoded(r, col)
        mx == ZDivT(RnFxInt(r.max4), ZFromInt(4))
    IN \A j \in 1..Len(cnr.rows) :
        LET x == ZAdd(col[j], sh)
            want == IF ZLt(mx, x) THEN mx ELSE x                            \* `if max_log2 is not None:` (the CLI always gives a number)
        IN RnObsOk(cnr.rows[j].log2) /\ FxCloseAbs(RnFx(cnr.rows[j].log2), want, FxTol9)
ImDrift(r) ==
    \/ ~RnNoErr(r)
    \/ RnSeqToSet(r.sum_genes) # ImKeptCoded(r)
    \/ ~ImCodedOrderOK(r)
    \/ r.sum_cols # Tx!SortedSeqOfSet(ImCohort(r))            \* sorted(set(file names))
    \/ ~ImWeightsCoded(r)
    \/ (r.normals = <<>> /\ ~ImSummaryFloor(r))
    \/ /\ r.cnr_err = ""
       /\ \E k \in 1..Len(r.cnrs) : LET cnr == r.cnrs[k] IN
             \/ ImKeys(cnr.rows) = ImKeys(r.sum_rows) /\ ~ImDepthOK(r, cnr)
             \/ ~r.do_gc /\ ~r.do_txlen /\ (ImKeys(cnr.rows) # ImKeys(r.sum_rows) \/ ~ImLog2CodedOK(r, cnr))
             \/ \E j \in 1..Len(cnr.rows) : \E i \in 1..Len(r.sum_rows) :
                    /\ ImKey(cnr.rows[j]) = ImKey(r.sum_rows[i])
                    /\ \/ cnr.rows[j].gc6 # r.sum_rows[i].gc6
                       \/ ~RnObsOk(cnr.rows[j].weight)
                       \/ /\ \A i2 \in 1..Len(r.sum_rows) : ImKey(r.sum_rows[i2]) = ImKey(r.sum_rows[i]) => i2 = i
                          /\ RnFx(cnr.rows[j].weight) # RnFx(r.sum_weight[i])

(* ===================================================================================================== interface *)
Clauses(op) ==
    CASE op = "tsl"       -> {"tsl_documented_codes"}
      [] op = "geneinfo"  -> {"gi_noerr", "gi_unique_ids", "gi_rows_from_input", "gi_every_gene_kept", "gi_first_row_kept",
                              "gi_survivor_name_match", "gi_survivor_lowest_entrez", "gi_survivor_best_support",
                              "gi_survivor_longest", "gi_corr_values", "gi_entrez_dupes"}
      [] op = "aggregate" -> {"agg_rowcount_error", "agg_genes", "agg_cols", "agg_counts", "agg_txlen"}
      [] op = "filter"    -> {"filter_subset", "filter_kept_detectable", "filter_keeps_expressed"}
      [] op = "safelog2"  -> {"sl_zero_gives_min", "sl_floor", "sl_monotone"}
      [] op = "normalize" -> {"norm_missing_normal_error", "norm_gene_centered"}
      [] op = "import"    -> {"imp_noerr", "imp_cnr_per_sample", "imp_summary_samples", "imp_genes_in_resource_and_files",
                              "imp_genes_pass_filter", "imp_genes_complete", "imp_cnr_same_genes", "imp_sorted",
                              "imp_gene_info_attached", "imp_txlen", "imp_max_log2", "imp_weight_valid"}
      [] OTHER -> {}

Holds(c, r) ==
    CASE c = "tsl_documented_codes" -> TslDocOK(r)
      [] c = "gi_noerr" -> GiNoErr(r)
      [] c = "gi_unique_ids" -> GiUniqueIds(r)
      [] c = "gi_rows_from_input" -> GiRowsFromInput(r)
      [] c = "gi_every_gene_kept" -> RnNoErr(r) /\ GiEveryGeneKept(r)
      [] c = "gi_first_row_kept" -> RnNoErr(r) /\ GiFirstRowKept(r)
      [] c = "gi_survivor_name_match" -> GiSurvivorNameMatch(r)
      [] c = "gi_survivor_lowest_entrez" -> GiSurvivorLowestEntrez(r)
      [] c = "gi_survivor_best_support" -> GiSurvivorBestSupport(r)
      [] c = "gi_survivor_longest" -> GiSurvivorLongest(r)
      [] c = "gi_corr_values" -> GiCorrValues(r)
      [] c = "gi_entrez_dupes" -> GiEntrezDupes(r)
      [] c = "agg_rowcount_error" -> AgRowCountError(r)
      [] c = "agg_genes" -> AgGenes(r)
      [] c = "agg_cols" -> AgCols(r)
      [] c = "agg_counts" -> AgCounts(r)
      [] c = "agg_txlen" -> AgTxlen(r)
      [] c = "filter_subset" -> FiSubset(r)
      [] c = "filter_kept_detectable" -> FiKeptDetectable(r)
      [] c = "filter_keeps_expressed" -> FiKeepsExpressed(r)
      [] c = "sl_zero_gives_min" -> SlZeroGivesMin(r)
      [] c = "sl_floor" -> SlFloor(r)
      [] c = "sl_monotone" -> SlMonotone(r)
      [] c = "norm_missing_normal_error" -> NoMissingNormalError(r)
      [] c = "norm_gene_centered" -> NoGeneCentered(r)
      [] c = "imp_noerr" -> ImNoErr(r)
      [] c = "imp_cnr_per_sample" -> ImCnrPerSample(r)
      [] c = "imp_summary_samples" -> ImSummarySamples(r)
      [] c = "imp_genes_in_resource_and_files" -> ImGenesInResourceAndFiles(r)
      [] c = "imp_genes_pass_filter" -> ImGenesPassFilter(r)
      [] c = "imp_genes_complete" -> ImGenesComplete(r)
      [] c = "imp_cnr_same_genes" -> r.cnr_err # "" \/ ImCnrSameGenes(r)       \* (a failed run is imp_cnr_per_sample's)
      [] c = "imp_sorted" -> ImSorted(r)
      [] c = "imp_gene_info_attached" -> ImGeneInfoAttached(r)
      [] c = "imp_txlen" -> ImTxlen(r)
      [] c = "imp_max_log2" -> r.cnr_err # "" \/ ImMaxLog2(r)
      [] c = "imp_weight_valid" -> r.cnr_err # "" \/ ImWeightValid(r)
      [] OTHER -> FALSE

Premise(r) ==
    CASE r.op = "tsl" -> Tx!IsText(r.text)
      [] r.op = "geneinfo" -> GiN(r) >= 1 /\ r.hdr \in {1, 2} /\ (r.has_corr => RnNoDup([k \in 1..Len(r.corr) |-> r.corr[k].entrez]))
      [] r.op = "aggregate" -> AgPremise(r)
      [] r.op = "filter" -> FiPremise(r)
      [] r.op = "safelog2" -> SlPremise(r)
      [] r.op = "normalize" -> NoPremise(r)
      [] r.op = "import" -> ImPremise(r)
      [] OTHER -> FALSE

Drift(r) ==
    CASE r.op = "tsl" -> TslDrift(r)
      [] r.op = "geneinfo" -> GiDrift(r)
      [] r.op = "aggregate" -> AgDrift(r)
      [] r.op = "filter" -> FiDrift(r)
      [] r.op = "safelog2" -> SlDrift(r)
      [] r.op = "normalize" -> NoDrift(r)
      [] r.op = "import" -> ImDrift(r)
      [] OTHER -> FALSE

(* ---------- known findings: narrow characterisations of the inputs on which the code contradicts its documentation *)
(* (repaired in /repo and no longer excused: DataFrame.iteritems under pandas >= 2 -- 3f65739; --max-log2 0 ignored -- f01210b) *)
KnownTriggers == {"FirstRowSkipped", "TslOrderInverted", "RsemOrderDiffers"}
(* some group decided by the sort keys holds, for its lowest Entrez ID, two different analysed support levels *)
GiTslConflict(r) == \E g \in GiJudgedGids(r) : GiDecidedByKeys(r, g) /\
    LET C == GiCands(r, g)  e == GiLowestId(r, C)  same == {k \in C : r.rows[k].entrez = e} IN
    \E a, b \in same : r.rows[a].tsl # r.rows[b].tsl /\ r.rows[a].tsl # 0 /\ r.rows[b].tsl # 0
TriggerHolds(t, r) ==
    CASE t = "FirstRowSkipped" -> r.op = "geneinfo" /\ r.hdr = 1
      [] t = "TslOrderInverted" -> r.op = "geneinfo" /\ GiTslConflict(r)
      [] t = "RsemOrderDiffers" -> /\ r.op \in {"aggregate", "import"} /\ r.fmt = "rsem"
                                   /\ \E k \in 1..Len(r.samples) : AgGidsOf(r.samples[k]) # AgGidsOf(r.samples[1])
      [] OTHER -> FALSE
TriggerClauses(t) ==
    CASE t = "FirstRowSkipped" -> {"gi_first_row_kept"}
      [] t = "TslOrderInverted" -> {"gi_survivor_best_support"}
      [] t = "RsemOrderDiffers" -> {"agg_txlen", "imp_txlen"}
      [] OTHER -> {}
=============================================================================
