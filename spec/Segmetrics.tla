--------------------------- MODULE Segmetrics ---------------------------
(* C17 -- segment statistics (cnvlib.segmetrics.do_segmetrics) and the per-bin z-test (cnvlib.bintest.do_bintest,   *)
(* z_prob, p_adjust_bh) match their definitions on the right bins.                                                  *)
(*                                                                                                                  *)
(* Content module: record formats, P-layer (the property as stated), A-layer (the code case for case: the           *)
(* searchsorted / mask selection of skgenome.intersect, the stat function table with its on_array decorators, the   *)
(* descending-cumulative-minimum Benjamini-Hochberg), premise, drift, triggers.  Formulas come from Stats.tla       *)
(* (medians, MAD, percentiles, IQR, MSE, biweight midvariance, BH on rationals) and Num.tla (limb integers, 12-digit *)
(* fixed point); the normal tail is the bracketing table PhiTable.tla (generated once by tools/gen_phi_table.py).   *)
(* Operators defined here that could clash with / extend the library carry the prefix Sm.                           *)
(*                                                                                                                  *)
(* Numbers (DESIGN section 4): bin and segment log2 are integers in units 1/LU (dyadic grid, exact as floats),      *)
(* weights integers 1..WU in units 1/WU; alpha = an/ad; every observed float is a record [nan, neg, hi, lo] with    *)
(* round(|x| * 10^12) = hi * 10^6 + lo (Num.FxObs) -- or, where the property needs an EXACT order comparison of     *)
(* floats ("below alpha", "adjusted exactly", "reproducible"), an order-isomorphic integer rank / the IEEE bits.    *)
(*                                                                                                                  *)
(* Records (one per call of the real code; field lists below):                                                      *)
(*   op = "segmetrics"  one do_segmetrics call (+ a second call after perturbing the global RNG, for ci)            *)
(*   op = "bintest"     do_bintest(alpha = 2) [every tested bin comes back with its p_bintest] and                  *)
(*                      do_bintest(alpha)     [the call under test], with p_adjust_bh's argument/result logged      *)
(*   op = "bh"          p_adjust_bh on a vector of rationals                                                        *)
EXTENDS Stats, PhiTable, FiniteSetsExt

(* ------------------------------------------------------------------------------------------ rows *)
(* bin row     <<chrom id, start, end, log2 (1/LU), weight (1/WU), antitarget? (0/1), depth == 0? (0/1)>>          *)
(* segment row <<chrom id, start, end, log2 (1/LU), probes, weight (1/WU), gene>>                                   *)
BinC(b) == b[1]
BinS(b) == b[2]
BinE(b) == b[3]
BinLg(b) == b[4]
BinW(b) == b[5]
BinAnti(b) == b[6] = 1
BinDz(b) == b[7] = 1
SegC(s) == s[1]
SegS(s) == s[2]
SegE(s) == s[3]
SegLg(s) == s[4]

LocStats == {"mean", "median", "mode", "p_ttest"}
SprStats == {"stdev", "mad", "mse", "iqr", "bivar", "sem"}
ItvStats == {"ci", "pi"}
StatColumns == LocStats \cup SprStats \cup {"ci_lo", "ci_hi", "pi_lo", "pi_hi"}
Req(r, name) == name \in ToSet(r.loc) \cup ToSet(r.spr) \cup ToSet(r.itv)
NoErr(r) == r.err = ""
NSeg(r) == Len(r.segs)
ObsV(o) == FxObs(o)
SmUlp == Z(FALSE, <<1>>)                            \* 10^-12: the rounding of the 12-digit encoding of an observed float
SmBivarMax == 400                                   \* biweight midvariance is compared with its formula up to 400 bins

(* TLC evaluates a function constructor lazily, element by element and again at every application; SmForce turns   *)
(* it into a stored tuple (each element evaluated once)                                                            *)
SmForce(s) == s \o <<>>

(* ================================================================= P-layer: which bins ============ *)
(* "computes each requested statistic over exactly the bins overlapping that segment" (skip_low: of the bins that    *)
(* survive drop_low_coverage: log2 < NULL_LOG2_COVERAGE - MIN_REF_COVERAGE = -15, or depth == 0 when there is a      *)
(* depth column)                                                                                                    *)
LowCut(r) == -15 * r.LU
IsLow(r, b) == BinLg(b) < LowCut(r) \/ (r.hasdepth /\ BinDz(b))
UsedIdx(r) == {k \in 1..Len(r.bins) : ~(r.skip_low /\ IsLow(r, r.bins[k]))}
Overlaps(b, s) == BinC(b) = SegC(s) /\ BinE(b) > SegS(s) /\ BinS(b) < SegE(s)
BinsOfSegment(r, j) == {k \in UsedIdx(r) : Overlaps(r.bins[k], r.segs[j])}
Sel(r, j) == SetToSortSeq(BinsOfSegment(r, j), <)             \* in table order
ValsFx(r, idx) == SmForce([m \in 1..Len(idx) |-> FxGrid(BinLg(r.bins[idx[m]]), r.LU)])
(* "of their deviations from the segment log2": bin log2 minus the log2 column of the segment row *)
DevsFx(r, idx, j) == SmForce([m \in 1..Len(idx) |-> FxGrid(BinLg(r.bins[idx[m]]) - SegLg(r.segs[j]), r.LU)])

(* ================================================================= P-layer: the statistics ============ *)
SmMean(a) == ZDivTFast(ZSum(a), ZFromInt(Len(a)))                                \* = Stats.Mean, faster division
SmSumSq(d) == ZSum([i \in 1..Len(d) |-> ZMul(d[i], d[i])])                     \* units 10^-24
SmRad(d) == LET sx == ZSum(d) IN ZSub(ZMulInt(SmSumSq(d), Len(d)), ZMul(sx, sx))   \* n Sxx - Sx^2  (>= 0)
(* population standard deviation  sqrt(n Sxx - Sx^2) / n   (numpy / pandas std with ddof = 0) *)
SmStdPop(d) == Z(FALSE, MagDivFast(MagSqrtFast(SmRad(d).m), MagFromNat(Len(d))))
(* standard error of the mean  s / sqrt n,  s^2 = (n Sxx - Sx^2) / (n (n-1))   (scipy.stats.sem, ddof = 1), n >= 2 *)
SmSem(d) == LET n == Len(d) IN
            Z(FALSE, MagDivFast(MagSqrtFast(MagDivFast(SmRad(d).m, MagFromNat(n - 1))), MagFromNat(n)))

(* biweight midvariance "agrees with its published formula" exactly as C19 judges it (StatsCheck.BivarFormulaOK):    *)
(* centre = any admissible stopping round of the biweight location, c = 9, MAD fallback on exactly symmetric data    *)
SmBilocIts(a) == BilocIterates(a, Median(a), 6, 5, BwEps, FxTol9)
SmBilocAcceptable(a) == LET its == SmBilocIts(a) IN {its[k + 1] : k \in BilocAcceptedRounds(its, BwEps, FxTol9)}
SmBivarFormulaAt(o, a, M) ==
    LET b == BivarAt(a, M, 9)
        D == BwRadius(a, M, 9)
    IN \/ b[1] /\ FxClose(o, b[2], FxTol6)
       \/ ZLe(ZAbs(b[3]), FxMul(FxTol9, D)) /\ FxClose(o, BivarFallback(a, M), FxTol6)
SmBivarFormulaOK(o, a) == \E m \in SmBilocAcceptable(a) : SmBivarFormulaAt(o, a, m)

(* one statistic of one segment: o = observed [nan, neg, hi, lo]; a = the bins' log2; d = their deviations.          *)
(* A segment without bins has no statistic (NaN).  Tolerance 10^-9 (absolute below 1, relative above) wherever a    *)
(* division or root is involved; the median of grid values is exact.                                                *)
SmStatOK(name, o, a, d) ==
    LET n == Len(a) IN
    IF n = 0 THEN o.nan
    ELSE CASE name = "mean"   -> ~o.nan /\ FxClose(ObsV(o), SmMean(a), FxTol9)
           [] name = "median" -> ~o.nan /\ ObsV(o) = Median(a)
              (* mode and p_ttest: VALUE NOT CLAIMED (KDE / Student t, DESIGN section 9); only what their definition    *)
              (* makes discrete: the mode is one of the bins' values, a p-value is NaN or lies in [0, 1]                *)
           [] name = "mode"   -> ~o.nan /\ \E i \in 1..n : ObsV(o) = a[i]
           [] name = "p_ttest" -> o.nan \/ (~ObsV(o).n /\ ZLe(ObsV(o), FxOne))
           [] name = "stdev"  -> ~o.nan /\ FxClose(ObsV(o), SmStdPop(d), FxTol9)
           [] name = "mad"    -> ~o.nan /\ FxClose(ObsV(o), Mad(d, TRUE), FxTol9)
              (* "MSE ... of their deviations from the segment log2": the mean of the squared deviations *)
           [] name = "mse"    -> ~o.nan /\ FxClose(ObsV(o), MseFromZero(d), FxTol9)
           [] name = "iqr"    -> ~o.nan /\ FxClose(ObsV(o), Iqr(d), FxTol9)
           [] name = "bivar"  -> /\ ~o.nan /\ ~ObsV(o).n
                                 /\ IF n = 1 THEN ZIsZero(ObsV(o))
                                    ELSE n <= SmBivarMax => SmBivarFormulaOK(ObsV(o), d)
              (* the standard error of one value is undefined *)
           [] name = "sem"    -> IF n = 1 THEN o.nan ELSE ~o.nan /\ FxClose(ObsV(o), SmSem(d), FxTol9)

(* alpha = an/ad: the alpha/2 and 1 - alpha/2 percentiles are at 100 an / (2 ad) and 100 (2 ad - an) / (2 ad) percent *)
PiLo(r, a) == Percentile(a, 100 * r.an, 2 * r.ad)
PiHi(r, a) == Percentile(a, 100 * (2 * r.ad - r.an), 2 * r.ad)
SmMinLe(a, x) == \E i \in 1..Len(a) : ZLe(a[i], x)       \* min(a) <= x
SmMaxGe(a, x) == \E i \in 1..Len(a) : ZLe(x, a[i])       \* x <= max(a)

ColOK(r, name) == Len(r.out[name]) = NSeg(r)
ForSegs(r, name, F(_, _)) == Req(r, name) => /\ ColOK(r, name)
                                             /\ \A j \in 1..NSeg(r) : F(j, r.out[name][j])
StatClause(r, name) ==
    NoErr(r) => ForSegs(r, name, LAMBDA j, o : LET idx == Sel(r, j) IN SmStatOK(name, o, ValsFx(r, idx), DevsFx(r, idx, j)))

(* columns of the result: the segments' own columns plus one per requested statistic (two per interval) *)
WantedColumns(r) == ToSet(r.icols) \cup ToSet(r.loc) \cup ToSet(r.spr)
                    \cup (IF Req(r, "ci") THEN {"ci_lo", "ci_hi"} ELSE {})
                    \cup (IF Req(r, "pi") THEN {"pi_lo", "pi_hi"} ELSE {})

(* ================================================================= P-layer: bintest ============ *)
(* "(log2 - segment mean)/sqrt(1 - weight)" for "the enclosing segment": the bins tested are those lying inside a    *)
(* segment (residuals(): mode "inner"); without segments every bin, relative to its chromosome's median              *)
Enclosing(r, k) == {j \in 1..Len(r.segs) : LET s == r.segs[j]  b == r.bins[k] IN
                                            SegC(s) = BinC(b) /\ SegS(s) <= BinS(b) /\ BinE(b) <= SegE(s)}
Enclosed(r, k) == r.hassegs => Enclosing(r, k) # {}
TestedSet(r) == {k \in 1..Len(r.bins) : Enclosed(r, k) /\ (r.target_only => ~BinAnti(r.bins[k]))}
LgsOfChrom(r, c) == LET idx == SelectSeq([k \in 1..Len(r.bins) |-> k], LAMBDA k : BinC(r.bins[k]) = c)
                    IN [m \in 1..Len(idx) |-> BinLg(r.bins[idx[m]])]
ChromMedian2(r, c) == IMedian2(LgsOfChrom(r, c))
(* twice the reference level / the residual, in units 1/LU (a median of an even count may fall on a half step) *)
Ref2(r, k) == IF r.hassegs THEN 2 * SegLg(r.segs[CHOOSE j \in Enclosing(r, k) : TRUE])
              ELSE ChromMedian2(r, BinC(r.bins[k]))
Resid2(r, k) == 2 * BinLg(r.bins[k]) - Ref2(r, k)

(* z^2 = resid^2 / (1 - w) = Resid2^2 * WU / (4 LU^2 (WU - w)), an exact rational; floor(100 |z|) by an integer     *)
(* square root, capped at the end of the table                                                                      *)
MagToNatCap(m, cap) == IF Len(m) = 0 THEN 0 ELSE IF Len(m) >= 2 THEN cap ELSE IF m[1] > cap THEN cap ELSE m[1]
ZHundredths(r, k) ==
    LET b == r.bins[k]
        rr == ZFromInt(Resid2(r, k))
        num == ZMulInt(ZMulInt(ZMul(rr, rr), r.WU), 10000)
        den == ZMulInt(ZMulInt(ZFromInt(4 * r.LU), r.LU), r.WU - BinW(b))
    IN MagToNatCap(MagSqrtFast(MagDivFast(num.m, den.m)), PhiKMax)
TabFx(e) == FxObs([neg |-> FALSE, hi |-> e[1], lo |-> e[2]])
PhiLo(h) == TabFx(PhiLoTab[h + 1])
PhiHi(h) == TabFx(PhiHiTab[h + 1])
(* <<lo, hi>> with lo <= P(|z|) <= hi.  weight 1: |z| is infinite (the residual is non-zero by the premise), tail 0 *)
PBracket(r, k) ==
    IF BinW(r.bins[k]) = r.WU THEN <<ZZero, ZZero>>
    ELSE LET h == ZHundredths(r, k) IN
         IF h >= PhiKMax THEN <<ZZero, PhiHi(PhiKMax)>> ELSE <<PhiLo(h + 1), PhiHi(h)>>

(* Benjamini-Hochberg on fixed-point p-values, from the definition:                                                 *)
(*   q_i = min(1, min_{j : p_j >= p_i} n p_j / R_j),   R_j = #{k : p_k <= p_j}                                      *)
(* (Stats.BHAdjust is the same on exact rationals).  BH is monotone and n/R_j-Lipschitz in p, so the 10^-12          *)
(* encoding of the p-values moves a q by at most n * 10^-12.                                                        *)
SmBHFx(ps0) ==
    LET ps == SmForce(ps0)
        n == Len(ps)
        R == SmForce([j \in 1..n |-> Cardinality({k \in 1..n : ZLe(ps[k], ps[j])})])
        term == SmForce([j \in 1..n |-> ZDivTFast(ZMulInt(ps[j], n), ZFromInt(R[j]))])
    IN SmForce([i \in 1..n |-> FoldSet(LAMBDA j, acc : ZMin(acc, term[j]), FxOne, {j \in 1..n : ZLe(ps[i], ps[j])})])
(* the same on exact rationals <<num, den>> with 0 <= num <= den <= 46340 (plain-integer cross-multiplication);     *)
(* results <<Z num, Z den>>.  Identical to Stats.BHAdjust (checked in MC_Segmetrics), but every intermediate        *)
(* vector is stored, so a vector of 200 p-values costs n^2 instead of n^3 comparisons.                              *)
SmRatLe(p, q) == p[1] * q[2] <= q[1] * p[2]
SmBHRat(ps0) ==
    LET ps == SmForce(ps0)
        n == Len(ps)
        R == SmForce([j \in 1..n |-> Cardinality({k \in 1..n : SmRatLe(ps[k], ps[j])})])
        term == SmForce([j \in 1..n |-> <<ZFromInt(n * ps[j][1]), ZFromInt(ps[j][2] * R[j])>>])
    IN SmForce([i \in 1..n |-> FoldSet(LAMBDA j, acc : ZRatMin(acc, term[j]), <<ZOne, ZOne>>, {j \in 1..n : SmRatLe(ps[i], ps[j])})])
RatFx(q) == ZDivTFast(FxFromZ(q[1]), q[2])           \* <<Z num, Z den>> -> fixed point (truncated)

AlphaFx(r) == IF r.pick = 0 THEN FxFromRat(r.an, r.ad) ELSE ObsV(r.alpha)
TIdx(r) == r.t_ids                                   \* the bins of run 1 (alpha = 2), in the order of the logged vectors
NT(r) == Len(r.t_ids)
PosOf(seq, x) == CHOOSE m \in 1..Len(seq) : seq[m] = x
NoDup(seq) == Cardinality(ToSet(seq)) = Len(seq)
(* three-valued decision from the table alone (no logged p-value): BH of the upper / lower bracket ends bounds the  *)
(* adjusted p from above / below *)
BracketQ(r) ==
    LET br == SmForce([m \in 1..NT(r) |-> PBracket(r, TIdx(r)[m])])
    IN <<SmBHFx([m \in 1..NT(r) |-> br[m][1]]), SmBHFx([m \in 1..NT(r) |-> br[m][2]])>>
MustHit(q, m, alpha) == ZLt(ZAdd(q[2][m], FxTol9), alpha)
MustMiss(q, m, alpha) == ZLe(ZAdd(alpha, FxTol9), q[1][m])
LogOK(r) == /\ Len(r.p_raw) = NT(r) /\ Len(r.q_log) = NT(r) /\ Len(r.q1) = NT(r)
            /\ Len(r.prank) = NT(r) /\ Len(r.qlogrank) = NT(r) /\ Len(r.q1rank) = NT(r)
            /\ Len(r.q2rank) = Len(r.hits)
TestedOK(r) == NoDup(r.t_ids) /\ ToSet(r.t_ids) = TestedSet(r)

(* ================================================================= clauses ============ *)
Clauses(op) ==
    CASE op = "segmetrics" -> {"sm_noerr", "sm_columns", "sm_segments_unchanged",
                               "sm_mean", "sm_median", "sm_mode_is_bin_value", "sm_pttest_range",
                               "sm_stdev", "sm_mad", "sm_mse", "sm_iqr", "sm_bivar", "sm_sem",
                               "sm_pi", "sm_pi_brackets_median", "sm_ci_order_range", "sm_ci_reproducible"}
      [] op = "bintest" -> {"bt_noerr", "bt_tests_enclosed_bins", "bt_on_target_only_when_asked", "bt_p_in_phi_bracket",
                            "bt_bh_exact", "bt_hits_exactly_below_alpha", "bt_hits_by_table"}
      [] op = "bh" -> {"bh_noerr", "bh_exact", "bh_order"}
      [] OTHER -> {}

(* the clauses that say something about THIS record: a statistic's clause applies when the statistic was requested  *)
(* (so that the evidence counts real evaluations, not vacuous ones)                                                 *)
StatOfClause == [sm_mean |-> "mean", sm_median |-> "median", sm_mode_is_bin_value |-> "mode", sm_pttest_range |-> "p_ttest",
                 sm_stdev |-> "stdev", sm_mad |-> "mad", sm_mse |-> "mse", sm_iqr |-> "iqr", sm_bivar |-> "bivar",
                 sm_sem |-> "sem", sm_pi |-> "pi", sm_pi_brackets_median |-> "pi", sm_ci_order_range |-> "ci",
                 sm_ci_reproducible |-> "ci"]
ClausesOf(r) == {c \in Clauses(r.op) : c \in DOMAIN StatOfClause => Req(r, StatOfClause[c])}

Holds(c, r) ==
    CASE c \in {"sm_noerr", "bt_noerr", "bh_noerr"} -> NoErr(r)
         (* "every subset of statistics": exactly the requested columns are added *)
      [] c = "sm_columns" -> NoErr(r) => ToSet(r.cols) = WantedColumns(r) /\ NoDup(r.cols)
         (* "the input segments' own columns are unchanged": in the result and in the caller's object *)
      [] c = "sm_segments_unchanged" -> NoErr(r) => r.osegs = r.segs /\ r.asegs = r.segs
         (* "mean, median ... of the bins' log2" *)
      [] c = "sm_mean" -> StatClause(r, "mean")
      [] c = "sm_median" -> StatClause(r, "median")
      [] c = "sm_mode_is_bin_value" -> StatClause(r, "mode")
      [] c = "sm_pttest_range" -> StatClause(r, "p_ttest")
         (* "standard deviation, MAD, MSE, IQR, biweight midvariance and SEM of their deviations from the segment log2" *)
      [] c = "sm_stdev" -> StatClause(r, "stdev")
      [] c = "sm_mad" -> StatClause(r, "mad")
      [] c = "sm_mse" -> StatClause(r, "mse")
      [] c = "sm_iqr" -> StatClause(r, "iqr")
      [] c = "sm_bivar" -> StatClause(r, "bivar")
      [] c = "sm_sem" -> StatClause(r, "sem")
         (* "the prediction interval as the alpha/2 and 1-alpha/2 percentiles" *)
      [] c = "sm_pi" ->
            (NoErr(r) /\ Req(r, "pi")) =>
                /\ ColOK(r, "pi_lo") /\ ColOK(r, "pi_hi")
                /\ \A j \in 1..NSeg(r) :
                     LET a == ValsFx(r, Sel(r, j))  lo == r.out.pi_lo[j]  hi == r.out.pi_hi[j] IN
                     IF Len(a) = 0 THEN lo.nan /\ hi.nan
                     ELSE /\ ~lo.nan /\ FxClose(ObsV(lo), PiLo(r, a), FxTol9)
                          /\ ~hi.nan /\ FxClose(ObsV(hi), PiHi(r, a), FxTol9)
         (* "(so pi_lo <= median <= pi_hi)": the median of the segment's bins *)
      [] c = "sm_pi_brackets_median" ->
            (NoErr(r) /\ Req(r, "pi")) =>
                /\ ColOK(r, "pi_lo") /\ ColOK(r, "pi_hi")
                /\ \A j \in 1..NSeg(r) :
                     LET a == ValsFx(r, Sel(r, j))  lo == r.out.pi_lo[j]  hi == r.out.pi_hi[j] IN
                     Len(a) > 0 => /\ ~lo.nan /\ ~hi.nan
                                   /\ LET med == Median(a) IN
                                      ZLe(ObsV(lo), ZAdd(med, SmUlp)) /\ ZLe(med, ZAdd(ObsV(hi), SmUlp))
         (* "a bootstrap confidence interval with ci_lo <= ci_hi inside the bins' range".  With smoothed = TRUE the    *)
         (* bootstrap replicates are drawn from a kernel density (Gaussian noise added to the values), which is not    *)
         (* confined to the bins' range: the range is claimed for the plain bootstrap only.                            *)
      [] c = "sm_ci_order_range" ->
            (NoErr(r) /\ Req(r, "ci")) =>
                /\ ColOK(r, "ci_lo") /\ ColOK(r, "ci_hi")
                /\ \A j \in 1..NSeg(r) :
                     LET a == ValsFx(r, Sel(r, j))  lo == r.out.ci_lo[j]  hi == r.out.ci_hi[j] IN
                     IF Len(a) = 0 THEN lo.nan /\ hi.nan
                     ELSE /\ ~lo.nan /\ ~hi.nan /\ ZLe(ObsV(lo), ObsV(hi))
                          /\ ~r.smoothed => SmMinLe(a, ZAdd(ObsV(lo), SmUlp)) /\ SmMaxGe(a, ZSub(ObsV(hi), SmUlp))
         (* "... that is reproducible run to run": a second call, made after the global generators were reseeded and  *)
         (* advanced, returns the same floats bit for bit                                                              *)
      [] c = "sm_ci_reproducible" ->
            (NoErr(r) /\ Req(r, "ci")) =>
                /\ r.err2 = ""
                /\ r.out.ci_lo = r.out.ci2_lo /\ r.out.ci_hi = r.out.ci2_hi
                /\ r.cib = r.cib2 /\ Len(r.cib) = NSeg(r)
         (* ---- bintest.  "it returns exactly the bins ..." presupposes which bins are tested at all *)
      [] c = "bt_tests_enclosed_bins" -> NoErr(r) => TestedOK(r)
         (* "(on-target only when asked)" *)
      [] c = "bt_on_target_only_when_asked" ->
            NoErr(r) => /\ r.target_only => \A m \in 1..NT(r) : ~BinAnti(r.bins[r.t_ids[m]])
                        /\ ~r.target_only => \A k \in 1..Len(r.bins) : (BinAnti(r.bins[k]) /\ Enclosed(r, k)) => k \in ToSet(r.t_ids)
         (* "p-values are two-sided normal tail probabilities of (log2 - segment mean)/sqrt(1 - weight)": the p-value  *)
         (* handed to the BH step lies in the table bracket of its exact z (one table unit of slack for the encoding) *)
      [] c = "bt_p_in_phi_bracket" ->
            (NoErr(r) /\ TestedOK(r)) =>
                /\ LogOK(r)
                /\ \A m \in 1..NT(r) : LET br == PBracket(r, r.t_ids[m])  p == r.p_raw[m] IN
                       ~p.nan /\ ZLe(br[1], ZAdd(ObsV(p), SmUlp)) /\ ZLe(ObsV(p), ZAdd(br[2], SmUlp))
         (* "adjusted by Benjamini-Hochberg exactly": value (10^-9: 12-digit encoding of <= 400 p-values), exact order *)
         (* structure (equal p -> identical q, smaller p -> q not larger, by float ranks), and the p_bintest column    *)
         (* is that vector                                                                                             *)
      [] c = "bt_bh_exact" ->
            NoErr(r) =>
                /\ LogOK(r)
                /\ \A m \in 1..NT(r) : ~r.p_raw[m].nan /\ ~r.q_log[m].nan
                /\ LET want == SmBHFx([m \in 1..NT(r) |-> ObsV(r.p_raw[m])]) IN
                   \A m \in 1..NT(r) : FxCloseAbs(ObsV(r.q_log[m]), want[m], FxTol9)
                /\ \A m, k \in 1..NT(r) : /\ r.prank[m] = r.prank[k] => r.qlogrank[m] = r.qlogrank[k]
                                          /\ r.prank[m] < r.prank[k] => r.qlogrank[m] <= r.qlogrank[k]
                /\ r.q1rank = r.qlogrank
         (* "returns exactly the bins whose adjusted p is below alpha": by exact float order (ranks), so the boundary  *)
         (* alpha = an adjusted p-value of the first run is decided; the returned rows carry the same adjusted p       *)
      [] c = "bt_hits_exactly_below_alpha" ->
            NoErr(r) =>
                /\ LogOK(r) /\ NoDup(r.hits)
                /\ ToSet(r.hits) = {r.t_ids[m] : m \in {x \in 1..NT(r) : r.q1rank[x] < r.alpha_rank}}
                /\ \A m \in 1..Len(r.hits) : r.hits[m] \in ToSet(r.t_ids) => r.q2rank[m] = r.q1rank[PosOf(r.t_ids, r.hits[m])]
         (* the same decision from the inputs alone, three-valued (DESIGN section 4 item 6) *)
      [] c = "bt_hits_by_table" ->
            (NoErr(r) /\ TestedOK(r)) =>
                LET q == BracketQ(r)  alpha == AlphaFx(r) IN
                \A m \in 1..NT(r) : /\ MustHit(q, m, alpha) => r.t_ids[m] \in ToSet(r.hits)
                                    /\ MustMiss(q, m, alpha) => r.t_ids[m] \notin ToSet(r.hits)
         (* ---- p_adjust_bh on rationals: q_(i) = min(1, min_{j >= i} n p_(j) / j) *)
      [] c = "bh_exact" ->
            NoErr(r) => /\ Len(r.qs) = Len(r.ps)
                        /\ LET want == SmBHRat(r.ps) IN
                           \A i \in 1..Len(r.ps) : /\ ~r.qs[i].nan
                                                   /\ FxCloseAbs(ObsV(r.qs[i]), RatFx(want[i]), FxTol9)
                                                   /\ r.ps[i][1] = 0 => ZIsZero(ObsV(r.qs[i]))
      [] c = "bh_order" ->
            NoErr(r) => /\ Len(r.qrank) = Len(r.ps)
                        /\ \A i, j \in 1..Len(r.ps) :
                             /\ (SmRatLe(r.ps[i], r.ps[j]) /\ SmRatLe(r.ps[j], r.ps[i])) => r.qrank[i] = r.qrank[j]
                             /\ SmRatLe(r.ps[i], r.ps[j]) => r.qrank[i] <= r.qrank[j]

(* undecided by the table: some tested bin is neither a must-hit nor a must-miss (counted, never a violation) *)
Undecided(c, r) ==
    /\ c = "bt_hits_by_table" /\ NoErr(r) /\ TestedOK(r)
    /\ LET q == BracketQ(r)  alpha == AlphaFx(r) IN
       \E m \in 1..NT(r) : ~MustHit(q, m, alpha) /\ ~MustMiss(q, m, alpha)

(* ================================================================= premise ============ *)
Row3Leq(x, y) == \/ x[1] < y[1]
                 \/ x[1] = y[1] /\ x[2] < y[2]
                 \/ x[1] = y[1] /\ x[2] = y[2] /\ x[3] <= y[3]
(* bin tables as tabio delivers them: sorted by (chromosome, start, end), positive width, weights in (0, 1] *)
BinsOK(r) == /\ \A k \in 1..Len(r.bins) : LET b == r.bins[k] IN
                    0 <= BinS(b) /\ BinS(b) < BinE(b) /\ 1 <= BinW(b) /\ BinW(b) <= r.WU /\ b[6] \in {0, 1} /\ b[7] \in {0, 1}
             /\ \A k \in 1..Len(r.bins) - 1 : Row3Leq(r.bins[k], r.bins[k + 1])
(* "segmentations of them": sorted, positive width, not overlapping one another *)
SegsOK(r) == /\ \A j \in 1..Len(r.segs) : 0 <= SegS(r.segs[j]) /\ SegS(r.segs[j]) < SegE(r.segs[j])
             /\ \A j \in 1..Len(r.segs) - 1 : LET x == r.segs[j]  y == r.segs[j + 1] IN
                    SegC(x) < SegC(y) \/ (SegC(x) = SegC(y) /\ SegE(x) <= SegS(y))
Distinct(seq) == Cardinality(ToSet(seq)) = Len(seq)
Premise(r) ==
    CASE r.op = "segmetrics" ->
            /\ r.LU > 0 /\ r.WU > 0 /\ BinsOK(r) /\ SegsOK(r)
            /\ ToSet(r.loc) \subseteq LocStats /\ ToSet(r.spr) \subseteq SprStats /\ ToSet(r.itv) \subseteq ItvStats
            /\ Distinct(r.loc) /\ Distinct(r.spr) /\ Distinct(r.itv)
            /\ 0 < r.an /\ r.an < r.ad                     \* "alpha in (0,1)"
            /\ r.boots >= 1
            /\ ToSet(r.icols) \cap StatColumns = {}
      [] r.op = "bintest" ->
            /\ r.LU > 0 /\ r.WU > 0 /\ BinsOK(r) /\ SegsOK(r)
            /\ r.hassegs => Len(r.segs) >= 1
            /\ r.pick = 0 => (0 < r.an /\ r.an < r.ad)
            (* weight exactly 1 on a bin exactly at its segment's level: z = 0/0, the property's quotient is undefined *)
            /\ \A k \in TestedSet(r) : ~(BinW(r.bins[k]) = r.WU /\ Resid2(r, k) = 0)
      [] r.op = "bh" ->
            \A i \in 1..Len(r.ps) : r.ps[i][2] > 0 /\ 0 <= r.ps[i][1] /\ r.ps[i][1] <= r.ps[i][2] /\ r.ps[i][2] <= 46340
      [] OTHER -> FALSE

(* ================================================================= A-layer ============ *)
(* ---- skgenome.intersect.iter_slices / by_shared_chroms / idx_ranges / _irange_simple / _irange_nested           *)
(* positions are indices into the table handed in (drop_low_coverage keeps the index labels)                       *)
ChromsOf(rows) == {rows[k][1] : k \in 1..Len(rows)}
(* groupby(sort = False): chromosomes in order of first appearance *)
RECURSIVE FirstSeen(_, _, _)
FirstSeen(rows, k, acc) == IF k > Len(rows) THEN acc
                           ELSE IF \E m \in 1..Len(acc) : acc[m] = rows[k][1] THEN FirstSeen(rows, k + 1, acc)
                           ELSE FirstSeen(rows, k + 1, Append(acc, rows[k][1]))
(* by_shared_chroms(segments, bins): the order in which the segments are visited (grouped by chromosome) *)
SegVisitOrder(segs) ==
    LET cs == FirstSeen(segs, 1, <<>>) IN
    FlattenSeq([n \in 1..Len(cs) |-> SelectSeq([j \in 1..Len(segs) |-> j], LAMBDA j : segs[j][1] = cs[n])])
(* idx: the surviving bins of the segment's chromosome (ascending table positions); searchsorted on a sorted       *)
(* column = counting                                                                                               *)
EndsMonotone(bins, idx) == \A m \in 1..Len(idx) - 1 : BinE(bins[idx[m]]) <= BinE(bins[idx[m + 1]])
CountIdx(bins, idx, P(_)) == Cardinality({m \in 1..Len(idx) : P(bins[idx[m]])})
(* mode "outer" *)
OuterSimple(bins, idx, s, e) ==
    LET i0 == CountIdx(bins, idx, LAMBDA b : BinE(b) <= s)          \* end.searchsorted(start, "right")
        i1 == CountIdx(bins, idx, LAMBDA b : BinS(b) < e)           \* start.searchsorted(end)
    IN IF i0 >= i1 THEN <<>> ELSE SubSeq(idx, i0 + 1, i1)
OuterNested(bins, idx, s, e) ==
    LET i1 == CountIdx(bins, idx, LAMBDA b : BinS(b) < e)
    IN SelectSeq(SubSeq(idx, 1, i1), LAMBDA k : s = 0 \/ BinE(bins[k]) > s)    \* `if start_val:` -- 0 skips the mask
(* mode "inner" *)
InnerSimple(bins, idx, s, e) ==
    LET i0 == CountIdx(bins, idx, LAMBDA b : BinS(b) < s)           \* start.searchsorted(start)
        i1 == CountIdx(bins, idx, LAMBDA b : BinE(b) <= e)          \* end.searchsorted(end, "right")
    IN IF i0 >= i1 THEN <<>> ELSE SubSeq(idx, i0 + 1, i1)
InnerNested(bins, idx, s, e) ==
    LET i0 == IF s = 0 THEN 0 ELSE CountIdx(bins, idx, LAMBDA b : BinS(b) < s)
    IN SelectSeq(SubSeq(idx, i0 + 1, Len(idx)), LAMBDA k : BinE(bins[k]) <= e)
SliceCode(bins, used, seg, mode) ==
    LET idx == SelectSeq(used, LAMBDA k : BinC(bins[k]) = SegC(seg)) IN
    IF idx = <<>> THEN <<>>                                     \* chromosome missing from the bins: empty index
    ELSE IF EndsMonotone(bins, idx)
         THEN (IF mode = "outer" THEN OuterSimple(bins, idx, SegS(seg), SegE(seg)) ELSE InnerSimple(bins, idx, SegS(seg), SegE(seg)))
         ELSE (IF mode = "outer" THEN OuterNested(bins, idx, SegS(seg), SegE(seg)) ELSE InnerNested(bins, idx, SegS(seg), SegE(seg)))
UsedSeq(r) == SetToSortSeq(UsedIdx(r), <)                       \* cnarr.drop_low_coverage() when skip_low
(* the j-th element of bins_log2s: the slices come out in visiting order and are zipped with the segment rows *)
SelCode(r, j) == SliceCode(r.bins, UsedSeq(r), r.segs[SegVisitOrder(r.segs)[j]], "outer")

(* ---- the stat function table with the on_array decorators.  Results: [nan, val] *)
SmVal(x) == [nan |-> FALSE, val |-> x]
SmNaN == [nan |-> TRUE, val |-> ZZero]
(* descriptives.biweight_midvariance: initial = biweight_location(a); MAD fallback iff the kept u sum to exactly 0 *)
BivarCode(a) == LET M == BiweightLocation(a)  b == BivarAt(a, M, 9) IN
                IF ZIsZero(b[3]) THEN BivarFallback(a, M) ELSE b[2]
(* descriptives.mean_squared_error after fix d7371cf ("MSE is calculated from zero"; no single-value shortcut) ...  *)
MseCode(d) == MseFromZero(d)
(* ... and before it: on_array(0) answered 0 for one value, and `initial = a.mean()` made it the variance           *)
MseCodeOld(d) == IF Len(d) = 1 THEN ZZero ELSE MseFromMean(d)
StatCode(name, a, d) ==
    LET n == Len(a) IN
    IF n = 0 THEN SmNaN
    ELSE CASE name = "mean"   -> SmVal(SmMean(a))                                 \* np.mean -> Series.mean
           [] name = "median" -> SmVal(Median(a))
           [] name = "mode"   -> SmVal(a[1])         \* KDE peak: not modelled (a data point; the constant on constant data)
           [] name = "p_ttest" -> SmNaN              \* Student t: not modelled
           [] name = "stdev"  -> SmVal(SmStdPop(d))                              \* np.std -> Series.std(ddof = 0)
           [] name = "mad"    -> SmVal(IF n = 1 THEN ZZero ELSE Mad(d, TRUE))    \* on_array(0)
           [] name = "mse"    -> SmVal(MseCode(d))
           [] name = "iqr"    -> SmVal(IF n = 1 THEN ZZero ELSE Iqr(d))
           [] name = "bivar"  -> SmVal(IF n = 1 THEN ZZero ELSE BivarCode(d))
           [] name = "sem"    -> IF n = 1 THEN SmNaN ELSE SmVal(SmSem(d))        \* scipy.stats.sem, ddof = 1
ToObs(x) == IF x.nan THEN [nan |-> TRUE, neg |-> FALSE, hi |-> 0, lo |-> 0]
            ELSE LET o == FxToObs(x.val) IN [nan |-> FALSE, neg |-> o.neg, hi |-> o.hi, lo |-> o.lo]
(* calc_intervals: NaN for a segment without bins; pi = the two percentiles; ci: one bin -> that value twice, else   *)
(* the seeded bootstrap -- an UNINTERPRETED kernel here (Mersenne Twister): the model answers [min, max]             *)
SmMin(a) == LET t == FxSortAsc(a) IN t[1]
SmMax(a) == LET t == FxSortAsc(a) IN t[Len(t)]
(* the result's columns: the segments' own, then location, spread, ci, pi in that order *)
ColsCode(r) == r.icols \o r.loc \o r.spr \o (IF Req(r, "ci") THEN <<"ci_lo", "ci_hi">> ELSE <<>>)
               \o (IF Req(r, "pi") THEN <<"pi_lo", "pi_hi">> ELSE <<>>)
ALayerSegmetrics(r) ==
    LET idx(j) == SelCode(r, j)
        col(name) == IF Req(r, name)
                     THEN [j \in 1..NSeg(r) |-> LET ix == idx(j) IN ToObs(StatCode(name, ValsFx(r, ix), DevsFx(r, ix, j)))]
                     ELSE <<>>
        itv(want, F(_)) == IF want THEN [j \in 1..NSeg(r) |-> LET a == ValsFx(r, idx(j)) IN
                                                              ToObs(IF Len(a) = 0 THEN SmNaN ELSE SmVal(F(a)))]
                           ELSE <<>>
        cilo == itv(Req(r, "ci"), SmMin)
        cihi == itv(Req(r, "ci"), SmMax)
        bits == IF Req(r, "ci") THEN [j \in 1..NSeg(r) |-> <<0, 0, 0, 0, 0, 0>>] ELSE <<>>
    IN [err |-> "", err2 |-> "",
        cols |-> ColsCode(r),
        osegs |-> r.segs, asegs |-> r.segs, cib |-> bits, cib2 |-> bits,
        out |-> [mean |-> col("mean"), median |-> col("median"), mode |-> col("mode"), p_ttest |-> col("p_ttest"),
                 stdev |-> col("stdev"), mad |-> col("mad"), mse |-> col("mse"), iqr |-> col("iqr"),
                 bivar |-> col("bivar"), sem |-> col("sem"),
                 ci_lo |-> cilo, ci_hi |-> cihi, ci2_lo |-> cilo, ci2_hi |-> cihi,
                 pi_lo |-> itv(Req(r, "pi"), LAMBDA a : PiLo(r, a)), pi_hi |-> itv(Req(r, "pi"), LAMBDA a : PiHi(r, a))]]

(* ---- CopyNumArray.residuals(segments) + do_bintest up to z_prob: the rows that reach z_prob, in order            *)
(* with segments: per visited segment the bins inside it (mode "inner"), empty groups skipped, concatenated; a bin  *)
(* reached twice keeps its first residual; the table is re-ordered to that index; without segments: every bin in    *)
(* table order, relative to the chromosome median.  Then the off-target rows are dropped when asked.                *)
RECURSIVE DropLaterDups(_, _)
DropLaterDups(seq, acc) == IF seq = <<>> THEN acc
                           ELSE IF \E m \in 1..Len(acc) : acc[m] = Head(seq) THEN DropLaterDups(Tail(seq), acc)
                           ELSE DropLaterDups(Tail(seq), Append(acc, Head(seq)))
AllBins(r) == [k \in 1..Len(r.bins) |-> k]
TestedCode(r) ==
    LET order == SegVisitOrder(r.segs)
        rows == IF r.hassegs
                THEN DropLaterDups(FlattenSeq([n \in 1..Len(order) |-> SliceCode(r.bins, AllBins(r), r.segs[order[n]], "inner")]), <<>>)
                ELSE AllBins(r)
    IN IF r.target_only THEN SelectSeq(rows, LAMBDA k : ~BinAnti(r.bins[k])) ELSE rows

(* ---- bintest.p_adjust_bh: sort descending, steps n/n, n/(n-1), .., n/1, running minimum, min(1, .), original order *)
RECURSIVE RunMin(_, _, _)
RunMin(v, k, acc) == IF k > Len(v) THEN acc
                     ELSE RunMin(v, k + 1, Append(acc, IF k = 1 THEN v[1] ELSE ZMin(acc[k - 1], v[k])))
BHCode(ps) ==
    LET n == Len(ps)
        desc == SortSeq([i \in 1..n |-> i], LAMBDA i, j : ZLt(ps[j], ps[i]))
        v == [k \in 1..n |-> ZDivTFast(ZMulInt(ps[desc[k]], n), ZFromInt(n - k + 1))]
        run == RunMin(v, 1, <<>>)
    IN [i \in 1..n |-> ZMin(FxOne, run[PosOf(desc, i)])]
ALayerBH(r) ==
    LET q == BHCode([i \in 1..Len(r.ps) |-> FxFromRat(r.ps[i][1], r.ps[i][2])])
        qs == [i \in 1..Len(q) |-> ToObs(SmVal(q[i]))]
        (* dense ranks of the exact adjusted values (what the float ranks must be order-isomorphic to) *)
        ex == SmBHRat(r.ps)
        rank(i) == Cardinality({RatFx(ex[j]) : j \in {x \in 1..Len(ex) : ~ZRatLe(ex[i], ex[x])}})
    IN [err |-> "", qs |-> qs, qrank |-> [i \in 1..Len(q) |-> rank(i)]]

ALayer(r) == CASE r.op = "segmetrics" -> ALayerSegmetrics(r)
               [] r.op = "bh" -> ALayerBH(r)
               [] OTHER -> [err |-> ""]

(* ================================================================= drift ============ *)
(* where the property leaves freedom, the code's own choices: column order; the order of the returned rows; the     *)
(* log2 column of the returned rows is the residual; one logged BH call per run                                    *)
Drift(r) ==
    /\ NoErr(r)
    /\ CASE r.op = "segmetrics" -> r.cols # ColsCode(r)
         [] r.op = "bintest" ->
              \/ r.t_ids # TestedCode(r)
              \/ r.hits # SelectSeq(r.t_ids, LAMBDA k : k \in ToSet(r.hits))
              \/ \E m \in 1..NT(r) : m <= Len(r.t_res2) /\ r.t_res2[m] # Resid2(r, r.t_ids[m])
         [] OTHER -> FALSE

(* ================================================================= known findings ============ *)
(* Both are repaired in /repo (fixed: entries in known_findings.json); the predicates stay as the characterisation  *)
(* of the affected inputs.                                                                                          *)
(* MseFromMean (fixed by d7371cf): mean_squared_error(initial=None) subtracted the mean (and answered 0 for a single *)
(* value), so `mse` was the variance of the deviations instead of their mean square.  Affected: some requested-mse   *)
(* segment whose deviations do not sum to zero.                                                                     *)
(* NoBinInsideASegment (fixed by 3f208b0): residuals() answered pd.Series([]) (dtype object) when no bin lies inside *)
(* a segment (or the bin table is empty), and z_prob then failed in scipy with a TypeError instead of do_bintest     *)
(* returning no bins.                                                                                               *)
KnownTriggers == {"MseFromMean", "NoBinInsideASegment"}
TriggerHolds(t, r) ==
    CASE t = "MseFromMean" ->
            /\ r.op = "segmetrics" /\ Req(r, "mse")
            /\ \E j \in 1..NSeg(r) : LET idx == Sel(r, j) IN
                   Len(idx) >= 1 /\ ISum([m \in 1..Len(idx) |-> BinLg(r.bins[idx[m]]) - SegLg(r.segs[j])]) # 0
      [] t = "NoBinInsideASegment" ->
            r.op = "bintest" /\ {k \in 1..Len(r.bins) : Enclosed(r, k)} = {}
      [] OTHER -> FALSE
=============================================================================
