--------------------------- MODULE Intervals ---------------------------
(* Interval tables of skgenome (GenomicArray) and the genome arithmetic on them.            *)
(*                                                                                          *)
(* A table is a sequence of rows <<c, s, e, g>>: chromosome id (a small integer; the        *)
(* harness maps ids to names whose *natural* order is the id order), 0-based half-open       *)
(* [s, e), and one extra field g (the "gene" column, a string; "" when absent).             *)
(*                                                                                          *)
(* P-layer  = the property as stated (C06), in "elementary interval" form: a base is        *)
(*            covered by a table iff the segment between two consecutive breakpoints that    *)
(*            contains it is, so every set-of-bases statement is decided by looking only at  *)
(*            the breakpoints -- exact for coordinates of any size.                          *)
(* A-layer  = the algorithm as skgenome implements it, case for case.                       *)
(* Verdicts come from the P-layer only; A-layer disagreement is MODEL-DRIFT.                 *)
EXTENDS Naturals, Integers, Sequences, FiniteSets, SequencesExt, FiniteSetsExt, Functions, TLC

C(r) == r[1]
S(r) == r[2]
E(r) == r[3]
G(r) == r[4]

Idx(t) == 1..Len(t)
Chroms(t) == {C(t[k]) : k \in Idx(t)}
OnChrom(t, c) == SelectSeq(t, LAMBDA r : C(r) = c)
Coords(t) == [k \in Idx(t) |-> <<C(t[k]), S(t[k]), E(t[k])>>]

RowLeq(x, y) == \/ C(x) < C(y)
                \/ C(x) = C(y) /\ S(x) < S(y)
                \/ C(x) = C(y) /\ S(x) = S(y) /\ E(x) <= E(y)
Sorted(t)    == \A k \in 1..Len(t)-1 : RowLeq(t[k], t[k+1])
PositiveW(t) == \A k \in Idx(t) : S(t[k]) < E(t[k])
NonNeg(t)    == \A k \in Idx(t) : 0 <= S(t[k])

(* ---------------------------------------------------------------- base-set semantics *)
BreaksOn(ts, c) == UNION {UNION {{S(t[k]), E(t[k])} : k \in {j \in Idx(t) : C(t[j]) = c}} : t \in ts}
AllChroms(ts)   == UNION {Chroms(t) : t \in ts}
Covers(t, c, x) == \E k \in Idx(t) : C(t[k]) = c /\ S(t[k]) <= x /\ x < E(t[k])
(* x ranges over left ends of elementary intervals; at the largest breakpoint nothing is covered *)
SameBases(ts, out, Want(_, _)) ==
    \A c \in AllChroms(ts \cup {out}) : \A x \in BreaksOn(ts \cup {out}, c) : Covers(out, c, x) <=> Want(c, x)

(* number of bases covered by t (for total_range_size) *)
RECURSIVE SumSeq(_)
SumSeq(s) == IF s = <<>> THEN 0 ELSE Head(s) + SumSeq(Tail(s))
CoveredBases(t) ==
    LET perChrom(c) ==
          LET bs == SetToSortSeq(BreaksOn({t}, c), <)
          IN SumSeq([k \in 1..Len(bs)-1 |-> IF Covers(t, c, bs[k]) THEN bs[k+1] - bs[k] ELSE 0])
        cs == SetToSortSeq(Chroms(t), <)
    IN SumSeq([k \in 1..Len(cs) |-> perChrom(cs[k])])

(* every output piece lies inside a source row of `a` on its chromosome and carries its extra field *)
FieldsFromSource(a, out) ==
    \A k \in Idx(out) : \E j \in Idx(a) :
        /\ C(a[j]) = C(out[k]) /\ S(a[j]) <= S(out[k]) /\ E(out[k]) <= E(a[j]) /\ G(a[j]) = G(out[k])

(* ================================================================= A-layer ============ *)
(* stable sort by (chromosome, start, end) *)
CoordLess(x, y) == RowLeq(x, y) /\ Coords(<<x>>) # Coords(<<y>>)
RECURSIVE InsertRow(_, _)
InsertRow(sorted, r) == IF sorted = <<>> THEN <<r>>
                        ELSE IF CoordLess(r, Head(sorted)) THEN <<r>> \o sorted
                        ELSE <<Head(sorted)>> \o InsertRow(Tail(sorted), r)
RECURSIVE SortRowsFrom(_, _)
SortRowsFrom(t, acc) == IF t = <<>> THEN acc ELSE SortRowsFrom(Tail(t), InsertRow(acc, Head(t)))
SortRows(t) == SortRowsFrom(t, <<>>)

(* distinct strings in order of first appearance, comma-joined  (combiners.join_strings) *)
RECURSIVE UniqSeq(_, _)
UniqSeq(s, acc) == IF s = <<>> THEN acc
                   ELSE IF \E k \in 1..Len(acc) : acc[k] = Head(s) THEN UniqSeq(Tail(s), acc)
                   ELSE UniqSeq(Tail(s), Append(acc, Head(s)))
RECURSIVE JoinComma(_)
JoinComma(s) == IF s = <<>> THEN "" ELSE IF Len(s) = 1 THEN s[1] ELSE s[1] \o "," \o JoinComma(Tail(s))
JoinStrings(s) == JoinComma(UniqSeq(s, <<>>))

(* merge.py::_nonoverlapping_groups on one chromosome's sorted rows:                       *)
(*   gap_k = start[k+1] - cummax(end)[k];  a new group starts iff gap_k > -bp               *)
RECURSIVE GroupSweep(_, _, _, _, _)
GroupSweep(rows, k, bp, curmax, acc) ==
    IF k > Len(rows) THEN acc
    ELSE IF acc # <<>> /\ ~(S(rows[k]) - curmax > -bp)
         THEN GroupSweep(rows, k+1, bp, IF E(rows[k]) > curmax THEN E(rows[k]) ELSE curmax,
                         [acc EXCEPT ![Len(acc)] = Append(@, rows[k])])
         ELSE GroupSweep(rows, k+1, bp, IF acc = <<>> \/ E(rows[k]) > curmax THEN E(rows[k]) ELSE curmax,
                         Append(acc, <<rows[k]>>))
(* NB the code's cummax runs over the whole chromosome table, not per group *)
Groups(rows, bp) == GroupSweep(rows, 1, bp, 0, <<>>)

MaxEnd(grp) == Max({E(grp[k]) : k \in Idx(grp)})
SquashGroup(grp) ==  \* _squash_tuples: first chromosome/start, max end, joined genes
    IF Len(grp) = 1 THEN grp[1]
    ELSE <<C(grp[1]), S(grp[1]), MaxEnd(grp), JoinStrings([k \in Idx(grp) |-> G(grp[k])])>>

FastPathMerge(t, bp) ==  \* gap sizes over the *whole* table (all chromosomes together)
    \A k \in 1..Len(t)-1 : S(t[k+1]) - Max({E(t[j]) : j \in 1..k}) > -bp

ChromSeq(t) == SetToSortSeq(Chroms(t), <)
MergeSweep(t, bp) ==
    IF t = <<>> \/ FastPathMerge(t, bp) THEN t
    ELSE LET st == SortRows(t)
             cs == ChromSeq(t)
         IN FlattenSeq([n \in 1..Len(cs) |->
               LET g == Groups(OnChrom(st, cs[n]), bp) IN [m \in 1..Len(g) |-> SquashGroup(g[m])]])

(* merge.py::_flatten_tuples *)
FlattenGroup(grp) ==
    IF Len(grp) = 1 THEN grp
    ELSE LET bs == SetToSortSeq(UNION {{S(grp[k]), E(grp[k])} : k \in Idx(grp)}, <)
         IN [m \in 1..Len(bs)-1 |->
               LET inplay == SelectSeq(grp, LAMBDA r : S(r) <= bs[m] /\ E(r) >= bs[m+1])
               IN <<C(grp[1]), bs[m], bs[m+1], JoinStrings([k \in Idx(inplay) |-> G(inplay[k])])>>]
FastPathFlatten(t) == \A k \in 1..Len(t)-1 : S(t[k+1]) >= Max({E(t[j]) : j \in 1..k})
FlattenAtBreaks(t) ==
    IF t = <<>> \/ FastPathFlatten(t) THEN t
    ELSE LET st == SortRows(t)
             cs == ChromSeq(t)
         IN FlattenSeq([n \in 1..Len(cs) |->
               LET g == Groups(OnChrom(st, cs[n]), 0) IN FlattenSeq([m \in 1..Len(g) |-> FlattenGroup(g[m])])])

(* subtract.py::_subtraction, case for case (after the fix: `other` is merged first).      *)
(* SubtractFirstLast is the four-case algorithm keyed on the first / last excluded row.    *)
Overl(k, b) == SelectSeq(b, LAMBDA r : C(r) = C(k) /\ E(r) > S(k) /\ S(r) < E(k))
Pieces(k, starts, ends) ==
    SelectSeq([n \in 1..Len(starts) |-> <<C(k), starts[n], ends[n], G(k)>>], LAMBDA p : E(p) > S(p))
Ends(ex)   == [n \in Idx(ex) |-> E(ex[n])]
Starts(ex) == [n \in Idx(ex) |-> S(ex[n])]
SubRow(k, b) ==
    LET ex == Overl(k, b) IN
    IF ex = <<>> THEN <<k>>
    ELSE LET keepL == S(k) < S(ex[1])
             keepR == E(k) > E(ex[Len(ex)])
         IN IF keepL /\ keepR THEN Pieces(k, <<S(k)>> \o Ends(ex), Starts(ex) \o <<E(k)>>)
            ELSE IF keepL     THEN Pieces(k, <<S(k)>> \o SubSeq(Ends(ex), 1, Len(ex)-1), Starts(ex))
            ELSE IF keepR     THEN Pieces(k, Ends(ex), SubSeq(Starts(ex), 2, Len(ex)) \o <<E(k)>>)
            ELSE IF Len(ex) > 1 THEN Pieces(k, SubSeq(Ends(ex), 1, Len(ex)-1), SubSeq(Starts(ex), 2, Len(ex)))
            ELSE <<>>
SubtractFirstLast(a, b) == IF b = <<>> THEN a ELSE FlattenSeq([n \in Idx(a) |-> SubRow(a[n], b)])
(* the repaired code merges the subtrahend first *)
SubtractMerged(a, b) == SubtractFirstLast(a, MergeSweep(b, 0))
(* when does the unrepaired first/last algorithm go wrong: some minuend row's overlapping   *)
(* subtrahend rows do not have non-decreasing ends (one is nested in / outlasted by an earlier one) *)
NestedSubtrahend(a, b) ==
    \E n \in Idx(a) : LET ex == Overl(a[n], b) IN \E p, q \in Idx(ex) : p < q /\ E(ex[q]) < E(ex[p])

(* intersect.py::iter_ranges(mode=trim) through GenomicArray.intersection *)
TrimTo(r, qs, qe) == <<C(r), IF S(r) < qs THEN qs ELSE S(r), IF E(r) > qe THEN qe ELSE E(r), G(r)>>
IntersectTrim(a, b) ==
    FlattenSeq([n \in Idx(b) |-> LET ov == Overl(b[n], a) IN [m \in Idx(ov) |-> TrimTo(ov[m], S(b[n]), E(b[n]))]])

(* subdivide.py::_split_targets;  Python round() is round-half-to-even *)
RoundHalfEven(num, den) ==   \* round(num/den), num >= 0, den > 0
    LET q == num \div den  r == num % den IN
    IF 2*r < den THEN q ELSE IF 2*r > den THEN q + 1 ELSE IF q % 2 = 0 THEN q ELSE q + 1
SplitRow(r, avg) ==
    LET span == E(r) - S(r)
        n0 == RoundHalfEven(span, avg)
        n  == IF n0 = 0 THEN 1 ELSE n0
    IN IF n = 1 THEN <<r>>
       ELSE [m \in 1..n |-> <<C(r), S(r) + ((m-1) * span) \div n,
                               IF m = n THEN E(r) ELSE S(r) + (m * span) \div n, G(r)>>]
Subdivide(t, avg, min) ==
    LET mt == MergeSweep(t, 0)
        keep == SelectSeq(mt, LAMBDA r : E(r) - S(r) >= min)
    IN FlattenSeq([n \in Idx(keep) |-> SplitRow(keep[n], avg)])

(* gary.py::resize_ranges;  size = -1 means no chrom_sizes given *)
ClipLo(x) == IF x < 0 THEN 0 ELSE x
ClipHi(x, size) == IF size >= 0 /\ x > size THEN size ELSE x
ResizeRow(r, bp, size) == <<C(r), ClipHi(ClipLo(S(r) - bp), size), ClipHi(ClipLo(E(r) + bp), size), G(r)>>
Resize(t, bp, size) ==
    LET moved == [n \in Idx(t) |-> ResizeRow(t[n], bp, size)]
    IN IF bp < 0 THEN SelectSeq(moved, LAMBDA r : E(r) - S(r) > 0) ELSE moved

(* ================================================================= P-layer ============ *)
(* record r: [op, a, b, out, err, p1, p2, p3] ; parameters p1..p3 per op, see Premise *)
StrictSortedDisjoint(out, gapmin) ==   \* same-chromosome neighbours: e_k + gapmin <= s_{k+1}
    \A k \in 1..Len(out)-1 :
        \/ C(out[k]) < C(out[k+1])
        \/ C(out[k]) = C(out[k+1]) /\ E(out[k]) + gapmin <= S(out[k+1])

(* subdivide, per merged region *)
SubdivOK(a, avg, min, out) ==
    LET mt == MergeSweep(a, 0) IN
    /\ PositiveW(out)
    /\ StrictSortedDisjoint(out, 0)
    /\ \A n \in Idx(mt) :
         LET R == mt[n]
             span == E(R) - S(R)
             inside == SelectSeq(out, LAMBDA o : C(o) = C(R) /\ S(o) >= S(R) /\ E(o) <= E(R))
             sizes == {E(inside[k]) - S(inside[k]) : k \in Idx(inside)}
             q == span \div avg
             rem == span % avg
             want == IF 2*rem < avg THEN {IF q = 0 THEN 1 ELSE q}
                     ELSE IF 2*rem > avg THEN {q + 1}
                     ELSE {IF q = 0 THEN 1 ELSE q, q + 1}     \* exact .5: either rounding accepted
         IN IF span < min THEN inside = <<>>
            ELSE /\ Len(inside) \in want
                 /\ S(inside[1]) = S(R) /\ E(inside[Len(inside)]) = E(R)
                 /\ \A k \in 1..Len(inside)-1 : E(inside[k]) = S(inside[k+1])
                 /\ Max(sizes) - Min(sizes) <= 1
    /\ \A k \in Idx(out) : \E n \in Idx(mt) : C(out[k]) = C(mt[n]) /\ S(out[k]) >= S(mt[n]) /\ E(out[k]) <= E(mt[n])

UnaryOps  == {"merge", "flatten", "subdivide", "resize", "total"}
BinaryOps == {"subtract", "intersect_trim"}

Clauses(op) ==
    CASE op = "merge"          -> {"merge_noerr", "merge_covers_union", "merge_sorted_disjoint_nonabutting",
                                   "merge_positive", "merge_groups"}
      [] op = "flatten"        -> {"flat_noerr", "flat_covers_union", "flat_sorted_disjoint", "flat_cut_at_boundaries",
                                   "flat_positive"}
      [] op = "subtract"       -> {"sub_noerr", "sub_covers_difference", "sub_fields", "sub_positive"}
      [] op = "intersect_trim" -> {"int_noerr", "int_covers_both", "int_fields", "int_positive"}
      [] op = "subdivide"      -> {"subdiv_noerr", "subdiv_bins"}
      [] op = "resize"         -> {"resize_noerr", "resize_exact"}
      [] op = "total"          -> {"total_noerr", "total_exact"}
      [] OTHER                 -> {}

NoErr(r) == r.err = ""

Holds(c, r) ==
    CASE c \in {"merge_noerr", "flat_noerr", "sub_noerr", "int_noerr", "subdiv_noerr", "resize_noerr", "total_noerr"}
            -> NoErr(r)
      [] c = "merge_covers_union" -> NoErr(r) => SameBases({r.a}, r.out, LAMBDA ch, x : Covers(r.a, ch, x))
      [] c = "merge_sorted_disjoint_nonabutting" ->
            (NoErr(r) /\ r.p1 = 0) => StrictSortedDisjoint(r.out, 1)
      [] c = "merge_positive" -> NoErr(r) => PositiveW(r.out)
      [] c = "merge_groups" -> NoErr(r) => Coords(r.out) = Coords(MergeSweep(SortRows(r.a), r.p1))
      [] c = "flat_covers_union" -> NoErr(r) => SameBases({r.a}, r.out, LAMBDA ch, x : Covers(r.a, ch, x))
      [] c = "flat_sorted_disjoint" -> NoErr(r) => StrictSortedDisjoint(r.out, 0)
      [] c = "flat_cut_at_boundaries" ->
            NoErr(r) => \A k \in Idx(r.out) : \A x \in BreaksOn({r.a}, C(r.out[k])) :
                            ~(S(r.out[k]) < x /\ x < E(r.out[k]))
      [] c = "flat_positive" -> NoErr(r) => PositiveW(r.out)
      [] c = "sub_covers_difference" ->
            NoErr(r) => SameBases({r.a, r.b}, r.out, LAMBDA ch, x : Covers(r.a, ch, x) /\ ~Covers(r.b, ch, x))
      [] c = "sub_fields" -> NoErr(r) => FieldsFromSource(r.a, r.out)
      [] c = "sub_positive" -> NoErr(r) => PositiveW(r.out)
      [] c = "int_covers_both" ->
            NoErr(r) => SameBases({r.a, r.b}, r.out, LAMBDA ch, x : Covers(r.a, ch, x) /\ Covers(r.b, ch, x))
      [] c = "int_fields" -> NoErr(r) => FieldsFromSource(r.a, r.out)
      [] c = "int_positive" -> NoErr(r) => PositiveW(r.out)
      [] c = "subdiv_bins" -> NoErr(r) => SubdivOK(r.a, r.p1, r.p2, r.out)
      [] c = "resize_exact" -> NoErr(r) => r.out = Resize(r.a, r.p1, r.p2)
      [] c = "total_exact" -> NoErr(r) => r.p3 = CoveredBases(r.a)

(* premises: positive-width rows, sorted as tabio.read delivers them; parameters sane *)
Premise(r) ==
    /\ PositiveW(r.a) /\ Sorted(r.a) /\ NonNeg(r.a)
    /\ r.op \in BinaryOps => (PositiveW(r.b) /\ Sorted(r.b) /\ NonNeg(r.b))
    /\ r.op = "merge" => r.p1 >= 0
    /\ r.op = "subdivide" => (r.p1 >= 1 /\ r.p2 >= 0)
    /\ r.op = "resize" => (r.p2 >= 0 => \A k \in Idx(r.a) : E(r.a[k]) <= r.p2)

(* A-layer result for the MODEL-DRIFT diagnostic (full rows incl. the extra field) *)
ALayer(r) ==
    CASE r.op = "merge"          -> MergeSweep(r.a, r.p1)
      [] r.op = "flatten"        -> FlattenAtBreaks(r.a)
      [] r.op = "subtract"       -> SubtractMerged(r.a, r.b)
      [] r.op = "intersect_trim" -> IntersectTrim(r.a, r.b)
      [] r.op = "subdivide"      -> Subdivide(r.a, r.p1, r.p2)
      [] r.op = "resize"         -> Resize(r.a, r.p1, r.p2)
      [] OTHER                   -> r.out
(* subdivide computes its cut points in floating point (start + int(i * (span / nbins))), which can fall one *)
(* base short of the exact quotient; the P-layer allows that (+-1), so the drift diagnostic does too        *)
Near(x, y) == x - y \in {-1, 0, 1}
SubdivNear(o, e) == /\ Len(o) = Len(e)
                    /\ \A k \in Idx(o) : C(o[k]) = C(e[k]) /\ Near(S(o[k]), S(e[k])) /\ Near(E(o[k]), E(e[k])) /\ G(o[k]) = G(e[k])
Drift(r) == /\ NoErr(r) /\ r.op # "total"
            /\ IF r.op = "subdivide" THEN ~SubdivNear(r.out, ALayer(r)) ELSE r.out # ALayer(r)

KnownTriggers == {"NestedSubtrahend"}
TriggerHolds(t, r) ==
    CASE t = "NestedSubtrahend" -> r.op = "subtract" /\ NestedSubtrahend(r.a, r.b)
      [] OTHER -> FALSE
=============================================================================
