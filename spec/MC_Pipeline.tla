--------------------------- MODULE MC_Pipeline ---------------------------
EXTENDS Pipeline
(* bound the exploration: high-level events are bounded by MaxEvents inside the actions;     *)
(* the VIEW hides nothing -- `path` is exactly what the replayer needs                        *)
Idle == pc = "idle"
=============================================================================
