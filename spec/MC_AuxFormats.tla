--------------------------- MODULE MC_AuxFormats ---------------------------
(* Design check + enumerator for X09 / AuxFormats.  Per operation, every input of a small scope (sequences of at  *)
(* most MaxLen items over a menu of gene models / features / dictionary lines / track blocks / VCF records / SEG   *)
(* rows, crossed with the options) together with the fixture *laid out by the specification*.  One call -> ret     *)
(* step; the invariant builds the record the modelled code (A-layer) would produce and checks every P-layer       *)
(* clause on it, except where a listed finding explains the clause (XTriggerClauses).  The dump is replayed into  *)
(* the real code (direction 1).  import-seg with --from-log10 is left to direction 2 (the modelled product has no *)
(* constructor for the %.6g text of a double product, only the closeness predicate).                              *)
EXTENDS AuxFormats
CONSTANTS Ops, MaxLen

GeneMenu == <<
   [gene |-> <<71, 49>>, acc |-> <<78, 77, 95, 49>>, chrom |-> <<99, 104, 114, 50>>, strand |-> <<43>>, tx |-> <<0, 100>>, cds |-> <<10, 90>>, exons |-> <<<<0, 20>>, <<50, 100>>>>],
   [gene |-> <<71, 50>>, acc |-> <<78, 77, 95, 50>>, chrom |-> <<99, 104, 114, 49>>, strand |-> <<45>>, tx |-> <<5, 60>>, cds |-> <<60, 60>>, exons |-> <<<<5, 60>>>>],
   [gene |-> <<71, 49>>, acc |-> <<78, 82, 95, 51>>, chrom |-> <<99, 104, 114, 49, 48>>, strand |-> <<43>>, tx |-> <<5, 60>>, cds |-> <<7, 50>>, exons |-> <<<<5, 9>>, <<20, 30>>, <<40, 60>>>>],
   [gene |-> <<65, 44, 66>>, acc |-> <<120, 46, 121, 45, 122>>, chrom |-> <<99, 104, 114, 88>>, strand |-> <<45>>, tx |-> <<299999000, 300000000>>, cds |-> <<299999000, 299999500>>, exons |-> <<<<299999000, 300000000>>>>] >>
FeatMenu == <<
   [chrom |-> <<99, 104, 114, 49>>, source |-> <<115, 114, 99>>, type |-> <<103, 101, 110, 101>>, s |-> 0, e |-> 100, score |-> NACell, strand |-> <<43>>, phase |-> <<46>>, attrs |-> <<<<<<73, 68>>, <<103, 49>>>>, <<<<78, 97, 109, 101>>, <<78, 65, 49>>>>>>],
   [chrom |-> <<99, 104, 114, 49>>, source |-> <<115, 114, 99>>, type |-> <<101, 120, 111, 110>>, s |-> 10, e |-> 50, score |-> <<"f", 0, -1, <<5>>>>, strand |-> <<45>>, phase |-> <<48>>, attrs |-> <<<<<<73, 68>>, <<101, 49>>>>, <<<<80, 97, 114, 101, 110, 116>>, <<103, 49>>>>, <<<<103, 101, 110, 101>>, <<71, 66>>>>>>],
   [chrom |-> <<99, 104, 114, 49, 48>>, source |-> <<115, 114, 99>>, type |-> <<101, 120, 111, 110>>, s |-> 10, e |-> 50, score |-> <<"i", 0, 7, <<>>>>, strand |-> <<63>>, phase |-> <<49>>, attrs |-> <<<<<<73, 68>>, <<101, 50>>>>, <<<<68, 98, 120, 114, 101, 102>>, <<71, 101, 110, 101, 73, 68, 58, 49, 50>>>>>>],
   [chrom |-> <<99, 104, 114, 50>>, source |-> <<115, 114, 99>>, type |-> <<103, 101, 110, 101>>, s |-> 4, e |-> 9, score |-> NACell, strand |-> <<46>>, phase |-> <<46>>, attrs |-> <<<<<<103, 101, 110, 101, 95, 105, 100>>, <<71, 73>>>>, <<<<116, 114, 97, 110, 115, 99, 114, 105, 112, 116, 95, 105, 100>>, <<71, 73, 46, 49>>>>>>],
   [chrom |-> <<99, 104, 114, 50>>, source |-> <<115, 114, 99>>, type |-> <<101, 120, 111, 110>>, s |-> 4, e |-> 9, score |-> NACell, strand |-> <<43>>, phase |-> <<50>>, attrs |-> <<<<<<65, 108, 116, 95, 78, 97, 109, 101>>, <<122, 122>>>>, <<<<78, 97, 109, 101>>, <<78, 66>>>>>>] >>
EntryMenu == <<
   <<"HD", <<120>>, 1>>,
   <<"SQ", <<99, 104, 114, 50>>, 300>>,
   <<"SQ", <<99, 104, 114, 49>>, 1000>>,
   <<"other", <<99, 104, 114, 49>>, 10>>,
   <<"badSN", <<99, 104, 114, 51>>, 7>>,
   <<"badLN", <<99, 104, 114, 51>>, 7>>,
   <<"SQ3", <<99, 104, 114, 77>>, 16571>> >>
BlockMenu == <<
   [hasline |-> FALSE, style |-> "plain", name |-> <<>>, desc |-> <<>>, shape |-> "3", rows |-> <<[chrom |-> <<99, 104, 114, 49>>, s |-> 0, e |-> 10, gene |-> <<65>>, strand |-> <<43>>]>>],
   [hasline |-> TRUE, style |-> "plain", name |-> <<84, 49>>, desc |-> <<109, 121, 32, 116, 114, 97, 99, 107, 32, 111, 110, 101>>, shape |-> "6", rows |-> <<[chrom |-> <<99, 104, 114, 50>>, s |-> 0, e |-> 10, gene |-> <<65>>, strand |-> <<43>>], [chrom |-> <<99, 104, 114, 49>>, s |-> 5, e |-> 20, gene |-> <<66>>, strand |-> <<45>>]>>],
   [hasline |-> TRUE, style |-> "descfirst", name |-> <<84, 50>>, desc |-> <<120, 32, 121>>, shape |-> "4", rows |-> <<[chrom |-> <<99, 104, 114, 50>>, s |-> 1, e |-> 2, gene |-> <<65>>, strand |-> <<43>>]>>],
   [hasline |-> TRUE, style |-> "quoted", name |-> <<84, 32, 51>>, desc |-> <<>>, shape |-> "3", rows |-> <<>>],
   [hasline |-> TRUE, style |-> "noname", name |-> <<>>, desc |-> <<122, 122>>, shape |-> "3", rows |-> <<[chrom |-> <<99, 104, 114, 51>>, s |-> 1, e |-> 2, gene |-> <<65>>, strand |-> <<43>>]>>] >>
VcfMenu == <<
   [chrom |-> <<99, 104, 114, 49>>, pos |-> 10, ref |-> <<65>>, alt |-> <<71>>, qual |-> <<46>>, info |-> <<>>],
   [chrom |-> <<99, 104, 114, 49>>, pos |-> 20, ref |-> <<65>>, alt |-> <<65, 67, 71, 84>>, qual |-> <<53, 48>>, info |-> <<<<<<68, 80>>, <<53>>>>>>],
   [chrom |-> <<99, 104, 114, 49>>, pos |-> 30, ref |-> <<65, 67, 71, 84>>, alt |-> <<65>>, qual |-> <<49, 48, 48, 48>>, info |-> <<<<<<68, 80>>, <<53>>>>, <<<<69, 78, 68>>, <<51, 51>>>>>>],
   [chrom |-> <<99, 104, 114, 49, 48>>, pos |-> 40, ref |-> <<78>>, alt |-> <<60, 68, 69, 76, 62>>, qual |-> <<46>>, info |-> <<<<<<83, 86, 84, 89, 80, 69>>, <<68, 69, 76>>>>, <<<<69, 78, 68>>, <<52, 48, 48>>>>, <<<<67, 73, 69, 78, 68>>, <<45, 53, 44, 53>>>>>>],
   [chrom |-> <<99, 104, 114, 50>>, pos |-> 60, ref |-> <<65>>, alt |-> <<71, 44, 67, 84>>, qual |-> <<51, 46, 53>>, info |-> <<<<<<65, 70>>, <<48, 46, 53>>>>, <<<<73, 77, 80, 82, 69, 67, 73, 83, 69>>, <<>>>>>>],
   [chrom |-> <<99, 104, 114, 50>>, pos |-> 50, ref |-> <<78>>, alt |-> <<60, 68, 69, 76, 62>>, qual |-> <<46>>, info |-> <<<<<<67, 73, 69, 78, 68>>, <<48>>>>, <<<<69, 78, 68>>, <<57, 48>>>>>>] >>
SegMenu == <<
   [sid |-> <<83, 49>>, chrom |-> <<49>>, s |-> 0, e |-> 100, probes |-> 10, mean |-> <<"f", 0, -1, <<3, 0, 1, 0, 3>>>>],
   [sid |-> <<83, 49>>, chrom |-> <<50, 51>>, s |-> 4, e |-> 50, probes |-> 3, mean |-> <<"i", 0, -1, <<>>>>],
   [sid |-> <<83, 50>>, chrom |-> <<50, 52>>, s |-> 0, e |-> 9, probes |-> 2, mean |-> <<"f", 1, 0, <<1, 2, 3, 4, 5, 6, 5>>>>],
   [sid |-> <<83, 50>>, chrom |-> <<102, 111, 111>>, s |-> 1, e |-> 3, probes |-> 1, mean |-> <<"i", 0, 2, <<>>>>] >>
m_txt == <<116, 120, 116>>
m_refflat == <<114, 101, 102, 102, 108, 97, 116>>
m_ID == <<73, 68>>
m_Name == <<78, 97, 109, 101>>
m_exon == <<101, 120, 111, 110>>
m_chr == <<99, 104, 114>>
m_one == <<49>>
m_uno == <<99, 104, 114, 85, 110, 111>>
m_foo == <<102, 111, 111>>
m_bar == <<98, 97, 114>>

RECURSIVE SeqsOver(_, _)
SeqsOver(n, k) == IF k = 0 THEN {<<>>} ELSE LET p == SeqsOver(n, k - 1) IN p \cup {Append(s, x) : s \in {q \in p : Len(q) = k - 1}, x \in 1..n}
Pick(menu, ix) == [j \in 1..Len(ix) |-> menu[ix[j]]]
Distinct(ix) == \A i, j \in 1..Len(ix) : i # j => ix[i] # ix[j]

RfInputs == {[op |-> "refflat", genes |-> Pick(GeneMenu, ix), mode |-> m, via |-> "read", ext |-> m_txt, file |-> RfLayout(Pick(GeneMenu, ix))]
                : ix \in SeqsOver(Len(GeneMenu), MaxLen), m \in {"tx", "cds", "exons", "both"}}
            \cup {[op |-> "refflat", genes |-> Pick(GeneMenu, ix), mode |-> "tx", via |-> "auto", ext |-> e, file |-> RfLayout(Pick(GeneMenu, ix))]
                : ix \in SeqsOver(3, MaxLen) \ {<<>>}, e \in {m_txt, m_refflat}}
NiInputs == {[op |-> "notimpl", genes |-> Pick(GeneMenu, ix), fmt |-> f, file |-> NiLayout(f, Pick(GeneMenu, ix))]
                : ix \in SeqsOver(Len(GeneMenu), 1) \ {<<>>}, f \in {"genepred", "genepredext", "refgene", "bed6"}}
GffInputs == {[op |-> "gff", feats |-> Pick(FeatMenu, ix), style |-> st, tag |-> tg, keep |-> kp, file |-> GffLayoutX(Pick(FeatMenu, ix), st)]
                : ix \in SeqsOver(Len(FeatMenu), MaxLen), st \in {"gff3", "gtf"}, tg \in {<<>>, m_ID, m_Name}, kp \in {<<>>, m_exon}}
DictInputs == {[op |-> "dict", entries |-> Pick(EntryMenu, ix), file |-> DictLayout(Pick(EntryMenu, ix))]
                : ix \in SeqsOver(Len(EntryMenu), MaxLen + 1)}
TrIx == {ix \in SeqsOver(Len(BlockMenu), MaxLen + 1) : \A k \in 2..Len(ix) : ix[k] # 1}
TrInputs == {[op |-> "tracks", blocks |-> Pick(BlockMenu, ix), browser |-> b, lines |-> TrLayout(Pick(BlockMenu, ix), b)]
                : ix \in TrIx, b \in BOOLEAN}
ViInputs == {[op |-> "vcfinfo", recs |-> Pick(VcfMenu, ix), reader |-> rd, file |-> ViLayout(Pick(VcfMenu, ix))]
                : ix \in {q \in SeqsOver(Len(VcfMenu), MaxLen) : Distinct(q)}, rd \in {"vcf-simple", "vcf-sites"}}
f_half == <<"f", 0, -1, <<5>>>>
f_15   == <<"f", 0, 0, <<1, 5>>>>
t_A1 == <<65, 49>>
TnRowMenu == {<<SCell(<<99, 104, 114, 49>>), ICell(c), ICell(c + 10), SCell(t_A1), l, d>> : c \in {0, 10}, l \in {f_half, NACell}, d \in {f_15, NACell}}
TnTables == UNION {[1..n -> TnRowMenu] : n \in 0..MaxLen}
TnSrc(rows) == Tbl(<<t_chromosome, t_start, t_end, t_gene, t_log2, t_depth>>, rows)
TnInputs == {[op |-> "tabna", src |-> TnSrc(rows), file |-> Render(Layout("tab", << <<t_verif, TnSrc(rows)>> >>))] : rows \in TnTables}
CMaps == << <<>>, HumanMap, << <<m_one, m_uno>>, <<m_foo, m_bar>> >> >>
CSpecs == <<"none", "human", "custom">>
IsBase(ix, pr, cm, px, ld) == [op |-> "impseg", rows |-> Pick(SegMenu, ix), probes |-> pr, cmap |-> CMaps[cm], cspec |-> CSpecs[cm],
                               prefix |-> px, log10 |-> FALSE, lead |-> ld, file |-> <<>>]
IsInputs == {[IsBase(ix, pr, cm, px, ld) EXCEPT !.file = IsLayout(IsBase(ix, pr, cm, px, ld))]
                : ix \in SeqsOver(Len(SegMenu), MaxLen) \ {<<>>}, pr \in BOOLEAN, cm \in 1..3, px \in {<<>>, m_chr}, ld \in {0, 1}}

VARIABLES inp, ph
vars == <<inp, ph>>
Init == /\ ph = "call"
        /\ inp \in (IF "refflat" \in Ops THEN RfInputs ELSE {}) \cup (IF "notimpl" \in Ops THEN NiInputs ELSE {})
                   \cup (IF "gff" \in Ops THEN GffInputs ELSE {}) \cup (IF "dict" \in Ops THEN DictInputs ELSE {})
                   \cup (IF "tracks" \in Ops THEN TrInputs ELSE {}) \cup (IF "vcfinfo" \in Ops THEN ViInputs ELSE {})
                   \cup (IF "tabna" \in Ops THEN TnInputs ELSE {}) \cup (IF "impseg" \in Ops THEN IsInputs ELSE {})
Next == ph = "call" /\ ph' = "ret" /\ UNCHANGED inp
Spec == Init /\ [][Next]_vars

Ext(r, f) == [x \in (DOMAIN r) \cup (DOMAIN f) |-> IF x \in DOMAIN f THEN f[x] ELSE r[x]]
IsTokA(c) == IF c[1] = "i" THEN IntText(c[3]) ELSE FmtG(CHOOSE x \in Round6Set(CDec(c)) : TRUE, 6)
IsFilesA(r) ==
    LET sids == IsSids(r)
        line(w) == <<IsName(r, w.chrom), IntText(w.s), IntText(w.e)>> \o (IF r.probes THEN <<IntText(w.probes)>> ELSE <<>>)
                   \o <<IsTokA(w.mean), t_dash>>
    IN [k \in 1..Len(sids) |-> <<sids[k] \o x_cns, <<IsHeaderA(r)>> \o [j \in 1..Len(IsRowsOf(r, sids[k])) |-> line(IsRowsOf(r, sids[k])[j])]>>]
(* the record the modelled code produces *)
ALayerRec(r) ==
    CASE r.op = "refflat" ->
            IF r.mode = "both" THEN Ext(r, [err |-> "ValueError", out |-> EmptyTbl, out2 |-> EmptyTbl, sniffed |-> ""])
            ELSE Ext(r, [err |-> "", out |-> RfReadA(r.file, r.mode),
                         sniffed |-> IF r.via = "auto" THEN ASniff(r.file, r.ext) ELSE "",
                         out2 |-> IF r.via = "auto" /\ AAutoFmt(r.file, r.ext) = "refflat" THEN RfReadA(r.file, "tx") ELSE EmptyTbl])
      [] r.op = "notimpl" -> Ext(r, [err |-> NiErrA(r.fmt)])
      [] r.op = "gff"     -> Ext(r, [err |-> "", out |-> GffReadA(r.file, GffTagsOf(r), r.keep)])
      [] r.op = "dict"    -> Ext(r, DictReadA(r.file))
      [] r.op = "tracks"  -> LET a == TrGroupsA(r.lines) IN Ext(r, [err |-> a.err, groups |-> a.groups, bed |-> TrBedA(r.lines), berr |-> ""])
      [] r.op = "vcfinfo" -> Ext(r, ViReadA(r.file))
      [] r.op = "tabna"   -> Ext(r, [err |-> "", out |-> TnReadA(r.file)])
      [] r.op = "impseg"  -> Ext(r, [err |-> "", files |-> IsFilesA(r)])
Explained(rec) == UNION {XTriggerClauses(t) : t \in {u \in XKnownTriggers : XTriggerHolds(u, rec)}}
DesignOK == ph = "ret" => LET rec == ALayerRec(inp) IN
                          /\ XPremise(rec)                                   \* the enumerated scope lies inside the premise
                          /\ \A c \in XClauses(rec.op) \ Explained(rec) : XHolds(c, rec)
                          /\ ~XDrift(rec)                                    \* the record-level A-layer agrees with its own judge
(* the listed findings are visible in the model: without the exemption the design check fails *)
DesignNoFindings == ph = "ret" => LET rec == ALayerRec(inp) IN \A c \in XClauses(rec.op) : XHolds(c, rec)
=============================================================================
