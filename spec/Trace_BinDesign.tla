--------------------------- MODULE Trace_BinDesign ---------------------------
(* Trace validation for X01: one recorded run of the REAL pipeline (do_access, do_target,       *)
(* do_antitarget, do_reference_flat, each fed the real output of the step before) per record;    *)
(* verdicts are carried as state (total verdicts) and read from the dump.  A clause counts as    *)
(* checked for a record only where it applies (BinDesign.Applies: the step was reached, ...).    *)
EXTENDS BinDesign, Json, IOUtils
Trace == JsonDeserialize(IOEnv.TRACE_FILE)
VARIABLES i, ph, failed, scope, triggers, drift, checked
vars == <<i, ph, failed, scope, triggers, drift, checked>>
Init == /\ i \in 1..Len(Trace) /\ ph = "call"
        /\ failed = {} /\ scope = TRUE /\ triggers = {} /\ drift = FALSE /\ checked = {}
Next == /\ ph = "call" /\ ph' = "ret" /\ UNCHANGED i
        /\ LET r == Trace[i] IN
           /\ scope' = Premise(r)
           /\ checked' = IF scope' THEN {c \in Clauses(r.op) : Applies(c, r)} ELSE {}
           /\ failed' = {c \in checked' : ~Claim(c, r)}
           /\ triggers' = IF scope' THEN {t \in KnownTriggers : TriggerHolds(t, r)} ELSE {}
           /\ drift' = (scope' /\ failed' = {} /\ Drift(r))
Spec == Init /\ [][Next]_vars
NoFailure == failed = {}
=============================================================================
