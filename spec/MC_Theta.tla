--------------------------- MODULE MC_Theta ---------------------------
(* Design check + enumerator for X03 / Theta: every input of the small scope, one call -> ret step; the invariant      *)
(* evaluates the A-layer (with the three findings of Theta.tla repaired: see ItCoded(carry = FALSE),                  *)
(* MtCodedOK(repaired = TRUE), and export_theta not failing on "normal, no probes") and checks every P-layer clause   *)
(* on it.  The dump of this run is replayed into the real code (direction 1):                                         *)
(*   unpipe        every name of <= MaxParts parts over a menu of labels (meaningless ones, equal lengths, empty)      *)
(*   import_theta  1..3 autosomal segments (+ a trailing chrX one) x 1..2 tumour populations x every matrix of          *)
(*                 copy numbers over {X, 0, 3} x ploidy                                                               *)
(*   export_theta  2 segments (chromosome pair x ratios x probes x weights old / modern / none x normal table)          *)
(*   metrics       1..3 coverage tables x 0..3 segment tables x skip_low x depth column                                *)
(*   import_picard 3 targets x coverage zero / positive x too_many x labels                                            *)
(*   theta_snps    one variant over (chromosome x indel x missing counts x alt > depth) next to a fixed good one        *)
EXTENDS Theta
CONSTANTS Ops, MaxParts

Tk(n) == <<ToString(n), "i", n, 0>>
ObsOfFx(a) == LET f == FxToObs(a) IN [nan |-> FALSE, neg |-> f.neg, hi |-> f.hi, lo |-> f.lo]
ObsNan == [nan |-> TRUE, neg |-> FALSE, hi |-> 0, lo |-> 0]

(* ---------------------------------------------------------------- unpipe *)
Labels == {"A", "B", "AB", "TERT", "-", "CGH", ""}
RECURSIVE PartSeqs(_)
PartSeqs(n) == IF n = 0 THEN {<<>>} ELSE LET p == PartSeqs(n - 1) IN p \cup {Append(s, x) : s \in {q \in p : Len(q) = n - 1}, x \in Labels}
UpInputs == {[op |-> "unpipe", parts |-> s, out |-> "", err |-> ""] : s \in PartSeqs(MaxParts) \ {<<>>}}

(* ---------------------------------------------------------------- import_theta *)
AutoSegs == << <<"chr", "1", 0, 100>>, <<"chr", "1", 100, 300>>, <<"chr", "2", 0, 50>> >>
Entries == {-1, 0, 3}
RECURSIVE Mats(_, _)
Mats(n, k) ==      \* all n x k matrices over Entries, as sequences of rows
    IF n = 0 THEN {<<>>}
    ELSE LET rows == IF k = 1 THEN {<<a>> : a \in Entries} ELSE {<<a, b>> : a \in Entries, b \in Entries}
         IN {Append(m, row) : m \in Mats(n - 1, k), row \in rows}
ItInput(n, k, withx, ploidy, C) ==
    [op |-> "import_theta", segs |-> SubSeq(AutoSegs, 1, n) \o (IF withx THEN << <<"chr", "X", 0, 50>> >> ELSE <<>>),
     ploidy |-> ploidy, C |-> C, nll |-> 12500, mu |-> IF k = 1 THEN <<300, 700>> ELSE <<300, 400, 300>>,
     p |-> [j \in 1..n |-> IF C[j][1] < 0 THEN -1 ELSE 100 * j],
     parsed |-> [ok |-> FALSE, nll |-> 0, mu_normal |-> 0, mu_tumors |-> <<>>, C |-> <<>>, p |-> <<>>], out |-> <<>>,
     exp |-> <<>>, exp_ok |-> FALSE, err |-> ""]
ItInScope == UNION {{ItInput(n, 1, wx, pl, C) : wx \in BOOLEAN, pl \in {2, 3}, C \in Mats(n, 1)} : n \in 1..3}
       \cup UNION {{ItInput(n, 2, wx, 2, C) : wx \in BOOLEAN, C \in Mats(n, 2)} : n \in 1..3}

(* ---------------------------------------------------------------- export_theta *)
ChromPairs == {<<"1", "1">>, <<"1", "2">>, <<"1", "X">>, <<"2", "X">>, <<"X", "X">>}
Ratios == {<<1, 2>>, <<3, 2>>}
ProbePairs == {<<1, 4>>, <<3, 3>>}
WeightPairs == {<<0, 0>>, <<2, 3>>, <<6, 10>>, <<4, 4>>}          \* WU = 4; <<0, 0>> = no weight column
NormalTables == {<<>>,
                 << <<"chr", "1", 0, 10, 0>>, <<"chr", "1", 10, 20, 8>>, <<"chr", "1", 25, 60, -4>>, <<"chr", "2", 5, 8, 4>>, <<"chr", "X", 0, 5, 0>> >>,
                 << <<"chr", "1", 0, 10, 0>>, <<"chr", "1", 10, 20, 4>>, <<"chr", "2", 40, 60, 4>> >>}
EtInput(cp, q1, q2, pp, hp, wp, nt) ==
    LET same == cp[1] = cp[2]
        w(k) == IF wp[1] = 0 THEN 1 ELSE wp[k]
    IN [op |-> "export_theta",
        segs |-> << <<"chr", cp[1], 0, 20, q1[1], q1[2], IF hp THEN pp[1] ELSE 1, w(1)>>,
                    <<"chr", cp[2], IF same THEN 20 ELSE 0, IF same THEN 50 ELSE 30, q2[1], q2[2], IF hp THEN pp[2] ELSE 1, w(2)>> >>,
        has_probes |-> hp, has_weight |-> wp[1] # 0, WU |-> 4, has_normal |-> nt # <<>>, normal |-> nt, LU |-> 4,
        cols |-> <<>>, out |-> <<>>, err |-> ""]
EtInputs == {EtInput(cp, q1, q2, pp, hp, wp, nt) : cp \in ChromPairs, q1 \in Ratios, q2 \in Ratios, pp \in ProbePairs,
                                                   hp \in BOOLEAN, wp \in WeightPairs, nt \in NormalTables}
         \cup {[EtInput(<<"1", "2">>, <<1, 1>>, <<1, 1>>, <<1, 1>>, hp, <<0, 0>>, <<>>) EXCEPT !.segs = <<>>] : hp \in BOOLEAN}

(* ---------------------------------------------------------------- metrics *)
MtBins(i) == << <<1, 0, 10, 8 * i, 0>>, <<1, 10, 20, 16, 0>>, <<1, 20, 30, -600, 0>>, <<1, 30, 40, 0, 1>>, <<1, 40, 50, 40, 0>>,
                <<2, 0, 10, -8, 0>>, <<2, 10, 20, 24 + i, 0>>, <<2, 30, 40, 12, 0>> >>
MtSegs(j) == << <<1, 0, 30, 8>>, <<1, 30, 50, 4 * j>>, <<2, 0, 25, 0>> >>
MtInputs == {[op |-> "metrics", LU |-> 32,
              samples |-> [i \in 1..ns |-> [bins |-> MtBins(i), fname |-> IF i = 2 THEN "dir/s2.cnr" ELSE "", sid |-> "s" \o ToString(i)]],
              nsegsets |-> ng, segsets |-> [j \in 1..ng |-> MtSegs(j)], skip_low |-> sl, has_depth |-> hd,
              out |-> <<>>, err |-> ""] : ns \in 1..3, ng \in 0..3, sl \in BOOLEAN, hd \in BOOLEAN}

(* ---------------------------------------------------------------- import_picard *)
IpRow(k, parts, rn) == <<"chr", ToString(k), 100 * k + 1, 100 * k + 50, parts, 50, IF rn = 0 THEN 0 ELSE 20, rn>>
IpInputs == {[op |-> "import_picard",
              rows |-> <<IpRow(1, pa, r1), IpRow(2, <<"CGH", "FOO", "-">>, r2), IpRow(3, <<"TERT", "TERT Promoter">>, r3)>>,
              CU |-> 8, too_many |-> tm, warned |-> FALSE, rank |-> <<1, 2, 3>>, out |-> <<>>, err |-> ""]
                : pa \in {<<"BRAF">>, <<"BRAF", "BRAF">>}, r1 \in {0, 4}, r2 \in {0, 8}, r3 \in {0, 3}, tm \in 0..2}

(* ---------------------------------------------------------------- theta_snps *)
SnpInputs == {[op |-> "theta_snps",
               rows |-> << <<pf, bs, 100, rl, 1, d, a, nd, na>>, <<"chr", "1", 200, 1, 1, 20, 5, 10, 2>> >>,
               has_n |-> hn, out |-> <<>>, err |-> ""]
                 : pf \in {"chr"}, bs \in {"1", "X", "M"}, rl \in {1, 2}, d \in {-1, 10}, a \in {-1, 4, 12}, nd \in {-1, 8},
                   na \in {-1, 3}, hn \in BOOLEAN}

VARIABLES inp, ph
vars == <<inp, ph>>
Init == /\ ph = "call"
        /\ inp \in (IF "unpipe" \in Ops THEN UpInputs ELSE {}) \cup (IF "import_theta" \in Ops THEN ItInScope ELSE {})
                   \cup (IF "export_theta" \in Ops THEN EtInputs ELSE {}) \cup (IF "metrics" \in Ops THEN MtInputs ELSE {})
                   \cup (IF "import_picard" \in Ops THEN IpInputs ELSE {}) \cup (IF "theta_snps" \in Ops THEN SnpInputs ELSE {})
Next == ph = "call" /\ ph' = "ret" /\ UNCHANGED inp
Spec == Init /\ [][Next]_vars

(* ---------------------------------------------------------------- the A-layer's output as a record *)
EtALayer(r) ==
    IF r.segs = <<>> THEN [r EXCEPT !.cols = <<"#ID", "chrm", "start", "end", "tumorCount", "normalCount">>]
    ELSE LET ks == EtKept(r)
             row(k) == LET x == ks[k]
                           chrm == IndexIn(FirstAppearance(ks), ChromOf(x))
                           br == EtRefBracket(r, x)
                       IN <<<<EtIdText(chrm, SegS(x), SegE(x)), "s", 0, 0>>, Tk(chrm), Tk(SegS(x)), Tk(SegE(x)),
                            Tk(CHOOSE c \in EtCountCands(EtTumorExact(r, k)) : TRUE),
                            Tk(IF br.empty THEN 0 ELSE CHOOSE c \in EtCountCands(EtNormalExact(r, k, br.lo)) : TRUE)>>
         IN [r EXCEPT !.cols = <<"#ID", "chrm", "start", "end", "tumorCount", "normalCount">>,
                      !.out = [k \in 1..Len(ks) |-> row(k)]]
ItALayer(r) ==
    LET a == ItCoded(r, FALSE)
        pw(cn) == ObsOfFx(IF cn = 0 THEN FxFromRat(1, 2 * r.ploidy) ELSE FxFromRat(cn, r.ploidy))
    IN [r EXCEPT !.out = [k \in 1..Len(a[2]) |-> [m \in 1..Len(a[2][k]) |-> Append(a[2][k][m], pw(a[2][k][m][5]))]],
                 !.parsed = [ok |-> TRUE, nll |-> r.nll, mu_normal |-> r.mu[1], mu_tumors |-> SubSeq(r.mu, 2, Len(r.mu)),
                             C |-> [k \in 1..NSub(r) |-> CopiesOf(r, k)], p |-> <<r.p>>],
                 !.exp_ok = TRUE, !.exp = [k \in 1..Len(ItKept(r)) |-> <<ItKept(r)[k][3], ItKept(r)[k][4]>>]]
BivarA(d) == LET M == BiweightLocation(d)  b == BivarAt(d, M, 9) IN IF ~b[1] \/ ZIsZero(b[3]) THEN BivarFallback(d, M) ELSE b[2]
MtALayer(r) ==
    IF ~Compatible(r) THEN [r EXCEPT !.err = "ValueError"]
    ELSE [r EXCEPT !.out = [i \in 1..NSamples(r) |->
            LET d == MtResFx(r, i)
                n == Len(d)
                st(v) == IF n = 0 THEN ObsNan ELSE IF n = 1 THEN ObsOfFx(ZZero) ELSE ObsOfFx(v)
            IN [sample |-> IF r.samples[i].fname # "" THEN r.samples[i].fname ELSE r.samples[i].sid,
                nseg |-> IF r.nsegsets = 0 THEN -1 ELSE Len(SegsetOf(r, i)),
                stdev |-> st(IF n > 1 THEN ThStdPop(d) ELSE ZZero), mad |-> st(IF n > 1 THEN Mad(d, TRUE) ELSE ZZero),
                iqr |-> st(IF n > 1 THEN Iqr(d) ELSE ZZero), bivar |-> st(IF n > 1 THEN BivarA(d) ELSE ZZero)]]]
IpALayer(r) ==
    [r EXCEPT !.warned = IpZeroCount(r) > r.too_many,
              !.out = [k \in 1..Len(r.rows) |-> LET x == r.rows[k] IN
                          <<x[1], x[2], x[3] - 1, x[4], CHOOSE nm \in SeqToSet(x[5]) : UnpipeOK(x[5], nm), x[6], x[7], x[8],
                            x[8] = 0, IF x[8] = 0 THEN ObsOfFx(ZZero) ELSE ObsOfFx(FxFromRat(x[8], r.CU))>>]]
ALayerRec(r) ==
    CASE r.op = "unpipe" -> [r EXCEPT !.out = CHOOSE nm \in SeqToSet(r.parts) : UnpipeOK(r.parts, nm)]
      [] r.op = "import_theta" -> ItALayer(r)
      [] r.op = "export_theta" -> EtALayer(r)
      [] r.op = "metrics" -> MtALayer(r)
      [] r.op = "import_picard" -> IpALayer(r)
      [] r.op = "theta_snps" -> [r EXCEPT !.out = <<SnpTumorCoded(r), SnpNormalCoded(r)>>]
DesignOK == ph = "ret" => (Premise(inp) => LET rec == ALayerRec(inp) IN \A c \in Clauses(inp.op) : Holds(c, rec))
=============================================================================
